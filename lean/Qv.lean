import Qv.Model.Basic
import Qv.Model.Arith
import Qv.Model.Values
import Qv.Model.Expr
import Qv.Model.Sat
import Qv.Model.Extrema
import Qv.Model.BoolArith
import Qv.Model.Pcbo
