import Qv.Driver.C05
import Qv.Driver.C02
import Qv.Driver.C19
import Qv.Driver.C19H
import Qv.Driver.C15
import Qv.Driver.C18
import Qv.Driver.C07
import Qv.Driver.C06
import Qv.Driver.C09
import Qv.Driver.C11
import Qv.Driver.C04
import Qv.Driver.C01
import Qv.Driver.C13
import Qv.Driver.C03
import Qv.Driver.C10
import Qv.Driver.C14
import Qv.Driver.C17
import Qv.Driver.C16
import Qv.Driver.C12
import Qv.Driver.C08
/-! Line-protocol driver: one JSON object per input line, one JSON object per output line.
Each `Qv/Driver/Cxx.lean` exports `handlersCxx`; add its import above and its list below. -/
open Lean Qv Qv.Drv Qv.Drv.C19 Qv.Drv.C19H Qv.Drv.C15 Qv.Drv.C18 Qv.Drv.C07 Qv.Drv.C06 Qv.Drv.C09 Qv.Drv.C11 Qv.Drv.C04 Qv.Drv.C01 Qv.Drv.C13 Qv.Drv.C03 Qv.Drv.C10 Qv.Drv.C14 Qv.Drv.C17 Qv.Drv.C16 Qv.Drv.C12 Qv.Drv.C08

def allHandlers : List (String × (Json → Except String Json)) :=
  handlersC05 ++ handlersC02 ++ handlersC19 ++ handlersC19H ++ handlersC15 ++ handlersC18 ++ handlersC07 ++ handlersC06 ++ handlersC09 ++ handlersC11 ++ handlersC04 ++ handlersC01 ++ handlersC13 ++ handlersC03 ++ handlersC10 ++ handlersC14 ++ handlersC17 ++ handlersC16 ++ handlersC12 ++ handlersC08

def dispatch (j : Json) : Except String Json := do
  let op ← j.getObjVal? "op" >>= Json.getStr?
  if op == "ping" then return Json.mkObj [("pong", true)]
  match allHandlers.find? (fun h => h.1 == op) with
  | some h => h.2 j
  | none => throw s!"unknown op {op}"

partial def loop (h : IO.FS.Stream) (out : IO.FS.Stream) : IO Unit := do
  let line ← h.getLine
  if line.isEmpty then return ()
  if line.trimAscii.toString.isEmpty then loop h out else
  match Json.parse line >>= dispatch with
  | .ok j => out.putStrLn j.compress
  | .error e => out.putStrLn (Json.mkObj [("driver_error", Json.str e)]).compress
  loop h out

def main : IO Unit := do
  let out ← IO.getStdout
  loop (← IO.getStdin) out
  out.flush
