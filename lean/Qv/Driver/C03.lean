import Qv.Driver.Json
import Qv.Model.Pcso
namespace Qv.Drv.C03
open Lean Qv Qv.Drv Qv.Pcso

def relOfString : String → Except String Rel
  | "eq" => pure .eq | "ne" => pure .ne | "lt" => pure .lt | "le" => pure .le
  | "gt" => pure .gt | "ge" => pure .ge | s => throw s!"bad rel {s}"

def consJson (cs : List (Rel × Poly)) : Json :=
  Json.arr (cs.map (fun c => Json.arr #[Json.str c.1.name, canonJson c.2])).toArray

/-- spin assignment number `b` over the labels `0 .. n-1`: bit `i` of `b` set ↦ `-1`, else `1` -/
def spinBits (n b : Nat) : Var → Rat := fun i => if i < n ∧ b.testBit i then -1 else 1

def pstJson (n : Nat) (st : PSt) (h : Option St) : Json :=
  Json.mkObj [("terms", canonJson st.terms), ("anc", (st.anc : Json)), ("cons", consJson st.cons),
    ("warns", Json.arr (st.warns.map Json.str).toArray),
    ("tags", Json.arr (st.tags.map Json.str).toArray),
    ("valid", Json.arr ((List.range (2 ^ n)).map (fun b => Json.bool (Pcso.isValid st (spinBits n b)))).toArray),
    ("helper", match h with
      | none => Json.null
      | some h => Json.mkObj [("terms", canonJson h.terms), ("anc", (h.anc : Json)), ("cons", consJson h.cons)])]

/-- the helper PCBO of the call (what `_empty_pcbo(self).add_constraint_R_zero(...)` returns), recomputed from the
same model functions `addConstraint` is made of; `none` when `lam = 0` -/
def helperOf (r : Rel) (st : PSt) (H : Poly) (lam : Rat) (lt : Bool) (b : Option Rat × Option Rat) (sup : Bool) :
    Except Err (Option St) := do
  let H' ← spinCopy H
  if lam = 0 then pure none else do
  let P ← boolImage H'
  pure (some (helper r (st.append r H') P lam lt b sup))

/-- op "pcso_cons": a sequence of comparison constraints added to one fresh PCSO; the state after every step.
each element: {rel, H (raw dict items in insertion order), lam, lt, lo, hi, sup} -/
def handleCons (j : Json) : Except String Json := do
  let n ← j.getObjVal? "n" >>= Json.getNat?
  let seq ← j.getObjVal? "seq" >>= Json.getArr?
  let (_, outs) ← seq.toList.foldlM (fun (acc : PSt × List Json) c => do
    let (st, outs) := acc
    let rel ← c.getObjVal? "rel" >>= Json.getStr? >>= relOfString
    let H ← c.getObjVal? "H" >>= polyOfJson
    let lam ← c.getObjVal? "lam" >>= ratOfJson
    let lt ← c.getObjVal? "lt" >>= Json.getBool?
    let lo ← c.getObjVal? "lo" >>= optRat
    let hi ← c.getObjVal? "hi" >>= optRat
    let sup := (c.getObjVal? "sup" >>= Json.getBool?).toOption.getD false
    match Pcso.addConstraint rel st H lam lt (lo, hi) sup, helperOf rel st H lam lt (lo, hi) sup with
    | .ok st', .ok h => pure (st', outs ++ [pstJson n st' h])
    | .error e, _ => pure (st, outs ++ [errJson e])
    | _, .error e => pure (st, outs ++ [errJson e])) (({} : PSt), ([] : List Json))
  pure (Json.arr outs.toArray)

def handlersC03 : List (String × (Json → Except String Json)) := [("pcso_cons", handleCons)]

end Qv.Drv.C03
