import Qv.Driver.Json
import Qv.Model.Pcbo
namespace Qv.Drv
open Lean Qv

def relOfString : String → Except String Rel
  | "eq" => pure .eq | "ne" => pure .ne | "lt" => pure .lt | "le" => pure .le
  | "gt" => pure .gt | "ge" => pure .ge | s => throw s!"bad rel {s}"

def stJson (st : St) : Json :=
  Json.mkObj [("terms", canonJson st.terms), ("anc", (st.anc : Json)),
    ("cons", Json.arr (st.cons.map (fun c => Json.arr #[Json.str c.1.name, canonJson c.2])).toArray),
    ("warns", Json.arr (st.warns.map Json.str).toArray),
    ("tags", Json.arr (st.tags.map Json.str).toArray)]

/-- op "cons": a sequence of comparison constraints added to one fresh PCBO.
each element: {rel, P (terms of PUBO(P) in insertion order), lam, lt, lo, hi, sup} -/
def handleCons (j : Json) : Except String Json := do
  let seq ← j.getObjVal? "seq" >>= Json.getArr?
  let st ← seq.toList.foldlM (fun (st : St) c => do
    let rel ← c.getObjVal? "rel" >>= Json.getStr? >>= relOfString
    let P ← c.getObjVal? "P" >>= polyOfJson
    let lam ← c.getObjVal? "lam" >>= ratOfJson
    let lt ← c.getObjVal? "lt" >>= Json.getBool?
    let lo ← c.getObjVal? "lo" >>= optRat
    let hi ← c.getObjVal? "hi" >>= optRat
    let sup := (c.getObjVal? "sup" >>= Json.getBool?).toOption.getD false
    pure (addConstraint rel st P lam lt (lo, hi) sup)) ({} : St)
  pure (stJson st)

def handlersC02 : List (String × (Json → Except String Json)) := [("cons", handleCons)]

end Qv.Drv
