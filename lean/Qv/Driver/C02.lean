import Qv.Driver.Json
import Qv.Model.Pcbo
namespace Qv.Drv
open Lean Qv

def relOfString : String → Except String Rel
  | "eq" => pure .eq | "ne" => pure .ne | "lt" => pure .lt | "le" => pure .le
  | "gt" => pure .gt | "ge" => pure .ge | s => throw s!"bad rel {s}"

def stJson (st : St) : Json :=
  Json.mkObj [("terms", canonJson st.terms), ("anc", (st.anc : Json)),
    ("cons", Json.arr (st.cons.map (fun c => Json.arr #[Json.str c.1.name, canonJson c.2])).toArray),
    ("warns", Json.arr (st.warns.map Json.str).toArray),
    ("tags", Json.arr (st.tags.map Json.str).toArray)]

/-- the assignment number `m` of `n` variables: variable `i` gets bit `n-1-i` of `m`
(the order of `itertools.product((0,1), repeat=n)`); every other label gets 0 -/
def assignOfNat (n m : Nat) : Var → Rat := fun i =>
  if i < n then (if (m >>> (n - 1 - i)) % 2 = 1 then 1 else 0) else 0

/-- op "cons": a sequence of comparison constraints added to one fresh PCBO.
each element: {rel, P, lam, lt, lo, hi, sup, raw}.  `P` is the terms of `PUBO(P)` in insertion order, or
(with `raw: true`) the user's raw items, to which the model applies `PUBO(...)` itself.
Optional top-level fields: `trace: true` adds the state after every step (`steps`);
`n: k` adds `valid`, the table of `is_solution_valid` over all assignments of the labels `0..k-1`. -/
def handleCons (j : Json) : Except String Json := do
  let seq ← j.getObjVal? "seq" >>= Json.getArr?
  let (st, steps) ← seq.toList.foldlM (fun (acc : St × List Json) c => do
    let st := acc.1
    let rel ← c.getObjVal? "rel" >>= Json.getStr? >>= relOfString
    let P0 ← c.getObjVal? "P" >>= polyOfJson
    let raw := (c.getObjVal? "raw" >>= Json.getBool?).toOption.getD false
    let P := if raw then constructB P0 else P0
    let lam ← c.getObjVal? "lam" >>= ratOfJson
    let lt ← c.getObjVal? "lt" >>= Json.getBool?
    let lo ← c.getObjVal? "lo" >>= optRat
    let hi ← c.getObjVal? "hi" >>= optRat
    let sup := (c.getObjVal? "sup" >>= Json.getBool?).toOption.getD false
    let st' := addConstraint rel st P lam lt (lo, hi) sup
    pure (st', acc.2 ++ [stJson st'])) (({} : St), [])
  let trace := (j.getObjVal? "trace" >>= Json.getBool?).toOption.getD false
  let out := stJson st
  let out := if trace then out.setObjVal! "steps" (Json.arr steps.toArray) else out
  match (j.getObjVal? "n" >>= Json.getNat?).toOption with
  | some n =>
    let tbl := (List.range (2 ^ n)).map (fun m => Json.bool (isValid st (assignOfNat n m)))
    pure (out.setObjVal! "valid" (Json.arr tbl.toArray))
  | none => pure out

def handlersC02 : List (String × (Json → Except String Json)) := [("cons", handleCons)]

end Qv.Drv
