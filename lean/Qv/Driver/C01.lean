import Qv.Driver.Json
import Qv.Model.Reduce
namespace Qv.Drv.C01
open Lean Qv Qv.Reduce

def lamOfJson (j : Json) : Except String Lam := do
  let kind ← j.getArrVal? 0 >>= Json.getStr?
  match kind with
  | "default" => pure .default
  | "const" => do pure (.const (← j.getArrVal? 1 >>= ratOfJson))
  | "abs" => do pure (.absTimes (← j.getArrVal? 1 >>= ratOfJson))
  | "affine" => do pure (.affine (← j.getArrVal? 1 >>= ratOfJson) (← j.getArrVal? 2 >>= ratOfJson))
  | "sq" => do pure (.sqPlus (← j.getArrVal? 1 >>= ratOfJson))
  | _ => throw s!"bad lam {kind}"

def targetOfString : String → Except String Target
  | "qubo" => pure .qubo | "quso" => pure .quso | "pubo" => pure .pubo | "puso" => pure .puso
  | s => throw s!"bad target {s}"

def stepJson (s : Step) : Json := Json.arr #[(s.x : Json), (s.y : Json), (s.z : Json), Json.bool s.fresh]

def certJson (c : TermCert) : Json :=
  Json.mkObj [("key", keyJson c.key), ("v", ratJson c.v), ("lam", ratJson c.lam),
    ("steps", Json.arr (c.steps.map stepJson).toArray), ("final", keyJson c.final)]

def stepOfJson (j : Json) : Except String Step := do
  pure { x := ← j.getArrVal? 0 >>= Json.getNat?, y := ← j.getArrVal? 1 >>= Json.getNat?,
         z := ← j.getArrVal? 2 >>= Json.getNat?, fresh := ← j.getArrVal? 3 >>= Json.getBool? }

def certOfJson (j : Json) : Except String TermCert := do
  pure { key := ← j.getObjVal? "key" >>= natList, v := ← j.getObjVal? "v" >>= ratOfJson,
         lam := ← j.getObjVal? "lam" >>= ratOfJson,
         steps := ← (← j.getObjVal? "steps" >>= Json.getArr?).toList.mapM stepOfJson,
         final := ← j.getObjVal? "final" >>= natList }

def mappingOfJson (j : Json) : Except String Mapping := do
  (← j.getArr?).toList.mapM (fun t => do
    pure (← t.getArrVal? 0 >>= Json.getNat?, ← t.getArrVal? 1 >>= Json.getNat?))

def optNat (j : Json) : Except String (Option Nat) :=
  if j.isNull then pure none else do pure (some (← j.getNat?))

def redsJson (r : Reds) : Json :=
  Json.arr (r.map (fun e => Json.arr #[(e.1.1 : Json), (e.1.2 : Json), (e.2 : Json)])).toArray

/-- op "reduce": one of the eight routes (`spin` × target) through the implementation model; the model's own
certificate is validated by the specification checker (`self_check`). -/
def handleReduce (j : Json) : Except String Json := do
  let spin ← j.getObjVal? "spin" >>= Json.getBool?
  let target ← j.getObjVal? "target" >>= Json.getStr? >>= targetOfString
  let terms ← j.getObjVal? "terms" >>= polyOfJson
  let m ← j.getObjVal? "mapping" >>= mappingOfJson
  let n ← j.getObjVal? "n" >>= Json.getNat?
  let cdeg ← j.getObjVal? "cdeg" >>= Json.getNat?
  let deg ← j.getObjVal? "deg" >>= optNat
  let lam ← j.getObjVal? "lam" >>= lamOfJson
  let pairs ← (← j.getObjVal? "pairs" >>= Json.getArr?).toList.mapM natList
  match routeC spin target terms m n cdeg deg lam pairs with
  | .error e => pure (errJson e)
  | .ok out =>
    match out.red with
    | none => pure (Json.mkObj [("res", canonJson out.res), ("shortcut", true)])
    | some o =>
      let self : Json := match replay n o.deg o.mapped o.certs with
        | .error e => Json.str ("rejected: " ++ e)
        | .ok st => if st.D = o.D ∧ st.next = o.next then Json.str "ok" else Json.str "replayed D differs"
      pure (Json.mkObj [("res", canonJson out.res), ("shortcut", false), ("D", canonJson o.D),
        ("deg", (o.deg : Json)), ("mapped", polyJson o.mapped), ("next", (o.next : Json)),
        ("cert", Json.arr (o.certs.map certJson).toArray), ("self_check", self)])

/-- op "reduce_replay": validate a certificate (as recorded by the hook in `/repo`) with the specification checker.
`terms`/`mapping` are the items of the boolean model that was reduced and its mapping; the mapped terms are
computed by the model's `mapSelf`.  `post` optionally converts the replayed `D` (`puso` / `quso`). -/
def handleReplay (j : Json) : Except String Json := do
  let terms ← j.getObjVal? "terms" >>= polyOfJson
  let m ← j.getObjVal? "mapping" >>= mappingOfJson
  let n ← j.getObjVal? "n" >>= Json.getNat?
  let deg ← j.getObjVal? "deg" >>= Json.getNat?
  let certs ← (← j.getObjVal? "cert" >>= Json.getArr?).toList.mapM certOfJson
  let post := (j.getObjVal? "post" >>= Json.getStr?).toOption.getD ""
  match mapSelf m terms [] [] with
  | .error e => pure (Json.mkObj [("ok", false), ("why", Json.str ("mapping: " ++ e.name))])
  | .ok (mapped, _) =>
    match replay n deg mapped certs with
    | .error e => pure (Json.mkObj [("ok", false), ("why", Json.str e)])
    | .ok st =>
      let res : Except Err Poly := match post with
        | "puso" => .ok (puboToPuso st.D)
        | "quso" => quboToQuso st.D []
        | _ => .ok st.D
      match res with
      | .error e => pure (Json.mkObj [("ok", false), ("why", Json.str ("post: " ++ e.name))])
      | .ok r =>
        pure (Json.mkObj [("ok", true), ("D", canonJson st.D), ("res", canonJson r), ("next", (st.next : Json)),
          ("red", redsJson st.red)])

def handlersC01 : List (String × (Json → Except String Json)) :=
  [("reduce", handleReduce), ("reduce_replay", handleReplay)]

end Qv.Drv.C01
