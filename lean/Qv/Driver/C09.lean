import Qv.Driver.Json
import Qv.Model.BruteEntry
/-! Driver handlers for C09 (brute-force solvers).  Trusted glue: JSON in / out only. -/
namespace Qv.Drv.C09
open Lean Qv Qv.Brute

def pairsOfJson (j : Json) : Except String Assign := do
  (← j.getArr?).toList.mapM (fun t => do
    let i ← t.getArrVal? 0 >>= Json.getNat?
    let v ← t.getArrVal? 1 >>= ratOfJson
    pure (i, v))

def assignJson (x : Assign) : Json :=
  Json.arr (x.map (fun p => Json.arr #[(p.1 : Nat), ratJson p.2])).toArray

/-- equality of two assignments as Python dicts (order-insensitive; labels are distinct in both) -/
def sameDict (a b : Assign) : Bool :=
  a.length == b.length && a.all (fun p => aget? b p.1 == some p.2)

/-- number of entries equal to 1 -/
def ones (x : Assign) : Nat := (x.filter (fun p => p.2 == 1)).length

/-- the predicate menu shared with `harness/c09.py` -/
def validOfJson (j : Json) : Except String (Assign → Bool) := do
  let t ← j.getObjVal? "t" >>= Json.getStr?
  match t with
  | "always" => pure (fun _ => true)
  | "never" => pure (fun _ => false)
  | "parity" => do
    let r ← j.getObjVal? "r" >>= Json.getNat?
    pure (fun x => ones x % 2 == r)
  | "thr" => do
    let k ← j.getObjVal? "k" >>= Json.getNat?
    let cmp ← j.getObjVal? "cmp" >>= Json.getStr?
    if cmp == "le" then pure (fun x => ones x ≤ k) else pure (fun x => k ≤ ones x)
  | "excl" => do
    let e ← j.getObjVal? "x" >>= pairsOfJson
    pure (fun x => !sameDict e x)
  | "only" => do
    let e ← j.getObjVal? "x" >>= pairsOfJson
    pure (fun x => sameDict e x)
  | "subpar" => do
    -- parity of the number of ones among the listed labels (labels the dict lacks are ignored)
    let ids ← j.getObjVal? "ids" >>= natList
    let r ← j.getObjVal? "r" >>= Json.getNat?
    pure (fun x => (x.filter (fun p => ids.contains p.1 && p.2 == 1)).length % 2 == r)
  | "pair" => do
    -- `(x.get(a) == x.get(b)) == eq`
    let a ← j.getObjVal? "a" >>= Json.getNat?
    let b ← j.getObjVal? "b" >>= Json.getNat?
    let eq ← j.getObjVal? "eq" >>= Json.getBool?
    pure (fun x => (aget? x a == aget? x b) == eq)
  | "table" => do
    let xs ← (← j.getObjVal? "xs" >>= Json.getArr?).toList.mapM pairsOfJson
    pure (fun x => xs.any (fun e => sameDict e x))
  | _ => throw s!"bad predicate {t}"

def bookOfJson (j : Json) : Except String (Option Book) :=
  if j.isNull then pure none else do
    let n ← j.getObjVal? "n" >>= Json.getNat?
    let rm ← (← j.getObjVal? "rm" >>= Json.getArr?).toList.mapM (fun t => do
      let i ← t.getArrVal? 0 >>= Json.getNat?
      let l ← t.getArrVal? 1 >>= Json.getNat?
      pure (i, l))
    pure (some ⟨n, rm⟩)

def solJson : Brute.Sol → Json
  | .one x => Json.mkObj [("one", assignJson x)]
  | .many xs => Json.mkObj [("many", Json.arr (xs.map assignJson).toArray)]

def objJson : Option Rat → Json
  | none => Json.null
  | some v => ratJson v

def outJson : Except Err Out → Json
  | .error e => errJson e
  | .ok o => Json.mkObj [("obj", objJson o.obj), ("sol", solJson o.sol),
                         ("after", canonJson o.after), ("after_order", polyJson o.after)]

/-- op "brute": run `solve` in the requested mode (field `res`) and in the other mode (field `alt`) -/
def handleBrute (j : Json) : Except String Json := do
  let fnName ← j.getObjVal? "fn" >>= Json.getStr?
  let fn ← match Fn.ofName? fnName with
    | some f => pure f
    | none => throw s!"bad fn {fnName}"
  let κ ← j.getObjVal? "kind" >>= kindOfJson
  let terms ← j.getObjVal? "terms" >>= polyOfJson
  let book ← bookOfJson (j.getObjValD "book")
  let allS ← j.getObjVal? "all" >>= Json.getBool?
  let valid ← j.getObjVal? "valid" >>= validOfJson
  let order ← match j.getObjVal? "order" with
    | .ok o => natList o
    | .error _ => pure ((keyLabels terms).toArray.qsort (· < ·)).toList
  let D : Model := ⟨κ, terms, book⟩
  pure (Json.mkObj [("res", outJson (solve fn D allS valid order)),
                    ("alt", outJson (solve fn D (!allS) valid order))])

/-- op "problem": `Problem.solve_bruteforce` between `to_qubo` and `convert_solution` — the padded dict and the
assignment(s) `solve_qubo_bruteforce` returns on it, in the requested mode and with `all_solutions` -/
def handleProblem (j : Json) : Except String Json := do
  let Q ← j.getObjVal? "terms" >>= polyOfJson
  let N ← j.getObjVal? "n" >>= Json.getNat?
  let allS ← j.getObjVal? "all" >>= Json.getBool?
  let order := ((keyLabels (padQ Q N)).toArray.qsort (· < ·)).toList
  let sol (r : Except Err Brute.Sol) : Json := match r with
    | .ok s => solJson s
    | .error e => errJson e
  pure (Json.mkObj [("res", sol (problemSolve Q N allS order)), ("many", sol (problemSolve Q N true order)),
                    ("pad", canonJson (padQ Q N))])

/-- op "brute_method": `obj.solve_bruteforce(all_solutions)` as a method of an object in bookkeeping state `s`
(the attributes `_solve_bruteforce` reads: type, stored terms, `num_binary_variables`, `_reverse_mapping`, and for
PCBO / PCSO the recorded constraints): `Brute.methodPlain` for the eight unconstrained types, `Brute.methodCons` for the
two constrained ones — the functions the entry-point theorems of `Qv/Props/C09.lean` are about (which free function
each type calls is decided by `Brute.fnOfKind`, not by the harness).  Output shaped like op "brute". -/
def handleBruteMethod (j : Json) : Except String Json := do
  let κ ← j.getObjVal? "kind" >>= kindOfJson
  let terms ← j.getObjVal? "terms" >>= polyOfJson
  let book ← bookOfJson (j.getObjValD "book")
  let allS ← j.getObjVal? "all" >>= Json.getBool?
  let order ← match j.getObjVal? "order" with
    | .ok o => natList o
    | .error _ => pure ((keyLabels terms).toArray.qsort (· < ·)).toList
  let cons ← match j.getObjVal? "cons_rec" with
    | .ok (Json.arr a) => a.toList.mapM (fun t => do
        let r ← t.getArrVal? 0 >>= Json.getStr?
        let rel ← match r with
          | "eq" => pure Rel.eq | "ne" => pure Rel.ne | "lt" => pure Rel.lt
          | "le" => pure Rel.le | "gt" => pure Rel.gt | "ge" => pure Rel.ge
          | _ => throw s!"bad relation {r}"
        let P ← t.getArrVal? 1 >>= polyOfJson
        pure (rel, P))
    | _ => pure []
  let s : Book.State := { kind := κ, terms := terms, constraints := cons,
                          numVars := match book with | some b => b.n | none => 0,
                          reverse := match book with | some b => b.rm | none => [] }
  let run (a : Bool) : Json :=
    let sol := if Book.hasCons κ then methodCons s a else methodPlain s a order
    match sol, solve (fnOfKind κ) (ofState s) a (fun _ => true) order with
    | .ok x, .ok o => Json.mkObj [("obj", Json.null), ("sol", solJson x), ("after", canonJson o.after),
                                   ("after_order", polyJson o.after)]
    | .ok x, .error _ => Json.mkObj [("obj", Json.null), ("sol", solJson x), ("after", canonJson terms),
                                      ("after_order", polyJson terms)]
    | .error e, _ => errJson e
  pure (Json.mkObj [("res", run allS), ("alt", run (!allS))])

def handlersC09 : List (String × (Lean.Json → Except String Lean.Json)) :=
  [("brute", handleBrute), ("problem", handleProblem), ("brute_method", handleBruteMethod)]
end Qv.Drv.C09
