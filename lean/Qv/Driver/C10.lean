import Qv.Driver.Json
import Qv.Model.Problems2
/-! Driver handlers for C10 (problem classes).  Trusted glue: JSON in / out only. -/
namespace Qv.Drv.C10
open Lean Qv Qv.Prob

def ratList (j : Json) : Except String (List Rat) := do (← j.getArr?).toList.mapM ratOfJson
def ratsJson (l : List Rat) : Json := Json.arr (l.map ratJson).toArray
def natsJson (l : List Nat) : Json := Json.arr (l.map (fun (n : Nat) => (n : Json))).toArray
def optNat (j : Json) : Except String (Option Nat) := if j.isNull then pure none else do pure (some (← j.getNat?))

def res {α : Type} (f : α → Json) : Except Err α → Json
  | .ok a => f a
  | .error e => errJson e

structure SolIn where
  items : Sol
  isDict : Bool
  flag : Bool

def solsOfJson (j : Json) : Except String (List SolIn) := do
  (← j.getArr?).toList.mapM (fun t => do
    let items ← (← t.getObjVal? "items" >>= Json.getArr?).toList.mapM (fun p => do
      let i ← p.getArrVal? 0 >>= Json.getNat?
      let v ← p.getArrVal? 1 >>= ratOfJson
      pure (i, v))
    let d ← t.getObjVal? "dict" >>= Json.getBool?
    let f ← t.getObjVal? "flag" >>= Json.getBool?
    pure ⟨items, d, f⟩)

def pairJson (f : α → Json) (p : α × α) : Json := Json.arr #[f p.1, f p.2]
def listJson (f : α → Json) (l : List α) : Json := Json.arr (l.map f).toArray
def boolJson (b : Bool) : Json := Json.bool b

/-- common output assembly -/
def assemble (nvars : Nat) (qubo quso : Except Err Poly) (conv valid : List Json)
    (brute bruteAll : Json) : Json :=
  Json.mkObj [("nvars", (nvars : Nat)), ("qubo", res canonJson qubo), ("quso", res canonJson quso),
              ("conv", Json.arr conv.toArray), ("valid", Json.arr valid.toArray),
              ("brute", brute), ("brute_all", bruteAll)]

def handle (j : Json) : Except String Json := do
  let cls ← j.getObjVal? "cls" >>= Json.getStr?
  let sols ← match j.getObjVal? "sols" with | .ok s => solsOfJson s | .error _ => pure []
  let order ← match j.getObjVal? "order" with | .ok o => natList o | .error _ => pure []
  let doBrute := match j.getObjVal? "brute" with | .ok (.bool b) => b | _ => false
  let fill := match j.getObjVal? "fill" with | .ok (.bool b) => b | _ => true
  let exactInt := match j.getObjVal? "exact_int" with | .ok (.bool b) => b | _ => false
  let br {α : Type} (f : α → Json) (run : Bool → Except Err (List α)) (allS : Bool) : Json :=
    if doBrute then res (listJson f) (run allS) else Json.null
  match cls with
  | "NP" => do
    let S ← j.getObjVal? "S" >>= ratList
    let A ← j.getObjVal? "A" >>= ratOfJson
    match NP.new S with
    | .error e => pure (Json.mkObj [("init_err", Json.str e.name)])
    | .ok p =>
      let out := pairJson ratsJson
      pure (assemble p.numVars (p.toQubo A) (p.toQuso A)
        (sols.map (fun s => res out (p.convert s.items)))
        (sols.map (fun s => res boolJson (p.valid s.items)))
        (br out (fun a => p.solveBruteforce A a order fill) false) (br out (fun a => p.solveBruteforce A a order fill) true))
  | "ASC" => do
    let n ← j.getObjVal? "n" >>= Json.getInt?
    let len ← j.getObjVal? "len" >>= Json.getInt?
    let mn ← j.getObjVal? "min" >>= ratOfJson
    let mx ← j.getObjVal? "max" >>= ratOfJson
    let pbc ← j.getObjVal? "pbc" >>= Json.getBool?
    match ASC.new n len mn mx with
    | .error e => pure (Json.mkObj [("init_err", Json.str e.name)])
    | .ok p =>
      pure (assemble p.numVars (p.toQubo pbc) (p.toQuso pbc)
        (sols.map (fun s => res ratsJson (p.convert s.items s.isDict s.flag)))
        (sols.map (fun s => res boolJson (p.valid s.items s.isDict s.flag)))
        (br ratsJson (fun a => p.solveBruteforce pbc a order fill) false)
        (br ratsJson (fun a => p.solveBruteforce pbc a order fill) true))
  | "VC" => do
    let edges ← (← j.getObjVal? "edges" >>= Json.getArr?).toList.mapM (fun e => do
      let u ← e.getArrVal? 0 >>= Json.getNat?
      let v ← e.getArrVal? 1 >>= Json.getNat?
      pure (u, v))
    let A ← j.getObjVal? "A" >>= ratOfJson
    let B ← j.getObjVal? "B" >>= ratOfJson
    let p : VC := ⟨edges⟩
    pure (assemble p.numVars (p.toQubo A B) (p.toQuso A B)
      (sols.map (fun s => res natsJson (p.convert s.items s.flag)))
      (sols.map (fun s => res boolJson (p.valid s.items s.flag)))
      (br natsJson (fun a => p.solveBruteforce A B a order fill) false)
      (br natsJson (fun a => p.solveBruteforce A B a order fill) true))
  | "BILP" => do
    let c ← j.getObjVal? "c" >>= ratList
    let S ← (← j.getObjVal? "S" >>= Json.getArr?).toList.mapM ratList
    let b ← j.getObjVal? "b" >>= ratList
    let A ← optRat (j.getObjValD "A")
    let B ← j.getObjVal? "B" >>= ratOfJson
    match BILP.new c S b with
    | .error e => pure (Json.mkObj [("init_err", Json.str e.name)])
    | .ok p =>
      pure (assemble p.numVars (p.toQubo A B) (p.toQuso A B)
        (sols.map (fun s => res ratsJson (p.convert s.items s.isDict s.flag)))
        (sols.map (fun s => res boolJson (p.valid s.items s.isDict s.flag exactInt)))
        (br ratsJson (fun a => p.solveBruteforce A B a order fill) false)
        (br ratsJson (fun a => p.solveBruteforce A B a order fill) true))
  | "GP" => do
    let input ← (← j.getObjVal? "input" >>= Json.getArr?).toList.mapM (fun e => do
      let u ← e.getArrVal? 0 >>= Json.getNat?
      let v ← e.getArrVal? 1 >>= Json.getNat?
      let w ← e.getArrVal? 2 >>= ratOfJson
      pure ((u, v), w))
    let vorder ← j.getObjVal? "vorder" >>= natList
    let A ← optRat (j.getObjValD "A")
    let B ← j.getObjVal? "B" >>= ratOfJson
    let p : GP := ⟨input, vorder⟩
    let out := pairJson natsJson
    pure (Json.mergeObj (assemble p.numVars (p.toQubo A B) (p.toQuso A B)
      (sols.map (fun s => res out (p.convert s.items)))
      (sols.map (fun s => res boolJson (p.valid s.items)))
      (br out (fun a => p.solveBruteforce A B a order fill) false)
      (br out (fun a => p.solveBruteforce A B a order fill) true))
      (Json.mkObj [("degree", (p.degree : Nat)), ("vertices", natsJson p.vertexSet)]))
  | "SC" => do
    let U ← j.getObjVal? "U" >>= natList
    let V ← (← j.getObjVal? "V" >>= Json.getArr?).toList.mapM natList
    let wj := j.getObjValD "weights"
    let w ← if wj.isNull then pure none else do pure (some (← ratList wj))
    let lg ← j.getObjVal? "log" >>= Json.getBool?
    let M ← optNat (j.getObjValD "M")
    let A ← j.getObjVal? "A" >>= ratOfJson
    let B ← j.getObjVal? "B" >>= ratOfJson
    match SC.new U V w lg M with
    | .error e => pure (Json.mkObj [("init_err", Json.str e.name)])
    | .ok p =>
      pure (Json.mergeObj (assemble p.numVars (p.toQubo A B) (p.toQuso A B)
        (sols.map (fun s => res natsJson (p.convert s.items s.isDict s.flag)))
        (sols.map (fun s => res boolJson (p.valid s.items s.isDict s.flag)))
        (br natsJson (fun a => p.solveBruteforce a order) false)
        (br natsJson (fun a => p.solveBruteforce a order) true))
        (Json.mkObj [("M", (p.M : Nat))]))
  | "JS" => do
    let lengths ← (← j.getObjVal? "lengths" >>= Json.getArr?).toList.mapM (fun e => do
      let job ← e.getArrVal? 0 >>= Json.getNat?
      let l ← e.getArrVal? 1 >>= ratOfJson
      pure (job, l))
    let m ← j.getObjVal? "m" >>= Json.getNat?
    let lg ← j.getObjVal? "log" >>= Json.getBool?
    let M ← optNat (j.getObjValD "M")
    let A ← optRat (j.getObjValD "A")
    let B ← j.getObjVal? "B" >>= ratOfJson
    match JS.new lengths m lg M with
    | .error e => pure (Json.mkObj [("init_err", Json.str e.name)])
    | .ok p =>
      let out := listJson natsJson
      pure (Json.mergeObj (assemble p.numVars (p.toQubo A B) (p.toQuso A B)
        (sols.map (fun s => res out (p.convert s.items s.isDict s.flag)))
        (sols.map (fun s => res boolJson (p.valid s.items s.isDict s.flag)))
        (br out (fun a => p.solveBruteforce a) false)
        (br out (fun a => p.solveBruteforce a) true))
        (Json.mkObj [("M", (p.M : Nat))]))
  | _ => throw s!"bad cls {cls}"

def handlersC10 : List (String × (Lean.Json → Except String Lean.Json)) :=
  [("c10", handle)]
end Qv.Drv.C10
