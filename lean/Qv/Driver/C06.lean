import Qv.Driver.Json
import Qv.Model.PcboLogic
namespace Qv.Drv.C06
open Lean Qv

partial def sexprOfJsonC06 (j : Json) : Except String SExpr := do
  let t ← j.getObjVal? "t" >>= Json.getStr?
  match t with
  | "lbl" => do pure (.lbl (← j.getObjVal? "i" >>= Json.getNat?))
  | "raw" => do pure (.raw (← j.getObjVal? "p" >>= polyOfJson))
  | "mdl" => do pure (.mdl (← j.getObjVal? "k" >>= kindOfJson) (← j.getObjVal? "p" >>= polyOfJson))
  | "gate" => do
    let gs ← j.getObjVal? "g" >>= Json.getStr?
    let g ← match Gate.ofName? gs with | some g => pure g | none => throw s!"bad gate {gs}"
    let args ← (← j.getObjVal? "args" >>= Json.getArr?).toList.mapM sexprOfJsonC06
    pure (.gate g args)
  | _ => throw s!"bad sexpr tag {t}"

/-- the assignment number `b` over the labels `0 .. n-1` (bit `i` of `b`), 0 elsewhere -/
def assignBits (n b : Nat) : Var → Rat := fun i => if i < n ∧ b.testBit i then 1 else 0

def stJsonC06 (st : St) (n : Nat) : Json :=
  Json.mkObj [("terms", canonJson st.terms), ("anc", (st.anc : Json)),
    ("cons", Json.arr (st.cons.map (fun c => Json.arr #[Json.str c.1.name, canonJson c.2])).toArray),
    ("warns", Json.arr (st.warns.map Json.str).toArray),
    ("tags", Json.arr (st.tags.map Json.str).toArray),
    ("valid", Json.arr ((List.range (2 ^ n)).map (fun b => Json.bool (isValid st (assignBits n b)))).toArray)]

def relOfStringC06 : String → Except String Rel
  | "eq" => pure .eq | "ne" => pure .ne | "lt" => pure .lt | "le" => pure .le
  | "gt" => pure .gt | "ge" => pure .ge | s => throw s!"bad rel {s}"

/-- a comparison-constraint step of a history: {cmp: true, rel, P (raw items; the model applies `PUBO(P)`), lam, lt,
lo, hi} — `add_constraint_<rel>_zero(P, lam, log_trick=lt, bounds=(lo, hi))` -/
def cmpStep (st : St) (c : Json) : Except String St := do
  let rel ← c.getObjVal? "rel" >>= Json.getStr? >>= relOfStringC06
  let P0 ← c.getObjVal? "P" >>= polyOfJson
  let lam ← c.getObjVal? "lam" >>= ratOfJson
  let lt ← c.getObjVal? "lt" >>= Json.getBool?
  let lo ← c.getObjVal? "lo" >>= optRat
  let hi ← c.getObjVal? "hi" >>= optRat
  pure (addConstraint rel st (constructB P0) lam lt (lo, hi) false)

/-- op "logic": a history of logical constraint calls (and, interleaved, comparison constraints) on one fresh PCBO.
each element: {eq: bool, g: gate name, ops: [sexpr], lam}, or a comparison step (see `cmpStep`).  The operands are built first (as Python evaluates the
arguments before the call); a step that raises leaves the PCBO unchanged.  Output: one entry per step, the state
after it (or the error), with `is_solution_valid` on all assignments of the labels `0..n-1`. -/
def handleLogic (j : Json) : Except String Json := do
  let seq ← j.getObjVal? "seq" >>= Json.getArr?
  let n ← j.getObjVal? "n" >>= Json.getNat?
  let (_, outs) ← seq.toList.foldlM (fun (acc : St × List Json) c => do
    let (st, outs) := acc
    if (c.getObjVal? "cmp" >>= Json.getBool?).toOption.getD false then
      let st' ← cmpStep st c
      return (st', outs ++ [stJsonC06 st' n])
    let eq ← c.getObjVal? "eq" >>= Json.getBool?
    let gs ← c.getObjVal? "g" >>= Json.getStr?
    let g ← match Gate.ofName? gs with | some g => pure g | none => throw s!"bad gate {gs}"
    let ops ← (← c.getObjVal? "ops" >>= Json.getArr?).toList.mapM sexprOfJsonC06
    let lam ← c.getObjVal? "lam" >>= ratOfJson
    let r : Except Err St := do
      let vs ← buildArgs ops
      consLogic eq g st vs lam
    match r with
    | .ok st' => pure (st', outs ++ [stJsonC06 st' n])
    | .error e => pure (st, outs ++ [errJson e])) (({} : St), ([] : List Json))
  pure (Json.arr outs.toArray)

def handlersC06 : List (String × (Json → Except String Json)) := [("logic", handleLogic)]

end Qv.Drv.C06
