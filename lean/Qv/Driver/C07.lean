import Qv.Driver.Json
import Qv.Model.Sat
/-! Driver handlers of C07: op "sat" evaluates an `SExpr` tree with `Qv.build`.

JSON of a tree node:
  `{"t":"lbl","i":n}` | `{"t":"raw","p":terms}` | `{"t":"mdl","k":kind,"p":terms}` |
  `{"t":"gate","g":"AND","args":[...]}`
Only the five boolean kinds are accepted for `mdl` leaves (`BUFFER` copies exactly the members of
`qubovert.BOOLEAN_MODELS`; a spin model or a plain `DictArithmetic` would go through `PUBO(x)`, which
`Qv.bufferV` does not model). -/
namespace Qv.Drv.C07
open Lean Qv

partial def sexprOfJson (j : Json) : Except String SExpr := do
  let t ← j.getObjVal? "t" >>= Json.getStr?
  match t with
  | "lbl" => do pure (.lbl (← j.getObjVal? "i" >>= Json.getNat?))
  | "raw" => do pure (.raw (← j.getObjVal? "p" >>= polyOfJson))
  | "mdl" => do
      let κ ← j.getObjVal? "k" >>= kindOfJson
      if κ.isSpin || κ == .dict then throw s!"sat: kind {κ.name} is not a boolean model type"
      pure (.mdl κ (← j.getObjVal? "p" >>= polyOfJson))
  | "gate" => do
      let g ← j.getObjVal? "g" >>= Json.getStr?
      match Gate.ofName? g with
      | none => throw s!"bad gate {g}"
      | some g =>
        let args ← (← j.getObjVal? "args" >>= Json.getArr?).toList.mapM sexprOfJson
        pure (.gate g args)
  | _ => throw s!"bad sat tag {t}"

def satValJson : Val → Json
  | .num c => Json.mkObj [("type", "num"), ("c", ratJson c)]
  | .raw p => Json.mkObj [("type", "dict"), ("terms", canonJson p)]
  | .mdl κ p => Json.mkObj [("type", Json.str κ.name), ("terms", canonJson p)]

/-- op "sat": build a gate expression; optionally (`"xs"`: list of assignments) also report the truth
value `Qv.truth` of the tree at each assignment -/
def handleSat (j : Json) : Except String Json := do
  let e ← j.getObjVal? "tree" >>= sexprOfJson
  let res := match build e with
    | .ok v => satValJson v
    | .error err => errJson err
  match j.getObjVal? "xs" with
  | .error _ => pure res
  | .ok xsj => do
    let xs ← (← xsj.getArr?).toList.mapM (fun a => assignOfJson a 0)
    let ts : List Json := xs.map (fun x => Json.bool (truth x e))
    pure (res.setObjVal! "truth" (Json.arr ts.toArray))

def handlersC07 : List (String × (Lean.Json → Except String Lean.Json)) :=
  [("sat", handleSat)]

end Qv.Drv.C07
