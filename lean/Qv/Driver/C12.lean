import Qv.Driver.C11
/-! Driver handler for C12: `c12_anneal` is `c11_anneal` for a labelled object whose label → integer mapping was
chosen by the user (`set_mapping` / `set_reverse_mapping`).

The optional field `"mapping"` is the list of labels read **by integer index** (`mapping[i]` is the label with
`_mapping[label] = i`, i.e. `reverse_mapping[i]`): this is the data the code reads (`to_quso`/`to_puso` through
`_mapping`, `init_state[k] = initial_state[reverse_mapping[k]]`, packaging through `reverse_mapping[k]`).  The
insertion order of the Python dicts holding it is deliberately *not* part of the model.  Everything else (schedule,
initial state, kernel on `Float` with the PCG32 model, output format) is C11's. -/
namespace Qv.Drv.C12
open Lean Qv Qv.Kernel Qv.Anneal Qv.Drv.C11

/-- `obj.set_mapping(...)` / `obj.set_reverse_mapping(...)` after the object was built -/
def withMapping (j : Json) (o : Obj) : Except String Obj :=
  match j.getObjVal? "mapping" with
  | .error _ => pure o
  | .ok m => if m.isNull then pure o else do pure { o with mapping := ← natList m }

/-- op `c12_anneal` -/
def handleAnneal (j : Json) : Except String Json := do
  let fn ← j.getObjVal? "fn" >>= Json.getStr?
  let obj0 ← objOfJson j
  let obj : Except Err Obj ← match obj0 with
    | .error e => pure (.error e)
    | .ok o => do pure (.ok (← withMapping j o))
  let na ← j.getObjVal? "num_anneals" >>= Json.getInt?
  let sched ← j.getObjVal? "sched" >>= schedOfJson
  let init ← j.getObjVal? "init" >>= initOfJson
  let io ← j.getObjVal? "in_order" >>= Json.getBool?
  let seed ← j.getObjVal? "seed" >>= Json.getNat?
  let P : Params Rng Float := { numAnneals := na, schedule := sched, init := init, inOrder := io, rng := Rng.init seed }
  let puso := fn == "puso" || fn == "pubo"
  let r : Except Err (List Res) := do
    let o ← obj
    match fn with
    | "quso" => Anneal.annealQuso floatCfg o P
    | "puso" => Anneal.annealPuso floatCfg o P
    | "qubo" => Anneal.annealQubo floatCfg o P
    | _ => Anneal.annealPubo floatCfg o P
  let call : Option (Call Float) :=
    let c : Except Err (Prep Float) := do
      let o ← obj
      let (o, P) ← match fn with
        | "qubo" => do pure (← Anneal.quboToQuso o, { P with init := ← booleanToSpinInit P.init })
        | "pubo" => do pure (← Anneal.puboToPuso o, { P with init := ← booleanToSpinInit P.init })
        | _ => pure (o, P)
      prep (if puso then dispatchPuso else dispatchQuso) o P
    match c with
    | .ok (.call c) => some c
    | _ => none
  match r with
  | .error e => pure (errJson e)
  | .ok rs =>
    pure (Json.mkObj [("results", Json.arr (rs.map resJson).toArray),
      ("best", match best rs with | some b => ratJson b.value | none => Json.null),
      ("call", match call with | some c => callJson puso c | none => Json.null)])

def handlersC12 : List (String × (Lean.Json → Except String Lean.Json)) :=
  [("c12_anneal", handleAnneal)]

end Qv.Drv.C12
