import Qv.Driver.C02
import Qv.Model.Info
import Qv.Model.Heap
namespace Qv.Drv.C19
open Lean Qv

def consOfJson (j : Json) : Except String (List (Rel × List Poly)) := do
  (← j.getArr?).toList.mapM (fun g => do
    let r ← g.getArrVal? 0 >>= Json.getStr? >>= relOfString
    let ps ← (← g.getArrVal? 1 >>= Json.getArr?).toList.mapM polyOfJson
    pure (r, ps))

def mobjOfJson (j : Json) : Except String MObj := do
  let kind ← j.getObjVal? "kind" >>= kindOfJson
  let terms ← j.getObjVal? "terms" >>= polyOfJson
  let nameJ ← j.getObjVal? "name"
  let name ← if nameJ.isNull then pure none else do pure (some (← nameJ.getStr?))
  let mapping ← (← j.getObjVal? "mapping" >>= Json.getArr?).toList.mapM (fun e => do
    pure ((← e.getArrVal? 0 >>= Json.getNat?), (← e.getArrVal? 1 >>= Json.getNat?)))
  let anc ← j.getObjVal? "anc" >>= Json.getNat?
  let cons ← j.getObjVal? "cons" >>= consOfJson
  pure { kind, terms, name, mapping, anc, cons }

/-- `ck`: the type of every recorded constraint polynomial, per relation -/
def mobjJson (m : MObj) (ck : Json) : Json :=
  Json.mkObj [("ckinds", ck),
    ("kind", Json.str m.kind.name), ("terms", polyJson m.terms),
    ("name", match m.name with | some s => Json.str s | none => Json.null),
    ("mapping", Json.arr (m.mapping.map (fun e => Json.arr #[(e.1 : Json), (e.2 : Json)])).toArray),
    ("anc", (m.anc : Json)),
    ("cons", Json.arr (m.cons.map (fun g => Json.arr #[Json.str g.1.name,
        Json.arr (g.2.map polyJson).toArray])).toArray)]

/-- `create_from_info` re-adds every recorded constraint with `add_constraint_<rel>_zero(x, lam=0)`, which stores
`PUBO(x)` in a boolean and `PUSO(x)` in a spin model (`Qv.Hp.consKind`, the kind the explicit-heap model allocates) -/
def readdedKinds (m : MObj) : Json :=
  Json.arr (m.cons.map (fun g => Json.arr #[Json.str g.1.name,
    Json.arr (g.2.map (fun _ => Json.str (Qv.Hp.consKind m.kind).name)).toArray])).toArray

/-- op "info": `create_from_info(get_info(m))`; op "copy": `m.copy()` (`x.copy()` keeps the type of every recorded
constraint polynomial: the kinds of the input are passed through) -/
def handleInfo (j : Json) : Except String Json := do
  let m ← j.getObjVal? "m" >>= mobjOfJson
  match createFromInfo (getInfo m) with
  | .ok m' => pure (mobjJson m' (readdedKinds m'))
  | .error e => pure (errJson e)

def handleCopy (j : Json) : Except String Json := do
  let m ← j.getObjVal? "m" >>= mobjOfJson
  match copyObj m with
  | .ok m' => pure (mobjJson m' ((j.getObjVal? "m" >>= fun mj => mj.getObjVal? "ckinds").toOption.getD (Json.arr #[])))
  | .error e => pure (errJson e)

def handlersC19 : List (String × (Json → Except String Json)) := [("info", handleInfo), ("copy", handleCopy)]

end Qv.Drv.C19
