import Qv.Driver.C02
import Qv.Model.HeapHist
/-! C19 (aliasing half): run a history of API calls over the explicit heap and print, after every call, the
canonical sharing graph reachable from the environment and the call's write footprint (in the numbering of the
graph *before* the call).  Cell contents are dummies here: the graph does not depend on them. -/
namespace Qv.Drv.C19H
open Lean Qv Qv.Hp

def dummyF : Ctor := fun _ _ => {}

def getterOfString : String → Except String Getter
  | "mapping" => pure .mapping | "reverse_mapping" => pure .rmapping
  | "variables" => pure .variables | "constraints" => pure .constraints
  | s => throw s!"bad getter {s}"

def optNat (j : Json) (k : String) : Except String (Option Nat) :=
  match j.getObjVal? k with
  | .ok v => if v.isNull then pure none else do pure (some (← v.getNat?))
  | .error _ => pure none

def opOfJson (j : Json) : Except String Op := do
  let o ← j.getObjVal? "o" >>= Json.getStr?
  let nat (k : String) : Except String Nat := j.getObjVal? k >>= Json.getNat?
  let kind (k : String) : Except String Kind := j.getObjVal? k >>= kindOfJson
  match o with
  | "new" => pure (.new (← kind "kind"))
  | "dict" => pure .dict
  | "mut" => pure (.setitem (← nat "i") {})
  | "copy" => pure (.copy (← nat "i"))
  | "ctor" => pure (.ctor (← kind "kind") (← nat "i"))
  | "info" => pure (.info (← nat "i"))
  | "frominfo" => pure (.fromInfo (← nat "i"))
  | "roundtrip" => pure (.roundTrip (← nat "i"))
  | "get" => pure (.get (← j.getObjVal? "what" >>= Json.getStr? >>= getterOfString) (← nat "i"))
  | "addc" =>
    let lam ← j.getObjVal? "lam" >>= Json.getBool?
    pure (.addc (← nat "recv") (← j.getObjVal? "rel" >>= Json.getStr? >>= relOfString) (← nat "arg")
      (if lam then some {} else none))
  | "update" => pure (.update (← nat "recv") (← nat "arg") {})
  | "conv" => pure (.conv (← nat "i") (← kind "res") {})
  | "solve" => pure (.solve (← nat "i") 1)
  | "anneal" => pure (.anneal (← nat "i") (← optNat j "init") .pusom {} 1)
  | "client" => pure (.client (← nat "i"))
  | "sub" => pure (.sub (← nat "i") (← j.getObjVal? "path" >>= natList))
  | "set" => pure .set
  | "iupd" => pure (.iupd (← nat "recv") (← optNat j "other") {})
  | "imuldict" => pure (.imulDict (← nat "recv") (← nat "other") {})
  | "ipow" => pure (.ipow (← nat "recv") (List.replicate ((← nat "n") - 1) {}))
  | "clear" => pure (.clear (← nat "recv"))
  | "refresh" => pure (.refresh (← nat "recv"))
  | "binop" => pure (.binop (← nat "a") (← optNat j "other") {})
  | "rsub" => pure (.rsub (← nat "a") (← optNat j "other") {} {})
  | "muldict" => pure (.mulDict (← nat "a") (← nat "b") {})
  | "pow" => pure (.pow (← nat "a") (List.replicate ((← nat "n") - 1) {}))
  | "rebuild" => pure (.rebuild (← nat "a") {})
  | "newlike" => pure (.newLike (← nat "a") (← j.getObjVal? "extras" >>= natList) {})
  | "readonly" => pure (.readOnly (← j.getObjVal? "args" >>= natList) (← j.getObjVal? "res" >>= Json.getBool?))
  | "sat" => pure (.sat (← optNat j "first") (← j.getObjVal? "others" >>= natList) {})
  | s => throw s!"bad history op {s}"

def graphJson (g : List (String × List Nat)) : Json :=
  Json.arr (g.map (fun n => Json.arr #[Json.str n.1, Json.arr (n.2.map (fun (k : Nat) => (k : Json))).toArray])).toArray

def natsJson (l : List Nat) : Json := Json.arr (l.map (fun (k : Nat) => (k : Json))).toArray

/-- state, outputs so far (reversed) -/
def runHist (s : HState) (acc : List Json) : List Op → List Json
  | [] => acc.reverse
  | op :: t =>
    let order := reachList s.heap s.env
    match stepH dummyF s op with
    | none => (Json.mkObj [("ok", false)] :: acc).reverse
    | some (s', w) =>
      let wpre := (order.filter (fun r => w.contains r)).map (indexIn order)
      let order' := reachList s'.heap s'.env
      let out := Json.mkObj [("ok", true), ("w", natsJson wpre), ("g", graphJson (graph s'.heap s'.env)),
        ("env", natsJson (s'.env.map (indexIn order')))]
      runHist s' (out :: acc) t

def handleHist (j : Json) : Except String Json := do
  let ops ← (← j.getObjVal? "steps" >>= Json.getArr?).toList.mapM opOfJson
  pure (Json.mkObj [("steps", Json.arr (runHist {} [] ops).toArray)])

def handlersC19H : List (String × (Json → Except String Json)) := [("c19h", handleHist)]

end Qv.Drv.C19H
