import Qv.Driver.Json
import Qv.Model.KernelMem
/-! Driver handlers for C17: the checked-memory model of `c_anneal_quso` / `c_anneal_puso` on exactly the
arguments the C extension receives (doubles as IEEE-754 bit patterns, PCG32 source).

Reply: `{"wf": bool, "ok": [[state, value bits], ...]}` or `{"wf": bool, "memerr": name}`. -/
namespace Qv.Drv.C17
open Lean Qv Qv.Kernel Qv.KMem

def floats (j : Json) (k : String) : Except String (List Float) := do
  (← j.getObjVal? k >>= Json.getArr?).toList.mapM (fun x => do pure (Float.ofBits (← x.getNat?).toUInt64))

def ints (j : Json) (k : String) : Except String (List Int) := do
  (← j.getObjVal? k >>= Json.getArr?).toList.mapM Json.getInt?

/-- `unchecked` : the result of the unchecked kernel model `Qv.Kernel` (C11/C12) on the same arrays; the reply says
whether the checked model, when it returns, returns the same states and the same value bit patterns -/
def reply (wf : Bool) (r : M (List (List Int × Float))) (unchecked : List (List Int × Float)) : Json :=
  match r with
  | .ok out =>
    let same := out.length == unchecked.length &&
      (out.zip unchecked).all (fun p => p.1.1 == p.2.1 && p.1.2.toBits == p.2.2.toBits)
    Json.mkObj [("wf", Json.bool wf), ("refines", Json.bool same), ("ok", Json.arr (out.map (fun sv =>
      Json.arr #[Json.arr (sv.1.map (fun (i : Int) => (i : Json))).toArray, (sv.2.toBits.toNat : Json)])).toArray)]
  | .error e => Json.mkObj [("wf", Json.bool wf), ("memerr", Json.str e.name)]

/-- op `c17_quso` -/
def handleQuso (j : Json) : Except String Json := do
  let h ← floats j "h"
  let nn ← ints j "nn"
  let nb ← ints j "nb"
  let J ← floats j "J"
  let Ts ← floats j "Ts"
  let na ← j.getObjVal? "num_anneals" >>= Json.getInt?
  let io ← j.getObjVal? "in_order" >>= Json.getBool?
  let seed ← j.getObjVal? "seed" >>= Json.getNat?
  let init ← ints j "init"
  pure (reply (decide (WFQuso h nn nb J Ts na init)) (cAnnealQuso pcgSrc h nn nb J Ts na io init (Rng.init seed))
    (Kernel.annealQuso pcgSrc { h, nn := nn.map Int.toNat, nb := nb.map Int.toNat, J } h.length Ts io init na.toNat
      (Rng.init seed)))

/-- op `c17_puso` -/
def handlePuso (j : Json) : Except String Json := do
  let N ← j.getObjVal? "N" >>= Json.getInt?
  let nc ← ints j "nc"
  let terms ← ints j "terms"
  let cs ← floats j "cs"
  let Ts ← floats j "Ts"
  let na ← j.getObjVal? "num_anneals" >>= Json.getInt?
  let io ← j.getObjVal? "in_order" >>= Json.getBool?
  let seed ← j.getObjVal? "seed" >>= Json.getNat?
  let init ← ints j "init"
  -- "guard": false = `anneal_puso.c` before the repair of D5 (documentation only); default true = the code as it is
  let guard := match j.getObjVal? "guard" with
    | .ok (Json.bool b) => b
    | _ => true
  pure (reply (decide (WFPuso N nc terms cs Ts na init ∧ (guard = true ∨ 1 ≤ cs.length)))
    (cAnnealPuso guard pcgSrc N nc terms cs Ts na io init (Rng.init seed))
    (Kernel.annealPuso pcgSrc { nc := nc.map Int.toNat, terms := terms.map Int.toNat, cs } N.toNat Ts io init na.toNat
      (Rng.init seed)))

def handlersC17 : List (String × (Lean.Json → Except String Lean.Json)) :=
  [("c17_quso", handleQuso), ("c17_puso", handlePuso)]

end Qv.Drv.C17
