import Qv.Driver.Json
import Qv.Model.Results
/-! Driver handlers of C13: run operation sequences on the `AnnealResults` machine and print, after
each step, a canonical observation string (the harness builds the same string from the real objects).

observation of a step:  `<outcome>#<returned element>#<cur>#<aux>#<A1|A0>`
  (`A1`: `listAccepts op` held in the state before the step, i.e. a plain list accepts the call)
  outcome   `ok` | `E:<exception>` | `plain:<items>`   (derived collection that is a plain list)
  element   `<value>:<spin 0/1>:<label>=<int>,…`     value = `num/den` | `inf` | `-inf`  (extended rationals `EVal`)
  collection `<element>;<element>;…|<best value or N>|<1 if best ∈ items else 0>` -/
namespace Qv.Drv.C13
open Lean Qv Qv.Res

def intOfJson (j : Json) : Except String Int := j.getInt?

def optInt (j : Json) : Except String (Option Int) :=
  if j.isNull then pure none else do pure (some (← j.getInt?))

/-- a value: `"num/den"`, `"inf"` or `"-inf"` -/
def evalOfJson (j : Json) : Except String EVal := do
  match ← j.getStr? with
  | "inf" => pure .pinf
  | "-inf" => pure .ninf
  | s => do pure (.fin (← ratOfString s))

def evalStr : EVal → String
  | .pinf => "inf"
  | .ninf => "-inf"
  | .fin q => ratStr q

def pstateOfJson (j : Json) : Except String PState := do
  (← j.getArr?).toList.mapM (fun t => do
    let k ← t.getArrVal? 0 >>= Json.getNat?
    let v ← t.getArrVal? 1 >>= Json.getInt?
    pure (k, v))

def resultOfJson (j : Json) : Except String Result := do
  let st ← j.getArrVal? 0 >>= pstateOfJson
  let v ← j.getArrVal? 1 >>= evalOfJson
  let sp ← j.getArrVal? 2 >>= Json.getBool?
  pure ⟨st, v, sp⟩

def resultsOfJson (j : Json) : Except String (List Result) := do
  (← j.getArr?).toList.mapM resultOfJson

def sliceOfJson (j : Json) : Except String Slice := do
  pure ⟨← j.getArrVal? 0 >>= optInt, ← j.getArrVal? 1 >>= optInt, ← j.getArrVal? 2 >>= optInt⟩

/-- the named families of user functions the harness passes to `filter`, `filter_states`,
`apply_function`, `convert_states` -/
def resultPred (j : Json) : Except String (Result → Bool) := do
  match ← j.getObjVal? "f" >>= Json.getStr? with
  | "value_le" => do let c ← j.getObjVal? "c" >>= evalOfJson; pure (fun r => decide (r.value ≤ c))
  | "value_gt" => do let c ← j.getObjVal? "c" >>= evalOfJson; pure (fun r => decide (c < r.value))
  | "spin" => pure (fun r => r.spin)
  | "nospin" => pure (fun r => !r.spin)
  | "all" => pure (fun _ => true)
  | "none" => pure (fun _ => false)
  | s => throw s!"bad result predicate {s}"

def statePred (j : Json) : Except String (PState → Bool) := do
  match ← j.getObjVal? "f" >>= Json.getStr? with
  | "has" => do
    let k ← j.getObjVal? "k" >>= Json.getNat?
    let v ← j.getObjVal? "v" >>= Json.getInt?
    pure (fun st => st.contains (k, v))
  | "len_le" => do let k ← j.getObjVal? "k" >>= Json.getNat?; pure (fun st => st.length ≤ k)
  | "all" => pure (fun _ => true)
  | "none" => pure (fun _ => false)
  | s => throw s!"bad state predicate {s}"

def resultFn (j : Json) : Except String (Result → Result) := do
  match ← j.getObjVal? "f" >>= Json.getStr? with
  | "neg" => pure (fun r => ⟨r.state, -r.value, r.spin⟩)
  | "shift" => do let c ← j.getObjVal? "c" >>= ratOfJson; pure (fun r => ⟨r.state, r.value.addFin c, r.spin⟩)
  | "setvalue" => do let c ← j.getObjVal? "c" >>= evalOfJson; pure (fun r => ⟨r.state, c, r.spin⟩)
  | "square" => pure (fun r => ⟨r.state, r.value.square, r.spin⟩)
  -- `lambda r: AnnealResult(r.state, inf if <state holds k = v> else r.value, r.spin)`: tag states as infeasible
  | "penalise" => do
    let k ← j.getObjVal? "k" >>= Json.getNat?
    let v ← j.getObjVal? "v" >>= Json.getInt?
    pure (fun r => ⟨r.state, if r.state.contains (k, v) then .pinf else r.value, r.spin⟩)
  | "id" => pure id
  | s => throw s!"bad result function {s}"

def stateFn (j : Json) : Except String (PState → PState) := do
  match ← j.getObjVal? "f" >>= Json.getStr? with
  | "relabel" => do let k ← j.getObjVal? "k" >>= Json.getNat?; pure (fun st => st.map (fun p => (p.1 + k, p.2)))
  | "drop" => do let k ← j.getObjVal? "k" >>= Json.getNat?; pure (fun st => st.filter (fun p => p.1 != k))
  | "id" => pure id
  | s => throw s!"bad state function {s}"

def opOfJson (j : Json) : Except String Op := do
  let o ← j.getObjVal? "o" >>= Json.getStr?
  let r := j.getObjVal? "r" >>= resultOfJson
  let l := j.getObjVal? "l" >>= resultsOfJson
  let i := j.getObjVal? "i" >>= intOfJson
  let sl := j.getObjVal? "sl" >>= sliceOfJson
  match o with
  | "construct" => do pure (.construct (← l))
  | "append" => do pure (.append (← r))
  | "add_state" => do let x ← r; pure (.addState x.state x.value x.spin)
  | "insert" => do pure (.insert (← i) (← r))
  | "remove" => do pure (.remove (← r))
  | "pop" => do pure (.pop (← i))
  | "getitem" => do pure (.getItem (← i))
  | "extend_list" | "extend_iter" => do pure (.extendList (← l))
  | "extend_ar" => do pure (.extendAR (← l))
  | "extend_self" => pure .extendSelf
  | "extend_aux" => pure .extendAux
  | "iadd_list" | "iadd_iter" => do pure (.iaddList (← l))
  | "iadd_ar" => do pure (.iaddAR (← l))
  | "iadd_self" => pure .iaddSelf
  | "iadd_aux" => pure .iaddAux
  | "add" => do pure (.add (← l))
  | "add_aux" => pure .addAux
  | "mul" => do pure (.mul (← i))
  | "imul" => do pure (.mul (← i))
  | "rmul" => do pure (.rmul (← i))
  | "getslice" => do pure (.getSlice (← sl))
  | "setitem" => do pure (.setItem (← i) (← r))
  | "delitem" => do pure (.delItem (← i))
  | "setslice" | "setslice_iter" => do pure (.setSlice (← sl) (← l))
  | "delslice" => do pure (.delSlice (← sl))
  | "clear" => pure .clear
  | "sort" => do pure (.sort ((j.getObjVal? "rev" >>= Json.getBool?).toOption.getD false))
  | "reverse" => pure .reverse
  | "copy" => pure .copy
  | "filter" => do pure (.filter (← resultPred j))
  | "filter_states" => do pure (.filterStates (← statePred j))
  | "apply_function" => do pure (.applyFunction (← resultFn j))
  | "convert_states" => do pure (.convertStates (← stateFn j))
  | "to_boolean" => pure .toBoolean
  | "to_spin" => pure .toSpin
  | "swap" => pure .swap
  | "stash" => pure .stash
  | _ => throw s!"bad C13 op {o}"

def pstateStr (st : PState) : String := ",".intercalate (st.map (fun p => s!"{p.1}={p.2}"))

def resultStr (r : Result) : String :=
  s!"{evalStr r.value}:{if r.spin then 1 else 0}:{pstateStr r.state}"

def itemsStr (l : List Result) : String := ";".intercalate (l.map resultStr)

def collStr (c : Coll) : String :=
  let b := match c.best with | none => "N" | some b => evalStr b.value
  let mem := match c.best with | none => "0" | some b => if c.items.contains b then "1" else "0"
  s!"{itemsStr c.items}|{b}|{mem}"

def outcomeStr : Outcome → String
  | .ok none => "ok#"
  | .ok (some r) => s!"ok#{resultStr r}"
  | .raised e => s!"E:{e.name}#"
  | .plain l => s!"plain:{itemsStr l}#"

def stepStr (acc : Bool) (m : M) (o : Outcome) : String :=
  s!"{outcomeStr o}#{collStr m.cur}#{collStr m.aux}#{if acc then "A1" else "A0"}"

def machineOfJson (j : Json) : Except String M := do
  let init ← j.getObjVal? "init" >>= resultsOfJson
  let aux := (j.getObjVal? "aux" >>= resultsOfJson).toOption.getD []
  -- without auxiliary operand collection this is `start init`, the initial machine of the history theorems
  pure (if aux.isEmpty then start init else ⟨construct init, construct aux⟩)

def opsOfJson (j : Json) : Except String (List Op) := do
  (← j.getArr?).toList.mapM opOfJson

/-- op "c13": {init, aux?, seq} → {steps: [observation after each step]} -/
def handleSeq (j : Json) : Except String Json := do
  let m ← machineOfJson j
  let seq ← j.getObjVal? "seq" >>= opsOfJson
  let (_, out) := seq.foldl (fun (acc : M × Array String) op =>
    let (m', o) := step impl op acc.1
    (m', acc.2.push (stepStr (listAccepts op acc.1) m' o))) (m, #[])
  pure (Json.mkObj [("steps", Json.arr (out.map Json.str))])

/-- depth-first, pre-order: for each op of the alphabet the observation of that step, then its subtree -/
def tree (alphabet : List Op) : Nat → M → Array String → Array String
  | 0, _, acc => acc
  | d + 1, m, acc =>
    alphabet.foldl (fun acc op =>
      let (m', o) := step impl op m
      tree alphabet d m' (acc.push (stepStr (listAccepts op m) m' o))) acc

/-- op "c13tree": {init, aux?, prefix, alphabet, depth} → {nodes: [...]}: all sequences over the
alphabet of length ≤ depth after the prefix -/
def handleTree (j : Json) : Except String Json := do
  let m ← machineOfJson j
  let pre ← j.getObjVal? "prefix" >>= opsOfJson
  let alphabet ← j.getObjVal? "alphabet" >>= opsOfJson
  let depth ← j.getObjVal? "depth" >>= Json.getNat?
  let m := run impl pre m
  pure (Json.mkObj [("nodes", Json.arr ((tree alphabet depth m #[]).map Json.str))])

def handlersC13 : List (String × (Json → Except String Json)) :=
  [("c13", handleSeq), ("c13tree", handleTree)]

end Qv.Drv.C13
