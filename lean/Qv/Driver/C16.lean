import Qv.Driver.Json
import Qv.Model.Symbolic
import Qv.Model.Pcso
namespace Qv.Drv.C16
open Lean Qv Qv.Sym

def relOfStr : String → Except String Rel
  | "eq" => pure .eq | "ne" => pure .ne | "lt" => pure .lt | "le" => pure .le
  | "gt" => pure .gt | "ge" => pure .ge | s => throw s!"bad rel {s}"

partial def sexprOfJsonC16 (j : Json) : Except String SExpr := do
  let t ← j.getObjVal? "t" >>= Json.getStr?
  match t with
  | "lbl" => do pure (.lbl (← j.getObjVal? "i" >>= Json.getNat?))
  | "raw" => do pure (.raw (← j.getObjVal? "p" >>= polyOfJson))
  | "mdl" => do pure (.mdl (← j.getObjVal? "k" >>= kindOfJson) (← j.getObjVal? "p" >>= polyOfJson))
  | "gate" => do
    let gs ← j.getObjVal? "g" >>= Json.getStr?
    let g ← match Gate.ofName? gs with | some g => pure g | none => throw s!"bad gate {gs}"
    let args ← (← j.getObjVal? "args" >>= Json.getArr?).toList.mapM sexprOfJsonC16
    pure (.gate g args)
  | _ => throw s!"bad sexpr tag {t}"

/-- a weight: coefficient list in the symbol, lowest degree first (`["0","1"]` is the symbol itself) -/
def weightOfJson (j : Json) : Except String RatPoly := do
  let l ← (← j.getArr?).toList.mapM ratOfJson
  pure (RatPoly.ofList l)

def ratPolyJson (p : RatPoly) : Json := Json.arr (p.c.map ratJson).toArray

/-- symbolic terms sorted by key: `[[key, [c0, c1, …]], …]` -/
def symTermsJson (p : PolyR RatPoly) : Json :=
  let s := (p.toArray.qsort (fun a b => keyLt a.1 b.1)).toList
  Json.arr (s.map (fun kv => Json.arr #[keyJson kv.1, ratPolyJson kv.2])).toArray

def consJson (c : List (Rel × Poly)) : Json :=
  Json.arr (c.map (fun c => Json.arr #[Json.str c.1.name, canonJson c.2])).toArray

def strsJson (l : List String) : Json := Json.arr (l.map Json.str).toArray

def symStJson (S : SymSt RatPoly) : Json :=
  Json.mkObj [("sym", symTermsJson S.terms), ("anc", (S.anc : Json)), ("cons", consJson S.cons),
    ("warns", strsJson S.warns), ("tags", strsJson S.tags)]

def numStJson (s : St) : Json :=
  Json.mkObj [("terms", canonJson s.terms), ("anc", (s.anc : Json)), ("cons", consJson s.cons),
    ("warns", strsJson s.warns)]

inductive StepC
  | cmp (rel : Rel) (P : Poly) (w : RatPoly) (lt : Bool) (b : Option Rat × Option Rat) (sup : Bool)
  | logic (eq : Bool) (g : Gate) (ops : List SExpr) (w : RatPoly)

def stepOfJson (spin : Bool) (c : Json) : Except String StepC := do
  let ty := (c.getObjVal? "type" >>= Json.getStr?).toOption.getD "cmp"
  let w ← c.getObjVal? "w" >>= weightOfJson
  if ty == "logic" then
    let eq ← c.getObjVal? "eq" >>= Json.getBool?
    let gs ← c.getObjVal? "g" >>= Json.getStr?
    let g ← match Gate.ofName? gs with | some g => pure g | none => throw s!"bad gate {gs}"
    let ops ← (← c.getObjVal? "ops" >>= Json.getArr?).toList.mapM sexprOfJsonC16
    pure (.logic eq g ops w)
  else
    let rel ← c.getObjVal? "rel" >>= Json.getStr? >>= relOfStr
    let P0 ← c.getObjVal? "P" >>= polyOfJson
    let P := if spin then constructS P0 else constructB P0
    let lt ← c.getObjVal? "lt" >>= Json.getBool?
    let lo ← c.getObjVal? "lo" >>= optRat
    let hi ← c.getObjVal? "hi" >>= optRat
    let sup := (c.getObjVal? "sup" >>= Json.getBool?).toOption.getD false
    pure (.cmp rel P w lt (lo, hi) sup)

/-- one step on the symbolic state -/
def symStep (spin : Bool) (S : SymSt RatPoly) : StepC → Except Err (SymSt RatPoly)
  | .cmp rel P w lt b sup =>
    .ok (if spin then symConstraintSpin S w rel P lt b sup else symConstraint S w rel P lt b sup)
  | .logic eq g ops w => do
    let vs ← buildArgs ops
    symLogic S w eq g vs

/-- `PCSO.add_constraint_R_zero` with a number: the C03 model `Qv.Pcso.addConstraint` -/
def numConstraintSpin (s : St) (lam : Rat) (rel : Rel) (H : Poly) (lt : Bool) (b : Option Rat × Option Rat)
    (sup : Bool) : Except Err St :=
  match Qv.Pcso.addConstraint rel ⟨s.terms, s.anc, s.cons, s.warns, s.tags⟩ H lam lt b sup with
  | .ok p => .ok ⟨p.terms, p.anc, p.cons, p.warns, p.tags⟩
  | .error e => .error e

/-- the same step on a numeric state with the symbol replaced by `c` -/
def numStep (spin : Bool) (c : Rat) (s : St) : StepC → Except Err St
  | .cmp rel P w lt b sup =>
    if spin then numConstraintSpin s (w.evalAt c) rel P lt b sup
    else .ok (addConstraint rel s P (w.evalAt c) lt b sup)
  | .logic eq g ops w => do
    let vs ← buildArgs ops
    consLogic eq g s vs (w.evalAt c)

/-- op "sym_cons": a sequence of constraint calls with symbolic weights on one fresh PCBO (`spin: false`) or
PCSO (`spin: true`) built from the numeric objective `obj`.  Output: per step the ancilla counter or `{err}` (a failing step leaves the state
unchanged), the final symbolic state (`final`), and for every `c` in `subs`: `subs` = the final symbolic terms after
`subs(symbol → c)`, `direct` = the numeric model run with the weights evaluated at `c`. -/
def handleSymCons (j : Json) : Except String Json := do
  let spin := (j.getObjVal? "spin" >>= Json.getBool?).toOption.getD false
  let seq ← (← j.getObjVal? "seq" >>= Json.getArr?).toList.mapM (stepOfJson spin)
  let cs ← (← j.getObjVal? "subs" >>= Json.getArr?).toList.mapM ratOfJson
  let obj0 := (j.getObjVal? "obj" >>= polyOfJson).toOption.getD []
  let obj := if spin then constructS obj0 else constructB obj0       -- `PCBO(obj)` / `PCSO(obj)`
  let S0 : SymSt RatPoly := { terms := lift obj }
  let s0 : St := { terms := obj }
  let (S, outs) := seq.foldl (fun (acc : SymSt RatPoly × List Json) st =>
    match symStep spin acc.1 st with
    | .ok S' => (S', acc.2 ++ [Json.mkObj [("anc", (S'.anc : Json))]])
    | .error e => (acc.1, acc.2 ++ [errJson e])) (S0, [])
  let subsOut := cs.map (fun c =>
    let direct := seq.foldl (fun (s : St) st =>
      match numStep spin c s st with
      | .ok s' => s'
      | .error _ => s) s0
    Json.mkObj [("c", ratJson c), ("subs", canonJson (S.subs (RatPoly.evalAt c)).terms),   -- `PCBO.subs` on the state, as in the theorems
      ("direct", numStJson direct)])
  pure (Json.mkObj [("steps", Json.arr outs.toArray), ("final", symStJson S), ("at", Json.arr subsOut.toArray)])

def menuOfStr : String → Except String LamMenu
  | "const" => pure .const | "abs" => pure .absv | "lin" => pure .linv | s => throw s!"bad menu {s}"

def targetOfStr : String → Except String Reduce.Target
  | "qubo" => pure .qubo | "quso" => pure .quso | "pubo" => pure .pubo | "puso" => pure .puso
  | s => throw s!"bad target {s}"

/-- op "sym_reduce": one of the eight routes with a symbolic penalty from the menu.  Output: the symbolic result,
and for every `c` in `subs` its substitution and the direct numeric route. -/
def handleSymReduce (j : Json) : Except String Json := do
  let spin ← j.getObjVal? "spin" >>= Json.getBool?
  let target ← j.getObjVal? "target" >>= Json.getStr? >>= targetOfStr
  let terms ← j.getObjVal? "terms" >>= polyOfJson
  let m ← (← j.getObjVal? "mapping" >>= Json.getArr?).toList.mapM (fun t => do
    pure (← t.getArrVal? 0 >>= Json.getNat?, ← t.getArrVal? 1 >>= Json.getNat?))
  let n ← j.getObjVal? "n" >>= Json.getNat?
  let dj ← j.getObjVal? "deg"
  let deg ← if dj.isNull then pure none else do pure (some (← dj.getNat?))
  let menu ← j.getObjVal? "menu" >>= Json.getStr? >>= menuOfStr
  let w ← j.getObjVal? "w" >>= weightOfJson
  let pairs ← (← j.getObjVal? "pairs" >>= Json.getArr?).toList.mapM natList
  let cs ← (← j.getObjVal? "subs" >>= Json.getArr?).toList.mapM ratOfJson
  match symRoute (R := RatPoly) spin target terms m n deg menu w pairs with
  | .error e => pure (errJson e)
  | .ok D =>
    let ats := cs.map (fun c =>
      let direct : Json := match Reduce.route spin target terms m n deg (menu.num (w.evalAt c)) pairs with
        | .error e => errJson e
        | .ok o => canonJson o.res
      Json.mkObj [("c", ratJson c), ("subs", canonJson (subsR (RatPoly.evalAt c) D)), ("direct", direct)])
    pure (Json.mkObj [("sym", symTermsJson D), ("at", Json.arr ats.toArray)])

def handlersC16 : List (String × (Json → Except String Json)) :=
  [("sym_cons", handleSymCons), ("sym_reduce", handleSymReduce)]

end Qv.Drv.C16
