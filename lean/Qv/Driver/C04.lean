import Qv.Driver.Json
import Qv.Model.Convert
/-! JSON handlers for property C04 (conversions, enumerations, convert_solution, exports). -/
namespace Qv.Drv.C04
open Lean Qv

def pairsOfJson (j : Json) : Except String (List (Nat × Nat)) := do
  (← j.getArr?).toList.mapM (fun t => do
    let a ← t.getArrVal? 0 >>= Json.getNat?
    let b ← t.getArrVal? 1 >>= Json.getNat?
    pure (a, b))

def solOfJson (j : Json) : Except String Sol := do
  (← j.getArr?).toList.mapM (fun t => do
    let a ← t.getArrVal? 0 >>= Json.getNat?
    let b ← t.getArrVal? 1 >>= ratOfJson
    pure (a, b))

def resJson (κ : Kind) (r : Except Err Poly) : Json :=
  match r with
  | .ok p => Json.mkObj [("type", Json.str κ.name), ("terms", canonJson p)]
  | .error e => errJson e

/-- the terms of the source object: `cls(raw)` for a model type, the dict itself otherwise -/
def sourceTerms (κ : Kind) (raw : Poly) : Except Err Poly :=
  if κ = .dict then .ok raw else construct (squash κ) raw

/-- op "c04conv": one of the four free conversion functions on a source of kind `kind` built from `p` -/
def handleConv (j : Json) : Except String Json := do
  let f ← j.getObjVal? "f" >>= Json.getStr?
  let κ ← j.getObjVal? "kind" >>= kindOfJson
  let raw ← j.getObjVal? "p" >>= polyOfJson
  match sourceTerms κ raw with
  | .error e => pure (errJson e)
  | .ok p =>
    match f with
    | "pubo_to_puso" => pure (resJson (kindPuboToPuso κ) (puboToPuso κ p))
    | "puso_to_pubo" => pure (resJson (kindPusoToPubo κ) (pusoToPubo κ p))
    | "qubo_to_quso" => pure (resJson (kindQuboToQuso κ) (quboToQuso κ p))
    | "quso_to_qubo" => pure (resJson (kindQusoToQubo κ) (qusoToQubo κ p))
    | _ => throw s!"bad conversion {f}"

def targetOfString : String → Except String (Option Target)
  | "to_qubo" => pure (some .qubo) | "to_quso" => pure (some .quso)
  | "to_pubo" => pure (some .pubo) | "to_puso" => pure (some .puso)
  | "to_enumerated" => pure none
  | s => throw s!"bad method {s}"

/-- op "c04meth": `M.to_*(deg)` / `M.to_enumerated()` for `M = kind(p)` with `_mapping = mapping` -/
def handleMeth (j : Json) : Except String Json := do
  let κ ← j.getObjVal? "kind" >>= kindOfJson
  let raw ← j.getObjVal? "p" >>= polyOfJson
  let m ← j.getObjVal? "mapping" >>= pairsOfJson
  let meth ← j.getObjVal? "meth" >>= Json.getStr?
  let deg : Option Int := (j.getObjVal? "deg" >>= Json.getInt?).toOption
  match sourceTerms κ raw with
  | .error e => pure (errJson e)
  | .ok p =>
    let t? ← targetOfString meth
    let isEnum := t?.isNone
    let t? := match t? with | some t => some t | none => enumTarget κ
    match t? with
    | none => pure (errJson .attr)
    | some t =>
      if isEnum then
        -- `M.to_enumerated()`: the model function the theorems are about
        match toEnumerated κ m p with
        | .ok r => pure (Json.mkObj [("type", Json.str t.kind.name), ("terms", canonJson r),
                                     ("noop", toMethodIsNoop κ t m none p)])
        | .error e => pure (Json.mkObj [("err", Json.str e.name), ("noop", toMethodIsNoop κ t m none p)])
      else
      let noop := toMethodIsNoop κ t m deg p
      match toMethod κ t m deg p with
      | .ok r => pure (Json.mkObj [("type", Json.str t.kind.name), ("terms", canonJson r), ("noop", noop)])
      | .error e => pure (Json.mkObj [("err", Json.str e.name), ("noop", noop)])

/-- op "c04sol": `M.convert_solution(sol, flag)` -/
def handleSol (j : Json) : Except String Json := do
  let spinModel ← j.getObjVal? "spin_model" >>= Json.getBool?
  let rev ← j.getObjVal? "rev" >>= pairsOfJson
  let n ← j.getObjVal? "n" >>= Json.getNat?
  let s ← j.getObjVal? "sol" >>= solOfJson
  let isDict ← j.getObjVal? "is_dict" >>= Json.getBool?
  let flag ← j.getObjVal? "flag" >>= Json.getBool?
  match convertSolution spinModel rev n s isDict flag with
  | .error e => pure (errJson e)
  | .ok a =>
    let srt := (a.toArray.qsort (fun x y => x.1 < y.1)).toList
    pure (Json.mkObj [("assign", Json.arr (srt.map (fun kv => Json.arr #[(kv.1 : Json), ratJson kv.2])).toArray)])

/-- op "c04isspin": `is_solution_spin(vals, default)` -/
def handleIsSpin (j : Json) : Except String Json := do
  let vals ← (← j.getObjVal? "vals" >>= Json.getArr?).toList.mapM ratOfJson
  let d ← j.getObjVal? "dflt" >>= Json.getBool?
  pure (Json.mkObj [("spin", isSolutionSpin vals d)])

/-- op "c04export": the properties `Q`, `h`, `J` of `kind(p)` -/
def handleExport (j : Json) : Except String Json := do
  let what ← j.getObjVal? "what" >>= Json.getStr?
  let κ ← j.getObjVal? "kind" >>= kindOfJson
  let raw ← j.getObjVal? "p" >>= polyOfJson
  match sourceTerms κ raw with
  | .error e => pure (errJson e)
  | .ok p =>
    match what with
    | "Q" => pure (Json.mkObj [("terms", canonJson (exportQ [] p))])
    | "J" => pure (Json.mkObj [("terms", canonJson (exportJ p))])
    | "h" => pure (Json.mkObj [("terms", canonJson ((exportH p).map (fun kv => ([kv.1], kv.2))))])
    | _ => throw s!"bad export {what}"

def rowsOfJson (j : Json) : Except String (List (List Rat)) := do
  (← j.getArr?).toList.mapM (fun r => do (← r.getArr?).toList.mapM ratOfJson)

def rowsJson (A : List (List Rat)) : Json :=
  Json.arr (A.map (fun r => Json.arr (r.map ratJson).toArray)).toArray

/-- op "c04m2q": `matrix_to_qubo(rows)` -/
def handleM2Q (j : Json) : Except String Json := do
  let A ← j.getObjVal? "rows" >>= rowsOfJson
  pure (resJson .qubom (matrixToQubo A))

/-- op "c04q2m": `qubo_to_matrix(Q, symmetric)`; with "back": also `matrix_to_qubo` of the result -/
def handleQ2M (j : Json) : Except String Json := do
  let raw ← j.getObjVal? "p" >>= polyOfJson
  let isObj ← j.getObjVal? "is_obj" >>= Json.getBool?
  let sym ← j.getObjVal? "symmetric" >>= Json.getBool?
  match quboToMatrix raw isObj sym with
  | .error e => pure (errJson e)
  | .ok A =>
    pure (Json.mkObj [("matrix", rowsJson A), ("back", resJson .qubom (matrixToQubo A))])

def handlersC04 : List (String × (Json → Except String Json)) :=
  [("c04conv", handleConv), ("c04meth", handleMeth), ("c04sol", handleSol), ("c04isspin", handleIsSpin),
   ("c04export", handleExport), ("c04m2q", handleM2Q), ("c04q2m", handleQ2M)]

end Qv.Drv.C04
