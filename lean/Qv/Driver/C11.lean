import Qv.Driver.Json
import Qv.Model.AnnealFront
/-! Driver handlers for C11 (also used by C12/C17): exact replay of the annealers through the PCG32 model.

* `c11_anneal` — the whole pipeline of `anneal_quso/puso/qubo/pubo` from an abstract model
  (rational coefficients, dyadic so that `float(v)` is exact), temperatures as IEEE-754 bit patterns;
  returns the results and the arguments the front end hands to the C extension;
* `c11_kernel_quso`, `c11_kernel_puso` — the C kernels alone on arrays given as bit patterns. -/
namespace Qv.Drv.C11
open Lean Qv Qv.Kernel Qv.Anneal

/-- exact rational value of a finite double (from its bit pattern) -/
def floatToRat (f : Float) : Rat :=
  let b := f.toBits.toNat
  let neg := b >>> 63 == 1
  let e := (b >>> 52) &&& 0x7ff
  let m := b &&& (2 ^ 52 - 1)
  let (mant, ex) : Nat × Int := if e == 0 then (m, -1074) else (m + 2 ^ 52, (e : Int) - 1075)
  let v : Rat := if ex ≥ 0 then (mant : Rat) * ((2 ^ ex.toNat : Nat) : Rat) else (mant : Rat) / ((2 ^ (-ex).toNat : Nat) : Rat)
  if neg then -v else v

/-- `float(v)` for a dyadic rational within double range (exact; correctly rounded otherwise up to the
rounding of numerator and denominator) -/
def ratToFloat (r : Rat) : Float := Float.ofInt r.num / Float.ofNat r.den

def floatOfBits (j : Json) : Except String Float := do
  pure (Float.ofBits (← j.getNat?).toUInt64)

def bitsJson (f : Float) : Json := (f.toBits.toNat : Json)

def floatCfg : Cfg Rng Float := { src := pcgSrc, toNum := ratToFloat, ofNum := floatToRat }

def errOfName : String → Err
  | "KeyError" => .key | "ValueError" => .value | "TypeError" => .type | "IndexError" => .index
  | "ZeroDivisionError" => .zerodiv | "AttributeError" => .attr | _ => .other

def schedOfJson (j : Json) : Except String (Schedule Float) := do
  let t ← j.getObjVal? "t" >>= Json.getStr?
  if t == "explicit" then
    pure (.explicit (← (← j.getObjVal? "Ts" >>= Json.getArr?).toList.mapM floatOfBits))
  else
    let name ← j.getObjVal? "name" >>= Json.getStr?
    match j.getObjVal? "err" with
    | .ok e => pure (.named name (.error (errOfName (← e.getStr?))))
    | .error _ => pure (.named name (.ok (← (← j.getObjVal? "Ts" >>= Json.getArr?).toList.mapM floatOfBits)))

def initOfJson (j : Json) : Except String (Option (List (Var × Int))) :=
  if j.isNull then pure none else do
    pure (some (← (← j.getArr?).toList.mapM (fun t => do
      pure ((← t.getArrVal? 0 >>= Json.getNat?), (← t.getArrVal? 1 >>= Json.getInt?)))))

/-- the model object: built from the `+=` history `"ops"`, or — optional field `"obj"`, used for objects whose
history is not a plain `+=` history (PCBO / PCSO with recorded constraints and ancillas) — given as the data the
front end reads: `{"terms": items in dict order, "vars": _variables, "mapping": labels by integer index}` -/
def objOfJson (j : Json) : Except String (Except Err Obj) := do
  let κ ← j.getObjVal? "kind" >>= kindOfJson
  match j.getObjVal? "obj" with
  | .ok d =>
    if d.isNull then do
      let ops ← j.getObjVal? "ops" >>= polyOfJson
      pure (if κ = .dict then .ok (Obj.ofDict ops) else Obj.build κ ops)
    else do
      let terms ← d.getObjVal? "terms" >>= polyOfJson
      let vars ← d.getObjVal? "vars" >>= natList
      let mapping ← d.getObjVal? "mapping" >>= natList
      pure (.ok { kind := κ, terms := terms, vars := vars, mapping := mapping })
  | .error _ => do
    let ops ← j.getObjVal? "ops" >>= polyOfJson
    pure (if κ = .dict then .ok (Obj.ofDict ops) else Obj.build κ ops)

def intsJson (l : List Int) : Json := Json.arr (l.map (fun (i : Int) => (i : Json))).toArray
def natsJson (l : List Nat) : Json := Json.arr (l.map (fun (i : Nat) => (i : Json))).toArray

def resJson (r : Res) : Json :=
  Json.mkObj [("state", Json.arr (r.state.map (fun p => Json.arr #[(p.1 : Json), (p.2 : Json)])).toArray),
    ("value", ratJson r.value), ("spin", Json.bool r.spin)]

/-- the arguments of `c_anneal_quso` / `c_anneal_puso` the front end produces -/
def callJson (puso : Bool) (c : Call Float) : Json :=
  let common := [("N", (c.N : Json)), ("init", intsJson c.init), ("Ts", Json.arr (c.Ts.map bitsJson).toArray)]
  if puso then
    let p : Puso Rat := flattenPuso id c.model
    Json.mkObj (common ++ [("nc", natsJson p.nc), ("terms", natsJson p.terms),
      ("cs", Json.arr (p.cs.map ratJson).toArray)])
  else
    match flattenQuso c.N c.model with
    | .error e => Json.mkObj (common ++ [("flatten_err", Json.str e.name)])
    | .ok (h, adj) =>
      let q : Quso Rat := qusoArgs id h adj
      Json.mkObj (common ++ [("h", Json.arr (q.h.map ratJson).toArray), ("nn", natsJson q.nn),
        ("nb", natsJson q.nb), ("J", Json.arr (q.J.map ratJson).toArray)])

/-- optional field `"mapping"`: `obj.set_mapping(...)` / `obj.set_reverse_mapping(...)` after the object was
built, given as the list of labels read by integer index (`mapping[i]` is `reverse_mapping[i]`) -/
def setMappingOfJson (j : Json) (o : Obj) : Except String Obj :=
  match j.getObjVal? "mapping" with
  | .error _ => pure o
  | .ok m => if m.isNull then pure o else do pure { o with mapping := ← natList m }

/-- op `c11_anneal` -/
def handleAnneal (j : Json) : Except String Json := do
  let fn ← j.getObjVal? "fn" >>= Json.getStr?
  let obj0 ← objOfJson j
  let obj : Except Err Obj ← match obj0 with
    | .error e => pure (.error e)
    | .ok o => do pure (.ok (← setMappingOfJson j o))
  let na ← j.getObjVal? "num_anneals" >>= Json.getInt?
  let sched ← j.getObjVal? "sched" >>= schedOfJson
  let init ← j.getObjVal? "init" >>= initOfJson
  let io ← j.getObjVal? "in_order" >>= Json.getBool?
  let seed ← j.getObjVal? "seed" >>= Json.getNat?
  let P : Params Rng Float := { numAnneals := na, schedule := sched, init := init, inOrder := io, rng := Rng.init seed }
  let puso := fn == "puso" || fn == "pubo"
  -- the results come from the model functions the theorems are about
  let r : Except Err (List Res) := do
    let o ← obj
    match fn with
    | "quso" => Anneal.annealQuso floatCfg o P
    | "puso" => Anneal.annealPuso floatCfg o P
    | "qubo" => Anneal.annealQubo floatCfg o P
    | _ => Anneal.annealPubo floatCfg o P
  -- the arguments of the C call, recomputed with the same front-end steps
  let call : Option (Call Float) :=
    let c : Except Err (Prep Float) := do
      let o ← obj
      let (o, P) ← match fn with
        | "qubo" => do pure (← Anneal.quboToQuso o, { P with init := ← booleanToSpinInit P.init })
        | "pubo" => do pure (← Anneal.puboToPuso o, { P with init := ← booleanToSpinInit P.init })
        | _ => pure (o, P)
      prep (if puso then dispatchPuso else dispatchQuso) o P
    match c with
    | .ok (.call c) => some c
    | _ => none
  match r with
  | .error e => pure (errJson e)
  | .ok rs =>
    pure (Json.mkObj [("results", Json.arr (rs.map resJson).toArray),
      ("best", match best rs with | some b => ratJson b.value | none => Json.null),
      ("call", match call with | some c => callJson puso c | none => Json.null)])

def outJson (out : List (List Int × Float)) : Json :=
  Json.arr (out.map (fun sv => Json.arr #[intsJson sv.1, bitsJson sv.2])).toArray

/-- op `c11_kernel_quso`: `anneal_quso` of `anneal_quso.c` on the given arrays -/
def handleKernelQuso (j : Json) : Except String Json := do
  let h ← (← j.getObjVal? "h" >>= Json.getArr?).toList.mapM floatOfBits
  let nn ← j.getObjVal? "nn" >>= natList
  let nb ← j.getObjVal? "nb" >>= natList
  let J ← (← j.getObjVal? "J" >>= Json.getArr?).toList.mapM floatOfBits
  let Ts ← (← j.getObjVal? "Ts" >>= Json.getArr?).toList.mapM floatOfBits
  let na ← j.getObjVal? "num_anneals" >>= Json.getNat?
  let io ← j.getObjVal? "in_order" >>= Json.getBool?
  let seed ← j.getObjVal? "seed" >>= Json.getNat?
  let init ← (← j.getObjVal? "init" >>= Json.getArr?).toList.mapM Json.getInt?
  pure (outJson (Kernel.annealQuso pcgSrc { h, nn, nb, J } h.length Ts io init na (Rng.init seed)))

/-- op `c11_kernel_puso`: `anneal_puso` of `anneal_puso.c` on the given arrays -/
def handleKernelPuso (j : Json) : Except String Json := do
  let N ← j.getObjVal? "N" >>= Json.getNat?
  let nc ← j.getObjVal? "nc" >>= natList
  let terms ← j.getObjVal? "terms" >>= natList
  let cs ← (← j.getObjVal? "cs" >>= Json.getArr?).toList.mapM floatOfBits
  let Ts ← (← j.getObjVal? "Ts" >>= Json.getArr?).toList.mapM floatOfBits
  let na ← j.getObjVal? "num_anneals" >>= Json.getNat?
  let io ← j.getObjVal? "in_order" >>= Json.getBool?
  let seed ← j.getObjVal? "seed" >>= Json.getNat?
  let init ← (← j.getObjVal? "init" >>= Json.getArr?).toList.mapM Json.getInt?
  pure (outJson (Kernel.annealPuso pcgSrc { nc, terms, cs } N Ts io init na (Rng.init seed)))

/-- op `c11_pcg`: the first `n` outputs of `pcg32_random_r` after `rand_init(seed)`, and `rand_int` draws -/
def handlePcg (j : Json) : Except String Json := do
  let seed ← j.getObjVal? "seed" >>= Json.getNat?
  let n ← j.getObjVal? "n" >>= Json.getNat?
  let (_, out) := forN n (Rng.init seed, ([] : List Nat)) fun _ s =>
    let (r, u) := s.1.next
    (r, s.2 ++ [u.toNat])
  pure (natsJson out)

end Qv.Drv.C11

namespace Qv.Drv.C11
def handlersC11 : List (String × (Lean.Json → Except String Lean.Json)) :=
  [("c11_anneal", handleAnneal), ("c11_kernel_quso", handleKernelQuso),
   ("c11_kernel_puso", handleKernelPuso), ("c11_pcg", handlePcg)]
end Qv.Drv.C11
