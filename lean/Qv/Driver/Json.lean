import Lean.Data.Json
import Qv.Model.Basic
/-! JSON helpers shared by the driver's handlers (trusted glue; see DESIGN.md §7). -/
namespace Qv.Drv
open Lean Qv

def ratOfString (s : String) : Except String Rat :=
  match s.splitOn "/" with
  | [a] => match a.toInt? with | some n => pure (n : Rat) | none => throw s!"bad rat {s}"
  | [a, b] => match a.toInt?, b.toNat? with
    | some n, some d => if d = 0 then throw s!"bad rat {s}" else pure ((n : Rat) / (d : Rat))
    | _, _ => throw s!"bad rat {s}"
  | _ => throw s!"bad rat {s}"

def ratOfJson (j : Json) : Except String Rat := do ratOfString (← j.getStr?)

def ratStr (r : Rat) : String := if r.den = 1 then s!"{r.num}" else s!"{r.num}/{r.den}"

def ratJson (r : Rat) : Json := Json.str (ratStr r)

def natList (j : Json) : Except String (List Nat) := do
  (← j.getArr?).toList.mapM (·.getNat?)

def keyJson (k : Key) : Json := Json.arr (k.map (fun (n : Nat) => (n : Json))).toArray

def keyLt : List Nat → List Nat → Bool
  | [], [] => false
  | [], _ => true
  | _, [] => false
  | a :: as, b :: bs => a < b || (a == b && keyLt as bs)

/-- terms in insertion order -/
def polyJson (p : Poly) : Json :=
  Json.arr (p.map (fun kv => Json.arr #[keyJson kv.1, ratJson kv.2])).toArray

/-- terms sorted by key (canonical form for order-insensitive comparison) -/
def canonJson (p : Poly) : Json :=
  polyJson (p.toArray.qsort (fun a b => keyLt a.1 b.1)).toList

def polyOfJson (j : Json) : Except String Poly := do
  (← j.getArr?).toList.mapM (fun t => do
    let k ← t.getArrVal? 0 >>= natList
    let v ← t.getArrVal? 1 >>= ratOfJson
    pure (k, v))

def optRat (j : Json) : Except String (Option Rat) :=
  if j.isNull then pure none else do pure (some (← ratOfJson j))

def kindOfJson (j : Json) : Except String Kind := do
  let s ← j.getStr?
  match Kind.ofName? s with
  | some κ => pure κ
  | none => throw s!"bad kind {s}"

def errJson (e : Err) : Json := Json.mkObj [("err", Json.str e.name)]

/-- assignment given as a list of [label, value] pairs; other labels get `dflt` -/
def assignOfJson (j : Json) (dflt : Rat) : Except String (Var → Rat) := do
  let l ← (← j.getArr?).toList.mapM (fun t => do
    let i ← t.getArrVal? 0 >>= Json.getNat?
    let v ← t.getArrVal? 1 >>= ratOfJson
    pure (i, v))
  pure (fun i => match l.find? (fun p => p.1 == i) with | some p => p.2 | none => dflt)

end Qv.Drv
