import Qv.Driver.Json
import Qv.Model.Extrema
import Qv.Model.TempRange
import Qv.Model.Pcbo
/-! Driver handlers of C15: the four `approximate_*_extrema` functions and the rational part of
`anneal_temperature_range`. -/
namespace Qv.Drv.C15
open Lean Qv

def editOfJson (j : Json) : Except String Edit := do
  let t ← j.getArrVal? 0 >>= Json.getStr?
  let k ← j.getArrVal? 1 >>= natList
  let v ← j.getArrVal? 2 >>= ratOfJson
  match t with
  | "set" => pure (.setE k v)
  | "add" => pure (.addE k v)
  | _ => throw s!"bad edit {t}"

/-- input: {"kind": "dict"|<type name>, "p": terms in insertion order, "edits": [[op,key,val],…]} -/
def inputOfJson (j : Json) : Except String Input := do
  let κ ← j.getObjVal? "kind" >>= kindOfJson
  let d ← j.getObjVal? "p" >>= polyOfJson
  let es ← match j.getObjVal? "edits" with
    | .ok a => do (← a.getArr?).toList.mapM editOfJson
    | .error _ => pure []
  match κ with
  | .dict => pure (.raw d)
  | _ => pure (.obj κ d es)

def varsJson (vs : List Var) : Json :=
  Json.arr ((vs.toArray.qsort (· < ·)).map (fun (n : Nat) => (n : Json)))

/-- op "extrema": f ∈ pubo|qubo|puso|quso applied to the dict / the built object -/
def handleExtrema (j : Json) : Except String Json := do
  let inp ← inputOfJson j
  let f ← j.getObjVal? "f" >>= Json.getStr?
  let g ← match f with
    | "pubo" | "qubo" => pure puboExtrema
    | "puso" | "quso" => pure pusoExtrema
    | _ => throw s!"bad extrema fn {f}"
  match inp with
  | .raw d => let r := g d; pure (Json.mkObj [("lo", ratJson r.1), ("hi", ratJson r.2)])
  | .obj κ d es =>
    match buildObj κ d es with
    | .error e => pure (Json.mkObj [("build_err", Json.str e.name)])
    | .ok s =>
      let r := g s.p
      pure (Json.mkObj [("lo", ratJson r.1), ("hi", ratJson r.2), ("terms", canonJson s.p),
        ("vars", varsJson s.vars)])

def tempJson : Temp → Json
  | .zero => Json.str "zero"
  | .ofDelta d => Json.mkObj [("dE", ratJson d)]

/-- op "temprange": the rational pair (max_del_energy, min_del_energy) and the case split -/
def handleTempRange (j : Json) : Except String Json := do
  let inp ← inputOfJson j
  let ps ← j.getObjVal? "ps" >>= ratOfJson
  let pe ← j.getObjVal? "pe" >>= ratOfJson
  let spin ← j.getObjVal? "spin" >>= Json.getBool?
  -- an object that cannot be constructed never reaches the function
  match inp with
  | .obj κ d es =>
    match buildObj κ d es with
    | .error e => return Json.mkObj [("build_err", Json.str e.name)]
    | .ok _ => pure ()
  | _ => pure ()
  match tempRange inp ps pe spin with
  | .error e => pure (errJson e)
  | .ok (t0, tf) => pure (Json.mkObj [("T0", tempJson t0), ("Tf", tempJson tf)])

/-- op "getbounds": `_get_bounds(PUBO(P), bounds)`; a missing bound is JSON null -/
def handleGetBounds (j : Json) : Except String Json := do
  let d ← j.getObjVal? "p" >>= polyOfJson
  let lo ← j.getObjVal? "lo" >>= optRat
  let hi ← j.getObjVal? "hi" >>= optRat
  match buildObj .pubo d [] with
  | .error e => pure (Json.mkObj [("build_err", Json.str e.name)])
  | .ok s =>
    let r := getBounds s.p (lo, hi)
    pure (Json.mkObj [("lo", ratJson r.1), ("hi", ratJson r.2)])

def handlersC15 : List (String × (Json → Except String Json)) :=
  [("extrema", handleExtrema), ("temprange", handleTempRange), ("getbounds", handleGetBounds)]

end Qv.Drv.C15
