import Qv.Driver.Json
import Qv.Model.Extrema
import Qv.Model.TempRange
import Qv.Model.Pcbo
/-! Driver handlers of C15: the four `approximate_*_extrema` functions and the rational part of
`anneal_temperature_range`. -/
namespace Qv.Drv.C15
open Lean Qv

def editOfJson (j : Json) : Except String Edit := do
  let t ← j.getArrVal? 0 >>= Json.getStr?
  let k ← j.getArrVal? 1 >>= natList
  let v ← j.getArrVal? 2 >>= ratOfJson
  match t with
  | "set" => pure (.setE k v)
  | "add" => pure (.addE k v)
  | _ => throw s!"bad edit {t}"

/-- input: {"kind": "dict"|<type name>, "p": terms in insertion order, "edits": [[op,key,val],…]} -/
def inputOfJson (j : Json) : Except String Input := do
  let κ ← j.getObjVal? "kind" >>= kindOfJson
  let d ← j.getObjVal? "p" >>= polyOfJson
  let es ← match j.getObjVal? "edits" with
    | .ok a => do (← a.getArr?).toList.mapM editOfJson
    | .error _ => pure []
  match κ with
  | .dict => pure (.raw d)
  | _ => pure (.obj κ d es)

def varsJson (vs : List Var) : Json :=
  Json.arr ((vs.toArray.qsort (· < ·)).map (fun (n : Nat) => (n : Json)))

/-- op "extrema": f ∈ pubo|qubo|puso|quso applied to the dict / the built object -/
def handleExtrema (j : Json) : Except String Json := do
  let inp ← inputOfJson j
  let f ← j.getObjVal? "f" >>= Json.getStr?
  let g ← match f with
    | "pubo" | "qubo" => pure puboExtrema
    | "puso" | "quso" => pure pusoExtrema
    | _ => throw s!"bad extrema fn {f}"
  match inp with
  | .raw d => let r := g d; pure (Json.mkObj [("lo", ratJson r.1), ("hi", ratJson r.2)])
  | .obj κ d es =>
    match buildObj κ d es with
    | .error e => pure (Json.mkObj [("build_err", Json.str e.name)])
    | .ok s =>
      let r := g s.p
      pure (Json.mkObj [("lo", ratJson r.1), ("hi", ratJson r.2), ("terms", canonJson s.p),
        ("vars", varsJson s.vars)])

def tempJson : Temp → Json
  | .zero => Json.str "zero"
  | .ofDelta d => Json.mkObj [("dE", ratJson d)]

/-- op "temprange": the rational pair (max_del_energy, min_del_energy) and the case split -/
def handleTempRange (j : Json) : Except String Json := do
  let inp ← inputOfJson j
  let ps ← j.getObjVal? "ps" >>= ratOfJson
  let pe ← j.getObjVal? "pe" >>= ratOfJson
  let spin ← j.getObjVal? "spin" >>= Json.getBool?
  -- an object that cannot be constructed never reaches the function
  match inp with
  | .obj κ d es =>
    match buildObj κ d es with
    | .error e => return Json.mkObj [("build_err", Json.str e.name)]
    | .ok _ => pure ()
  | _ => pure ()
  match tempRange inp ps pe spin with
  | .error e => pure (errJson e)
  | .ok (t0, tf) => pure (Json.mkObj [("T0", tempJson t0), ("Tf", tempJson tf)])

/-- op "getbounds": `_get_bounds(PUBO(P), bounds)`; a missing bound is JSON null -/
def handleGetBounds (j : Json) : Except String Json := do
  let d ← j.getObjVal? "p" >>= polyOfJson
  let lo ← j.getObjVal? "lo" >>= optRat
  let hi ← j.getObjVal? "hi" >>= optRat
  match buildObj .pubo d [] with
  | .error e => pure (Json.mkObj [("build_err", Json.str e.name)])
  | .ok s =>
    let r := getBounds s.p (lo, hi)
    pure (Json.mkObj [("lo", ratJson r.1), ("hi", ratJson r.2)])

/-! ## histories on one model object: queries interleaved with in-place edits

The extrema functions are functions of the terms the object holds *at the time of the call*; the history only
moves the terms (the `DictArithmetic` operators of `Qv.Model.Arith`, through the receiving type's `squash_key`).
Whatever the object remembers between two calls must not show in the answers. -/

/-- one step of a history on a model object `M` -/
inductive HStep
  | setE (k : Key) (v : Rat)        -- `M[k] = v`
  | addE (k : Key) (v : Rat)        -- `M[k] += v`   (`M[k] -= v` is sent as `addE k (-v)`)
  | iaddC (c : Rat)                 -- `M += c`
  | isubC (c : Rat)                 -- `M -= c`
  | iaddD (q : Poly)                -- `M += {…}`
  | isubD (q : Poly)                -- `M -= {…}`
  | imulC (c : Rat)                 -- `M *= c`
  | idivC (c : Rat)                 -- `M /= c`
  | update (q : Poly)               -- `M.update({…})`  (`for k, v in …: self[k] = v`)
  | delIdx (i : Nat)                -- `del M[list(M)[i % len(M)]]` / `M.pop(…)`  (plain `dict` methods; no-op when empty)
  | rebuild                         -- `M.refresh()` / `M = M.copy()`: the terms are re-inserted by the constructor
  | clear                           -- `M.clear()`
  | query (spin : Bool)             -- `approximate_{pubo,qubo}_extrema(M)` / `approximate_{puso,quso}_extrema(M)`
  | bounds (lo hi : Option Rat)     -- `_get_bounds(M, (lo, hi))`
  | temp (ps pe : Rat) (spin : Bool) -- `anneal_temperature_range(M, ps, pe, spin)`

def hstepOfJson (j : Json) : Except String HStep := do
  let t ← j.getArrVal? 0 >>= Json.getStr?
  match t with
  | "set" => do pure (.setE (← j.getArrVal? 1 >>= natList) (← j.getArrVal? 2 >>= ratOfJson))
  | "add" => do pure (.addE (← j.getArrVal? 1 >>= natList) (← j.getArrVal? 2 >>= ratOfJson))
  | "iaddc" => do pure (.iaddC (← j.getArrVal? 1 >>= ratOfJson))
  | "isubc" => do pure (.isubC (← j.getArrVal? 1 >>= ratOfJson))
  | "iaddd" => do pure (.iaddD (← j.getArrVal? 1 >>= polyOfJson))
  | "isubd" => do pure (.isubD (← j.getArrVal? 1 >>= polyOfJson))
  | "imulc" => do pure (.imulC (← j.getArrVal? 1 >>= ratOfJson))
  | "idivc" => do pure (.idivC (← j.getArrVal? 1 >>= ratOfJson))
  | "update" => do pure (.update (← j.getArrVal? 1 >>= polyOfJson))
  | "del" | "pop" => do pure (.delIdx (← j.getArrVal? 1 >>= Json.getNat?))
  | "refresh" | "copy" => pure .rebuild
  | "clear" => pure .clear
  | "q" => do
    let f ← j.getArrVal? 1 >>= Json.getStr?
    match f with
    | "pubo" | "qubo" => pure (.query false)
    | "puso" | "quso" => pure (.query true)
    | _ => throw s!"bad extrema fn {f}"
  | "qb" => do pure (.bounds (← j.getArrVal? 1 >>= optRat) (← j.getArrVal? 2 >>= optRat))
  | "qt" => do
    pure (.temp (← j.getArrVal? 1 >>= ratOfJson) (← j.getArrVal? 2 >>= ratOfJson) (← j.getArrVal? 3 >>= Json.getBool?))
  | _ => throw s!"bad history step {t}"

/-- `for k, v in d.items(): self[k] = v` -/
def updateD (sq : Sq) (p : Poly) : Poly → Except Err Poly
  | [] => .ok p
  | (k, v) :: r => do
    let p' ← setItem sq p k v
    updateD sq p' r

def pairJson (r : Rat × Rat) : Json := Json.mkObj [("lo", ratJson r.1), ("hi", ratJson r.2)]

/-- the terms after a step, and what the step returned to the caller (queries only) -/
def hstep (κ : Kind) (sq : Sq) (p : Poly) : HStep → Except Err (Poly × Option Json)
  | .setE k v => do pure (← setItem sq p k v, none)
  | .addE k v => do pure (← addTerm sq p k v, none)
  | .iaddC c => do pure (← Qv.iaddC sq p c, none)
  | .isubC c => do pure (← addTerm sq p [] (-c), none)
  | .iaddD q => do pure (← Qv.iaddD sq p q, none)
  | .isubD q => do pure (← Qv.isubD sq p q, none)
  | .imulC c => do pure (← Qv.imulC sq p c, none)
  | .idivC c => do pure (← Qv.idivC sq p c, none)
  | .update q => do pure (← updateD sq p q, none)
  | .delIdx i => pure (if p.isEmpty then p else p.eraseIdx (i % p.length), none)
  | .rebuild => do pure (← construct sq p, none)
  | .clear => pure ([], none)
  | .query spin => pure (p, some (pairJson (if spin then pusoExtrema p else puboExtrema p)))
  | .bounds lo hi => pure (p, some (pairJson (getBounds p (lo, hi))))
  | .temp ps pe spin =>
    -- the object as it is now: an object of the same type holding exactly the current terms
    match tempRange (.obj κ p []) ps pe spin with
    | .error e => pure (p, some (errJson e))
    | .ok (t0, tf) => pure (p, some (Json.mkObj [("T0", tempJson t0), ("Tf", tempJson tf)]))

/-- op "extrema_hist": `M = cls(p)` then the steps in order; output: the answers of the query steps in order and the
final terms.  A step that raises ends the history (`err`). -/
def handleExtremaHist (j : Json) : Except String Json := do
  let κ ← j.getObjVal? "kind" >>= kindOfJson
  let d ← j.getObjVal? "p" >>= polyOfJson
  let steps ← (← j.getObjVal? "steps" >>= Json.getArr?).toList.mapM hstepOfJson
  let sq := squash κ
  match construct sq d with
  | .error e => pure (Json.mkObj [("build_err", Json.str e.name)])
  | .ok p0 =>
    let rec go (p : Poly) (acc : Array Json) : List HStep → Json
      | [] => Json.mkObj [("q", Json.arr acc), ("terms", canonJson p)]
      | s :: r =>
        match hstep κ sq p s with
        | .error e => Json.mkObj [("q", Json.arr acc), ("err", Json.str e.name)]
        | .ok (p', none) => go p' acc r
        | .ok (p', some a) => go p' (acc.push a) r
    pure (go p0 #[] steps)

def handlersC15 : List (String × (Json → Except String Json)) :=
  [("extrema", handleExtrema), ("temprange", handleTempRange), ("getbounds", handleGetBounds),
   ("extrema_hist", handleExtremaHist)]

end Qv.Drv.C15
