import Qv.Driver.Json
import Qv.Driver.C02
import Qv.Driver.C06
import Qv.Driver.C09
import Qv.Driver.C01
import Qv.Model.Workflow
import Qv.Model.Pcso
/-! Driver handler for C08 (the README workflow).  Trusted glue: JSON in / out only. -/
namespace Qv.Drv.C08
open Lean Qv Qv.Drv Qv.Workflow

/-- a constraint call: `{t:"cmp", rel, P, raw, lam, lt, lo, hi, sup}` (as op "cons" of C02) or
`{t:"logic", eq, g, ops, lam}` (as op "logic" of C06; the operands are built first) -/
def conOfJson (c : Json) : Except String (Except Err Con) := do
  let t ← c.getObjVal? "t" >>= Json.getStr?
  if t == "cmp" then
    let rel ← c.getObjVal? "rel" >>= Json.getStr? >>= relOfString
    let P0 ← c.getObjVal? "P" >>= polyOfJson
    let raw := (c.getObjVal? "raw" >>= Json.getBool?).toOption.getD false
    let P := if raw then constructB P0 else P0
    let lam ← c.getObjVal? "lam" >>= ratOfJson
    let lt ← c.getObjVal? "lt" >>= Json.getBool?
    let lo ← c.getObjVal? "lo" >>= optRat
    let hi ← c.getObjVal? "hi" >>= optRat
    let sup := (c.getObjVal? "sup" >>= Json.getBool?).toOption.getD false
    pure (.ok (.cmp rel P lam lt (lo, hi) sup))
  else
    let eq ← c.getObjVal? "eq" >>= Json.getBool?
    let gs ← c.getObjVal? "g" >>= Json.getStr?
    let g ← match Gate.ofName? gs with | some g => pure g | none => throw s!"bad gate {gs}"
    let ops ← (← c.getObjVal? "ops" >>= Json.getArr?).toList.mapM C06.sexprOfJsonC06
    let lam ← c.getObjVal? "lam" >>= ratOfJson
    pure (match buildArgs ops with
      | .ok vs => .ok (.logic eq g vs lam)
      | .error e => .error e)

def consOfJson (j : Json) : Except String (List (Rel × Poly)) := do
  (← j.getArr?).toList.mapM (fun c => do
    let r ← c.getArrVal? 0 >>= Json.getStr? >>= relOfString
    let p ← c.getArrVal? 1 >>= polyOfJson
    pure (r, p))

def solOrErr : Except Err Brute.Sol → Json
  | .ok s => C09.solJson s
  | .error e => errJson e

def targets : List (String × Reduce.Target) := [("qubo", .qubo), ("quso", .quso), ("pubo", .pubo), ("puso", .puso)]

/-- op "wf".  Fields: `spin`; either `obj` (raw items of the objective dict) + `steps` (the model builds the PCBO:
output `steps` = state after every call with the validity table over the labels `0..n-1`), or `state`
`{terms, cons}` given as data (PCSO).  Then, on the resulting state: `book` `{n, rm}` → `brute_one`, `brute_all`
(`solve_bruteforce(all_solutions=False/True)`); `mapping` + `book.n` → `forms` (the four `to_*()`);
`rmsols` → `removed` (`remove_ancilla_from_solution` of each); `valids` → `is_valid` of each given dict. -/
def handleWf (j : Json) : Except String Json := do
  let spin := (j.getObjVal? "spin" >>= Json.getBool?).toOption.getD false
  let n := (j.getObjVal? "n" >>= Json.getNat?).toOption.getD 0
  let mut out : List (String × Json) := []
  let mut st : St := {}
  match j.getObjVal? "state" with
  | .ok s =>
    let terms ← s.getObjVal? "terms" >>= polyOfJson
    let cons ← s.getObjVal? "cons" >>= consOfJson
    st := { terms := terms, cons := cons }
  | .error _ =>
    let obj ← j.getObjVal? "obj" >>= polyOfJson
    let steps ← j.getObjVal? "steps" >>= Json.getArr?
    if spin then
      -- PCSO(objective), then the comparison constraints through the model of C03
      let calls ← steps.toList.mapM (fun c => do
        let rel ← c.getObjVal? "rel" >>= Json.getStr? >>= relOfString
        let H ← c.getObjVal? "P" >>= polyOfJson
        let lam ← c.getObjVal? "lam" >>= ratOfJson
        let lt ← c.getObjVal? "lt" >>= Json.getBool?
        let lo ← c.getObjVal? "lo" >>= optRat
        let hi ← c.getObjVal? "hi" >>= optRat
        let sup := (c.getObjVal? "sup" >>= Json.getBool?).toOption.getD false
        pure ({ rel := rel, H := H, lam := lam, lt := lt, bounds := (lo, hi), sup := sup } : Pcso.Call))
      let r : Except Err Pcso.PSt := do
        let t0 ← construct (squash .pcso) obj
        Pcso.runHist { terms := t0 } calls
      match r with
      | .error e => return Json.mkObj [("final", errJson e)]
      | .ok ps =>
        st := { terms := ps.terms, cons := ps.cons, anc := ps.anc }
        out := out ++ [("final", Json.mkObj [("terms", canonJson ps.terms), ("anc", (ps.anc : Json)),
          ("cons", Json.arr (ps.cons.map (fun c => Json.arr #[Json.str c.1.name, canonJson c.2])).toArray),
          ("warns", Json.arr (ps.warns.map Json.str).toArray)])]
    else
    st := start obj
    let mut outs : List Json := [C06.stJsonC06 st n]
    let mut failed := false
    let mut parsed : List Con := []
    for c in steps.toList do
      if failed then continue
      match ← conOfJson c with
      | .error e => outs := outs ++ [errJson e]; failed := true
      | .ok con =>
        parsed := parsed ++ [con]
        match addCon st con with
        | .ok st' => st := st'; outs := outs ++ [C06.stJsonC06 st' n]
        | .error e => outs := outs ++ [errJson e]; failed := true
    out := out ++ [("steps", Json.arr outs.toArray)]
    -- the state everything below is computed from is the one `Workflow.build` (objective, then all constraints) yields —
    -- the function the C08 theorems are about
    if !failed then
      match Workflow.build obj parsed with
      | .ok st' => st := st'
      | .error _ => pure ()
  match j.getObjVal? "book" with
  | .ok b =>
    match ← C09.bookOfJson b with
    | some book =>
      out := out ++ [("brute_one", solOrErr (solveBruteforce spin st book false)),
                     ("brute_all", solOrErr (solveBruteforce spin st book true))]
      match j.getObjVal? "mapping" with
      | .ok m =>
        let m ← C01.mappingOfJson m
        let fs := targets.map (fun (nm, t) =>
          (nm, match form spin t st m book.n with
            | .ok r => Json.mkObj [("res", canonJson r.res)]
            | .error e => errJson e))
        out := out ++ [("forms", Json.mkObj fs)]
      | .error _ => pure ()
    | none => pure ()
  | .error _ => pure ()
  match j.getObjVal? "rmsols" with
  | .ok l =>
    let xs ← (← l.getArr?).toList.mapM C09.pairsOfJson
    out := out ++ [("removed", Json.arr (xs.map (fun x => C09.assignJson (removeAncilla x))).toArray)]
  | .error _ => pure ()
  match j.getObjVal? "valids" with
  | .ok l =>
    let xs ← (← l.getArr?).toList.mapM C09.pairsOfJson
    out := out ++ [("is_valid", Json.arr (xs.map (fun x =>
      match isSolutionValidP spin st x with | .ok b => Json.bool b | .error e => errJson e)).toArray)]
  | .error _ => pure ()
  pure (Json.mkObj out)

def handlersC08 : List (String × (Json → Except String Json)) := [("wf", handleWf)]

end Qv.Drv.C08
