import Qv.Driver.Json
import Qv.Model.Expr
import Qv.Model.Values
namespace Qv.Drv
open Lean Qv

partial def exprOfJson (j : Json) : Except String Expr := do
  let t ← j.getObjVal? "t" >>= Json.getStr?
  match t with
  | "num" => do pure (.num (← j.getObjVal? "c" >>= ratOfJson))
  | "raw" => do pure (.raw (← j.getObjVal? "p" >>= polyOfJson))
  | "mdl" => do pure (.mdl (← j.getObjVal? "k" >>= kindOfJson) (← j.getObjVal? "p" >>= polyOfJson))
  | "cast" => do pure (.cast (← j.getObjVal? "k" >>= kindOfJson) (← j.getObjVal? "a" >>= exprOfJson))
  | "add" => do pure (.add (← j.getObjVal? "a" >>= exprOfJson) (← j.getObjVal? "b" >>= exprOfJson))
  | "sub" => do pure (.sub (← j.getObjVal? "a" >>= exprOfJson) (← j.getObjVal? "b" >>= exprOfJson))
  | "mul" => do pure (.mul (← j.getObjVal? "a" >>= exprOfJson) (← j.getObjVal? "b" >>= exprOfJson))
  | "pow" => do pure (.pow (← j.getObjVal? "a" >>= exprOfJson) (← j.getObjVal? "e" >>= Json.getInt?))
  | "neg" => do pure (.neg (← j.getObjVal? "a" >>= exprOfJson))
  | "pos" => do pure (.pos (← j.getObjVal? "a" >>= exprOfJson))
  | "div" => do pure (.div (← j.getObjVal? "a" >>= exprOfJson) (← j.getObjVal? "c" >>= ratOfJson))
  | _ => throw s!"bad expr tag {t}"

def valJson : Val → Json
  | .num c => Json.mkObj [("type", "num"), ("c", ratJson c)]
  | .raw p => Json.mkObj [("type", "dict"), ("terms", canonJson p)]
  | .mdl κ p => Json.mkObj [("type", Json.str κ.name), ("terms", canonJson p), ("order", polyJson p)]

/-- op "expr": evaluate an expression tree -/
def handleExpr (j : Json) : Except String Json := do
  let e ← j.getObjVal? "tree" >>= exprOfJson
  match run e with
  | .ok v => pure (valJson v)
  | .error err => pure (errJson err)

/-- op "value": the four value functions and `eval` at a list of assignments -/
def handleValue (j : Json) : Except String Json := do
  let p ← j.getObjVal? "p" >>= polyOfJson
  let xs ← (← j.getObjVal? "xs" >>= Json.getArr?).toList.mapM (fun a => assignOfJson a 0)
  let f ← j.getObjVal? "f" >>= Json.getStr?
  let vals ← xs.mapM (fun x => match f with
    | "pubo" => pure (puboValue x p)
    | "qubo" => pure (quboValue x p)
    | "puso" => pure (pusoValue x p)
    | "quso" => pure (qusoValue x p)
    | "eval" => pure (eval x p)
    | _ => throw s!"bad value fn {f}")
  pure (Json.arr (vals.map ratJson).toArray)

end Qv.Drv

namespace Qv.Drv
def handlersC05 : List (String × (Lean.Json → Except String Lean.Json)) :=
  [("expr", handleExpr), ("value", handleValue)]
end Qv.Drv
