import Qv.Driver.Json
import Qv.Model.Subst
/-! JSON handlers for C18: ops `subvalue`, `subgraph`, `normalize`. -/
namespace Qv.Drv.C18
open Lean Qv

/-- "dict" is the builtin dict, "DictArithmetic" the unsquashed base class, else a model type -/
def tyOfJson (j : Json) : Except String Ty := do
  let s ← j.getStr?
  if s == "dict" then pure .builtin
  else if s == "DictArithmetic" then pure (.da .dict)
  else match Kind.ofName? s with
    | some κ => pure (.da κ)
    | none => throw s!"bad type {s}"

/-- items whose key is `null` stand for non-tuple keys -/
def rawItemsOfJson (j : Json) : Except String (List RawItem) := do
  (← j.getArr?).toList.mapM (fun t => do
    let kj ← t.getArrVal? 0
    let v ← t.getArrVal? 1 >>= ratOfJson
    if kj.isNull then pure (none, v) else do pure (some (← natList kj), v))

def assocOfJson (j : Json) : Except String Assoc := do
  (← j.getArr?).toList.mapM (fun t => do
    let i ← t.getArrVal? 0 >>= Json.getNat?
    let v ← t.getArrVal? 1 >>= ratOfJson
    pure (i, v))

def resJson (ty : Json) : Except Err Poly → Json
  | .ok p => Json.mkObj [("type", ty), ("terms", canonJson p)]
  | .error e => errJson e

def handleSubvalue (j : Json) : Except String Json := do
  let tj ← j.getObjVal? "ty"
  let τ ← tyOfJson tj
  let G ← j.getObjVal? "g" >>= rawItemsOfJson
  let vals ← j.getObjVal? "vals" >>= assocOfJson
  -- a dict whose keys are all tuples goes through `subvalue` (the function the theorems are about)
  match G.mapM (fun kv => kv.1.map (fun k => (k, kv.2))) with
  | some P => pure (resJson tj (subvalue τ vals P))
  | none => pure (resJson tj (subvalueRaw τ vals G))

def handleSubgraph (j : Json) : Except String Json := do
  let tj ← j.getObjVal? "ty"
  let τ ← tyOfJson tj
  let G ← j.getObjVal? "g" >>= rawItemsOfJson
  let nodes ← j.getObjVal? "nodes" >>= natList
  let conn ← j.getObjVal? "conn" >>= assocOfJson
  match G.mapM (fun kv => kv.1.map (fun k => (k, kv.2))) with
  | some P => pure (resJson tj (subgraph τ nodes conn P))
  | none => pure (resJson tj (subgraphRaw τ nodes conn G))

def handleNormalize (j : Json) : Except String Json := do
  let tj ← j.getObjVal? "ty"
  let τ ← tyOfJson tj
  let D ← j.getObjVal? "g" >>= polyOfJson
  let c ← j.getObjVal? "c" >>= ratOfJson
  let via ← j.getObjVal? "via" >>= Json.getStr?
  if via == "function" then pure (resJson tj (normalizeFn τ D c))
  else match τ with
    | .builtin => pure (errJson .attr)        -- a builtin dict has no `normalize` method
    | .da κ => pure (resJson tj (normalizeM κ D c))

end Qv.Drv.C18

namespace Qv.Drv.C18
def handlersC18 : List (String × (Lean.Json → Except String Lean.Json)) :=
  [("subvalue", handleSubvalue), ("subgraph", handleSubgraph), ("normalize", handleNormalize)]
end Qv.Drv.C18
