import Qv.Driver.Json
import Qv.Model.Book
/-! JSON handler of C14: run an edit history on a fresh model, print the bookkeeping after every edit. -/
namespace Qv.Drv.C14
open Lean Qv Qv.Book

def relOfString14 : String → Except String Rel
  | "eq" => pure .eq | "ne" => pure .ne | "lt" => pure .lt | "le" => pure .le
  | "gt" => pure .gt | "ge" => pure .ge | s => throw s!"bad rel {s}"

def augOfString : String → Except String Aug
  | "add" => pure .add | "sub" => pure .sub | "mul" => pure .mul | "div" => pure .div
  | s => throw s!"bad aug {s}"

def fixOfJson (j : Json) : Except String Fix := do
  match j.getStr? with
  | .ok "current" => pure Fix.current
  | .ok "fixed" => pure Fix.fixed
  | .ok s => throw s!"bad fix {s}"
  | .error _ =>
    let g := fun (n : String) => (j.getObjVal? n >>= Json.getBool?).toOption.getD false
    pure { d1 := g "d1", d2 := g "d2", d9 := g "d9", dr := g "dr", d10 := g "d10" }

def arithOfJson (j : Json) : Except String Arith := do
  let t ← j.getObjVal? "t" >>= Json.getStr?
  match t with
  | "addC" => do pure (.addC (← j.getObjVal? "c" >>= ratOfJson))
  | "subC" => do pure (.subC (← j.getObjVal? "c" >>= ratOfJson))
  | "mulC" => do pure (.mulC (← j.getObjVal? "c" >>= ratOfJson))
  | "divC" => do pure (.divC (← j.getObjVal? "c" >>= ratOfJson))
  | "pow" => do pure (.pow (← j.getObjVal? "e" >>= Json.getInt?))
  | "addD" => do pure (.addD (← j.getObjVal? "q" >>= polyOfJson))
  | "subD" => do pure (.subD (← j.getObjVal? "q" >>= polyOfJson))
  | "mulD" => do pure (.mulD (← j.getObjVal? "q" >>= polyOfJson))
  | _ => throw s!"bad arith {t}"

partial def bookOpOfJson (fx : Fix) (j : Json) : Except String Op := do
  let t ← j.getObjVal? "t" >>= Json.getStr?
  match t with
  | "set" => do pure (.setitem (← j.getObjVal? "k" >>= natList) (← j.getObjVal? "v" >>= ratOfJson))
  | "aug" => do pure (.augitem (← j.getObjVal? "k" >>= natList)
      (← j.getObjVal? "a" >>= Json.getStr? >>= augOfString) (← j.getObjVal? "d" >>= ratOfJson))
  | "iaddD" => do pure (.iaddD (← j.getObjVal? "q" >>= polyOfJson))
  | "isubD" => do pure (.isubD (← j.getObjVal? "q" >>= polyOfJson))
  | "iaddC" => do pure (.iaddC (← j.getObjVal? "c" >>= ratOfJson))
  | "isubC" => do pure (.isubC (← j.getObjVal? "c" >>= ratOfJson))
  | "imulD" => do pure (.imulD (← j.getObjVal? "q" >>= polyOfJson))
  | "imulC" => do pure (.imulC (← j.getObjVal? "c" >>= ratOfJson))
  | "idivC" => do pure (.idivC (← j.getObjVal? "c" >>= ratOfJson))
  | "ipow" => do pure (.ipow (← j.getObjVal? "e" >>= Json.getInt?))
  | "update" => do pure (.update (← j.getObjVal? "q" >>= polyOfJson))
  | "clear" => pure .clear
  | "refresh" => pure .refresh
  | "copy" => pure .copy
  | "cons" => do
    pure (.cons (← j.getObjVal? "rel" >>= Json.getStr? >>= relOfString14) (← j.getObjVal? "P" >>= polyOfJson)
      (← j.getObjVal? "lam" >>= ratOfJson) (← j.getObjVal? "lt" >>= Json.getBool?)
      (← j.getObjVal? "lo" >>= optRat) (← j.getObjVal? "hi" >>= optRat))
  | "round" => do
    let nd := j.getObjVal? "nd" |>.toOption |>.bind (fun v => v.getInt?.toOption)
    pure (.round nd)
  | "subs" => pure .subs
  | "cast" => do pure (.cast (← j.getObjVal? "kind" >>= kindOfJson))
  | "bin" => do pure (.bin (← j.getObjVal? "a" >>= arithOfJson))
  | "neg" => pure (.bin (.mulC (-1)))          -- `-H` is `-1 * H`
  | "pos" => pure .copy                        -- `+H` is `H.copy()`
  | "rsubC" => do pure (.rsubC (← j.getObjVal? "c" >>= ratOfJson))
  | "remap" => pure .remap
  | "iaddSelf" => pure .iaddSelf
  | "isubSelf" => pure .isubSelf
  | "imulSelf" => pure .imulSelf
  | "updateSelf" => pure .updateSelf
  | "isubCopy" => pure .isubCopy
  | "updateM" => do
    -- the argument model is given by its own history on a fresh object
    let arg ← j.getObjVal? "arg"
    let κg ← arg.getObjVal? "kind" >>= kindOfJson
    let sub ← (← arg.getObjVal? "hist" >>= Json.getArr?).toList.mapM (bookOpOfJson fx)
    let g := run fx κg sub
    pure (.updateM g.kind g.terms g.constraints g.ancilla)
  | _ => throw s!"bad edit {t}"

def natArr (l : List Nat) : Json := Json.arr (l.map (fun (n : Nat) => (n : Json))).toArray

def sortNat (l : List Nat) : List Nat := (l.toArray.qsort (· < ·)).toList

def pairLt (a b : Nat × Nat) : Bool := a.1 < b.1 || (a.1 == b.1 && a.2 < b.2)

def pairsJson (l : List (Nat × Nat)) : Json :=
  Json.arr ((l.toArray.qsort pairLt).toList.map (fun p => Json.arr #[(p.1 : Json), (p.2 : Json)])).toArray

def stateJson (se : State × Option Err) : Json :=
  let s := se.1
  Json.mkObj [
    ("terms", canonJson s.terms), ("order", polyJson s.terms),
    ("mapping", pairsJson s.mapping), ("reverse", pairsJson s.reverse),
    ("maporder", natArr (mapDom s)),
    ("variables", natArr (sortNat s.variables)),
    ("degree", match s.degree with | none => Json.null | some d => (d : Json)),
    ("n", (s.numVars : Json)),
    ("max_index", match maxIndex s with | none => Json.null | some i => (i : Json)),
    ("anc", if hasCons s.kind then (s.ancilla : Json) else Json.null),
    ("cons", Json.arr (s.constraints.map (fun c => Json.arr #[Json.str c.1.name, canonJson c.2])).toArray),
    ("err", match se.2 with | none => Json.null | some e => Json.str e.name)]

/-- op "book": {kind, fix, hist} -/
def handleBook (j : Json) : Except String Json := do
  let κ ← j.getObjVal? "kind" >>= kindOfJson
  let fx ← match j.getObjVal? "fix" with
    | .ok f => fixOfJson f
    | .error _ => pure Fix.current
  let ops ← (← j.getObjVal? "hist" >>= Json.getArr?).toList.mapM (bookOpOfJson fx)
  let tr := trace fx (init κ) ops
  -- `ConsFresh` (the hypothesis `Op.Fresh` of `anc_history_partial`) for every constraint edit, at the counter
  -- it is executed with
  let fresh := (ops.zip ((init κ) :: tr.map Prod.fst)).all (fun (o, s) =>
    match o with
    | .cons r P lam lt lo hi => consFreshB s.kind s.ancilla r P lam lt (lo, hi)
    | _ => true)
  -- the final state as `Book.run` computes it (the function the history theorems are about): the conversion outputs below
  -- are compared with the real object after the whole history
  let fin := run fx κ ops
  pure (Json.mkObj [
    ("steps", Json.arr (tr.map stateJson).toArray), ("fresh", fresh),
    ("conv", Json.mkObj [("base", natArr (sortNat (convBase fin))), ("ancStart", (ancStart fx fin : Json)),
                         ("ancStartB", (fin.numVars : Json))])])

def handlersC14 : List (String × (Json → Except String Json)) := [("book", handleBook)]

end Qv.Drv.C14
