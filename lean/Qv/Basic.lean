def hello := "world"
