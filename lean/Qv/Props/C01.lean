import Qv.Proofs.ReduceLabels
import Qv.Props.C14
/-!
# C01 — Degree reduction never undercuts the model and is exact on consistent ancillas

Only the property theorems and their non-vacuity examples (helper lemmas: `Qv/Proofs/Reduce*.lean`).

Setting (DESIGN.md §4/C01).  `terms` is the model `M` in its integer labels (`mapped_self`: the keys use
labels `< n`, `n = num_binary_variables`).  A *certificate* `certs` lists per term the penalty value `λ`, the
ordered steps `(x, y, z, fresh)` and the final key.  `Qv.Reduce.replay n deg terms certs = .ok st` says that the
specification checker accepts the certificate; `st.D` is then the reduced polynomial `D`, `st.red` the list of
reductions `((x, y), z)` and `st.next` the next free label.  The theorems hold for **every** accepted
certificate — whatever pairs were chosen — with no bound on the number of variables, terms, degree or steps.
The tie to `/repo`: on every run `harness/c01.py` replays the certificate recorded by the hook in
`PUBO._reduce_degree` through this checker and compares `st.D` with the returned matrix exactly; the
implementation model `Qv.Reduce.reduceDegreeC` is compared exactly as well; that its own certificate is accepted
by `replay` is T1.0 (`impl_refines_spec`, for all inputs) and is also re-checked at run time on every case.
The original-label forms (`original_extension`, `original_never_undercuts`, `history_default_reduction`) use
C14's bookkeeping invariant (`Qv.C14.inv_history`) and C04's model of `convert_solution`.
-/
namespace Qv.C01
open Qv Qv.Reduce

variable {n deg : Nat} {terms : Poly} {certs : List TermCert} {st : RSt}

/-- **T1.1 (invariant on `red`).**  The ancillas are exactly the labels `n .. next-1`, one per reduction;
every reduction `((x, y), z)` has `x, y < z` and `n ≤ z < next`; the `z` are strictly increasing in creation
order (hence pairwise distinct). -/
theorem red_invariant (h : replay n deg terms certs = .ok st) :
    st.next = n + st.red.length ∧
    (∀ e ∈ st.red, (e.1.1 : Nat) < e.2 ∧ (e.1.2 : Nat) < e.2 ∧ n ≤ e.2 ∧ (e.2 : Nat) < st.next) ∧
    (st.red.map (fun e => (e.2 : Nat))).Pairwise (· < ·) := by
  have hI := specTerms_inv (inv_init n) (replay_ok h).2
  exact ⟨hI.next_eq, hI.ents, hI.incr⟩

/-- **T1.2 (exact on consistent ancillas, any penalty).**  On every boolean assignment whose ancillas equal
the products they stand for, `D` takes the value of `M` — whatever the penalty values are (zero, negative,
too small, …). -/
theorem exact_on_consistent (h : replay n deg terms certs = .ok st) (s : Var → Rat) (hs : IsBool s)
    (hc : ∀ e ∈ st.red, s e.2 = s e.1.1 * s e.1.2) : eval s st.D = eval s terms := by
  obtain ⟨ht, h2⟩ := replay_ok h
  have := specTerms_exact hs h2 hc
  rw [ht] at this
  simpa using this

/-- **T1.3 (a consistent extension exists).**  Every boolean assignment `x` of `M`'s variables `0..n-1`
extends to a boolean assignment `s` of `D`'s variables with consistent ancillas. -/
theorem consistent_extension (h : replay n deg terms certs = .ok st) (x : Var → Rat) (hx : IsBool x) :
    ∃ s, IsBool s ∧ (∀ i : Var, (i : Nat) < n → s i = x i) ∧ (∀ e ∈ st.red, s e.2 = s e.1.1 * s e.1.2) := by
  have hI := specTerms_inv (inv_init n) (replay_ok h).2
  refine ⟨ext st.red x, ext_bool hx, ?_, ?_⟩
  · intro i hi
    refine ext_not_mem (fun e he hh => ?_)
    have := (hI.ents e he).2.2.1
    subst hh
    exact absurd hi (Nat.not_lt.mpr this)
  · exact ext_consistent x hI.incr (fun e he => ⟨(hI.ents e he).1, (hI.ents e he).2.1⟩)

/-- **T1.2 + T1.3 (first clause of the property).**  Each assignment `x` of `M`'s variables has an extension
`s` over `D`'s variables with `D(s) = M(x)`, whatever penalty is chosen. -/
theorem extension_with_equality (h : replay n deg terms certs = .ok st) (x : Var → Rat) (hx : IsBool x) :
    ∃ s, IsBool s ∧ (∀ i : Var, (i : Nat) < n → s i = x i) ∧ eval s st.D = eval x terms := by
  obtain ⟨s, hs, hag, hc⟩ := consistent_extension h x hx
  refine ⟨s, hs, hag, ?_⟩
  rw [exact_on_consistent h s hs hc]
  obtain ⟨ht, h2⟩ := replay_ok h
  have hl := certTerms_labels h2
  rw [ht] at hl
  exact eval_congr (fun kv hkv i hi => hag i (hl kv hkv i hi))

/-- **T1.4 (never undercuts).**  If the penalty of every reduced term is at least the magnitude of its
coefficient, then for every boolean assignment `s` of `D`'s variables, `D(s) ≥ M(x)` for the assignment `x`
that `convert_solution` reads off `s` (any `x` that agrees with `s` on the labels `0..n-1`). -/
theorem never_undercuts (h : replay n deg terms certs = .ok st)
    (hl : ∀ c ∈ certs, c.steps ≠ [] → |c.v| ≤ c.lam) (s x : Var → Rat) (hs : IsBool s)
    (hag : ∀ i : Var, (i : Nat) < n → x i = s i) : eval x terms ≤ eval s st.D := by
  obtain ⟨ht, h2⟩ := replay_ok h
  have hlab := certTerms_labels h2
  have := specTerms_lower hs h2 hl
  rw [ht] at this hlab
  have e : eval x terms = eval s terms := eval_congr (fun kv hkv i hi => hag i (hlab kv hkv i hi))
  rw [e]
  simpa using this

/-- the default penalty `PUBO.default_lam v = 1 + |v|` is admissible -/
theorem default_lam_admissible (v : Rat) : |v| ≤ defaultLam v := defaultLam_ge v

/-- **T1.5a (same minimum).**  With admissible penalties `M` and `D` have the same lower bounds over boolean
assignments — hence the same minimum — stated without computing minima. -/
theorem same_lower_bounds (h : replay n deg terms certs = .ok st)
    (hl : ∀ c ∈ certs, c.steps ≠ [] → |c.v| ≤ c.lam) (m : Rat) :
    (∀ x, IsBool x → m ≤ eval x terms) ↔ (∀ s, IsBool s → m ≤ eval s st.D) := by
  constructor
  · intro hM s hs
    exact le_trans (hM s hs) (never_undercuts h hl s s hs (fun _ _ => rfl))
  · intro hD x hx
    obtain ⟨s, hs, _, he⟩ := extension_with_equality h x hx
    rw [← he]; exact hD s hs

/-- **T1.5b (minimisers restrict to minimisers).**  With admissible penalties, every boolean minimiser `s`
of `D` gives — through `convert_solution`, i.e. read on the labels `0..n-1` — a minimiser of `M`, and
`D(s) = M(s)`. -/
theorem minimiser_restricts (h : replay n deg terms certs = .ok st)
    (hl : ∀ c ∈ certs, c.steps ≠ [] → |c.v| ≤ c.lam) (s : Var → Rat) (hs : IsBool s)
    (hmin : ∀ s', IsBool s' → eval s st.D ≤ eval s' st.D) :
    (∀ x, IsBool x → eval s terms ≤ eval x terms) ∧ eval s st.D = eval s terms := by
  have low := never_undercuts h hl s s hs (fun _ _ => rfl)
  refine ⟨fun x hx => ?_, ?_⟩
  · obtain ⟨s', hs', _, he⟩ := extension_with_equality h x hx
    rw [← he]; exact le_trans low (hmin s' hs')
  · obtain ⟨s', hs', _, he⟩ := extension_with_equality h s hs
    exact le_antisymm (by rw [← he]; exact hmin s' hs') low

/-- **T1.6 (degree and labels).**  Every key of `D` has at most `deg` labels, all of them below `next`
(so, by T1.1, a label of `D` is either `< n` — a variable of `M` — or one of the ancillas `n .. next-1`);
the keys of `M` use labels `< n` only. -/
theorem degree_and_labels (h : replay n deg terms certs = .ok st) :
    (∀ kv ∈ st.D, kv.1.length ≤ deg ∧ ∀ i ∈ kv.1, (i : Nat) < st.next) ∧
    (∀ kv ∈ terms, ∀ i ∈ kv.1, (i : Nat) < n) := by
  obtain ⟨ht, h2⟩ := replay_ok h
  refine ⟨?_, ?_⟩
  · exact specTerms_keys (inv_init n) (allKeys_nil _) h2
  · have := certTerms_labels h2
    rwa [ht] at this

/-- **T1.6′ (original labels).**  `mapped_self` is `M` relabelled through `mapping`: its value at `s` is
`M`'s value at the assignment `convert_solution(s) = (label ↦ s[mapping[label]])`.  Together with T1.4 this
is the property's second clause in `M`'s own labels:
`D(s) ≥ M(convert_solution(s))` for every boolean `s`. -/
theorem never_undercuts_original {m : Reduce.Mapping} {items : Poly} {f : Freq}
    (hm : Reduce.mapSelf m items [] [] = .ok (terms, f)) (h : replay n deg terms certs = .ok st)
    (hl : ∀ c ∈ certs, c.steps ≠ [] → |c.v| ≤ c.lam) (s : Var → Rat) (hs : IsBool s) :
    eval (fun i => s (Reduce.mfun m i)) items ≤ eval s st.D := by
  have := never_undercuts h hl s s hs (fun _ _ => rfl)
  rwa [Reduce.eval_mapSelf s hm, eval_nil, zero_add] at this

/-- the implementation model's certificate carries the penalty `lam(v)`; with `lam = None` (the default
`1 + |v|`) every step is admissible, so T1.4/T1.5 apply to every default reduction -/
theorem impl_default_admissible {items : Poly} {m : Reduce.Mapping} {cdeg : Nat} {d : Option Nat} {pairs : List Key}
    {o : Out} (h : reduceDegreeC items m n cdeg d .default pairs = .ok o) :
    ∀ c ∈ o.certs, c.steps ≠ [] → |c.v| ≤ c.lam := by
  intro c hc _
  rw [reduceDegreeC_lam h c hc]
  exact defaultLam_ge c.v

/-! ### T1.0 — the implementation model refines the specification -/

/-- **T1.0 (`impl` refines `Spec`).**  The certificate that the implementation model `reduceDegreeC` (the
deterministic algorithm of `PUBO._reduce_degree`, with the pair heuristic, reuse, frequency bumps and sorted
re-insertion) emits is accepted by the specification checker, and the checker recomputes exactly the model's
`D` and next free label — for every model with duplicate-free keys whose `mapping` is injective with images
below `n`, and whose cached `degree` (read for `deg = None`) bounds the key lengths (all three hold in every
bookkeeping state the repaired code can reach: `history_bookOK`).  Behind it: along the reduction of a term the
key stays strictly sorted with labels below `next`, and no two distinct labels of the key have a common
descendant in the forest of reductions, so a reused ancilla is never already in the key, every scanned pair
consists of two distinct labels of the key, and every step shortens the key by one.  Hence T1.1–T1.7 hold of
the implementation model's own output, with no run-time check involved. -/
theorem impl_refines_spec {items : Poly} {m : Reduce.Mapping} {cdeg : Nat} {d : Option Nat} {lam : Lam}
    {pairs : List Key} {o : Out} (h : reduceDegreeC items m n cdeg d lam pairs = .ok o)
    (hkeys : ∀ kv ∈ items, kv.1.Nodup)
    (hlt : ∀ i j, Reduce.lookup m i = some j → (j : Nat) < n)
    (hinj : ∀ i i' j, Reduce.lookup m i = some j → Reduce.lookup m i' = some j → i = i')
    (hdeg : d = none → ∀ kv ∈ items, kv.1.length ≤ cdeg) :
    ∃ st, replay n o.deg o.mapped o.certs = .ok st ∧ st.D = o.D ∧ st.next = o.next :=
  reduceDegreeC_refines h hkeys hlt hinj hdeg

/-! ### The property in `M`'s original labels (with C14's bookkeeping invariant and C04's `convert_solution`) -/

/-- **The bookkeeping the reduction relies on holds along every history of the repaired code** (C14,
`Qv.C14.inv_history`): for a labelled model type after any edit history, the keys are duplicate-free, `mapping`
is injective with images below `num_binary_variables`, defined on every label of the terms, inverted by
`reverse_mapping` (which is injective on `0..n-1`), and the cached `degree` bounds the key lengths. -/
theorem history_bookOK (κ : Kind) (ops : List Book.Op)
    (hb : Book.hasBO (Book.run Book.Fix.fixed κ ops).kind = true) :
    BookOK (Book.run Book.Fix.fixed κ ops).terms (Book.run Book.Fix.fixed κ ops).mapping (Book.run Book.Fix.fixed κ ops).reverse
      (Book.run Book.Fix.fixed κ ops).numVars ((Book.run Book.Fix.fixed κ ops).degree.getD 0) := by
  obtain ⟨i0, i1, i2, i3⟩ := Qv.C14.inv_history κ ops
  exact bookOK_of_inv _ hb i0 i1 i2 i3

/-- **First clause, original labels.**  For the reduction `o.D` that the implementation model produces from a
model with terms `items` and bookkeeping `BookOK`: every boolean assignment `x` of `M`'s own labels has an
extension `s` over `D`'s integer labels — `s[mapping[l]] = x[l]` for every label `l` of `M` — with
`D(s) = M(x)`, whatever penalty is chosen. -/
theorem original_extension {items : Poly} {m rev : Reduce.Mapping} {cdeg : Nat} {d : Option Nat} {lam : Lam}
    {pairs : List Key} {o : Out} (hB : BookOK items m rev n cdeg)
    (h : reduceDegreeC items m n cdeg d lam pairs = .ok o) (x : Var → Rat) (hx : IsBool x) :
    ∃ s, IsBool s ∧ eval s o.D = eval x items ∧ ∀ kv ∈ items, ∀ l ∈ kv.1, s (Reduce.mfun m l) = x l := by
  obtain ⟨st, f, hm, hr, hD, _⟩ := refines_of_bookOK hB h
  obtain ⟨s, hs, hag, he⟩ := extension_with_equality hr (Reduce.pull rev x) (Reduce.pull_bool hx)
  refine ⟨s, hs, ?_, ?_⟩
  · rw [← hD, he, Reduce.eval_mapSelf _ hm, eval_nil, zero_add]
    exact Reduce.eval_pull hB x
  · intro kv hkv l hl
    obtain ⟨j, hj⟩ := hB.dom kv hkv l hl
    rw [mfun_of_lookup hj, hag j (hB.lt l j hj)]
    simp only [Reduce.pull, hB.revOk l j hj]

/-- **Second clause, original labels.**  With an admissible penalty, for every solution container `sol` of
`D`'s variables whose own-form reading `s` is boolean, `D(s) ≥ M(M.convert_solution(sol))`:
`a` is the dict `convert_solution` returns (C04's model `Qv.convertSolution`, on `reverse_mapping` and
`n = num_binary_variables`), evaluated on `M`'s own labels. -/
theorem original_never_undercuts {items : Poly} {m rev : Reduce.Mapping} {cdeg : Nat} {d : Option Nat}
    {lam : Lam} {pairs : List Key} {o : Out} (hB : BookOK items m rev n cdeg)
    (h : reduceDegreeC items m n cdeg d lam pairs = .ok o)
    (hl : ∀ c ∈ o.certs, c.steps ≠ [] → |c.v| ≤ c.lam)
    {sol : Sol} {isDict flag : Bool} {a : Assign}
    (hc : convertSolution false rev n sol isDict flag = .ok a)
    (hs : IsBool (ownSol false (isSolutionSpin (sol.map Prod.snd) flag) sol isDict)) :
    eval a.fn items ≤ eval (ownSol false (isSolutionSpin (sol.map Prod.snd) flag) sol isDict) o.D := by
  obtain ⟨st, f, hm, hr, hD, _⟩ := refines_of_bookOK hB h
  have := never_undercuts_original hm hr hl _ hs
  rw [hD] at this
  rwa [eval_congr (convert_fn hB hc)]

/-- **Both clauses for the default penalty, after any history of the repaired code.**  `M` is any labelled
boolean model (`PUBO`/`PCBO`/`QUBO`) in any bookkeeping state the library can reach; `o.D` is what
`to_pubo(deg)` / `to_qubo()` return with `lam=None`. -/
theorem history_default_reduction (κ : Kind) (ops : List Book.Op)
    (hb : Book.hasBO (Book.run Book.Fix.fixed κ ops).kind = true) {d : Option Nat} {pairs : List Key} {o : Out}
    (h : reduceDegreeC (Book.run Book.Fix.fixed κ ops).terms (Book.run Book.Fix.fixed κ ops).mapping (Book.run Book.Fix.fixed κ ops).numVars
      ((Book.run Book.Fix.fixed κ ops).degree.getD 0) d .default pairs = .ok o) :
    (∀ x, IsBool x → ∃ s, IsBool s ∧ eval s o.D = eval x (Book.run Book.Fix.fixed κ ops).terms) ∧
    (∀ (sol : Sol) (isDict flag : Bool) (a : Assign),
      convertSolution false (Book.run Book.Fix.fixed κ ops).reverse (Book.run Book.Fix.fixed κ ops).numVars sol isDict flag = .ok a →
      IsBool (ownSol false (isSolutionSpin (sol.map Prod.snd) flag) sol isDict) →
      eval a.fn (Book.run Book.Fix.fixed κ ops).terms ≤
        eval (ownSol false (isSolutionSpin (sol.map Prod.snd) flag) sol isDict) o.D) := by
  have hB := history_bookOK κ ops hb
  refine ⟨fun x hx => ?_, fun sol isDict flag a hc hs => ?_⟩
  · obtain ⟨s, hs, he, _⟩ := original_extension hB h x hx
    exact ⟨s, hs, he⟩
  · exact original_never_undercuts hB h (impl_default_admissible h) hc hs

/-- **First clause, original labels, spin source** (`PUSO`/`PCSO`: `D` is the reduction of
`puso_to_pubo(self)`, which `_create_pubo` hands the PUSO's mapping and variable count).  Every spin assignment
`z` of `M`'s own labels has a boolean extension `s` over `D`'s labels — `s[mapping[l]] = spin_to_boolean(z[l])`
— with `D(s) = M(z)`, whatever penalty is chosen. -/
theorem original_extension_spin {H : Poly} {m rev : Reduce.Mapping} {cdeg : Nat} {d : Option Nat} {lam : Lam}
    {pairs : List Key} {o : Out} (hB : BookOK H m rev n cdeg)
    (h : reduceDegreeC (Reduce.pusoToPubo H) m n (degree (Reduce.pusoToPubo H)) d lam pairs = .ok o)
    (z : Var → Rat) (hz : IsSpin z) :
    ∃ s, IsBool s ∧ eval s o.D = eval z H ∧ ∀ kv ∈ H, ∀ l ∈ kv.1, s (Reduce.mfun m l) = Reduce.s2b z l := by
  have hB' := bookOK_pubo hB
  obtain ⟨st, f, hm, hr, hD, _⟩ := refines_of_bookOK hB' h
  obtain ⟨s, hs, hag, he⟩ := extension_with_equality hr (Reduce.pull rev (Reduce.s2b z))
    (Reduce.pull_bool (Reduce.s2b_bool hz))
  refine ⟨s, hs, ?_, ?_⟩
  · rw [← hD, he, Reduce.eval_mapSelf _ hm, eval_nil, zero_add, Reduce.eval_pull hB',
      Reduce.eval_pusoToPubo (Reduce.s2b_bool hz), Reduce.b2s_s2b]
  · intro kv hkv l hl
    obtain ⟨j, hj⟩ := hB.dom kv hkv l hl
    rw [mfun_of_lookup hj, hag j (hB.lt l j hj)]
    simp only [Reduce.pull, hB.revOk l j hj]

/-- **Second clause, original labels, spin source.**  With an admissible penalty: for every solution container
`sol` whose own-form (spin) reading `w` is a spin assignment, `D(spin_to_boolean(w)) ≥ M(M.convert_solution(sol))`
— `spin_to_boolean(w)` is `sol` itself when `sol` is the boolean solution of `D` that `convert_solution`
recognises as boolean. -/
theorem original_never_undercuts_spin {H : Poly} {m rev : Reduce.Mapping} {cdeg : Nat} {d : Option Nat}
    {lam : Lam} {pairs : List Key} {o : Out} (hB : BookOK H m rev n cdeg)
    (h : reduceDegreeC (Reduce.pusoToPubo H) m n (degree (Reduce.pusoToPubo H)) d lam pairs = .ok o)
    (hl : ∀ c ∈ o.certs, c.steps ≠ [] → |c.v| ≤ c.lam)
    {sol : Sol} {isDict flag : Bool} {a : Assign}
    (hc : convertSolution true rev n sol isDict flag = .ok a)
    (hs : IsSpin (ownSol true (isSolutionSpin (sol.map Prod.snd) flag) sol isDict)) :
    eval a.fn H ≤
      eval (Reduce.s2b (ownSol true (isSolutionSpin (sol.map Prod.snd) flag) sol isDict)) o.D := by
  obtain ⟨st, f, hm, hr, hD, _⟩ := refines_of_bookOK (bookOK_pubo hB) h
  have := never_undercuts_original hm hr hl _ (Reduce.s2b_bool hs)
  rw [hD, Reduce.eval_pusoToPubo (fun i => Reduce.s2b_bool hs _)] at this
  rw [eval_congr (convert_fn hB hc)]
  have e : Reduce.b2s (fun i => Reduce.s2b (ownSol true (isSolutionSpin (sol.map Prod.snd) flag) sol isDict)
      (Reduce.mfun m i)) = fun i => ownSol true (isSolutionSpin (sol.map Prod.snd) flag) sol isDict
      (Reduce.mfun m i) := by
    funext i; simp only [Reduce.b2s, Reduce.s2b]; ring
  rwa [e] at this

/-! ### T1.7 — the spin routes, by composition with the boolean ↔ spin maps

`PUBO.to_puso(deg) = pubo_to_puso(to_pubo(deg))`, `PUBO.to_quso = qubo_to_quso(to_qubo)`,
`PUSO.to_* = puso_to_pubo(self).to_*` (after the `deg >= degree` / `degree <= 2` shortcuts, which return the
relabelled model itself).  `s2b z = (1 - z)/2` and `b2s x = 1 - 2x` are `spin_to_boolean`/`boolean_to_spin`,
the conversions `convert_solution` applies. -/

/-- `to_puso`: the PUSO built from the reduced `D` takes at every spin assignment `z` the value of `D` at the
boolean assignment `spin_to_boolean(z)` -/
theorem puso_target_value (D : Poly) (z : Var → Rat) (hz : IsSpin z) :
    eval z (Reduce.puboToPuso D) = eval (Reduce.s2b z) D ∧ IsBool (Reduce.s2b z) :=
  ⟨Reduce.eval_puboToPuso hz D, Reduce.s2b_bool hz⟩

/-- `to_quso`: the same for `qubo_to_quso`, which never raises on a reduced `D` of degree 2 -/
theorem quso_target_value (D : Poly) (hD : ∀ kv ∈ D, kv.1.length ≤ 2) :
    ∃ L, Reduce.quboToQuso D [] = .ok L ∧ ∀ z, IsSpin z → eval z L = eval (Reduce.s2b z) D := by
  obtain ⟨L, hL⟩ := Reduce.quboToQuso_ok hD []
  refine ⟨L, hL, fun z hz => ?_⟩
  rw [Reduce.eval_quboToQuso hz hL]; simp

/-- `PUSO._create_pubo`: the intermediate PUBO takes at every boolean `x` the value of the spin model at
`boolean_to_spin(x)`, and at `spin_to_boolean(w)` the value of the spin model at the spin assignment `w` -/
theorem puso_source_value (H : Poly) (x : Var → Rat) (hx : IsBool x) :
    eval x (Reduce.pusoToPubo H) = eval (Reduce.b2s x) H ∧ IsSpin (Reduce.b2s x) :=
  ⟨Reduce.eval_pusoToPubo hx H, Reduce.b2s_spin hx⟩

/-- **T1.7 (composition, spin target).**  With admissible penalties the spin form of `D` never undercuts:
for every spin assignment `z` of its variables, `to_puso(deg)(z) ≥ M(spin_to_boolean(z))`; and for every
consistent `z` the two are equal, whatever the penalty. -/
theorem spin_target_never_undercuts (h : replay n deg terms certs = .ok st)
    (hl : ∀ c ∈ certs, c.steps ≠ [] → |c.v| ≤ c.lam) (z : Var → Rat) (hz : IsSpin z) :
    eval (Reduce.s2b z) terms ≤ eval z (Reduce.puboToPuso st.D) := by
  rw [Reduce.eval_puboToPuso hz]
  exact never_undercuts h hl (Reduce.s2b z) (Reduce.s2b z) (Reduce.s2b_bool hz) (fun _ _ => rfl)

theorem spin_target_exact (h : replay n deg terms certs = .ok st) (z : Var → Rat) (hz : IsSpin z)
    (hc : ∀ e ∈ st.red, Reduce.s2b z e.2 = Reduce.s2b z e.1.1 * Reduce.s2b z e.1.2) :
    eval z (Reduce.puboToPuso st.D) = eval (Reduce.s2b z) terms := by
  rw [Reduce.eval_puboToPuso hz]
  exact exact_on_consistent h (Reduce.s2b z) (Reduce.s2b_bool hz) hc

/-- **T1.7 (composition, spin source).**  For a spin model `H` reduced through `puso_to_pubo`: with admissible
penalties, for every boolean assignment `s` of `D`'s variables, `D(s) ≥ H(boolean_to_spin(s))`, in `H`'s own
labels through `mapping` (this is `H.convert_solution(s)`). -/
theorem spin_source_never_undercuts {m : Reduce.Mapping} {H : Poly} {f : Freq}
    (hm : Reduce.mapSelf m (Reduce.pusoToPubo H) [] [] = .ok (terms, f)) (h : replay n deg terms certs = .ok st)
    (hl : ∀ c ∈ certs, c.steps ≠ [] → |c.v| ≤ c.lam) (s : Var → Rat) (hs : IsBool s) :
    eval (Reduce.b2s (fun i => s (Reduce.mfun m i))) H ≤ eval s st.D := by
  have := never_undercuts_original hm h hl s hs
  rwa [Reduce.eval_pusoToPubo (fun i => hs (Reduce.mfun m i))] at this

/-! ### Non-vacuity: a concrete accepted certificate with reuse, produced by the implementation model -/

/-- `{(0,1,2,3): 2, (0,1,4): -1, (2,): 3}` reduced to degree 2 with the default penalty -/
def exTerms : Poly := [([0, 1, 2, 3], 2), ([0, 1, 4], -1), ([2], 3)]
def exMap : Reduce.Mapping := [(0, 0), (1, 1), (2, 2), (3, 3), (4, 4)]

/-- the implementation model reduces it with three steps, one of them a reuse … -/
example : (match reduceDegree exTerms exMap 5 (some 2) .default [] with
    | .ok o => o.certs.map (fun c => c.steps.map (fun s => (s.x, s.y, s.z, s.fresh)))
    | .error _ => []) = [[(0, 1, 5, true), (2, 3, 6, true)], [(0, 1, 5, false)], []] := by decide +kernel

/-- … its certificate is accepted by the checker, so the hypotheses of T1.1–T1.6 are satisfiable … -/
example : (match reduceDegree exTerms exMap 5 (some 2) .default [] with
    | .ok o => (match replay 5 o.deg o.mapped o.certs with
        | .ok st => decide (st.D = o.D ∧ st.next = 7 ∧ st.red = [((0, 1), 5), ((2, 3), 6)])
        | .error _ => false)
    | .error _ => false) = true := by decide +kernel

/-- … and every step's penalty is admissible (hypothesis of T1.4/T1.5) -/
example : (match reduceDegree exTerms exMap 5 (some 2) .default [] with
    | .ok o => o.certs.all (fun c => c.steps.isEmpty || decide ((if c.v < 0 then -c.v else c.v) ≤ c.lam))
    | .error _ => false) = true := by decide +kernel

/-- a too small constant penalty is still accepted (T1.2/T1.3 apply, T1.4 does not) -/
example : (match reduceDegree exTerms exMap 5 (some 2) (.const (1/2)) [] with
    | .ok o => (replay 5 o.deg o.mapped o.certs).toOption.isSome
    | .error _ => false) = true := by decide +kernel

/-- the checker rejects a certificate whose reused pair was never reduced -/
example : (replay 3 2 [([0, 1, 2], 1)]
    [{ key := [0, 1, 2], v := 1, lam := 2, steps := [{ x := 0, y := 1, z := 3, fresh := false }],
       final := [2, 3] }]).toOption.isSome = false := by decide +kernel

/-- the spin routes evaluate: `PUSO({(0,1,2): 1}).to_quso()` goes through `puso_to_pubo`, a reduction with
one ancilla and `qubo_to_quso`; `to_puso(3)` takes the shortcut -/
example : (match Reduce.routeSpin .quso [([0, 1, 2], 1)] [(0, 0), (1, 1), (2, 2)] 3 none .default [] with
    | .ok out => decide (out.red.isSome ∧ out.res.length = 11)
    | .error _ => false) = true := by decide +kernel

example : (match Reduce.routeSpin .puso [([0, 1, 2], 1)] [(0, 0), (1, 1), (2, 2)] 3 (some 3) .default [] with
    | .ok out => decide (out.red.isNone ∧ out.res = [([0, 1, 2], 1)])
    | .error _ => false) = true := by decide +kernel

example : IsSpin (fun i => if i = 0 then -1 else 1) := by
  intro i; by_cases h : i = 0 <;> simp [h]

/-- a *stale* model of the repaired code (the term on labels 0,1,4 was cancelled: label 4 stays in the mapping
and in `num_binary_variables`): `history_bookOK` applies, the reduction succeeds, and its first ancilla is 5 -/
def exOps : List Book.Op :=
  [.setitem [0, 1, 2, 3] 2, .setitem [0, 1, 4] (-1), .setitem [2] 3, .setitem [0, 1, 4] 0]

example : Book.hasBO (Book.run Book.Fix.fixed .pubo exOps).kind = true := by decide +kernel
example : Book.Fix.fixed.d1 = true := rfl
example : (match reduceDegreeC (Book.run Book.Fix.fixed .pubo exOps).terms (Book.run Book.Fix.fixed .pubo exOps).mapping
      (Book.run Book.Fix.fixed .pubo exOps).numVars ((Book.run Book.Fix.fixed .pubo exOps).degree.getD 0)
      (some 2) .default [] with
    | .ok o => decide ((Book.run Book.Fix.fixed .pubo exOps).numVars = 5 ∧ o.next = 7 ∧
        o.certs.map (fun c => c.steps.map (fun s => (s.x, s.y, s.z, s.fresh))) =
          [[(0, 1, 5, true), (2, 3, 6, true)], []])
    | .error _ => false) = true := by decide +kernel

/-- `convert_solution` on that model: `[1,1,0,1,0,1,0]` (a solution of `D` incl. two ancillas) is read on the
labels `0..4` -/
example : (match convertSolution false (Book.run Book.Fix.fixed .pubo exOps).reverse 5
      [(0, 1), (1, 1), (2, 0), (3, 1), (4, 0), (5, 1), (6, 0)] false false with
    | .ok a => decide (a = [(0, 1), (1, 1), (2, 0), (3, 1), (4, 0)])
    | .error _ => false) = true := by decide +kernel

example : IsBool (fun i => if i = 0 then 1 else 0) := by
  intro i; by_cases h : i = 0 <;> simp [h]

end Qv.C01
