import Qv.Proofs.ReduceSpin
/-!
# C01 — Degree reduction never undercuts the model and is exact on consistent ancillas

Only the property theorems and their non-vacuity examples (helper lemmas: `Qv/Proofs/Reduce*.lean`).

Setting (DESIGN.md §4/C01).  `terms` is the model `M` in its integer labels (`mapped_self`: the keys use
labels `< n`, `n = num_binary_variables`).  A *certificate* `certs` lists per term the penalty value `λ`, the
ordered steps `(x, y, z, fresh)` and the final key.  `Qv.Reduce.replay n deg terms certs = .ok st` says that the
specification checker accepts the certificate; `st.D` is then the reduced polynomial `D`, `st.red` the list of
reductions `((x, y), z)` and `st.next` the next free label.  The theorems hold for **every** accepted
certificate — whatever pairs were chosen — with no bound on the number of variables, terms, degree or steps.
The tie to `/repo`: on every run `harness/c01.py` replays the certificate recorded by the hook in
`PUBO._reduce_degree` through this checker and compares `st.D` with the returned matrix exactly; the
implementation model `Qv.Reduce.reduceDegree` is compared exactly as well and its own certificate is checked
by `replay` on every case.
-/
namespace Qv.C01
open Qv Qv.Reduce

variable {n deg : Nat} {terms : Poly} {certs : List TermCert} {st : RSt}

/-- **T1.1 (invariant on `red`).**  The ancillas are exactly the labels `n .. next-1`, one per reduction;
every reduction `((x, y), z)` has `x, y < z` and `n ≤ z < next`; the `z` are strictly increasing in creation
order (hence pairwise distinct). -/
theorem red_invariant (h : replay n deg terms certs = .ok st) :
    st.next = n + st.red.length ∧
    (∀ e ∈ st.red, (e.1.1 : Nat) < e.2 ∧ (e.1.2 : Nat) < e.2 ∧ n ≤ e.2 ∧ (e.2 : Nat) < st.next) ∧
    (st.red.map (fun e => (e.2 : Nat))).Pairwise (· < ·) := by
  have hI := specTerms_inv (inv_init n) (replay_ok h).2
  exact ⟨hI.next_eq, hI.ents, hI.incr⟩

/-- **T1.2 (exact on consistent ancillas, any penalty).**  On every boolean assignment whose ancillas equal
the products they stand for, `D` takes the value of `M` — whatever the penalty values are (zero, negative,
too small, …). -/
theorem exact_on_consistent (h : replay n deg terms certs = .ok st) (s : Var → Rat) (hs : IsBool s)
    (hc : ∀ e ∈ st.red, s e.2 = s e.1.1 * s e.1.2) : eval s st.D = eval s terms := by
  obtain ⟨ht, h2⟩ := replay_ok h
  have := specTerms_exact hs h2 hc
  rw [ht] at this
  simpa using this

/-- **T1.3 (a consistent extension exists).**  Every boolean assignment `x` of `M`'s variables `0..n-1`
extends to a boolean assignment `s` of `D`'s variables with consistent ancillas. -/
theorem consistent_extension (h : replay n deg terms certs = .ok st) (x : Var → Rat) (hx : IsBool x) :
    ∃ s, IsBool s ∧ (∀ i : Var, (i : Nat) < n → s i = x i) ∧ (∀ e ∈ st.red, s e.2 = s e.1.1 * s e.1.2) := by
  have hI := specTerms_inv (inv_init n) (replay_ok h).2
  refine ⟨ext st.red x, ext_bool hx, ?_, ?_⟩
  · intro i hi
    refine ext_not_mem (fun e he hh => ?_)
    have := (hI.ents e he).2.2.1
    subst hh
    exact absurd hi (Nat.not_lt.mpr this)
  · exact ext_consistent x hI.incr (fun e he => ⟨(hI.ents e he).1, (hI.ents e he).2.1⟩)

/-- **T1.2 + T1.3 (first clause of the property).**  Each assignment `x` of `M`'s variables has an extension
`s` over `D`'s variables with `D(s) = M(x)`, whatever penalty is chosen. -/
theorem extension_with_equality (h : replay n deg terms certs = .ok st) (x : Var → Rat) (hx : IsBool x) :
    ∃ s, IsBool s ∧ (∀ i : Var, (i : Nat) < n → s i = x i) ∧ eval s st.D = eval x terms := by
  obtain ⟨s, hs, hag, hc⟩ := consistent_extension h x hx
  refine ⟨s, hs, hag, ?_⟩
  rw [exact_on_consistent h s hs hc]
  obtain ⟨ht, h2⟩ := replay_ok h
  have hl := certTerms_labels h2
  rw [ht] at hl
  exact eval_congr (fun kv hkv i hi => hag i (hl kv hkv i hi))

/-- **T1.4 (never undercuts).**  If the penalty of every reduced term is at least the magnitude of its
coefficient, then for every boolean assignment `s` of `D`'s variables, `D(s) ≥ M(x)` for the assignment `x`
that `convert_solution` reads off `s` (any `x` that agrees with `s` on the labels `0..n-1`). -/
theorem never_undercuts (h : replay n deg terms certs = .ok st)
    (hl : ∀ c ∈ certs, c.steps ≠ [] → |c.v| ≤ c.lam) (s x : Var → Rat) (hs : IsBool s)
    (hag : ∀ i : Var, (i : Nat) < n → x i = s i) : eval x terms ≤ eval s st.D := by
  obtain ⟨ht, h2⟩ := replay_ok h
  have hlab := certTerms_labels h2
  have := specTerms_lower hs h2 hl
  rw [ht] at this hlab
  have e : eval x terms = eval s terms := eval_congr (fun kv hkv i hi => hag i (hlab kv hkv i hi))
  rw [e]
  simpa using this

/-- the default penalty `PUBO.default_lam v = 1 + |v|` is admissible -/
theorem default_lam_admissible (v : Rat) : |v| ≤ defaultLam v := defaultLam_ge v

/-- **T1.5a (same minimum).**  With admissible penalties `M` and `D` have the same lower bounds over boolean
assignments — hence the same minimum — stated without computing minima. -/
theorem same_lower_bounds (h : replay n deg terms certs = .ok st)
    (hl : ∀ c ∈ certs, c.steps ≠ [] → |c.v| ≤ c.lam) (m : Rat) :
    (∀ x, IsBool x → m ≤ eval x terms) ↔ (∀ s, IsBool s → m ≤ eval s st.D) := by
  constructor
  · intro hM s hs
    exact le_trans (hM s hs) (never_undercuts h hl s s hs (fun _ _ => rfl))
  · intro hD x hx
    obtain ⟨s, hs, _, he⟩ := extension_with_equality h x hx
    rw [← he]; exact hD s hs

/-- **T1.5b (minimisers restrict to minimisers).**  With admissible penalties, every boolean minimiser `s`
of `D` gives — through `convert_solution`, i.e. read on the labels `0..n-1` — a minimiser of `M`, and
`D(s) = M(s)`. -/
theorem minimiser_restricts (h : replay n deg terms certs = .ok st)
    (hl : ∀ c ∈ certs, c.steps ≠ [] → |c.v| ≤ c.lam) (s : Var → Rat) (hs : IsBool s)
    (hmin : ∀ s', IsBool s' → eval s st.D ≤ eval s' st.D) :
    (∀ x, IsBool x → eval s terms ≤ eval x terms) ∧ eval s st.D = eval s terms := by
  have low := never_undercuts h hl s s hs (fun _ _ => rfl)
  refine ⟨fun x hx => ?_, ?_⟩
  · obtain ⟨s', hs', _, he⟩ := extension_with_equality h x hx
    rw [← he]; exact le_trans low (hmin s' hs')
  · obtain ⟨s', hs', _, he⟩ := extension_with_equality h s hs
    exact le_antisymm (by rw [← he]; exact hmin s' hs') low

/-- **T1.6 (degree and labels).**  Every key of `D` has at most `deg` labels, all of them below `next`
(so, by T1.1, a label of `D` is either `< n` — a variable of `M` — or one of the ancillas `n .. next-1`);
the keys of `M` use labels `< n` only. -/
theorem degree_and_labels (h : replay n deg terms certs = .ok st) :
    (∀ kv ∈ st.D, kv.1.length ≤ deg ∧ ∀ i ∈ kv.1, (i : Nat) < st.next) ∧
    (∀ kv ∈ terms, ∀ i ∈ kv.1, (i : Nat) < n) := by
  obtain ⟨ht, h2⟩ := replay_ok h
  refine ⟨?_, ?_⟩
  · exact specTerms_keys (inv_init n) (allKeys_nil _) h2
  · have := certTerms_labels h2
    rwa [ht] at this

/-- **T1.6′ (original labels).**  `mapped_self` is `M` relabelled through `mapping`: its value at `s` is
`M`'s value at the assignment `convert_solution(s) = (label ↦ s[mapping[label]])`.  Together with T1.4 this
is the property's second clause in `M`'s own labels:
`D(s) ≥ M(convert_solution(s))` for every boolean `s`. -/
theorem never_undercuts_original {m : Mapping} {items : Poly} {f : Freq}
    (hm : mapSelf m items [] [] = .ok (terms, f)) (h : replay n deg terms certs = .ok st)
    (hl : ∀ c ∈ certs, c.steps ≠ [] → |c.v| ≤ c.lam) (s : Var → Rat) (hs : IsBool s) :
    eval (fun i => s (mfun m i)) items ≤ eval s st.D := by
  have := never_undercuts h hl s s hs (fun _ _ => rfl)
  rwa [eval_mapSelf s hm, eval_nil, zero_add] at this

/-- the implementation model's certificate carries the penalty `lam(v)`; with `lam = None` (the default
`1 + |v|`) every step is admissible, so T1.4/T1.5 apply to every default reduction -/
theorem impl_default_admissible {items : Poly} {m : Mapping} {d : Option Nat} {pairs : List Key} {o : Out}
    (h : reduceDegree items m n d .default pairs = .ok o) :
    ∀ c ∈ o.certs, c.steps ≠ [] → |c.v| ≤ c.lam := by
  intro c hc _
  rw [reduceDegree_lam h c hc]
  exact defaultLam_ge c.v

/-! ### T1.7 — the spin routes, by composition with the boolean ↔ spin maps

`PUBO.to_puso(deg) = pubo_to_puso(to_pubo(deg))`, `PUBO.to_quso = qubo_to_quso(to_qubo)`,
`PUSO.to_* = puso_to_pubo(self).to_*` (after the `deg >= degree` / `degree <= 2` shortcuts, which return the
relabelled model itself).  `s2b z = (1 - z)/2` and `b2s x = 1 - 2x` are `spin_to_boolean`/`boolean_to_spin`,
the conversions `convert_solution` applies. -/

/-- `to_puso`: the PUSO built from the reduced `D` takes at every spin assignment `z` the value of `D` at the
boolean assignment `spin_to_boolean(z)` -/
theorem puso_target_value (D : Poly) (z : Var → Rat) (hz : IsSpin z) :
    eval z (puboToPuso D) = eval (s2b z) D ∧ IsBool (s2b z) :=
  ⟨eval_puboToPuso hz D, s2b_bool hz⟩

/-- `to_quso`: the same for `qubo_to_quso`, which never raises on a reduced `D` of degree 2 -/
theorem quso_target_value (D : Poly) (hD : ∀ kv ∈ D, kv.1.length ≤ 2) :
    ∃ L, quboToQuso D [] = .ok L ∧ ∀ z, IsSpin z → eval z L = eval (s2b z) D := by
  obtain ⟨L, hL⟩ := quboToQuso_ok hD []
  refine ⟨L, hL, fun z hz => ?_⟩
  rw [eval_quboToQuso hz hL]; simp

/-- `PUSO._create_pubo`: the intermediate PUBO takes at every boolean `x` the value of the spin model at
`boolean_to_spin(x)`, and at `spin_to_boolean(w)` the value of the spin model at the spin assignment `w` -/
theorem puso_source_value (H : Poly) (x : Var → Rat) (hx : IsBool x) :
    eval x (pusoToPubo H) = eval (b2s x) H ∧ IsSpin (b2s x) :=
  ⟨eval_pusoToPubo hx H, b2s_spin hx⟩

/-- **T1.7 (composition, spin target).**  With admissible penalties the spin form of `D` never undercuts:
for every spin assignment `z` of its variables, `to_puso(deg)(z) ≥ M(spin_to_boolean(z))`; and for every
consistent `z` the two are equal, whatever the penalty. -/
theorem spin_target_never_undercuts (h : replay n deg terms certs = .ok st)
    (hl : ∀ c ∈ certs, c.steps ≠ [] → |c.v| ≤ c.lam) (z : Var → Rat) (hz : IsSpin z) :
    eval (s2b z) terms ≤ eval z (puboToPuso st.D) := by
  rw [eval_puboToPuso hz]
  exact never_undercuts h hl (s2b z) (s2b z) (s2b_bool hz) (fun _ _ => rfl)

theorem spin_target_exact (h : replay n deg terms certs = .ok st) (z : Var → Rat) (hz : IsSpin z)
    (hc : ∀ e ∈ st.red, s2b z e.2 = s2b z e.1.1 * s2b z e.1.2) :
    eval z (puboToPuso st.D) = eval (s2b z) terms := by
  rw [eval_puboToPuso hz]
  exact exact_on_consistent h (s2b z) (s2b_bool hz) hc

/-- **T1.7 (composition, spin source).**  For a spin model `H` reduced through `puso_to_pubo`: with admissible
penalties, for every boolean assignment `s` of `D`'s variables, `D(s) ≥ H(boolean_to_spin(s))`, in `H`'s own
labels through `mapping` (this is `H.convert_solution(s)`). -/
theorem spin_source_never_undercuts {m : Mapping} {H : Poly} {f : Freq}
    (hm : mapSelf m (pusoToPubo H) [] [] = .ok (terms, f)) (h : replay n deg terms certs = .ok st)
    (hl : ∀ c ∈ certs, c.steps ≠ [] → |c.v| ≤ c.lam) (s : Var → Rat) (hs : IsBool s) :
    eval (b2s (fun i => s (mfun m i))) H ≤ eval s st.D := by
  have := never_undercuts_original hm h hl s hs
  rwa [eval_pusoToPubo (fun i => hs (mfun m i))] at this

/-! ### Non-vacuity: a concrete accepted certificate with reuse, produced by the implementation model -/

/-- `{(0,1,2,3): 2, (0,1,4): -1, (2,): 3}` reduced to degree 2 with the default penalty -/
def exTerms : Poly := [([0, 1, 2, 3], 2), ([0, 1, 4], -1), ([2], 3)]
def exMap : Mapping := [(0, 0), (1, 1), (2, 2), (3, 3), (4, 4)]

/-- the implementation model reduces it with three steps, one of them a reuse … -/
example : (match reduceDegree exTerms exMap 5 (some 2) .default [] with
    | .ok o => o.certs.map (fun c => c.steps.map (fun s => (s.x, s.y, s.z, s.fresh)))
    | .error _ => []) = [[(0, 1, 5, true), (2, 3, 6, true)], [(0, 1, 5, false)], []] := by decide +kernel

/-- … its certificate is accepted by the checker, so the hypotheses of T1.1–T1.6 are satisfiable … -/
example : (match reduceDegree exTerms exMap 5 (some 2) .default [] with
    | .ok o => (match replay 5 o.deg o.mapped o.certs with
        | .ok st => decide (st.D = o.D ∧ st.next = 7 ∧ st.red = [((0, 1), 5), ((2, 3), 6)])
        | .error _ => false)
    | .error _ => false) = true := by decide +kernel

/-- … and every step's penalty is admissible (hypothesis of T1.4/T1.5) -/
example : (match reduceDegree exTerms exMap 5 (some 2) .default [] with
    | .ok o => o.certs.all (fun c => c.steps.isEmpty || decide ((if c.v < 0 then -c.v else c.v) ≤ c.lam))
    | .error _ => false) = true := by decide +kernel

/-- a too small constant penalty is still accepted (T1.2/T1.3 apply, T1.4 does not) -/
example : (match reduceDegree exTerms exMap 5 (some 2) (.const (1/2)) [] with
    | .ok o => (replay 5 o.deg o.mapped o.certs).toOption.isSome
    | .error _ => false) = true := by decide +kernel

/-- the checker rejects a certificate whose reused pair was never reduced -/
example : (replay 3 2 [([0, 1, 2], 1)]
    [{ key := [0, 1, 2], v := 1, lam := 2, steps := [{ x := 0, y := 1, z := 3, fresh := false }],
       final := [2, 3] }]).toOption.isSome = false := by decide +kernel

/-- the spin routes evaluate: `PUSO({(0,1,2): 1}).to_quso()` goes through `puso_to_pubo`, a reduction with
one ancilla and `qubo_to_quso`; `to_puso(3)` takes the shortcut -/
example : (match routeSpin .quso [([0, 1, 2], 1)] [(0, 0), (1, 1), (2, 2)] 3 none .default [] with
    | .ok out => decide (out.red.isSome ∧ out.res.length = 11)
    | .error _ => false) = true := by decide +kernel

example : (match routeSpin .puso [([0, 1, 2], 1)] [(0, 0), (1, 1), (2, 2)] 3 (some 3) .default [] with
    | .ok out => decide (out.red.isNone ∧ out.res = [([0, 1, 2], 1)])
    | .error _ => false) = true := by decide +kernel

example : IsSpin (fun i => if i = 0 then -1 else 1) := by
  intro i; by_cases h : i = 0 <;> simp [h]

example : IsBool (fun i => if i = 0 then 1 else 0) := by
  intro i; by_cases h : i = 0 <;> simp [h]

end Qv.C01
