import Qv.Proofs.Info
/-!
# C19 — Models survive copy and info round trips (the round-trip half; `_partial`)

The aliasing half of C19 ("independent objects", "never mutates its argument") is about Python object
identity, which a pure functional model satisfies by construction; it is decided by the correspondence
harness `harness/c19.py` alone (DESIGN.md §4/C19).  Hence every theorem here is the *round-trip* part.
-/
namespace Qv.C19
open Qv

/-- **T19.1 (info round trip).**  For every model object whose observable state is well formed (canonical
terms; recorded constraints canonical, grouped under distinct relations, no empty group; attributes a type
does not have are absent), `create_from_info(get_info(M))` succeeds and reproduces `M`'s type, terms (in
order), name, mapping, ancilla count and recorded constraints; hence `get_info` of the copy equals
`get_info(M)`.  Any number of terms, constraints, labels. -/
theorem info_roundtrip_partial (m : MObj) (h : m.OK) :
    ∃ m', createFromInfo (getInfo m) = .ok m' ∧ m' = m ∧ getInfo m' = getInfo m :=
  ⟨m, createFromInfo_getInfo h, rfl, rfl⟩

/-- **T19.2 (copy).**  `M.copy()` has `M`'s type, terms, recorded constraints and ancilla count. -/
theorem copy_agrees_partial (m : MObj) (h : m.OK) :
    ∃ c, copyObj m = .ok c ∧ c.kind = m.kind ∧ c.terms = m.terms ∧ c.cons = m.cons ∧ c.anc = m.anc := by
  have ht := construct_wf h.terms
  refine ⟨{ kind := m.kind, terms := m.terms, name := none,
            mapping := if m.kind.isLabelled then initialMapping m.terms else [],
            anc := if m.kind.isConstrained then m.anc else 0,
            cons := if m.kind.isConstrained then m.cons else [] },
          by simp only [copyObj, ht, bind, Except.bind, pure, Except.pure], rfl, rfl, ?_, ?_⟩
  · by_cases hc : m.kind.isConstrained = true
    · simp only [hc, if_true]
    · have hc' : m.kind.isConstrained = false := by simpa using hc
      simp only [hc', (h.unconstrained hc').2]; rfl
  · by_cases hc : m.kind.isConstrained = true
    · simp only [hc, if_true]
    · have hc' : m.kind.isConstrained = false := by simpa using hc
      simp only [hc', (h.unconstrained hc').1]; rfl

/-- rebuilding a canonical dict through the constructor is the identity, in order (used by both) -/
theorem construct_canonical (κ : Kind) (p : Poly) (h : WF (squash κ) p) : construct (squash κ) p = .ok p :=
  construct_wf h

/-! ### Non-vacuity -/

/-- a PCBO with two terms, a name, two constraint groups and three ancillas is well formed -/
def sample : MObj :=
  { kind := .pcbo, terms := [([0, 1], 2), ([], -1)], name := some "m",
    mapping := [(0, 0), (1, 1)], anc := 3,
    cons := [(.le, [[([0], 1), ([], -1)]]), (.eq, [[([1], 1)], [([0, 1], 1)]])] }

example : (createFromInfo (getInfo sample)).toOption.map (fun m => m.terms) = some sample.terms := by
  decide +kernel

end Qv.C19
