import Qv.Proofs.Info
import Qv.Proofs.HeapKinds
import Qv.Proofs.HeapHist
/-!
# C19 — Models survive copy and info round trips and never alias their inputs

Two halves.  The *round-trip* half (T19.1–T19.2, `_partial`) is about the pure observable state (`Qv.Model.Info`).
The *aliasing* half ("independent objects", "never mutates its argument") is about Python object identity; it is
stated over the explicit heap of `Qv.Model.Heap` — cells for the mutable containers, every API entry a heap
transformer written after the source — and tied to the code by the sharing-graph correspondence of
`harness/c19h.py` (T19.A separation, T19.B frame, T19.C arguments unchanged; second part of this file).
-/
namespace Qv.C19
open Qv

/-- **T19.1 (info round trip).**  For every model object whose observable state is well formed (canonical
terms; recorded constraints canonical, grouped under distinct relations, no empty group; attributes a type
does not have are absent), `create_from_info(get_info(M))` succeeds and reproduces `M`'s type, terms (in
order), name, mapping, ancilla count and recorded constraints; hence `get_info` of the copy equals
`get_info(M)`.  Any number of terms, constraints, labels. -/
theorem info_roundtrip_partial (m : MObj) (h : m.OK) :
    ∃ m', createFromInfo (getInfo m) = .ok m' ∧ m' = m ∧ getInfo m' = getInfo m :=
  ⟨m, createFromInfo_getInfo h, rfl, rfl⟩

/-- **T19.2 (copy).**  `M.copy()` has `M`'s type, terms, recorded constraints and ancilla count. -/
theorem copy_agrees_partial (m : MObj) (h : m.OK) :
    ∃ c, copyObj m = .ok c ∧ c.kind = m.kind ∧ c.terms = m.terms ∧ c.cons = m.cons ∧ c.anc = m.anc := by
  have ht := construct_wf h.terms
  refine ⟨{ kind := m.kind, terms := m.terms, name := none,
            mapping := if m.kind.isLabelled then initialMapping m.terms else [],
            anc := if m.kind.isConstrained then m.anc else 0,
            cons := if m.kind.isConstrained then m.cons else [] },
          by simp only [copyObj, ht, bind, Except.bind, pure, Except.pure], rfl, rfl, ?_, ?_⟩
  · by_cases hc : m.kind.isConstrained = true
    · simp only [hc, if_true]
    · have hc' : m.kind.isConstrained = false := by simpa using hc
      simp only [hc', (h.unconstrained hc').2]; rfl
  · by_cases hc : m.kind.isConstrained = true
    · simp only [hc, if_true]
    · have hc' : m.kind.isConstrained = false := by simpa using hc
      simp only [hc', (h.unconstrained hc').1]; rfl

/-- rebuilding a canonical dict through the constructor is the identity, in order (used by both) -/
theorem construct_canonical (κ : Kind) (p : Poly) (h : WF (squash κ) p) : construct (squash κ) p = .ok p :=
  construct_wf h

/-! ### Non-vacuity -/

/-- a PCBO with two terms, a name, two constraint groups and three ancillas is well formed -/
def sample : MObj :=
  { kind := .pcbo, terms := [([0, 1], 2), ([], -1)], name := some "m",
    mapping := [(0, 0), (1, 1)], anc := 3,
    cons := [(.le, [[([0], 1), ([], -1)]]), (.eq, [[([1], 1)], [([0, 1], 1)]])] }

example : (createFromInfo (getInfo sample)).toOption.map (fun m => m.terms) = some sample.terms := by
  decide +kernel

/-! ## The aliasing half (explicit heap, `Qv.Model.Heap`)

`Heap` = list of cells, a reference is an index; `Reach h a c`: `c` is reachable from `a`; `Closed h`: no dangling
reference (holds along every history, T19.H); `absVal h x`: terms, name, mapping, ancilla count and recorded
constraints of the object at `x`; `F : Ctor`, `Upd`, `Payload`: the data a constructor / an in-place update stores —
arbitrary, the theorems hold for every data-level behaviour.

`FreshResult h.length h h' r` (proved for each API entry, T19.A-*): the call only appended cells to `h`, the result
`r` is one of the appended cells, and appended cells refer to appended cells only. -/

open Qv.Hp

/-- **T19.A-copy.**  `M.copy()` builds its result from fresh cells only. -/
theorem copy_fresh (F : Ctor) (h h' : Heap) (o r : Nat) (he : copyM F h o = some (h', r)) :
    FreshResult h.length h h' r := copyM_fresh F (Nat.le_refl _) he

/-- **T19.A-ctor.**  Every copy constructor `κ(a)` (`PUBO(M)`, `PCBO(M)`, `QUBO(d)`, … — any target type, `a` a model of
any type or a plain dict) builds its result from fresh cells only; for `PCBO(M)` / `PCSO(M)` with `M` of the same type
this includes the constraint dict, its lists and one object per recorded constraint. -/
theorem ctor_fresh (F : Ctor) (h h' : Heap) (κ : Kind) (a r : Nat) (he : copyCtor F h κ a = some (h', r)) :
    FreshResult h.length h h' r := copyCtor_fresh F (Nat.le_refl _) he

/-- **T19.A-roundtrip.**  `create_from_info(get_info(M))` builds its result from fresh cells only. -/
theorem roundtrip_fresh (F : Ctor) (h h' : Heap) (o r : Nat) (he : roundTrip F h o = some (h', r)) :
    FreshResult h.length h h' r := roundTrip_fresh F (Nat.le_refl _) he

/-- **T19.K (the round trip keeps the kind of the recorded constraints).**  For a `PCBO` / `PCSO` object `M` (any heap),
the result of `create_from_info(get_info(M))` is an object of `M`'s kind whose `_constraints` lists hold only objects
of kind `consKind` of it — `PUSO` in a spin model, `PUBO` in a boolean one — without constraints of their own. -/
theorem roundtrip_constraint_kinds (F : Ctor) (h h' : Heap) (o r : Nat) (d : ObjData) (m rm : Option Nat) (v : Nat)
    (c : Option Nat) (ho : h[o]? = some (Cell.obj d m rm v c)) (hcon : d.kind.isConstrained = true)
    (he : roundTrip F h o = some (h', r)) :
    ∃ d' mm rm' v' cd g, h'[r]? = some (Cell.obj d' mm rm' v' (some cd)) ∧ d'.kind = d.kind ∧
      h'[cd]? = some (Cell.cdict g) ∧
      ∀ e ∈ g, ∃ rs, h'[e.2]? = some (Cell.list rs) ∧
        ∀ x ∈ rs, ∃ dx mx rmx vx, h'[x]? = some (Cell.obj dx mx rmx vx none) ∧ dx.kind = consKind d.kind :=
  roundTrip_kinds F ho hcon he

/-- `get_info(M)`: the info dict, its `terms`, `mapping` and `constraints` are fresh. -/
theorem get_info_fresh (F : Ctor) (h h' : Heap) (o r : Nat) (he : getInfoH F h o = some (h', r)) :
    FreshResult h.length h h' r := getInfoH_fresh F (Nat.le_refl _) he

/-- `create_from_info(info)`: the model is fresh (it holds no cell of the info dict). -/
theorem create_from_info_fresh (F : Ctor) (h h' : Heap) (i r : Nat) (he : createFromInfoH F h i = some (h', r)) :
    FreshResult h.length h h' r := createFromInfoH_fresh F (Nat.le_refl _) he

/-- **T19.A-mapping.** -/
theorem mapping_fresh (h h' : Heap) (o r : Nat) (he : getMapping h o = some (h', r)) :
    FreshResult h.length h h' r := getMapping_fresh (Nat.le_refl _) he

/-- **T19.A-reverse_mapping.** -/
theorem reverse_mapping_fresh (h h' : Heap) (o r : Nat) (he : getRMapping h o = some (h', r)) :
    FreshResult h.length h h' r := getRMapping_fresh (Nat.le_refl _) he

/-- **T19.A-variables.** -/
theorem variables_fresh (h h' : Heap) (o r : Nat) (he : getVariables h o = some (h', r)) :
    FreshResult h.length h h' r := getVariables_fresh (Nat.le_refl _) he

/-- **T19.A-constraints.**  The `constraints` property: fresh dict, fresh lists, a fresh object per constraint. -/
theorem constraints_fresh (F : Ctor) (h h' : Heap) (o r : Nat) (he : getConstraints F h o = some (h', r)) :
    FreshResult h.length h h' r := getConstraints_fresh F (Nat.le_refl _) he

/-- the `to_*` methods and the four free conversions return a fresh object -/
theorem conversion_fresh (h h' : Heap) (a r : Nat) (κres : Kind) (pl : Payload)
    (he : convH h a κres pl = some (h', r)) : FreshResult h.length h h' r := convH_fresh (Nat.le_refl _) he

/-- the annealers' front end returns a fresh result (and writes nothing, T19.A) -/
theorem anneal_fresh (h h' : Heap) (a r : Nat) (init : Option Nat) (κtmp : Kind) (pl : Payload) (nres : Nat)
    (he : annealH h a init κtmp pl nres = some (h', r)) : FreshResult h.length h h' r :=
  annealH_fresh (Nat.le_refl _) he

/-- **T19.A (separation).**  For every closed heap and every call whose result is built from fresh cells (each of the
entries above): everything reachable from the result is a cell the call allocated; the result shares no cell with *any*
object that existed before (the model, the arguments, anything else); no old cell was written; every old object has the
abstract value and the reachable cells it had; the heap is still closed. -/
theorem fresh_separated (h h' : Heap) (r : Nat) (hc : Closed h) (f : FreshResult h.length h h' r) :
    (∀ c, Reach h' r c → h.length ≤ c) ∧ Separated h h' r ∧ (∀ c, c < h.length → h'[c]? = h[c]?) ∧
      (∀ x, x < h.length → absVal h' x = absVal h x ∧ ∀ c, Reach h' x c ↔ Reach h x c) ∧ Closed h' :=
  ⟨fun _ hr => f.reach_fresh hr, f.separated hc, fun _ hc' => f.1.old hc',
    fun _ hx => ⟨f.1.absVal_old hc hx, fun _ => f.1.reach_old_iff hc hx⟩, hc.fresh f.1⟩

/-- **T19.B (frame, writes through the result).**  A client that holds only the result `r` — every cell it writes and
every reference it stores is reachable from `r` or from a cell it allocated itself (`RunVia [r]`), any number of steps
— leaves every object that existed before the call exactly as it was: same reachable cells, same content, same
abstract value (terms, name, mapping, ancilla count, constraints). -/
theorem frame_writes_through_result (h h' : Heap) (r : Nat) (hc : Closed h) (f : FreshResult h.length h h' r)
    (s : List Step) (hs : RunVia [r] h' s) (x : Nat) (hx : x < h.length) :
    absVal (runSteps h' s) x = absVal h x ∧ (∀ c, Reach (runSteps h' s) x c ↔ Reach h x c) ∧
      (∀ c, Reach h x c → (runSteps h' s)[c]? = h[c]?) := by
  have ht := RunVia.targets (n := h.length) s [r] h' f.len f.upClosed
    (by intro q hq; simp only [List.mem_singleton] at hq; subst hq; exact f.2.1) hs
  obtain ⟨h1, h2, h3⟩ := frame_old f.1 hc s ht hx
  exact ⟨h3, h1, h2⟩

/-- **T19.B (frame, the other direction).**  Any steps that never write a cell reachable from the result — in
particular any mutation of the original model through its own cells — leave the result exactly as it was. -/
theorem frame_writes_outside_result (h h' : Heap) (r : Nat) (f : FreshResult h.length h h' r) (s : List Step)
    (hs : ∀ st ∈ s, ∀ t, st.target = some t → ¬ Reach h' r t) :
    absVal (runSteps h' s) r = absVal h' r ∧ (∀ c, Reach (runSteps h' s) r c ↔ Reach h' r c) ∧
      (∀ c, Reach h' r c → (runSteps h' s)[c]? = h'[c]?) := by
  have hex : ∀ c, Reach h' r c → c < h'.length := fun c hr =>
    (Reach.inside (S := fun c => h.length ≤ c ∧ c < h'.length)
      (fun c cell hc hg q hq => f.1.up c cell hc.1 hg q hq) ⟨f.2.1, f.2.2⟩ hr).2
  have hag : ∀ c, Reach h' r c → (runSteps h' s)[c]? = h'[c]? := fun c hr =>
    runSteps_keep (fun c => Reach h' r c) s h' hs c (hex c hr) hr
  exact ⟨absVal_congr hag, fun c => Reach.congr hag, hag⟩

/-- **T19.C-add_constraint.**  `H.add_constraint_<rel>_zero(P, lam=…)` for any relation, any multiplier / penalty
(`pen`), `P` a model of any type or a dict, possibly `H` itself: the call writes only cells of `own h recv` (the
receiver, its bookkeeping, its constraint dict and lists).  Hence every object `x` none of whose cells is one of those
— the argument, unless it is (part of) the receiver — has afterwards the abstract value, the reachable cells and the
cell contents it had before. -/
theorem add_constraint_args_unchanged (F : Ctor) (h h' : Heap) (recv arg : Nat) (rel : Rel) (pen : Option Upd)
    (hc : Closed h) (he : Hp.addConstraint F h recv rel arg pen = some h') :
    Closed h' ∧ ∀ x, x < h.length → (∀ c, Reach h x c → c ∉ own h recv) →
      absVal h' x = absVal h x ∧ (∀ c, Reach h' x c ↔ Reach h x c) ∧ (∀ c, Reach h x c → h'[c]? = h[c]?) := by
  obtain ⟨hf, hc'⟩ := addConstraint_frame F hc he
  refine ⟨hc', fun x hx hd => ?_⟩
  have hag := hf.reach hc hx hd
  exact ⟨absVal_congr hag, fun c => Reach.congr hag, hag⟩

/-- **T19.C-add_constraint (no capture).**  The constraint is recorded as a copy: after the call, whatever any old
object (the receiver included) reaches is a cell the call allocated or a cell it reached before.  In particular the
receiver does not come to hold the argument or any part of it. -/
theorem add_constraint_no_capture (F : Ctor) (h h' : Heap) (recv arg : Nat) (rel : Rel) (pen : Option Upd)
    (hc : Closed h) (he : Hp.addConstraint F h recv rel arg pen = some h') (x c : Nat) (hx : x < h.length)
    (hr : Reach h' x c) : h.length ≤ c ∨ Reach h x c :=
  (addConstraint_edges F he).reach hc hx hr

/-- **T19.C-update.**  `H.update(A)` writes only cells of `own h recv`; every object disjoint from those is unchanged.
(It does append `A`'s constraint *objects* to `H`'s lists — `H` and `A` share them afterwards; the model says so and
the correspondence confirms it.  No cell of `A` is written.) -/
theorem update_args_unchanged (h h' : Heap) (recv arg : Nat) (u : Upd) (hc : Closed h)
    (he : updateH h recv arg u = some h') :
    Closed h' ∧ ∀ x, x < h.length → (∀ c, Reach h x c → c ∉ own h recv) →
      absVal h' x = absVal h x ∧ (∀ c, Reach h' x c ↔ Reach h x c) ∧ (∀ c, Reach h x c → h'[c]? = h[c]?) := by
  obtain ⟨hf, hc'⟩ := updateH_frame hc he
  refine ⟨hc', fun x hx hd => ?_⟩
  have hag := hf.reach hc hx hd
  exact ⟨absVal_congr hag, fun c => Reach.congr hag, hag⟩

/-- **T19.C-solve (other objects).**  The brute-force solvers write exactly one old cell, the argument's own dict
(`offset = D.pop(()); D[()] = offset`); every object that does not reach that cell is unchanged. -/
theorem solve_others_unchanged (h h' : Heap) (a nres : Nat) (rs : List Nat) (hc : Closed h)
    (he : solveH h a nres = some (h', rs)) :
    Closed h' ∧ ∀ x, x < h.length → ¬ Reach h x a →
      absVal h' x = absVal h x ∧ (∀ c, Reach h' x c ↔ Reach h x c) := by
  obtain ⟨hf, hc'⟩ := solveH_frame hc he
  refine ⟨hc', fun x hx hd => ?_⟩
  have hag := hf.reach hc hx (fun c hr hm => by
    simp only [List.mem_singleton] at hm; subst hm; exact hd hr)
  exact ⟨absVal_congr hag, fun c => Reach.congr hag⟩

/-- **T19.C-solve (the argument).**  The argument itself — a plain dict, or a model object that stores no zero offset
and is not reachable from its own attributes — has afterwards the abstract value it had, up to the order of its terms
(the offset key moves to the end): the same finite map, name, mapping, ancilla count, constraints. -/
theorem solve_arg_unchanged (h h' : Heap) (a nres : Nat) (rs : List Nat) (hc : Closed h)
    (he : solveH h a nres = some (h', rs))
    (hacyc : ∀ cell, h[a]? = some cell → ∀ q ∈ cell.refs, ¬ Reach h q a)
    (hz : ∀ d m rm v c, h[a]? = some (Cell.obj d m rm v c) → ∀ e ∈ d.terms, e.1 = [] → e.2 ≠ 0)
    (mo : MObj) (hv : absVal h a = some mo) : ∃ mo', absVal h' a = some mo' ∧ SameUpToOrder mo' mo :=
  solveH_value hc he hacyc hz hv

/-- **T19.H (histories).**  Every state reachable from the empty heap by any history of the modelled API calls
(`stepH`: construction, item assignment, `copy`, copy constructors, `get_info`, `create_from_info`, the four properties,
`add_constraint_*`, `update`, conversions, solvers, annealers, picking sub-objects, the operators in place and not,
the sat gates, the free utilities) has a closed heap and valid
variables — the hypothesis `Closed h` of the theorems above is always met. -/
theorem history_closed (F : Ctor) (ops : List Op) (s : HState) (he : runH F {} ops = some s) :
    Closed s.heap ∧ ∀ r ∈ s.env, r < s.heap.length :=
  runH_ok F ops {} s HState.OK.init he

/-! ## Operators, sat gates, free utilities (C05 "operands are left unchanged", C07 "the inputs are not modified",
C14 / C18 in-place semantics) — `Qv.Model.HeapArith`

`Confined T h h'`: the heap is still closed; no old cell outside `T` was written; every old object none of whose cells
is in `T` is `Unchanged` (same abstract value, same reachable cells, same cell contents); nothing is captured (whatever
an old object reaches afterwards it reached before, or is a cell the call allocated). -/

/-- **arith (not in place).**  `a + b`, `a - b`, `a / c`, `a // c`, `a * c`, `b + a`, `c * a`, `-a` — `b` a model of any
type, a plain dict, `a` itself, or a number: `d = self.copy(); d <op>= other; return d`.  The result is built from fresh
cells only — by T19.A it shares nothing with either operand and no operand cell is written. -/
theorem arith_binop_fresh (F : Ctor) (h h' : Heap) (a r : Nat) (other : Option Nat) (u : Upd) (hc : Closed h)
    (he : binopH F h a other u = some (h', r)) : FreshResult h.length h h' r := binopH_fresh F hc he

/-- `+a` is `self.copy()`. -/
theorem arith_pos_fresh (F : Ctor) (h h' : Heap) (a r : Nat) (he : copyM F h a = some (h', r)) :
    FreshResult h.length h h' r := copyM_fresh F (Nat.le_refl _) he

/-- `b - a` for a number or plain dict `b` (`-1*self + other`: two copies). -/
theorem arith_rsub_fresh (F : Ctor) (h h' : Heap) (a r : Nat) (other : Option Nat) (u1 u2 : Upd) (hc : Closed h)
    (he : rsubH F h a other u1 u2 = some (h', r)) : FreshResult h.length h h' r := rsubH_fresh F hc he

/-- `a * b` for a dict / model `b`, including `a * a`. -/
theorem arith_mul_fresh (F : Ctor) (h h' : Heap) (a b r : Nat) (u : Upd) (hc : Closed h)
    (he : mulDictH F h a b u = some (h', r)) : FreshResult h.length h h' r := mulDictH_fresh F hc he

/-- `a ** n`, every `n ≥ 1` (`us.length + 1`). -/
theorem arith_pow_fresh (F : Ctor) (h h' : Heap) (a r : Nat) (us : List Upd) (hc : Closed h)
    (he : powH F h a us = some (h', r)) : FreshResult h.length h h' r := powH_fresh F hc he

/-- `round(a, n)` and `a.subs(…)`, for PCBO / PCSO with a fresh copy of every recorded constraint. -/
theorem arith_round_subs_fresh (F : Ctor) (h h' : Heap) (a r : Nat) (pl : Payload)
    (he : rebuildH F h a pl = some (h', r)) : FreshResult h.length h h' r := rebuildH_fresh F (Nat.le_refl _) he

/-- **arith (in place, item updates).**  `a += b`, `a -= b` (`b` a dict, a model, a number, or `a` itself), `a *= c`,
`a /= c`, `a //= c` (`c` a number), `a.normalize()`, `a[k] = v`: the call writes only the receiver's object cell,
`_mapping`, `_reverse_mapping` and `_variables` (`mutFootprint`).  The other operand — unless it is (part of) the
receiver, as in `a += a` / `a -= a`, where it changes because it *is* the receiver — is unchanged. -/
theorem arith_inplace_update (h h' : Heap) (recv : Nat) (other : Option Nat) (u : Upd) (hc : Closed h)
    (he : iupdH h recv other u = some h') : Confined (mutFootprint h recv) h h' := (iupdH_good he).confined hc

/-- **arith (in place, `*=` by a dict).**  `a *= b` for a dict / model `b`, including `a *= a`: the only old cell
written is the receiver's object cell — its `_mapping`, `_reverse_mapping`, `_variables` are *replaced* by fresh cells
(`self.clear()` re-runs `__init__`), the old ones are left as they were; a PCBO / PCSO keeps its `_constraints` dict. -/
theorem arith_inplace_mul (h h' : Heap) (recv other : Nat) (u : Upd) (hc : Closed h)
    (he : imulDictH h recv other u = some h') : Confined [recv] h h' :=
  (imulDictH_good (Nat.le_refl _) he).confined hc

/-- `a **= n` (`n = us.length + 1`): nothing at all for `n = 1`; else one copy and `n - 1` times `self *= old`. -/
theorem arith_inplace_pow (F : Ctor) (h h' : Heap) (recv : Nat) (us : List Upd) (hc : Closed h)
    (he : ipowH F h recv us = some h') : Confined [recv] h h' := (ipowH_good F (Nat.le_refl _) he).confined hc

/-- `a.clear()`: the receiver's object cell only (fresh empty bookkeeping; a PCBO / PCSO gets a fresh empty
`_constraints`). -/
theorem arith_inplace_clear (h h' : Heap) (recv : Nat) (hc : Closed h) (he : clearH h recv = some h') :
    Confined [recv] h h' := (clearH_good (Nat.le_refl _) he).confined hc

/-- `a.refresh()`: the receiver's object cell only (fresh bookkeeping; a PCBO / PCSO gets fresh copies of its recorded
constraints). -/
theorem arith_inplace_refresh (F : Ctor) (h h' : Heap) (recv : Nat) (hc : Closed h)
    (he : refreshH F h recv = some h') : Confined [recv] h h' := (refreshH_good F (Nat.le_refl _) he).confined hc

/-- **sat.**  `BUFFER(x)` is a copy — `x.copy()` for a model object of any type, `PUBO(x)` for a dict; never `x`. -/
theorem sat_buffer_fresh (F : Ctor) (h h' : Heap) (x r : Nat) (he : bufferH F h x = some (h', r)) :
    FreshResult h.length h h' r := bufferH_fresh F (Nat.le_refl _) he

/-- **sat.**  `NOT`, `AND`, `NAND`, `OR`, `NOR`, `XOR`, `XNOR` over any operands (labels, dicts, model objects — also the
same object several times): the result is built from fresh cells only; no operand cell is written (T19.A). -/
theorem sat_gate_fresh (F : Ctor) (h h' : Heap) (first : Option Nat) (others : List Nat) (u : Upd) (r : Nat)
    (hc : Closed h) (he : satH F h first others u = some (h', r)) : FreshResult h.length h h' r := satH_fresh F hc he

/-- **utils.**  `normalize(D)`, `subgraph(G, nodes, connections)`, `subvalue(values, G)` (functions and methods): the
result `type(D)()` is fresh; `D`, `nodes`, `connections`, `values` are only read. -/
theorem utils_newlike_fresh (h h' : Heap) (a r : Nat) (extras : List Nat) (pl : Payload)
    (he : newLikeH h a extras pl = some (h', r)) : FreshResult h.length h h' r := newLikeH_fresh (Nat.le_refl _) he

/-- **utils.**  `pubo_value`, `qubo_value`, `puso_value`, `quso_value`, `approximate_*_extrema`,
`anneal_temperature_range`, `convert_solution`: no old cell is written — every old object is unchanged — and what they
return (`rs`; only `convert_solution` returns a container) is fresh. -/
theorem utils_readonly (h h' : Heap) (args rs : List Nat) (nres : Nat) (hc : Closed h)
    (he : readOnlyH h args nres = some (h', rs)) :
    Closed h' ∧ (∀ c, c < h.length → h'[c]? = h[c]?) ∧ (∀ x, x < h.length → Unchanged h h' x) ∧
      ∀ r ∈ rs, h.length ≤ r ∧ r < h'.length ∧ ∀ c, Reach h' r c → h.length ≤ c := by
  obtain ⟨f, hrs⟩ := readOnlyH_fresh (n := h.length) he
  refine ⟨hc.fresh f, fun c hc' => f.old hc', fun x hx => ?_, fun r hr => ?_⟩
  · have hag : ∀ c, Reach h x c → h'[c]? = h[c]? := fun c hr => f.old (hr.lt hc hx)
    exact ⟨absVal_congr hag, fun c => Reach.congr hag, hag⟩
  · have fr : FreshResult h.length h h' r := ⟨f, (hrs r hr).1, (hrs r hr).2⟩
    exact ⟨(hrs r hr).1, (hrs r hr).2, fun c hrc => fr.reach_fresh hrc⟩

/-! ### Non-vacuity (aliasing half) -/

/-- `H = PCBO(); d = {…}; H.add_constraint_le_zero(d, lam=1); G = PCBO(); G.add_constraint_eq_zero(H, lam=0);
G.update(H)` — after which `G` and `H` share a constraint object -/
def sampleOps : List Op :=
  [.new .pcbo, .dict, .addc 0 .le 1 (some {}), .new .pcbo, .addc 2 .eq 0 none, .update 2 0 {}]

def sampleState : HState := (runH (fun _ _ => {}) {} sampleOps).getD {}

example : sampleState.heap.length = 22 ∧ sampleState.env = [4, 5, 15] := by decide +kernel

example : Closed sampleState.heap := by
  have h : (runH (fun _ _ => {}) {} sampleOps).isSome = true := by decide +kernel
  obtain ⟨s, hs⟩ := Option.isSome_iff_exists.mp h
  have e : sampleState = s := by simp [sampleState, hs]
  rw [e]
  exact (history_closed _ sampleOps s hs).1

/-- every entry of T19.A is defined on it (receiver `G` = cell 15) -/
example : (copyM (fun _ _ => {}) sampleState.heap 15).isSome ∧ (roundTrip (fun _ _ => {}) sampleState.heap 15).isSome ∧
    (getConstraints (fun _ _ => {}) sampleState.heap 15).isSome ∧ (getMapping sampleState.heap 15).isSome ∧
    (getRMapping sampleState.heap 15).isSome ∧ (getVariables sampleState.heap 15).isSome ∧
    (copyCtor (fun _ _ => {}) sampleState.heap .pubo 15).isSome ∧
    (Hp.addConstraint (fun _ _ => {}) sampleState.heap 15 .ge 4 (some {})).isSome ∧
    (updateH sampleState.heap 4 15 {}).isSome ∧ (solveH sampleState.heap 5 2).isSome := by decide +kernel

/-- `G` and `H` do share a cell (the constraint object `H` recorded, appended by `update`), so separation of a copy
from *both* is not trivial; and the copy of `G` has 15 cells of its own -/
example : (reachList sampleState.heap [15]).filter (fun c => (reachList sampleState.heap [4]).contains c) = [9, 6, 7, 8] ∧
    ((copyM (fun _ _ => {}) sampleState.heap 15).map (fun p => (reachList p.1 [p.2]).length)) = some 15 := by
  decide +kernel

/-- the operators, gates and utilities are defined on it (`G` = cell 15, `H` = cell 4, the dict = cell 5), also with
both operands the same object -/
example : (binopH (fun _ _ => {}) sampleState.heap 15 (some 15) {}).isSome ∧ (rsubH (fun _ _ => {}) sampleState.heap 15 (some 5) {} {}).isSome ∧
    (mulDictH (fun _ _ => {}) sampleState.heap 15 15 {}).isSome ∧ (powH (fun _ _ => {}) sampleState.heap 15 [{}, {}]).isSome ∧
    (rebuildH (fun _ _ => {}) sampleState.heap 15 {}).isSome ∧ (iupdH sampleState.heap 15 (some 15) {}).isSome ∧
    (imulDictH sampleState.heap 15 15 {}).isSome ∧ (ipowH (fun _ _ => {}) sampleState.heap 15 [{}]).isSome ∧
    (clearH sampleState.heap 15).isSome ∧ (refreshH (fun _ _ => {}) sampleState.heap 15).isSome ∧
    (satH (fun _ _ => {}) sampleState.heap (some 15) [5, 15] {}).isSome ∧ (newLikeH sampleState.heap 15 [5] {}).isSome ∧
    (readOnlyH sampleState.heap [5, 15] 1).isSome := by decide +kernel

/-- `H` (cell 4) shares the constraint object 6 with `G` but none of the cells `G += …` writes: the hypothesis of
`arith_inplace_update` holds for it, and `G *= G` leaves it alone as well -/
example : (reachList sampleState.heap [4]).all (fun c => !(mutFootprint sampleState.heap 15).contains c) = true := by
  decide +kernel

/-- the hypothesis of T19.C-add_constraint holds for the dict argument (cell 5) of a call on `G` -/
example : (reachList sampleState.heap [5]).all (fun c => !(own sampleState.heap 15).contains c) = true := by
  decide +kernel

end Qv.C19
