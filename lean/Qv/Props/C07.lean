import Qv.Proofs.Sat
import Qv.Proofs.SatTotal
import Qv.Proofs.SatKind
/-!
# C07 — sat expression builders compute their truth functions

Only the property theorems and their non-vacuity examples live here (helper lemmas are in
`Qv/Proofs/Sat.lean`, `Qv/Proofs/SatTotal.lean`, `Qv/Proofs/SatKind.lean`).  The model is `Qv.Model.Sat` (on top of
`Qv.Model.Expr`); its tie to `qubovert/sat/_satisfiability.py` is the correspondence check
`harness/c07.py`.

Vocabulary (defined in `Qv/Proofs/Sat*.lean`):
* `SExpr.Ok e` — the scope of the property: every gate of `e` has at least one operand, every plain-dict /
  model leaf is {0,1}-valued on boolean assignments (`B01`), every model leaf is of one of the five
  boolean model types (`κ ≠ dict ∧ κ.isSpin = false`);
* `truth x e` (model file) — the truth value of `e` at `x`: labels are true iff non-zero, `AND = all`,
  `OR = any`, `XOR`/`XNOR` = odd / even number of true operands, `NOT/NAND/NOR` the negations;
* `gateTruth g ts` — the same truth function of one gate on a list of truth values;
* `SExpr.resultKind e` — the type of the leftmost leaf of `e` if that is a model, `PUBO` otherwise;
* `SExpr.Shape K e` — every `BUFFER`/`NOT` node has exactly one operand and every model leaf's type satisfies `K`.
-/
namespace Qv.C07
open Qv

/-- **T7.1 (one gate, any arity ≥ 1, any operand types).**  If the evaluated operands `vs` (labels, plain
dicts, canonical boolean models) take the values `1`/`0` encoding the truth values `ts` at the boolean
assignment `x`, then whatever the gate returns evaluates at `x` to the gate's truth function of `ts`. -/
theorem gate_truth (g : Gate) (vs : List SVal) (ts : List Bool) (x : Var → Rat) (hx : IsBool x)
    (hops : List.Forall₂ (fun v t => SVal.Good v ∧ v.evalS x = if t then 1 else 0) vs ts)
    (harity : vs ≠ []) (r : Val) (h : applyGate g vs = .ok r) :
    r.eval x = if gateTruth g ts then 1 else 0 :=
  (applyGate_sound hx hops harity h).1

/-- **T7.1 (whole trees, any depth, any arity ≥ 1).**  For every expression tree in the scope of the
property and every boolean assignment `x`: if the builders return a value `v`, then `v` evaluates at `x`
to `1` when the expression is true at `x` and to `0` otherwise. -/
theorem build_truth (e : SExpr) (he : e.Ok) (x : Var → Rat) (hx : IsBool x) (v : Val)
    (h : build e = .ok v) : v.eval x = if truth x e then 1 else 0 := by
  simp only [build, bind_ok_iff] at h
  obtain ⟨sv, hsv, h⟩ := h
  cases sv with
  | lbl i => cases h
  | val w =>
    simp only [pure, Except.pure] at h
    injection h with h; subst h
    exact (buildArg_sound hx e _ he hsv).2

/-- **T7.1 (closure).**  The result of a gate expression in scope is again a legitimate operand: a model
of a boolean type that is {0,1}-valued on every boolean assignment — so results nest to any depth. -/
theorem build_closed (g : Gate) (args : List SExpr) (he : (SExpr.gate g args).Ok) (v : Val)
    (h : build (.gate g args) = .ok v) : ∃ κ p, v = .mdl κ p ∧ (SExpr.mdl κ p).Ok := by
  have hv := fun x hx => build_truth _ he x hx v h
  simp only [build, bind_ok_iff] at h
  obtain ⟨sv, hsv, h⟩ := h
  cases sv with
  | lbl i => cases h
  | val w =>
    simp only [pure, Except.pure] at h
    injection h with h; subst h
    -- canonicity facts do not depend on the assignment: take the all-zero one
    have hx0 : IsBool (fun _ => (0 : Rat)) := fun _ => Or.inl rfl
    have hg := (buildArg_sound hx0 _ _ he hsv).1
    -- the value of a gate node is a model object
    simp only [buildArg, bind_ok_iff, pure, Except.pure] at hsv
    obtain ⟨svs, hsvs, r, hr, hsv⟩ := hsv
    injection hsv with hsv; injection hsv with hsv; subst hsv
    simp only [SExpr.Ok] at he
    have hm := applyGate_isModel (buildArgs_sound hx0 args svs he.2 hsvs).ak hr
    cases r with
    | num c => exact absurd hm id
    | raw q => exact absurd hm id
    | mdl κ p =>
      refine ⟨κ, p, rfl, hg.1, hg.2.1, fun x hx => ?_⟩
      have := hv x hx
      simp only [Val.eval] at this
      rw [this]; split <;> simp

/-- **T7.1 (value range).**  The returned value is 0 or 1 at every boolean assignment. -/
theorem build_bool_valued (e : SExpr) (he : e.Ok) (x : Var → Rat) (hx : IsBool x) (v : Val)
    (h : build e = .ok v) : v.eval x = 0 ∨ v.eval x = 1 := by
  rw [build_truth e he x hx v h]; split <;> simp

/-- **Result type.**  Whenever a gate expression builds, the result is a model object whose type is the
type of the leftmost leaf if that leaf is a model and `PUBO` otherwise (also for an empty operand list) —
the `type(P) == type(variables[0])` promise of the docstrings, for every tree. -/
theorem build_result_type (g : Gate) (args : List SExpr) (v : Val)
    (h : build (.gate g args) = .ok v) : ∃ p, v = .mdl (SExpr.resultKind (.gate g args)) p := by
  simp only [build, bind_ok_iff] at h
  obtain ⟨sv, hsv, h⟩ := h
  have hk := buildArg_kind _ hsv
  simp only [buildArg, bind_ok_iff, pure, Except.pure] at hsv
  obtain ⟨svs, _, r, hr, hsv⟩ := hsv
  injection hsv with hsv; subst hsv
  injection h with h; subst h
  obtain ⟨p, rfl⟩ := kind_some (applyGate_kind hr)
  exact ⟨p, by rw [← hk]; rfl⟩

/-- **T7.2 (the only possible exception).**  On a tree whose `BUFFER`/`NOT` nodes have exactly one operand
(any gate arities otherwise, including 0; any leaf types and contents), the builders can only fail with
the `KeyError` raised by `squash_key` of a degree-2 type (`QUBO`, `QUBOMatrix`, …). -/
theorem build_error_is_keyError (e : SExpr) (hs : e.Shape (fun _ => True)) (hne : ∀ i, e ≠ .lbl i)
    (err : Err) (h : build e = .error err) : err = .key :=
  (build_res (E := fun e => e = Err.key) (fun κ _ k => squash_res_key κ k) trivial hs hne).err_of h

/-- **T7.2 (no failure without degree-2 types).**  If moreover no model leaf is of a degree-2 type (all are
`PUBO`, `PCBO`, `PUBOMatrix`; labels and plain dicts arbitrary), the builders never fail. -/
theorem build_never_fails (e : SExpr) (hs : e.Shape (fun κ => κ.isDeg2 = false)) (hne : ∀ i, e ≠ .lbl i) :
    ∃ v, build e = .ok v := by
  obtain ⟨v, hv, _⟩ := (build_res (E := fun _ => False) (K := fun κ => κ.isDeg2 = false)
    (fun κ hκ k => squash_res_total hκ k) rfl hs hne).isOk
  exact ⟨v, hv⟩

/-! ### Non-vacuity: concrete instances of the hypotheses
(the example data `exTree`, `exAssign`, `exTreePubo` and `errOf` are defined at the end of `Qv/Proofs/Sat.lean`) -/

example : IsBool exAssign := by
  intro i; by_cases h0 : i = 0 <;> by_cases h2 : i = 2 <;> simp [exAssign, h0, h2]

/-- the example tree is in the scope of the property (hypothesis `he` of `build_truth`, `build_closed`) -/
example : exTree.Ok := by
  have b1 : B01 [([0, 1], 1)] := by
    intro x hx
    rcases hx 0 with h0 | h0 <;> rcases hx 1 with h1 | h1 <;> simp [eval, mon, h0, h1]
  have b2 : B01 [([2], 1)] := by
    intro x hx
    rcases hx 2 with h2 | h2 <;> simp [eval, mon, h2]
  have b3 : B01 [([], 1), ([1, 2, 1], -1)] := by
    intro x hx
    rcases hx 1 with h1 | h1 <;> rcases hx 2 with h2 | h2 <;> simp [eval, mon, h1, h2]
  simp only [exTree, SExpr.Ok, SExpr.OkList]
  exact ⟨by simp, trivial, ⟨by simp, trivial, trivial⟩, ⟨by decide, rfl, b1⟩,
    ⟨by simp, b2, trivial, trivial⟩, ⟨by decide, rfl, b3⟩, trivial⟩

/-- hypothesis `h` of `build_truth`: the builders succeed on it … -/
example : (build exTree).toOption.isSome = true := by decide +kernel

/-- … the expression is false at `exAssign` (operands 1,1,0,1,1 — an even number of true ones) and true at
the all-ones assignment (operands 1,0,1,1,0) … -/
example : truth exAssign exTree = false := by decide +kernel

/-- … and the built model indeed evaluates to 0 resp. 1 there -/
example : ((build exTree).toOption.map (fun v => (v.eval exAssign, v.eval (fun _ => 1)))) = some (0, 1) := by
  decide +kernel

example : truth (fun _ => 1) exTree = true := by decide +kernel

/-- a false instance: `XNOR(x0, x1, x2)` at (1,0,0) -/
example : truth (fun i => if i = 0 then 1 else 0) (.gate .xnor [.lbl 0, .lbl 1, .lbl 2]) = false ∧
    ((build (.gate .xnor [.lbl 0, .lbl 1, .lbl 2])).toOption.map
      (fun v => v.eval (fun i => if i = 0 then 1 else 0))) = some 0 := by decide +kernel

/-- hypotheses of `gate_truth`: two label operands encoding (true, false) at `exAssign` -/
example : List.Forall₂ (fun v t => SVal.Good v ∧ v.evalS exAssign = if t then 1 else 0)
    [SVal.lbl 0, SVal.lbl 1] [true, false] := by
  refine .cons ⟨trivial, ?_⟩ (.cons ⟨trivial, ?_⟩ .nil) <;> simp [SVal.evalS, exAssign]

/-- hypotheses of `build_error_is_keyError` / `build_never_fails`: the shape conditions hold for the
example tree (with `QUBO` admitted) and for its `QUBO`-free variant -/
example : exTree.Shape (fun _ => True) := by
  simp only [exTree, SExpr.Shape, SExpr.ShapeList, ArityOk]; simp

example : exTreePubo.Shape (fun κ => κ.isDeg2 = false) := by
  simp only [exTreePubo, SExpr.Shape, SExpr.ShapeList, ArityOk]; simp [Kind.isDeg2]

example : (build exTreePubo).toOption.isSome = true := by decide +kernel

/-- the failure of T7.2 does occur: a `QUBO`-typed leading operand cannot hold the cubic term of
`AND(QUBO({(0,): 1}), x1, x2)`; the same expression with a `PUBO` operand succeeds -/
example : errOf (build (.gate .and [.mdl .qubo [([0], 1)], .lbl 1, .lbl 2])) = some .key := by decide +kernel

example : (build (.gate .and [.mdl .pubo [([0], 1)], .lbl 1, .lbl 2])).toOption.isSome = true := by
  decide +kernel

/-- result type: a `QUBOMatrix`-typed leftmost leaf (even nested) decides the type -/
example : (SExpr.gate .or [.gate .nand [.mdl .qubom [([0], 1)]], .lbl 1]).resultKind = .qubom ∧
    (build (.gate .or [.gate .nand [.mdl .qubom [([0], 1)]], .lbl 1])).toOption.isSome = true := by
  decide +kernel

/-- a trailing `QUBO` operand also fails in `OR`, because `v * (1 - x)` is computed in the type of `v` -/
example : errOf (build (.gate .or [.lbl 0, .lbl 1, .mdl .qubo [([2], 1)]])) = some .key := by decide +kernel

/-- `BUFFER`/`NOT` with a wrong number of operands is the `TypeError` excluded by the shape condition -/
example : errOf (build (.gate .not [.lbl 0, .lbl 1])) = some .type := by decide +kernel

end Qv.C07

/-!
# C07, concrete entry points: `build_truth` instantiated for each public function of `qubovert.sat`

`BUFFER, NOT, AND, NAND, OR, NOR, XOR, XNOR` — each on operands that are labels, plain dicts, model objects or
gate expressions nested to any depth (`SExpr`), any arity ≥ 1.  Every statement is the docstring's truth table:
"if the call returns `v`, then at every boolean assignment `x` the value of `v` is 1 when … and 0 otherwise".
(Corollaries of `build_truth`.)
-/
namespace Qv.C07
open Qv

theorem truths_eq_map (x : Var → Rat) : ∀ args : List SExpr, truths x args = args.map (truth x)
  | [] => rfl
  | a :: r => by simp [truths, truths_eq_map x r]

theorem all_truths (x : Var → Rat) (args : List SExpr) :
    (truths x args).all id = decide (∀ a ∈ args, truth x a = true) := by
  rw [truths_eq_map, Bool.eq_iff_iff]
  simp [List.all_eq_true]

theorem any_truths (x : Var → Rat) (args : List SExpr) :
    (truths x args).any id = decide (∃ a ∈ args, truth x a = true) := by
  rw [truths_eq_map, Bool.eq_iff_iff]
  simp [List.any_eq_true]

/-- `BUFFER(a)`: 1 iff `a` is true -/
theorem BUFFER_truth (a : SExpr) (he : a.Ok) (x : Var → Rat) (hx : IsBool x) (v : Val)
    (h : build (.gate .buffer [a]) = .ok v) : v.eval x = if truth x a then 1 else 0 := by
  have := build_truth _ (show (SExpr.gate .buffer [a]).Ok from ⟨by simp, he, trivial⟩) x hx v h
  simpa [truth, truths] using this

/-- `NOT(a)`: 1 iff `a` is false -/
theorem NOT_truth (a : SExpr) (he : a.Ok) (x : Var → Rat) (hx : IsBool x) (v : Val)
    (h : build (.gate .not [a]) = .ok v) : v.eval x = if truth x a then 0 else 1 := by
  have := build_truth _ (show (SExpr.gate .not [a]).Ok from ⟨by simp, he, trivial⟩) x hx v h
  rw [this]
  cases ht : truth x a <;> simp [truth, truths, ht]

/-- `AND(*args)`: 1 iff every operand is true -/
theorem AND_truth (args : List SExpr) (hne : args ≠ []) (he : SExpr.OkList args) (x : Var → Rat) (hx : IsBool x)
    (v : Val) (h : build (.gate .and args) = .ok v) :
    v.eval x = if ∀ a ∈ args, truth x a = true then 1 else 0 := by
  have := build_truth _ (show (SExpr.gate .and args).Ok from ⟨hne, he⟩) x hx v h
  rw [this]
  simp only [truth, all_truths]
  by_cases hall : ∀ a ∈ args, truth x a = true
  · rw [decide_eq_true hall, if_pos hall]; simp
  · rw [decide_eq_false hall, if_neg hall]; simp

/-- `NAND(*args)`: 0 iff every operand is true -/
theorem NAND_truth (args : List SExpr) (hne : args ≠ []) (he : SExpr.OkList args) (x : Var → Rat) (hx : IsBool x)
    (v : Val) (h : build (.gate .nand args) = .ok v) :
    v.eval x = if ∀ a ∈ args, truth x a = true then 0 else 1 := by
  have := build_truth _ (show (SExpr.gate .nand args).Ok from ⟨hne, he⟩) x hx v h
  rw [this]
  simp only [truth, all_truths]
  by_cases hall : ∀ a ∈ args, truth x a = true
  · rw [decide_eq_true hall, if_pos hall]; simp
  · rw [decide_eq_false hall, if_neg hall]; simp

/-- `OR(*args)`: 1 iff some operand is true -/
theorem OR_truth (args : List SExpr) (hne : args ≠ []) (he : SExpr.OkList args) (x : Var → Rat) (hx : IsBool x)
    (v : Val) (h : build (.gate .or args) = .ok v) :
    v.eval x = if ∃ a ∈ args, truth x a = true then 1 else 0 := by
  have := build_truth _ (show (SExpr.gate .or args).Ok from ⟨hne, he⟩) x hx v h
  rw [this]
  simp only [truth, any_truths]
  by_cases hex : ∃ a ∈ args, truth x a = true
  · rw [decide_eq_true hex, if_pos hex]; simp
  · rw [decide_eq_false hex, if_neg hex]; simp

/-- `NOR(*args)`: 1 iff no operand is true -/
theorem NOR_truth (args : List SExpr) (hne : args ≠ []) (he : SExpr.OkList args) (x : Var → Rat) (hx : IsBool x)
    (v : Val) (h : build (.gate .nor args) = .ok v) :
    v.eval x = if ∃ a ∈ args, truth x a = true then 0 else 1 := by
  have := build_truth _ (show (SExpr.gate .nor args).Ok from ⟨hne, he⟩) x hx v h
  rw [this]
  simp only [truth, any_truths]
  by_cases hex : ∃ a ∈ args, truth x a = true
  · rw [decide_eq_true hex, if_pos hex]; simp
  · rw [decide_eq_false hex, if_neg hex]; simp

/-- `XOR(*args)`: 1 iff an odd number of operands is true -/
theorem XOR_truth (args : List SExpr) (hne : args ≠ []) (he : SExpr.OkList args) (x : Var → Rat) (hx : IsBool x)
    (v : Val) (h : build (.gate .xor args) = .ok v) :
    v.eval x = if (args.filter (truth x)).length % 2 = 1 then 1 else 0 := by
  have := build_truth _ (show (SExpr.gate .xor args).Ok from ⟨hne, he⟩) x hx v h
  rw [this]
  simp only [truth, truths_eq_map, List.filter_map, List.length_map, Function.comp, id, beq_iff_eq]
  rfl

/-- `XNOR(*args)`: 1 iff an even number of operands is true -/
theorem XNOR_truth (args : List SExpr) (hne : args ≠ []) (he : SExpr.OkList args) (x : Var → Rat) (hx : IsBool x)
    (v : Val) (h : build (.gate .xnor args) = .ok v) :
    v.eval x = if (args.filter (truth x)).length % 2 = 0 then 1 else 0 := by
  have := build_truth _ (show (SExpr.gate .xnor args).Ok from ⟨hne, he⟩) x hx v h
  rw [this]
  simp only [truth, truths_eq_map, List.filter_map, List.length_map, Function.comp, id, beq_iff_eq]
  rfl

/-! ### non-vacuity: a label, a model argument and a nested gate as operands of one `AND` -/

example : SExpr.OkList [.lbl 0, .gate .or [.lbl 1, .mdl .pubo [([2], 1)]], .gate .not [.lbl 3]] := by
  have b : B01 [([2], 1)] := by
    intro x hx
    rcases hx 2 with h | h <;> simp [eval, mon, h]
  exact ⟨trivial, ⟨by simp, trivial, ⟨by decide, rfl, b⟩, trivial⟩, ⟨by simp, trivial, trivial⟩, trivial⟩

example : ((build (.gate .and [.lbl 0, .gate .or [.lbl 1, .mdl .pubo [([2], 1)]], .gate .not [.lbl 3]])).toOption.map
    (fun v => (v.eval (fun i => if i = 0 ∨ i = 2 then 1 else 0), v.eval (fun _ => 1)))) = some (1, 0) := by
  decide +kernel

end Qv.C07
