import Qv.Proofs.BruteEntry
/-!
# C09 — Brute-force solvers return the exact minimum and exactly the minimisers

Only the property theorems and their non-vacuity examples live here (helper lemmas: `Qv/Proofs/Brute.lean`
— assignments, value functions, enumeration; `Qv/Proofs/BruteLoop.lean` — the loop invariant, by induction
over the enumeration list; `Qv/Proofs/BruteSolve.lean` — from the invariant to the result).  The model is
`Qv.Model.Brute` (`solve` = the four public functions, `solveMethod` = the `solve_bruteforce` methods);
its tie to `qubovert/utils/_solve_bruteforce.py` is the correspondence check `harness/c09.py`.

Reading guide.  `vars` is the variable list the code enumerates; `Setup fn D order vars` says that `D` is a
dict (distinct keys), that `vars` is what the code computes (`D.vars order = .ok vars`: from
`num_binary_variables` / `_reverse_mapping` for the BO types, the labels of the keys in the arbitrary set
order `order` otherwise), that `vars` lists exactly the model's variables once each, and — for the two
degree-2 solvers — that the keys have at most two labels.  An assignment "over exactly `vars`" is
`restrict vars g` for a total `g` with values in the domain (`Dom spin g`: `{0,1}` resp. `{1,-1}`); the
model's value at it is `eval g D.terms`.  `valid` is an arbitrary predicate on assignment dicts.
No bound on the number of variables, terms or the degree anywhere.
-/
namespace Qv.C09
open Qv Qv.Brute

/-- **Enumeration is complete and duplicate-free.**  For any number of distinct variables, every function
`vars → {0,1}` (resp. `{1,-1}`) occurs exactly once in the list of assignments the loop visits, and the
list contains nothing else. -/
theorem enumeration_complete (spin : Bool) {vars : List Var} (hnd : vars.Nodup) :
    (∀ g, Dom spin g → (enumerate spin vars).count (restrict vars g) = 1) ∧
    (∀ a ∈ enumerate spin vars, ∃ g, Dom spin g ∧ a = restrict vars g) :=
  ⟨fun _ hg => List.count_eq_one_of_mem (nodup_enumerate hnd spin) (restrict_mem_enumerate hnd hg),
   fun _ ha => exists_of_mem_enumerate hnd ha⟩

/-- **T9.1 (exact minimum, attained).**  If some assignment over `vars` is accepted by `valid`, the call
succeeds, the returned objective `m` is a lower bound of the model over *all* accepted assignments over
`vars`, and it is attained by an accepted assignment over exactly `vars` — which, without
`all_solutions`, is the returned solution. -/
theorem objective_is_minimum {fn : Fn} {D : Model} {order vars : List Var} (S : Setup fn D order vars)
    (allS : Bool) (valid : Assign → Bool)
    (hex : ∃ g, Dom fn.spin g ∧ valid (restrict vars g) = true) :
    ∃ out m, solve fn D allS valid order = .ok out ∧ out.obj = some m ∧
      (∀ g, Dom fn.spin g → valid (restrict vars g) = true → m ≤ eval g D.terms) ∧
      ∃ g, Dom fn.spin g ∧ valid (restrict vars g) = true ∧ eval g D.terms = m ∧
        (allS = false → out.sol = .one (restrict vars g)) := by
  have hc : D.isConst = false ∨ valid [] = true := by
    cases h : D.isConst with
    | false => exact Or.inl rfl
    | true =>
      obtain ⟨g, _, hv⟩ := hex
      rw [S.vars_nil_of_const h] at hv
      exact Or.inr hv
  obtain ⟨out, ho, hs⟩ := solve_spec S allS valid hc
  obtain ⟨m, hm, hmin, hatt, _⟩ := hs.2 hex
  exact ⟨out, m, ho, hm, hmin, hatt⟩

/-- **T9.2 (all solutions: exactly the minimisers, once each).**  With `all_solutions=True` and some
accepted assignment, the result is `(m, l)` where `m` is the minimum, `l` has no duplicates, and the
members of `l` are exactly the accepted assignments over `vars` whose value is `m`. -/
theorem all_solutions_exact {fn : Fn} {D : Model} {order vars : List Var} (S : Setup fn D order vars)
    (valid : Assign → Bool) (hex : ∃ g, Dom fn.spin g ∧ valid (restrict vars g) = true) :
    ∃ out m l, solve fn D true valid order = .ok out ∧ out.obj = some m ∧ out.sol = .many l ∧
      l.Nodup ∧
      (∀ g, Dom fn.spin g → valid (restrict vars g) = true → m ≤ eval g D.terms) ∧
      ∀ a, a ∈ l ↔ ∃ g, Dom fn.spin g ∧ a = restrict vars g ∧ valid a = true ∧ eval g D.terms = m := by
  have hc : D.isConst = false ∨ valid [] = true := by
    cases h : D.isConst with
    | false => exact Or.inl rfl
    | true =>
      obtain ⟨g, _, hv⟩ := hex
      rw [S.vars_nil_of_const h] at hv
      exact Or.inr hv
  obtain ⟨out, ho, hs⟩ := solve_spec S true valid hc
  obtain ⟨m, hm, hmin, _, hall⟩ := hs.2 hex
  obtain ⟨l, hl, hnd, hmem⟩ := hall rfl
  exact ⟨out, m, l, ho, hm, hl, hnd, hmin, hmem⟩

/-- **T9.1/T9.2 for the `solve_bruteforce` methods** (which return only the solution part): the single
solution is an accepted minimiser over exactly `vars`; the list is duplicate-free and consists of exactly
the accepted minimisers. -/
theorem method_returns_minimisers {fn : Fn} {D : Model} {order vars : List Var}
    (S : Setup fn D order vars) (allS : Bool) (valid : Assign → Bool)
    (hex : ∃ g, Dom fn.spin g ∧ valid (restrict vars g) = true) :
    ∃ sol, solveMethod fn D allS valid order = .ok sol ∧
      (allS = false → ∃ g, Dom fn.spin g ∧ sol = .one (restrict vars g) ∧ valid (restrict vars g) = true ∧
        ∀ g', Dom fn.spin g' → valid (restrict vars g') = true → eval g D.terms ≤ eval g' D.terms) ∧
      (allS = true → ∃ l, sol = .many l ∧ l.Nodup ∧
        ∀ a, a ∈ l ↔ ∃ g, Dom fn.spin g ∧ a = restrict vars g ∧ valid a = true ∧
          ∀ g', Dom fn.spin g' → valid (restrict vars g') = true → eval g D.terms ≤ eval g' D.terms) := by
  obtain ⟨out, m, ho, _, hmin, g, hg, hv, he, hs⟩ := objective_is_minimum S allS valid hex
  refine ⟨out.sol, by simp [solveMethod, ho, Except.map], ?_, ?_⟩
  · intro ha
    exact ⟨g, hg, hs ha, hv, fun g' hg' hv' => he ▸ hmin g' hg' hv'⟩
  · intro ha
    subst ha
    obtain ⟨out', m', l, ho', hm', hl, hnd, hmin', hmem⟩ := all_solutions_exact S valid hex
    rw [ho] at ho'
    injection ho' with ho'
    subst ho'
    refine ⟨l, hl, hnd, fun a => (hmem a).trans ?_⟩
    constructor
    · rintro ⟨g1, hg1, rfl, hv1, he1⟩
      exact ⟨g1, hg1, rfl, hv1, fun g' hg' hv' => he1 ▸ hmin' g' hg' hv'⟩
    · rintro ⟨g1, hg1, rfl, hv1, hle⟩
      refine ⟨g1, hg1, rfl, hv1, ?_⟩
      -- a minimiser has the minimum value: `m'` is attained by some accepted `g2`
      obtain ⟨_, _, ho2, hm2, _, g2, hg2, hv2, he2, _⟩ := objective_is_minimum S true valid hex
      rw [ho] at ho2
      injection ho2 with ho2
      subst ho2
      rw [hm'] at hm2
      injection hm2 with hm2
      subst hm2
      exact le_antisymm (he2 ▸ hle g2 hg2 hv2) (hmin' g1 hg1 hv1)

/-- **T9.3 (nothing valid → `None`), for models with at least one variable.**  If `valid` rejects every
assignment over `vars`, the objective is `None` and the solution part is `{}` resp. `[{}]`.

`_partial`: the property's clause reads "if no assignment is valid the objective is None" for *every*
model, but on a model without variables `_solve_bruteforce` returns the constant *without consulting
`valid`* (clause T9.4 below, which the property also demands); the two clauses of the property overlap
exactly on (constant model, `valid({}) = False`) and the code follows T9.4 there:
`solve_pubo_bruteforce({(): 5}, valid=lambda x: False) == (5, {})`.  The hypothesis `D.isConst = false`
is the one the proof forces. -/
theorem no_valid_none_partial {fn : Fn} {D : Model} {order vars : List Var} (S : Setup fn D order vars)
    (allS : Bool) (valid : Assign → Bool) (hnc : D.isConst = false)
    (hnone : ∀ g, Dom fn.spin g → valid (restrict vars g) = false) :
    ∃ out, solve fn D allS valid order = .ok out ∧ out.obj = none ∧ out.sol = emptySol allS := by
  obtain ⟨out, ho, hs⟩ := solve_spec S allS valid (Or.inl hnc)
  exact ⟨out, ho, hs.1 hnone⟩

/-- **T9.4 (constant model).**  The empty model gives `(0, {})` and a model holding only the offset `c`
gives `(c, {})` (`[{}]` with `all_solutions`), for every `valid`, every solver, and whatever the
bookkeeping says; the terms are unchanged.  (A model *object* never stores a zero coefficient, hence the
side condition for non-dict types.) -/
theorem constant_model (fn : Fn) (D : Model) (allS : Bool) (valid : Assign → Bool) (order : List Var)
    (c : Rat) (h : (D.terms = [] ∧ c = 0) ∨ (D.terms = [([], c)] ∧ (D.kind = .dict ∨ c ≠ 0))) :
    solve fn D allS valid order = .ok ⟨some c, emptySol allS, D.terms⟩ := by
  rcases h with ⟨hn, hc⟩ | ⟨hone, hz⟩
  · subst hc
    simp [solve, solveCore, hn]
  · have hst : store D.kind [] [] c = [([], c)] := by
      rcases hz with hk | hz
      · rw [hk]; rfl
      · cases D.kind <;> simp [store, set, put, hz]
    simp [solve, solveCore, hone, hasKey, get, erase, hst]

/-- **T9.5 (the model passed in is unchanged as a dict).**  After every successful call the terms of `D`
are a permutation of the terms before (same keys, same values; only the position of the offset can
change, by `offset = D.pop(()); D[()] = offset`). -/
theorem model_unchanged {fn : Fn} {D : Model} {allS : Bool} {valid : Assign → Bool} {order : List Var}
    {out : Out} (hd : IsDict D.terms) (hz : D.kind ≠ .dict → ∀ kv ∈ D.terms, kv.2 ≠ 0)
    (h : solve fn D allS valid order = .ok out) : out.after.Perm D.terms := by
  rcases solve_after h with h' | ⟨hk, h'⟩
  · rw [h']
  · rw [h']
    refine restored_perm hd hk ?_
    by_cases hkind : D.kind = .dict
    · exact Or.inl hkind
    · exact Or.inr (hz hkind _ (get_mem_of_hasKey hk))

/-! ## The concrete entry points

The theorems above are about `_solve_bruteforce` on an abstract argument that satisfies `Setup`.  Below, `Setup` is
*proved* for every argument the public entry points can be handed, so the hypotheses that remain are about the
caller's input only.  Model of the entry points: `Qv/Model/BruteEntry.lean` —

* `ofDict P`: a plain `dict`; `ofState s`: a model object in bookkeeping state `s` (the state machine of C14; the
  object after **any** history of edits is `Book.run Fix.fixed κ ops`);
* the four free functions are `solve .pubo/.qubo/.puso/.quso` (every theorem quantifies over `fn`);
* `obj.solve_bruteforce(all)` = `solve_<fnOfKind>_bruteforce(obj, all, obj.is_solution_valid)[1]`: `methodPlain`
  for the eight unconstrained types (`is_solution_valid` ≡ `True`), `methodCons` for `PCBO` / `PCSO`.
  There is no `to_pubo → solve → convert_solution` round trip in the code: for the labelled types the enumeration
  runs over `[_reverse_mapping[0], …, _reverse_mapping[N-1]]` (= `bookVars s`), i.e. over the user's own labels, and
  the glue is that this list is well defined, repetition-free and lists exactly the object's variables
  (`reverse_mapping_enumeration`).  Matrix objects and plain dicts are scanned for their labels into a Python
  `set`; `SetOrder p order` says `order` is *some* iteration order of that set, and nothing depends on which.

`Holds fn D allS valid order vars` is the whole property for one call (`holds_reads` spells it out);
`SolSpec …` is its solution part, which is all the methods return. -/

/-- **What `Holds` says**, spelled out: the call returns `(obj, sol)` and leaves `after` with
(1) nothing accepted ⇒ `obj = None`, `sol = {}` / `[{}]`;
(2) something accepted ⇒ `obj = m`, a lower bound of the model over all accepted assignments over `vars`, attained
    by an accepted assignment over exactly `vars` — the returned one when `all_solutions=False`; and with
    `all_solutions=True` a duplicate-free list whose members are exactly the accepted assignments of value `m`;
(3) the terms afterwards are a permutation of the terms before. -/
theorem holds_reads {fn : Fn} {D : Model} {allS : Bool} {valid : Assign → Bool} {order vars : List Var} :
    Holds fn D allS valid order vars ↔
    ∃ out, solve fn D allS valid order = .ok out ∧
      (((∀ g, Dom fn.spin g → valid (restrict vars g) = false) → out.obj = none ∧ out.sol = emptySol allS) ∧
       ((∃ g, Dom fn.spin g ∧ valid (restrict vars g) = true) → ∃ m, out.obj = some m ∧
          (∀ g, Dom fn.spin g → valid (restrict vars g) = true → m ≤ eval g D.terms) ∧
          (∃ g, Dom fn.spin g ∧ valid (restrict vars g) = true ∧ eval g D.terms = m ∧
            (allS = false → out.sol = .one (restrict vars g))) ∧
          (allS = true → ∃ l, out.sol = .many l ∧ l.Nodup ∧
            ∀ a, a ∈ l ↔ ∃ g, Dom fn.spin g ∧ a = restrict vars g ∧ valid a = true ∧ eval g D.terms = m))) ∧
      out.after.Perm D.terms := Iff.rfl

/-- an assignment "over exactly `vars`": its keys are `vars`, in that order, each once -/
theorem assignment_over_exactly_vars (vars : List Var) (g : Var → Rat) :
    (restrict vars g).map Prod.fst = vars := restrict_keys vars g

/-- **Glue for the labelled types (`QUBO, QUSO, PUBO, PUSO, PCBO, PCSO`), after every history of edits.**
`[_reverse_mapping[0], …, _reverse_mapping[num_binary_variables-1]]` raises no `KeyError`, has no repetition, and
its members are exactly the variables the object reports — which include every label of every stored key. -/
theorem reverse_mapping_enumeration {κ : Kind} {ops : List Book.Op} {s : Book.State}
    (hs : s = Book.run Book.Fix.fixed κ ops) (hb : Book.hasBO s.kind = true) :
    (List.range s.numVars).mapM (rmLookup s.reverse) = .ok (bookVars s) ∧ (bookVars s).Nodup ∧
    (∀ i, i ∈ bookVars s ↔ i ∈ s.variables) ∧ ∀ kv ∈ s.terms, ∀ i ∈ kv.1, i ∈ bookVars s := by
  subst hs
  obtain ⟨h0, h1, h2, h3⟩ := inv_of_run κ ops
  obtain ⟨b1, b2, _⟩ := bookVars_ok h2 (h3 hb).2.2
  obtain ⟨W, hmem⟩ := setupW_labelled (fn := .pubo) [] hb h0 h1 h2 h3 trivial
  exact ⟨b1, b2, hmem, W.covers⟩

/-- **The four free functions on a plain dict.**  `P` any dict (distinct keys — raw, unsorted, repeated labels,
zero coefficients allowed), `order` any iteration order of the set of its labels, any `valid`, both modes; for the
two degree-2 solvers the documented precondition (keys of at most two labels).  The property holds whenever the
dict has a non-constant key or `valid` accepts `{}`. -/
theorem free_on_dict (fn : Fn) {P : Poly} {order : List Var} (hd : IsDict P) (ho : SetOrder P order)
    (hdeg : fn.DegOK P) (allS : Bool) (valid : Assign → Bool)
    (h : (ofDict P).isConst = false ∨ valid [] = true) :
    Holds fn (ofDict P) allS valid order order :=
  holds_of_setup (setup_of_scan rfl hd ho hdeg) (fun hk => absurd rfl hk) allS valid h

/-- **The four free functions on a Matrix object** (`QUBOMatrix, QUSOMatrix, PUBOMatrix, PUSOMatrix`) **after any
history of edits, refreshed or not**: the solver scans the stored keys, so cancelled variables and stale caches
are invisible to it.  `FnFits`: a degree-2 solver is given a degree-2 type. -/
theorem free_on_matrix (fn : Fn) {κ : Kind} {ops : List Book.Op} {s : Book.State} {order : List Var}
    (hs : s = Book.run Book.Fix.fixed κ ops) (hm : Book.hasBO s.kind = false)
    (ho : SetOrder s.terms order) (hf : FnFits fn s.kind) (allS : Bool) (valid : Assign → Bool)
    (h : (ofState s).isConst = false ∨ valid [] = true) :
    Holds fn (ofState s) allS valid order order := by
  subst hs
  have h0 := (inv_of_run κ ops).1
  exact holds_of_setup (setup_matrix hm h0 ho hf) (ofState_nonzero h0) allS valid h

/-- **The four free functions on a labelled object after any history of edits, not refreshed.**  The enumeration
runs over `bookVars s` = the variables the object reports (a variable whose terms cancelled in place stays one
until `refresh()`); for a model with a stored non-constant key the property holds over exactly those variables. -/
theorem free_on_labelled (fn : Fn) {κ : Kind} {ops : List Book.Op} {s : Book.State} (order : List Var)
    (hs : s = Book.run Book.Fix.fixed κ ops) (hb : Book.hasBO s.kind = true) (hf : FnFits fn s.kind)
    (allS : Bool) (valid : Assign → Bool) (hnc : (ofState s).isConst = false) :
    Holds fn (ofState s) allS valid order (bookVars s) := by
  subst hs
  obtain ⟨h0, h1, h2, h3⟩ := inv_of_run κ ops
  exact holds_of_setupW (setupW_labelled order hb h0 h1 h2 h3 hf).1 (ofState_nonzero h0) allS valid hnc

/-- **… with exact caches** (`variables` = the labels of the stored keys: a freshly constructed object, or any
object no variable of which has been cancelled): the property at full strength, constant models included. -/
theorem free_on_labelled_exact (fn : Fn) {κ : Kind} {ops : List Book.Op} {s : Book.State} (order : List Var)
    (hs : s = Book.run Book.Fix.fixed κ ops) (hb : Book.hasBO s.kind = true) (hf : FnFits fn s.kind)
    (hex : ∀ i, i ∈ s.variables ↔ ∃ kv ∈ s.terms, i ∈ kv.1)
    (allS : Bool) (valid : Assign → Bool) (h : (ofState s).isConst = false ∨ valid [] = true) :
    Holds fn (ofState s) allS valid order (bookVars s) ∧
      ∀ i, i ∈ bookVars s ↔ ∃ kv ∈ s.terms, i ∈ kv.1 := by
  subst hs
  obtain ⟨h0, h1, h2, h3⟩ := inv_of_run κ ops
  have S := setup_labelled (fn := fn) order hb h0 h1 h2 h3 hex hf
  exact ⟨holds_of_setup S (ofState_nonzero h0) allS valid h, S.exact⟩

/-- **… after `refresh()`** (solve, mutate, refresh, solve): no hypothesis on the caches is left. -/
theorem free_on_refreshed (fn : Fn) {κ : Kind} {ops : List Book.Op} {s : Book.State} (order : List Var)
    (hs : s = Book.run Book.Fix.fixed κ (ops ++ [.refresh])) (hb : Book.hasBO s.kind = true)
    (hf : FnFits fn s.kind) (allS : Bool) (valid : Assign → Bool)
    (h : (ofState s).isConst = false ∨ valid [] = true) :
    Holds fn (ofState s) allS valid order (bookVars s) ∧
      ∀ i, i ∈ bookVars s ↔ ∃ kv ∈ s.terms, i ∈ kv.1 :=
  free_on_labelled_exact fn order hs hb hf (hs ▸ exact_of_refresh κ ops) allS valid h

/-- **`M.solve_bruteforce(all)` of the four Matrix types, after any history**: a global minimiser over exactly the
labels of the stored keys; with `all_solutions` every global minimiser exactly once and nothing else.  (Constant
models included: `vars = []`, the result is `{}` / `[{}]`.) -/
theorem method_on_matrix {κ : Kind} {ops : List Book.Op} {s : Book.State} {order : List Var}
    (hs : s = Book.run Book.Fix.fixed κ ops) (hm : Book.hasBO s.kind = false)
    (ho : SetOrder s.terms order) (allS : Bool) :
    ∃ sol, methodPlain s allS order = .ok sol ∧
      SolSpec (fnOfKind s.kind).spin order (fun _ => True) (fun g => eval g s.terms) allS sol :=
  method_true_of_holds
    (free_on_matrix (fnOfKind s.kind) hs hm ho (fits_fnOfKind s.kind) allS (fun _ => true) (Or.inr rfl))

/-- **`obj.solve_bruteforce(all)` of `QUBO, QUSO, PUBO, PUSO` with exact caches** (in particular after
`refresh()`, see `free_on_refreshed`): a global minimiser over exactly the model's variables / all of them once. -/
theorem method_on_labelled_exact {κ : Kind} {ops : List Book.Op} {s : Book.State} (order : List Var)
    (hs : s = Book.run Book.Fix.fixed κ ops) (hb : Book.hasBO s.kind = true)
    (hex : ∀ i, i ∈ s.variables ↔ ∃ kv ∈ s.terms, i ∈ kv.1) (allS : Bool) :
    ∃ sol, methodPlain s allS order = .ok sol ∧
      SolSpec (fnOfKind s.kind).spin (bookVars s) (fun _ => True) (fun g => eval g s.terms) allS sol :=
  method_true_of_holds
    (free_on_labelled_exact (fnOfKind s.kind) order hs hb (fits_fnOfKind s.kind) hex allS (fun _ => true)
      (Or.inr rfl)).1

/-- **… after any history, not refreshed**, for a model with a stored non-constant key: over the variables the
object reports. -/
theorem method_on_labelled {κ : Kind} {ops : List Book.Op} {s : Book.State} (order : List Var)
    (hs : s = Book.run Book.Fix.fixed κ ops) (hb : Book.hasBO s.kind = true) (allS : Bool)
    (hnc : (ofState s).isConst = false) :
    ∃ sol, methodPlain s allS order = .ok sol ∧
      SolSpec (fnOfKind s.kind).spin (bookVars s) (fun _ => True) (fun g => eval g s.terms) allS sol :=
  method_true_of_holds
    (free_on_labelled (fnOfKind s.kind) order hs hb (fits_fnOfKind s.kind) allS (fun _ => true) hnc)

/-- **`PCBO.solve_bruteforce(all)` / `PCSO.solve_bruteforce(all)` after any history** (`valid =
self.is_solution_valid`), when every label of every recorded constraint is a variable of the object (otherwise
`is_solution_valid` raises `KeyError` — known finding `C08:uncovered-constraint-variable`) and the model has a
stored non-constant key: (a) if some assignment satisfies the recorded constraints, the result is an assignment
over exactly the object's variables that satisfies them and minimises the model among those — with
`all_solutions` exactly all of these, once each; (b) if none does, the result is `{}` / `[{}]`. -/
theorem method_on_constrained {κ : Kind} {ops : List Book.Op} {s : Book.State}
    (hs : s = Book.run Book.Fix.fixed κ ops) (hk : s.kind = .pcbo ∨ s.kind = .pcso)
    (hc : ConsCover s.constraints (bookVars s)) (allS : Bool) (hnc : (ofState s).isConst = false) :
    ((∃ g, Dom s.kind.isSpin g ∧ isValid (consSt s) g = true) →
      ∃ sol, methodCons s allS = .ok sol ∧
        SolSpec s.kind.isSpin (bookVars s) (fun g => isValid (consSt s) g = true) (fun g => eval g s.terms)
          allS sol) ∧
    ((∀ g, Dom s.kind.isSpin g → isValid (consSt s) g = false) →
      methodCons s allS = .ok (emptySol allS)) := by
  have hb : Book.hasBO s.kind = true := by rcases hk with h | h <;> simp [h, Book.hasBO, Kind.isMatrix]
  have hen := reverse_mapping_enumeration hs hb
  have H := methodCons_spec hk ((ofState_vars hb []).trans hen.1) hen.2.1 hc
    (fun h => by rw [hnc] at h; cases h) allS
    (fun _ => free_on_labelled (fnOfKind s.kind) [] hs hb (fits_fnOfKind s.kind) allS _ hnc)
  exact ⟨H.1, fun hnone => H.2 hnone hnc⟩

/-- **`Problem.solve_bruteforce` between `to_qubo` and `convert_solution`.**  `Q` the QUBO of the problem (a dict of
degree ≤ 2 whose labels are among `0..N-1`, `N = num_binary_variables`; labels may be *absent* from `Q`, DESIGN.md
§10 D7), `order` any iteration order of `{0, …, N-1}`: the assignment handed to `convert_solution` is over **all**
`N` labels and minimises `Q`; with `all_solutions` the list is duplicate-free and consists of exactly the
minimisers over all `N` labels. -/
theorem problem_wrapper {Q : Poly} {N : Nat} {order : List Var} (hd : IsDict Q)
    (hdeg : ∀ kv ∈ Q, kv.1.length ≤ 2) (hlab : ∀ kv ∈ Q, ∀ i ∈ kv.1, i < N)
    (ho : order.Nodup ∧ ∀ i, i ∈ order ↔ i < N) (allS : Bool) :
    ∃ sol, problemSolve Q N allS order = .ok sol ∧
      SolSpec false order (fun _ => True) (fun g => eval g Q) allS sol := by
  obtain ⟨p1, p2, p3, p4⟩ := padQ_spec hd hdeg N
  have hso : SetOrder (padQ Q N) order :=
    ⟨ho.1, fun i => (ho.2 i).trans ((p4 i).trans
      ⟨fun h => h.elim (fun ⟨kv, hkv, hi⟩ => hlab kv hkv i hi) id, Or.inr⟩).symm⟩
  obtain ⟨sol, hsol, hs⟩ := method_true_of_holds
    (free_on_dict .qubo p1 hso (by simpa [Fn.DegOK] using p2) allS (fun _ => true) (Or.inr rfl))
  refine ⟨sol, hsol, ?_⟩
  have : (fun g => eval g (ofDict (padQ Q N)).terms) = fun g => eval g Q := funext p3
  rw [this] at hs
  exact hs

/-! ### Clause 3 against clause 4: nothing valid on a constant model -/

/-- **What the code does on a model without variables, for every `valid`** (in particular for one that rejects
everything): it returns before the loop, never calls `valid`, and the objective is the constant — not `None`.
The property text demands both "no assignment valid ⇒ objective None" and "constant model ⇒ the constant with
`{}`"; on (constant model, `valid({}) = False`) they contradict each other and the code follows the second. -/
theorem constant_model_ignores_valid (fn : Fn) (D : Model) (allS : Bool) (valid : Assign → Bool)
    (order : List Var) (hc : D.isConst = true) :
    ∃ out, solve fn D allS valid order = .ok out ∧ out.obj = some (get D.terms []) ∧
      out.sol = emptySol allS := by
  obtain ⟨after, h⟩ := solve_const (fn := fn) (allS := allS) (valid := valid) (order := order) hc
  exact ⟨_, h, rfl, rfl⟩

/-- **"No valid assignment ⇒ `None`" holds exactly for the models that have a variable.**  For every argument
meeting `Setup` (every entry point above) and every `valid` that rejects all assignments over `vars`: the call
returns, and its objective is `None` **iff** the model is not constant. -/
theorem no_valid_none_iff {fn : Fn} {D : Model} {order vars : List Var} (S : Setup fn D order vars)
    (allS : Bool) (valid : Assign → Bool)
    (hnone : ∀ g, Dom fn.spin g → valid (restrict vars g) = false) :
    ∃ out, solve fn D allS valid order = .ok out ∧ (out.obj = none ↔ D.isConst = false) := by
  cases hc : D.isConst with
  | false =>
    obtain ⟨out, ho, h1, _⟩ := no_valid_none_partial S allS valid hc hnone
    exact ⟨out, ho, fun _ => rfl, fun _ => h1⟩
  | true =>
    obtain ⟨out, ho, h1, _⟩ := constant_model_ignores_valid fn D allS valid order hc
    refine ⟨out, ho, fun h => ?_, fun h => by cases h⟩
    rw [h1] at h; cases h

/-! ### Non-vacuity: concrete instances of the hypotheses -/

/-- `Setup` is satisfiable: plain dict, set order `[2, 0, 1]` -/
example : Setup .pubo exD [2, 0, 1] [2, 0, 1] :=
  ⟨by unfold IsDict; decide, rfl, by decide, exD_exact, trivial⟩

/-- `Setup` is satisfiable: BO object, variables from the bookkeeping; degree-2 solver -/
example : Setup .qubo exP [] [0, 1, 2] :=
  ⟨by unfold IsDict; decide, by decide, by decide,
   fun i => by
     have := exD_exact i
     simp only [List.mem_cons, List.not_mem_nil, or_false] at this ⊢
     rw [show exP.terms = exD.terms from rfl, ← this]
     constructor
     · rintro (h | h | h) <;> simp [h]
     · rintro (h | h | h) <;> simp [h],
   by intro kv hkv; simp only [exP, exD, List.mem_cons, List.not_mem_nil, or_false] at hkv
      rcases hkv with rfl | rfl | rfl | rfl | rfl <;> decide⟩

/-- the parity predicate accepts some assignment (hypothesis `hex` of T9.1/T9.2) … -/
example : ∃ g, Dom Fn.pubo.spin g ∧
    (fun x : Assign => (x.filter (fun p => p.2 == 1)).length % 2 == 0) (restrict [2, 0, 1] g) = true :=
  ⟨fun _ => 0, by simp [Dom, Fn.spin, IsBool], by decide +kernel⟩

/-- … and the model's answer on that instance: minimum 1 over the even-parity assignments, two minimisers -/
example : (solve .pubo exD true (fun x => (x.filter (fun p => p.2 == 1)).length % 2 == 0) [2, 0, 1]).toOption.map
    (fun o => (o.obj, o.sol)) = some (some 1, .many [[(2, 1), (0, 0), (1, 1)], [(2, 1), (0, 1), (1, 0)]]) := by
  decide +kernel

/-- T9.3's hypotheses: a non-constant model and a predicate that rejects everything -/
example : exD.isConst = false ∧ ∀ g, Dom Fn.puso.spin g → (fun _ : Assign => false) (restrict [2, 0, 1] g) = false :=
  ⟨by decide, fun _ _ => rfl⟩

example : (solve .puso exD true (fun _ => false) [2, 0, 1]).toOption.map (fun o => (o.obj, o.sol)) =
    some (none, .many [[]]) := by decide +kernel

/-- T9.5's hypotheses, and the offset really moves (so "unchanged" is a statement about the dict, not the list) -/
example : IsDict (⟨.dict, [([], 3), ([0], 1)], none⟩ : Model).terms := by unfold IsDict; decide

example : (solve .pubo ⟨.dict, [([], 3), ([0], 1)], none⟩ false (fun _ => true) [0]).toOption.map (·.after) =
    some [([0], 1), ([], 3)] := by decide +kernel

/-- stale bookkeeping (DESIGN.md §10 D1) is outside `Setup`: the model raises `KeyError` like the code -/
example : (solve .pubo ⟨.pubo, [([1], 1)], some ⟨1, [(0, 0), (1, 1)]⟩⟩ false (fun _ => true) []).toOption.isSome
    = false := by decide +kernel

/-! ### Non-vacuity of the entry-point theorems -/

/-- a set order exists for every dict (the first-appearance listing), and any permutation of it is one -/
example : SetOrder exD.terms (keyLabels exD.terms) ∧ keyLabels exD.terms = [0, 1, 2] ∧
    SetOrder exD.terms [2, 0, 1] :=
  ⟨setOrder_keyLabels _, by decide +kernel,
   (setOrder_keyLabels _).perm (by rw [show keyLabels exD.terms = [0, 1, 2] by decide +kernel]; decide)⟩

/-- `free_on_dict`: its hypotheses on a raw dict with an unsorted key, a repeated label and a zero coefficient -/
example : IsDict [([2, 0], (1 : Rat)), ([1, 1], -1), ([0], 0), ([], 3)] ∧
    (ofDict [([2, 0], (1 : Rat)), ([1, 1], -1), ([0], 0), ([], 3)]).isConst = false :=
  ⟨by unfold IsDict; decide, by decide +kernel⟩

/-- a Matrix object whose variable 2 was cancelled in place and not refreshed: the cache is stale … -/
def exM : Book.State :=
  Book.run Book.Fix.fixed .pubom [.setitem [0, 1] 1, .setitem [2] 3, .setitem [1] (-1), .augitem [2] .sub 3]

example : Book.hasBO exM.kind = false ∧ exM.variables = [0, 1, 2] ∧ keyLabels exM.terms = [0, 1] ∧
    (ofState exM).isConst = false := by decide +kernel

/-- … and `method_on_matrix` applies; the model's answer: both minimisers of `x0 x1 - x1` over `{0, 1}` only -/
example : methodPlain exM true [0, 1] = .ok (.many [[(0, 0), (1, 1)]]) := by decide +kernel

/-- a labelled object (PUSO) with unsorted labels, whose variable 7 was cancelled: `bookVars` still lists it
(`free_on_labelled` / `method_on_labelled`), and after `refresh()` it is gone (`free_on_refreshed`) -/
def exL (refresh : Bool) : Book.State :=
  Book.run Book.Fix.fixed .puso ([.setitem [5, 3] 1, .setitem [7] 2, .setitem [7] 0] ++ if refresh then [.refresh] else [])

example : Book.hasBO (exL false).kind = true ∧ bookVars (exL false) = [5, 3, 7] ∧ bookVars (exL true) = [3, 5] ∧
    (ofState (exL false)).isConst = false ∧ (ofState (exL true)).isConst = false := by decide +kernel

example : methodPlain (exL false) true [] =
    .ok (.many [[(5, 1), (3, -1), (7, 1)], [(5, 1), (3, -1), (7, -1)], [(5, -1), (3, 1), (7, 1)], [(5, -1), (3, 1), (7, -1)]]) ∧
    methodPlain (exL true) true [] = .ok (.many [[(3, 1), (5, -1)], [(3, -1), (5, 1)]]) := by decide +kernel

/-- a PCBO with the recorded constraint `x0 + x1 - 1 = 0`: covered by the variables, some assignment satisfies it
(`method_on_constrained` (a)); the unconstrained minimiser `x0 = x1 = 1` of `-x0 - x1` is excluded -/
def exC : Book.State :=
  Book.run Book.Fix.fixed .pcbo [.setitem [0] (-1), .setitem [1] (-1), .cons .eq [([0], 1), ([1], 1), ([], -1)] 0 true none none]

example : exC.kind = .pcbo ∧ (ofState exC).isConst = false ∧ exC.constraints = [(.eq, [([0], 1), ([1], 1), ([], -1)])] ∧
    bookVars exC = [0, 1] := by decide +kernel

example : ConsCover exC.constraints (bookVars exC) := by
  rw [show exC.constraints = [(.eq, [([0], 1), ([1], 1), ([], -1)])] by decide +kernel,
    show bookVars exC = [0, 1] by decide +kernel]
  unfold ConsCover Covers
  decide

example : ∃ g, Dom exC.kind.isSpin g ∧ isValid (consSt exC) g = true :=
  ⟨fun i => if i = 0 then 1 else 0, by
    rw [show exC.kind.isSpin = false by decide +kernel]
    intro i; by_cases h : i = 0 <;> simp [h], by
    rw [show consSt exC = { terms := exC.terms, anc := exC.ancilla, cons := [(.eq, [([0], 1), ([1], 1), ([], -1)])] } by
      unfold consSt; rw [show exC.constraints = [(.eq, [([0], 1), ([1], 1), ([], -1)])] by decide +kernel]]
    simp [isValid, eval, mon, Rel.holds]⟩

example : methodCons exC true = .ok (.many [[(0, 0), (1, 1)], [(0, 1), (1, 0)]]) := by decide +kernel

/-- `constant_model_ignores_valid` / `no_valid_none_iff`: the corner itself —
`solve_pubo_bruteforce({(): 5}, valid=lambda x: False) == (5, {})`, `PUBO().solve_bruteforce()` likewise -/
example : (solve .pubo (ofDict [([], 5)]) false (fun _ => false) []).toOption.map (fun o => (o.obj, o.sol)) =
    some (some 5, .one []) := by decide +kernel

example : (solve .quso (ofDict []) true (fun _ => false) []).toOption.map (fun o => (o.obj, o.sol)) =
    some (some 0, .many [[]]) := by decide +kernel

/-- `problem_wrapper`: label 1 is absent from the QUBO `{(0,): -1, (0, 2): 2}` of a 3-variable problem; the wrapper
still returns assignments over `0, 1, 2` -/
example : padQ [([0], -1), ([0, 2], 2)] 3 = [([0], -1), ([0, 2], 2), ([1], 0), ([2], 0)] ∧
    problemSolve [([0], -1), ([0, 2], 2)] 3 true [0, 1, 2] =
      .ok (.many [[(0, 1), (1, 0), (2, 0)], [(0, 1), (1, 1), (2, 0)]]) := by decide +kernel

end Qv.C09
