import Qv.Proofs.BruteSolve
/-!
# C09 — Brute-force solvers return the exact minimum and exactly the minimisers

Only the property theorems and their non-vacuity examples live here (helper lemmas: `Qv/Proofs/Brute.lean`
— assignments, value functions, enumeration; `Qv/Proofs/BruteLoop.lean` — the loop invariant, by induction
over the enumeration list; `Qv/Proofs/BruteSolve.lean` — from the invariant to the result).  The model is
`Qv.Model.Brute` (`solve` = the four public functions, `solveMethod` = the `solve_bruteforce` methods);
its tie to `qubovert/utils/_solve_bruteforce.py` is the correspondence check `harness/c09.py`.

Reading guide.  `vars` is the variable list the code enumerates; `Setup fn D order vars` says that `D` is a
dict (distinct keys), that `vars` is what the code computes (`D.vars order = .ok vars`: from
`num_binary_variables` / `_reverse_mapping` for the BO types, the labels of the keys in the arbitrary set
order `order` otherwise), that `vars` lists exactly the model's variables once each, and — for the two
degree-2 solvers — that the keys have at most two labels.  An assignment "over exactly `vars`" is
`restrict vars g` for a total `g` with values in the domain (`Dom spin g`: `{0,1}` resp. `{1,-1}`); the
model's value at it is `eval g D.terms`.  `valid` is an arbitrary predicate on assignment dicts.
No bound on the number of variables, terms or the degree anywhere.
-/
namespace Qv.C09
open Qv Qv.Brute

/-- **Enumeration is complete and duplicate-free.**  For any number of distinct variables, every function
`vars → {0,1}` (resp. `{1,-1}`) occurs exactly once in the list of assignments the loop visits, and the
list contains nothing else. -/
theorem enumeration_complete (spin : Bool) {vars : List Var} (hnd : vars.Nodup) :
    (∀ g, Dom spin g → (enumerate spin vars).count (restrict vars g) = 1) ∧
    (∀ a ∈ enumerate spin vars, ∃ g, Dom spin g ∧ a = restrict vars g) :=
  ⟨fun _ hg => List.count_eq_one_of_mem (nodup_enumerate hnd spin) (restrict_mem_enumerate hnd hg),
   fun _ ha => exists_of_mem_enumerate hnd ha⟩

/-- **T9.1 (exact minimum, attained).**  If some assignment over `vars` is accepted by `valid`, the call
succeeds, the returned objective `m` is a lower bound of the model over *all* accepted assignments over
`vars`, and it is attained by an accepted assignment over exactly `vars` — which, without
`all_solutions`, is the returned solution. -/
theorem objective_is_minimum {fn : Fn} {D : Model} {order vars : List Var} (S : Setup fn D order vars)
    (allS : Bool) (valid : Assign → Bool)
    (hex : ∃ g, Dom fn.spin g ∧ valid (restrict vars g) = true) :
    ∃ out m, solve fn D allS valid order = .ok out ∧ out.obj = some m ∧
      (∀ g, Dom fn.spin g → valid (restrict vars g) = true → m ≤ eval g D.terms) ∧
      ∃ g, Dom fn.spin g ∧ valid (restrict vars g) = true ∧ eval g D.terms = m ∧
        (allS = false → out.sol = .one (restrict vars g)) := by
  have hc : D.isConst = false ∨ valid [] = true := by
    cases h : D.isConst with
    | false => exact Or.inl rfl
    | true =>
      obtain ⟨g, _, hv⟩ := hex
      rw [S.vars_nil_of_const h] at hv
      exact Or.inr hv
  obtain ⟨out, ho, hs⟩ := solve_spec S allS valid hc
  obtain ⟨m, hm, hmin, hatt, _⟩ := hs.2 hex
  exact ⟨out, m, ho, hm, hmin, hatt⟩

/-- **T9.2 (all solutions: exactly the minimisers, once each).**  With `all_solutions=True` and some
accepted assignment, the result is `(m, l)` where `m` is the minimum, `l` has no duplicates, and the
members of `l` are exactly the accepted assignments over `vars` whose value is `m`. -/
theorem all_solutions_exact {fn : Fn} {D : Model} {order vars : List Var} (S : Setup fn D order vars)
    (valid : Assign → Bool) (hex : ∃ g, Dom fn.spin g ∧ valid (restrict vars g) = true) :
    ∃ out m l, solve fn D true valid order = .ok out ∧ out.obj = some m ∧ out.sol = .many l ∧
      l.Nodup ∧
      (∀ g, Dom fn.spin g → valid (restrict vars g) = true → m ≤ eval g D.terms) ∧
      ∀ a, a ∈ l ↔ ∃ g, Dom fn.spin g ∧ a = restrict vars g ∧ valid a = true ∧ eval g D.terms = m := by
  have hc : D.isConst = false ∨ valid [] = true := by
    cases h : D.isConst with
    | false => exact Or.inl rfl
    | true =>
      obtain ⟨g, _, hv⟩ := hex
      rw [S.vars_nil_of_const h] at hv
      exact Or.inr hv
  obtain ⟨out, ho, hs⟩ := solve_spec S true valid hc
  obtain ⟨m, hm, hmin, _, hall⟩ := hs.2 hex
  obtain ⟨l, hl, hnd, hmem⟩ := hall rfl
  exact ⟨out, m, l, ho, hm, hl, hnd, hmin, hmem⟩

/-- **T9.1/T9.2 for the `solve_bruteforce` methods** (which return only the solution part): the single
solution is an accepted minimiser over exactly `vars`; the list is duplicate-free and consists of exactly
the accepted minimisers. -/
theorem method_returns_minimisers {fn : Fn} {D : Model} {order vars : List Var}
    (S : Setup fn D order vars) (allS : Bool) (valid : Assign → Bool)
    (hex : ∃ g, Dom fn.spin g ∧ valid (restrict vars g) = true) :
    ∃ sol, solveMethod fn D allS valid order = .ok sol ∧
      (allS = false → ∃ g, Dom fn.spin g ∧ sol = .one (restrict vars g) ∧ valid (restrict vars g) = true ∧
        ∀ g', Dom fn.spin g' → valid (restrict vars g') = true → eval g D.terms ≤ eval g' D.terms) ∧
      (allS = true → ∃ l, sol = .many l ∧ l.Nodup ∧
        ∀ a, a ∈ l ↔ ∃ g, Dom fn.spin g ∧ a = restrict vars g ∧ valid a = true ∧
          ∀ g', Dom fn.spin g' → valid (restrict vars g') = true → eval g D.terms ≤ eval g' D.terms) := by
  obtain ⟨out, m, ho, _, hmin, g, hg, hv, he, hs⟩ := objective_is_minimum S allS valid hex
  refine ⟨out.sol, by simp [solveMethod, ho, Except.map], ?_, ?_⟩
  · intro ha
    exact ⟨g, hg, hs ha, hv, fun g' hg' hv' => he ▸ hmin g' hg' hv'⟩
  · intro ha
    subst ha
    obtain ⟨out', m', l, ho', hm', hl, hnd, hmin', hmem⟩ := all_solutions_exact S valid hex
    rw [ho] at ho'
    injection ho' with ho'
    subst ho'
    refine ⟨l, hl, hnd, fun a => (hmem a).trans ?_⟩
    constructor
    · rintro ⟨g1, hg1, rfl, hv1, he1⟩
      exact ⟨g1, hg1, rfl, hv1, fun g' hg' hv' => he1 ▸ hmin' g' hg' hv'⟩
    · rintro ⟨g1, hg1, rfl, hv1, hle⟩
      refine ⟨g1, hg1, rfl, hv1, ?_⟩
      -- a minimiser has the minimum value: `m'` is attained by some accepted `g2`
      obtain ⟨_, _, ho2, hm2, _, g2, hg2, hv2, he2, _⟩ := objective_is_minimum S true valid hex
      rw [ho] at ho2
      injection ho2 with ho2
      subst ho2
      rw [hm'] at hm2
      injection hm2 with hm2
      subst hm2
      exact le_antisymm (he2 ▸ hle g2 hg2 hv2) (hmin' g1 hg1 hv1)

/-- **T9.3 (nothing valid → `None`), for models with at least one variable.**  If `valid` rejects every
assignment over `vars`, the objective is `None` and the solution part is `{}` resp. `[{}]`.

`_partial`: the property's clause reads "if no assignment is valid the objective is None" for *every*
model, but on a model without variables `_solve_bruteforce` returns the constant *without consulting
`valid`* (clause T9.4 below, which the property also demands); the two clauses of the property overlap
exactly on (constant model, `valid({}) = False`) and the code follows T9.4 there:
`solve_pubo_bruteforce({(): 5}, valid=lambda x: False) == (5, {})`.  The hypothesis `D.isConst = false`
is the one the proof forces. -/
theorem no_valid_none_partial {fn : Fn} {D : Model} {order vars : List Var} (S : Setup fn D order vars)
    (allS : Bool) (valid : Assign → Bool) (hnc : D.isConst = false)
    (hnone : ∀ g, Dom fn.spin g → valid (restrict vars g) = false) :
    ∃ out, solve fn D allS valid order = .ok out ∧ out.obj = none ∧ out.sol = emptySol allS := by
  obtain ⟨out, ho, hs⟩ := solve_spec S allS valid (Or.inl hnc)
  exact ⟨out, ho, hs.1 hnone⟩

/-- **T9.4 (constant model).**  The empty model gives `(0, {})` and a model holding only the offset `c`
gives `(c, {})` (`[{}]` with `all_solutions`), for every `valid`, every solver, and whatever the
bookkeeping says; the terms are unchanged.  (A model *object* never stores a zero coefficient, hence the
side condition for non-dict types.) -/
theorem constant_model (fn : Fn) (D : Model) (allS : Bool) (valid : Assign → Bool) (order : List Var)
    (c : Rat) (h : (D.terms = [] ∧ c = 0) ∨ (D.terms = [([], c)] ∧ (D.kind = .dict ∨ c ≠ 0))) :
    solve fn D allS valid order = .ok ⟨some c, emptySol allS, D.terms⟩ := by
  rcases h with ⟨hn, hc⟩ | ⟨hone, hz⟩
  · subst hc
    simp [solve, solveCore, hn]
  · have hst : store D.kind [] [] c = [([], c)] := by
      rcases hz with hk | hz
      · rw [hk]; rfl
      · cases D.kind <;> simp [store, set, put, hz]
    simp [solve, solveCore, hone, hasKey, get, erase, hst]

/-- **T9.5 (the model passed in is unchanged as a dict).**  After every successful call the terms of `D`
are a permutation of the terms before (same keys, same values; only the position of the offset can
change, by `offset = D.pop(()); D[()] = offset`). -/
theorem model_unchanged {fn : Fn} {D : Model} {allS : Bool} {valid : Assign → Bool} {order : List Var}
    {out : Out} (hd : IsDict D.terms) (hz : D.kind ≠ .dict → ∀ kv ∈ D.terms, kv.2 ≠ 0)
    (h : solve fn D allS valid order = .ok out) : out.after.Perm D.terms := by
  rcases solve_after h with h' | ⟨hk, h'⟩
  · rw [h']
  · rw [h']
    refine restored_perm hd hk ?_
    by_cases hkind : D.kind = .dict
    · exact Or.inl hkind
    · exact Or.inr (hz hkind _ (get_mem_of_hasKey hk))

/-! ### Non-vacuity: concrete instances of the hypotheses -/

/-- `Setup` is satisfiable: plain dict, set order `[2, 0, 1]` -/
example : Setup .pubo exD [2, 0, 1] [2, 0, 1] :=
  ⟨by unfold IsDict; decide, rfl, by decide, exD_exact, trivial⟩

/-- `Setup` is satisfiable: BO object, variables from the bookkeeping; degree-2 solver -/
example : Setup .qubo exP [] [0, 1, 2] :=
  ⟨by unfold IsDict; decide, by decide, by decide,
   fun i => by
     have := exD_exact i
     simp only [List.mem_cons, List.not_mem_nil, or_false] at this ⊢
     rw [show exP.terms = exD.terms from rfl, ← this]
     constructor
     · rintro (h | h | h) <;> simp [h]
     · rintro (h | h | h) <;> simp [h],
   by intro kv hkv; simp only [exP, exD, List.mem_cons, List.not_mem_nil, or_false] at hkv
      rcases hkv with rfl | rfl | rfl | rfl | rfl <;> decide⟩

/-- the parity predicate accepts some assignment (hypothesis `hex` of T9.1/T9.2) … -/
example : ∃ g, Dom Fn.pubo.spin g ∧
    (fun x : Assign => (x.filter (fun p => p.2 == 1)).length % 2 == 0) (restrict [2, 0, 1] g) = true :=
  ⟨fun _ => 0, by simp [Dom, Fn.spin, IsBool], by decide +kernel⟩

/-- … and the model's answer on that instance: minimum 1 over the even-parity assignments, two minimisers -/
example : (solve .pubo exD true (fun x => (x.filter (fun p => p.2 == 1)).length % 2 == 0) [2, 0, 1]).toOption.map
    (fun o => (o.obj, o.sol)) = some (some 1, .many [[(2, 1), (0, 0), (1, 1)], [(2, 1), (0, 1), (1, 0)]]) := by
  decide +kernel

/-- T9.3's hypotheses: a non-constant model and a predicate that rejects everything -/
example : exD.isConst = false ∧ ∀ g, Dom Fn.puso.spin g → (fun _ : Assign => false) (restrict [2, 0, 1] g) = false :=
  ⟨by decide, fun _ _ => rfl⟩

example : (solve .puso exD true (fun _ => false) [2, 0, 1]).toOption.map (fun o => (o.obj, o.sol)) =
    some (none, .many [[]]) := by decide +kernel

/-- T9.5's hypotheses, and the offset really moves (so "unchanged" is a statement about the dict, not the list) -/
example : IsDict (⟨.dict, [([], 3), ([0], 1)], none⟩ : Model).terms := by unfold IsDict; decide

example : (solve .pubo ⟨.dict, [([], 3), ([0], 1)], none⟩ false (fun _ => true) [0]).toOption.map (·.after) =
    some [([0], 1), ([], 3)] := by decide +kernel

/-- stale bookkeeping (DESIGN.md §10 D1) is outside `Setup`: the model raises `KeyError` like the code -/
example : (solve .pubo ⟨.pubo, [([1], 1)], some ⟨1, [(0, 0), (1, 1)]⟩⟩ false (fun _ => true) []).toOption.isSome
    = false := by decide +kernel

end Qv.C09
