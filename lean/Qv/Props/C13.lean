import Qv.Proofs.Results
/-!
# C13 — AnnealResults keeps `best` equal to the minimum under every list operation

Only the property theorems and their non-vacuity examples (helper lemmas: `Qv/Proofs/Results.lean`).
The model is `Qv.Model.Results` (`qubovert/sim/_anneal_results.py` as a state machine over two
collections `cur`, `aux`); its tie to the code is the correspondence check `harness/c13.py`, which runs
`step impl` with `impl = Impl.fixed` — the code as it is after the upstream `fix:` commits 98630c1
(item / slice assignment and deletion recompute `best`), 99d9853 (`extend` / `+=` accept an empty
`AnnealResults` on either side) and 0225de2 (`n * res` returns an `AnnealResults`).

* Headline (the property, for the code as it is): `derived_inv`, `inv_sequence`, `inv_sequence_start`
  (T13.1), `no_spurious_error` (T13.2), `conversions_keep_values`, `toBoolean_toSpin`,
  `toSpin_toBoolean`, `sort_sorted_perm` (T13.3).
* Last section, **documentation of the code before the fix** (`Impl.beforeFix`; DESIGN.md §10 D3): what
  held then (`inv_sequence_partial`, `no_spurious_error_partial`) and the machine-checked negations on
  concrete short histories (`*_breaks_inv`, `*_raises`, `rmul_returns_plain_list`).  These histories are
  the regression inputs in `corpus/C13/`; `counter_histories_repaired` shows each of them is sound now.
-/
namespace Qv.C13
open Qv Qv.Res

/-- the table the correspondence check validates against `/repo` is the repaired one -/
theorem impl_is_fixed : impl = Impl.fixed := rfl

/-! ## concrete results used in the examples and the counter-histories -/

/-- value 1 -/
def rA : Result := ⟨[(0, 0), (1, 1)], 1, false⟩
/-- value 2 -/
def rB : Result := ⟨[(0, 1), (1, 1)], 2, false⟩
/-- value 0 -/
def rZ : Result := ⟨[(0, 0), (1, 0)], 0, false⟩
/-- a spin result, value 1/2 -/
def rS : Result := ⟨[(0, 1), (1, -1)], .fin (1 / 2), true⟩

/-- value `+inf` (`float('inf')`, the usual tag of an infeasible state) -/
def rP : Result := ⟨[(0, 1), (1, 0)], .pinf, false⟩
/-- value `-inf` -/
def rM : Result := ⟨[(0, 1), (1, 1)], .ninf, true⟩
/-- a huge finite value -/
def rH : Result := ⟨[(0, 0)], .fin (10 ^ 30), false⟩

/-! ## T13.1 — the invariant

Values range over `EVal` = ℚ ∪ {+inf, -inf} (`Qv/Model/EVal.lean`; a linear order, `Qv/Proofs/Results.lean`):
every theorem below holds for collections holding `float('inf')` / `-float('inf')` values, ties and huge values
alike.  NaN is outside the model (no least element exists with a NaN in the collection). -/

/-- **the rescan** `_recompute_best` (used by `remove` / `pop` of the best and by item / slice assignment and
deletion) returns `None` *only* on the empty list — also when every remaining value is `+inf` — and otherwise
an element of least value. -/
theorem recompute_spec (l : List Result) :
    (recompute l = none ↔ l = []) ∧
    ∀ b, recompute l = some b → b ∈ l ∧ ∀ r ∈ l, b.value ≤ r.value :=
  inv_recompute l

example : recompute [rP, rP] = some rP ∧ recompute [rP, rM, rH] = some rM ∧ recompute [rH, rP] = some rH := by
  decide +kernel

/-- every recompute path on a collection whose remaining values are all `+inf`: `best` is that element, not `None` -/
example :
    (run Impl.fixed [.pop 0] (start [rA, rP])).cur.best = some rP ∧
    (run Impl.fixed [.remove rA] (start [rA, rP, rP])).cur.best = some rP ∧
    (run Impl.fixed [.delItem 0] (start [rA, rP])).cur.best = some rP ∧
    (run Impl.fixed [.setItem 0 rP] (start [rA, rP])).cur.best = some rP ∧
    (run Impl.fixed [.delSlice ⟨none, some 1, none⟩] (start [rA, rP])).cur.best = some rP ∧
    (run Impl.fixed [.setSlice ⟨some 0, some 1, none⟩ [rP]] (start [rA])).cur.best = some rP ∧
    (run Impl.fixed [.applyFunction (fun r => ⟨r.state, .pinf, r.spin⟩), .pop (-1)] (start [rA, rB])).cur.best
      = some ⟨rA.state, .pinf, false⟩ ∧
    (run Impl.fixed [.append rM, .pop (-1)] (start [rP, rH])).cur.best = some rH := by
  decide +kernel

/-- **Every derived collection satisfies the invariant, whatever the state of the receiver** (all of
them are built by the constructor): `AnnealResults(l)`, `copy`, `+`, `*`, slicing, `filter`,
`filter_states`, `apply_function`, `convert_states`, `to_boolean`, `to_spin`. -/
theorem derived_inv (s : Coll) :
    (∀ l, Inv (construct l)) ∧ Inv s.copy ∧ (∀ l, Inv (s.add l)) ∧ (∀ n, Inv (s.mul n)) ∧
    (∀ sl c, s.getSlice sl = .ok c → Inv c) ∧ (∀ f, Inv (s.filter f)) ∧ (∀ f, Inv (s.filterStates f)) ∧
    (∀ f, Inv (s.applyFunction f)) ∧ (∀ f, Inv (s.convertStates f)) ∧
    (∀ c, s.toBoolean = .ok c → Inv c) ∧ (∀ c, s.toSpin = .ok c → Inv c) :=
  ⟨inv_construct, inv_construct _, fun _ => inv_construct _, fun _ => inv_construct _,
   fun _ _ h => bind_construct_inv h, fun _ => inv_construct _, fun _ => inv_construct _,
   fun _ => inv_construct _, fun _ => inv_construct _,
   fun _ h => bind_construct_inv h, fun _ h => bind_construct_inv h⟩

example : Inv (construct [rB, rA, rZ, rA]) ∧ (construct [rB, rA, rZ, rA]).best = some rZ := by
  decide +kernel

/-- **T13.1.**  From any state in which both collections satisfy the invariant, *every* sequence — of
any length — of *all* 36 operations leaves both collections satisfying it (an operation that raises
leaves the state the code leaves). -/
theorem inv_sequence (ops : List Op) (m : M) (hm : Inv2 m) : Inv2 (run Impl.fixed ops m) :=
  run_inv Impl.fixed fixed_extOK ops m (Or.inr fixed_mutOK) hm

/-- in particular from `AnnealResults(init)`, for every `init` -/
theorem inv_sequence_start (init : List Result) (ops : List Op) :
    Inv (run Impl.fixed ops (start init)).cur :=
  (inv_sequence ops _ (inv2_start init)).1

example : (run Impl.fixed [.setItem 0 rB, .setSlice ⟨some 0, some 0, none⟩ [rS, rB], .delItem 1,
      .extendAR [], .swap, .iaddAux] (start [rA])).cur.best = some rS := by
  decide +kernel

/-! ## T13.2 — no spurious exceptions -/

/-- **T13.2.**  From a state satisfying the invariant no operation raises — or returns a plain list —
on operands a plain `list` accepts (`listAccepts`: `remove` needs the element, `pop` / `l[i]` a valid
index, slices a non-zero step and a fitting length; the conversions need states in their domain). -/
theorem no_spurious_error (op : Op) (m : M) (hm : Inv2 m) (hacc : listAccepts op m = true) :
    (step Impl.fixed op m).2.isOk = true :=
  step_isOk_fixed op m hm hacc

example : Inv2 (start []) ∧ listAccepts (.extendAR []) (start []) = true ∧
    Inv2 (start [rA]) ∧ listAccepts (.setSlice ⟨none, none, some (-1)⟩ [rB]) (start [rA]) = true := by
  decide +kernel

/-! ## T13.3 — conversions and sort -/

/-- `to_spin` keeps every value and sets every flag; `to_boolean` likewise -/
theorem conversions_keep_values (s c : Coll) :
    (s.toSpin = .ok c → List.Forall₂ (fun r t => t.value = r.value ∧ t.spin = true) s.items c.items) ∧
    (s.toBoolean = .ok c → List.Forall₂ (fun r t => t.value = r.value ∧ t.spin = false) s.items c.items) := by
  constructor
  · intro h
    obtain ⟨l, hl, rfl⟩ := bind_construct_ok h
    rw [construct_items]
    exact mapE_forall2 (fun _ _ => result_toSpin_value) hl
  · intro h
    obtain ⟨l, hl, rfl⟩ := bind_construct_ok h
    rw [construct_items]
    exact mapE_forall2 (fun _ _ => result_toBoolean_value) hl

/-- `to_boolean ∘ to_spin` is the identity on a collection of boolean results (states, values and
flags are restored) -/
theorem toBoolean_toSpin (s c : Coll) (hs : ∀ r ∈ s.items, r.spin = false) (h : s.toSpin = .ok c) :
    ∃ c', c.toBoolean = .ok c' ∧ c'.items = s.items := by
  obtain ⟨l, hl, rfl⟩ := bind_construct_ok h
  have := mapE_inverse (g := Result.toBoolean)
    (fun r hr t ht => (result_toSpin_toBoolean (hs r hr) ht).1) hl
  exact ⟨construct s.items, by simp [Coll.toBoolean, construct_items, this, bind, Except.bind, pure, Except.pure],
    construct_items _⟩

/-- `to_spin ∘ to_boolean` is the identity on a collection of spin results -/
theorem toSpin_toBoolean (s c : Coll) (hs : ∀ r ∈ s.items, r.spin = true) (h : s.toBoolean = .ok c) :
    ∃ c', c.toSpin = .ok c' ∧ c'.items = s.items := by
  obtain ⟨l, hl, rfl⟩ := bind_construct_ok h
  have := mapE_inverse (g := Result.toSpin)
    (fun r hr t ht => (result_toBoolean_toSpin (hs r hr) ht).1) hl
  exact ⟨construct s.items, by simp [Coll.toSpin, construct_items, this, bind, Except.bind, pure, Except.pure],
    construct_items _⟩

example : (construct [rS, rS]).toBoolean = .ok (construct [⟨[(0, 0), (1, 1)], .fin (1 / 2), false⟩,
    ⟨[(0, 0), (1, 1)], .fin (1 / 2), false⟩]) := by decide +kernel

/-- `sort()` yields a permutation of the items in non-decreasing order of value, `sort(reverse=True)`
one in non-increasing order; `best` is untouched -/
theorem sort_sorted_perm (s : Coll) :
    (s.sort false).items.Perm s.items ∧
    (s.sort false).items.Pairwise (fun a b => a.value ≤ b.value) ∧
    (s.sort true).items.Perm s.items ∧
    (s.sort true).items.Pairwise (fun a b => b.value ≤ a.value) ∧
    (s.sort false).best = s.best ∧ (s.sort true).best = s.best :=
  ⟨sortItems_perm s.items false, sortItems_sorted s.items, sortItems_perm s.items true,
   sortItems_sorted_rev s.items, rfl, rfl⟩

example : ((construct [rB, rA]).sort false).items = [rA, rB] := by
  have h21 : ¬ ((2 : EVal) ≤ 1) := by decide
  simp [Coll.sort, sortItems, construct_items, List.mergeSort, List.MergeSort.Internal.splitInTwo,
    rA, rB, List.merge, h21]

/-! ## Documentation: the code *before* the fix (`Impl.beforeFix`)

Nothing below is about the code as it is.  It records, machine-checked, what the three `fix:` commits
repaired: the partial statements that held before, and the concrete histories on which the property
failed (the former known findings `C13:setitem-stale-best`, `C13:delitem-stale-best`,
`C13:slice-assign-stale-best`, `C13:slice-delete-stale-best`, `C13:extend-with-empty-AnnealResults`,
`C13:iadd-with-empty-AnnealResults`, `C13:rmul-returns-plain-list`).  The harness keeps these
signatures, so a relapse is reported under the same name. -/

/-- **(before the fix) T13.1, partial.**  From any state in which both collections satisfy the
invariant, every sequence — of any length — of operations other than `res[i] = r`, `del res[i]`,
`res[a:b] = l`, `del res[a:b]` leaves both collections satisfying it (an operation that raises leaves
the state the code leaves).  Weaker than the property: the four excluded operations break it, see
`setItem_breaks_inv` … `delSlice_breaks_inv`. -/
theorem inv_sequence_partial (ops : List Op) (m : M) (hops : ∀ op ∈ ops, op.safe = true)
    (hm : Inv2 m) : Inv2 (run Impl.beforeFix ops m) :=
  run_inv Impl.beforeFix beforeFix_extOK ops m (Or.inl hops) hm

/-- in particular from `AnnealResults(init)` -/
theorem inv_sequence_partial_start (init : List Result) (ops : List Op)
    (hops : ∀ op ∈ ops, op.safe = true) : Inv (run Impl.beforeFix ops (start init)).cur :=
  (inv_sequence_partial ops _ hops (inv2_start init)).1

example : (∀ op ∈ [Op.append rB, .insert 0 rA, .pop (-1), .extendAR [rZ], .remove rZ, .reverse,
      .stash, .clear, .iaddAux, .mul 2], op.safe = true) ∧
    (run Impl.beforeFix [.append rB, .insert 0 rA, .pop (-1), .extendAR [rZ], .remove rZ, .reverse,
      .stash, .clear, .iaddAux, .mul 2] (start [rA])).cur.best = none := by
  decide +kernel

/-- `res = AnnealResults([A]); res[0] = B`: `best` is still `A`, which is no longer an element -/
theorem setItem_breaks_inv : ¬ Inv (run Impl.beforeFix [.setItem 0 rB] (start [rA])).cur := by
  decide +kernel

/-- `res = AnnealResults([B]); res[0] = A`: `best` misses the new minimum -/
theorem setItem_breaks_inv' : ¬ Inv (run Impl.beforeFix [.setItem 0 rA] (start [rB])).cur := by
  decide +kernel

/-- `res = AnnealResults([A]); del res[0]`: empty, but `best` is `A` -/
theorem delItem_breaks_inv : ¬ Inv (run Impl.beforeFix [.delItem 0] (start [rA])).cur := by
  decide +kernel

/-- `res = AnnealResults(); res[0:1] = [B]`: non-empty, but `best` is `None` -/
theorem setSlice_breaks_inv :
    ¬ Inv (run Impl.beforeFix [.setSlice ⟨some 0, some 1, none⟩ [rB]] (start [])).cur := by
  decide +kernel

/-- `res = AnnealResults([A]); del res[:1]`: empty, but `best` is `A` -/
theorem delSlice_breaks_inv :
    ¬ Inv (run Impl.beforeFix [.delSlice ⟨none, some 1, none⟩] (start [rA])).cur := by
  decide +kernel

/-- a stale `best` is contagious: extending a sound collection by one whose `best` is stale breaks
the receiver (`aux = AnnealResults([Z, B]); del aux[0]; res.extend(aux)`) -/
theorem stale_operand_breaks_inv :
    ¬ Inv (run Impl.beforeFix [.swap, .construct [rZ, rB], .delItem 0, .swap, .extendAux] (start [rA])).cur := by
  decide +kernel

/-- **(before the fix) T13.2, partial**: the only failures are `n * res` and `extend` / `+=`
with an `AnnealResults` operand when the receiver or the operand is empty. -/
theorem no_spurious_error_partial (op : Op) (m : M) (hm : Inv2 m) (hacc : listAccepts op m = true)
    (hr : ∀ n, op ≠ .rmul n)
    (hne : ∀ o, op.arOperand m = some o → m.cur.items ≠ [] ∧ o.items ≠ []) :
    (step Impl.beforeFix op m).2.isOk = true :=
  step_isOk_beforeFix op m hm hacc hr hne

example : Inv2 (start [rA, rB]) ∧ listAccepts (.extendAR [rZ]) (start [rA, rB]) = true ∧
    (∀ o, (Op.extendAR [rZ]).arOperand (start [rA, rB]) = some o →
      (start [rA, rB]).cur.items ≠ [] ∧ o.items ≠ []) := by
  refine ⟨by decide +kernel, rfl, ?_⟩
  intro o h
  simp only [Op.arOperand, Option.some.injEq] at h
  subst h
  exact ⟨by decide +kernel, by decide +kernel⟩

/-- `AnnealResults([A]).extend(AnnealResults())` raises `TypeError`; a list accepts the call -/
theorem extend_empty_operand_raises :
    (step Impl.beforeFix (.extendAR []) (start [rA])).2 = .raised .type ∧
    listAccepts (.extendAR []) (start [rA]) = true := by decide +kernel

/-- `AnnealResults().extend(AnnealResults([A]))` raises `AttributeError` -/
theorem extend_empty_receiver_raises :
    (step Impl.beforeFix (.extendAR [rA]) (start [])).2 = .raised .attr := by decide +kernel

/-- `res = AnnealResults(); res += AnnealResults()` raises `TypeError` -/
theorem iadd_empty_raises :
    (step Impl.beforeFix (.iaddAR []) (start [])).2 = .raised .type := by decide +kernel

/-- `2 * AnnealResults([A])` is a plain list -/
theorem rmul_returns_plain_list :
    (step Impl.beforeFix (.rmul 2) (start [rA])).2 = .plain [rA, rA] := by decide +kernel

/-- every one of the counter-histories above is sound for the code as it is -/
theorem counter_histories_repaired :
    Inv (run Impl.fixed [.setItem 0 rB] (start [rA])).cur ∧
    Inv (run Impl.fixed [.setItem 0 rA] (start [rB])).cur ∧
    Inv (run Impl.fixed [.delItem 0] (start [rA])).cur ∧
    Inv (run Impl.fixed [.setSlice ⟨some 0, some 1, none⟩ [rB]] (start [])).cur ∧
    Inv (run Impl.fixed [.delSlice ⟨none, some 1, none⟩] (start [rA])).cur ∧
    Inv (run Impl.fixed [.swap, .construct [rZ, rB], .delItem 0, .swap, .extendAux] (start [rA])).cur ∧
    (step Impl.fixed (.extendAR []) (start [rA])).2 = .ok none ∧
    (step Impl.fixed (.extendAR [rA]) (start [])).2 = .ok none ∧
    (step Impl.fixed (.iaddAR []) (start [])).2 = .ok none ∧
    (step Impl.fixed (.rmul 2) (start [rA])) = (⟨construct [rA, rA], Coll.empty⟩, .ok none) := by
  decide +kernel

end Qv.C13
