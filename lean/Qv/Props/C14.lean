import Qv.Proofs.Book
/-!
# C14 — Model bookkeeping stays consistent under every history of edits

Only the property theorems and their non-vacuity examples (helper lemmas: `Qv/Proofs/Book.lean`).
The model is `Qv.Model.Book`: `run fx κ ops` is the state of a fresh model of type `κ` after the edit history
`ops` (item and augmented assignment incl. zero values and raw keys with repeated labels, `+= -= *= /= **=`
with dict or scalar, `update`, `clear`, `refresh`, `copy`, the six comparison constraints), executed in the order
of the MRO.  `fx = Fix.current` is the code as it is; `Fix.fixed` switches on the three proposed repairs
(D1 `BO.__setitem__`, D2 `PCBO.__imul__`, D9 `PUSO._create_pubo`).  Its tie to `/repo` is `harness/c14.py`.

`Inv = I1 ∧ I2 ∧ I3 ∧ I4` (DESIGN §4/C14).  The code as it is keeps I1 and I2 (and canonical storage I0) along
every history (`inv_history_partial`) but not I3 (`d1_replay…`) nor I4 (`d2_replay`), and its PUSO reductions
hand out an ancilla label that the mapping already uses (`d9_replay`).  With the repairs all of I0–I3 hold along
every history (`inv_history`), and I4 along every history of user edits (`anc_history_partial`).
-/
namespace Qv.C14
open Qv Qv.Book

/-- **T14.1 (a) — what holds of the code as it is, for every history of every length** (and of the repaired
code: `fx` is arbitrary).  The terms are stored canonically; `variables`, `degree`, `num_binary_variables` are
upper bounds of the exact ones and the count is the size of the reported set (I1); `mapping` and
`reverse_mapping` are mutually inverse bijections between `dom mapping` and `0..nextLabel-1` (I2). -/
theorem inv_history_partial (fx : Fix) (κ : Kind) (ops : List Op) :
    I0 (run fx κ ops) ∧ I1 (run fx κ ops) ∧ I2 (run fx κ ops) :=
  have h := run_pres (closed_PInv fx) κ ops (fun op _ s => opOK_true s op)
  ⟨run_pres (closed_I0 fx) κ ops (fun op _ s => opOK_true s op), h.1, h.2⟩

example : (run Fix.current .puso [.setitem [0, 0, 1, 2] 1, .augitem [1] .add 1, .imulD [([3], 2)]]).mapping
    = [(1, 0), (2, 1), (3, 2)] := by decide +kernel

/-- **T14.1 (b) — replays: the code as it is does not keep `Inv`.**
D1, zero value: `H = PUBO(); H[('a',)] = 0` leaves `mapping = {'a': 0}`, `variables = set()`. -/
theorem d1_replay_zero : ¬ Inv (run Fix.current .pubo [.setitem [0] 0]) :=
  fun h => absurd h.2.2.1 (by decide +kernel)

/-- D1, label squashed away: `H = PUSO(); H[('a','a','b')] = 1` maps `'a'` although only `('b',)` is stored. -/
theorem d1_replay_squashed : ¬ Inv (run Fix.current .puso [.setitem [0, 0, 1] 1]) :=
  fun h => absurd h.2.2.1 (by decide +kernel)

/-- D2: `H = PCBO(); H.add_constraint_le_zero({('x',):1,('y',):1,('z',):1,():-2}); H *= {('x',): 1}`
leaves `__a0`, `__a1` in the terms with `num_ancillas = 0` (and no recorded constraint). -/
theorem d2_replay : ¬ Inv (run Fix.current .pcbo
    [.cons .le [([0], 1), ([1], 1), ([2], 1), ([], -2)] 1 true none none, .imulD [([0], 1)]]) :=
  fun h => absurd h.2.2.2 (by decide +kernel)

/-- D2 also loses the recorded constraints. -/
theorem d2_replay_constraints : (run Fix.current .pcbo
    [.cons .le [([0], 1), ([1], 1), ([2], 1), ([], -2)] 1 true none none, .imulD [([0], 1)]]).constraints = [] := by
  decide +kernel

/-- D9: `H = PUSO(); H[('a',)] = 1; H[('b','c','d')] = 1; H[('a',)] = 0` satisfies `Inv`, yet the first ancilla of
`to_qubo()/to_quso()` is `3`, the mapping's label of the live variable `'d'`. -/
theorem d9_replay :
    Inv (run Fix.current .puso [.setitem [0] 1, .setitem [1, 2, 3] 1, .setitem [0] 0]) ∧
    ancStart Fix.current (run Fix.current .puso [.setitem [0] 1, .setitem [1, 2, 3] 1, .setitem [0] 0])
      ∈ convBase (run Fix.current .puso [.setitem [0] 1, .setitem [1, 2, 3] 1, .setitem [0] 0]) := by
  refine ⟨⟨?_, ?_, ?_, ?_⟩, ?_⟩
  · exact (inv_history_partial _ _ _).2.1
  · exact (inv_history_partial _ _ _).2.2
  · decide +kernel
  · decide +kernel
  · decide +kernel

/-- **T14.1 (c) — with the repaired `BO.__setitem__`, I0–I3 hold along every history**: in addition to the
above, the mapped labels are exactly the reported variables and `nextLabel = num_binary_variables`, so that
`mapping`/`reverse_mapping` are mutually inverse bijections between exactly the reported variables and
`0..num_binary_variables-1`. -/
theorem inv_history (fx : Fix) (hfx : fx.d1 = true) (κ : Kind) (ops : List Op) :
    I0 (run fx κ ops) ∧ I1 (run fx κ ops) ∧ I2 (run fx κ ops) ∧ I3 (run fx κ ops) :=
  have h := run_pres (closed_QInv fx hfx) κ ops (fun op _ s => opOK_true s op)
  ⟨(inv_history_partial fx κ ops).1, h.1, h.2.1, h.2.2⟩

example : Fix.fixed.d1 = true := rfl
example : (run Fix.fixed .pubo [.setitem [0] 0, .setitem [2, 1, 1] 3]).mapping = [(2, 0), (1, 1)] := by
  decide +kernel

/-- **T14.4 — constraint ancilla names are never reused** (I4): along every history of user edits (keys without
labels of the reserved form `__a<k>`), every label of that form that the model mentions — in its terms, its
`variables` or its `mapping` — is below the ancilla counter, so the names `_next_ancilla` hands out next occur
nowhere in the model.  For the code as it is this needs the history to contain no `*=` by a dict and no `**=`
(`d2_replay`); with the D2 repair it holds for every history.  `Op.Fresh` is the one hypothesis about
`Qv.addConstraint` (the model of `_pcbo.py`, C02's subject) that is used: a constraint's contribution mentions
no ancilla label at or above the counter it returns and never lowers the counter; it is decidable for each
concrete constraint (example below). -/
theorem anc_history_partial (fx : Fix) (κ : Kind) (ops : List Op)
    (hmul : ∀ op ∈ ops, fx.d2 = true ∨ op.isDictMul = false)
    (huser : ∀ op ∈ ops, op.User) (hfresh : ∀ op ∈ ops, op.Fresh) : I4 (run fx κ ops) :=
  run_I4 κ ops hmul huser hfresh

example : ConsFresh .pcbo 3 .le [([0], 1), ([1], 1), ([2], 1), ([], -2)] 1 true (none, none) := by decide +kernel
example : ConsFresh .pcso 1 .ne [([0], 1), ([1], 1), ([], -1)] 2 false (none, none) := by decide +kernel
example : I4 (run Fix.fixed .pcbo
    [.cons .le [([0], 1), ([1], 1), ([2], 1), ([], -2)] 1 true none none, .imulD [([0], 1)],
     .cons .ne [([0], 1), ([1], 1), ([], -1)] 1 true none none]) := by decide +kernel

/-- **T14.4 (counter)** — no edit other than `clear()` lowers the ancilla counter (with the D2 repair; in the
code as it is: no edit other than `clear()`, `*=` by a dict and `**=`), and only a constraint changes it. -/
theorem anc_counter (fx : Fix) (s : State) (op : Op) (hmul : fx.d2 = true ∨ op.isDictMul = false) :
    (step fx s op).1.ancilla =
      match op with
      | .clear => 0
      | .cons r P lam lt lo hi =>
        if hasCons s.kind then (consDelta s.kind s.ancilla r P lam lt (lo, hi)).2.1 else s.ancilla
      | _ => s.ancilla :=
  step_anc s op hmul

/-- **T14.2 — `refresh()` leaves the terms unchanged (as a dict, hence as a function) and makes everything
exact**, after every history, in the code as it is and repaired: it raises nothing; the kind, the terms, the
recorded constraints and the ancilla counter are unchanged; `variables` is exactly the set of labels occurring
in the terms and `degree` is the exact degree (`-inf` for no terms); I1–I3 hold, so `num_binary_variables` is the
exact count and `mapping`/`reverse_mapping` are bijections between exactly those labels and `0..n-1`. -/
theorem refresh_exact (fx : Fix) (κ : Kind) (ops : List Op) :
    ∃ c, refresh fx (run fx κ ops) = (c, none) ∧ c.kind = (run fx κ ops).kind ∧
      c.terms = (run fx κ ops).terms ∧
      (∀ i, i ∈ c.variables ↔ ∃ kv ∈ c.terms, i ∈ kv.1) ∧ c.degree = trueDegree c.terms ∧
      I1 c ∧ I2 c ∧ I3 c ∧
      c.ancilla = (run fx κ ops).ancilla ∧ c.constraints = (run fx κ ops).constraints := by
  obtain ⟨c, h1, h2, h3, h4, h5, h6, h7, h8, h9⟩ :=
    refresh_spec fx (run fx κ ops) (inv_history_partial fx κ ops).1
  exact ⟨c, h1, h2, h3, h4.1, h4.2, h5, h6, h7, h8, h9⟩

example : (step Fix.current (run Fix.current .pubo [.setitem [0] 0, .setitem [1, 2] 1, .augitem [1, 2] .sub 1,
    .setitem [3] 2]) .refresh).1.mapping = [(3, 0)] := by decide +kernel

/-- `copy()` likewise (a copy taken at any point has the same terms and exact bookkeeping). -/
theorem copy_exact (fx : Fix) (κ : Kind) (ops : List Op) :
    ∃ c, copy fx (run fx κ ops) = (c, none) ∧ c.terms = (run fx κ ops).terms ∧
      (∀ i, i ∈ c.variables ↔ ∃ kv ∈ c.terms, i ∈ kv.1) ∧ c.degree = trueDegree c.terms ∧
      I1 c ∧ I2 c ∧ I3 c ∧
      c.ancilla = (run fx κ ops).ancilla ∧ c.constraints = (run fx κ ops).constraints := by
  obtain ⟨c, h1, _, h3, h4, h5, h6, h7, h8, h9⟩ :=
    copy_spec fx (run fx κ ops) (inv_history_partial fx κ ops).1
  exact ⟨c, h1, h3, h4.1, h4.2, h5, h6, h7, h8, h9⟩

/-- **T14.3 — labels of the enumerated and reduced forms** (repaired code, every history, labelled types):
every label occurring in the terms has a mapping label, that label is below `num_binary_variables`, and the
first ancilla label of a degree reduction is `num_binary_variables`; so model variables use only mapping
labels and ancillas strictly larger, unused ones.  (For the code as it is: `d9_replay`, and `d1_replay…` where
`mapping` has labels `≥ num_binary_variables`.) -/
theorem conv_labels (fx : Fix) (h1 : fx.d1 = true) (h9 : fx.d9 = true) (κ : Kind) (ops : List Op)
    (hb : hasBO (run fx κ ops).kind = true) :
    (∀ kv ∈ (run fx κ ops).terms, ∀ i ∈ kv.1,
      ∃ l, lookup (run fx κ ops).mapping i = some l ∧ l < ancStart fx (run fx κ ops)) ∧
    (∀ l ∈ convBase (run fx κ ops), l < ancStart fx (run fx κ ops)) ∧
    ancStart fx (run fx κ ops) = (run fx κ ops).numVars := by
  obtain ⟨_, i1, i2, i3⟩ := inv_history fx h1 κ ops
  have ha : ancStart fx (run fx κ ops) = (run fx κ ops).numVars := by simp [ancStart, h9]
  rw [ha]
  exact ⟨fun kv hkv i hi => var_label_lt hb i1 i2 i3 kv hkv i hi, fun l hl => convBase_lt hb i2 i3 l hl, rfl⟩

example : convBase (run Fix.fixed .puso [.setitem [0] 1, .setitem [1, 2, 3] 1, .setitem [0] 0]) = [1, 2, 3] ∧
    ancStart Fix.fixed (run Fix.fixed .puso [.setitem [0] 1, .setitem [1, 2, 3] 1, .setitem [0] 0]) = 4 := by
  decide +kernel

/-- **Terms are C05's terms**: the bookkeeping never changes what `DictArithmetic` stores — a successful
`self[k] = v` stores `Qv.setItem` of the receiving type. -/
theorem setitem_terms_arith (fx : Fix) (s s' : State) (k : Key) (v : Rat) (h : setitem fx s k v = .ok s') :
    setItem (squash s.kind) s.terms k v = .ok s'.terms := by
  obtain ⟨k', hk, ht⟩ := setitem_terms h
  simp [setItem, hk, ht, bind, Except.bind, pure, Except.pure]

end Qv.C14
