import Qv.Proofs.Book
import Qv.Proofs.BookCons
/-!
# C14 — Model bookkeeping stays consistent under every history of edits

Only the property theorems and their non-vacuity examples (helper lemmas: `Qv/Proofs/Book.lean`,
`Qv/Proofs/BookCons.lean`).  The model is `Qv.Model.Book`: `run fx κ ops` is the state of a fresh model of type
`κ` after the edit history `ops` (item and augmented assignment incl. zero values and raw keys with repeated
labels, `+= -= *= /= **=` with dict or scalar, `update`, `clear`, `refresh`, `copy`, the six comparison
constraints), executed in the order of the MRO.  **`Fix.fixed` is the code as it is now** (after the repairs
67e6723 `BO.__setitem__`, 8d2eba8 `PCBO/PCSO.__imul__`, 77284a9 `PUSO._create_pubo`); `Fix.current` is the code
before those repairs, kept to document the three defects (replays at the end).  The model's tie to `/repo` is
`harness/c14.py` (`VARIANT = "fixed"`).

`Inv = I1 ∧ I2 ∧ I3 ∧ I4` (DESIGN §4/C14): I1 cached `variables`/`degree`/`num_binary_variables` are upper
bounds and the count is the size of the reported set; I2 `mapping`/`reverse_mapping` are mutually inverse
bijections between `dom mapping` and `0..nextLabel-1`; I3 `dom mapping` = reported variables and
`nextLabel = num_binary_variables`; I4 every label of the ancilla form `__a<k>` that the model mentions (terms,
variables, mapping) is below the ancilla counter.  I0 is canonical storage (C05).
-/
namespace Qv.C14
open Qv Qv.Book

/-! ## T14.1 — the invariant along every history -/

/-- **T14.1 (I0–I3, unconditional).**  After every finite history of edits on every model type: the terms are
stored canonically; `variables`, `degree`, `num_binary_variables` are upper bounds of the exact ones (I1);
`mapping` and `reverse_mapping` are mutually inverse bijections (I2) between exactly the reported variables and
`0..num_binary_variables-1` (I3). -/
theorem inv_history (κ : Kind) (ops : List Op) :
    I0 (Book.run Fix.fixed κ ops) ∧ I1 (Book.run Fix.fixed κ ops) ∧ I2 (Book.run Fix.fixed κ ops) ∧
    I3 (Book.run Fix.fixed κ ops) :=
  have h := run_pres (closed_QInv Fix.fixed rfl) κ ops (fun op _ s => opOK_true s op)
  ⟨run_pres (closed_I0 Fix.fixed) κ ops (fun op _ s => opOK_true s op), h.1, h.2.1, h.2.2⟩

example : (Book.run Fix.fixed .pubo [.setitem [0] 0, .setitem [2, 1, 1] 3]).mapping = [(2, 0), (1, 1)] := by
  decide +kernel

/-- **T14.4 — constraint ancilla names are never reused** (I4): along every history of user edits of a model of
class `κ` (`Op.UserAt κ`: keys without labels of the reserved form `__a<k>`; constructors `T(H)` only of the own
class; `update(G)` with a dict of user keys or with a sound model `G` of the own constrained class), every label of
that form that the model mentions — in its terms, its `variables` or its `mapping` — is below the ancilla counter,
so the names `_next_ancilla` hands out next occur nowhere in the model.  This covers the copy-like operations
`round`, `subs`, `T(H)`, `H + c`, `c + H`, `H - c`, `c - H`, `H * c`, `-H`, `+H`, `H / c`, `H ** e`, `H + d`, `H * d`,
`refresh`, `copy`, `set_mapping` and `update(model)`: the history goes on with their result — and the self-aliased
in-place operations `H += H`, `H -= H`, `H *= H`, `H.update(H)` (and `H -= H.copy()`): none of them runs `clear()`
unguarded, so constraints and counter survive `H -= H` although every term cancels.  No hypothesis on the
constraint generator (`Qv.C03.pcbo_counter_and_labels`, `Qv.Book.consFresh_of_user`). -/
theorem anc_history (κ : Kind) (ops : List Op) (huser : ∀ op ∈ ops, op.UserAt κ) :
    I4 (Book.run Fix.fixed κ ops) :=
  (run_I4_user rfl rfl rfl κ ops huser).2

/-- along such a history the model keeps its class -/
theorem kind_history (κ : Kind) (ops : List Op) (huser : ∀ op ∈ ops, op.UserAt κ) :
    (Book.run Fix.fixed κ ops).kind = κ :=
  (run_I4_user rfl rfl rfl κ ops huser).1

def exHist : List Op :=
  [.cons .le [([0], 1), ([1], 1), ([2], 1), ([], -2)] 1 true none none, .round none, .imulD [([0], 1)], .refresh,
   .bin (.mulC 1), .subs, .rsubC 0, .cast .pcbo, .remap,
   .updateM .pcbo [([3], 2), ([3, ANC + 4], 1)] [(.eq, [([3], 1)])] 5,
   .cons .ne [([0], 1), ([1], 1), ([], -1)] 1 true none none]

example : exHist.all (fun op => decide (op.UserAt .pcbo)) = true := by decide +kernel
example : (Book.run Fix.fixed .pcbo exHist).ancilla = 8 ∧ (Book.run Fix.fixed .pcbo exHist).constraints.length = 3 := by
  decide +kernel

/-- `H -= H` between two constraints: the second constraint gets fresh names (`__a2`, `__a3` after `__a0`, `__a1`),
both constraints stay recorded; `H.update(H)` doubles the recorded lists and keeps the counter -/
example : (Book.run Fix.fixed .pcbo [.cons .le [([0], 1), ([1], 1), ([2], 1), ([], -2)] 1 true none none, .isubSelf,
      .cons .le [([3], 1), ([4], 1), ([5], 1), ([], -2)] 1 true none none]).ancilla = 4 ∧
    (Book.run Fix.fixed .pcbo [.cons .le [([0], 1), ([1], 1), ([2], 1), ([], -2)] 1 true none none, .isubSelf,
      .cons .le [([3], 1), ([4], 1), ([5], 1), ([], -2)] 1 true none none]).constraints.length = 2 ∧
    (Book.run Fix.fixed .pcbo [.cons .le [([0], 1), ([1], 1), ([2], 1), ([], -2)] 1 true none none, .isubSelf]).terms = [] ∧
    (Book.run Fix.fixed .pcbo [.cons .le [([0], 1), ([1], 1), ([2], 1), ([], -2)] 1 true none none, .updateSelf,
      .iaddSelf, .imulSelf]).constraints.length = 2 := by
  decide +kernel

/-- **T14.1 (full invariant).**  `Inv` holds after every history of user edits. -/
theorem inv_history_full (κ : Kind) (ops : List Op) (huser : ∀ op ∈ ops, op.UserAt κ) :
    Inv (Book.run Fix.fixed κ ops) :=
  ⟨(inv_history κ ops).2.1, (inv_history κ ops).2.2.1, (inv_history κ ops).2.2.2, anc_history κ ops huser⟩

/-- the old form of the hypothesis (`Op.User`: user keys, no constructor, `update` with user keys) implies the new -/
theorem inv_history_full_user (κ : Kind) (ops : List Op) (huser : ∀ op ∈ ops, op.User) :
    Inv (Book.run Fix.fixed κ ops) :=
  inv_history_full κ ops (fun op h => userAt_of_user κ op (huser op h))

/-- **T14.4 (counter)** — `ancAfter`: `clear()` resets the ancilla counter; a constraint sets it to the counter it
returns; `update(G)` with a model of the own constrained class raises it to `max(counter, G's counter)`; the
constructor of another class makes a model with counter `0`; every other edit — `*=` by a dict, `**=`, `round`,
`subs`, the copying operators, `refresh`, `copy`, `set_mapping` included — leaves it unchanged. -/
theorem anc_counter (s : State) (op : Op) : (step Fix.fixed s op).1.ancilla = ancAfter Fix.fixed s op :=
  step_anc s op (fixOK_fixed op)

example (s : State) (q : Poly) : ancAfter Fix.fixed s (.imulD q) = s.ancilla := rfl
example (s : State) (nd : Option Int) : ancAfter Fix.fixed s (.round nd) = s.ancilla := rfl
example (s : State) (a : Arith) : ancAfter Fix.fixed s (.bin a) = s.ancilla := rfl
example (s : State) : ancAfter Fix.fixed s .isubSelf = s.ancilla ∧ ancAfter Fix.fixed s .imulSelf = s.ancilla ∧
    ancAfter Fix.fixed s .updateSelf = s.ancilla := ⟨rfl, rfl, rfl⟩
example (s : State) : ancAfter Fix.fixed s .clear = 0 := rfl
example (s : State) (r : Rel) (P : Poly) (lam : Rat) (lt : Bool) (lo hi : Option Rat) :
    ancAfter Fix.fixed s (.cons r P lam lt lo hi) =
      if hasCons s.kind then (consDelta s.kind s.ancilla r P lam lt (lo, hi)).2.1 else s.ancilla := rfl
example (s : State) (κg : Kind) (q : Poly) (cs : List (Rel × Poly)) (a : Nat) :
    ancAfter Fix.fixed s (.updateM κg q cs a) =
      if hasCons s.kind && κg == s.kind then max s.ancilla a else s.ancilla := rfl

/-- no user edit other than `clear()` lowers the counter -/
theorem anc_counter_mono (s : State) (op : Op) (hu : op.UserAt s.kind) (hc : op ≠ .clear) :
    s.ancilla ≤ (step Fix.fixed s op).1.ancilla := by
  rw [anc_counter]
  cases op with
  | clear => exact absurd rfl hc
  | cons r P lam lt lo hi =>
    simp only [ancAfter]
    split
    · exact (consFresh_of_user s.kind s.ancilla r P lam lt (lo, hi) hu).1
    · exact Nat.le_refl _
  | cast κ =>
    have hκ : κ = s.kind := hu
    simp only [ancAfter, hκ, beq_self_eq_true, if_true]
    cases (iaddLoop Fix.fixed (init s.kind) s.terms).2 <;> exact Nat.le_refl _
  | updateM κg q cs a =>
    simp only [ancAfter]
    split
    · exact Nat.le_max_left _ _
    · exact Nat.le_refl _
  | setitem k v => exact Nat.le_refl _
  | augitem k a d => exact Nat.le_refl _
  | iaddD q => exact Nat.le_refl _
  | isubD q => exact Nat.le_refl _
  | iaddC c => exact Nat.le_refl _
  | isubC c => exact Nat.le_refl _
  | imulD q => exact Nat.le_refl _
  | imulC c => exact Nat.le_refl _
  | idivC c => exact Nat.le_refl _
  | ipow e => exact Nat.le_refl _
  | update q => exact Nat.le_refl _
  | refresh => exact Nat.le_refl _
  | copy => exact Nat.le_refl _
  | round nd => exact Nat.le_refl _
  | subs => exact Nat.le_refl _
  | bin a => exact Nat.le_refl _
  | rsubC c => exact Nat.le_refl _
  | remap => exact Nat.le_refl _
  | iaddSelf => exact Nat.le_refl _
  | isubSelf => exact Nat.le_refl _
  | imulSelf => exact Nat.le_refl _
  | updateSelf => exact Nat.le_refl _
  | isubCopy => exact Nat.le_refl _

example : (Book.run Fix.fixed .pcso
    [.cons .le [([0], 1), ([1], 1), ([2], 1), ([], -2)] 1 true none none, .ipow 2, .refresh, .copy, .round (some 0),
     .bin (.mulC 2), .subs]).ancilla = 3 := by
  decide +kernel

/-! ## T14.2 — refresh and copy -/

/-- **T14.2 — `refresh()` leaves the terms unchanged (as a dict, hence as a function) and makes everything
exact**, after every history: it raises nothing; the kind, the terms, the recorded constraints and the ancilla
counter are unchanged; `variables` is exactly the set of labels occurring in the terms and `degree` is the exact
degree (`-inf` for no terms); I1–I3 hold, so `num_binary_variables` is the exact count and
`mapping`/`reverse_mapping` are bijections between exactly those labels and `0..n-1`.  (Proved for both
variants of the model: `fx` arbitrary.) -/
theorem refresh_exact (fx : Fix) (κ : Kind) (ops : List Op) :
    ∃ c, refresh fx (Book.run fx κ ops) = (c, none) ∧ c.kind = (Book.run fx κ ops).kind ∧
      c.terms = (Book.run fx κ ops).terms ∧
      (∀ i, i ∈ c.variables ↔ ∃ kv ∈ c.terms, i ∈ kv.1) ∧ c.degree = trueDegree c.terms ∧
      I1 c ∧ I2 c ∧ I3 c ∧
      c.ancilla = (Book.run fx κ ops).ancilla ∧ c.constraints = (Book.run fx κ ops).constraints := by
  obtain ⟨c, h1, h2, h3, h4, h5, h6, h7, h8, h9⟩ :=
    refresh_spec fx (Book.run fx κ ops) (run_pres (closed_I0 fx) κ ops (fun op _ s => opOK_true s op))
  exact ⟨c, h1, h2, h3, h4.1, h4.2, h5, h6, h7, h8, h9⟩

example : (step Fix.fixed (Book.run Fix.fixed .pubo [.setitem [1, 2] 1, .augitem [1, 2] .sub 1,
    .setitem [3] 2]) .refresh).1.mapping = [(3, 0)] := by decide +kernel

/-- `copy()` likewise (a copy taken at any point has the same terms, constraints and ancilla counter, and exact
bookkeeping). -/
theorem copy_exact (fx : Fix) (κ : Kind) (ops : List Op) :
    ∃ c, copy fx (Book.run fx κ ops) = (c, none) ∧ c.terms = (Book.run fx κ ops).terms ∧
      (∀ i, i ∈ c.variables ↔ ∃ kv ∈ c.terms, i ∈ kv.1) ∧ c.degree = trueDegree c.terms ∧
      I1 c ∧ I2 c ∧ I3 c ∧
      c.ancilla = (Book.run fx κ ops).ancilla ∧ c.constraints = (Book.run fx κ ops).constraints := by
  obtain ⟨c, h1, _, h3, h4, h5, h6, h7, h8, h9⟩ :=
    copy_spec fx (Book.run fx κ ops) (run_pres (closed_I0 fx) κ ops (fun op _ s => opOK_true s op))
  exact ⟨c, h1, h3, h4.1, h4.2, h5, h6, h7, h8, h9⟩

/-! ## T14.3 — labels of the enumerated and reduced forms -/

/-- **T14.3** (every history, labelled types): every label occurring in the terms has a mapping label, that
label is below `num_binary_variables`, and the first ancilla label of a degree reduction is
`num_binary_variables`; so model variables use only mapping labels and ancillas strictly larger, unused ones. -/
theorem conv_labels (κ : Kind) (ops : List Op) (hb : hasBO (Book.run Fix.fixed κ ops).kind = true) :
    (∀ kv ∈ (Book.run Fix.fixed κ ops).terms, ∀ i ∈ kv.1,
      ∃ l, lookup (Book.run Fix.fixed κ ops).mapping i = some l ∧ l < ancStart Fix.fixed (Book.run Fix.fixed κ ops)) ∧
    (∀ l ∈ convBase (Book.run Fix.fixed κ ops), l < ancStart Fix.fixed (Book.run Fix.fixed κ ops)) ∧
    (∀ p ∈ (Book.run Fix.fixed κ ops).mapping, p.2 < ancStart Fix.fixed (Book.run Fix.fixed κ ops)) ∧
    ancStart Fix.fixed (Book.run Fix.fixed κ ops) = (Book.run Fix.fixed κ ops).numVars := by
  obtain ⟨_, i1, i2, i3⟩ := inv_history κ ops
  have ha : ancStart Fix.fixed (Book.run Fix.fixed κ ops) = (Book.run Fix.fixed κ ops).numVars := by
    simp [ancStart, Fix.fixed]
  rw [ha]
  refine ⟨fun kv hkv i hi => var_label_lt hb i1 i2 i3 kv hkv i hi, fun l hl => convBase_lt hb i2 i3 l hl,
    fun p hp => ?_, rfl⟩
  rw [← (i3 hb).2.2]
  exact (i2.2.2.2.2.1 p.2).mp (List.mem_map.mpr ⟨p, hp, rfl⟩)

example : convBase (Book.run Fix.fixed .puso [.setitem [0] 1, .setitem [1, 2, 3] 1, .setitem [0] 0]) = [1, 2, 3] ∧
    ancStart Fix.fixed (Book.run Fix.fixed .puso [.setitem [0] 1, .setitem [1, 2, 3] 1, .setitem [0] 0]) = 4 := by
  decide +kernel

/-- **Terms are C05's terms**: the bookkeeping never changes what `DictArithmetic` stores — a successful
`self[k] = v` stores `Qv.setItem` of the receiving type. -/
theorem setitem_terms_arith (fx : Fix) (s s' : State) (k : Key) (v : Rat) (h : setitem fx s k v = .ok s') :
    setItem (squash s.kind) s.terms k v = .ok s'.terms := by
  obtain ⟨k', hk, ht⟩ := setitem_terms h
  simp [setItem, hk, ht, bind, Except.bind, pure, Except.pure]

/-! ## The code before the repairs (`Fix.current`): what held, and the three defects as replays -/

/-- What held of the code before the repairs as well (`fx` arbitrary): canonical storage, I1 and I2 along every
history. -/
theorem bounds_history (fx : Fix) (κ : Kind) (ops : List Op) :
    I0 (Book.run fx κ ops) ∧ I1 (Book.run fx κ ops) ∧ I2 (Book.run fx κ ops) :=
  have h := run_pres (closed_PInv fx) κ ops (fun op _ s => opOK_true s op)
  ⟨run_pres (closed_I0 fx) κ ops (fun op _ s => opOK_true s op), h.1, h.2⟩

/-- D1 (fixed by 67e6723), zero value: `H = PUBO(); H[('a',)] = 0` left `mapping = {'a': 0}`, `variables = set()`. -/
theorem d1_replay_zero : ¬ Inv (Book.run Fix.current .pubo [.setitem [0] 0]) :=
  fun h => absurd h.2.2.1 (by decide +kernel)

/-- the same history is sound now -/
example : Inv (Book.run Fix.fixed .pubo [.setitem [0] 0]) :=
  ⟨(inv_history _ _).2.1, (inv_history _ _).2.2.1, by decide +kernel, by decide +kernel⟩

/-- D1, label squashed away: `H = PUSO(); H[('a','a','b')] = 1` mapped `'a'` although only `('b',)` is stored. -/
theorem d1_replay_squashed : ¬ Inv (Book.run Fix.current .puso [.setitem [0, 0, 1] 1]) :=
  fun h => absurd h.2.2.1 (by decide +kernel)

example : Inv (Book.run Fix.fixed .puso [.setitem [0, 0, 1] 1]) :=
  ⟨(inv_history _ _).2.1, (inv_history _ _).2.2.1, by decide +kernel, by decide +kernel⟩

/-- D2 (fixed by 8d2eba8): `H = PCBO(); H.add_constraint_le_zero({('x',):1,('y',):1,('z',):1,():-2});
H *= {('x',): 1}` left `__a0`, `__a1` in the terms with `num_ancillas = 0` (and no recorded constraint). -/
theorem d2_replay : ¬ Inv (Book.run Fix.current .pcbo
    [.cons .le [([0], 1), ([1], 1), ([2], 1), ([], -2)] 1 true none none, .imulD [([0], 1)]]) :=
  fun h => absurd h.2.2.2 (by decide +kernel)

theorem d2_replay_constraints : (Book.run Fix.current .pcbo
    [.cons .le [([0], 1), ([1], 1), ([2], 1), ([], -2)] 1 true none none, .imulD [([0], 1)]]).constraints = [] := by
  decide +kernel

example : Inv (Book.run Fix.fixed .pcbo
    [.cons .le [([0], 1), ([1], 1), ([2], 1), ([], -2)] 1 true none none, .imulD [([0], 1)]]) :=
  ⟨(inv_history _ _).2.1, (inv_history _ _).2.2.1, by decide +kernel, by decide +kernel⟩

example : (Book.run Fix.fixed .pcbo
    [.cons .le [([0], 1), ([1], 1), ([2], 1), ([], -2)] 1 true none none, .imulD [([0], 1)]]).constraints
    = [(.le, [([0], 1), ([1], 1), ([2], 1), ([], -2)])] ∧
    (Book.run Fix.fixed .pcbo
    [.cons .le [([0], 1), ([1], 1), ([2], 1), ([], -2)] 1 true none none, .imulD [([0], 1)]]).ancilla = 2 := by
  decide +kernel

/-- D9 (fixed by 77284a9): `H = PUSO(); H[('a',)] = 1; H[('b','c','d')] = 1; H[('a',)] = 0` satisfied `Inv`, yet the
first ancilla of `to_qubo()/to_quso()` was `3`, the mapping's label of the live variable `'d'`. -/
theorem d9_replay :
    Inv (Book.run Fix.current .puso [.setitem [0] 1, .setitem [1, 2, 3] 1, .setitem [0] 0]) ∧
    ancStart Fix.current (Book.run Fix.current .puso [.setitem [0] 1, .setitem [1, 2, 3] 1, .setitem [0] 0])
      ∈ convBase (Book.run Fix.current .puso [.setitem [0] 1, .setitem [1, 2, 3] 1, .setitem [0] 0]) := by
  refine ⟨⟨?_, ?_, ?_, ?_⟩, ?_⟩
  · exact (bounds_history _ _ _).2.1
  · exact (bounds_history _ _ _).2.2
  · decide +kernel
  · decide +kernel
  · decide +kernel

example : ancStart Fix.fixed (Book.run Fix.fixed .puso [.setitem [0] 1, .setitem [1, 2, 3] 1, .setitem [0] 0])
      ∉ convBase (Book.run Fix.fixed .puso [.setitem [0] 1, .setitem [1, 2, 3] 1, .setitem [0] 0]) := by
  decide +kernel

/-- round (fixed by 0d891c4): `H = PCBO(); H.add_constraint_le_zero(...); R = round(H)` kept the constraints and the
`__a*` terms but restarted the counter at `0`. -/
theorem round_replay : ¬ Inv (Book.run { Fix.fixed with dr := false } .pcbo
    [.cons .le [([0], 1), ([1], 1), ([2], 1), ([], -2)] 1 true none none, .round none]) :=
  fun h => absurd h.2.2.2 (by decide +kernel)

example : Inv (Book.run Fix.fixed .pcbo
    [.cons .le [([0], 1), ([1], 1), ([2], 1), ([], -2)] 1 true none none, .round none]) :=
  ⟨(inv_history _ _).2.1, (inv_history _ _).2.2.1, by decide +kernel, by decide +kernel⟩

/-- D10 (fixed by 1495eb6): `H = PCBO(); H.update(G)` for a PCBO `G` holding `__a0`, `__a1` (counter `2`) merged `G`'s
constraints and terms but left `H`'s counter at `0`. -/
theorem d10_replay : ¬ Inv (Book.run { Fix.fixed with d10 := false } .pcbo
    [.updateM .pcbo [([0], 1), ([0, ANC], 2), ([ANC + 1], 1)] [(.le, [([0], 1)])] 2]) :=
  fun h => absurd h.2.2.2 (by decide +kernel)

example : Inv (Book.run Fix.fixed .pcbo
    [.updateM .pcbo [([0], 1), ([0, ANC], 2), ([ANC + 1], 1)] [(.le, [([0], 1)])] 2]) ∧
    (Book.run Fix.fixed .pcbo
    [.updateM .pcbo [([0], 1), ([0, ANC], 2), ([ANC + 1], 1)] [(.le, [([0], 1)])] 2]).ancilla = 2 :=
  ⟨⟨(inv_history _ _).2.1, (inv_history _ _).2.2.1, by decide +kernel, by decide +kernel⟩, by decide +kernel⟩

/-- Not an edit of *the* model: the constructor of another class (`PCSO(H)`, `PUBO(H)`, `PCBO(PUBO(H))`) makes a model of
that class which keeps the `__a*` terms as ordinary labels and has no / a fresh counter — by design (`PUBO` has no
counter, `PCBO.__init__` adopts only a PCBO's).  I4 is a statement about histories that stay within one class
(`Op.UserAt`); I0–I3 (`inv_history`) hold across classes as well. -/
theorem cross_class_constructor_replay : ¬ I4 (Book.run Fix.fixed .pcbo
    [.cons .le [([0], 1), ([1], 1), ([2], 1), ([], -2)] 1 true none none, .cast .pcso]) := by
  decide +kernel

end Qv.C14
