import Qv.Proofs.DynamicsPuso
import Qv.Proofs.DynamicsReal
/-!
# C12 — Annealer dynamics are reproducible Metropolis sweeps

Only the property theorems and their non-vacuity examples.  The model is `Qv.Model.{Pcg,Kernel,AnnealFront}`
(the one C11 validates by exact replay); coefficients are exact rationals.  The acceptance test is a
**parameter** (`Src.accept`) about which only the two facts are assumed that the C expression
`dE <= 0 || (T > 0 && rand_double(rng) < exp(-dE / T))` guarantees whatever the random number is
(`Metropolis src`): `dE ≤ 0 → accepted`, and `T = 0 → dE > 0 → rejected`.  Random initial states and random
visiting orders come from the same abstract source, so every theorem holds for every random stream.

`dESpec s h adj i = -2 s_i (h_i + Σ_j J_ij s_j)`; `CacheExact h adj N st flip` says `st`, `flip` have length
`N` and `flip[i] = dESpec st h adj i` for all `i < N`; `energy model s = eval (assign s) model`.

**Partial by design**: the distributional sentence of C12 ("the distribution of final states equals the
k-step Metropolis distribution") needs an ideal uniform generator; what is logic in it is T12.4 below
(acceptance region over ℝ and the index map of `rand_int`), the rest is the χ² *test* of `harness/c12.py`.
-/
namespace Qv.C12
open Qv Qv.Kernel Qv.Anneal

variable {ρ : Type}

/-! ### T12.1 — the cached energy differences are exact (QUSO) -/

/-- `compute_flip_dE` fills `flip_spin_dE[i]` with `-2 s_i (h_i + Σ_j J_ij s_j)`. -/
theorem cache_initial (h : List Rat) (adj : List (List (Nat × Rat))) (N : Nat) (hadj : adj.length = N)
    (s : List Int) (i : Nat) (hi : i < N) :
    (computeFlipDE (qusoArgs (fun v => v) h adj) (mkIndex (adj.map List.length)) N s).getD i 0 =
      -2 * assign s i * (h.getD i 0 + ((adj.getD i []).map (fun p => p.2 * assign s p.1)).sum) := by
  rw [qusoArgs_id]
  exact computeFlipDE_exact h adj N hadj s i hi

/-- The arrays the flattening loop of `anneal_quso` builds from a canonical Matrix model store every
coupling in both adjacency lists with the same value, and no spin neighbours itself. -/
theorem flatten_symmetric (N : Nat) (model : Poly) (h : List Rat) (adj : List (List (Nat × Rat)))
    (hflat : flattenQuso N model = .ok (h, adj))
    (hk : ∀ kv ∈ model, SSorted kv.1 ∧ kv.1.length ≤ 2) : SymAdj adj ∧ adj.length = N :=
  flattenQuso_sym N model h adj hflat hk

/-- **An accepted flip keeps the cache exact**: `recompute_flip_dE(i, …)` on the old state followed by
`state[i] *= -1`. -/
theorem cache_accepted_flip (h : List Rat) (adj : List (List (Nat × Rat))) (N : Nat) (hadj : adj.length = N)
    (hsym : SymAdj adj) (st : List Int) (flip : List Rat) (hc : CacheExact h adj N st flip) (i : Nat) (hi : i < N) :
    CacheExact h adj N (flipAt st i)
      (recomputeFlipDE (qusoArgs (fun v => v) h adj) (mkIndex (adj.map List.length)) i flip st) := by
  rw [qusoArgs_id]
  exact recompute_exact h adj N hadj hsym st flip hc i hi

/-- **Induction step over the sweep**: every visit — accepted or rejected, any temperature, in-order or
random visiting, any acceptance test and random stream — keeps the cache exact. -/
theorem cache_every_visit (src : Src ρ Rat) (h : List Rat) (adj : List (List (Nat × Rat))) (N : Nat)
    (hadj : adj.length = N) (hsym : SymAdj adj) (inOrder : Bool) (T : Rat) (j : Nat)
    (s : List Int × List Rat × ρ) (hc : CacheExact h adj N s.1 s.2.1) :
    CacheExact h adj N
      (qusoStep src (qusoArgs (fun v => v) h adj) (mkIndex (adj.map List.length)) N inOrder T j s).1
      (qusoStep src (qusoArgs (fun v => v) h adj) (mkIndex (adj.map List.length)) N inOrder T j s).2.1 := by
  rw [qusoArgs_id]
  exact qusoStep_cache src h adj N hadj hsym inOrder T j s hc

/-- **The invariant over a whole anneal**: after `compute_flip_dE` and all `len(Ts) * N` visits of
`single_anneal_quso` the cache is exact for the current state (every schedule, both visiting orders). -/
theorem cache_whole_anneal (src : Src ρ Rat) (N : Nat) (model : Poly) (h : List Rat) (adj : List (List (Nat × Rat)))
    (hflat : flattenQuso N model = .ok (h, adj)) (hk : ∀ kv ∈ model, SSorted kv.1 ∧ kv.1.length ≤ 2)
    (Ts : List Rat) (inOrder : Bool) (s0 : List Int) (hs0 : s0.length = N) (rng : ρ) :
    CacheExact h adj N (qusoRun src h adj N Ts inOrder s0 rng).1 (qusoRun src h adj N Ts inOrder s0 rng).2.1 ∧
    (singleAnnealQuso src (qusoArgs (fun v => v) h adj) (mkIndex (adj.map List.length)) N Ts inOrder s0 rng).1 =
      (qusoRun src h adj N Ts inOrder s0 rng).1 := by
  obtain ⟨hsym, hadj⟩ := flattenQuso_sym N model h adj hflat hk
  refine ⟨qusoRun_cache src h adj N hadj hsym Ts inOrder s0 hs0 rng, ?_⟩
  rw [qusoArgs_id]
  rfl

/-- **The cached quantity is the model's exact energy difference**: for the canonical model the arrays were
built from, `-2 s_i (h_i + Σ_j J_ij s_j) = E(flip i s) - E(s)`, with `E` the model's value — and equally with
`E` the C function `quso_value` on the arrays. -/
theorem cache_is_energy_difference (N : Nat) (model : Poly) (h : List Rat) (adj : List (List (Nat × Rat)))
    (hflat : flattenQuso N model = .ok (h, adj)) (hd : (keys model).Nodup)
    (hk : ∀ kv ∈ model, SSorted kv.1 ∧ kv.1.length ≤ 2) (s : List Int) (i : Nat) (hi : i < s.length) :
    dESpec s h adj i = eval (assign (flipAt s i)) model - eval (assign s) model ∧
    dESpec s h adj i =
      qusoValueC (qusoArgs (fun v => v) h adj) (mkIndex (adj.map List.length)) N (flipAt s i) -
      qusoValueC (qusoArgs (fun v => v) h adj) (mkIndex (adj.map List.length)) N s := by
  have h1 := dESpec_eq_energy N model h adj hflat hd hk s i hi
  refine ⟨h1, ?_⟩
  rw [flattenQuso_value N model h adj hflat hd hk, flattenQuso_value N model h adj hflat hd hk, h1]
  ring

/-! ### T12.2 — zero temperature: no step increases the energy -/

/-- **Every visit at `T = 0`** leaves the energy unchanged or lowers it. -/
theorem zero_temperature_visit (src : Src ρ Rat) (hm : Metropolis src) (N : Nat) (model : Poly) (h : List Rat)
    (adj : List (List (Nat × Rat))) (hflat : flattenQuso N model = .ok (h, adj)) (hd : (keys model).Nodup)
    (hk : ∀ kv ∈ model, SSorted kv.1 ∧ kv.1.length ≤ 2) (inOrder : Bool) (j : Nat)
    (s : List Int × List Rat × ρ) (hc : CacheExact h adj N s.1 s.2.1) :
    eval (assign (qusoStep src (qusoArgs (fun v => v) h adj) (mkIndex (adj.map List.length)) N inOrder 0 j s).1) model
      ≤ eval (assign s.1) model := by
  rw [qusoArgs_id]
  exact (qusoStep_spec src h adj N hm (energy model) (energy_diff N model h adj hflat hd hk) inOrder 0 j s hc).le hc.1

/-- **C `anneal_quso` at zero temperature**: with a schedule of zeros (any length) and a supplied initial
state, every returned value is `≤ quso_value(initial state)` — for every model, visiting order, number of
anneals and random stream. -/
theorem zero_temperature_kernel_quso (src : Src ρ Rat) (hm : Metropolis src) (N : Nat) (model : Poly)
    (h : List Rat) (adj : List (List (Nat × Rat))) (hflat : flattenQuso N model = .ok (h, adj))
    (hd : (keys model).Nodup) (hk : ∀ kv ∈ model, SSorted kv.1 ∧ kv.1.length ≤ 2)
    (Ts : List Rat) (hT : ∀ T ∈ Ts, T = 0) (inOrder : Bool) (init : List Int) (hl : init.length = N)
    (k : Nat) (rng : ρ) :
    ∀ sv ∈ Kernel.annealQuso src (qusoArgs (fun v => v) h adj) N Ts inOrder init k rng,
      sv.2 ≤ qusoValueC (qusoArgs (fun v => v) h adj) (mkIndex (adj.map List.length)) N init :=
  annealQuso_le src hm N model h adj hflat hd hk Ts hT inOrder init hl k rng

/-- **Python `anneal_quso` at zero temperature**: every result's value is `≤` the model's value (offset
included) at the supplied initial state.  `(N, model, rev)` is what the type dispatch produced, `Ts` the
schedule, `init` the relabelled initial state handed to C; `hd`, `hk`, `h0` as in C11's `value_quso`. -/
theorem zero_temperature_quso (src : Src ρ Rat) (hm : Metropolis src) (L : Obj) (P : Params ρ Rat) (rs : List Res)
    (N : Nat) (model : Poly) (rev : List Var) (Ts : List Rat) (d : List (Var × Int)) (init : List Int)
    (h : Anneal.annealQuso (ratCfg src) L P = .ok rs) (hdisp : dispatchQuso L = .ok (N, model, rev))
    (hd : (keys model).Nodup) (hk : ∀ kv ∈ model, SSorted kv.1 ∧ kv.1.length ≤ 2)
    (h0 : N = 0 → ∀ kv ∈ model, kv.1 = [])
    (hTs : createSchedule P.schedule = .ok Ts) (hT : ∀ T ∈ Ts, T = 0)
    (hPi : P.init = some d) (hinit : relabelInit N rev (some d) = .ok init) :
    ∀ r ∈ rs, r.value ≤ eval (assign init) model := by
  unfold Anneal.annealQuso at h
  simp only [bind_ok_iff] at h
  obtain ⟨pr, hp, h⟩ := h
  rcases prep_cases _ _ _ _ hp with ⟨hle, rfl⟩ | ⟨_, Ts', N', model', rev', hTs', hd', hc⟩
  · injection h with h; subst h; intro r hr; cases hr
  · rw [hdisp] at hd'
    injection hd' with e; injection e with e1 e2; injection e2 with e2 e3
    subst e1; subst e2; subst e3
    rw [hTs] at hTs'
    injection hTs' with e4; subst e4
    rcases hc with ⟨hN, rfl⟩ | ⟨_, init', hi, rfl⟩
    · injection h with h; subst h
      intro r hr
      obtain ⟨_, h2, _⟩ := (emptyResults_spec _ _).2 r hr
      rw [h2, eval_split_offset (assign init) model hd]
      have : evalNE (assign init) model = 0 := by
        have hf : model.filter (fun kv => !kv.1.isEmpty) = [] := by
          apply List.filter_eq_nil_iff.mpr
          intro kv hkv
          simp [h0 hN kv hkv]
        simp [evalNE, hf]
      rw [this]; simp
    · rw [hPi, hinit] at hi
      injection hi with hi; subst hi
      have h' : runQuso (ratCfg src) P { N := N, model := model, rev := rev, Ts := Ts, init := init } = .ok rs := h
      exact runQuso_le src hm P { N := N, model := model, rev := rev, Ts := Ts, init := init } rs h'
        (relabelInit_some_length N rev d init hinit) hd hk hT

/-! ### T12.3 — in-order visiting at `T = 0` is the reference sweep -/

/-- **C `anneal_quso`, `in_order = 1`, schedule of zeros, supplied initial state**: every returned state is
`refRun (energy model) N (len Ts) init` — the function defined directly from exact energy differences
(`refVisit`: "visit spin `i`, flip iff `E(flip i s) - E(s) ≤ 0`"; `refSweep`: visit `0, 1, …, N-1`), iterated
`len Ts` times.  Stated with `≤` because the code (and the Metropolis rule `min(1, exp(-dE/T))`, which is 1
at `dE = 0`) also flips at `dE = 0`; see `in_order_tie_free` for the `<` reading. -/
theorem in_order_kernel_quso (src : Src ρ Rat) (hm : Metropolis src) (N : Nat) (model : Poly)
    (h : List Rat) (adj : List (List (Nat × Rat))) (hflat : flattenQuso N model = .ok (h, adj))
    (hd : (keys model).Nodup) (hk : ∀ kv ∈ model, SSorted kv.1 ∧ kv.1.length ≤ 2)
    (Ts : List Rat) (hT : ∀ T ∈ Ts, T = 0) (init : List Int) (hl : init.length = N) (k : Nat) (rng : ρ) :
    ∀ sv ∈ Kernel.annealQuso src (qusoArgs (fun v => v) h adj) N Ts true init k rng,
      sv.1 = refRun (energy model) N Ts.length init :=
  annealQuso_ref src hm N model h adj hflat hd hk Ts hT init hl k rng

/-- **Python `anneal_quso`, `in_order=True`, schedule of zeros**: every result's state is the relabelled
iterated reference sweep of the supplied initial state (`N ≠ 0`; for a `QUSOMatrix`, `rev` is the identity
labelling `0..N-1`, so the sweep is in label order). -/
theorem in_order_quso (src : Src ρ Rat) (hm : Metropolis src) (L : Obj) (P : Params ρ Rat) (rs : List Res)
    (N : Nat) (model : Poly) (rev : List Var) (Ts : List Rat) (d : List (Var × Int)) (init : List Int)
    (h : Anneal.annealQuso (ratCfg src) L P = .ok rs) (hdisp : dispatchQuso L = .ok (N, model, rev))
    (hd : (keys model).Nodup) (hk : ∀ kv ∈ model, SSorted kv.1 ∧ kv.1.length ≤ 2) (hN : N ≠ 0)
    (hTs : createSchedule P.schedule = .ok Ts) (hT : ∀ T ∈ Ts, T = 0) (hio : P.inOrder = true)
    (hPi : P.init = some d) (hinit : relabelInit N rev (some d) = .ok init) :
    ∀ r ∈ rs, r.state = relabelState rev (refRun (energy model) N Ts.length init) := by
  unfold Anneal.annealQuso at h
  simp only [bind_ok_iff] at h
  obtain ⟨pr, hp, h⟩ := h
  rcases prep_cases _ _ _ _ hp with ⟨hle, rfl⟩ | ⟨_, Ts', N', model', rev', hTs', hd', hc⟩
  · injection h with h; subst h; intro r hr; cases hr
  · rw [hdisp] at hd'
    injection hd' with e; injection e with e1 e2; injection e2 with e2 e3
    subst e1; subst e2; subst e3
    rw [hTs] at hTs'
    injection hTs' with e4; subst e4
    rcases hc with ⟨hN', _⟩ | ⟨_, init', hi, rfl⟩
    · exact absurd hN' hN
    · rw [hPi, hinit] at hi
      injection hi with hi; subst hi
      have h' : runQuso (ratCfg src) P { N := N, model := model, rev := rev, Ts := Ts, init := init } = .ok rs := h
      exact runQuso_ref src hm P { N := N, model := model, rev := rev, Ts := Ts, init := init } rs h'
        (relabelInit_some_length N rev d init hinit) hd hk hT hio

/-- **Tie-free models**: if no single-spin flip of a spin state leaves the energy unchanged (e.g. coefficients
distinct powers of two, no isolated variable), the reference sweep with "flip whenever the exact energy change
is negative" (`<`, the wording of the property) gives the same final state as the `≤` sweep the code
performs. -/
theorem in_order_tie_free (E : List Int → Rat) (N : Nat) (htf : TieFree E N) (k : Nat) (s : List Int)
    (hs : GoodState N s) : refRun E N k s = refRunLt E N k s :=
  refRun_eq_lt htf k s hs


/-! ### T12.1 (PUSO) — `-2 * puso_subgraph_value` is the exact energy difference -/

/-- On the arrays `num_couplings, terms, couplings, index, subgraphs` that `anneal_puso` builds from a model
whose keys are duplicate-free with labels below `N`: `dE = -2 * puso_subgraph_value(state, i)` equals
`E(flip i s) - E(s)` — all terms containing `i` change sign, the others do not. -/
theorem puso_dE_is_energy_difference (model : Poly) (N : Nat) (hnd : ∀ kv ∈ model, kv.1.Nodup)
    (hlt : ∀ kv ∈ model, ∀ a ∈ kv.1, a < N) (s : List Int) (hs : s.length = N) (i : Nat) (hi : i < N) :
    ofInt (-2) * pusoSubgraphValue (flattenPuso (fun v => v) model) (mkIndex (flattenPuso (fun v => v) model).nc)
        (mkSubgraphs (flattenPuso (fun v => v) model) (mkIndex (flattenPuso (fun v => v) model).nc) N) s i =
      eval (assign (flipAt s i)) model - eval (assign s) model :=
  puso_dE_eq_energy model N hnd hlt s hs i hi

/-- the general fact behind it: flipping one spin of a multilinear polynomial negates exactly the terms
containing it -/
theorem flip_changes_touching_terms (model : Poly) (hnd : ∀ kv ∈ model, kv.1.Nodup) (s : List Int) (i : Nat)
    (hi : i < s.length) :
    eval (assign (flipAt s i)) model = eval (assign s) model - 2 * eval (assign s) (touching i model) :=
  eval_flip (assign s) (assign (flipAt s i)) i (fun x hx => assign_flipAt_ne s i hi x hx)
    (assign_flipAt_self s i hi) model hnd

/-! ### T12.2 / T12.3 for the PUSO kernel -/

/-- **C `anneal_puso` at zero temperature**: every returned value is `≤ puso_value(initial state)`. -/
theorem zero_temperature_kernel_puso (src : Src ρ Rat) (hm : Metropolis src) (N : Nat) (model : Poly)
    (hd : (keys model).Nodup) (hnd : ∀ kv ∈ model, kv.1.Nodup) (hlt : ∀ kv ∈ model, ∀ a ∈ kv.1, a < N)
    (Ts : List Rat) (hT : ∀ T ∈ Ts, T = 0) (inOrder : Bool) (init : List Int) (hl : init.length = N)
    (k : Nat) (rng : ρ) :
    ∀ sv ∈ Kernel.annealPuso src (flattenPuso (fun v => v) model) N Ts inOrder init k rng,
      sv.2 ≤ pusoValueC (flattenPuso (fun v => v) model) init :=
  annealPuso_le src hm N model hd hnd hlt Ts hT inOrder init hl k rng

/-- **C `anneal_puso`, in order, schedule of zeros**: every returned state is the iterated reference sweep. -/
theorem in_order_kernel_puso (src : Src ρ Rat) (hm : Metropolis src) (N : Nat) (model : Poly)
    (hnd : ∀ kv ∈ model, kv.1.Nodup) (hlt : ∀ kv ∈ model, ∀ a ∈ kv.1, a < N)
    (Ts : List Rat) (hT : ∀ T ∈ Ts, T = 0) (init : List Int) (hl : init.length = N) (k : Nat) (rng : ρ) :
    ∀ sv ∈ Kernel.annealPuso src (flattenPuso (fun v => v) model) N Ts true init k rng,
      sv.1 = refRun (energy model) N Ts.length init :=
  annealPuso_ref src hm N model hnd hlt Ts hT init hl k rng

/-- **Python `anneal_puso` at zero temperature**: value `≤` the model's value at the supplied initial state; and
with `in_order=True` (and `N ≠ 0`) the state is the relabelled iterated reference sweep.  `hnd`: the keys of the
dispatched model are duplicate-free (what `squash_key` produces: C05's canonical form). -/
theorem zero_temperature_puso (src : Src ρ Rat) (hm : Metropolis src) (H : Obj) (P : Params ρ Rat) (rs : List Res)
    (N : Nat) (model : Poly) (rev : List Var) (Ts : List Rat) (d : List (Var × Int)) (init : List Int)
    (h : Anneal.annealPuso (ratCfg src) H P = .ok rs) (hdisp : dispatchPuso H = .ok (N, model, rev))
    (hd : (keys model).Nodup) (hnd : ∀ kv ∈ model, kv.1.Nodup) (h0 : N = 0 → ∀ kv ∈ model, kv.1 = [])
    (hTs : createSchedule P.schedule = .ok Ts) (hT : ∀ T ∈ Ts, T = 0)
    (hPi : P.init = some d) (hinit : relabelInit N rev (some d) = .ok init) :
    (∀ r ∈ rs, r.value ≤ eval (assign init) model) ∧
    (N ≠ 0 → P.inOrder = true →
      ∀ r ∈ rs, r.state = relabelState rev (refRun (energy model) N Ts.length init)) := by
  unfold Anneal.annealPuso at h
  simp only [bind_ok_iff] at h
  obtain ⟨pr, hp, h⟩ := h
  rcases prep_cases _ _ _ _ hp with ⟨hle, rfl⟩ | ⟨_, Ts', N', model', rev', hTs', hd', hc⟩
  · injection h with h; subst h
    exact ⟨fun r hr => (by cases hr), fun _ _ r hr => (by cases hr)⟩
  · rw [hdisp] at hd'
    injection hd' with e; injection e with e1 e2; injection e2 with e2 e3
    subst e1; subst e2; subst e3
    rw [hTs] at hTs'
    injection hTs' with e4; subst e4
    rcases hc with ⟨hN, rfl⟩ | ⟨_, init', hi, rfl⟩
    · injection h with h; subst h
      refine ⟨?_, fun hN' => absurd hN hN'⟩
      intro r hr
      obtain ⟨_, h2, _⟩ := (emptyResults_spec _ _).2 r hr
      rw [h2, eval_split_offset (assign init) model hd]
      have : evalNE (assign init) model = 0 := by
        have hf : model.filter (fun kv => !kv.1.isEmpty) = [] := by
          apply List.filter_eq_nil_iff.mpr
          intro kv hkv
          simp [h0 hN kv hkv]
        simp [evalNE, hf]
      rw [this]; simp
    · rw [hPi, hinit] at hi
      injection hi with hi; subst hi
      have h' : runPuso (ratCfg src) P { N := N, model := model, rev := rev, Ts := Ts, init := init } = .ok rs := h
      have hl := relabelInit_some_length N rev d init hinit
      exact ⟨runPuso_le src hm P { N := N, model := model, rev := rev, Ts := Ts, init := init } rs h' hl hd hnd hT,
        fun _ hio => runPuso_ref src hm P { N := N, model := model, rev := rev, Ts := Ts, init := init } rs h' hl
          hnd hT hio⟩


/-! ### T12.4 — the Metropolis acceptance region (over ℝ) and the index map of `rand_int` -/

/-- The C expression, read with exact rational arithmetic and an arbitrary stand-in `ex` for `exp` and an
arbitrary stream `u` for `rand_double`, satisfies the two facts `Metropolis` assumes — so every theorem above
applies to it (this is the shape of `metropolisFloat`, the acceptance test the driver replays). -/
theorem c_expression_is_metropolis (coin : ρ → ρ × Bool) (index : ρ → Nat → ρ × Nat) (u : ρ → ρ × Rat)
    (ex : Rat → Rat) :
    Metropolis (Src.mk coin index (fun (dE T : Rat) (r : ρ) => if dE ≤ 0 then (r, true)
        else if 0 < T then ((u r).1, decide ((u r).2 < ex (-dE / T))) else (r, false))) := by
  constructor
  · intro dE T r h; simp [h]
  · intro dE T r hT h
    have h1 : ¬ dE ≤ 0 := not_le.mpr h
    have h2 : ¬ (0 : Rat) < T := by rw [hT]; exact lt_irrefl 0
    simp [h1, h2]

/-- **For `T > 0` the C acceptance test is the Metropolis rule**: a number `u ∈ [0,1)` makes
`dE <= 0 || (T > 0 && u < exp(-dE / T))` true iff `u < min(1, exp(-dE/T))`. -/
theorem metropolis_acceptance_iff (dE T u : ℝ) (hT : 0 < T) :
    (0 ≤ u ∧ u < 1 ∧ (dE ≤ 0 ∨ (0 < T ∧ u < Real.exp (-dE / T)))) ↔
      (0 ≤ u ∧ u < min 1 (Real.exp (-dE / T))) :=
  accept_iff dE T u hT

/-- as sets: `{u ∈ [0,1) | accepted} = [0, min 1 (exp(-dE/T)))` -/
theorem metropolis_acceptance_region (dE T : ℝ) (hT : 0 < T) :
    acceptRegion dE T = Set.Ico 0 (min 1 (Real.exp (-dE / T))) :=
  acceptRegion_eq dE T hT

/-- hence a uniform `u` on `[0,1)` accepts with probability `min(1, exp(-dE/T))` (Lebesgue measure of the region) -/
theorem metropolis_acceptance_probability (dE T : ℝ) (hT : 0 < T) :
    MeasureTheory.volume (acceptRegion dE T) = ENNReal.ofReal (min 1 (Real.exp (-dE / T))) :=
  acceptRegion_volume dE T hT

/-- at `T = 0` the region is all of `[0,1)` for `dE ≤ 0` and empty for `dE > 0` -/
theorem zero_temperature_acceptance_region (dE : ℝ) :
    acceptRegion dE 0 = if dE ≤ 0 then Set.Ico 0 1 else ∅ :=
  acceptRegion_zero dE

/-- **`rand_int`'s rejection rule** (`pcg32_boundedrand_r`): one round of the loop draws a 32-bit `x`, returns
`x % bound` if `x ≥ threshold` and retries otherwise, with `threshold = -bound % bound` in 32-bit arithmetic,
which is `2^32 mod bound`; comparisons and `%` on `uint32_t` are those of the natural numbers. -/
theorem rand_int_rule (r : Rng) (bound : UInt32) (fuel : Nat) (hb : bound ≠ 0) :
    Rng.bounded r bound (fuel + 1) =
      (if r.next.2 ≥ (0 - bound) % bound then (r.next.1, r.next.2 % bound) else Rng.bounded r.next.1 bound fuel) ∧
    ((0 - bound) % bound).toNat = 2 ^ 32 % bound.toNat ∧
    (∀ x : UInt32, (x ≥ (0 - bound) % bound ↔ ((0 - bound) % bound).toNat ≤ x.toNat) ∧
      (x % bound).toNat = x.toNat % bound.toNat) :=
  ⟨rfl, threshold_toNat bound hb, fun x => ⟨UInt32.le_iff_toNat_le, UInt32.toNat_mod x bound⟩⟩

/-- **The accepted 32-bit range is mapped uniformly onto `0..bound-1`**: among the values
`threshold ≤ x < 2^32` every residue `v < bound` has exactly `2^32 / bound` preimages under `x ↦ x % bound`
(the same number for every `v`), so a uniform 32-bit draw conditioned on acceptance gives a uniform index. -/
theorem rand_int_uniform (bound : UInt32) (hb : bound ≠ 0) (v : Nat) (hv : v < bound.toNat) :
    ((Finset.range (2 ^ 32)).filter
      (fun x => ((0 - bound) % bound).toNat ≤ x ∧ x % bound.toNat = v)).card = 2 ^ 32 / bound.toNat := by
  rw [threshold_toNat bound hb]
  exact count_accept (2 ^ 32) bound.toNat v (by omega) hv

/-! ### T12.5 — reproducibility -/

/-- **The result is a function of `(inputs, seed)`**: in the model nothing but the model object, the
parameters and the generator state after `rand_init(seed)` enters (no clock, no global, for `seed ≥ 0`).
This is trivially true of a pure function; its *content for the code* is the correspondence of
`harness/c12.py`: (a) the real states equal the model's for fixed seeds, (b) repeated and interleaved real calls
return identical results. -/
theorem reproducible {α : Type} [Add α] [Mul α] [OfInt α] (cfg : Cfg Rng α) (L L' : Obj)
    (na na' : Int) (sched sched' : Schedule α) (init init' : Option (List (Var × Int))) (io io' : Bool)
    (seed seed' : Nat)
    (hL : L = L') (hna : na = na') (hs : sched = sched') (hi : init = init') (hio : io = io') (hseed : seed = seed') :
    Anneal.annealQuso cfg L { numAnneals := na, schedule := sched, init := init, inOrder := io, rng := Rng.init seed } =
      Anneal.annealQuso cfg L' { numAnneals := na', schedule := sched', init := init', inOrder := io', rng := Rng.init seed' } ∧
    Anneal.annealPuso cfg L { numAnneals := na, schedule := sched, init := init, inOrder := io, rng := Rng.init seed } =
      Anneal.annealPuso cfg L' { numAnneals := na', schedule := sched', init := init', inOrder := io', rng := Rng.init seed' } ∧
    Anneal.annealQubo cfg L { numAnneals := na, schedule := sched, init := init, inOrder := io, rng := Rng.init seed } =
      Anneal.annealQubo cfg L' { numAnneals := na', schedule := sched', init := init', inOrder := io', rng := Rng.init seed' } ∧
    Anneal.annealPubo cfg L { numAnneals := na, schedule := sched, init := init, inOrder := io, rng := Rng.init seed } =
      Anneal.annealPubo cfg L' { numAnneals := na', schedule := sched', init := init', inOrder := io', rng := Rng.init seed' } := by
  subst hL; subst hna; subst hs; subst hi; subst hio; subst hseed
  exact ⟨rfl, rfl, rfl, rfl⟩

/-! ### Non-vacuity: concrete instances of the hypotheses -/

/-- the deterministic example source of C11 accepts every downhill move and rejects every uphill move at
`T = 0` -/
example : Metropolis Ex.src :=
  ⟨fun dE T r h => by simp [Ex.src, h], fun dE T r hT h => by
    have h1 : ¬ dE ≤ 0 := not_le.mpr h
    have h2 : ¬ T > 0 := by rw [hT]; exact lt_irrefl 0
    simp [Ex.src, h1, h2]⟩

/-- the arrays of `QUSOMatrix({(0,1): 1, (1,): -1/2, (): 3, (0,2): -2})` -/
example : (flattenQuso 3 Ex.L.terms).toOption =
    some ([0, -1/2, 0], [[(1, 1), (2, -2)], [(0, 1)], [(0, -2)]]) := by decide +kernel
example : (keys Ex.L.terms).Nodup := by decide
example : ∀ kv ∈ Ex.L.terms, SSorted kv.1 ∧ kv.1.length ≤ 2 := by
  intro kv hkv
  simp only [Ex.L, List.mem_cons, List.mem_nil_iff, or_false] at hkv
  rcases hkv with rfl | rfl | rfl | rfl <;> simp [SSorted]

/-- the cache of that model at `s = [1, -1, 1]` : `compute_flip_dE`, then an accepted flip of spin 0 -/
example : computeFlipDE (qusoArgs (fun v => v) [0, -1/2, 0] [[(1, 1), (2, -2)], [(0, 1)], [(0, -2)]])
    (mkIndex [2, 1, 1]) 3 [1, -1, 1] = [6, 1, 4] := by decide +kernel
example : recomputeFlipDE (qusoArgs (fun v => v) [0, -1/2, 0] [[(1, 1), (2, -2)], [(0, 1)], [(0, -2)]])
    (mkIndex [2, 1, 1]) 0 [6, 1, 4] [1, -1, 1] =
    computeFlipDE (qusoArgs (fun v => v) [0, -1/2, 0] [[(1, 1), (2, -2)], [(0, 1)], [(0, -2)]])
      (mkIndex [2, 1, 1]) 3 [-1, -1, 1] := by decide +kernel

/-- `anneal_quso(L, num_anneals=2, schedule=[0, 0], initial_state={0: 1, 1: 1, 2: -1}, in_order=True)` in the
model: the dispatch, the schedule, the relabelled initial state, and the two (identical) results, whose
value `-1/2 ≤ 7/2 = L(initial state)` -/
example : (dispatchQuso Ex.L).toOption = some (3, Ex.L.terms, [0, 1, 2]) := by decide +kernel
example : (relabelInit 3 [0, 1, 2] (some [(0, 1), (1, 1), (2, -1)])).toOption = some [1, 1, -1] := by decide +kernel
example : (Anneal.annealQuso (ratCfg Ex.src) Ex.L
    { numAnneals := 2, schedule := .explicit [0, 0], init := some [(0, 1), (1, 1), (2, -1)], inOrder := true,
      rng := 0 }).toOption.map (fun rs => rs.map (fun r => (r.state, r.value))) =
    some [([(0, -1), (1, 1), (2, -1)], -1/2), ([(0, -1), (1, 1), (2, -1)], -1/2)] := by decide +kernel
example : eval (assign [1, 1, -1]) Ex.L.terms = 11/2 := by decide +kernel
example : refRun (energy Ex.L.terms) 3 2 [1, 1, -1] = [-1, 1, -1] := by decide +kernel

/-- a tie-free model: `z0 z1 + 2 z0 + 4 z1` (distinct powers of two, no isolated variable) -/
example : TieFree (energy [([0, 1], 1), ([0], 2), ([1], 4)]) 2 := by
  intro s hs i hi
  obtain ⟨hl, hsp⟩ := hs
  match s, hl with
  | [a, b], _ =>
    have ha := hsp a (by simp)
    have hb := hsp b (by simp)
    have hi' : i = 0 ∨ i = 1 := by omega
    rcases ha with rfl | rfl <;> rcases hb with rfl | rfl <;> rcases hi' with rfl | rfl <;> decide +kernel

/-- a cubic model for the PUSO kernel: `PUSOMatrix({(0,1,2): 1, (1,): -1/2, (): 3})`, labels below 3, keys
duplicate-free; `-2 * puso_subgraph_value` at `s = [1, -1, 1]`, spin 1, is `E(flip) - E = 7/2 - 5/2` -/
example : ∀ kv ∈ Ex.H.terms, kv.1.Nodup ∧ ∀ a ∈ kv.1, a < 3 := by decide
example : ofInt (-2) * pusoSubgraphValue (flattenPuso (fun v => v) Ex.H.terms)
      (mkIndex (flattenPuso (fun v => v) Ex.H.terms).nc)
      (mkSubgraphs (flattenPuso (fun v => v) Ex.H.terms) (mkIndex (flattenPuso (fun v => v) Ex.H.terms).nc) 3)
      [1, -1, 1] 1 = (1 : Rat) := by decide +kernel
example : eval (assign [1, 1, 1]) Ex.H.terms - eval (assign [1, -1, 1]) Ex.H.terms = 1 := by decide +kernel
example : (Anneal.annealPuso (ratCfg Ex.src) Ex.H
    { numAnneals := 1, schedule := .explicit [0, 0, 0], init := some [(0, 1), (1, 1), (2, 1)], inOrder := true,
      rng := 0 }).toOption.map (fun rs => rs.map (fun r => (r.state, r.value))) =
    some [([(0, -1), (1, 1), (2, 1)], 3/2)] := by decide +kernel
example : refRun (energy Ex.H.terms) 3 3 [1, 1, 1] = [-1, 1, 1] := by decide +kernel

/-- `rand_int(rng, 3)`: threshold `2^32 mod 3 = 1`, and `T = 1/2`, `dE = 1`: the hypotheses of T12.4 -/
example : ((0 - (3 : UInt32)) % 3).toNat = 1 := by decide
example : (0 : ℝ) < 1 / 2 := by norm_num

end Qv.C12
