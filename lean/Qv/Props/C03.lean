import Qv.Props.C02
import Qv.Proofs.PcsoHist
import Qv.Proofs.PcsoExample
/-!
# C03 — PCSO comparison constraints become exact non-negative penalties on spins

Only the property theorems and their non-vacuity examples live here; the lemmas are in
`Qv/Proofs/Pcso{Labels,Transfer,Premises,Hist}.lean` (namespace `Qv.Pcso`).  The model is `Qv.Model.Pcso`
(`Pcso.addConstraint`: `H = PUSO(H)`, record, helper PCBO seeded with the ancilla counter, `puso_to_pubo`, the PCBO
constraint of `Qv.Model.Pcbo`, counter copied back, `self += pubo_to_puso(h)`); its tie to `qubovert/_pcso.py` is the
correspondence check `harness/c03.py`.

Shape of the result.  The PCSO call is the PCBO call seen through the two basis changes, so T3.1/T3.2 are proved as
a **transfer principle**: `BoolPenaltyOK` — the conclusions T2.1/T2.2 of C02 for the one boolean call the PCSO makes —
implies the same conclusions on spins (`penalty_transfer`), and the premises of C03 on `H` give the premises of C02
on the boolean image (`premises_carry_over`); `spin_penalty_of_pcbo_theorem` composes the two with C02's theorem as
a hypothesis.  For the relation `eq` the boolean fact is L6.0 (`Qv.C06.eq_zero_correct`), so
`add_constraint_eq_zero_spec` is unconditional.  T3.3 (counter, labels), T3.4 (validity) and T3.5 (histories) are
proved from the model outright, for all six relations.

Vocabulary: `addedS s s' z = ⟦s'.terms⟧z - ⟦s.terms⟧z` (the function the call added); `InAnc a a' i` (`i = ANC + k`,
`a ≤ k < a'`: an ancilla drawn between the counters `a` and `a'`); `AgreeOff a a' w z` (`w` and `z` differ only on
those ancillas); `warnsUnsat` (the call's "Constraint cannot be satisfied" warning); `PenaltyOK` is read by
`penaltyOK_iff`.
-/
namespace Qv.C03
open Qv Qv.Logic Qv.Pcso

/-- the reading of `PenaltyOK Dom holds F a a' lam unsat` (T2.1/T2.2 for `Dom = IsBool`, T3.1/T3.2 for
`Dom = IsSpin`): `F ≥ 0` on the domain; unless `unsat`: where the relation holds some assignment differing only on
the ancillas `ANC+a … ANC+a'-1` makes `F = 0`, and where it does not every such assignment has `F ≥ lam`. -/
theorem penaltyOK_iff (Dom : (Var → Rat) → Prop) (holds : (Var → Rat) → Bool) (F : (Var → Rat) → Rat)
    (a a' : Nat) (lam : Rat) (unsat : Prop) :
    PenaltyOK Dom holds F a a' lam unsat ↔
      ((∀ x, Dom x → 0 ≤ F x) ∧
       (¬ unsat → ∀ x, Dom x → holds x = true → ∃ y, Dom y ∧ (∀ i, ¬ InAnc a a' i → y i = x i) ∧ F y = 0) ∧
       (¬ unsat → ∀ x, Dom x → holds x = false → ∀ y, Dom y → (∀ i, ¬ InAnc a a' i → y i = x i) → lam ≤ F y)) :=
  ⟨fun h => ⟨h.nonneg, h.zero, h.pen⟩, fun h => ⟨h.1, h.2.1, h.2.2⟩⟩

/-- the six `PCSO.add_constraint_R_zero` never raise (any `H`, raw keys included, any `lam`, bounds, flags) -/
theorem add_constraint_total (r : Rel) (s : PSt) (H : Poly) (lam : Rat) (lt : Bool) (b : Option Rat × Option Rat)
    (sup : Bool) : ∃ s', Pcso.addConstraint r s H lam lt b sup = .ok s' :=
  addConstraint_total r s H lam lt b sup

example : ∃ s', Pcso.addConstraint .le {} [([0], 1), ([1, 0, 0], 1), ([0, 1], -2)] 1 true (none, none) false = .ok s'
    ∧ s'.anc = 4 ∧ s'.terms.length = 26 := by
  obtain ⟨s', h⟩ := add_constraint_total .le {} [([0], 1), ([1, 0, 0], 1), ([0, 1], -2)] 1 true (none, none) false
  refine ⟨s', h, ?_, ?_⟩
  · have : (Pcso.addConstraint .le {} [([0], 1), ([1, 0, 0], 1), ([0, 1], -2)] 1 true (none, none) false).toOption.map
      (·.anc) = some 4 := by decide +kernel
    rw [h] at this; simpa [Except.toOption] using this
  · have : (Pcso.addConstraint .le {} [([0], 1), ([1, 0, 0], 1), ([0, 1], -2)] 1 true (none, none) false).toOption.map
      (·.terms.length) = some 26 := by decide +kernel
    rw [h] at this; simpa [Except.toOption] using this

/-! ## T3.1 / T3.2 — the transfer principle -/

/-- **T3.1/T3.2 (transfer).**  A successful PCSO call with `lam ≠ 0` is made of `H' = PUSO(H)`, its boolean image
`P` and the helper call; if the helper's boolean call satisfies C02's conclusions T2.1/T2.2 (`BoolPenaltyOK`) then
the function added to the PCSO satisfies them on spins: `≥ 0` at every spin assignment of variables and ancillas;
where `H(z) R 0` some setting of the fresh ancilla spins gives `0`; elsewhere every setting gives `≥ lam` (the last
two unless the library warns "cannot be satisfied"). -/
theorem penalty_transfer (r : Rel) (s s' : PSt) (H : Poly) (lam : Rat) (lt : Bool) (b : Option Rat × Option Rat)
    (sup : Bool) (hl : lam ≠ 0) (h : Pcso.addConstraint r s H lam lt b sup = .ok s') :
    ∃ H' P, spinCopy H = .ok H' ∧ boolImage H' = .ok P ∧
      (BoolPenaltyOK r (emptyPcbo s) P lam lt b sup →
        PenaltyOK IsSpin (fun z => r.holds (eval z H)) (addedS s s') s.anc s'.anc lam (warnsUnsat r s H lam lt b)) := by
  obtain ⟨H', P, h1, h2, h3⟩ := addConstraint_ok hl h
  exact ⟨H', P, h1, h2, transfer hl h1 h2 h3⟩

/-- non-vacuity of the hypothesis `BoolPenaltyOK` for a call that draws an ancilla: `z0 ≤ 0` on a fresh PCSO
(`P = 1 - 2 x0`, one slack ancilla, helper terms `1 + 3a - 4 x0 a`; `Qv/Proofs/PcsoExample.lean`), hence T3.1/T3.2
for that call: `F(z0, a) = 3/2 + z0 - a/2 - z0 a ≥ 0`, `= 0` at `z0 = -1, a = -1`, `≥ 1` when `z0 = 1`. -/
example : ∀ s', Pcso.addConstraint .le {} [([0], 1)] 1 true (none, none) false = .ok s' →
    PenaltyOK IsSpin (fun z => Rel.le.holds (eval z [([0], 1)])) (addedS {} s') 0 s'.anc 1
      (warnsUnsat .le {} [([0], 1)] 1 true (none, none)) := by
  intro s' h
  obtain ⟨H', P, h1, h2, ht⟩ := penalty_transfer .le {} s' [([0], 1)] 1 true (none, none) false (by norm_num) h
  have e1 : H' = exH := by
    have := ex_spinCopy; unfold exH at this; rw [this] at h1; injection h1 with h1; exact h1.symm
  subst e1
  have e2 : P = exP := by rw [ex_boolImage] at h2; injection h2 with h2; exact h2.symm
  subst e2
  exact ht ex_boolPenaltyOK

/-- the boolean image the helper receives has, at every boolean `x`, the value of `H` at the spins `1 - 2x`
(T4.2 + `PUSO(H)` / `PUBO(P)` copies) -/
theorem bool_image_value (H H' P : Poly) (h1 : spinCopy H = .ok H') (h2 : boolImage H' = .ok P) (x : Var → Rat)
    (hx : IsBool x) : eval x P = eval (b2s x) H := by
  rw [boolImage_eval h2 hx, spinCopy_eval h1 (isSpin_b2s hx)]

/-- **premises carry over.**  `lam > 0`, `H` integer-valued on spins, the given bounds valid for the range of `H`,
user labels only ⟹ the boolean image is a canonical PUBO, integer-valued on booleans, the same bounds are valid for
it, user labels only (the premises of C02's theorems). -/
theorem premises_carry_over (H H' P : Poly) (lam : Rat) (b : Option Rat × Option Rat) (hp : SpinPremises H lam b)
    (h1 : spinCopy H = .ok H') (h2 : boolImage H' = .ok P) : BoolPremises P lam b :=
  premises_transfer hp h1 h2

/-- the reading of `SpinPremises` -/
theorem spinPremises_iff (H : Poly) (lam : Rat) (b : Option Rat × Option Rat) :
    SpinPremises H lam b ↔
      (0 < lam ∧ (∀ z, IsSpin z → ∃ n : Int, eval z H = n) ∧ (∀ l, b.1 = some l → ∀ z, IsSpin z → l ≤ eval z H) ∧
        (∀ u, b.2 = some u → ∀ z, IsSpin z → eval z H ≤ u) ∧ ∀ kv ∈ H, ∀ i ∈ kv.1, i < ANC) :=
  ⟨fun h => ⟨h.lam_pos, h.int, h.lo, h.hi, h.user⟩, fun h => ⟨h.1, h.2.1, h.2.2.1, h.2.2.2.1, h.2.2.2.2⟩⟩

/-- **T3.1/T3.2 from C02's theorem.**  If T2.1/T2.2 hold for every boolean call on a PCBO state whose labels are
covered by its counter (this is C02's theorem, taken as the hypothesis `hC02`), then for every PCSO state, relation,
`log_trick`, bounds mode and `H` satisfying C03's premises the PCSO call satisfies T3.1/T3.2. -/
theorem spin_penalty_of_pcbo_theorem
    (hC02 : ∀ (r : Rel) (s0 : St) (P : Poly) (lam : Rat) (lt : Bool) (b : Option Rat × Option Rat) (sup : Bool),
      BoolPremises P lam b → VarsIn (fun i => i < ANC + s0.anc) s0.terms → BoolPenaltyOK r s0 P lam lt b sup)
    (r : Rel) (s s' : PSt) (H : Poly) (lam : Rat) (lt : Bool) (b : Option Rat × Option Rat) (sup : Bool)
    (hp : SpinPremises H lam b) (h : Pcso.addConstraint r s H lam lt b sup = .ok s') :
    PenaltyOK IsSpin (fun z => r.holds (eval z H)) (addedS s s') s.anc s'.anc lam (warnsUnsat r s H lam lt b) := by
  obtain ⟨H', P, h1, h2, h3⟩ := addConstraint_ok (ne_of_gt hp.lam_pos) h
  exact transfer (ne_of_gt hp.lam_pos) h1 h2 h3
    (hC02 r (emptyPcbo s) P lam lt b sup (premises_transfer hp h1 h2) varsIn_nil)

/-! ## `add_constraint_eq_zero` on a PCSO, end to end -/

/-- **T3.1/T3.2 for `eq`, unconditional.**  `lam > 0`, `H` integer-valued on spins, given bounds valid (omitted ones
are computed from the boolean image), any PCSO state: the added function is `≥ 0`, vanishes exactly at the spin
assignments with `H(z) = 0`, is `≥ lam` at all others, and no ancilla is drawn — whichever of the shortcut and the six
bounds branches the helper takes, warned or not. -/
theorem add_constraint_eq_zero_spec (s s' : PSt) (H : Poly) (lam : Rat) (lt : Bool) (b : Option Rat × Option Rat)
    (sup : Bool) (hp : SpinPremises H lam b) (h : Pcso.addConstraint .eq s H lam lt b sup = .ok s') :
    s'.anc = s.anc ∧ ∀ z, IsSpin z →
      0 ≤ addedS s s' z ∧ (addedS s s' z = 0 ↔ eval z H = 0) ∧ (eval z H ≠ 0 → lam ≤ addedS s s' z) := by
  obtain ⟨H', P, h1, h2, h3⟩ := addConstraint_ok (ne_of_gt hp.lam_pos) h
  have bp := premises_transfer hp h1 h2
  have hanc : s'.anc = s.anc := by
    rw [absorb_anc h3]; exact addEqZero_anc (emptyPcbo s) P lam b sup
  have ok := transfer_gen (UB := False) (US := False) id h1 h2 h3
    (penaltyOK_eq (s0 := emptyPcbo s) (lt := lt) (sup := sup) bp.lam_pos bp.canon.nonzero bp.int
      (fun x hx => bp.bounds hx) False)
  rw [hanc] at ok
  refine ⟨hanc, fun z hz => ?_⟩
  have hpen : eval z H ≠ 0 → lam ≤ addedS s s' z := fun hne =>
    ok.pen not_false z hz (by simpa [Rel.holds] using hne) z hz (fun _ _ => rfl)
  refine ⟨ok.nonneg z hz, ⟨fun h0 => ?_, fun h0 => ?_⟩, hpen⟩
  · by_contra hne
    have := hpen hne
    rw [h0] at this
    exact absurd hp.lam_pos (not_lt.2 this)
  · obtain ⟨w, _, hag, hw⟩ := ok.zero not_false z hz (by simpa [Rel.holds] using h0)
    rwa [agreeOff_empty hag] at hw

/-- the same in the vocabulary of the other relations: `BoolPenaltyOK` holds for the helper's `eq` call, so
`penalty_transfer` applies -/
theorem eq_zero_penaltyOK (s s' : PSt) (H : Poly) (lam : Rat) (lt : Bool) (b : Option Rat × Option Rat)
    (sup : Bool) (hp : SpinPremises H lam b) (h : Pcso.addConstraint .eq s H lam lt b sup = .ok s') :
    PenaltyOK IsSpin (fun z => Rel.eq.holds (eval z H)) (addedS s s') s.anc s'.anc lam
      (warnsUnsat .eq s H lam lt b) := by
  obtain ⟨H', P, h1, h2, h3⟩ := addConstraint_ok (ne_of_gt hp.lam_pos) h
  have bp := premises_transfer hp h1 h2
  exact transfer (ne_of_gt hp.lam_pos) h1 h2 h3
    (boolPenaltyOK_eq bp.lam_pos bp.canon.nonzero bp.int (fun x hx => bp.bounds hx))

/-- non-vacuity: `H = z0 + z1` satisfies the premises (integer-valued on spins, bounds `(-2, None)` valid) -/
example : SpinPremises [([0], 1), ([1], 1)] 2 (some (-2), none) := by
  refine ⟨by norm_num, fun z hz => ?_, fun l hl z hz => ?_, fun u hu => by simp at hu, ?_⟩
  · rcases hz 0 with h0 | h0 <;> rcases hz 1 with h1 | h1 <;> simp only [eval, mon, h0, h1]
    · exact ⟨2, by norm_num⟩
    · exact ⟨0, by norm_num⟩
    · exact ⟨0, by norm_num⟩
    · exact ⟨-2, by norm_num⟩
  · simp only [Option.some.injEq] at hl; subst hl
    rcases hz 0 with h0 | h0 <;> rcases hz 1 with h1 | h1 <;> simp only [eval, mon, h0, h1] <;> norm_num
  · intro kv hkv i hi
    simp only [List.mem_cons, List.not_mem_nil, or_false] at hkv
    rcases hkv with rfl | rfl <;> simp only [List.mem_singleton] at hi <;> subst hi <;> decide

/-- … and the call on it: `F = 2 (z0 + z1)^2 = 4 + 4 z0 z1`, no ancilla, `(eq, H)` recorded -/
example : (Pcso.addConstraint .eq {} [([0], 1), ([1], 1)] 2 true (some (-2), none) false).toOption.map
    (fun s => (s.terms, s.anc)) = some ([([0, 1], 4), ([], 4)], 0) := by
  decide +kernel
example : (Pcso.addConstraint .eq {} [([0], 1), ([1], 1)] 2 true (some (-2), none) false).toOption.map
    (fun s => s.cons) = some [(Rel.eq, [([0], 1), ([1], 1)])] := by
  decide +kernel

/-! ## T3.3 — counter and labels (all six relations, unconditional) -/

/-- **T3.3.**  The ancilla counter never decreases, and for *every* label predicate `S`: if the labels of the old
terms and of `H` satisfy `S` and so do the ancillas `ANC + k`, `s.anc ≤ k < s'.anc`, then every label of the new
terms satisfies `S`. -/
theorem counter_and_labels (r : Rel) (s s' : PSt) (H : Poly) (lam : Rat) (lt : Bool) (b : Option Rat × Option Rat)
    (sup : Bool) (h : Pcso.addConstraint r s H lam lt b sup = .ok s') :
    s.anc ≤ s'.anc ∧ ∀ S : Var → Prop, VarsIn S s.terms → VarsIn S H →
      (∀ k, s.anc ≤ k → k < s'.anc → S (ANC + k)) → VarsIn S s'.terms :=
  ⟨addConstraint_anc_mono h, fun _ hs hH hS => addConstraint_labels h hs hH hS⟩

/-- T3.3 in "occurs" form: a label of the new terms occurs in the old terms, occurs in `H`, or is one of the
ancillas drawn by this call — the added function depends on `H`'s spins and fresh ancilla spins only. -/
theorem new_labels (r : Rel) (s s' : PSt) (H : Poly) (lam : Rat) (lt : Bool) (b : Option Rat × Option Rat)
    (sup : Bool) (h : Pcso.addConstraint r s H lam lt b sup = .ok s') (i : Var) (hi : Occurs i s'.terms) :
    Occurs i s.terms ∨ Occurs i H ∨ InAnc s.anc s'.anc i :=
  step_new_labels h hi

/-- the same label-range fact for the boolean `PCBO.add_constraint_R_zero` model (all six relations, every branch) -/
theorem pcbo_counter_and_labels (r : Rel) (s0 : St) (P : Poly) (lam : Rat) (lt : Bool)
    (b : Option Rat × Option Rat) (sup : Bool) :
    s0.anc ≤ (Qv.addConstraint r s0 P lam lt b sup).anc ∧ ∀ S : Var → Prop, VarsIn S s0.terms → VarsIn S P →
      (∀ k, s0.anc ≤ k → k < (Qv.addConstraint r s0 P lam lt b sup).anc → S (ANC + k)) →
      VarsIn S (Qv.addConstraint r s0 P lam lt b sup).terms :=
  ⟨addConstraint_anc r s0 P lam lt b sup, fun _ hs hP hS => addConstraint_vars r s0 P lam lt b sup hs hP hS⟩

/-! ## T3.4 — recorded constraints and `is_solution_valid` (unconditional) -/

/-- the call records exactly `(R, PUSO(H))` — also when `lam = 0`; nothing of the helper PCBO's recorded
constraints is copied — and the recorded polynomial has the values of `H` on spins -/
theorem recorded_constraint (r : Rel) (s s' : PSt) (H : Poly) (lam : Rat) (lt : Bool) (b : Option Rat × Option Rat)
    (sup : Bool) (h : Pcso.addConstraint r s H lam lt b sup = .ok s') :
    ∃ H', spinCopy H = .ok H' ∧ s'.cons = s.cons ++ [(r, H')] ∧ ∀ z, IsSpin z → eval z H' = eval z H := by
  obtain ⟨H', h1, hc⟩ := addConstraint_cons h
  exact ⟨H', h1, hc, fun z hz => spinCopy_eval h1 hz⟩

/-- **T3.4.**  `is_solution_valid` after the call holds at a spin assignment iff it held before and `H(z) R 0`. -/
theorem is_solution_valid_spec (r : Rel) (s s' : PSt) (H : Poly) (lam : Rat) (lt : Bool)
    (b : Option Rat × Option Rat) (sup : Bool) (h : Pcso.addConstraint r s H lam lt b sup = .ok s')
    (z : Var → Rat) (hz : IsSpin z) :
    Pcso.isValid s' z = true ↔ (Pcso.isValid s z = true ∧ r.holds (eval z H) = true) :=
  addConstraint_valid h hz

/-- `lam = 0`: the constraint is recorded, nothing else changes -/
theorem lam_zero (r : Rel) (s s' : PSt) (H : Poly) (lt : Bool) (b : Option Rat × Option Rat) (sup : Bool)
    (h : Pcso.addConstraint r s H 0 lt b sup = .ok s') : ∃ H', spinCopy H = .ok H' ∧ s' = s.append r H' :=
  addConstraint_zero h

/-! ## T3.5 — histories: `num_ancillas` covers every ancilla, names never repeat (unconditional) -/

/-- the reading of `AncInv`: every label in the PCSO's terms is below `ANC + num_ancillas` (user labels are
`< ANC`; `__a<k>` is `ANC + k`) -/
theorem ancInv_iff (s : PSt) : AncInv s ↔ ∀ kv ∈ s.terms, ∀ i ∈ kv.1, i < ANC + s.anc := Iff.rfl

/-- **T3.5 (invariant).**  From any PCSO state satisfying `AncInv` (e.g. a fresh PCSO), every sequence of
constraints — any relations, `lam`, `log_trick`, bounds, flags — on polynomials over user labels runs without error,
preserves `AncInv`, and never decreases the counter. -/
theorem history_ancInv (s : PSt) (cs : List Call) (hi : AncInv s) (hu : ∀ c ∈ cs, UserPoly c.H) :
    ∃ s', runHist s cs = .ok s' ∧ AncInv s' ∧ s.anc ≤ s'.anc := by
  obtain ⟨s', h⟩ := runHist_total s cs
  exact ⟨s', h, hist_ancInv h hi hu⟩

/-- step case of T3.5 — the ancilla hand-off `h._ancilla = pcso._ancilla … pcso._ancilla = h._ancilla` -/
theorem step_ancInv (r : Rel) (s s' : PSt) (H : Poly) (lam : Rat) (lt : Bool) (b : Option Rat × Option Rat)
    (sup : Bool) (h : Pcso.addConstraint r s H lam lt b sup = .ok s') (hi : AncInv s) (hu : UserPoly H) :
    AncInv s' :=
  Pcso.step_ancInv h hi hu

/-- **T3.5 (fresh).**  The ancillas a call draws (`ANC + k`, `s.anc ≤ k < s'.anc`) occur neither in the terms present
before the call nor in `H`. -/
theorem ancillas_fresh (s s' : PSt) (H : Poly) (hi : AncInv s) (hu : UserPoly H) (i : Var)
    (ha : InAnc s.anc s'.anc i) : ¬ Occurs i s.terms ∧ ¬ Occurs i H :=
  step_fresh hi hu ha

/-- **T3.5 (names never repeat).**  In any history, the ancillas drawn by an earlier call `c` and by a later call
`d` are disjoint sets of labels (`s1 → s2` is `c`'s step, `s3 → s4` is `d`'s). -/
theorem ancillas_never_repeat (s0 sN : PSt) (pre mid post : List Call) (c d : Call)
    (h : runHist s0 (pre ++ c :: (mid ++ d :: post)) = .ok sN) :
    ∃ s1 s2 s3 s4, runHist s0 pre = .ok s1 ∧ c.run s1 = .ok s2 ∧ runHist s2 mid = .ok s3 ∧ d.run s3 = .ok s4 ∧
      runHist s4 post = .ok sN ∧ ∀ i, ¬ (InAnc s1.anc s2.anc i ∧ InAnc s3.anc s4.anc i) :=
  hist_disjoint h

/-- non-vacuity: a three-constraint history (`le` with 4 slack ancillas, two-sided `ne` with sign + 4 slack
ancillas, `eq` with none) on a fresh PCSO ends with `num_ancillas = 9`, 47 terms, three recorded constraints -/
example : (runHist {} [⟨.le, [([0], 1), ([1], 1), ([0, 1], -2)], 1, true, (none, none), false⟩,
      ⟨.ne, [([1, 0], 1), ([2], 2)], 2, true, (none, some 4), false⟩,
      ⟨.eq, [([0], 1), ([1], 1)], 1/2, true, (some (-2), some 2), false⟩]).toOption.map
    (fun s => (s.anc, s.terms.length, s.cons.length)) = some (9, 47, 3) := by decide +kernel

example : AncInv {} := ancInv_empty


/-! ### Closing the transfer with C02's theorem: T3.1 / T3.2 unconditional for all six relations -/

/-- C02's theorem (`Qv.C02.T2_packaged`) in the vocabulary of the transfer principle. -/
theorem pcbo_theorem (r : Rel) (s0 : St) (P : Poly) (lam : Rat) (lt : Bool) (b : Option Rat × Option Rat) (sup : Bool)
    (bp : BoolPremises P lam b) (_ : VarsIn (fun i => i < ANC + s0.anc) s0.terms) : BoolPenaltyOK r s0 P lam lt b sup := by
  have hyp : Qv.PcboP.Hyp s0 P lam b :=
    { lam_pos := bp.lam_pos, int := bp.int, nz := bp.canon.nonzero, nd := bp.canon.nodup, bounds := ⟨bp.lo, bp.hi⟩,
      fresh := fun kv hkv i hi => Nat.lt_of_lt_of_le (bp.user kv hkv i hi) (Nat.le_add_right _ _) }
  obtain ⟨h1, h2⟩ := Qv.C02.T2_packaged r s0 P lam lt b sup hyp
  exact ⟨h1, fun hU => (h2 hU).1, fun hU => (h2 hU).2⟩

/-- **T3.1 / T3.2, all six relations, unconditional.**  For an integer-valued spin polynomial `H` over user
labels with valid (optional) bounds and `lam > 0`, the function a PCSO comparison constraint adds is
non-negative on spins; unless the library warns "cannot be satisfied", its minimum over the fresh ancilla
spins is 0 exactly where `H(z) R 0` holds and it is at least `lam` elsewhere. -/
theorem spin_penalty (r : Rel) (s s' : PSt) (H : Poly) (lam : Rat) (lt : Bool) (b : Option Rat × Option Rat) (sup : Bool)
    (hp : SpinPremises H lam b) (h : Pcso.addConstraint r s H lam lt b sup = .ok s') :
    PenaltyOK IsSpin (fun z => r.holds (eval z H)) (addedS s s') s.anc s'.anc lam (warnsUnsat r s H lam lt b) :=
  spin_penalty_of_pcbo_theorem pcbo_theorem r s s' H lam lt b sup hp h

end Qv.C03
