import Qv.Proofs.ProblemsNP
import Qv.Proofs.ProblemsASC
import Qv.Proofs.ProblemsVC
import Qv.Proofs.ProblemsBILP
import Qv.Proofs.ProblemsRest
import Qv.Proofs.ProblemsGP
import Qv.Proofs.ProblemsJS
import Qv.Proofs.ProblemsSC
import Qv.Proofs.ProblemsSCValid
import Qv.Proofs.ProblemsJSFits
import Qv.Proofs.ProblemsJSValid
import Qv.Proofs.ProblemsJSCounter
import Qv.Proofs.ProblemsGPTop
import Qv.Proofs.ProblemsExist
/-!
# C10 — Problem classes encode their combinatorial problem faithfully

Only the property theorems and their non-vacuity examples; lemmas are in `Qv/Proofs/Problems{NP,ASC,VC,BILP}.lean`
(namespace `Qv.Prob`).  The model is `Qv/Model/Problems.lean`, `Problems2.lean`; its tie to
`qubovert/problems/**` is the correspondence check `harness/c10.py`.

Vocabulary: `dotFrom x c 0 = Σ_i c_i x_i`; `sumTo x n = Σ_{i<n} x_i`; `enumSol z n` is the container `[z 0, …, z (n-1)]`;
`pen x E = Σ_{(u,v)∈E} (1-x_u)(1-x_v)`, `idxEdges` the edges as pairs of variable indices, `Covers x E` every edge has
an endpoint with `x = 1`; `sqRes x S b = Σ_j (b_j - S_j·x)^2`, `Feasible x S b` is `S x = b`, `sumAbs c = Σ|c_i|`,
`IntList` integer entries; `chainSum p z qs = Σ_{q∈qs} J_q z_q z_{q+1}` with `J_q = -strength_q`.

Proved at full strength here: T10.1 for all seven classes; T10.3 for NumberPartitioning, AlternatingSectorsChain,
VertexCover, BILP (T10.2 in the forms stated), and — second half of this file — for SetCover (`sc_ground_states`, Lucas'
`B < A`), JobSequencing (`js_ground_states`, `A > B · max length`) and GraphPartitioning (`gp_ground_states`,
`A > B · min(2·degree, N)/8` on simple graphs with weights in `[0, 1]`; the documented threshold is insufficient beyond
that: `gp_threshold_weighted_counterexample`, `gp_threshold_bidirectional_counterexample`), each with (a) the energy at an
encoded feasible solution, (b) the lower bound, (c) the ground states, the weak-threshold / default-weight sentence and the
`is_solution_valid` iff.  Further vocabulary: `SC.Hit x α` a chosen set contains `α`, `SC.Covers x`, `SC.uncN x` number of
elements not hit, `SC.enc y` the assignment encoding the choice `y` (counter registers filled in), `SC.Fits` every
multiplicity fits its counter (true for the default `M`: `sc_fits_default`); `JS.load x w = Σ_j L_j x_{j,w}`, `JS.OneHot x`
every job on exactly one worker, `JS.pen x = Σ_j (1 - Σ_w x_{j,w})^2`, `JS.NatLengths` lengths are natural numbers,
`JS.Fits` `Σ L ≤ M` (true for the default `M`: `js_fits_default`); `GP.cutCost B z = B Σ_e w_e (1 - z_u z_v)/2`,
`GP.Balanced z` `Σ z = 0`, `GP.WF` `order` enumerates the endpoints, `GP.UnitWeights`, `GP.Simple`.
-/
namespace Qv.C10
open Qv Qv.Prob

/-! ## NumberPartitioning -/

/-- **T10.1** `⟦to_quso(A)⟧z = A (Σ S_i z_i)^2` on spins; `⟦to_qubo(A)⟧x` the same at `z = 1 - 2x` -/
theorem np_energy (p : NP) (A : Rat) (L Q : Poly) (hL : p.toQuso A = .ok L) (hQ : p.toQubo A = .ok Q) :
    (∀ z, IsSpin z → eval z L = A * (dotFrom z p.S 0) ^ 2) ∧
    (∀ x, IsBool x → eval x Q = A * (dotFrom (b2s x) p.S 0) ^ 2) :=
  ⟨fun z hz => np_toQuso_eval p A L z hz hL, fun x hx => np_toQubo_eval p A Q x hx hQ⟩

/-- **T10.2 / T10.3** `convert_solution` of the container `[z_0 … z_{N-1}]` splits `S` into the members with value 1
and the others (nothing lost: the lengths and the sums add up); the energy is `A` times the squared difference of the
two sums; `is_solution_valid` holds iff the sums are equal, iff (for `A ≠ 0`) the energy is `0`. -/
theorem np_decode_cost (p : NP) (A : Rat) (L : Poly) (hL : p.toQuso A = .ok L) (z : Var → Rat) (hz : IsSpin z) :
    ∃ p1 p2, p.convert (enumSol z p.numVars) = .ok (p1, p2) ∧
      p1.length + p2.length = p.S.length ∧ sumL p1 + sumL p2 = sumL p.S ∧
      eval z L = A * (sumL p1 - sumL p2) ^ 2 ∧
      p.valid (enumSol z p.numVars) = .ok (decide (sumL p1 = sumL p2)) ∧
      (A ≠ 0 → (sumL p1 = sumL p2 ↔ eval z L = 0)) := by
  refine ⟨_, _, np_convert_enum p z, pick_lengths z p.S 0, sumL_pick_total z p.S 0, ?_, ?_, ?_⟩
  · rw [np_toQuso_eval p A L z hz hL, sumL_pick_diff hz]
  · simp [NP.valid, np_convert_enum, NP.validConv, bind, Except.bind, pure, Except.pure]
  · intro hA
    rw [np_toQuso_eval p A L z hz hL, ← sumL_pick_diff hz p.S 0]
    constructor
    · intro h; rw [h]; ring
    · intro h
      have : (sumL (pickL isOne z p.S 0) - sumL (pickL notOne z p.S 0)) ^ 2 = 0 := by
        rcases mul_eq_zero.mp h with h | h
        · exact absurd h hA
        · exact h
      have := pow_eq_zero_iff (n := 2) (by norm_num) |>.mp this
      linarith

/-- **T10.3** for `A > 0` the ground states are exactly the assignments whose decoded partition has the least
squared difference of sums; the ground energy is `A` times that least squared difference. -/
theorem np_ground_states (p : NP) (A : Rat) (hA : 0 < A) (L : Poly) (hL : p.toQuso A = .ok L)
    (z : Var → Rat) (hz : IsSpin z) :
    (∀ z', IsSpin z' → eval z L ≤ eval z' L) ↔
      (∀ z', IsSpin z' → (dotFrom z p.S 0) ^ 2 ≤ (dotFrom z' p.S 0) ^ 2) := by
  constructor
  · intro h z' hz'
    have := h z' hz'
    rw [np_toQuso_eval p A L z hz hL, np_toQuso_eval p A L z' hz' hL] at this
    exact le_of_mul_le_mul_left this hA
  · intro h z' hz'
    rw [np_toQuso_eval p A L z hz hL, np_toQuso_eval p A L z' hz' hL]
    exact mul_le_mul_of_nonneg_left (h z' hz') (le_of_lt hA)

example : ((NP.new [3, 1, 2]).toOption.bind (fun p => (p.toQuso 2).toOption)).isSome = true := by decide +kernel
example : ((NP.new [3, 1, 2]).toOption.bind (fun p => (p.toQubo (1/2)).toOption)).isSome = true := by decide +kernel
example : IsSpin (fun i => if i = 0 then 1 else -1) := by intro i; by_cases h : i = 0 <;> simp [h]

/-! ## AlternatingSectorsChain -/

/-- **T10.1** open chain: `⟦to_quso()⟧z = -Σ_{q<N-1} s_q z_q z_{q+1}`; periodic chain (`N ≥ 3`): plus the bond
`(N-1, 0)` -/
theorem asc_energy (p : ASC) (z : Var → Rat) :
    (∀ L, p.toQuso false = .ok L → eval z L = chainSum p z (List.range (p.N - 1))) ∧
    (∀ L, 3 ≤ p.N → p.toQuso true = .ok L →
      eval z L = chainSum p z (List.range (p.N - 1)) + p.coupling (p.N - 1) * (z 0 * z (p.N - 1))) :=
  ⟨fun L h => asc_toQuso_eval' p L z h, fun L hN h => asc_toQuso_pbc_eval' p hN L z h⟩

/-- **T10.3** positive strengths (stored couplings negative), open chain: a spin assignment is a ground state iff all
`N` spins are equal; the ground energy is `-Σ_q s_q`. -/
theorem asc_ground_states (p : ASC) (h1 : p.negMin < 0) (h2 : p.negMax < 0) (L : Poly)
    (h : p.toQuso false = .ok L) (z : Var → Rat) (hz : IsSpin z) :
    ((∀ z', IsSpin z' → eval z L ≤ eval z' L) ↔ ∀ i, i ≤ p.N - 1 → z i = z 0) ∧
    ((∀ i, i ≤ p.N - 1 → z i = z 0) → eval z L = chainConst p (List.range (p.N - 1))) := by
  have hneg := coupling_neg p h1 h2
  have ev := fun (w : Var → Rat) => asc_toQuso_eval' p L w h
  have hge := fun (w : Var → Rat) (hw : IsSpin w) => chainSum_ge p hneg hw (List.range (p.N - 1))
  refine ⟨⟨fun hg => ?_, fun ha z' hz' => ?_⟩, fun ha => ?_⟩
  · have hone : IsSpin (fun _ => (1 : Rat)) := fun _ => Or.inl rfl
    have := hg _ hone
    rw [ev, ev, chainSum_ones] at this
    exact (aligned_iff z _).mp ((hge z hz).2.mp (le_antisymm this (hge z hz).1))
  · rw [ev, ev, (hge z hz).2.mpr ((aligned_iff z _).mpr ha)]
    exact (hge z' hz').1
  · rw [ev, (hge z hz).2.mpr ((aligned_iff z _).mpr ha)]

/-- **T10.3** the same for the periodic chain with `N ≥ 3` -/
theorem asc_ground_states_pbc (p : ASC) (h1 : p.negMin < 0) (h2 : p.negMax < 0) (hN : 3 ≤ p.N) (L : Poly)
    (h : p.toQuso true = .ok L) (z : Var → Rat) (hz : IsSpin z) :
    (∀ z', IsSpin z' → eval z L ≤ eval z' L) ↔ ∀ i, i ≤ p.N - 1 → z i = z 0 := by
  have hneg := coupling_neg p h1 h2
  have hc := hneg (p.N - 1)
  have ev := fun (w : Var → Rat) => asc_toQuso_pbc_eval' p hN L w h
  have hge := fun (w : Var → Rat) (hw : IsSpin w) => chainSum_ge p hneg hw (List.range (p.N - 1))
  have bond : ∀ w : Var → Rat, IsSpin w → p.coupling (p.N - 1) ≤ p.coupling (p.N - 1) * (w 0 * w (p.N - 1)) := by
    intro w hw
    rcases hw 0 with a | a <;> rcases hw (p.N - 1) with b | b <;> rw [a, b] <;> linarith
  constructor
  · intro hg
    have hone : IsSpin (fun _ => (1 : Rat)) := fun _ => Or.inl rfl
    have := hg _ hone
    rw [ev, ev, chainSum_ones] at this
    have hb := bond z hz
    have : chainSum p z (List.range (p.N - 1)) = chainConst p (List.range (p.N - 1)) :=
      le_antisymm (by linarith) (hge z hz).1
    exact (aligned_iff z _).mp ((hge z hz).2.mp this)
  · intro ha z' hz'
    rw [ev, ev, (hge z hz).2.mpr ((aligned_iff z _).mpr ha), ha (p.N - 1) (le_refl _)]
    have hz0 : z 0 * z 0 = 1 := hz.sq 0
    rw [hz0]
    linarith [(hge z' hz').1, bond z' hz']

/-- **T10.2** `is_solution_valid` on a converted (or list-form) solution: all entries are `1` or none is -/
theorem asc_valid_iff (l : List Rat) :
    ASC.validConv l = true ↔ (∀ v ∈ l, v = 1) ∨ (∀ v ∈ l, v ≠ 1) := by
  simp [ASC.validConv, List.all_eq_true]

example : ((ASC.new 7 3 1 10).toOption.map (fun p => (decide (p.negMin < 0 ∧ p.negMax < 0 ∧ 3 ≤ p.N)) &&
    (p.toQuso true).toOption.isSome && (p.toQuso false).toOption.isSome)) = some true := by decide +kernel

/-! ## VertexCover -/

/-- **T10.1** `⟦to_qubo(A, B)⟧x = B Σ_i x_i + A Σ_{(u,v)∈E} (1-x_u)(1-x_v)` (`A ≠ 0`); edge indices are variables -/
theorem vc_energy (p : VC) (A B : Rat) (hA : A ≠ 0) (Q : Poly) (h : p.toQubo A B = .ok Q) (x : Var → Rat)
    (hx : IsBool x) :
    eval x Q = B * sumTo x p.numVars + A * pen x (idxEdges p.vertices p.edges) ∧
      ∀ e ∈ idxEdges p.vertices p.edges, e.1 < p.numVars ∧ e.2 < p.numVars :=
  vc_toQubo_eval' p A B hA Q x hx h

/-- **T10.3** `A > B > 0`: every ground state of `to_qubo(A, B)` is a vertex cover, its energy is `B` times its size,
and no vertex cover is smaller.  (Hence ground energy = `B ·` minimum cover size = optimal cost.) -/
theorem vc_ground_states (p : VC) (A B : Rat) (hB : 0 < B) (hAB : B < A) (Q : Poly) (h : p.toQubo A B = .ok Q)
    (x : Var → Rat) (hx : IsBool x) (hg : ∀ y, IsBool y → eval x Q ≤ eval y Q) :
    Covers x (idxEdges p.vertices p.edges) ∧ eval x Q = B * sumTo x p.numVars ∧
      ∀ y, IsBool y → Covers y (idxEdges p.vertices p.edges) → sumTo x p.numVars ≤ sumTo y p.numVars := by
  have hA : 0 < A := lt_trans hB hAB
  have ev := fun (y : Var → Rat) (hy : IsBool y) => (vc_toQubo_eval' p A B (ne_of_gt hA) Q y hy h).1
  have hcov : Covers x (idxEdges p.vertices p.edges) := by
    by_contra hc
    obtain ⟨e, he, h1, h2⟩ := exists_uncovered hx hc
    have hlt := vc_flip_lower hAB hA hx p.numVars _ e he h1 h2
    have := hg _ (isBool_upd hx e.1)
    rw [ev _ (isBool_upd hx e.1), ev x hx] at this
    linarith
  refine ⟨hcov, by rw [ev x hx, pen_of_covers hcov]; ring, fun y hy hcy => ?_⟩
  have := hg y hy
  rw [ev x hx, ev y hy, pen_of_covers hcov, pen_of_covers hcy] at this
  have : B * sumTo x p.numVars ≤ B * sumTo y p.numVars := by linarith
  exact le_of_mul_le_mul_left this hB

/-- **T10.2** `is_solution_valid` on a converted solution (a vertex set) holds iff every edge has an endpoint in it -/
theorem vc_valid_iff (p : VC) (c : List Var) :
    p.validConv c = true ↔ ∀ e ∈ p.edges, e.1 ∈ c ∨ e.2 ∈ c :=
  vc_validConv_iff p c

example : ((VC.toQubo ⟨[(5, 7), (7, 9), (9, 9)]⟩ 2 1).toOption.isSome) = true := by decide +kernel
example : (VC.numVars ⟨[(5, 7), (7, 9), (9, 9)]⟩) = 3 := by decide +kernel

/-! ## BILP -/

/-- **T10.1** `⟦to_qubo(A, B)⟧x = B c·x + A Σ_j (b_j - S_j·x)^2` (`A = None` means `B·N`) -/
theorem bilp_energy (p : BILP) (A : Option Rat) (B : Rat) (Q : Poly) (h : p.toQubo A B = .ok Q) (x : Var → Rat)
    (hx : IsBool x) : eval x Q = B * dotFrom x p.c 0 + p.weightA A B * sqRes x p.S p.b :=
  bilp_toQubo_eval' p A B Q x hx h

/-- **T10.3** `B > 0`, `A > B Σ|c|`, integer `S` and `b`, a feasible instance: every ground state `x` of `to_qubo(A, B)`
satisfies `S x = b`, has energy `B c·x`, and no feasible point has a smaller objective. -/
theorem bilp_ground_states (p : BILP) (A : Option Rat) (B : Rat) (hB : 0 < B)
    (hA : B * sumAbs p.c < p.weightA A B) (hS : ∀ row ∈ p.S, IntList row) (hb : IntList p.b)
    (Q : Poly) (h : p.toQubo A B = .ok Q)
    (y0 : Var → Rat) (hy0 : IsBool y0) (hf0 : Feasible y0 p.S p.b)
    (x : Var → Rat) (hx : IsBool x) (hg : ∀ y, IsBool y → eval x Q ≤ eval y Q) :
    Feasible x p.S p.b ∧ eval x Q = B * dotFrom x p.c 0 ∧
      ∀ y, IsBool y → Feasible y p.S p.b → dotFrom x p.c 0 ≤ dotFrom y p.c 0 := by
  have ev := fun (y : Var → Rat) (hy : IsBool y) => bilp_toQubo_eval' p A B Q y hy h
  have hfx : Feasible x p.S p.b := by
    by_contra hn
    have hlt := bilp_infeasible_higher hB hA hS hb hx hy0 hf0 hn
    have := hg y0 hy0
    rw [ev x hx, ev y0 hy0] at this
    linarith
  refine ⟨hfx, by rw [ev x hx, sqRes_of_feasible hfx]; ring, fun y hy hfy => ?_⟩
  have := hg y hy
  rw [ev x hx, ev y hy, sqRes_of_feasible hfx, sqRes_of_feasible hfy] at this
  have : B * dotFrom x p.c 0 ≤ B * dotFrom y p.c 0 := by linarith
  exact le_of_mul_le_mul_left this hB

/-- **T10.2** integer dtypes (`exact = true`, the code since upstream 131e8ef): `is_solution_valid` on a converted
solution holds iff every row satisfies `S_j · x = b_j` exactly. -/
theorem bilp_valid_exact_int (p : BILP) (xs : List Rat) :
    p.validConv xs true = true ↔ ∀ rb ∈ p.S.zip p.b, dot rb.1 xs = rb.2 := by
  simp [BILP.validConv, List.all_eq_true]

/-- **T10.2 (partial: non-integer dtypes keep `np.allclose`).** on integers the tolerant test of one row is exact as
long as `|b_j| ≤ 99999` … -/
theorem bilp_valid_entry_partial (a b : Rat) (ha : ∃ z : Int, a = z) (hb : ∃ z : Int, b = z)
    (hsmall : absR b ≤ 99999) : closeTo a b = true ↔ a = b := by
  unfold closeTo
  rw [decide_eq_true_iff]
  constructor
  · intro h
    obtain ⟨za, hza⟩ := ha
    obtain ⟨zb, hzb⟩ := hb
    have hint : ∃ z : Int, a - b = z := ⟨za - zb, by rw [hza, hzb]; push_cast; ring⟩
    have hlt : absR (a - b) < 1 := by
      have : (1 : Rat) / 100000000 + 1 / 100000 * absR b < 1 := by nlinarith
      linarith
    rcases Qv.Logic.int_sq_cases hint with h0 | h1
    · linarith
    · exfalso
      unfold absR at hlt
      split at hlt <;> nlinarith
  · intro h
    rw [h]
    have : absR (b - b) = 0 := by simp [absR]
    rw [this]
    have := absR_nonneg b
    nlinarith

/-- … and beyond that bound the tolerant test accepts an infeasible point (`S x = 100001`, `b = 100000`).  Before
upstream 131e8ef this path was taken for integer data too (the defect `C10:BILP-allclose-accepts-infeasible`); it now
only applies to float / object dtypes. -/
theorem bilp_valid_tolerance_counterexample :
    BILP.validConv ⟨[1], [[100001]], [100000], 1⟩ [1] = true ∧ dot [100001] [1] ≠ (100000 : Rat) := by
  decide +kernel

example : ((BILP.new [1, 2, -1] [[1, 0, 0], [0, 1, -1]] [0, 1]).toOption.bind
    (fun p => (p.toQubo none 1).toOption)).isSome = true := by decide +kernel
example : IntList [1, 0, -2] := by
  intro a ha
  simp only [List.mem_cons, List.not_mem_nil, or_false] at ha
  rcases ha with rfl | rfl | rfl
  · exact ⟨1, by norm_num⟩
  · exact ⟨0, by norm_num⟩
  · exact ⟨-2, by norm_num⟩

/-! ## SetCover, JobSequencing, GraphPartitioning — the closed energy forms (T10.1)

The ground-state sentences (T10.3) of these three classes follow below (sections "SetCover — ground states", …). -/

/-- **T10.1, SetCover.** `⟦to_qubo(A, B)⟧x = B Σ_i w_i x_i + A Σ_α penalty_α(x)` on boolean points, where for the element
`α` with index `ia` in `U` and `X_α = Σ_{i : α ∈ V_i} x_i` the penalty (`SC.elemPenalty`) is
`(1 + Σ_{m ≤ log M} 2^m x_{α,m} - X_α)^2` with `log_trick` and
`(1 - Σ_{m=1..M} x_{α,m})^2 + (Σ_m m x_{α,m} - X_α)^2` without — Lucas' `H_A + H_B` with the counters as written. -/
theorem sc_energy (p : SC) (A B : Rat) (Q : Poly) (h : p.toQubo A B = .ok Q) (x : Var → Rat) (hx : IsBool x) :
    eval x Q = B * dotFrom x p.weights 0 + A * sumIdx (p.elemPenalty x) p.U 0 := by
  have := eval_build (sqOK_bool (κ := .qubom) rfl hx) h
  rw [this, sc_ops_eval p A B hx]; simp

/-- **T10.1, JobSequencing.** `⟦to_qubo(A, B)⟧x = A Σ_j (1 - Σ_w x_{j,w})^2 + B Σ_j L_j x_{j,0} +
A Σ_{w≥1} (Y_w + Σ_j L_j (x_{j,w} - x_{j,0}))^2` — Lucas' `H_A + H_B` with the slack registers `Y_w = Σ_n c_n y_{n,w}`
(`c_n = 2^n` with `log_trick`, else `n + 1`) as written; `A = None` means `B · max length` (`JS.weightA`). -/
theorem js_energy (p : JS) (A : Option Rat) (B : Rat) (Q : Poly) (h : p.toQubo A B = .ok Q) (x : Var → Rat)
    (hx : IsBool x) :
    eval x Q =
      p.weightA A B * sumMap p.jobs (fun jl => (1 - p.S x jl.1) ^ 2) +
      B * sumMap p.jobs (fun jl => jl.2 * x (p.x jl.1 0)) +
      p.weightA A B * sumMap ((List.range p.m).drop 1) (fun w => (p.Y x w + p.D x w) ^ 2) := by
  rw [js_build_eval p A B Q h x hx, js_ops_eval]

/-- **T10.1, GraphPartitioning.** `⟦to_quso(A, B)⟧z = A (Σ_{i<N} z_i)^2 + B Σ_e w_e / 2 - Σ_e (w_e B / 2) z_u z_v`
`= A (Σ z_i)^2 + B Σ_e w_e (1 - z_u z_v)/2` for every instance, every `A` (`None` = `min(2·degree, N)·B/8`,
`GP.weightA`) and `B`: the balance penalty `PCSO().add_constraint_eq_zero({(i,): 1 …}, lam=A)` always takes the squaring
branch (the shortcut and the one-sided branches are excluded by the values at the all-zeros and all-ones points). -/
theorem gp_energy (p : GP) (A : Option Rat) (B : Rat) (L : Poly) (h : p.toQuso A B = .ok L) (z : Var → Rat)
    (hz : IsSpin z) :
    eval z L = p.weightA A B * (sumTo z p.numVars) ^ 2 + B * sumL (p.edges.map Prod.snd) / 2 -
      cutSum p.order B z p.edges :=
  gp_toQuso_eval p A B L h z hz

/-- the balance penalty alone: `⟦PCSO().add_constraint_eq_zero({(i,): 1 for i < N}, lam)⟧z = lam (Σ_{i<N} z_i)^2` -/
theorem gp_balance_penalty (N : Nat) (lam : Rat) (pen : Poly)
    (h : pcsoEqZeroTerms ((List.range N).map (fun i => ([i], (1 : Rat)))) lam = .ok pen)
    (z : Var → Rat) (hz : IsSpin z) : eval z pen = lam * (sumTo z N) ^ 2 :=
  pcso_eqZero_linear N lam pen h z hz

/-- **T10.2** `is_solution_valid` on converted solutions: GraphPartitioning compares the sizes of the two parts -/
theorem gp_valid_iff (c : List Var × List Var) : GP.validConv c = true ↔ c.1.length = c.2.length := by
  simp [GP.validConv]

example : ((SC.new [0, 1, 2] [[0, 1], [2], [1, 2]] none true none).toOption.bind
    (fun p => (p.toQubo 2 1).toOption)).isSome = true := by decide +kernel
example : ((JS.new [(0, 1), (1, 2)] 2 false none).toOption.bind
    (fun p => (p.toQubo none 1).toOption)).isSome = true := by decide +kernel
example : ((GP.toQuso ⟨[((0, 1), 1), ((1, 2), 1/2), ((3, 3), 1)], [2, 0, 3, 1]⟩ none 1).toOption.isSome) = true := by
  decide +kernel

/-! ## SetCover — ground states (Lucas 5.1, `0 < B < A`, every weight `≤ 1`) -/

/-- **T10.3 (a), SetCover.** the assignment `enc y` that encodes a cover `y` (same decision bits, counter registers holding
the multiplicities) is boolean, still a cover, and its energy is the cost `B Σ w_i y_i` -/
theorem sc_energy_feasible (p : SC) (A B : Rat) (Q : Poly) (h : p.toQubo A B = .ok Q) (hwl : p.weights.length ≤ p.N)
    (hfit : p.Fits) (y : Var → Rat) (hy : IsBool y) (hcy : p.Covers y) :
    IsBool (p.enc y) ∧ (∀ i, i < p.N → p.enc y i = y i) ∧ p.Covers (p.enc y) ∧
      eval (p.enc y) Q = B * dotFrom y p.weights 0 :=
  ⟨sc_isBool_enc p hy, fun _ hi => sc_enc_dec p y hi, (sc_covers_enc p y).mpr hcy,
    sc_energy_cover p A B Q h hwl hfit hy hcy⟩

/-- **T10.3 (b), SetCover: the lower bound.** `0 ≤ B ≤ A`, every element in some set, every weight `≤ 1`: every boolean
assignment `x` has energy at least the cost of some cover plus `(A - B)` for every element its chosen sets do not hit
(and at least one element is not hit when `x` does not decode to a cover) -/
theorem sc_lower_bound (p : SC) (A B : Rat) (hB : 0 ≤ B) (hAB : B ≤ A) (hcov : p.Coverable)
    (hw : ∀ w ∈ p.weights, w ≤ 1) (Q : Poly) (h : p.toQubo A B = .ok Q) (x : Var → Rat) (hx : IsBool x) :
    (∃ y, IsBool y ∧ p.Covers y ∧ B * dotFrom y p.weights 0 + (A - B) * (p.uncN x : Rat) ≤ eval x Q) ∧
      (¬ p.Covers x → 1 ≤ p.uncN x) :=
  ⟨Qv.Prob.sc_lower_bound p A B hB hAB hcov hw Q h x hx, fun hn => by
    have := (sc_covers_iff_uncN p x).not.mp hn
    omega⟩

/-- **T10.3 (c), SetCover.** `0 < B < A` (the documented threshold), weights as the constructor keeps them (one per
set, none above `1`), every element in some set, counters large enough (`SC.Fits`; the default `M`): every ground state
of `to_qubo(A, B)` decodes to a cover, its energy is the weight `B Σ w_i x_i` of that cover, and no cover is lighter. -/
theorem sc_ground_states (p : SC) (A B : Rat) (hB : 0 < B) (hAB : B < A) (hwl : p.weights.length ≤ p.N)
    (hw : ∀ w ∈ p.weights, w ≤ 1) (hfit : p.Fits) (hcov : p.Coverable) (Q : Poly) (h : p.toQubo A B = .ok Q)
    (x : Var → Rat) (hx : IsBool x) (hg : ∀ y, IsBool y → eval x Q ≤ eval y Q) :
    p.Covers x ∧ eval x Q = B * dotFrom x p.weights 0 ∧
      ∀ y, IsBool y → p.Covers y → dotFrom x p.weights 0 ≤ dotFrom y p.weights 0 := by
  have enc := fun (y : Var → Rat) (hy : IsBool y) (hcy : p.Covers y) => sc_energy_cover p A B Q h hwl hfit hy hcy
  have hcx : p.Covers x := by
    by_contra hn
    obtain ⟨y, hy, hcy, hle⟩ := Qv.Prob.sc_lower_bound p A B (le_of_lt hB) (le_of_lt hAB) hcov hw Q h x hx
    have hu : (1 : Rat) ≤ (p.uncN x : Rat) := by
      have := (sc_covers_iff_uncN p x).not.mp hn
      exact_mod_cast Nat.one_le_iff_ne_zero.mpr this
    have := hg _ (sc_isBool_enc p hy)
    rw [enc y hy hcy] at this
    nlinarith
  have hle : B * dotFrom x p.weights 0 ≤ eval x Q := by
    rw [sc_toQubo_eval p A B Q h x hx]
    have h1 := sc_penalties_ge hx p
    have h0 : (0 : Rat) ≤ (p.uncN x : Rat) := Nat.cast_nonneg _
    have hA : 0 < A := lt_trans hB hAB
    nlinarith
  have hge := hg _ (sc_isBool_enc p hx)
  rw [enc x hx hcx] at hge
  refine ⟨hcx, le_antisymm hge hle, fun y hy hcy => ?_⟩
  have := hg _ (sc_isBool_enc p hy)
  rw [enc y hy hcy] at this
  have : B * dotFrom x p.weights 0 ≤ B * dotFrom y p.weights 0 := le_trans hle this
  exact le_of_mul_le_mul_left this hB

/-- **T10.3, SetCover, weak threshold `0 ≤ B ≤ A`** (covers the default `A = 2, B = 1`): the encoding of every cover of
least weight is a ground state, and the ground energy is `B ·` that weight. -/
theorem sc_optimal_is_ground (p : SC) (A B : Rat) (hB : 0 ≤ B) (hAB : B ≤ A) (hwl : p.weights.length ≤ p.N)
    (hw : ∀ w ∈ p.weights, w ≤ 1) (hfit : p.Fits) (hcov : p.Coverable) (Q : Poly) (h : p.toQubo A B = .ok Q)
    (y : Var → Rat) (hy : IsBool y) (hcy : p.Covers y)
    (hopt : ∀ y', IsBool y' → p.Covers y' → dotFrom y p.weights 0 ≤ dotFrom y' p.weights 0) :
    (∀ x, IsBool x → eval (p.enc y) Q ≤ eval x Q) ∧ eval (p.enc y) Q = B * dotFrom y p.weights 0 := by
  refine ⟨fun x hx => ?_, sc_energy_cover p A B Q h hwl hfit hy hcy⟩
  rw [sc_energy_cover p A B Q h hwl hfit hy hcy]
  obtain ⟨y', hy', hcy', hle⟩ := Qv.Prob.sc_lower_bound p A B hB hAB hcov hw Q h x hx
  have h0 : (0 : Rat) ≤ (p.uncN x : Rat) := Nat.cast_nonneg _
  have := mul_le_mul_of_nonneg_left (hopt y' hy' hcy') hB
  nlinarith

/-- **SetCover with the default weights `A = 2, B = 1` and the default `M`**, for every instance the constructor
accepts in which every element lies in some set: every ground state decodes to a lightest cover with energy = its
weight, and the encoding of every lightest cover is a ground state. -/
theorem sc_default_weights (U : List Var) (V : List (List Var)) (w : Option (List Rat)) (lt : Bool) (p : SC)
    (hp : SC.new U V w lt none = .ok p) (hcov : p.Coverable) (Q : Poly) (h : p.toQubo 2 1 = .ok Q) :
    (∀ x, IsBool x → (∀ y, IsBool y → eval x Q ≤ eval y Q) →
      p.Covers x ∧ eval x Q = 1 * dotFrom x p.weights 0 ∧
        ∀ y, IsBool y → p.Covers y → dotFrom x p.weights 0 ≤ dotFrom y p.weights 0) ∧
    (∀ y, IsBool y → p.Covers y → (∀ y', IsBool y' → p.Covers y' → dotFrom y p.weights 0 ≤ dotFrom y' p.weights 0) →
      (∀ x, IsBool x → eval (p.enc y) Q ≤ eval x Q) ∧ eval (p.enc y) Q = 1 * dotFrom y p.weights 0) := by
  obtain ⟨hwl, hw⟩ := sc_new_weights U V w lt none p hp
  have hfit := sc_fits_default U V w lt p hp
  exact ⟨fun x hx hg => sc_ground_states p 2 1 (by norm_num) (by norm_num) (le_of_eq hwl) hw hfit hcov Q h x hx hg,
    fun y hy hcy hopt =>
      sc_optimal_is_ground p 2 1 (by norm_num) (by norm_num) (le_of_eq hwl) hw hfit hcov Q h y hy hcy hopt⟩

/-- **T10.2 (SetCover)** `is_solution_valid` on a converted solution (a set of indices into `V`): the union of the chosen
sets equals `U` as a set; for a boolean assignment whose sets stay inside `U`: its decoding is valid iff it covers `U` -/
theorem sc_valid_iff (p : SC) :
    (∀ c : List Nat, p.validConv c = true ↔ ∀ a, a ∈ c.flatMap (fun i => p.V.getD i []) ↔ a ∈ p.U) ∧
    (∀ x, IsBool x → (∀ v ∈ p.V, ∀ a ∈ v, a ∈ p.U) →
      (p.validConv ((List.range p.N).filter (fun i => decide (x i ≠ 0))) = true ↔ p.Covers x)) :=
  ⟨fun c => sc_validConv_iff p c, fun _ hx hsub => sc_validConv_chosen p hx hsub⟩

/-- non-vacuity: `U = {0,1,2}`, `V = [{0,1},{2},{1,2}]`, both counters; the cover `{V_0, V_1}` -/
def scEx (lt : Bool) : SC := ⟨[0, 1, 2], [[0, 1], [2], [1, 2]], [1, 1, 1], lt, 2⟩
def scExY : Var → Rat := fun i => if i = 0 ∨ i = 1 then 1 else 0
/-- the hypotheses of `sc_default_weights` are satisfiable: the constructor accepts the instance (default `M`) and the
result is coverable -/
example (lt : Bool) : ∃ p, SC.new [0, 1, 2] [[0, 1], [2], [1, 2]] none lt none = .ok p ∧ p.Coverable ∧
    (p.toQubo 2 1).toOption.isSome = true := by
  have hs : ∀ lt, ((SC.new [0, 1, 2] [[0, 1], [2], [1, 2]] none lt none).toOption.map
      (fun p => (p.U, p.V, p.weights, p.logTrick, p.M))) = some ([0, 1, 2], [[0, 1], [2], [1, 2]], [1, 1, 1], lt, 2) := by
    intro lt; cases lt <;> decide +kernel
  cases hp : SC.new [0, 1, 2] [[0, 1], [2], [1, 2]] none lt none with
  | error e => have := hs lt; rw [hp] at this; cases this
  | ok p =>
    have := hs lt
    rw [hp] at this
    simp only [Except.toOption, Option.map_some, Option.some.injEq, Prod.mk.injEq] at this
    obtain ⟨h1, h2, h3, h4, h5⟩ := this
    have hpe : p = scEx lt := by cases p; simp only [scEx] at *; simp [h1, h2, h3, h4, h5]
    subst hpe
    refine ⟨_, rfl, ?_, ?_⟩
    · cases lt <;> unfold SC.Coverable <;> decide +kernel
    · cases lt <;> decide +kernel
example (lt : Bool) : (scEx lt).Coverable := by cases lt <;> unfold SC.Coverable <;> decide +kernel
example (lt : Bool) : (scEx lt).Fits := by cases lt <;> unfold SC.Fits <;> decide +kernel
example (lt : Bool) : (scEx lt).weights.length ≤ (scEx lt).N ∧ ∀ w ∈ (scEx lt).weights, w ≤ 1 := by
  cases lt <;> exact ⟨by decide, by decide +kernel⟩
example (lt : Bool) : ((scEx lt).toQubo 2 1).toOption.isSome = true := by cases lt <;> decide +kernel
example : IsBool scExY := by intro i; unfold scExY; by_cases h : i = 0 ∨ i = 1 <;> simp [h]
example (lt : Bool) : (scEx lt).Covers scExY := by
  have h : ∀ lt a, a ∈ (scEx lt).U → ∃ i ∈ (scEx lt).filtered a 0, i = 0 ∨ i = 1 := by
    intro lt; cases lt <;> decide +kernel
  intro a ha
  obtain ⟨i, hi, h01⟩ := h lt a ha
  exact ⟨i, hi, by unfold scExY; simp [h01]⟩

/-! ## JobSequencing — ground states (Lucas 6.3, `A > B · max length`, natural lengths, `m ≥ 1`, `Σ L ≤ M`) -/

/-- **T10.3 (a), JobSequencing.** every assignment `y` of every job to exactly one worker has an encoding `x'` (workers `0`
and a worker `w0` of largest load exchanged, slack registers holding the load differences) that is boolean, one-hot and
has energy `B · load y w0 = B ·` makespan of `y` -/
theorem js_energy_feasible (p : JS) (A : Option Rat) (B : Rat) (hm : 1 ≤ p.m) (hN : p.NatLengths) (hF : p.Fits)
    (Q : Poly) (h : p.toQubo A B = .ok Q) (y : Var → Rat) (hy : IsBool y) (hoh : p.OneHot y) :
    ∃ x', IsBool x' ∧ p.OneHot x' ∧ ∃ w0, w0 < p.m ∧ (∀ w, w < p.m → p.load y w ≤ p.load y w0) ∧
      eval x' Q = B * p.load y w0 ∧ p.load x' 0 = p.load y w0 ∧ ∀ w, w < p.m → p.load x' w ≤ p.load y w0 := by
  obtain ⟨x', hx', hoh', w0, hw0, hmax, he, h0, hw⟩ := js_ENC p (p.weightA A B) B hm hN hF y hy hoh
  exact ⟨x', hx', hoh', w0, hw0, hmax, by rw [js_energy' p A B Q h x' hx']; exact he, h0, hw⟩

/-- **T10.3 (b), JobSequencing: the lower bound.** `B ≥ 0`, weight in use `≥ B · max length`: every boolean `x` has energy
at least `B ·` every load of some one-hot assignment `y` plus `(A - B · max length) · pen x`, and `pen x ≥ 1` when `x` is
not one-hot -/
theorem js_lower_bound (p : JS) (A : Option Rat) (B : Rat) (hm : 1 ≤ p.m) (hB : 0 ≤ B)
    (hA : B * p.maxL ≤ p.weightA A B) (hN : p.NatLengths) (Q : Poly) (h : p.toQubo A B = .ok Q)
    (x : Var → Rat) (hx : IsBool x) :
    (∃ y, IsBool y ∧ p.OneHot y ∧
      ∀ w, w < p.m → B * p.load y w + (p.weightA A B - B * p.maxL) * p.pen x ≤ eval x Q) ∧
      (¬ p.OneHot x → 1 ≤ p.pen x) := by
  refine ⟨?_, fun hn => js_pen_ge_one p hx hn⟩
  rw [js_energy' p A B Q h x hx]
  exact js_LB p (p.weightA A B) B hm hB hA hN x hx

/-- **T10.3 (c), JobSequencing.** `B > 0`, weight in use `> B · max length` (the documented threshold): every ground state
of `to_qubo(A, B)` puts every job on exactly one worker, its energy is `B ·` its makespan (`load x w1`, `w1` a worker of
largest load), and no such assignment has a smaller makespan -/
theorem js_ground_states (p : JS) (A : Option Rat) (B : Rat) (hm : 1 ≤ p.m) (hB : 0 < B)
    (hA : B * p.maxL < p.weightA A B) (hN : p.NatLengths) (hF : p.Fits)
    (Q : Poly) (h : p.toQubo A B = .ok Q) (x : Var → Rat) (hx : IsBool x)
    (hg : ∀ x'', IsBool x'' → eval x Q ≤ eval x'' Q) :
    p.OneHot x ∧ ∃ w1, w1 < p.m ∧ eval x Q = B * p.load x w1 ∧ (∀ w, w < p.m → p.load x w ≤ p.load x w1) ∧
      ∀ y, IsBool y → p.OneHot y → ∃ w', w' < p.m ∧ p.load x w1 ≤ p.load y w' :=
  js_ground_states_top p A B hm hB hA hN hF Q h x hx hg

/-- **T10.3, JobSequencing, weak threshold `A ≥ B · max length`**: the encoding of every assignment of least makespan is
a ground state with energy `B ·` that makespan -/
theorem js_optimal_is_ground (p : JS) (A : Option Rat) (B : Rat) (hm : 1 ≤ p.m) (hB : 0 ≤ B)
    (hA : B * p.maxL ≤ p.weightA A B) (hN : p.NatLengths) (hF : p.Fits)
    (Q : Poly) (h : p.toQubo A B = .ok Q) (y : Var → Rat) (hy : IsBool y) (hoh : p.OneHot y)
    (hopt : ∀ y', IsBool y' → p.OneHot y' → ∃ w', w' < p.m ∧ ∀ w, w < p.m → p.load y w ≤ p.load y' w') :
    ∃ x', IsBool x' ∧ p.OneHot x' ∧ ∃ w0, w0 < p.m ∧ (∀ w, w < p.m → p.load y w ≤ p.load y w0) ∧
      eval x' Q = B * p.load y w0 ∧ p.load x' 0 = p.load y w0 ∧ (∀ w, w < p.m → p.load x' w ≤ p.load y w0) ∧
      ∀ x'', IsBool x'' → eval x' Q ≤ eval x'' Q :=
  js_default_top p A B hm hB hA hN hF Q h y hy hoh hopt

/-- **JobSequencing with the default weights (`A = None` = `B · max length`) and the default `M`**, for every instance the
constructor accepts with natural lengths and at least one worker: the ground energy is `B ·` the least makespan and the
encoding of every optimal assignment is a ground state -/
theorem js_default_weights (lengths : List (Var × Rat)) (m : Nat) (lt : Bool) (p : JS)
    (hp : JS.new lengths m lt none = .ok p) (hm : 1 ≤ p.m) (hN : p.NatLengths) (B : Rat) (hB : 0 ≤ B)
    (Q : Poly) (h : p.toQubo none B = .ok Q) (y : Var → Rat) (hy : IsBool y) (hoh : p.OneHot y)
    (hopt : ∀ y', IsBool y' → p.OneHot y' → ∃ w', w' < p.m ∧ ∀ w, w < p.m → p.load y w ≤ p.load y' w') :
    ∃ x', IsBool x' ∧ p.OneHot x' ∧ ∃ w0, w0 < p.m ∧ (∀ w, w < p.m → p.load y w ≤ p.load y w0) ∧
      eval x' Q = B * p.load y w0 ∧ p.load x' 0 = p.load y w0 ∧ (∀ w, w < p.m → p.load x' w ≤ p.load y w0) ∧
      ∀ x'', IsBool x'' → eval x' Q ≤ eval x'' Q :=
  js_default_none_top p B hm hB hN (js_fits_default lengths m lt p hp hN) Q h y hy hoh hopt

/-- at the default `A = None` a ground state need **not** be feasible (one job of length 1, one worker: leaving it
unassigned costs `A = 1`, assigning it `B · 1 = 1`) — the docstring's "guaranteed to satisfy the constraints" holds only
in the sense of `js_default_weights` -/
theorem js_default_tie_counterexample (Q : Poly) (h : jsTie.toQubo none 1 = .ok Q) :
    (∀ x'', IsBool x'' → eval (fun _ => (0 : Rat)) Q ≤ eval x'' Q) ∧ eval (fun _ => (0 : Rat)) Q = 1 ∧
      ¬ jsTie.OneHot (fun _ => (0 : Rat)) ∧ jsTie.NatLengths ∧ jsTie.Fits :=
  js_default_tie Q h

/-- with a user `M < Σ L` (`JS.Fits` violated) and `A = 4 > B · max length = 3` the unique ground state leaves the job
unassigned: the hypothesis `Fits` of `js_ground_states` cannot be dropped -/
theorem js_small_M_counterexample (Q : Poly) (h : jsSmallM.toQubo (some 4) 1 = .ok Q) :
    (∀ x'', IsBool x'' → eval (fun _ => (0 : Rat)) Q ≤ eval x'' Q) ∧
      (∀ x'', IsBool x'' → jsSmallM.OneHot x'' → eval (fun _ => (0 : Rat)) Q < eval x'' Q) ∧
      ¬ jsSmallM.OneHot (fun _ => (0 : Rat)) ∧ jsSmallM.NatLengths ∧ ¬ jsSmallM.Fits ∧
      (1 : Rat) * jsSmallM.maxL < jsSmallM.weightA (some 4) 1 :=
  js_small_M Q h

/-- **T10.2 (JobSequencing)** `is_solution_valid` on a converted solution (one job list per worker) holds iff every job
occurs exactly once -/
theorem js_valid_iff (p : JS) (c : List (List Var)) :
    p.validConv c = true ↔ (c.flatMap id).Nodup ∧ ∀ j, j ∈ c.flatMap id ↔ j ∈ p.lengths.map Prod.fst :=
  js_validConv_iff p c

/-- the constructor with the default `M` accepts the example instance (`M = 2 · 2 = 4`) -/
example : ((JS.new [(0, 1), (1, 2)] 2 true none).toOption.map (fun p => (p.lengths, p.m, p.logTrick, p.M))) =
    some ((jsEx true).lengths, (jsEx true).m, (jsEx true).logTrick, (jsEx true).M) := by decide +kernel
example (lt : Bool) : (jsEx lt).NatLengths ∧ (jsEx lt).Fits ∧ 1 ≤ (jsEx lt).m ∧ IsBool jsExY ∧ (jsEx lt).OneHot jsExY :=
  ⟨jsEx_nat lt, jsEx_fits lt, by cases lt <;> decide, jsExY_bool, jsExY_onehot lt⟩
example : ((jsEx true).toQubo (some 3) 1).toOption.isSome = true ∧
    (1 : Rat) * (jsEx true).maxL < (jsEx true).weightA (some 3) 1 := by decide +kernel
example : (jsTie.toQubo none 1).toOption.isSome = true ∧ (jsSmallM.toQubo (some 4) 1).toOption.isSome = true := by
  decide +kernel

/-! ## GraphPartitioning — ground states (Lucas 2.2, `A > B · min(2·degree, N)/8`, simple graph, weights in `[0, 1]`,
`N` even) -/

/-- **T10.3 (a), GraphPartitioning.** at a balanced spin state the energy is the cost `B ·` (weight of the cut) -/
theorem gp_energy_feasible (p : GP) (A : Option Rat) (B : Rat) (L : Poly) (h : p.toQuso A B = .ok L) (z : Var → Rat)
    (hz : IsSpin z) (hb : p.Balanced z) : eval z L = p.cutCost B z := by
  rw [gp_eval_energy h hz]
  unfold GP.energy
  rw [show sumTo z p.numVars = 0 from hb]; ring

/-- **T10.3 (b), GraphPartitioning: the lower bound.** weight in use `≥` the threshold: for every spin state there is a
balanced one with at most its energy — strictly less when the state is unbalanced and the weight exceeds the threshold -/
theorem gp_lower_bound (p : GP) (hwf : p.WF) (hu : p.UnitWeights) (hsimple : p.Simple) (A : Option Rat) (B : Rat)
    (hB : 0 ≤ B) (L : Poly) (hL : p.toQuso A B = .ok L)
    (hA : B * ((min (2 * p.degree) p.numVars : Nat) : Rat) / 8 ≤ p.weightA A B) (h : Nat) (hN : p.numVars = 2 * h)
    (z : Var → Rat) (hz : IsSpin z) :
    ∃ z', IsSpin z' ∧ p.Balanced z' ∧ eval z' L ≤ eval z L ∧
      (B * ((min (2 * p.degree) p.numVars : Nat) : Rat) / 8 < p.weightA A B → ¬ p.Balanced z → eval z' L < eval z L) := by
  obtain ⟨z', hz', hb', hle, hlt⟩ := gp_desc (A := p.weightA A B) (gp_flipOK_min hwf hu hsimple hB) hA hN hz
  refine ⟨z', hz', hb', ?_, fun h1 h2 => ?_⟩
  · rw [gp_eval_energy hL hz', gp_eval_energy hL hz]; exact hle
  · rw [gp_eval_energy hL hz', gp_eval_energy hL hz]; exact hlt h1 h2

/-- **T10.3 (c), GraphPartitioning.** `order` enumerates the vertices, simple graph, weights in `[0, 1]`, `N` even, `B ≥ 0`,
weight in use above the documented threshold `B · min(2·degree, N)/8`: every ground state of `to_quso(A, B)` is balanced,
its energy is `B ·` the weight of its cut, and no balanced partition has a lighter cut -/
theorem gp_ground_states (p : GP) (hwf : p.WF) (hu : p.UnitWeights) (hsimple : p.Simple) (A : Option Rat) (B : Rat)
    (hB : 0 ≤ B) (L : Poly) (hL : p.toQuso A B = .ok L)
    (hA : B * ((min (2 * p.degree) p.numVars : Nat) : Rat) / 8 < p.weightA A B) (h : Nat) (hN : p.numVars = 2 * h)
    (z : Var → Rat) (hz : IsSpin z) (hmin : ∀ z'' : Var → Rat, IsSpin z'' → eval z L ≤ eval z'' L) :
    p.Balanced z ∧ eval z L = p.cutCost B z ∧
      ∀ y : Var → Rat, IsSpin y → p.Balanced y → p.cutCost B z ≤ p.cutCost B y :=
  gp_ground_states_top hwf hu hsimple hB hL hA hN hz hmin

/-- **T10.3, GraphPartitioning, weak threshold** (weight in use `≥ B · min(2·degree, N)/8`): every balanced partition of
least cut weight is a ground state with energy `B ·` that weight -/
theorem gp_optimal_is_ground (p : GP) (hwf : p.WF) (hu : p.UnitWeights) (hsimple : p.Simple) (A : Option Rat) (B : Rat)
    (hB : 0 ≤ B) (L : Poly) (hL : p.toQuso A B = .ok L)
    (hA : B * ((min (2 * p.degree) p.numVars : Nat) : Rat) / 8 ≤ p.weightA A B) (h : Nat) (hN : p.numVars = 2 * h)
    (y : Var → Rat) (hy : IsSpin y) (hyb : p.Balanced y)
    (hopt : ∀ y' : Var → Rat, IsSpin y' → p.Balanced y' → p.cutCost B y ≤ p.cutCost B y') :
    (∀ z : Var → Rat, IsSpin z → eval y L ≤ eval z L) ∧ eval y L = p.cutCost B y :=
  gp_default_top hwf hu hsimple hB hL hA hN hy hyb hopt

/-- **GraphPartitioning with the default weight `A = None`** (exactly the threshold): the ground energy is `B ·` the least
balanced cut weight and every optimal balanced partition is a ground state -/
theorem gp_default_weights (p : GP) (hwf : p.WF) (hu : p.UnitWeights) (hsimple : p.Simple) (B : Rat) (hB : 0 ≤ B)
    (L : Poly) (hL : p.toQuso none B = .ok L) (h : Nat) (hN : p.numVars = 2 * h)
    (y : Var → Rat) (hy : IsSpin y) (hyb : p.Balanced y)
    (hopt : ∀ y' : Var → Rat, IsSpin y' → p.Balanced y' → p.cutCost B y ≤ p.cutCost B y') :
    (∀ z : Var → Rat, IsSpin z → eval y L ≤ eval z L) ∧ eval y L = p.cutCost B y :=
  gp_default_none_top hwf hu hsimple hB hL hN hy hyb hopt

/-- **(partial: graphs with repeated / bidirectional edges)** without `Simple` the same holds above `B · degree / 4`
(`= B · 2·degree / 8`: only the degree part of the documented minimum) -/
theorem gp_ground_states_deg_partial (p : GP) (hwf : p.WF) (hu : p.UnitWeights) (A : Option Rat) (B : Rat)
    (hB : 0 ≤ B) (L : Poly) (hL : p.toQuso A B = .ok L) (hA : B * (p.degree : Rat) / 4 < p.weightA A B) (h : Nat)
    (hN : p.numVars = 2 * h) (z : Var → Rat) (hz : IsSpin z)
    (hmin : ∀ z'' : Var → Rat, IsSpin z'' → eval z L ≤ eval z'' L) :
    p.Balanced z ∧ eval z L = p.cutCost B z ∧
      ∀ y : Var → Rat, IsSpin y → p.Balanced y → p.cutCost B z ≤ p.cutCost B y :=
  gp_ground_states_deg_partial_top hwf hu hB hL hA hN hz hmin

/-- the documented threshold is **insufficient for weights above 1**: one edge of weight `10`, `A = 1 > 1/4`: the
unbalanced state `(1, 1)` has energy `4`, every balanced state `10` (same on the real code, also with `A = None`) -/
theorem gp_threshold_weighted_counterexample :
    ∃ L, GP.toQuso ⟨[((0, 1), 10)], [0, 1]⟩ (some 1) 1 = .ok L ∧
      eval (fun _ => (1 : Rat)) L < eval (fun i => if i = 0 then (1 : Rat) else -1) L :=
  Qv.Prob.gp_threshold_weighted_counterexample

/-- … and **for an edge given in both directions** (`{(0,1), (1,0)}`: `N = 2`, degree `2`, threshold `1/4`), `A = 3/10`:
energy `6/5` at `(1, 1)` against `2` at `(1, -1)` -/
theorem gp_threshold_bidirectional_counterexample :
    ∃ L, GP.toQuso ⟨[((0, 1), 1), ((1, 0), 1)], [0, 1]⟩ (some (3 / 10)) 1 = .ok L ∧
      eval (fun _ => (1 : Rat)) L < eval (fun i => if i = 0 then (1 : Rat) else -1) L :=
  Qv.Prob.gp_threshold_bidirectional_counterexample

/-- **T10.2 (GraphPartitioning)** `is_solution_valid` on the assignment `[z_0 … z_{N-1}]` (duplicate-free vertex
enumeration): accepted iff the partition is balanced -/
theorem gp_valid_assignment (p : GP) (hnd : p.order.Nodup) (z : Var → Rat) (hz : IsSpin z) :
    p.valid (enumSol z p.numVars) = .ok true ↔ p.Balanced z :=
  gp_valid_iff_balanced p hnd hz

example : gpPath4.WF ∧ gpPath4.UnitWeights ∧ gpPath4.Simple ∧ gpPath4.numVars = 2 * 2 :=
  ⟨by unfold GP.WF; decide +kernel, by unfold GP.UnitWeights; decide +kernel, by unfold GP.Simple; decide +kernel,
    by decide⟩
example : (gpPath4.toQuso none 1).toOption.isSome = true ∧ (gpPath4.toQuso (some 1) 1).toOption.isSome = true := by
  decide +kernel
example : (1 : Rat) * ((min (2 * gpPath4.degree) gpPath4.numVars : Nat) : Rat) / 8 < gpPath4.weightA (some 1) 1 := by
  decide +kernel
example : ∃ L, gpPath4.toQuso (some 1) 1 = .ok L ∧ IsSpin gpPath4Sol ∧
    ∀ z'' : Var → Rat, IsSpin z'' → eval gpPath4Sol L ≤ eval z'' L := gpPath4_ground

/-! ## Ground states exist; the default-weight sentence for the five classes the property names

"With the default weights the ground energy still equals the optimal cost and at least one ground state decodes to a
feasible optimal solution for SetCover, VertexCover, NumberPartitioning, GraphPartitioning and JobSequencing." -/

/-- every term list has a boolean and a spin ground state (finitely many labels occur): the "every ground state …"
theorems above are never vacuous -/
theorem ground_state_exists (Q : Poly) :
    (∃ x, IsBool x ∧ ∀ y, IsBool y → eval x Q ≤ eval y Q) ∧ (∃ z, IsSpin z ∧ ∀ y, IsSpin y → eval z Q ≤ eval y Q) :=
  ⟨exists_ground_bool Q, exists_ground_spin Q⟩

/-- **NumberPartitioning, `A > 0` (default `A = 1`)**: a ground state exists; its energy is `A ·` the least squared
difference of the two part sums -/
theorem np_default_sentence (p : NP) (A : Rat) (hA : 0 < A) (L : Poly) (hL : p.toQuso A = .ok L) :
    ∃ z, IsSpin z ∧ (∀ z', IsSpin z' → eval z L ≤ eval z' L) ∧ eval z L = A * (dotFrom z p.S 0) ^ 2 ∧
      ∀ z', IsSpin z' → (dotFrom z p.S 0) ^ 2 ≤ (dotFrom z' p.S 0) ^ 2 := by
  obtain ⟨z, hz, hg⟩ := exists_ground_spin L
  exact ⟨z, hz, hg, np_toQuso_eval p A L z hz hL, (np_ground_states p A hA L hL z hz).mp hg⟩

/-- **VertexCover, `A > B > 0` (default `A = 2, B = 1`)**: some ground state is a minimum vertex cover and the ground
energy is `B ·` its size -/
theorem vc_default_sentence (p : VC) (A B : Rat) (hB : 0 < B) (hAB : B < A) (Q : Poly) (h : p.toQubo A B = .ok Q) :
    ∃ x, IsBool x ∧ (∀ y, IsBool y → eval x Q ≤ eval y Q) ∧ Covers x (idxEdges p.vertices p.edges) ∧
      eval x Q = B * sumTo x p.numVars ∧
      ∀ y, IsBool y → Covers y (idxEdges p.vertices p.edges) → sumTo x p.numVars ≤ sumTo y p.numVars := by
  obtain ⟨x, hx, hg⟩ := exists_ground_bool Q
  obtain ⟨h1, h2, h3⟩ := vc_ground_states p A B hB hAB Q h x hx hg
  exact ⟨x, hx, hg, h1, h2, h3⟩

/-- **SetCover, `A > B > 0` (default `A = 2, B = 1`)**: some ground state decodes to a lightest cover and the ground
energy is `B ·` its weight -/
theorem sc_default_sentence (p : SC) (A B : Rat) (hB : 0 < B) (hAB : B < A) (hwl : p.weights.length ≤ p.N)
    (hw : ∀ w ∈ p.weights, w ≤ 1) (hfit : p.Fits) (hcov : p.Coverable) (Q : Poly) (h : p.toQubo A B = .ok Q) :
    ∃ x, IsBool x ∧ (∀ y, IsBool y → eval x Q ≤ eval y Q) ∧ p.Covers x ∧ eval x Q = B * dotFrom x p.weights 0 ∧
      ∀ y, IsBool y → p.Covers y → dotFrom x p.weights 0 ≤ dotFrom y p.weights 0 := by
  obtain ⟨x, hx, hg⟩ := exists_ground_bool Q
  obtain ⟨h1, h2, h3⟩ := sc_ground_states p A B hB hAB hwl hw hfit hcov Q h x hx hg
  exact ⟨x, hx, hg, h1, h2, h3⟩

/-- **JobSequencing, weight in use `≥ B · max length` (default `A = None`)**: some ground state `x'` puts every job on
exactly one worker, worker `0` carries its largest load, the ground energy is `B ·` that makespan, and no assignment of
every job to exactly one worker has a smaller makespan -/
theorem js_default_sentence (p : JS) (A : Option Rat) (B : Rat) (hm : 1 ≤ p.m) (hB : 0 ≤ B)
    (hA : B * p.maxL ≤ p.weightA A B) (hN : p.NatLengths) (hF : p.Fits) (Q : Poly) (h : p.toQubo A B = .ok Q) :
    ∃ x', IsBool x' ∧ p.OneHot x' ∧ (∀ x'', IsBool x'' → eval x' Q ≤ eval x'' Q) ∧
      eval x' Q = B * p.load x' 0 ∧ (∀ w, w < p.m → p.load x' w ≤ p.load x' 0) ∧
      ∀ y', IsBool y' → p.OneHot y' → ∃ w', w' < p.m ∧ p.load x' 0 ≤ p.load y' w' :=
  js_weak_sentence p A B hm hB hA hN hF Q h

/-- **GraphPartitioning, weight in use `≥ B · min(2·degree, N)/8` (default `A = None`)**, simple graph with weights in
`[0, 1]`, `N` even: some ground state is balanced, the ground energy is `B ·` its cut weight, and no balanced partition
has a lighter cut -/
theorem gp_default_sentence (p : GP) (hwf : p.WF) (hu : p.UnitWeights) (hsimple : p.Simple) (A : Option Rat) (B : Rat)
    (hB : 0 ≤ B) (L : Poly) (hL : p.toQuso A B = .ok L)
    (hA : B * ((min (2 * p.degree) p.numVars : Nat) : Rat) / 8 ≤ p.weightA A B) (h : Nat) (hN : p.numVars = 2 * h) :
    ∃ y, IsSpin y ∧ p.Balanced y ∧ (∀ z : Var → Rat, IsSpin z → eval y L ≤ eval z L) ∧ eval y L = p.cutCost B y ∧
      ∀ y' : Var → Rat, IsSpin y' → p.Balanced y' → p.cutCost B y ≤ p.cutCost B y' :=
  gp_weak_sentence hwf hu hsimple hB hL hA hN

/-- the default weights satisfy the hypotheses: `A = None` is `B · max length` resp. `B · min(2·degree, N)/8` -/
example (p : JS) (B : Rat) : B * p.maxL ≤ p.weightA none B := le_refl _
example (p : GP) (B : Rat) : B * ((min (2 * p.degree) p.numVars : Nat) : Rat) / 8 ≤ p.weightA none B :=
  le_of_eq (gp_weightA_none p B).symm
example : (0 : Rat) < 1 ∧ (1 : Rat) < 2 := by norm_num

end Qv.C10
