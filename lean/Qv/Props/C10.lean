import Qv.Proofs.ProblemsNP
import Qv.Proofs.ProblemsASC
import Qv.Proofs.ProblemsVC
import Qv.Proofs.ProblemsBILP
import Qv.Proofs.ProblemsRest
import Qv.Proofs.ProblemsGP
import Qv.Proofs.ProblemsJS
import Qv.Proofs.ProblemsSC
/-!
# C10 — Problem classes encode their combinatorial problem faithfully

Only the property theorems and their non-vacuity examples; lemmas are in `Qv/Proofs/Problems{NP,ASC,VC,BILP}.lean`
(namespace `Qv.Prob`).  The model is `Qv/Model/Problems.lean`, `Problems2.lean`; its tie to
`qubovert/problems/**` is the correspondence check `harness/c10.py`.

Vocabulary: `dotFrom x c 0 = Σ_i c_i x_i`; `sumTo x n = Σ_{i<n} x_i`; `enumSol z n` is the container `[z 0, …, z (n-1)]`;
`pen x E = Σ_{(u,v)∈E} (1-x_u)(1-x_v)`, `idxEdges` the edges as pairs of variable indices, `Covers x E` every edge has
an endpoint with `x = 1`; `sqRes x S b = Σ_j (b_j - S_j·x)^2`, `Feasible x S b` is `S x = b`, `sumAbs c = Σ|c_i|`,
`IntList` integer entries; `chainSum p z qs = Σ_{q∈qs} J_q z_q z_{q+1}` with `J_q = -strength_q`.

Proved at full strength here: T10.1 for all seven classes; T10.3 for NumberPartitioning, AlternatingSectorsChain,
VertexCover, BILP (T10.2 in the forms stated).  SetCover, JobSequencing, GraphPartitioning: ground-state sentences by the
enumeration oracle only (no theorem in this file claims them).
-/
namespace Qv.C10
open Qv Qv.Prob

/-! ## NumberPartitioning -/

/-- **T10.1** `⟦to_quso(A)⟧z = A (Σ S_i z_i)^2` on spins; `⟦to_qubo(A)⟧x` the same at `z = 1 - 2x` -/
theorem np_energy (p : NP) (A : Rat) (L Q : Poly) (hL : p.toQuso A = .ok L) (hQ : p.toQubo A = .ok Q) :
    (∀ z, IsSpin z → eval z L = A * (dotFrom z p.S 0) ^ 2) ∧
    (∀ x, IsBool x → eval x Q = A * (dotFrom (b2s x) p.S 0) ^ 2) :=
  ⟨fun z hz => np_toQuso_eval p A L z hz hL, fun x hx => np_toQubo_eval p A Q x hx hQ⟩

/-- **T10.2 / T10.3** `convert_solution` of the container `[z_0 … z_{N-1}]` splits `S` into the members with value 1
and the others (nothing lost: the lengths and the sums add up); the energy is `A` times the squared difference of the
two sums; `is_solution_valid` holds iff the sums are equal, iff (for `A ≠ 0`) the energy is `0`. -/
theorem np_decode_cost (p : NP) (A : Rat) (L : Poly) (hL : p.toQuso A = .ok L) (z : Var → Rat) (hz : IsSpin z) :
    ∃ p1 p2, p.convert (enumSol z p.numVars) = .ok (p1, p2) ∧
      p1.length + p2.length = p.S.length ∧ sumL p1 + sumL p2 = sumL p.S ∧
      eval z L = A * (sumL p1 - sumL p2) ^ 2 ∧
      p.valid (enumSol z p.numVars) = .ok (decide (sumL p1 = sumL p2)) ∧
      (A ≠ 0 → (sumL p1 = sumL p2 ↔ eval z L = 0)) := by
  refine ⟨_, _, np_convert_enum p z, pick_lengths z p.S 0, sumL_pick_total z p.S 0, ?_, ?_, ?_⟩
  · rw [np_toQuso_eval p A L z hz hL, sumL_pick_diff hz]
  · simp [NP.valid, np_convert_enum, NP.validConv, bind, Except.bind, pure, Except.pure]
  · intro hA
    rw [np_toQuso_eval p A L z hz hL, ← sumL_pick_diff hz p.S 0]
    constructor
    · intro h; rw [h]; ring
    · intro h
      have : (sumL (pickL isOne z p.S 0) - sumL (pickL notOne z p.S 0)) ^ 2 = 0 := by
        rcases mul_eq_zero.mp h with h | h
        · exact absurd h hA
        · exact h
      have := pow_eq_zero_iff (n := 2) (by norm_num) |>.mp this
      linarith

/-- **T10.3** for `A > 0` the ground states are exactly the assignments whose decoded partition has the least
squared difference of sums; the ground energy is `A` times that least squared difference. -/
theorem np_ground_states (p : NP) (A : Rat) (hA : 0 < A) (L : Poly) (hL : p.toQuso A = .ok L)
    (z : Var → Rat) (hz : IsSpin z) :
    (∀ z', IsSpin z' → eval z L ≤ eval z' L) ↔
      (∀ z', IsSpin z' → (dotFrom z p.S 0) ^ 2 ≤ (dotFrom z' p.S 0) ^ 2) := by
  constructor
  · intro h z' hz'
    have := h z' hz'
    rw [np_toQuso_eval p A L z hz hL, np_toQuso_eval p A L z' hz' hL] at this
    exact le_of_mul_le_mul_left this hA
  · intro h z' hz'
    rw [np_toQuso_eval p A L z hz hL, np_toQuso_eval p A L z' hz' hL]
    exact mul_le_mul_of_nonneg_left (h z' hz') (le_of_lt hA)

example : ((NP.new [3, 1, 2]).toOption.bind (fun p => (p.toQuso 2).toOption)).isSome = true := by decide +kernel
example : ((NP.new [3, 1, 2]).toOption.bind (fun p => (p.toQubo (1/2)).toOption)).isSome = true := by decide +kernel
example : IsSpin (fun i => if i = 0 then 1 else -1) := by intro i; by_cases h : i = 0 <;> simp [h]

/-! ## AlternatingSectorsChain -/

/-- **T10.1** open chain: `⟦to_quso()⟧z = -Σ_{q<N-1} s_q z_q z_{q+1}`; periodic chain (`N ≥ 3`): plus the bond
`(N-1, 0)` -/
theorem asc_energy (p : ASC) (z : Var → Rat) :
    (∀ L, p.toQuso false = .ok L → eval z L = chainSum p z (List.range (p.N - 1))) ∧
    (∀ L, 3 ≤ p.N → p.toQuso true = .ok L →
      eval z L = chainSum p z (List.range (p.N - 1)) + p.coupling (p.N - 1) * (z 0 * z (p.N - 1))) :=
  ⟨fun L h => asc_toQuso_eval' p L z h, fun L hN h => asc_toQuso_pbc_eval' p hN L z h⟩

/-- **T10.3** positive strengths (stored couplings negative), open chain: a spin assignment is a ground state iff all
`N` spins are equal; the ground energy is `-Σ_q s_q`. -/
theorem asc_ground_states (p : ASC) (h1 : p.negMin < 0) (h2 : p.negMax < 0) (L : Poly)
    (h : p.toQuso false = .ok L) (z : Var → Rat) (hz : IsSpin z) :
    ((∀ z', IsSpin z' → eval z L ≤ eval z' L) ↔ ∀ i, i ≤ p.N - 1 → z i = z 0) ∧
    ((∀ i, i ≤ p.N - 1 → z i = z 0) → eval z L = chainConst p (List.range (p.N - 1))) := by
  have hneg := coupling_neg p h1 h2
  have ev := fun (w : Var → Rat) => asc_toQuso_eval' p L w h
  have hge := fun (w : Var → Rat) (hw : IsSpin w) => chainSum_ge p hneg hw (List.range (p.N - 1))
  refine ⟨⟨fun hg => ?_, fun ha z' hz' => ?_⟩, fun ha => ?_⟩
  · have hone : IsSpin (fun _ => (1 : Rat)) := fun _ => Or.inl rfl
    have := hg _ hone
    rw [ev, ev, chainSum_ones] at this
    exact (aligned_iff z _).mp ((hge z hz).2.mp (le_antisymm this (hge z hz).1))
  · rw [ev, ev, (hge z hz).2.mpr ((aligned_iff z _).mpr ha)]
    exact (hge z' hz').1
  · rw [ev, (hge z hz).2.mpr ((aligned_iff z _).mpr ha)]

/-- **T10.3** the same for the periodic chain with `N ≥ 3` -/
theorem asc_ground_states_pbc (p : ASC) (h1 : p.negMin < 0) (h2 : p.negMax < 0) (hN : 3 ≤ p.N) (L : Poly)
    (h : p.toQuso true = .ok L) (z : Var → Rat) (hz : IsSpin z) :
    (∀ z', IsSpin z' → eval z L ≤ eval z' L) ↔ ∀ i, i ≤ p.N - 1 → z i = z 0 := by
  have hneg := coupling_neg p h1 h2
  have hc := hneg (p.N - 1)
  have ev := fun (w : Var → Rat) => asc_toQuso_pbc_eval' p hN L w h
  have hge := fun (w : Var → Rat) (hw : IsSpin w) => chainSum_ge p hneg hw (List.range (p.N - 1))
  have bond : ∀ w : Var → Rat, IsSpin w → p.coupling (p.N - 1) ≤ p.coupling (p.N - 1) * (w 0 * w (p.N - 1)) := by
    intro w hw
    rcases hw 0 with a | a <;> rcases hw (p.N - 1) with b | b <;> rw [a, b] <;> linarith
  constructor
  · intro hg
    have hone : IsSpin (fun _ => (1 : Rat)) := fun _ => Or.inl rfl
    have := hg _ hone
    rw [ev, ev, chainSum_ones] at this
    have hb := bond z hz
    have : chainSum p z (List.range (p.N - 1)) = chainConst p (List.range (p.N - 1)) :=
      le_antisymm (by linarith) (hge z hz).1
    exact (aligned_iff z _).mp ((hge z hz).2.mp this)
  · intro ha z' hz'
    rw [ev, ev, (hge z hz).2.mpr ((aligned_iff z _).mpr ha), ha (p.N - 1) (le_refl _)]
    have hz0 : z 0 * z 0 = 1 := hz.sq 0
    rw [hz0]
    linarith [(hge z' hz').1, bond z' hz']

/-- **T10.2** `is_solution_valid` on a converted (or list-form) solution: all entries are `1` or none is -/
theorem asc_valid_iff (l : List Rat) :
    ASC.validConv l = true ↔ (∀ v ∈ l, v = 1) ∨ (∀ v ∈ l, v ≠ 1) := by
  simp [ASC.validConv, List.all_eq_true]

example : ((ASC.new 7 3 1 10).toOption.map (fun p => (decide (p.negMin < 0 ∧ p.negMax < 0 ∧ 3 ≤ p.N)) &&
    (p.toQuso true).toOption.isSome && (p.toQuso false).toOption.isSome)) = some true := by decide +kernel

/-! ## VertexCover -/

/-- **T10.1** `⟦to_qubo(A, B)⟧x = B Σ_i x_i + A Σ_{(u,v)∈E} (1-x_u)(1-x_v)` (`A ≠ 0`); edge indices are variables -/
theorem vc_energy (p : VC) (A B : Rat) (hA : A ≠ 0) (Q : Poly) (h : p.toQubo A B = .ok Q) (x : Var → Rat)
    (hx : IsBool x) :
    eval x Q = B * sumTo x p.numVars + A * pen x (idxEdges p.vertices p.edges) ∧
      ∀ e ∈ idxEdges p.vertices p.edges, e.1 < p.numVars ∧ e.2 < p.numVars :=
  vc_toQubo_eval' p A B hA Q x hx h

/-- **T10.3** `A > B > 0`: every ground state of `to_qubo(A, B)` is a vertex cover, its energy is `B` times its size,
and no vertex cover is smaller.  (Hence ground energy = `B ·` minimum cover size = optimal cost.) -/
theorem vc_ground_states (p : VC) (A B : Rat) (hB : 0 < B) (hAB : B < A) (Q : Poly) (h : p.toQubo A B = .ok Q)
    (x : Var → Rat) (hx : IsBool x) (hg : ∀ y, IsBool y → eval x Q ≤ eval y Q) :
    Covers x (idxEdges p.vertices p.edges) ∧ eval x Q = B * sumTo x p.numVars ∧
      ∀ y, IsBool y → Covers y (idxEdges p.vertices p.edges) → sumTo x p.numVars ≤ sumTo y p.numVars := by
  have hA : 0 < A := lt_trans hB hAB
  have ev := fun (y : Var → Rat) (hy : IsBool y) => (vc_toQubo_eval' p A B (ne_of_gt hA) Q y hy h).1
  have hcov : Covers x (idxEdges p.vertices p.edges) := by
    by_contra hc
    obtain ⟨e, he, h1, h2⟩ := exists_uncovered hx hc
    have hlt := vc_flip_lower hAB hA hx p.numVars _ e he h1 h2
    have := hg _ (isBool_upd hx e.1)
    rw [ev _ (isBool_upd hx e.1), ev x hx] at this
    linarith
  refine ⟨hcov, by rw [ev x hx, pen_of_covers hcov]; ring, fun y hy hcy => ?_⟩
  have := hg y hy
  rw [ev x hx, ev y hy, pen_of_covers hcov, pen_of_covers hcy] at this
  have : B * sumTo x p.numVars ≤ B * sumTo y p.numVars := by linarith
  exact le_of_mul_le_mul_left this hB

/-- **T10.2** `is_solution_valid` on a converted solution (a vertex set) holds iff every edge has an endpoint in it -/
theorem vc_valid_iff (p : VC) (c : List Var) :
    p.validConv c = true ↔ ∀ e ∈ p.edges, e.1 ∈ c ∨ e.2 ∈ c :=
  vc_validConv_iff p c

example : ((VC.toQubo ⟨[(5, 7), (7, 9), (9, 9)]⟩ 2 1).toOption.isSome) = true := by decide +kernel
example : (VC.numVars ⟨[(5, 7), (7, 9), (9, 9)]⟩) = 3 := by decide +kernel

/-! ## BILP -/

/-- **T10.1** `⟦to_qubo(A, B)⟧x = B c·x + A Σ_j (b_j - S_j·x)^2` (`A = None` means `B·N`) -/
theorem bilp_energy (p : BILP) (A : Option Rat) (B : Rat) (Q : Poly) (h : p.toQubo A B = .ok Q) (x : Var → Rat)
    (hx : IsBool x) : eval x Q = B * dotFrom x p.c 0 + p.weightA A B * sqRes x p.S p.b :=
  bilp_toQubo_eval' p A B Q x hx h

/-- **T10.3** `B > 0`, `A > B Σ|c|`, integer `S` and `b`, a feasible instance: every ground state `x` of `to_qubo(A, B)`
satisfies `S x = b`, has energy `B c·x`, and no feasible point has a smaller objective. -/
theorem bilp_ground_states (p : BILP) (A : Option Rat) (B : Rat) (hB : 0 < B)
    (hA : B * sumAbs p.c < p.weightA A B) (hS : ∀ row ∈ p.S, IntList row) (hb : IntList p.b)
    (Q : Poly) (h : p.toQubo A B = .ok Q)
    (y0 : Var → Rat) (hy0 : IsBool y0) (hf0 : Feasible y0 p.S p.b)
    (x : Var → Rat) (hx : IsBool x) (hg : ∀ y, IsBool y → eval x Q ≤ eval y Q) :
    Feasible x p.S p.b ∧ eval x Q = B * dotFrom x p.c 0 ∧
      ∀ y, IsBool y → Feasible y p.S p.b → dotFrom x p.c 0 ≤ dotFrom y p.c 0 := by
  have ev := fun (y : Var → Rat) (hy : IsBool y) => bilp_toQubo_eval' p A B Q y hy h
  have hfx : Feasible x p.S p.b := by
    by_contra hn
    have hlt := bilp_infeasible_higher hB hA hS hb hx hy0 hf0 hn
    have := hg y0 hy0
    rw [ev x hx, ev y0 hy0] at this
    linarith
  refine ⟨hfx, by rw [ev x hx, sqRes_of_feasible hfx]; ring, fun y hy hfy => ?_⟩
  have := hg y hy
  rw [ev x hx, ev y hy, sqRes_of_feasible hfx, sqRes_of_feasible hfy] at this
  have : B * dotFrom x p.c 0 ≤ B * dotFrom y p.c 0 := by linarith
  exact le_of_mul_le_mul_left this hB

/-- **T10.2** integer dtypes (`exact = true`, the code since upstream 131e8ef): `is_solution_valid` on a converted
solution holds iff every row satisfies `S_j · x = b_j` exactly. -/
theorem bilp_valid_exact_int (p : BILP) (xs : List Rat) :
    p.validConv xs true = true ↔ ∀ rb ∈ p.S.zip p.b, dot rb.1 xs = rb.2 := by
  simp [BILP.validConv, List.all_eq_true]

/-- **T10.2 (partial: non-integer dtypes keep `np.allclose`).** on integers the tolerant test of one row is exact as
long as `|b_j| ≤ 99999` … -/
theorem bilp_valid_entry_partial (a b : Rat) (ha : ∃ z : Int, a = z) (hb : ∃ z : Int, b = z)
    (hsmall : absR b ≤ 99999) : closeTo a b = true ↔ a = b := by
  unfold closeTo
  rw [decide_eq_true_iff]
  constructor
  · intro h
    obtain ⟨za, hza⟩ := ha
    obtain ⟨zb, hzb⟩ := hb
    have hint : ∃ z : Int, a - b = z := ⟨za - zb, by rw [hza, hzb]; push_cast; ring⟩
    have hlt : absR (a - b) < 1 := by
      have : (1 : Rat) / 100000000 + 1 / 100000 * absR b < 1 := by nlinarith
      linarith
    rcases Qv.Logic.int_sq_cases hint with h0 | h1
    · linarith
    · exfalso
      unfold absR at hlt
      split at hlt <;> nlinarith
  · intro h
    rw [h]
    have : absR (b - b) = 0 := by simp [absR]
    rw [this]
    have := absR_nonneg b
    nlinarith

/-- … and beyond that bound the tolerant test accepts an infeasible point (`S x = 100001`, `b = 100000`).  Before
upstream 131e8ef this path was taken for integer data too (the defect `C10:BILP-allclose-accepts-infeasible`); it now
only applies to float / object dtypes. -/
theorem bilp_valid_tolerance_counterexample :
    BILP.validConv ⟨[1], [[100001]], [100000], 1⟩ [1] = true ∧ dot [100001] [1] ≠ (100000 : Rat) := by
  decide +kernel

example : ((BILP.new [1, 2, -1] [[1, 0, 0], [0, 1, -1]] [0, 1]).toOption.bind
    (fun p => (p.toQubo none 1).toOption)).isSome = true := by decide +kernel
example : IntList [1, 0, -2] := by
  intro a ha
  simp only [List.mem_cons, List.not_mem_nil, or_false] at ha
  rcases ha with rfl | rfl | rfl
  · exact ⟨1, by norm_num⟩
  · exact ⟨0, by norm_num⟩
  · exact ⟨-2, by norm_num⟩

/-! ## SetCover, JobSequencing, GraphPartitioning — partial

For these three classes the ground-state sentences (T10.3) are **not** proved; they are checked by the enumeration
oracle of `harness/c10.py` (a test).  Proved for every instance: the closed energy forms (T10.1) of all three. -/

/-- **T10.1, SetCover.** `⟦to_qubo(A, B)⟧x = B Σ_i w_i x_i + A Σ_α penalty_α(x)` on boolean points, where for the element
`α` with index `ia` in `U` and `X_α = Σ_{i : α ∈ V_i} x_i` the penalty (`SC.elemPenalty`) is
`(1 + Σ_{m ≤ log M} 2^m x_{α,m} - X_α)^2` with `log_trick` and
`(1 - Σ_{m=1..M} x_{α,m})^2 + (Σ_m m x_{α,m} - X_α)^2` without — Lucas' `H_A + H_B` with the counters as written. -/
theorem sc_energy (p : SC) (A B : Rat) (Q : Poly) (h : p.toQubo A B = .ok Q) (x : Var → Rat) (hx : IsBool x) :
    eval x Q = B * dotFrom x p.weights 0 + A * sumIdx (p.elemPenalty x) p.U 0 := by
  have := eval_build (sqOK_bool (κ := .qubom) rfl hx) h
  rw [this, sc_ops_eval p A B hx]; simp

/-- **T10.1, JobSequencing.** `⟦to_qubo(A, B)⟧x = A Σ_j (1 - Σ_w x_{j,w})^2 + B Σ_j L_j x_{j,0} +
A Σ_{w≥1} (Y_w + Σ_j L_j (x_{j,w} - x_{j,0}))^2` — Lucas' `H_A + H_B` with the slack registers `Y_w = Σ_n c_n y_{n,w}`
(`c_n = 2^n` with `log_trick`, else `n + 1`) as written; `A = None` means `B · max length` (`JS.weightA`). -/
theorem js_energy (p : JS) (A : Option Rat) (B : Rat) (Q : Poly) (h : p.toQubo A B = .ok Q) (x : Var → Rat)
    (hx : IsBool x) :
    eval x Q =
      p.weightA A B * sumMap p.jobs (fun jl => (1 - p.S x jl.1) ^ 2) +
      B * sumMap p.jobs (fun jl => jl.2 * x (p.x jl.1 0)) +
      p.weightA A B * sumMap ((List.range p.m).drop 1) (fun w => (p.Y x w + p.D x w) ^ 2) := by
  rw [js_build_eval p A B Q h x hx, js_ops_eval]

/-- **T10.1, GraphPartitioning.** `⟦to_quso(A, B)⟧z = A (Σ_{i<N} z_i)^2 + B Σ_e w_e / 2 - Σ_e (w_e B / 2) z_u z_v`
`= A (Σ z_i)^2 + B Σ_e w_e (1 - z_u z_v)/2` for every instance, every `A` (`None` = `min(2·degree, N)·B/8`,
`GP.weightA`) and `B`: the balance penalty `PCSO().add_constraint_eq_zero({(i,): 1 …}, lam=A)` always takes the squaring
branch (the shortcut and the one-sided branches are excluded by the values at the all-zeros and all-ones points). -/
theorem gp_energy (p : GP) (A : Option Rat) (B : Rat) (L : Poly) (h : p.toQuso A B = .ok L) (z : Var → Rat)
    (hz : IsSpin z) :
    eval z L = p.weightA A B * (sumTo z p.numVars) ^ 2 + B * sumL (p.edges.map Prod.snd) / 2 -
      cutSum p.order B z p.edges :=
  gp_toQuso_eval p A B L h z hz

/-- the balance penalty alone: `⟦PCSO().add_constraint_eq_zero({(i,): 1 for i < N}, lam)⟧z = lam (Σ_{i<N} z_i)^2` -/
theorem gp_balance_penalty (N : Nat) (lam : Rat) (pen : Poly)
    (h : pcsoEqZeroTerms ((List.range N).map (fun i => ([i], (1 : Rat)))) lam = .ok pen)
    (z : Var → Rat) (hz : IsSpin z) : eval z pen = lam * (sumTo z N) ^ 2 :=
  pcso_eqZero_linear N lam pen h z hz

/-- **T10.2** `is_solution_valid` on converted solutions: GraphPartitioning compares the sizes of the two parts -/
theorem gp_valid_iff (c : List Var × List Var) : GP.validConv c = true ↔ c.1.length = c.2.length := by
  simp [GP.validConv]

example : ((SC.new [0, 1, 2] [[0, 1], [2], [1, 2]] none true none).toOption.bind
    (fun p => (p.toQubo 2 1).toOption)).isSome = true := by decide +kernel
example : ((JS.new [(0, 1), (1, 2)] 2 false none).toOption.bind
    (fun p => (p.toQubo none 1).toOption)).isSome = true := by decide +kernel
example : ((GP.toQuso ⟨[((0, 1), 1), ((1, 2), 1/2), ((3, 3), 1)], [2, 0, 3, 1]⟩ none 1).toOption.isSome) = true := by
  decide +kernel

end Qv.C10
