import Qv.Proofs.SymbolicLogic
import Qv.Proofs.SymbolicSpin
/-!
# C16 — Symbolic coefficients commute with substitution

Only the property theorems and their non-vacuity examples (helper lemmas: `Qv/Proofs/Symbolic*.lean`).

Setting (DESIGN.md §4/C16, `Qv/Model/Symbolic.lean`).  Only the *weight* of a constraint / the penalty of a
reduction is ever symbolic.  `penaltyCore rel P lt b sup anc` (resp. `logicCore`, `reduceParts`) is the rational model
run with weight `1` on an empty PCBO with ancilla counter `anc`; it has no `lam` argument, so whatever it returns — the
polynomial `G`, the ancilla counter, the recorded constraints, the warnings, the reduction steps — is independent of
`lam` by construction.  `RatPoly` is ℚ[λ] (normalised coefficient lists), `RatPoly.X` the symbol, `RatPoly.evalAt c`
the substitution `λ ↦ c`; `symConstraint S w …` is the symbolic state `S + w • G`, `subsR (evalAt c)` is
`DictArithmetic.subs`.  `get p k` is the coefficient of the dict `p` at the key `k` (0 when absent): two dicts with
the same `get` at every key are the same model up to insertion order.

* **T16.0** (linearity in the weight) `T16_0_comparison`, `T16_0_comparison_iadd`, `T16_0_logic`, `T16_0_reduce`.
* **generic layer** `generic_layer`, `subs_reads_coefficients`, `subs_drops_zeros`, `evalAt_hom`, `generic_layer_at_Rat`.
* **T16.1** (substitution commutes) `T16_1_comparison`, `T16_1_history`, `T16_1_logic`.
* **T16.2** (reduction) `T16_2_reduce`, `pubo_to_puso_commutes`.
* **T16.3** (`subs` returns a new object, the original is unchanged) is a fact of the pure model — `subsR` is a
  function, there is nothing to mutate — and is therefore *not* a theorem here; on the real objects it is checked by
  the snapshot oracle (iii) of `harness/c16.py`.

What carries "the Python code run on a sympy symbol computes `S + w • G`" is **not** a theorem but the correspondence
check (i) of `harness/c16.py` (sympy's normal form of polynomial expressions in one symbol is trusted to be that of
ℚ[λ]).  The theorems say: *if* the symbolic run is `S + w • G` — which (i) checks coefficient by coefficient — then
substituting `c` gives the direct numeric build, for every model, every constraint, every `c` with `w(c) ≠ 0`.
-/
namespace Qv.C16
open Qv Qv.PcboP Qv.Sym Qv.Reduce

/-! ## T16.0 — linearity in the weight -/

/-- **T16.0 (comparison builders).**  For each of the six relations, both `log_trick`, every bounds argument, every
`suppress_warnings`, every state `st` (a dict: distinct keys) and every rational weight `lam ≠ 0`: the call adds
`lam • G` coefficientwise, and the ancilla counter, the recorded constraints, the warnings and the branch taken are
those of the `lam`-free core. -/
theorem T16_0_comparison (rel : Rel) (st : St) (P : Poly) (lam : Rat) (lt : Bool) (b : Option Rat × Option Rat)
    (sup : Bool) (hl : lam ≠ 0) (hst : (keys st.terms).Nodup) :
    (∀ k, get (addConstraint rel st P lam lt b sup).terms k
        = get st.terms k + lam * get (penaltyCore rel P lt b sup st.anc).G k) ∧
    (addConstraint rel st P lam lt b sup).anc = (penaltyCore rel P lt b sup st.anc).anc ∧
    (addConstraint rel st P lam lt b sup).cons = st.cons ++ (penaltyCore rel P lt b sup st.anc).cons ∧
    (addConstraint rel st P lam lt b sup).warns = st.warns ++ (penaltyCore rel P lt b sup st.anc).warns ∧
    (addConstraint rel st P lam lt b sup).tags = st.tags ++ (penaltyCore rel P lt b sup st.anc).tags := by
  have h := penaltyCore_sim rel st P lam lt b sup hl hst
  refine ⟨h.terms, h.anc, ?_, h.warns, h.tags⟩
  rw [addConstraint_cons]
  show _ = st.cons ++ (addConstraint rel { anc := st.anc } P 1 lt b sup).cons
  rw [addConstraint_cons]; rfl

/-- **T16.0, in the words of the code.**  The new term dict has the same coefficient at every key as
`st.terms += lam * G` (`iaddB st.terms (scaleB lam G)`), and `G` is itself a stored dict (distinct, sorted,
duplicate-free keys). -/
theorem T16_0_comparison_iadd (rel : Rel) (st : St) (P : Poly) (lam : Rat) (lt : Bool) (b : Option Rat × Option Rat)
    (sup : Bool) (hl : lam ≠ 0) (hst : (keys st.terms).Nodup) :
    (∀ k, get (addConstraint rel st P lam lt b sup).terms k
        = get (iaddB st.terms (scaleB lam (penaltyCore rel P lt b sup st.anc).G)) k) ∧
    CanonP squashB (penaltyCore rel P lt b sup st.anc).G := by
  have hG := penaltyCore_canon rel P lt b sup st.anc
  refine ⟨fun k => ?_, hG⟩
  rw [get_iaddB_scaleB hst hG, (penaltyCore_sim rel st P lam lt b sup hl hst).terms k]
  rfl

/-- **T16.0 (the sixteen logical methods).**  For `add_constraint_G` / `add_constraint_eq_G`, every operand list,
every state and every `lam ≠ 0`: the call raises exactly when the core does (same exception), and otherwise adds
`lam • G` coefficientwise with the core's ancilla counter, recorded constraint and warnings. -/
theorem T16_0_logic (eq : Bool) (g : Gate) (ops : List SVal) (st : St) (lam : Rat) (hl : lam ≠ 0)
    (hst : (keys st.terms).Nodup) :
    match consLogic eq g st ops lam, logicCore eq g ops st.anc with
    | .ok st', .ok core =>
      (∀ k, get st'.terms k = get st.terms k + lam * get core.G k) ∧ st'.anc = core.anc ∧
      st'.cons = st.cons ++ core.cons ∧ st'.warns = st.warns ++ core.warns
    | .error e, .error e' => e = e'
    | _, _ => False := by
  have h := logicCore_sim eq g ops st lam hl hst
  unfold logicCore
  cases e1 : consLogic eq g st ops lam <;> cases e2 : consLogic eq g { anc := st.anc } ops 1 <;>
    rw [e1, e2] at h <;> simp only [ESim] at h
  · exact h
  · exact ⟨h.1.terms, h.1.anc, h.2, h.1.warns⟩

/-- **T16.0 (reduction).**  For every penalty setting `lam` (`None`, a number, any callable of the menu), the reduced
polynomial is coefficientwise `D₀ + Σ_t lam(v_t) • gadget_t`, where `D₀`, the gadgets (the chosen pairs and the
ancilla labels) and the next free label are those of the run with the constant penalty `1` (`reduceParts` has no
`lam` argument); the runs raise the same exception. -/
theorem T16_0_reduce (terms : Poly) (m : Mapping) (n d : Nat) (lam : Lam) (pairs : List Key) :
    match reduceCore terms m n d lam pairs, reduceParts terms m n d pairs with
    | .ok o, .ok p => (∀ k, get o.D k = get p.D0 k + gsum lam.app p.gadgets k) ∧ o.next = p.next ∧ (keys o.D).Nodup
    | .error e, .error e' => e = e'
    | _, _ => False :=
  reduceCore_lin terms m n d lam pairs

/-! ## the generic layer -/

/-- `subs(λ ↦ c)` on coefficients is a ring homomorphism ℚ[λ] → ℚ on the normalised representation, and sends the
symbol to `c`. -/
theorem evalAt_hom (c : Rat) : Hom (RatPoly.evalAt c) ∧ RatPoly.evalAt c RatPoly.X = c :=
  ⟨hom_evalAt c, evalAt_X c⟩

/-- **Generic-layer lemma** (proved once, for every coefficient type and homomorphism; used at `ℚ[λ]`, `evalAt c`).
For a dict `S` with distinct keys, a weight `w` and a stored numeric dict `G`: coefficientwise
`φ (S + w • G) = φ S + φ w * G` — `φ` commutes with `iadd` and `scale` up to the zero coefficients that
`__setitem__` drops. -/
theorem generic_layer {R : Type} [Coef R] {φ : R → Rat} (hφ : Hom φ) (S : PolyR R) (w : R) {G : Poly}
    (hG : CanonP squashB G) (hS : (keysR S).Nodup) (k : Key) :
    φ (getR (symAdd squashB S w G) k) = φ (getR S k) + φ w * get G k ∧ (keysR (symAdd squashB S w G)).Nodup :=
  ⟨phi_get_symAdd hφ squashB_idem S w hG hS k, nodup_symAdd squashB S w G hS⟩

/-- `subs` reads `φ` of every coefficient: the substituted dict has the coefficient `φ (S[k])` at every key -/
theorem subs_reads_coefficients {R : Type} [Coef R] {φ : R → Rat} (hφ : Hom φ) (S : PolyR R) (hS : (keysR S).Nodup)
    (k : Key) : get (subsR φ S) k = φ (getR S k) :=
  get_subsR hφ S k hS

/-- … and stores no zero: a coefficient such as `2λ - 2` is present symbolically and is dropped at `c = 1`,
exactly as `d[k] = val` does; keys stay distinct -/
theorem subs_drops_zeros {R : Type} [Coef R] (φ : R → Rat) (S : PolyR R) :
    (∀ kv ∈ subsR φ S, kv.2 ≠ 0) ∧ (keys (subsR φ S)).Nodup :=
  ⟨subsR_no_zero φ S, nodup_subsR φ S⟩

/-- the `Rat` instance of the generic layer is the rational dict layer the C02/C06/C01 models are written in -/
theorem generic_layer_at_Rat (p q : Poly) (c : Rat) (k : Key) (v : Rat) :
    iaddR (R := Rat) squashB p q = iaddB p q ∧ scaleR (R := Rat) squashB c q = scaleB c q ∧
    setR (R := Rat) p k v = set p k v ∧ getR (R := Rat) p k = get p k :=
  ⟨iaddR_rat p q, scaleR_rat c q, setR_rat p k v, getR_rat p k⟩

/-! ## T16.1 — substitution commutes with the constraint builders -/

/-- **T16.1 (one comparison constraint).**  Let the numeric state `st` agree with the symbolic state `S` under
`λ ↦ c` (`Agree`: same coefficient `S[k](c)` at every key, same counter, constraints, warnings — e.g. `st = S.subs c`,
`agree_subs`).  For every weight polynomial `w` with `w(c) ≠ 0` (for the symbol itself: `c ≠ 0`, in particular every
`c > 0`), the symbolic step `S + w • G` and the direct numeric step with the number `w(c)` agree again: terms
coefficientwise after `subs`, ancilla counter, recorded constraints, warnings. -/
theorem T16_1_comparison (c : Rat) (S : SymSt RatPoly) (st : St) (h : Agree c S st) (w : RatPoly)
    (hw : w.evalAt c ≠ 0) (rel : Rel) (P : Poly) (lt : Bool) (b : Option Rat × Option Rat) (sup : Bool) :
    Agree c (symConstraint S w rel P lt b sup) (addConstraint rel st P (w.evalAt c) lt b sup) ∧
    ∀ k, get (subsR (RatPoly.evalAt c) (symConstraint S w rel P lt b sup).terms) k
        = get (addConstraint rel st P (w.evalAt c) lt b sup).terms k := by
  have ha := agree_symConstraint h w hw rel P lt b sup
  exact ⟨ha, fun k => by rw [get_subsR (hom_evalAt c) _ k ha.ndS, ha.terms k]⟩

/-- the substituted state agrees with the symbolic one (the start of every history) -/
theorem T16_1_start (c : Rat) (S : SymSt RatPoly) (h : (keysR S.terms).Nodup) :
    Agree c S (S.subs (RatPoly.evalAt c)) :=
  agree_subs c S h

/-- **T16.1 (histories).**  For every sequence of comparison constraints with weights `w_i`, `w_i(c) ≠ 0`, on any
symbolic model: building symbolically and substituting `c` gives the same model — coefficients, ancilla counter,
recorded constraints, warnings — as substituting first and building with the numbers `w_i(c)`. -/
theorem T16_1_history (c : Rat) (S : SymSt RatPoly) (hS : (keysR S.terms).Nodup) (h : List CStep)
    (hw : ∀ x ∈ h, x.w.evalAt c ≠ 0) :
    (∀ k, get (subsR (RatPoly.evalAt c) (symRun S h).terms) k
        = get (numRun c (S.subs (RatPoly.evalAt c)) h).terms k) ∧
    (numRun c (S.subs (RatPoly.evalAt c)) h).anc = (symRun S h).anc ∧
    (numRun c (S.subs (RatPoly.evalAt c)) h).cons = (symRun S h).cons ∧
    (numRun c (S.subs (RatPoly.evalAt c)) h).warns = (symRun S h).warns := by
  have ha := agree_run h hw (agree_subs c S hS)
  exact ⟨fun k => by rw [get_subsR (hom_evalAt c) _ k ha.ndS, ha.terms k], ha.anc, ha.cons, ha.warns⟩

/-- **T16.1 (logical methods).**  The same for each of the sixteen logical methods: the symbolic and the numeric call
raise the same exception or lead to agreeing states. -/
theorem T16_1_logic (c : Rat) (S : SymSt RatPoly) (st : St) (h : Agree c S st) (w : RatPoly)
    (hw : w.evalAt c ≠ 0) (eq : Bool) (g : Gate) (ops : List SVal) :
    match symLogic S w eq g ops, consLogic eq g st ops (w.evalAt c) with
    | .ok S', .ok st' => Agree c S' st'
    | .error e, .error e' => e = e'
    | _, _ => False :=
  agree_symLogic h w hw eq g ops

/-! ## T16.2 — substitution commutes with the reduction -/

/-- **T16.2.**  `to_pubo(deg)` / `to_qubo` / `to_puso(deg)` of a boolean (`spin = false`) or spin (`spin = true`:
through `puso_to_pubo`, or the no-reduction shortcut) model with the symbolic penalty `w` used as a constant or through
the menu callables `v ↦ w`, `v ↦ |v|·w`, `v ↦ v·w`: the symbolic result and the direct numeric route with `w(c)` in
place of `w` raise the same exception (`ValueError` for `deg < 2`, `KeyError` for an unmapped label), or both are dicts
with distinct keys and the symbolic one substituted at `c` has the same coefficient at every key as the numeric one.
Holds for every `c` (no sign condition: a vanishing penalty adds nothing on both sides).  For `to_puso` this uses that
`pubo_to_puso` is linear in the coefficients (`puboToPuso_subs`).  (`to_quso` is covered by the correspondence only.) -/
theorem T16_2_reduce (spin : Bool) (t : Target) (ht : t ≠ .quso) (terms : Poly) (mp : Mapping) (n : Nat)
    (deg : Option Nat) (m : LamMenu) (w : RatPoly) (pairs : List Key) (c : Rat) :
    SubsAgree c (symRoute spin t terms mp n deg m w pairs)
      ((route spin t terms mp n deg (m.num (w.evalAt c)) pairs).map (fun o => o.res)) := by
  cases spin <;> cases t
  · exact symRouteBool_subs .qubo (Or.inr rfl) terms mp n deg m w pairs c
  · exact absurd rfl ht
  · exact symRouteBool_subs .pubo (Or.inl rfl) terms mp n deg m w pairs c
  · exact symRouteBool_subs_puso terms mp n deg m w pairs c
  · exact symRouteSpin_subs .qubo (Or.inr rfl) terms mp n deg m w pairs c
  · exact absurd rfl ht
  · exact symRouteSpin_subs .pubo (Or.inl rfl) terms mp n deg m w pairs c
  · exact symRouteSpin_subs_puso terms mp n deg m w pairs c

/-- `pubo_to_puso` commutes with `subs`: if `P` substituted at `c` is `D` coefficientwise (both dicts), then
`pubo_to_puso(P)` substituted at `c` is `pubo_to_puso(D)` coefficientwise.  (This is also the step by which a PCSO
constraint penalty `pubo_to_puso(w • G)` commutes with substitution.) -/
theorem pubo_to_puso_commutes (c : Rat) (P : PolyR RatPoly) (D : Poly) (hP : (keysR P).Nodup) (hD : (keys D).Nodup)
    (hag : ∀ k, get (subsR (RatPoly.evalAt c) P) k = get D k) (k : Key) :
    get (subsR (RatPoly.evalAt c) (puboToPusoR P)) k = get (puboToPuso D) k :=
  (puboToPuso_subs c P D hP hD hag).2.2 k

/-! ## non-vacuity: concrete instances -/

/-- `2x + 3y - 4` -/
def exP : Poly := [([0], 2), ([1], 3), ([], -4)]

/-- the symbolic objective `12·x₀` (a numeric coefficient) -/
def exS : SymSt RatPoly := { terms := lift [([0], 12)] }

-- the core of `2x+3y-4 <= 0` (log trick, computed bounds): three slack ancillas, 16 terms, coefficient -12 at x0
example : (penaltyCore .le exP true (none, none) false 0).anc = 3 := by decide +kernel
example : (penaltyCore .le exP true (none, none) false 0).G.length = 16 := by decide +kernel
example : get (penaltyCore .le exP true (none, none) false 0).G [0] = -12 := by decide +kernel
example : (penaltyCore .le exP true (none, none) false 0).tags = ["eq-square", "le-logslack"] := by decide +kernel
-- hypotheses of T16.0 / T16.1: a dict state, a non-zero weight
example : (keys ({ terms := [([0], 12)] } : St).terms).Nodup := by decide
example : (keysR exS.terms).Nodup := by decide
example : RatPoly.evalAt (5 / 2) RatPoly.X ≠ 0 := by decide +kernel
-- symbolically the coefficient at x0 is `12 - 12λ`; it is present …
example : getR (symConstraint exS RatPoly.X .le exP true (none, none) false).terms [0] = ⟨[12, -12]⟩ := by
  decide +kernel
-- … and `subs(λ ↦ 1)` drops it (15 of 16 terms remain), while `subs(λ ↦ 2)` keeps `-12`
example : (subsR (RatPoly.evalAt 1) (symConstraint exS RatPoly.X .le exP true (none, none) false).terms).length = 15 := by
  decide +kernel
example : get (subsR (RatPoly.evalAt 2) (symConstraint exS RatPoly.X .le exP true (none, none) false).terms) [0] = -12 := by
  decide +kernel
-- a logical method and a reduction with a menu callable
example : (logicCore true .and [.lbl 0, .lbl 1, .lbl 2] 0).toOption.map (fun c => c.G.length) = some 4 := by
  decide +kernel
example : (reduceParts [([0, 1, 2], 2), ([0, 1], -1)] [(0, 0), (1, 1), (2, 2)] 3 2 []).toOption.map
    (fun p => (p.gadgets.length, p.next)) = some (1, 4) := by decide +kernel
example : (symRoute (R := RatPoly) false .qubo [([0, 1, 2], 2), ([0, 1], -1)] [(0, 0), (1, 1), (2, 2)] 3 none .absv
    RatPoly.X []).toOption.map (fun D => getR D [3]) = some ⟨[0, 6]⟩ := by decide +kernel

end Qv.C16
