import Qv.Proofs.LogicEqMethods
import Qv.Proofs.LogicVarsMethods
import Qv.Proofs.LogicSExpr
/-!
# C06 — Logical constraint methods penalise exactly the violating assignments

Only the property theorems and their non-vacuity examples live here; the lemmas are in
`Qv/Proofs/Logic{EqZero,Gates,Methods,EqMethods}.lean` (namespace `Qv.Logic`).  The model is
`Qv.Model.PcboLogic` (the sixteen methods) on `Qv.Model.Pcbo` (`addEqZero`) and `Qv.Model.Sat` (the gates); its
tie to `qubovert/_pcbo.py:1344-2021` is the correspondence check `harness/c06.py`.

Vocabulary (defined in `Qv/Proofs/LogicGates.lean`, `LogicMethods.lean`):
* `OpOK v` — `v` is a label, or a plain dict / canonical boolean model taking values in `{0,1}` on every boolean
  assignment (a built nested sat expression is one: `gate_operand_ok`);
* `T x v` — operand `v` is true at `x` (its value is `1`); `AllT`, `AnyT`, `OddT` — all / some / an odd number of
  the operands are true;
* `Penalises s s' lam x G` — T6.1–T6.3 at `x`, spelled out by `penalises_iff`;
* `VarsIn S p` / `SValIn S v` — every label occurring in (a key of) the polynomial / operand satisfies `S`.
-/
namespace Qv.C06
open Qv Qv.Logic

/-- the reading of `Penalises`: with `F x = ⟦s'.terms⟧x - ⟦s.terms⟧x` the added terms,
T6.1 `G → F x = 0` and `¬G → F x ≥ lam`; T6.2 the ancilla counter is unchanged; T6.3
`is_solution_valid` after the call holds at `x` iff it held before and `G`. -/
theorem penalises_iff (s s' : St) (lam : Rat) (x : Var → Rat) (G : Prop) :
    Penalises s s' lam x G ↔
      ((G → eval x s'.terms - eval x s.terms = 0) ∧ (¬ G → lam ≤ eval x s'.terms - eval x s.terms) ∧
        s'.anc = s.anc ∧ (isValid s' x = true ↔ (isValid s x = true ∧ G))) :=
  ⟨fun h => ⟨h.zero, h.pen, h.anc, h.valid⟩, fun h => ⟨h.1, h.2.1, h.2.2.1, h.2.2.2⟩⟩

/-! ## L6.0 — `add_constraint_eq_zero`, including the `z == x*y` shortcut -/

/-- **L6.0.**  `P` a PUBO (no zero coefficient), `lam > 0`, `x` boolean, `P x` an integer lying within the bounds
the call works with (`getBounds P b`: the declared ones, the computed ones where `None`).  Then the added terms
vanish at `x` iff `P x = 0`, and are at least `lam` otherwise — whichever of the shortcut and the six bounds
branches the code takes.  The constraint is recorded and no ancilla is drawn. -/
theorem eq_zero_correct (s : St) (P : Poly) (lam : Rat) (b : Option Rat × Option Rat) (sup : Bool)
    (x : Var → Rat) (hx : IsBool x) (hnz : ∀ kv ∈ P, kv.2 ≠ 0) (hlam : 0 < lam)
    (hint : ∃ z : Int, eval x P = z)
    (hlo : (getBounds P b).1 ≤ eval x P) (hhi : eval x P ≤ (getBounds P b).2) :
    (eval x (addEqZero s P lam b sup).terms - eval x s.terms = 0 ↔ eval x P = 0) ∧
    (eval x P ≠ 0 → lam ≤ eval x (addEqZero s P lam b sup).terms - eval x s.terms) ∧
    (addEqZero s P lam b sup).cons = s.cons ++ [(.eq, P)] ∧ (addEqZero s P lam b sup).anc = s.anc :=
  ⟨(addEqZero_point hx hnz hlam hint hlo hhi).1, (addEqZero_point hx hnz hlam hint hlo hhi).2,
    (addEqZero_frame s P lam b sup).1, (addEqZero_frame s P lam b sup).2⟩

/-- **L6.0, exact form.**  If `0` is a valid lower bound of `P` on all boolean assignments and the declared upper
bound is positive, the shortcut cannot fire and the added terms are exactly `lam * P` (this is what lets
`PCBO().add_constraint_OR(…)` be used as a polynomial inside `eq_OR`, `NOR`, …). -/
theorem eq_zero_exact (s : St) (P : Poly) (lam hi : Rat) (sup : Bool)
    (hnz : ∀ kv ∈ P, kv.2 ≠ 0) (hl : lam ≠ 0) (hhi : 0 < hi)
    (hpos : ∀ y : Var → Rat, IsBool y → 0 ≤ eval y P) (x : Var → Rat) (hx : IsBool x) :
    eval x (addEqZero s P lam (some 0, some hi) sup).terms = eval x s.terms + lam * eval x P :=
  addEqZero_exact hnz hl hhi hpos hx

/-- **Generic lemma** used for all sixteen methods: a canonical `P`, integer-valued at `x` and within the declared
bounds at `x`, handed to `add_constraint_eq_zero(P, lam, bounds=(lo, hi))` gives T6.1–T6.3 with gate `P x = 0`. -/
theorem generic (s s' : St) (P : Val) (lam lo hi : Rat) (x : Var → Rat) (hx : IsBool x) (hlam : 0 < lam)
    (hP : Val.Good false P) (hint : ∃ z : Int, P.eval x = z) (hlo : lo ≤ P.eval x) (hhi : P.eval x ≤ hi)
    (h : eqZeroV s P lam lo hi = .ok s') : Penalises s s' lam x (P.eval x = 0) :=
  eqZeroV_spec hx hlam hP hint hlo hhi h

/-- a built nested sat expression over admissible operands is an admissible operand (any gate, any arity) -/
theorem gate_operand_ok (g : Gate) (vs : List SVal) (w : Val) (hvs : ∀ v ∈ vs, OpOK v)
    (h : applyGate g vs = .ok w) : OpOK (.val w) :=
  applyGate_ok hvs h

/-- operands written as (nested, any depth, any arity) sat expressions whose leaves are labels, `{0,1}`-valued
plain dicts or boolean-model constructors of `{0,1}`-valued dicts evaluate to admissible operands -/
theorem built_operands_ok (es : List SExpr) (vs : List SVal) (ho : SExprsOK es) (h : buildArgs es = .ok vs) :
    ∀ v ∈ vs, OpOK v :=
  buildArgs_ok es ho h

/-! ## T6.1–T6.3 for `add_constraint_G`

All operand lists, all `lam > 0`, every state `s`, every boolean `x`.  For `OR/NOR/XOR/XNOR` the list must be
non-empty: qubovert defines `OR() = XOR() = 1`, so the empty call penalises nothing resp. everything. -/

theorem not_spec (s s' : St) (a : SVal) (lam : Rat) (x : Var → Rat) (ha : OpOK a) (hlam : 0 < lam)
    (hx : IsBool x) (h : consNOT s a lam = .ok s') : Penalises s s' lam x (¬ T x a) :=
  ((consNOT_both ha h).2 hlam x hx).congr (zero_iff_not_one (ha.ev01 hx))

theorem buffer_spec (s s' : St) (a : SVal) (lam : Rat) (x : Var → Rat) (ha : OpOK a) (hlam : 0 < lam)
    (hx : IsBool x) (h : consBUFFER s a lam = .ok s') : Penalises s s' lam x (T x a) :=
  ((consBUFFER_both ha h).2 hlam x hx).congr one_sub_zero_iff

theorem and_spec (s s' : St) (vs : List SVal) (lam : Rat) (x : Var → Rat) (hvs : ∀ v ∈ vs, OpOK v)
    (hlam : 0 < lam) (hx : IsBool x) (h : consAND s vs lam = .ok s') : Penalises s s' lam x (AllT x vs) :=
  ((consAND_both hvs h).2 hlam x hx).congr (one_sub_zero_iff.trans (andR_fact (allOK_ev01 hvs hx)).2)

theorem nand_spec (s s' : St) (vs : List SVal) (lam : Rat) (x : Var → Rat) (hvs : ∀ v ∈ vs, OpOK v)
    (hlam : 0 < lam) (hx : IsBool x) (h : consNAND s vs lam = .ok s') : Penalises s s' lam x (¬ AllT x vs) :=
  ((consNAND_both hvs h).2 hlam x hx).congr
    ((zero_iff_not_one (andR_fact (allOK_ev01 hvs hx)).1).trans (not_congr (andR_fact (allOK_ev01 hvs hx)).2))

theorem or_spec (s s' : St) (vs : List SVal) (lam : Rat) (x : Var → Rat) (hvs : ∀ v ∈ vs, OpOK v)
    (hne : vs ≠ []) (hlam : 0 < lam) (hx : IsBool x) (h : consOR s vs lam = .ok s') :
    Penalises s s' lam x (AnyT x vs) :=
  ((consOR_both hvs h).2 hlam x hx).congr (one_sub_zero_iff.trans (orG_fact hne (allOK_ev01 hvs hx)).2)

theorem nor_spec (s s' : St) (vs : List SVal) (lam : Rat) (x : Var → Rat) (hvs : ∀ v ∈ vs, OpOK v)
    (hne : vs ≠ []) (hlam : 0 < lam) (hx : IsBool x) (h : consNOR s vs lam = .ok s') :
    Penalises s s' lam x (¬ AnyT x vs) :=
  ((consNOR_both hvs h).2 hlam x hx).congr
    ((zero_iff_not_one (orG_fact hne (allOK_ev01 hvs hx)).1).trans (not_congr (orG_fact hne (allOK_ev01 hvs hx)).2))

theorem xor_spec (s s' : St) (vs : List SVal) (lam : Rat) (x : Var → Rat) (hvs : ∀ v ∈ vs, OpOK v)
    (hne : vs ≠ []) (hlam : 0 < lam) (hx : IsBool x) (h : consXOR s vs lam = .ok s') :
    Penalises s s' lam x (OddT x vs) :=
  ((consXOR_both hvs h).2 hlam x hx).congr (one_sub_zero_iff.trans (xorG_fact hne (allOK_ev01 hvs hx)).2)

theorem xnor_spec (s s' : St) (vs : List SVal) (lam : Rat) (x : Var → Rat) (hvs : ∀ v ∈ vs, OpOK v)
    (hne : vs ≠ []) (hlam : 0 < lam) (hx : IsBool x) (h : consXNOR s vs lam = .ok s') :
    Penalises s s' lam x (¬ OddT x vs) :=
  ((consXNOR_both hvs h).2 hlam x hx).congr
    ((zero_iff_not_one (xorG_fact hne (allOK_ev01 hvs hx)).1).trans (not_congr (xorG_fact hne (allOK_ev01 hvs hx)).2))

/-- the penalty of the eight `add_constraint_G` methods is *exactly* `lam` times the `{0,1}`-valued indicator of
the violation (stated for `OR`; the other seven are `cons*_both` in `Qv/Proofs/LogicMethods.lean`), and the
result is again stored canonically -/
theorem or_exact (s s' : St) (vs : List SVal) (lam : Rat) (hvs : ∀ v ∈ vs, OpOK v) (hl : lam ≠ 0)
    (hs : WF (squash .pubo) s.terms) (h : consOR s vs lam = .ok s') :
    WF (squash .pubo) s'.terms ∧
      ∀ y, IsBool y → eval y s'.terms = eval y s.terms + lam * (1 - orG y vs) :=
  (consOR_both hvs h).1 hl hs

/-! ## T6.1–T6.3 for `add_constraint_eq_G`

A successful call has at least two `variables` for `AND/NAND/OR/NOR` (fewer raise `ValueError`,
`eq_arity_error`); `eq_XOR/eq_XNOR` need a non-empty list for the parity reading. -/

theorem eq_and_spec (s s' : St) (a : SVal) (vs : List SVal) (lam : Rat) (x : Var → Rat) (ha : OpOK a)
    (hvs : ∀ v ∈ vs, OpOK v) (hlam : 0 < lam) (hx : IsBool x) (h : consEqAND s a vs lam = .ok s') :
    2 ≤ vs.length ∧ Penalises s s' lam x (T x a ↔ AllT x vs) :=
  consEqAND_pen ha hvs hlam hx h

theorem eq_nand_spec (s s' : St) (a : SVal) (vs : List SVal) (lam : Rat) (x : Var → Rat) (ha : OpOK a)
    (hvs : ∀ v ∈ vs, OpOK v) (hlam : 0 < lam) (hx : IsBool x) (h : consEqNAND s a vs lam = .ok s') :
    2 ≤ vs.length ∧ Penalises s s' lam x (T x a ↔ ¬ AllT x vs) :=
  consEqNAND_pen ha hvs hlam hx h

theorem eq_or_spec (s s' : St) (a : SVal) (vs : List SVal) (lam : Rat) (x : Var → Rat) (ha : OpOK a)
    (hvs : ∀ v ∈ vs, OpOK v) (hlam : 0 < lam) (hx : IsBool x) (h : consEqOR s a vs lam = .ok s') :
    2 ≤ vs.length ∧ Penalises s s' lam x (T x a ↔ AnyT x vs) :=
  consEqOR_pen ha hvs hlam hx h

theorem eq_nor_spec (s s' : St) (a : SVal) (vs : List SVal) (lam : Rat) (x : Var → Rat) (ha : OpOK a)
    (hvs : ∀ v ∈ vs, OpOK v) (hlam : 0 < lam) (hx : IsBool x) (h : consEqNOR s a vs lam = .ok s') :
    2 ≤ vs.length ∧ Penalises s s' lam x (T x a ↔ ¬ AnyT x vs) :=
  consEqNOR_pen ha hvs hlam hx h

theorem eq_xor_spec (s s' : St) (a : SVal) (vs : List SVal) (lam : Rat) (x : Var → Rat) (ha : OpOK a)
    (hvs : ∀ v ∈ vs, OpOK v) (hne : vs ≠ []) (hlam : 0 < lam) (hx : IsBool x)
    (h : consEqXOR s a vs lam = .ok s') : Penalises s s' lam x (T x a ↔ OddT x vs) :=
  consEqXOR_pen ha hvs hne hlam hx h

theorem eq_xnor_spec (s s' : St) (a : SVal) (vs : List SVal) (lam : Rat) (x : Var → Rat) (ha : OpOK a)
    (hvs : ∀ v ∈ vs, OpOK v) (hne : vs ≠ []) (hlam : 0 < lam) (hx : IsBool x)
    (h : consEqXNOR s a vs lam = .ok s') : Penalises s s' lam x (T x a ↔ ¬ OddT x vs) :=
  consEqXNOR_pen ha hvs hne hlam hx h

theorem eq_buffer_spec (s s' : St) (a b : SVal) (lam : Rat) (x : Var → Rat) (ha : OpOK a) (hb : OpOK b)
    (hlam : 0 < lam) (hx : IsBool x) (h : consEqBUFFER s a b lam = .ok s') :
    Penalises s s' lam x (T x a ↔ T x b) :=
  consEqBUFFER_pen ha hb hlam hx h

/-- `add_constraint_eq_NOT(a, b)` enforces `NOT(a) == b` -/
theorem eq_not_spec (s s' : St) (a b : SVal) (lam : Rat) (x : Var → Rat) (ha : OpOK a) (hb : OpOK b)
    (hlam : 0 < lam) (hx : IsBool x) (h : consEqNOT s a b lam = .ok s') :
    Penalises s s' lam x (T x b ↔ ¬ T x a) :=
  consEqNOT_pen ha hb hlam hx h

/-! ## T6.2 — no label is introduced

`consLogic eq g` is the call `add_constraint_[eq_]g(*ops, lam=lam)` (it reduces by definition to the sixteen
`cons*` functions above, after Python's own arity check). -/

/-- **T6.2 (labels).**  For every predicate `S` on labels: if every label of the PCBO's terms and of the operands
satisfies `S`, so does every label of the terms after any of the sixteen calls.  (With `S` = "occurs in the old
terms or in an operand": the added terms are a polynomial in the operands' variables only.) -/
theorem no_new_labels (S : Var → Prop) (eq : Bool) (g : Gate) (s s' : St) (ops : List SVal) (lam : Rat)
    (hs : VarsIn S s.terms) (hops : ∀ v ∈ ops, SValIn S v) (h : consLogic eq g s ops lam = .ok s') :
    VarsIn S s'.terms :=
  consLogic_vars hs hops h

/-- no `__a` label: user labels are `< ANC`, ancilla `"__a<k>"` is `ANC + k` -/
theorem no_ancilla_label (eq : Bool) (g : Gate) (s s' : St) (ops : List SVal) (lam : Rat)
    (hs : VarsIn (· < ANC) s.terms) (hops : ∀ v ∈ ops, SValIn (· < ANC) v)
    (h : consLogic eq g s ops lam = .ok s') :
    (∀ kv ∈ s'.terms, ∀ i ∈ kv.1, i < ANC) :=
  consLogic_vars hs hops h

/-- the same for `add_constraint_eq_zero` itself (shortcut included) -/
theorem eq_zero_labels (S : Var → Prop) (s : St) (P : Poly) (lam : Rat) (b : Option Rat × Option Rat)
    (sup : Bool) (hs : VarsIn S s.terms) (hP : VarsIn S P) : VarsIn S (addEqZero s P lam b sup).terms :=
  addEqZero_vars hs hP lam b sup

/-- below two `variables` the four methods raise `ValueError` and nothing else happens -/
theorem eq_arity_error (s : St) (a : SVal) (vs : List SVal) (lam : Rat) (h : vs.length < 2) :
    consEqAND s a vs lam = .error .value ∧ consEqNAND s a vs lam = .error .value ∧
    consEqOR s a vs lam = .error .value ∧ consEqNOR s a vs lam = .error .value := by
  refine ⟨?_, ?_, ?_, ?_⟩ <;> simp only [consEqAND, consEqNAND, consEqOR, consEqNOR, h, if_true] <;> rfl

/-! ### Non-vacuity: concrete instances of the hypotheses -/

/-- a label and a `{0,1}`-valued plain dict `{(1,2): 1}` are admissible operands -/
example : OpOK (.lbl 7) := trivial
example : OpOK (.val (.raw [([1, 2], 1)])) :=
  ⟨trivial, fun y hy => by
    simp only [Val.eval, eval_cons, eval_nil, mon_cons, mon_nil]
    rcases hy 1 with h1 | h1 <;> rcases hy 2 with h2 | h2 <;> simp [h1, h2]⟩

/-- the calls succeed on concrete operands: five labels; a nested gate; the shortcut `a == AND(b,c)` -/
example : (consEqAND {} (.lbl 0) [.lbl 1, .lbl 2, .lbl 3, .lbl 4, .lbl 5] (1/3)).toOption.isSome = true := by
  decide +kernel
example : (consEqOR {} (.lbl 0) [.lbl 1, .lbl 2, .lbl 3] 2).toOption.isSome = true := by decide +kernel
example : (consEqNOR {} (.lbl 0) [.lbl 1, .lbl 2] 2).toOption.isSome = true := by decide +kernel
example : (consEqXOR {} (.lbl 0) [.lbl 1, .lbl 2, .lbl 1] 2).toOption.isSome = true := by decide +kernel
example : (consXNOR {} [.lbl 1, .val (.raw [([1, 2], 1)]), .lbl 3] (5/2)).toOption.isSome = true := by
  decide +kernel
example : ((do let g ← applyGate .and [.lbl 1, .lbl 2]; consEqBUFFER {} (.lbl 0) (.val g) 2).toOption.map
    (fun (st : St) => st.tags)) = some ["eq-special-and"] := by decide +kernel
example : (match consEqAND {} (.lbl 0) [.lbl 1] 1 with | .error .value => true | _ => false) = true := by
  decide +kernel

example : (consLogic true .xor {} [.lbl 0, .lbl 1, .lbl 2] 2).toOption.isSome = true := by decide +kernel
example : SValIn (· < ANC) (.lbl 3) := by show 3 < ANC; decide
example : SValIn (· < ANC) (.val (.raw [([1, 2], 1)])) := by
  intro kv hkv i hi
  simp only [List.mem_singleton] at hkv
  subst hkv
  simp only [List.mem_cons, List.not_mem_nil, or_false] at hi
  rcases hi with rfl | rfl <;> decide

example : SExprsOK [.lbl 0, .gate .nor [.lbl 1, .gate .and [.lbl 2, .lbl 1]]] := by
  simp [SExprsOK, SExprOK]
example : (buildArgs [.lbl 0, .gate .nor [.lbl 1, .gate .and [.lbl 2, .lbl 1]]]).toOption.isSome = true := by
  decide +kernel

example : IsBool (fun i => if i = 0 then 1 else 0) := by
  intro i; by_cases h : i = 0 <;> simp [h]

end Qv.C06
