import Qv.Proofs.KernelMemFront
import Qv.Proofs.KernelMemRefineP
/-!
# C17 — The C annealing kernels are memory-safe on every valid call

Only the property theorems and their non-vacuity examples.  The model is `Qv.Model.KernelMem`: a
checked-memory rendering of `qubovert/sim/_canneal.c` (`c_anneal_quso`, `c_anneal_puso`,
`build_py_states_values`), `src/anneal_quso.c` and `src/anneal_puso.c` in which every array is an
`Array (Option _)` with a liveness flag, every read/write/free is checked and every `int`/`long`/`size_t`
operation the C code performs is range-checked (`MemErr`).  "Returns `ok`" therefore means: no out-of-bounds
access, no read of an uninitialised cell, no use after free, no double free, no leak at return, no signed
overflow and no out-of-range narrowing in the modelled arithmetic.

The theorems hold for **every** number type (`double` is abstract), every random source and acceptance test
whose `rand_int(rng, N)` stays below `N` (`IndexOK`; proved for the PCG32 model), every schedule (including
`[]` and zero temperatures), both visiting orders, with or without initial state, and without size bounds other
than the C types' ranges.

`quso_refines` / `puso_refines` and their front-end forms (T17.3) identify, on `WF` arguments, the result of the
checked kernels with the result of the unchecked kernel model `Qv.Kernel.annealQuso` / `annealPuso`, so the
theorems of C11/C12 about the latter hold for the former (the driver also reports this identity on every call).

PARTIAL by design: what the compiler does with real undefined behaviour, CPython's C API (reference counts,
error indicators), the allocator and libm are outside the model; the tie of the model to the code is the
correspondence check `harness/c17.py` (ASan+UBSan runs of the current sources).

Finding D5 (repaired in /repo 958732b): `anneal_puso.c` used to execute `index[0] = 0` on
`malloc(num_terms * sizeof(long))` also when `num_terms == 0`, and the Python front end does not exclude that
case.  The model keeps both versions (`guard`): `puso_mem_safe` / `front_puso_mem_safe` are about the code as it
is now (`if(num_terms) index[0] = 0;`) and need no hypothesis on the number of terms; the last section documents
the code before the repair (`puso_mem_safe_partial` with the hypothesis the proof forced,
`puso_zero_terms_out_of_bounds` = the concrete failing input, now a regression input of `harness/c17.py`).
-/
namespace Qv.C17
open Qv Qv.Kernel Qv.Anneal Qv.KMem

variable {ρ α : Type} [Add α] [Mul α] [OfInt α]

/-! ### T17.1 — the kernels and their wrapper never leave their buffers on `WF` arguments -/

/-- `c_anneal_quso` (wrapper + `anneal_quso.c`) on arguments satisfying `WFQuso` returns without a memory
error: every buffer access in bounds, initialised and live, every index/size computation within its C type,
every buffer freed exactly once — and it returns `num_anneals` states of length `N` with entries `±1`. -/
theorem quso_mem_safe (src : Src ρ α) (h : List α) (nn nb : List Int) (J Ts : List α) (numAnneals : Int)
    (inOrder : Bool) (init : List Int) (rng : ρ) (hsrc : IndexOK src h.length)
    (wf : WFQuso h nn nb J Ts numAnneals init) :
    ∃ out, cAnnealQuso src h nn nb J Ts numAnneals inOrder init rng = .ok out ∧
      out.length = numAnneals.toNat ∧ ∀ sv ∈ out, sv.1.length = h.length ∧ ∀ x ∈ sv.1, x = 1 ∨ x = -1 := by
  obtain ⟨out, e, h1, h2⟩ := cAnnealQuso_ok src h nn nb J Ts numAnneals inOrder init rng hsrc wf
  exact ⟨out, e, h1, h2⟩

/-- `c_anneal_puso` (wrapper + `anneal_puso.c` as it is now, `guard = true`) on arguments satisfying `WFPuso`
returns without a memory error — with or without terms — and returns `num_anneals` states of length `N` with
entries `±1`. -/
theorem puso_mem_safe (src : Src ρ α) (lenState : Int) (nc terms : List Int) (cs Ts : List α)
    (numAnneals : Int) (inOrder : Bool) (init : List Int) (rng : ρ) (hsrc : IndexOK src lenState.toNat)
    (wf : WFPuso lenState nc terms cs Ts numAnneals init) :
    ∃ out, cAnnealPuso true src lenState nc terms cs Ts numAnneals inOrder init rng = .ok out ∧
      out.length = numAnneals.toNat ∧
      ∀ sv ∈ out, sv.1.length = lenState.toNat ∧ ∀ x ∈ sv.1, x = 1 ∨ x = -1 := by
  obtain ⟨out, e, h1, h2⟩ :=
    cAnnealPuso_ok true src lenState nc terms cs Ts numAnneals inOrder init rng hsrc wf (Or.inl rfl)
  exact ⟨out, e, h1, h2⟩

/-- the hypothesis on the random source holds for the PCG32 model of `random.c`:
`rand_int(rng, N) < N` for `1 ≤ N ≤ INT_MAX` -/
theorem pcg_rand_int_in_range (N : Nat) (h1 : 1 ≤ N) (h2 : N ≤ 2147483647) : IndexOK pcgSrc N :=
  pcgSrc_indexOK h1 h2

/-! ### T17.2 — the Python front end produces `WF` arguments -/

omit [Add α] [Mul α] [OfInt α] in
/-- the arrays `anneal_quso` builds (`flattenQuso`, `qusoArgs`) from any model on which its loop does not
raise satisfy `WFQuso`, given `N ≥ 1` (the `N == 0` case returns before the C call), an initial state that is
absent or one spin per variable, `num_anneals ≥ 1`, and sizes within `int` range -/
theorem front_quso_wf (toNum : Rat → α) (N : Nat) (model : Poly) (h : List Rat) (adj : List (List (Nat × Rat)))
    (hf : flattenQuso N model = .ok (h, adj)) (hN : 1 ≤ N) (Ts : List α) (numAnneals : Int) (init : List Int)
    (hinit : init = [] ∨ (init.length = N ∧ ∀ x ∈ init, x = 1 ∨ x = -1))
    (hna : 1 ≤ numAnneals) (htot : numAnneals * (N : Int) ≤ INT_MAX)
    (hJ : (adj.flatten.length : Int) ≤ INT_MAX) (hTs : (Ts.length : Int) ≤ INT_MAX) :
    WFQuso (qusoArgs toNum h adj).h ((qusoArgs toNum h adj).nn.map Int.ofNat)
      ((qusoArgs toNum h adj).nb.map Int.ofNat) (qusoArgs toNum h adj).J Ts numAnneals init :=
  qusoArgs_wf toNum hf hN Ts numAnneals init hinit hna htot hJ hTs

/-- the loop of `anneal_quso` does not raise on a model all of whose labels are `< N` -/
theorem front_quso_flatten_total (N : Nat) (model : Poly) (hl : ∀ kv ∈ model, ∀ l ∈ kv.1, l < N) :
    ∃ r, flattenQuso N model = .ok r :=
  flattenQuso_total hl

omit [Add α] [Mul α] [OfInt α] in
/-- the arrays `anneal_puso` builds (`flattenPuso`) from any model with labels `< N` satisfy `WFPuso`;
whether there is a term does not matter any more (D5 repaired) -/
theorem front_puso_wf (toNum : Rat → α) (N : Nat) (model : Poly) (hl : ∀ kv ∈ model, ∀ l ∈ kv.1, l < N)
    (hN : 1 ≤ N) (Ts : List α) (numAnneals : Int) (init : List Int)
    (hinit : init = [] ∨ (init.length = N ∧ ∀ x ∈ init, x = 1 ∨ x = -1))
    (hna : 1 ≤ numAnneals) (htot : numAnneals * (N : Int) ≤ INT_MAX)
    (hterms : ((flattenPuso toNum model).terms.length : Int) < INT_MAX) (hTs : (Ts.length : Int) ≤ INT_MAX) :
    WFPuso (N : Int) ((flattenPuso toNum model).nc.map Int.ofNat) ((flattenPuso toNum model).terms.map Int.ofNat)
      (flattenPuso toNum model).cs Ts numAnneals init :=
  flattenPuso_wf toNum hl hN Ts numAnneals init hinit hna htot hterms hTs

/-- `anneal_quso` from the front end to the kernel: whenever `prep` reaches the C call (so `num_anneals ≥ 1`,
`N ≥ 1`, initial state relabelled) with a spin-valued initial state, and the flattening loop does not raise,
the checked kernel runs without memory error on the arguments the front end built -/
theorem front_quso_mem_safe (cfg : Cfg ρ α) (dispatch : Obj → Except Err (Nat × Poly × List Var)) (L : Obj)
    (P : Params ρ α) (c : Call α) (hprep : prep dispatch L P = .ok (.call c))
    (hv : ∀ d, P.init = some d → ∀ p ∈ d, p.2 = 1 ∨ p.2 = -1)
    (h : List Rat) (adj : List (List (Nat × Rat))) (hf : flattenQuso c.N c.model = .ok (h, adj))
    (hsrc : IndexOK cfg.src c.N) (htot : P.numAnneals * (c.N : Int) ≤ INT_MAX)
    (hJ : (adj.flatten.length : Int) ≤ INT_MAX) (hTs : (c.Ts.length : Int) ≤ INT_MAX) :
    ∃ out, cAnnealQuso cfg.src (qusoArgs cfg.toNum h adj).h ((qusoArgs cfg.toNum h adj).nn.map Int.ofNat)
      ((qusoArgs cfg.toNum h adj).nb.map Int.ofNat) (qusoArgs cfg.toNum h adj).J c.Ts P.numAnneals P.inOrder
      c.init P.rng = .ok out ∧ out.length = P.numAnneals.toNat := by
  obtain ⟨hna, hN, hinit⟩ := prep_call dispatch L P c hprep hv
  have wf := qusoArgs_wf cfg.toNum hf hN c.Ts P.numAnneals c.init hinit hna htot hJ hTs
  have hlen : (qusoArgs cfg.toNum h adj).h.length = c.N := by
    simp [qusoArgs, (flattenQuso_flat hf).1]
  obtain ⟨out, e, h1, _⟩ := cAnnealQuso_ok cfg.src _ _ _ _ c.Ts P.numAnneals P.inOrder c.init P.rng
    (by rw [hlen]; exact hsrc) wf
  exact ⟨out, e, h1⟩

/-- `anneal_puso` from the front end to the kernel (the code as it is now): whenever `prep` reaches the C call
with a spin-valued initial state and a model whose labels are `< N`, the checked kernel runs without memory
error on the arguments the front end built — also when every term of the model has cancelled -/
theorem front_puso_mem_safe (cfg : Cfg ρ α) (dispatch : Obj → Except Err (Nat × Poly × List Var))
    (L : Obj) (P : Params ρ α) (c : Call α) (hprep : prep dispatch L P = .ok (.call c))
    (hv : ∀ d, P.init = some d → ∀ p ∈ d, p.2 = 1 ∨ p.2 = -1)
    (hl : ∀ kv ∈ c.model, ∀ l ∈ kv.1, l < c.N)
    (hsrc : IndexOK cfg.src c.N) (htot : P.numAnneals * (c.N : Int) ≤ INT_MAX)
    (hterms : ((flattenPuso cfg.toNum c.model).terms.length : Int) < INT_MAX)
    (hTs : (c.Ts.length : Int) ≤ INT_MAX) :
    ∃ out, cAnnealPuso true cfg.src (c.N : Int) ((flattenPuso cfg.toNum c.model).nc.map Int.ofNat)
      ((flattenPuso cfg.toNum c.model).terms.map Int.ofNat) (flattenPuso cfg.toNum c.model).cs c.Ts
      P.numAnneals P.inOrder c.init P.rng = .ok out ∧ out.length = P.numAnneals.toNat := by
  obtain ⟨hna, hN, hinit⟩ := prep_call dispatch L P c hprep hv
  have wf := flattenPuso_wf cfg.toNum hl hN c.Ts P.numAnneals c.init hinit hna htot hterms hTs
  obtain ⟨out, e, h1, _⟩ := cAnnealPuso_ok true cfg.src _ _ _ _ c.Ts P.numAnneals P.inOrder c.init P.rng
    (by simpa using hsrc) wf (Or.inl rfl)
  exact ⟨out, e, h1⟩

/-! ### T17.3 — refinement: the checked kernels compute what the unchecked kernel model (C11/C12) computes -/

/-- On `WF` arguments the checked-memory `c_anneal_quso` returns **exactly** the result of the unchecked kernel
model `Kernel.annealQuso` (the model the theorems of C11/C12 are about) on the same arrays: same states, same
values, for every number type, random source, schedule and visiting order.  (`Q.nn`, `Q.nb` are the naturals
the front end produces; the C extension receives them as Python ints.) -/
theorem quso_refines (src : Src ρ α) (Q : Kernel.Quso α) (Ts : List α) (numAnneals : Int) (inOrder : Bool)
    (init : List Int) (rng : ρ) (hsrc : IndexOK src Q.h.length)
    (wf : WFQuso Q.h (Q.nn.map Int.ofNat) (Q.nb.map Int.ofNat) Q.J Ts numAnneals init) :
    cAnnealQuso src Q.h (Q.nn.map Int.ofNat) (Q.nb.map Int.ofNat) Q.J Ts numAnneals inOrder init rng =
      .ok (Kernel.annealQuso src Q Q.h.length Ts inOrder init numAnneals.toNat rng) :=
  cAnnealQuso_refines src Q Ts numAnneals inOrder init rng hsrc wf

/-- the same from the front end: on the arrays `anneal_quso` builds, the checked kernel returns exactly the
`out` that `Anneal.runQuso` (C11's model of the call) packages — so every C11/C12 statement about the results of
the unchecked kernel holds for the memory-checked one. -/
theorem front_quso_refines (cfg : Cfg ρ α) (dispatch : Obj → Except Err (Nat × Poly × List Var)) (L : Obj)
    (P : Params ρ α) (c : Call α) (hprep : prep dispatch L P = .ok (.call c))
    (hv : ∀ d, P.init = some d → ∀ p ∈ d, p.2 = 1 ∨ p.2 = -1)
    (h : List Rat) (adj : List (List (Nat × Rat))) (hf : flattenQuso c.N c.model = .ok (h, adj))
    (hsrc : IndexOK cfg.src c.N) (htot : P.numAnneals * (c.N : Int) ≤ INT_MAX)
    (hJ : (adj.flatten.length : Int) ≤ INT_MAX) (hTs : (c.Ts.length : Int) ≤ INT_MAX) :
    cAnnealQuso cfg.src (qusoArgs cfg.toNum h adj).h ((qusoArgs cfg.toNum h adj).nn.map Int.ofNat)
      ((qusoArgs cfg.toNum h adj).nb.map Int.ofNat) (qusoArgs cfg.toNum h adj).J c.Ts P.numAnneals P.inOrder
      c.init P.rng =
    .ok (Kernel.annealQuso cfg.src (qusoArgs cfg.toNum h adj) c.N c.Ts P.inOrder c.init P.numAnneals.toNat P.rng) := by
  obtain ⟨hna, hN, hinit⟩ := prep_call dispatch L P c hprep hv
  have wf := qusoArgs_wf cfg.toNum hf hN c.Ts P.numAnneals c.init hinit hna htot hJ hTs
  have hlen : (qusoArgs cfg.toNum h adj).h.length = c.N := by
    simp [qusoArgs, (flattenQuso_flat hf).1]
  have := cAnnealQuso_refines cfg.src (qusoArgs cfg.toNum h adj) c.Ts P.numAnneals P.inOrder c.init P.rng
    (by rw [hlen]; exact hsrc) wf
  rw [hlen] at this
  exact this

/-- non-vacuity: the docstring example, checked = unchecked, evaluated -/
example : cAnnealQuso Ex.src ([1, 0, 0] : List Rat) [1, 2, 1] [1, 0, 2, 1] [-1, -1, 2, 2] [2, 1, 0] 2 false
    [1, -1, 1] 0 = .ok (Kernel.annealQuso Ex.src ⟨[1, 0, 0], [1, 2, 1], [1, 0, 2, 1], [-1, -1, 2, 2]⟩ 3 [2, 1, 0]
      false [1, -1, 1] 2 0) := by decide +kernel

/-- The same for PUSO (the code as it is now): on `WF` arguments the checked `c_anneal_puso` returns **exactly**
the result of `Kernel.annealPuso` on the same arrays — including the construction of `index` and of the
`subgraphs` rows by `realloc`. -/
theorem puso_refines (src : Src ρ α) (N : Nat) (P : Kernel.Puso α) (Ts : List α) (numAnneals : Int)
    (inOrder : Bool) (init : List Int) (rng : ρ) (hsrc : IndexOK src N)
    (wf : WFPuso (N : Int) (P.nc.map Int.ofNat) (P.terms.map Int.ofNat) P.cs Ts numAnneals init) :
    cAnnealPuso true src (N : Int) (P.nc.map Int.ofNat) (P.terms.map Int.ofNat) P.cs Ts numAnneals inOrder init rng =
      .ok (Kernel.annealPuso src P N Ts inOrder init numAnneals.toNat rng) :=
  cAnnealPuso_refines src N P Ts numAnneals inOrder init rng hsrc wf

/-- from the front end: on the arrays `anneal_puso` builds, the checked kernel returns exactly the `out` that
`Anneal.runPuso` (C11's model of the call) packages -/
theorem front_puso_refines (cfg : Cfg ρ α) (dispatch : Obj → Except Err (Nat × Poly × List Var)) (L : Obj)
    (P : Params ρ α) (c : Call α) (hprep : prep dispatch L P = .ok (.call c))
    (hv : ∀ d, P.init = some d → ∀ p ∈ d, p.2 = 1 ∨ p.2 = -1)
    (hl : ∀ kv ∈ c.model, ∀ l ∈ kv.1, l < c.N)
    (hsrc : IndexOK cfg.src c.N) (htot : P.numAnneals * (c.N : Int) ≤ INT_MAX)
    (hterms : ((flattenPuso cfg.toNum c.model).terms.length : Int) < INT_MAX)
    (hTs : (c.Ts.length : Int) ≤ INT_MAX) :
    cAnnealPuso true cfg.src (c.N : Int) ((flattenPuso cfg.toNum c.model).nc.map Int.ofNat)
      ((flattenPuso cfg.toNum c.model).terms.map Int.ofNat) (flattenPuso cfg.toNum c.model).cs c.Ts
      P.numAnneals P.inOrder c.init P.rng =
    .ok (Kernel.annealPuso cfg.src (flattenPuso cfg.toNum c.model) c.N c.Ts P.inOrder c.init P.numAnneals.toNat
      P.rng) := by
  obtain ⟨hna, hN, hinit⟩ := prep_call dispatch L P c hprep hv
  have wf := flattenPuso_wf cfg.toNum hl hN c.Ts P.numAnneals c.init hinit hna htot hterms hTs
  exact cAnnealPuso_refines cfg.src c.N (flattenPuso cfg.toNum c.model) c.Ts P.numAnneals P.inOrder c.init P.rng
    hsrc wf

/-- non-vacuity: the docstring example, checked = unchecked, evaluated -/
example : cAnnealPuso true Ex.src 4 [2, 3, 1] [0, 1, 1, 2, 3, 2] ([1, -1, 3] : List Rat) [2, 1, 0] 2 false [] 0 =
    .ok (Kernel.annealPuso Ex.src ⟨[2, 3, 1], [0, 1, 1, 2, 3, 2], [1, -1, 3]⟩ 4 [2, 1, 0] false [] 2 0) := by
  decide +kernel

/-! ### the hypotheses are satisfiable: concrete instances -/

/-- `Ex.src` (C11's example source) keeps `rand_int` below its bound -/
theorem ex_src_index (N : Nat) (hN : 1 ≤ N) : IndexOK Ex.src N := fun r => Nat.mod_lt _ (by omega)

/-- the docstring example of `_canneal.c`: `-z0 z1 + 2 z1 z2 + z0` -/
example : WFQuso ([1, 0, 0] : List Rat) [1, 2, 1] [1, 0, 2, 1] [-1, -1, 2, 2] [2, 1, 0] 2 [1, -1, 1] := by
  decide +kernel
example : (cAnnealQuso Ex.src ([1, 0, 0] : List Rat) [1, 2, 1] [1, 0, 2, 1] [-1, -1, 2, 2] [2, 1, 0] 2 false
    [1, -1, 1] 0).toOption.map List.length = some 2 := by decide +kernel
/-- empty schedule, no initial state, a single isolated spin -/
example : (cAnnealQuso Ex.src ([0] : List Rat) [0] [] [] [] 3 true [] 0).toOption.map List.length = some 3 := by
  decide +kernel
/-- a neighbour equal to `N` is caught by the model (out-of-bounds read of `state`) -/
example : cAnnealQuso Ex.src ([1, 0, 0] : List Rat) [1, 2, 1] [1, 0, 3, 1] [-1, -1, 2, 2] [2, 1, 0] 2 true [] 0
    = .error MemErr.oob := by decide +kernel
/-- `len_state == 0` would hit the same `index[0] = 0` in `anneal_quso.c`; the front end returns before it -/
example : cAnnealQuso Ex.src ([] : List Rat) [] [] [] [1] 1 true [] 0 = .error MemErr.oob := by decide +kernel

/-- the docstring example of `c_anneal_puso`: `z0 z1 - z1 z2 z3 + 3 z2` -/
example : WFPuso (4 : Int) [2, 3, 1] [0, 1, 1, 2, 3, 2] ([1, -1, 3] : List Rat) [2, 1, 0] 2 [] := by decide +kernel
example : (cAnnealPuso true Ex.src 4 [2, 3, 1] [0, 1, 1, 2, 3, 2] ([1, -1, 3] : List Rat) [2, 1, 0] 2 false []
    0).toOption.map List.length = some 2 := by decide +kernel
/-- no term at all (every term of the model cancelled): inside `WF`, and the kernel returns its state -/
example : WFPuso (3 : Int) [] [] ([] : List Rat) [1, 1/2] 1 [] := by decide +kernel
example : (cAnnealPuso true Ex.src 3 [] [] ([] : List Rat) [1, 1/2] 1 true [] 0).toOption.map List.length
    = some 1 := by decide +kernel

/-- the front-end theorems apply to C11's example objects -/
example : (prep (ρ := Nat) (α := Rat) dispatchQuso Ex.L (Ex.P false none)).toOption.isSome = true := by
  decide +kernel
example : (flattenQuso 3 Ex.L.terms).toOption.isSome = true := by decide +kernel
example : ∃ kv ∈ Ex.H.terms, kv.1 ≠ [] := ⟨([0, 1, 2], 1), by simp [Ex.H], by simp⟩

/-! ### the code before the repair of D5 (`guard = false`) — documentation of the defect -/

/-- BEFORE 958732b: `c_anneal_puso` with `index[0] = 0;` unconditional needed **at least one term**; the
hypothesis `hterm` is the one the proof forced (D5). -/
theorem puso_mem_safe_partial (src : Src ρ α) (lenState : Int) (nc terms : List Int) (cs Ts : List α)
    (numAnneals : Int) (inOrder : Bool) (init : List Int) (rng : ρ) (hsrc : IndexOK src lenState.toNat)
    (wf : WFPuso lenState nc terms cs Ts numAnneals init) (hterm : 1 ≤ cs.length) :
    ∃ out, cAnnealPuso false src lenState nc terms cs Ts numAnneals inOrder init rng = .ok out ∧
      out.length = numAnneals.toNat ∧
      ∀ sv ∈ out, sv.1.length = lenState.toNat ∧ ∀ x ∈ sv.1, x = 1 ∨ x = -1 := by
  obtain ⟨out, e, h1, h2⟩ :=
    cAnnealPuso_ok false src lenState nc terms cs Ts numAnneals inOrder init rng hsrc wf (Or.inr hterm)
  exact ⟨out, e, h1, h2⟩

/-- BEFORE 958732b, the concrete failing input: `c_anneal_puso(3, [], [], [], [1, 1/2], 1, 1, [], seed)` — what
`anneal_puso(PUSOMatrix whose only term cancelled)` passes — satisfies `WFPuso`, but the old kernel wrote
`index[0]` into a zero-length allocation; the kernel as it is now returns on the same input. -/
theorem puso_zero_terms_out_of_bounds :
    WFPuso (3 : Int) [] [] ([] : List Rat) [1, 1/2] 1 [] ∧
    cAnnealPuso false Ex.src 3 [] [] ([] : List Rat) [1, 1/2] 1 true [] 0 = .error MemErr.oob ∧
    (cAnnealPuso true Ex.src 3 [] [] ([] : List Rat) [1, 1/2] 1 true [] 0).toOption.map List.length = some 1 := by
  decide +kernel

omit [Add α] [Mul α] [OfInt α] in
/-- BEFORE 958732b the front end had to provide a term; it does so exactly when the model has a non-constant key -/
theorem front_puso_term (toNum : Rat → α) (model : Poly) (h : ∃ kv ∈ model, kv.1 ≠ []) :
    1 ≤ (flattenPuso toNum model).cs.length :=
  flattenPuso_has_term toNum h

end Qv.C17
