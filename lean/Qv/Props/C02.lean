import Qv.Proofs.PcboHist
/-!
# C02 — PCBO comparison constraints become exact non-negative penalties

Only the property theorems and their non-vacuity examples live here (helper lemmas are in
`Qv/Proofs/Pcbo*.lean`).  The model is `Qv.Model.Pcbo` (`addConstraint` = the six
`PCBO.add_constraint_R_zero` methods on the already constructed `PUBO(P)`); its tie to
`qubovert/_pcbo.py` is the correspondence check `harness/c02.py`.

Notation.  `st' = addConstraint rel st P lam lt b sup` is the model after the call;
`FPen st st' s = eval s st'.terms - eval s st.terms` is the value at `s` of the terms the call added
(by `T2_3_added` the new term dict *is* `st.terms += q`);
`InA st st' i` says `i` is one of the ancilla labels `ANC + k`, `st.anc ≤ k < st'.anc`, created by the call;
`RelP rel v` is `v rel 0`.
`Hyp st P lam b` collects the hypotheses of the property: `lam > 0`; `P` integer-valued on boolean
assignments; `P` is a dict as `PUBO(P)` produces it (distinct keys, no zero coefficient — both hold for
`constructB d`, see `pubo_is_dict`); every *given* bound is valid (`ValidBounds`; omitted bounds are computed by
`puboExtrema`, proved sound in `Qv.puboExtrema_sound`); `P` mentions no ancilla label `≥ ANC + st.anc`.
-/
namespace Qv.C02
open Qv Qv.PcboP

/-- **T2.1 (F ≥ 0 everywhere).**  For every relation, every `log_trick`, every valid enclosure, warned or not:
the added terms are non-negative at every boolean assignment of variables and ancillas. -/
theorem T2_1_nonneg (rel : Rel) (st : St) (P : Poly) (lam : Rat) (lt : Bool) (b : Option Rat × Option Rat)
    (sup : Bool) (h : Hyp st P lam b) (s : Var → Rat) (hs : IsBool s) :
    0 ≤ FPen st (addConstraint rel st P lam lt b sup) s :=
  addConstraint_nonneg h hs

/-- **T2.2, satisfied half.**  If the library does not warn "Constraint cannot be satisfied" and `P(x) rel 0`
holds at a boolean `x`, some boolean setting of the fresh ancillas (everything else as in `x`) makes the
added terms vanish — so together with T2.1 the minimum over the ancillas is exactly 0. -/
theorem T2_2_sat (rel : Rel) (st : St) (P : Poly) (lam : Rat) (lt : Bool) (b : Option Rat × Option Rat)
    (h : Hyp st P lam b)
    (hw : "unsat" ∉ newWarns st (addConstraint rel st P lam lt b false))
    (x : Var → Rat) (hx : IsBool x) (hr : RelP rel (eval x P)) :
    ∃ s, (∀ i, ¬ InA st (addConstraint rel st P lam lt b false) i → s i = x i) ∧ IsBool s ∧
      FPen st (addConstraint rel st P lam lt b false) s = 0 :=
  (addConstraint_sem h (not_weak_of_no_warning (ne_of_gt h.lam_pos) hw)).sat x hx hr

/-- **T2.2, violated half.**  If the library does not warn "cannot be satisfied" and `P(x) rel 0` fails at a
boolean `x`, then for *every* boolean setting of the fresh ancillas the added terms are at least `lam`. -/
theorem T2_2_viol (rel : Rel) (st : St) (P : Poly) (lam : Rat) (lt : Bool) (b : Option Rat × Option Rat)
    (h : Hyp st P lam b)
    (hw : "unsat" ∉ newWarns st (addConstraint rel st P lam lt b false))
    (x : Var → Rat) (hr : ¬ RelP rel (eval x P))
    (s : Var → Rat) (hsx : ∀ i, ¬ InA st (addConstraint rel st P lam lt b false) i → s i = x i) (hs : IsBool s) :
    lam ≤ FPen st (addConstraint rel st P lam lt b false) s := by
  refine (addConstraint_sem h (not_weak_of_no_warning (ne_of_gt h.lam_pos) hw)).viol s hs ?_
  have : eval s P = eval x P := eval_off_anc h.fresh (fun (i : Nat) hi => hsx i (by
    rintro ⟨k, hk1, _, rfl⟩; omega))
  rw [this]; exact hr

/-- **T2.2 for any `suppress_warnings`.**  Both halves hold outside the two give-up branches (`P < 0` with
`min ≥ 0`, `P > 0` with `max ≤ 0`) whatever `suppress_warnings` is; for `==`, `!=`, `<=`, `>=` there is no
such branch, so they hold unconditionally — even when the library warns. -/
theorem T2_2_any_sup (rel : Rel) (st : St) (P : Poly) (lam : Rat) (lt : Bool) (b : Option Rat × Option Rat)
    (sup : Bool) (h : Hyp st P lam b) (hw : ¬ WeakBranch rel P b) :
    Sem (RelP rel) st (addConstraint rel st P lam lt b sup) P lam :=
  addConstraint_sem h hw

/-- **T2.1 + T2.2 packaged, independent of `suppress_warnings` and of earlier warnings** (the shape in which
C03 consumes C02).  The "cannot be satisfied" flag is read off the same call made unsuppressed on the state with
an empty warning list; the relation is the model's Boolean `Rel.holds`. -/
theorem T2_packaged (r : Rel) (s0 : St) (P : Poly) (lam : Rat) (lt : Bool) (b : Option Rat × Option Rat) (sup : Bool)
    (h : Hyp s0 P lam b) :
    (∀ x, IsBool x → 0 ≤ FPen s0 (addConstraint r s0 P lam lt b sup) x) ∧
    ("unsat" ∉ (addConstraint r { s0 with warns := [] } P lam lt b false).warns →
      (∀ x, IsBool x → r.holds (eval x P) = true →
        ∃ y, IsBool y ∧ (∀ i, ¬ InA s0 (addConstraint r s0 P lam lt b sup) i → y i = x i) ∧
          FPen s0 (addConstraint r s0 P lam lt b sup) y = 0) ∧
      (∀ x, IsBool x → r.holds (eval x P) = false →
        ∀ y, IsBool y → (∀ i, ¬ InA s0 (addConstraint r s0 P lam lt b sup) i → y i = x i) →
          lam ≤ FPen s0 (addConstraint r s0 P lam lt b sup) y)) := by
  refine ⟨fun x hx => addConstraint_nonneg h hx, fun hU => ?_⟩
  have hw : ¬ WeakBranch r P b := by
    intro hw
    apply hU
    rw [addConstraint_warns { s0 with warns := [] } P lt b (ne_of_gt h.lam_pos) hw]
    simp
  have S := addConstraint_sem (lt := lt) (sup := sup) h hw
  refine ⟨fun x hx hr => ?_, fun x _ hr y hy hyx => ?_⟩
  · obtain ⟨y, h1, h2, h3⟩ := S.sat x hx ((holds_iff r _).1 hr)
    exact ⟨y, h2, h1, h3⟩
  · refine S.viol y hy ?_
    have : eval y P = eval x P := eval_off_anc h.fresh (fun (i : Nat) hi => hyx i (by
      rintro ⟨k, hk1, _, rfl⟩; omega))
    rw [this]
    intro hp
    rw [(holds_iff r _).2 hp] at hr
    cases hr

/-- the give-up branches are exactly announced: there the (unsuppressed) call appends the warning -/
theorem weak_branch_warns (rel : Rel) (st : St) (P : Poly) (lam : Rat) (lt : Bool) (b : Option Rat × Option Rat)
    (hl : lam ≠ 0) (hw : WeakBranch rel P b) :
    (addConstraint rel st P lam lt b false).warns = st.warns ++ ["unsat"] :=
  addConstraint_warns st P lt b hl hw

/-- **T2.3 (what is added).**  The ancilla counter never decreases, and the new term dict is literally
`st.terms += q` for a polynomial `q` each of whose labels is a label of `P` or a fresh ancilla of this call.
No hypothesis on `P`, `lam` or the bounds. -/
theorem T2_3_added (rel : Rel) (st : St) (P : Poly) (lam : Rat) (lt : Bool) (b : Option Rat × Option Rat) (sup : Bool) :
    st.anc ≤ (addConstraint rel st P lam lt b sup).anc ∧
    ∃ q, (addConstraint rel st P lam lt b sup).terms = iaddB st.terms q ∧
      ∀ kv ∈ q, ∀ i ∈ kv.1, (∃ kv' ∈ P, i ∈ kv'.1) ∨ InA st (addConstraint rel st P lam lt b sup) i := by
  obtain ⟨h1, q, h2, h3⟩ := (addConstraint_book rel st P lam lt b sup).2
  refine ⟨h1, q, h2, h3 (fun i => (∃ kv' ∈ P, i ∈ kv'.1) ∨ InA st (addConstraint rel st P lam lt b sup) i) ?_ ?_⟩
  · intro kv hkv i hi; exact Or.inl ⟨kv, hkv, hi⟩
  · intro k hk1 hk2; exact Or.inr ⟨k, hk1, hk2, rfl⟩

/-- **T2.3 (F is a function of P's variables and the fresh ancillas).** -/
theorem T2_3_depends (rel : Rel) (st : St) (P : Poly) (lam : Rat) (lt : Bool) (b : Option Rat × Option Rat) (sup : Bool)
    (s s' : Var → Rat) (hs : IsBool s) (hs' : IsBool s')
    (hP : ∀ kv ∈ P, ∀ i ∈ kv.1, s i = s' i)
    (hA : ∀ i, InA st (addConstraint rel st P lam lt b sup) i → s i = s' i) :
    FPen st (addConstraint rel st P lam lt b sup) s = FPen st (addConstraint rel st P lam lt b sup) s' := by
  obtain ⟨_, q, h2, h3⟩ := (addConstraint_book rel st P lam lt b sup).2
  rw [FPen_of_added h2 hs, FPen_of_added h2 hs']
  refine eval_congr (V := fun i => s i = s' i) (h3 _ hP ?_) (fun i hi => hi)
  intro k hk1 hk2; exact hA _ ⟨k, hk1, hk2, rfl⟩

/-- **T2.4 (validity).**  The call records exactly the constraint `(rel, P)` (the inner calls' records are all
popped again), and `is_solution_valid` of the new model is that of the old one and `P(x) rel 0`. -/
theorem T2_4_valid (rel : Rel) (st : St) (P : Poly) (lam : Rat) (lt : Bool) (b : Option Rat × Option Rat) (sup : Bool) :
    (addConstraint rel st P lam lt b sup).cons = st.cons ++ [(rel, P)] ∧
    ∀ x, isValid (addConstraint rel st P lam lt b sup) x = true ↔ (isValid st x = true ∧ RelP rel (eval x P)) :=
  ⟨(addConstraint_book rel st P lam lt b sup).1,
   fun x => isValid_append st rel P _ (addConstraint_book rel st P lam lt b sup).1 x⟩

/-- **T2.4 for histories.**  After any sequence of additions to a fresh model, `is_solution_valid(x)` is true
exactly when every recorded constraint — i.e. every input, in order — holds at `x`. -/
theorem T2_4_history (h : List Step) (x : Var → Rat) :
    (run {} h).cons = h.map (fun c => (c.rel, c.P)) ∧
    (isValid (run {} h) x = true ↔ ∀ c ∈ h, RelP c.rel (eval x c.P)) := by
  have hc : (run {} h).cons = h.map (fun c => (c.rel, c.P)) := by rw [run_cons]; rfl
  refine ⟨hc, ?_⟩
  rw [isValid_iff, hc]
  constructor
  · intro H c hcm; exact H (c.rel, c.P) (List.mem_map.2 ⟨c, hcm, rfl⟩)
  · intro H p hp
    obtain ⟨c, hcm, rfl⟩ := List.mem_map.1 hp
    exact H c hcm

/-- **T2.5 (histories, invariant).**  Along every list of additions, each of whose polynomials mentions no
ancilla that does not exist yet, the invariant "every label in the terms is below `ANC + anc`" is preserved,
and the counter is monotone. -/
theorem T2_5_ancInv (st : St) (h : List Step) (hi : AncInv st) (hok : HistOk st h) :
    AncInv (run st h) ∧ st.anc ≤ (run st h).anc :=
  ⟨run_ancInv hi hok, run_anc_le st h⟩

/-- **T2.5 (histories, distinct ancillas).**  The ancilla sets of two different additions `c` (after `h1`) and
`d` (after `h1, c, h2`) of one history are disjoint. -/
theorem T2_5_disjoint (st : St) (h1 : List Step) (c : Step) (h2 : List Step) (d : Step) (i : Var) :
    ¬ (InA (run st h1) (step (run st h1) c) i ∧
       InA (run (step (run st h1) c) h2) (step (run (step (run st h1) c) h2) d) i) :=
  fun ⟨hc, hd⟩ => ancillas_disjoint st h1 c h2 d i hc hd

/-- **T2.5 (penalties add independently, satisfied side).**  Let every addition of a history satisfy the
hypotheses of the property at the state it is made in (`HistHyp`: `Hyp`, not a give-up branch, user labels
only).  If every constraint holds at a boolean `x`, a *single* boolean setting of all the ancillas of the
history (everything else as in `x`) makes the sum of all added terms 0 — the minimum over the ancillas of the
sum is the sum of the minima. -/
theorem T2_5_independent_sat (st : St) (h : List Step) (hh : HistHyp st h) (x : Var → Rat) (hx : IsBool x)
    (hr : ∀ c ∈ h, RelP c.rel (eval x c.P)) :
    ∃ s, (∀ i, ¬ InA st (run st h) i → s i = x i) ∧ IsBool s ∧ FPen st (run st h) s = 0 :=
  run_sat hh hx hr

/-- **T2.5 (penalties add independently, violated side).**  Under the same hypotheses, the sum of all added
terms is non-negative at every boolean assignment of variables and ancillas, and is at least `c.lam` as soon
as some constraint `c` of the history is violated — whatever the ancillas of all constraints are set to. -/
theorem T2_5_independent_viol (st : St) (h : List Step) (hh : HistHyp st h) (s : Var → Rat) (hs : IsBool s) :
    0 ≤ FPen st (run st h) s ∧
    ∀ c ∈ h, ¬ RelP c.rel (eval s c.P) → c.lam ≤ FPen st (run st h) s :=
  ⟨run_nonneg hh hs, fun c hc hr => run_viol hh hs c hc hr⟩

/-- the hypotheses `nz`, `nd` of `Hyp` hold for every `PUBO(d)`, and integer coefficients give `int` -/
theorem pubo_is_dict (d : Poly) : NoZero (constructB d) ∧ (keys (constructB d)).Nodup :=
  ⟨noZero_constructB d, nodup_constructB d⟩

theorem int_coeffs_intValued (P : Poly) (h : ∀ kv ∈ P, ∃ n : Int, kv.2 = n) : IntValued P :=
  intValued_of_intCoeffs h

/-! ## non-vacuity: concrete instances of the hypotheses, one per relation family -/

/-- `2x + 3y - 4` -/
def exP : Poly := [([0], 2), ([1], 3), ([], -4)]

theorem exP_hyp (st : St) (lam : Rat) (hl : 0 < lam) : Hyp st exP lam (none, none) :=
  ⟨hl, intValued_of_intCoeffs (by
      intro kv h; simp only [exP, List.mem_cons, List.mem_nil_iff, or_false] at h
      rcases h with rfl | rfl | rfl
      · exact ⟨2, by norm_num⟩
      · exact ⟨3, by norm_num⟩
      · exact ⟨-4, by norm_num⟩),
   by intro kv h; simp only [exP, List.mem_cons, List.mem_nil_iff, or_false] at h
      rcases h with rfl | rfl | rfl <;> norm_num,
   by decide, validBounds_none _,
   by intro kv h i hi; simp only [exP, List.mem_cons, List.mem_nil_iff, or_false] at h
      rcases h with rfl | rfl | rfl <;> simp at hi <;> subst hi <;> show _ < ANC + _ <;> unfold ANC <;> omega⟩

-- `2x+3y-4 <= 0`, log trick, computed bounds: three slack ancillas (`num_bits(4) = 3`), no warning
example : Hyp {} exP 1 (none, none) := exP_hyp {} 1 (by norm_num)
example : (addConstraint .le {} exP 1 true (none, none) false).anc = 3 := by decide +kernel
example : "unsat" ∉ newWarns {} (addConstraint .le {} exP 1 true (none, none) false) := by decide +kernel
example : (addConstraint .le {} exP 1 true (none, none) false).tags = ["eq-square", "le-logslack"] := by decide +kernel
-- `!= 0` two-sided: sign ancilla and four slack ancillas; `< 0`, `> 0` are not in a give-up branch
example : (addConstraint .ne {} exP 1 true (none, none) false).tags = ["eq-square", "ne-twosided"] := by decide +kernel
example : "unsat" ∉ newWarns {} (addConstraint .ne {} exP 1 true (none, none) false) := by decide +kernel
example : ¬ WeakBranch .lt exP (none, none) := by simp only [WeakBranch]; decide +kernel
example : ¬ WeakBranch .gt exP (none, none) := by simp only [WeakBranch]; decide +kernel
example : "unsat" ∉ newWarns {} (addConstraint .lt {} exP 1 false (none, none) false) := by decide +kernel
-- a history of three constraints on one model satisfying `HistOk`
example : HistOk {} [⟨.le, exP, 1, true, (none, none), false⟩, ⟨.ne, exP, 2, false, (none, none), false⟩,
    ⟨.eq, exP, 1 / 2, true, (none, none), false⟩] := by
  refine ⟨(exP_hyp _ 1 (by norm_num)).fresh, (exP_hyp _ 1 (by norm_num)).fresh, (exP_hyp _ 1 (by norm_num)).fresh, trivial⟩
example : AncInv {} := labelsIn_nil _
theorem exP_below : Below ANC exP := by
  intro kv h i hi; simp only [exP, List.mem_cons, List.mem_nil_iff, or_false] at h
  rcases h with rfl | rfl | rfl <;> simp at hi <;> subst hi <;> show _ < ANC <;> unfold ANC <;> omega
example : HistHyp {} [⟨.le, exP, 1, true, (none, none), false⟩, ⟨.ne, exP, 2, false, (none, none), false⟩,
    ⟨.ge, exP, 1 / 2, true, (none, none), false⟩] :=
  ⟨exP_hyp _ 1 (by norm_num), fun h => h, exP_below, exP_hyp _ 2 (by norm_num), fun h => h, exP_below,
   exP_hyp _ (1 / 2) (by norm_num), fun h => h, exP_below, trivial⟩

end Qv.C02
