import Qv.Proofs.WorkflowBrute
import Qv.Proofs.WorkflowSpin
import Qv.Proofs.WorkflowForms
/-!
# C08 — Constrained optimum survives penalisation, reduction and solution conversion

Only the property theorems and their non-vacuity examples live here (helper lemmas: `Qv/Proofs/WorkflowAbs.lean` —
the abstract lemma; `Workflow.lean` — histories of calls; `WorkflowSpin.lean` — PCSO histories; `WorkflowBrute.lean`
— the validity-filtered brute force; `WorkflowForms.lean` — reduced / converted forms).  The model is
`Qv.Model.Workflow` (composition of the models of C02, C06, C01, C04, C09 plus `removeAncilla`, `isSolutionValidP`,
`solveBruteforce`) and `Qv.Model.Pcso` (C03); its tie to `/repo` is `harness/c08.py`.

Reading guide.
* `f = ⟦objective⟧`, `H = ⟦terms of the final model⟧`; "feasible" is `is_solution_valid` of the final model, which
  by T2.4 / T3.4 / T6.3 is "every recorded constraint holds" (`T8_1_valid_iff_pcbo`, `T8_1_valid_iff_pcso`).
* weights: `∀ x y, f x - f y < lam` says `lam > max f - min f` without computing extrema.
* minima are stated without computing them: "`m` is a lower bound that is attained".
* `ConsOK (start obj) cs Gs` / `CallsOK s0 cs`: every call satisfies the hypotheses of C02 / C03 / C06 at the state it
  is made in (`Qv.Workflow.ConOK`, `Qv.Workflow.CallOK`): weight `> 0`, integer-valued constraint polynomial over
  user labels, valid optional bounds, not one of the two give-up branches in which the library warns "cannot be
  satisfied"; for a logical method the conclusion of its C06 specification for a predicate on user labels.
-/
namespace Qv.C08
open Qv Qv.PcboP Qv.Logic Qv.Workflow Qv.Pcso

/-! ## T8.0 — the abstract lemma (arbitrary functions on an arbitrary type of assignments) -/

/-- **T8.0 (minimisers).**  `f ≤ H` on the domain; every feasible point has a completion (same `f`, feasible) with
`H = f`; an infeasible point costs at least `f + w` for some `w` exceeding the range of `f`; a feasible point
exists.  Then every minimiser of `H` over the domain is feasible, minimises `f` over the feasible points of the
domain, and `H = f` there. -/
theorem T8_0_minimiser {α : Type} (Dom feas : α → Prop) (f H : α → Rat)
    (nonneg : ∀ s, Dom s → f s ≤ H s)
    (sat : ∀ x, Dom x → feas x → ∃ s, Dom s ∧ feas s ∧ f s = f x ∧ H s = f s)
    (big : ∀ s, Dom s → ¬ feas s → ∃ w : Rat, (∀ x y, Dom x → Dom y → f x - f y < w) ∧ f s + w ≤ H s)
    (hex : ∃ x, Dom x ∧ feas x) (s : α) (hs : Dom s) (hmin : ∀ s', Dom s' → H s ≤ H s') :
    feas s ∧ (∀ x, Dom x → feas x → f s ≤ f x) ∧ H s = f s :=
  Abs.minimiser_feasible_optimal ⟨nonneg, sat⟩ big hex hs hmin

/-- **T8.0 (minimum).**  Under the same hypotheses `min H = min_feasible f`: a number is the minimum of `H` over
the domain (a lower bound that is attained) iff it is the minimum of `f` over the feasible points. -/
theorem T8_0_same_minimum {α : Type} (Dom feas : α → Prop) (f H : α → Rat)
    (nonneg : ∀ s, Dom s → f s ≤ H s)
    (sat : ∀ x, Dom x → feas x → ∃ s, Dom s ∧ feas s ∧ f s = f x ∧ H s = f s)
    (big : ∀ s, Dom s → ¬ feas s → ∃ w : Rat, (∀ x y, Dom x → Dom y → f x - f y < w) ∧ f s + w ≤ H s)
    (hex : ∃ x, Dom x ∧ feas x) (m : Rat) :
    (∃ s, Dom s ∧ H s = m ∧ ∀ s', Dom s' → m ≤ H s') ↔
    (∃ x, Dom x ∧ feas x ∧ f x = m ∧ ∀ x', Dom x' → feas x' → m ≤ f x') :=
  Abs.same_minimum ⟨nonneg, sat⟩ big hex m

/-- **T8.0 (no condition on the weights).**  A minimiser of `H` over the *feasible* points of the domain minimises
`f` over them, and `H = f` there.  (This is the half used for `solve_bruteforce`.) -/
theorem T8_0_feasible_minimiser {α : Type} (Dom feas : α → Prop) (f H : α → Rat)
    (nonneg : ∀ s, Dom s → f s ≤ H s)
    (sat : ∀ x, Dom x → feas x → ∃ s, Dom s ∧ feas s ∧ f s = f x ∧ H s = f s)
    (s : α) (hs : Dom s) (hf : feas s) (hmin : ∀ s', Dom s' → feas s' → H s ≤ H s') :
    (∀ x, Dom x → feas x → f s ≤ f x) ∧ H s = f s :=
  Abs.feasible_minimiser ⟨nonneg, sat⟩ hs hf hmin

/-- non-vacuity of T8.0: one boolean variable `x` and one ancilla `a` (`α = Rat × Rat`), `f = x`, constraint `x = 1`
with penalty `2 (1 - x) + 2 a` (`H = f + F`), weight `2 > max f - min f = 1` -/
example : ∃ (Dom feas : Rat × Rat → Prop) (f H : Rat × Rat → Rat),
    (∀ s, Dom s → f s ≤ H s) ∧ (∀ x, Dom x → feas x → ∃ s, Dom s ∧ feas s ∧ f s = f x ∧ H s = f s) ∧
    (∀ s, Dom s → ¬ feas s → ∃ w : Rat, (∀ x y, Dom x → Dom y → f x - f y < w) ∧ f s + w ≤ H s) ∧
    ∃ x, Dom x ∧ feas x := by
  refine ⟨fun s => (s.1 = 0 ∨ s.1 = 1) ∧ (s.2 = 0 ∨ s.2 = 1), fun s => s.1 = 1, fun s => s.1,
    fun s => s.1 + (2 * (1 - s.1) + 2 * s.2), ?_, ?_, ?_, ⟨(1, 0), ⟨Or.inr rfl, Or.inl rfl⟩, rfl⟩⟩
  · rintro ⟨x, a⟩ ⟨hx, ha⟩
    rcases hx with h | h <;> rcases ha with h' | h' <;> simp only at h h' ⊢ <;> subst h <;> subst h' <;> norm_num
  · rintro ⟨x, a⟩ ⟨_, _⟩ hf
    simp only at hf; subst hf
    exact ⟨(1, 0), ⟨Or.inr rfl, Or.inl rfl⟩, rfl, rfl, by norm_num⟩
  · rintro ⟨x, a⟩ ⟨hx, ha⟩ hf
    refine ⟨2, ?_, ?_⟩
    · rintro ⟨x1, a1⟩ ⟨x2, a2⟩ ⟨h1, _⟩ ⟨h2, _⟩
      rcases h1 with h | h <;> rcases h2 with h' | h' <;> simp only at h h' ⊢ <;> subst h <;> subst h' <;> norm_num
    · rcases hx with h | h
      · rcases ha with h' | h' <;> simp only at h h' ⊢ <;> subst h <;> subst h' <;> norm_num
      · exact absurd h hf

/-! ## T8.1 — PCBO: any finite sequence of comparison and logical constraints on one model -/

/-- **T8.1 (PCBO, validity).**  After the objective and any sequence of calls satisfying `ConsOK`,
`is_solution_valid` holds at a boolean assignment iff every constraint's predicate holds there. -/
theorem T8_1_valid_iff_pcbo {obj : Poly} {cs : List Con} {Gs : List Pred} {st : St}
    (hb : Workflow.build obj cs = .ok st) (hok : ConsOK (start obj) cs Gs) (x : Var → Rat) (hx : IsBool x) :
    isValid st x = true ↔ ∀ G ∈ Gs, G x := by
  have H := histOK_of_addCons hb hok
  have hlen := consOK_length hb hok
  have hsnd : ((cs.map Con.lam).zip Gs).map Prod.snd = Gs := List.map_snd_zip (by simp [hlen])
  have := H.valid x hx
  simp only [snapB, start_valid, true_and] at this
  rw [this]
  constructor
  · intro h G hG
    rw [← hsnd] at hG
    obtain ⟨c, hc, rfl⟩ := List.mem_map.1 hG
    exact h c hc
  · intro h c hc
    exact h c.2 (by rw [← hsnd]; exact List.mem_map.2 ⟨c, hc, rfl⟩)

/-- **T8.1 (PCBO, minimisers).**  Objective `f` over user labels; any finite sequence of comparison and logical
constraints each satisfying `ConOK` at its state, each with weight `> max f - min f`; some boolean assignment
feasible.  Then every boolean minimiser of the whole model `H` (over variables *and* ancillas) satisfies all
constraints, minimises `f` over the feasible boolean assignments, and has `H = f` (all penalties vanish). -/
theorem T8_1_pcbo_minimiser {obj : Poly} {cs : List Con} {Gs : List Pred} {st : St}
    (hb : Workflow.build obj cs = .ok st) (hok : ConsOK (start obj) cs Gs) (hobj : Below ANC (start obj).terms)
    (hbig : ∀ c ∈ cs, ∀ x y, IsBool x → IsBool y → eval x (start obj).terms - eval y (start obj).terms < c.lam)
    (hex : ∃ x, IsBool x ∧ isValid st x = true)
    (s : Var → Rat) (hs : IsBool s) (hmin : ∀ s', IsBool s' → eval s st.terms ≤ eval s' st.terms) :
    isValid st s = true ∧
    (∀ x, IsBool x → isValid st x = true → eval s (start obj).terms ≤ eval x (start obj).terms) ∧
    eval s st.terms = eval s (start obj).terms := by
  have H := histOK_of_addCons hb hok
  have P := H.penaltyFacts hobj (start_valid obj)
  have W := H.bigWeights (start_valid obj) (fun c hc => by
    obtain ⟨con, hcon, e⟩ := mem_pairs hc
    rw [← e]; exact hbig con hcon)
  exact Abs.minimiser_feasible_optimal P W hex hs hmin

/-- **T8.1 (PCBO, minimum).**  Under the same hypotheses the minimum of the whole model over boolean assignments
equals the constrained optimum of `f`. -/
theorem T8_1_pcbo_minimum {obj : Poly} {cs : List Con} {Gs : List Pred} {st : St}
    (hb : Workflow.build obj cs = .ok st) (hok : ConsOK (start obj) cs Gs) (hobj : Below ANC (start obj).terms)
    (hbig : ∀ c ∈ cs, ∀ x y, IsBool x → IsBool y → eval x (start obj).terms - eval y (start obj).terms < c.lam)
    (hex : ∃ x, IsBool x ∧ isValid st x = true) (m : Rat) :
    (∃ s, IsBool s ∧ eval s st.terms = m ∧ ∀ s', IsBool s' → m ≤ eval s' st.terms) ↔
    (∃ x, IsBool x ∧ isValid st x = true ∧ eval x (start obj).terms = m ∧
      ∀ x', IsBool x' → isValid st x' = true → m ≤ eval x' (start obj).terms) := by
  have H := histOK_of_addCons hb hok
  have P := H.penaltyFacts hobj (start_valid obj)
  have W := H.bigWeights (start_valid obj) (fun c hc => by
    obtain ⟨con, hcon, e⟩ := mem_pairs hc
    rw [← e]; exact hbig con hcon)
  exact Abs.same_minimum P W hex m

/-- **T8.1 (penalties of a mixed history, the facts themselves).**  Along any sequence of calls satisfying `ConsOK`:
the sum of all added terms is `≥ 0` at every boolean assignment of variables and ancillas; it is `≥ lam_c` as soon
as the constraint of call `c` is violated; and if every constraint holds at a boolean `x`, one boolean setting of all
the ancillas drawn along the history (everything else as in `x`) makes it vanish.  (T2.5 extended to histories that
mix comparison and logical constraints.) -/
theorem T8_1_pcbo_penalties {obj : Poly} {cs : List Con} {Gs : List Pred} {st : St}
    (hb : Workflow.build obj cs = .ok st) (hok : ConsOK (start obj) cs Gs) :
    (∀ s, IsBool s → 0 ≤ eval s st.terms - eval s (start obj).terms) ∧
    (∀ s, IsBool s → ∀ c ∈ (cs.map Con.lam).zip Gs, ¬ c.2 s → c.1 ≤ eval s st.terms - eval s (start obj).terms) ∧
    (∀ x, IsBool x → (∀ G ∈ Gs, G x) →
      ∃ s, (∀ i, ¬ (∃ k, k < st.anc ∧ i = ANC + k) → s i = x i) ∧ IsBool s ∧
        eval s st.terms - eval s (start obj).terms = 0) := by
  have H := histOK_of_addCons hb hok
  refine ⟨fun s hs => H.nonneg hs, fun s hs c hc hv => H.viol hs hc hv, fun x hx hG => ?_⟩
  obtain ⟨s, hag, hs, h0⟩ := H.sat hx (fun c hc => hG c.2 (List.of_mem_zip (a := c.1) (b := c.2) (by simpa using hc)).2)
  refine ⟨s, fun i hi => hag i ?_, hs, h0⟩
  rintro ⟨k, _, hk, e⟩
  exact hi ⟨k, hk, e⟩

/-- a logical call discharges its `ConOK` through the C06 specification of its method; here `add_constraint_AND`
on labels `< ANC` (the other fifteen methods alike, with `Qv.C06.or_spec`, …, `Qv.C06.eq_not_spec`) -/
theorem conOK_and_labels (st : St) (ls : List Var) (lam : Rat) (hlam : 0 < lam) (hl : ∀ i ∈ ls, i < ANC) :
    ConOK st (.logic false .and (ls.map SVal.lbl) lam) (fun x => AllT x (ls.map SVal.lbl)) := by
  refine ⟨hlam, fun x y hxy => ?_, fun st' h x hx => ?_⟩
  · unfold AllT T
    constructor
    · intro h v hv
      obtain ⟨i, hi, rfl⟩ := List.mem_map.1 hv
      have := h _ hv
      simp only [SVal.ev] at this ⊢
      rw [← hxy i (hl i hi)]; exact this
    · intro h v hv
      obtain ⟨i, hi, rfl⟩ := List.mem_map.1 hv
      have := h _ hv
      simp only [SVal.ev] at this ⊢
      rw [hxy i (hl i hi)]; exact this
  · refine C06.and_spec st st' _ lam x ?_ hlam hx (by simpa [consLogic] using h)
    intro v hv
    obtain ⟨i, _, rfl⟩ := List.mem_map.1 hv
    trivial

/-! ## T8.1 — PCSO: any finite sequence of comparison constraints on spins (from C03's `spin_penalty`) -/

/-- **T8.1 (PCSO, minimisers).**  `s0` is `PCSO(objective)`: terms over user labels, no constraint recorded.  Any
finite sequence of comparison constraints satisfying C03's premises at their states, not warned "cannot be
satisfied", each weight `> max f - min f` over spin assignments; some spin assignment feasible.  Then every spin
minimiser of the whole model satisfies all constraints, minimises `f` over the feasible spin assignments, and has
`H = f`. -/
theorem T8_1_pcso_minimiser {s0 s1 : PSt} {cs : List Call} (hrun : runHist s0 cs = .ok s1)
    (h0 : s0.cons = []) (hobj : VarsIn (fun i => i < ANC) s0.terms) (hok : CallsOK s0 cs)
    (hbig : ∀ c ∈ cs, ∀ x y, IsSpin x → IsSpin y → eval x s0.terms - eval y s0.terms < c.lam)
    (hex : ∃ z, IsSpin z ∧ Pcso.isValid s1 z = true)
    (z : Var → Rat) (hz : IsSpin z) (hmin : ∀ z', IsSpin z' → eval z s1.terms ≤ eval z' s1.terms) :
    Pcso.isValid s1 z = true ∧
    (∀ x, IsSpin x → Pcso.isValid s1 x = true → eval z s0.terms ≤ eval x s0.terms) ∧
    eval z s1.terms = eval z s0.terms := by
  have hi : AncInv s0 := fun kv hkv i hik => Nat.lt_of_lt_of_le (hobj kv hkv i hik) (Nat.le_add_right _ _)
  have hv0 : ∀ x, (snapS s0).valid x = true := fun x => by simp [snapS, Pcso.isValid, Qv.isValid, h0]
  have H := histOK_of_runHist hrun hi hok
  have P := H.penaltyFacts (fun kv hkv i hik => hobj kv hkv i hik) hv0
  have W := H.bigWeights hv0 (fun c hc => by
    obtain ⟨call, hcall, rfl⟩ := List.mem_map.1 hc
    exact hbig call hcall)
  exact Abs.minimiser_feasible_optimal P W hex hz hmin

/-- **T8.1 (PCSO, minimum).** -/
theorem T8_1_pcso_minimum {s0 s1 : PSt} {cs : List Call} (hrun : runHist s0 cs = .ok s1)
    (h0 : s0.cons = []) (hobj : VarsIn (fun i => i < ANC) s0.terms) (hok : CallsOK s0 cs)
    (hbig : ∀ c ∈ cs, ∀ x y, IsSpin x → IsSpin y → eval x s0.terms - eval y s0.terms < c.lam)
    (hex : ∃ z, IsSpin z ∧ Pcso.isValid s1 z = true) (m : Rat) :
    (∃ z, IsSpin z ∧ eval z s1.terms = m ∧ ∀ z', IsSpin z' → m ≤ eval z' s1.terms) ↔
    (∃ x, IsSpin x ∧ Pcso.isValid s1 x = true ∧ eval x s0.terms = m ∧
      ∀ x', IsSpin x' → Pcso.isValid s1 x' = true → m ≤ eval x' s0.terms) := by
  have hi : AncInv s0 := fun kv hkv i hik => Nat.lt_of_lt_of_le (hobj kv hkv i hik) (Nat.le_add_right _ _)
  have hv0 : ∀ x, (snapS s0).valid x = true := fun x => by simp [snapS, Pcso.isValid, Qv.isValid, h0]
  have H := histOK_of_runHist hrun hi hok
  have P := H.penaltyFacts (fun kv hkv i hik => hobj kv hkv i hik) hv0
  have W := H.bigWeights hv0 (fun c hc => by
    obtain ⟨call, hcall, rfl⟩ := List.mem_map.1 hc
    exact hbig call hcall)
  exact Abs.same_minimum P W hex m

/-- **T8.1 (PCSO, validity).**  `is_solution_valid` of the final PCSO at a spin assignment ⟺ every `H_i(z) R_i 0`. -/
theorem T8_1_valid_iff_pcso {s0 s1 : PSt} {cs : List Call} (hrun : runHist s0 cs = .ok s1)
    (h0 : s0.cons = []) (hobj : VarsIn (fun i => i < ANC) s0.terms) (hok : CallsOK s0 cs)
    (z : Var → Rat) (hz : IsSpin z) :
    Pcso.isValid s1 z = true ↔ ∀ c ∈ cs, c.rel.holds (eval z c.H) = true := by
  have hi : AncInv s0 := fun kv hkv i hik => Nat.lt_of_lt_of_le (hobj kv hkv i hik) (Nat.le_add_right _ _)
  have hv0 : (snapS s0).valid z = true := by simp [snapS, Pcso.isValid, Qv.isValid, h0]
  have := (histOK_of_runHist hrun hi hok).valid z hz
  rw [hv0] at this
  simp only [true_and] at this
  rw [show Pcso.isValid s1 z = (snapS s1).valid z from rfl, this]
  constructor
  · intro h c hc; exact h _ (List.mem_map.2 ⟨c, hc, rfl⟩)
  · intro h c hc
    obtain ⟨call, hcall, rfl⟩ := List.mem_map.1 hc
    exact h call hcall

/-! ## T8.2 — through degree reduction and the four target forms -/

/-- **T8.2 (boolean targets `to_pubo`, `to_qubo` of a PCBO).**  `terms` = the final model relabelled through
`mapping` (`mapSelf`), `rst.D` a degree reduction of it accepted by C01's specification checker with admissible
penalties (the default `1 + |v|` is), `rev` = `reverse_mapping`.  Every boolean minimiser `s` of `D`, read through
the mapping (`convert_solution`: `l ↦ s[mapping[l]]`), satisfies all constraints and minimises `f` over the feasible
assignments; `D(s)` equals that constrained optimum. -/
theorem T8_2_bool_form {obj : Poly} {cs : List Con} {Gs : List Pred} {st : St}
    (hb : Workflow.build obj cs = .ok st) (hok : ConsOK (start obj) cs Gs) (hobj : Below ANC (start obj).terms)
    (hbig : ∀ c ∈ cs, ∀ x y, IsBool x → IsBool y → eval x (start obj).terms - eval y (start obj).terms < c.lam)
    (hex : ∃ x, IsBool x ∧ isValid st x = true)
    {n deg : Nat} {terms : Poly} {m : Reduce.Mapping} {fr : Reduce.Freq} {certs : List Reduce.TermCert}
    {rst : Reduce.RSt} (hm : Reduce.mapSelf m st.terms [] [] = .ok (terms, fr))
    (h : Reduce.replay n deg terms certs = .ok rst) (hl : ∀ c ∈ certs, c.steps ≠ [] → |c.v| ≤ c.lam)
    (rev : Var → Var) (hrev : ∀ kv ∈ st.terms, ∀ l ∈ kv.1, rev (Reduce.mfun m l) = l)
    (s : Var → Rat) (hs : IsBool s) (hmin : ∀ s', IsBool s' → eval s rst.D ≤ eval s' rst.D) :
    IsBool (fun l => s (Reduce.mfun m l)) ∧ isValid st (fun l => s (Reduce.mfun m l)) = true ∧
    (∀ x, IsBool x → isValid st x = true →
      eval (fun l => s (Reduce.mfun m l)) (start obj).terms ≤ eval x (start obj).terms) ∧
    eval s rst.D = eval (fun l => s (Reduce.mfun m l)) (start obj).terms := by
  obtain ⟨hx, hxmin, hval⟩ := reduced_minimiser hm h hl rev hrev s hs hmin
  obtain ⟨h1, h2, h3⟩ := T8_1_pcbo_minimiser hb hok hobj hbig hex _ hx hxmin
  exact ⟨hx, h1, h2, by rw [hval, h3]⟩

/-- **T8.2 (spin targets `to_puso`, `to_quso` of a PCBO).**  `L` is the spin form of the reduced `D`
(`pubo_to_puso(D)` resp. `qubo_to_quso(D)`: by C01 `puso_target_value` / `quso_target_value` it has at every spin
`z` the value of `D` at `spin_to_boolean(z)`).  Every spin minimiser `z` of `L`, converted (`1 ↦ 0`, `-1 ↦ 1`) and
read through the mapping, satisfies all constraints and minimises `f` over the feasible assignments; `L(z)` equals
the constrained optimum. -/
theorem T8_2_spin_form {obj : Poly} {cs : List Con} {Gs : List Pred} {st : St}
    (hb : Workflow.build obj cs = .ok st) (hok : ConsOK (start obj) cs Gs) (hobj : Below ANC (start obj).terms)
    (hbig : ∀ c ∈ cs, ∀ x y, IsBool x → IsBool y → eval x (start obj).terms - eval y (start obj).terms < c.lam)
    (hex : ∃ x, IsBool x ∧ isValid st x = true)
    {n deg : Nat} {terms : Poly} {m : Reduce.Mapping} {fr : Reduce.Freq} {certs : List Reduce.TermCert}
    {rst : Reduce.RSt} (hm : Reduce.mapSelf m st.terms [] [] = .ok (terms, fr))
    (h : Reduce.replay n deg terms certs = .ok rst) (hl : ∀ c ∈ certs, c.steps ≠ [] → |c.v| ≤ c.lam)
    (rev : Var → Var) (hrev : ∀ kv ∈ st.terms, ∀ l ∈ kv.1, rev (Reduce.mfun m l) = l)
    (L : Poly) (hL : ∀ z, IsSpin z → eval z L = eval (Reduce.s2b z) rst.D)
    (z : Var → Rat) (hz : IsSpin z) (hmin : ∀ z', IsSpin z' → eval z L ≤ eval z' L) :
    isValid st (fun l => Reduce.s2b z (Reduce.mfun m l)) = true ∧
    (∀ x, IsBool x → isValid st x = true →
      eval (fun l => Reduce.s2b z (Reduce.mfun m l)) (start obj).terms ≤ eval x (start obj).terms) ∧
    eval z L = eval (fun l => Reduce.s2b z (Reduce.mfun m l)) (start obj).terms := by
  obtain ⟨hsb, hsmin, hv⟩ := spin_form_minimiser hL z hz hmin
  obtain ⟨_, h1, h2, h3⟩ := T8_2_bool_form hb hok hobj hbig hex hm h hl rev hrev _ hsb hsmin
  exact ⟨h1, h2, by rw [hv, h3]⟩

/-- the two spin forms of C01 satisfy the hypothesis `hL` of `T8_2_spin_form` -/
theorem T8_2_spin_forms_value (D : Poly) :
    (∀ z, IsSpin z → eval z (Reduce.puboToPuso D) = eval (Reduce.s2b z) D) ∧
    ((∀ kv ∈ D, kv.1.length ≤ 2) → ∃ L, Reduce.quboToQuso D [] = .ok L ∧
      ∀ z, IsSpin z → eval z L = eval (Reduce.s2b z) D) :=
  ⟨fun z hz => (C01.puso_target_value D z hz).1, fun hD => C01.quso_target_value D hD⟩

/-- **T8.2 (PCSO source).**  A PCSO is reduced through its boolean image `P = puso_to_pubo(H)` (C01
`puso_source_value`, C04 T4.2: `P(x) = H(1 - 2x)`).  A boolean minimiser of `P`, read as spins
(`convert_solution`: `0 ↦ 1`, `1 ↦ -1`), is a spin minimiser of the PCSO's whole model, hence (T8.1 for PCSO)
satisfies all constraints and minimises `f` over the feasible spin assignments. -/
theorem T8_2_pcso_source {s0 s1 : PSt} {cs : List Call} (hrun : runHist s0 cs = .ok s1)
    (h0 : s0.cons = []) (hobj : VarsIn (fun i => i < ANC) s0.terms) (hok : CallsOK s0 cs)
    (hbig : ∀ c ∈ cs, ∀ x y, IsSpin x → IsSpin y → eval x s0.terms - eval y s0.terms < c.lam)
    (hex : ∃ z, IsSpin z ∧ Pcso.isValid s1 z = true)
    (x : Var → Rat) (hx : IsBool x)
    (hmin : ∀ x', IsBool x' → eval x (Reduce.pusoToPubo s1.terms) ≤ eval x' (Reduce.pusoToPubo s1.terms)) :
    Pcso.isValid s1 (Reduce.b2s x) = true ∧
    (∀ z, IsSpin z → Pcso.isValid s1 z = true → eval (Reduce.b2s x) s0.terms ≤ eval z s0.terms) ∧
    eval x (Reduce.pusoToPubo s1.terms) = eval (Reduce.b2s x) s0.terms := by
  obtain ⟨hz, hzmin, hv⟩ := spin_source_minimiser (H := s1.terms)
    (fun y hy => (C01.puso_source_value s1.terms y hy).1) x hx hmin
  obtain ⟨h1, h2, h3⟩ := T8_1_pcso_minimiser hrun h0 hobj hok hbig hex _ hz hzmin
  exact ⟨h1, h2, by rw [hv, h3]⟩

/-- **T8.2 (PCSO, boolean targets `to_pubo`, `to_qubo`).**  `PCSO.to_qubo()` reduces the boolean image
`P = puso_to_pubo(H)` relabelled through `mapping`.  Every boolean minimiser `s` of the reduced `D`, read through
the mapping and converted to spins (`convert_solution`), satisfies all constraints and minimises `f` over the
feasible spin assignments; `D(s)` equals the constrained optimum. -/
theorem T8_2_pcso_bool_form {s0 s1 : PSt} {cs : List Call} (hrun : runHist s0 cs = .ok s1)
    (h0 : s0.cons = []) (hobj : VarsIn (fun i => i < ANC) s0.terms) (hok : CallsOK s0 cs)
    (hbig : ∀ c ∈ cs, ∀ x y, IsSpin x → IsSpin y → eval x s0.terms - eval y s0.terms < c.lam)
    (hex : ∃ z, IsSpin z ∧ Pcso.isValid s1 z = true)
    {n deg : Nat} {terms : Poly} {m : Reduce.Mapping} {fr : Reduce.Freq} {certs : List Reduce.TermCert}
    {rst : Reduce.RSt} (hm : Reduce.mapSelf m (Reduce.pusoToPubo s1.terms) [] [] = .ok (terms, fr))
    (h : Reduce.replay n deg terms certs = .ok rst) (hl : ∀ c ∈ certs, c.steps ≠ [] → |c.v| ≤ c.lam)
    (rev : Var → Var) (hrev : ∀ kv ∈ Reduce.pusoToPubo s1.terms, ∀ l ∈ kv.1, rev (Reduce.mfun m l) = l)
    (s : Var → Rat) (hs : IsBool s) (hmin : ∀ s', IsBool s' → eval s rst.D ≤ eval s' rst.D) :
    Pcso.isValid s1 (Reduce.b2s (fun l => s (Reduce.mfun m l))) = true ∧
    (∀ z, IsSpin z → Pcso.isValid s1 z = true →
      eval (Reduce.b2s (fun l => s (Reduce.mfun m l))) s0.terms ≤ eval z s0.terms) ∧
    eval s rst.D = eval (Reduce.b2s (fun l => s (Reduce.mfun m l))) s0.terms := by
  obtain ⟨hx, hxmin, hval⟩ := reduced_minimiser hm h hl rev hrev s hs hmin
  obtain ⟨h1, h2, h3⟩ := T8_2_pcso_source hrun h0 hobj hok hbig hex _ hx hxmin
  exact ⟨h1, h2, by rw [hval, h3]⟩

/-- **T8.2 (PCSO, spin targets `to_puso`, `to_quso` through a reduction).**  `L` is the spin form of the reduced `D`
(hypothesis `hL`, discharged by `T8_2_spin_forms_value`). -/
theorem T8_2_pcso_spin_form {s0 s1 : PSt} {cs : List Call} (hrun : runHist s0 cs = .ok s1)
    (h0 : s0.cons = []) (hobj : VarsIn (fun i => i < ANC) s0.terms) (hok : CallsOK s0 cs)
    (hbig : ∀ c ∈ cs, ∀ x y, IsSpin x → IsSpin y → eval x s0.terms - eval y s0.terms < c.lam)
    (hex : ∃ z, IsSpin z ∧ Pcso.isValid s1 z = true)
    {n deg : Nat} {terms : Poly} {m : Reduce.Mapping} {fr : Reduce.Freq} {certs : List Reduce.TermCert}
    {rst : Reduce.RSt} (hm : Reduce.mapSelf m (Reduce.pusoToPubo s1.terms) [] [] = .ok (terms, fr))
    (h : Reduce.replay n deg terms certs = .ok rst) (hl : ∀ c ∈ certs, c.steps ≠ [] → |c.v| ≤ c.lam)
    (rev : Var → Var) (hrev : ∀ kv ∈ Reduce.pusoToPubo s1.terms, ∀ l ∈ kv.1, rev (Reduce.mfun m l) = l)
    (L : Poly) (hL : ∀ z, IsSpin z → eval z L = eval (Reduce.s2b z) rst.D)
    (z : Var → Rat) (hz : IsSpin z) (hmin : ∀ z', IsSpin z' → eval z L ≤ eval z' L) :
    Pcso.isValid s1 (Reduce.b2s (fun l => Reduce.s2b z (Reduce.mfun m l))) = true ∧
    (∀ w, IsSpin w → Pcso.isValid s1 w = true →
      eval (Reduce.b2s (fun l => Reduce.s2b z (Reduce.mfun m l))) s0.terms ≤ eval w s0.terms) ∧
    eval z L = eval (Reduce.b2s (fun l => Reduce.s2b z (Reduce.mfun m l))) s0.terms := by
  obtain ⟨hsb, hsmin, hv⟩ := spin_form_minimiser hL z hz hmin
  obtain ⟨h1, h2, h3⟩ := T8_2_pcso_bool_form hrun h0 hobj hok hbig hex hm h hl rev hrev _ hsb hsmin
  exact ⟨h1, h2, by rw [hv, h3]⟩

/-! ## T8.3 — `solve_bruteforce()` (validity-filtered); no condition on the weights -/

/-- **T8.3 (PCBO).**  For a model whose bookkeeping is refreshed (`Setup`: the enumerated variables `vars` are exactly
the variables occurring in the terms, once each) and covers the variables of the recorded constraints
(`ConsCovered` — without it the real code raises `KeyError`, see the report), and with some feasible assignment:
`solve_bruteforce()` returns an assignment over exactly `vars` (variables and ancillas) that satisfies every
constraint, minimises the objective `f` over *all* boolean assignments satisfying the constraints, and at which all
penalties vanish; with `all_solutions=True` a duplicate-free non-empty list of such assignments.  The weights only
need to be positive (`ConsOK`). -/
theorem T8_3_bruteforce_pcbo {obj : Poly} {cs : List Con} {Gs : List Pred} {st : St}
    (hb : Workflow.build obj cs = .ok st) (hok : ConsOK (start obj) cs Gs) (hobj : Below ANC (start obj).terms)
    {book : Brute.Book} {vars : List Var}
    (S : Brute.Setup (wfFn false) (wfModel false st book) [] vars) (hc : ConsCovered st vars) (allS : Bool)
    (hex : ∃ x, IsBool x ∧ isValid st x = true) :
    ∃ sol, solveBruteforce false st book allS = .ok sol ∧
      (allS = false → ∃ g, IsBool g ∧ sol = .one (Brute.restrict vars g) ∧ isValid st g = true ∧
        (∀ x, IsBool x → isValid st x = true → eval g (start obj).terms ≤ eval x (start obj).terms) ∧
        eval g st.terms = eval g (start obj).terms) ∧
      (allS = true → ∃ l, sol = .many l ∧ l.Nodup ∧ (∃ a, a ∈ l) ∧
        ∀ a ∈ l, ∃ g, IsBool g ∧ a = Brute.restrict vars g ∧ isValid st g = true ∧
          (∀ x, IsBool x → isValid st x = true → eval g (start obj).terms ≤ eval x (start obj).terms) ∧
          eval g st.terms = eval g (start obj).terms) := by
  have P := (histOK_of_addCons hb hok).penaltyFacts hobj (start_valid obj)
  exact bruteforce_objective (Dm := IsBool) (fun g => by simp [Brute.Dom]) P S hc allS hex

/-- the `St` view of a PCSO state that `solve_bruteforce` / `is_solution_valid` read: terms and recorded constraints -/
def pcsoSt (s : PSt) : St := { terms := s.terms, cons := s.cons }

/-- **T8.3 (PCSO).**  The same for a PCSO (`solve_puso_bruteforce` with `is_solution_valid`). -/
theorem T8_3_bruteforce_pcso {s0 s1 : PSt} {cs : List Call} (hrun : runHist s0 cs = .ok s1)
    (h0 : s0.cons = []) (hobj : VarsIn (fun i => i < ANC) s0.terms) (hok : CallsOK s0 cs)
    {book : Brute.Book} {vars : List Var}
    (S : Brute.Setup (wfFn true) (wfModel true (pcsoSt s1) book) [] vars) (hc : ConsCovered (pcsoSt s1) vars)
    (allS : Bool) (hex : ∃ z, IsSpin z ∧ Pcso.isValid s1 z = true) :
    ∃ sol, solveBruteforce true (pcsoSt s1) book allS = .ok sol ∧
      (allS = false → ∃ g, IsSpin g ∧ sol = .one (Brute.restrict vars g) ∧ Pcso.isValid s1 g = true ∧
        (∀ x, IsSpin x → Pcso.isValid s1 x = true → eval g s0.terms ≤ eval x s0.terms) ∧
        eval g s1.terms = eval g s0.terms) ∧
      (allS = true → ∃ l, sol = .many l ∧ l.Nodup ∧ (∃ a, a ∈ l) ∧
        ∀ a ∈ l, ∃ g, IsSpin g ∧ a = Brute.restrict vars g ∧ Pcso.isValid s1 g = true ∧
          (∀ x, IsSpin x → Pcso.isValid s1 x = true → eval g s0.terms ≤ eval x s0.terms) ∧
          eval g s1.terms = eval g s0.terms) := by
  have hi : AncInv s0 := fun kv hkv i hik => Nat.lt_of_lt_of_le (hobj kv hkv i hik) (Nat.le_add_right _ _)
  have hv0 : ∀ x, (snapS s0).valid x = true := fun x => by simp [snapS, Pcso.isValid, Qv.isValid, h0]
  have P := (histOK_of_runHist hrun hi hok).penaltyFacts (fun kv hkv i hik => hobj kv hkv i hik) hv0
  exact bruteforce_objective (Dm := IsSpin) (st := pcsoSt s1) (f := fun z => eval z s0.terms)
    (fun g => by simp [Brute.Dom]) P S hc allS hex

/-- without `ConsCovered` the model raises `KeyError`, as the code does: the objective `x0`, the always satisfied
constraint `x1 - 5 <= 0` (no penalty is added, so `x1` is unknown to the bookkeeping) -/
example : (match Workflow.build [([0], 1)] [.cmp .le [([1], 1), ([], -5)] 2 true (none, none) false] with
    | .ok st => (match solveBruteforce false st ⟨1, [(0, 0)]⟩ false with | .error .key => true | _ => false)
    | .error _ => false) = true := by decide +kernel

/-! ## T8.4 — `remove_ancilla_from_solution` -/

/-- **T8.4.**  `remove_ancilla_from_solution(s)` is exactly the non-ancilla part of `s`: a sub-dict in the same
order, containing precisely the entries whose label is not an ancilla (`"__a<k>"` is `ANC + k`, user labels are
`< ANC`), with their values unchanged. -/
theorem T8_4_removeAncilla (s : Brute.Assign) :
    (removeAncilla s).Sublist s ∧ (∀ p, p ∈ removeAncilla s ↔ p ∈ s ∧ p.1 < ANC) ∧
    ∀ i, Brute.aget? (removeAncilla s) i = if i < ANC then Brute.aget? s i else none :=
  ⟨removeAncilla_sublist s, mem_removeAncilla s, aget?_removeAncilla s⟩

example : removeAncilla [(0, 1), (ANC + 1, 0), (3, 0), (ANC, 1)] = [(0, 1), (3, 0)] := by decide +kernel

/-! ## Non-vacuity: concrete workflows satisfying the hypotheses of T8.1–T8.3 -/

/-- objective `x0 - 2 x1` (`max f - min f = 3`), constraint `2 x0 + 3 x1 - 4 <= 0` (C02's example polynomial, three
slack ancillas with the log trick) with weight `4` -/
def exObj : Poly := [([0], 1), ([1], -2)]
def exCons : List Con := [.cmp .le C02.exP 4 true (none, none) false]

example : (Workflow.build exObj exCons).toOption.map (fun st => (st.anc, st.cons.length)) = some (3, 1) := by
  decide +kernel

theorem exObj_terms : (start exObj).terms = [([0], 1), ([1], -2)] := by decide +kernel

theorem exObj_eval (x : Var → Rat) : eval x (start exObj).terms = x 0 - 2 * x 1 := by
  rw [exObj_terms]; simp [eval, mon]; ring

/-- the hypotheses `hok`, `hobj`, `hbig`, `hex` of T8.1 / T8.2 / T8.3 hold for it -/
example : ∃ st, Workflow.build exObj exCons = .ok st ∧
    ConsOK (start exObj) exCons [fun x => RelP .le (eval x C02.exP)] ∧ Below ANC (start exObj).terms ∧
    (∀ c ∈ exCons, ∀ x y, IsBool x → IsBool y → eval x (start exObj).terms - eval y (start exObj).terms < c.lam) ∧
    ∃ x, IsBool x ∧ isValid st x = true := by
  have hok : ConsOK (start exObj) exCons [fun x => RelP .le (eval x C02.exP)] :=
    ⟨⟨C02.exP_hyp _ 4 (by norm_num), fun h => h, C02.exP_below, rfl⟩, fun _ _ => trivial⟩
  have hb : Workflow.build exObj exCons = .ok (addConstraint .le (start exObj) C02.exP 4 true (none, none) false) := rfl
  refine ⟨_, hb, hok, ?_, ?_, ⟨fun _ => 0, fun _ => Or.inl rfl, ?_⟩⟩
  · rw [exObj_terms]
    intro kv hkv i hi
    simp only [List.mem_cons, List.mem_nil_iff, or_false] at hkv
    rcases hkv with rfl | rfl <;> simp at hi <;> subst hi <;> show _ < ANC <;> unfold ANC <;> omega
  · intro c hc x y hx hy
    simp only [exCons, List.mem_singleton] at hc
    subst hc
    rw [exObj_eval, exObj_eval]
    show _ < (4 : Rat)
    rcases hx 0 with a | a <;> rcases hx 1 with b | b <;> rcases hy 0 with c | c <;> rcases hy 1 with d | d <;>
      rw [a, b, c, d] <;> norm_num
  · rw [T8_1_valid_iff_pcbo hb hok _ (fun _ => Or.inl rfl)]
    intro G hG
    simp only [List.mem_singleton] at hG
    subst hG
    show eval (fun _ => (0 : Rat)) C02.exP ≤ 0
    simp [C02.exP, eval, mon]

/-- a PCSO workflow: objective `z0`, constraint `z0 + z1 == 0` with weight `3 > max f - min f = 2` -/
def exS0 : PSt := { terms := [([0], 1)] }
def exCall : Call := ⟨.eq, [([0], 1), ([1], 1)], 3, true, (some (-2), none), false⟩

theorem exCall_premises : SpinPremises exCall.H exCall.lam exCall.bounds := by
  refine ⟨by norm_num [exCall], fun z hz => ?_, fun l hl z hz => ?_, fun u hu => by simp [exCall] at hu, ?_⟩
  · rcases hz 0 with h0 | h0 <;> rcases hz 1 with h1 | h1 <;> simp only [exCall, eval, mon, h0, h1]
    · exact ⟨2, by norm_num⟩
    · exact ⟨0, by norm_num⟩
    · exact ⟨0, by norm_num⟩
    · exact ⟨-2, by norm_num⟩
  · simp only [exCall, Option.some.injEq] at hl; subst hl
    rcases hz 0 with h0 | h0 <;> rcases hz 1 with h1 | h1 <;> simp only [exCall, eval, mon, h0, h1] <;> norm_num
  · intro kv hkv i hi
    simp only [exCall, List.mem_cons, List.not_mem_nil, or_false] at hkv
    rcases hkv with rfl | rfl <;> simp only [List.mem_singleton] at hi <;> subst hi <;> decide

example : (runHist exS0 [exCall]).toOption.map (fun s => (s.terms, s.anc, s.cons.length)) =
    some ([([0], 1), ([0, 1], 6), ([], 6)], 0, 1) := by decide +kernel

/-- the hypotheses `hok`, `h0`, `hobj` of the PCSO theorems hold for it -/
example : CallsOK exS0 [exCall] ∧ exS0.cons = [] ∧ VarsIn (fun i => i < ANC) exS0.terms := by
  refine ⟨⟨⟨exCall_premises, ?_⟩, fun _ _ => trivial⟩, rfl, ?_⟩
  · have hw : (match Pcso.addConstraint exCall.rel { exS0 with warns := [] } exCall.H exCall.lam exCall.lt
        exCall.bounds false with
      | .ok s' => decide ("unsat" ∈ s'.warns) | .error _ => false) = false := by decide +kernel
    unfold warnsUnsat
    revert hw
    cases Pcso.addConstraint exCall.rel { exS0 with warns := [] } exCall.H exCall.lam exCall.lt exCall.bounds false with
    | ok s' => simp
    | error e => simp
  · intro kv hkv i hi
    simp only [exS0, List.mem_singleton] at hkv
    subst hkv
    simp only [List.mem_singleton] at hi
    subst hi; decide

end Qv.C08
