import Qv.Proofs.Extrema
import Qv.Proofs.TempRange
import Qv.Proofs.TempLog
/-!
# C15 — Approximate extrema always enclose the true extrema

Only the property theorems and their non-vacuity examples (helper lemmas: `Qv/Proofs/Extrema.lean`,
`Qv/Proofs/TempRange.lean`, `Qv/Proofs/TempLog.lean`).  Models: `Qv.Model.Extrema`
(`qubovert/utils/_approximate_extrema.py`), `Qv.Model.TempRange`
(`qubovert/sim/_anneal_temperature_range.py`, rational part), `getBounds` in `Qv.Model.Pcbo`
(`qubovert/_pcbo.py:_get_bounds`).  The tie to the code is `harness/c15.py`.

`eval x p = Σ_{(k,v) ∈ p} v · Π_{i ∈ k} x i` over *raw* keys, so every statement covers plain dicts with
unsorted / repeated labels as well as the canonical term lists of the ten model types.
-/
namespace Qv.C15
open Qv

/-! ## T15.1 / T15.2 — enclosure -/

/-- **T15.1** `approximate_pubo_extrema` / `approximate_qubo_extrema`: for every term list (any number of
terms, any degree, raw keys) and every boolean assignment, `lo ≤ P(x) ≤ hi`. -/
theorem pubo_extrema_enclose (p : Poly) (x : Var → Rat) (hx : IsBool x) :
    (puboExtrema p).1 ≤ eval x p ∧ eval x p ≤ (puboExtrema p).2 :=
  puboExtrema_encloses hx p

/-- **T15.2** `approximate_puso_extrema` / `approximate_quso_extrema`: the same for every spin assignment. -/
theorem puso_extrema_enclose (p : Poly) (z : Var → Rat) (hz : IsSpin z) :
    (pusoExtrema p).1 ≤ eval z p ∧ eval z p ≤ (pusoExtrema p).2 :=
  pusoExtrema_encloses hz p

/-- **T15.1, model objects.**  If `p` is the object `cls(d)` of a boolean model type built from the user's
dict `d` (raw keys), the pair computed from the object encloses the values of the function `d` denotes. -/
theorem pubo_extrema_enclose_object (κ : Kind) (hκ : κ.isSpin = false) (d p : Poly)
    (h : construct (squash κ) d = .ok p) (x : Var → Rat) (hx : IsBool x) :
    (puboExtrema p).1 ≤ eval x d ∧ eval x d ≤ (puboExtrema p).2 := by
  rw [← eval_construct (sqOK_bool hκ hx) h]
  exact puboExtrema_encloses hx p

/-- **T15.2, model objects.** -/
theorem puso_extrema_enclose_object (κ : Kind) (hκ : κ.isSpin = true) (d p : Poly)
    (h : construct (squash κ) d = .ok p) (z : Var → Rat) (hz : IsSpin z) :
    (pusoExtrema p).1 ≤ eval z d ∧ eval z d ≤ (pusoExtrema p).2 := by
  rw [← eval_construct (sqOK_spin hκ hz) h]
  exact pusoExtrema_encloses hz p

/-- **`_get_bounds` consumes the enclosure.**  Whatever bounds the caller supplies (each of which is
assumed valid), the completed pair encloses every boolean value of `P`. -/
theorem get_bounds_enclose (p : Poly) (b : Option Rat × Option Rat) (x : Var → Rat) (hx : IsBool x)
    (hlo : ∀ lo, b.1 = some lo → lo ≤ eval x p) (hhi : ∀ hi, b.2 = some hi → eval x p ≤ hi) :
    (getBounds p b).1 ≤ eval x p ∧ eval x p ≤ (getBounds p b).2 :=
  getBounds_encloses hx p b hlo hhi

/-! ## T15.3 — constant models -/

/-- **T15.3 (boolean).**  A model all of whose keys are `()` (including the empty model) gives
`lo = hi =` its value (at any assignment whatsoever). -/
theorem pubo_extrema_const (p : Poly) (hp : ∀ kv ∈ p, kv.1 = []) (x : Var → Rat) :
    (puboExtrema p).1 = eval x p ∧ (puboExtrema p).2 = eval x p := by
  rw [puboExtrema_const x p hp]; exact ⟨rfl, rfl⟩

/-- **T15.3 (spin).** -/
theorem puso_extrema_const (p : Poly) (hp : ∀ kv ∈ p, kv.1 = []) (z : Var → Rat) :
    (pusoExtrema p).1 = eval z p ∧ (pusoExtrema p).2 = eval z p := by
  rw [pusoExtrema_const z p hp]; exact ⟨rfl, rfl⟩

/-! ## T15.4 — `anneal_temperature_range` -/

/-- **T15.4 (real analysis).**  For `0 < pe ≤ ps < 1` and `maxΔ ≥ minΔ ≥ 0`, with Mathlib's `Real.log`:
`-maxΔ / log ps ≥ -minΔ / log pe ≥ 0`. -/
theorem temp_log_order (maxΔ minΔ ps pe : ℝ) (hpe : 0 < pe) (hle : pe ≤ ps) (hps : ps < 1)
    (hmin : 0 ≤ minΔ) (hmax : minΔ ≤ maxΔ) :
    -maxΔ / Real.log ps ≥ -minΔ / Real.log pe ∧ -minΔ / Real.log pe ≥ 0 :=
  real_temp_order maxΔ minΔ ps pe hpe hle hps hmin hmax

/-- **T15.4 (the model's energy changes).**  For every input (plain dict, or object of any of the ten types
after any item-edit history), either spin flag and any probabilities: if the function returns, the
probabilities were admissible and either it returned the literal `(0, 0)` or there are
`maxΔ ≥ minΔ ≥ 0` such that `T0` is `0` if `ps = 0` and `-maxΔ/log ps` otherwise, and `Tf` is `0` if
`pe = 0` and `-minΔ/log pe` otherwise. -/
theorem temp_range_deltas (inp : Input) (ps pe : Rat) (spin : Bool) (t0 tf : Temp)
    (h : tempRange inp ps pe spin = .ok (t0, tf)) :
    (0 ≤ pe ∧ pe ≤ ps ∧ ps < 1) ∧
    ((t0 = .zero ∧ tf = .zero) ∨
     (∃ maxΔ minΔ : Rat, 0 ≤ minΔ ∧ minΔ ≤ maxΔ ∧
      t0 = (if ps = 0 then .zero else .ofDelta maxΔ) ∧
      tf = (if pe = 0 then .zero else .ofDelta minΔ))) :=
  tempRange_ok h

/-- **T15.4 (`T0 ≥ Tf ≥ 0`).**  Every pair the model returns denotes, over ℝ, temperatures with
`T0 ≥ Tf ≥ 0` (`Temp.val` reads `0` as `0` and `ofDelta dE` as `-dE / Real.log p`). -/
theorem temp_range_ordered (inp : Input) (ps pe : Rat) (spin : Bool) (t0 tf : Temp)
    (h : tempRange inp ps pe spin = .ok (t0, tf)) :
    t0.val ps ≥ tf.val pe ∧ tf.val pe ≥ 0 :=
  tempRange_val_ordered h

/-- inadmissible flip probabilities raise `ValueError` -/
theorem temp_range_inadmissible (inp : Input) (ps pe : Rat) (spin : Bool)
    (h : ¬ (0 ≤ pe ∧ pe ≤ ps ∧ ps < 1)) : tempRange inp ps pe spin = .error .value :=
  tempRange_inadmissible inp ps pe spin h

/-- **No variables, plain dict (full strength).**  A dict all of whose keys are `()` gives `(0, 0)` for
every admissible probability pair and either spin flag. -/
theorem temp_range_no_variables_dict (d : Poly) (hd : ∀ kv ∈ d, kv.1 = []) (ps pe : Rat)
    (h0 : 0 ≤ pe) (h1 : pe ≤ ps) (h2 : ps < 1) (spin : Bool) :
    tempRange (.raw d) ps pe spin = .ok (.zero, .zero) :=
  tempRange_raw_const hd h0 h1 h2 spin

/-- **No variables, model object (full strength).**  An object of any of the ten types whose current keys
are all `()` — whatever its history, in particular after terms cancelled and the cached `_variables` went
stale — gives `(0, 0)` for every admissible probability pair and either spin flag. -/
theorem temp_range_no_variables_object (κ : Kind) (d : Poly) (es : List Edit) (s : MState)
    (hb : buildObj κ d es = .ok s) (hs : ∀ kv ∈ s.p, kv.1 = []) (ps pe : Rat)
    (h0 : 0 ≤ pe) (h1 : pe ≤ ps) (h2 : ps < 1) (spin : Bool) :
    tempRange (.obj κ d es) ps pe spin = .ok (.zero, .zero) :=
  tempRange_obj_const hb hs h0 h1 h2 spin

/-- **The function never raises on admissible probabilities.**  For every plain dict and every model
object that exists (its constructor and edits did not raise), either spin flag and every admissible
probability pair, `tempRange` returns a pair — to which `temp_range_deltas` / `temp_range_ordered` apply.
(Before the repair of defect D6 the code read the stale cache and raised `ValueError` on cancelled
models.) -/
theorem temp_range_never_raises (inp : Input) (spin : Bool) (ps pe : Rat)
    (hb : ∀ κ d es, inp = .obj κ d es → ∃ s, buildObj κ d es = .ok s)
    (h0 : 0 ≤ pe) (h1 : pe ≤ ps) (h2 : ps < 1) :
    ∃ t0 tf, tempRange inp ps pe spin = .ok (t0, tf) :=
  tempRange_never_raises inp spin hb h0 h1 h2

/-! ## Non-vacuity: concrete instances -/

/-- a boolean assignment and a spin assignment exist -/
example : IsBool (fun i => if i = 0 then 1 else 0) := by
  intro i; by_cases h : i = 0 <;> simp [h]
example : IsSpin (fun i => if i = 0 then -1 else 1) := by
  intro i; by_cases h : i = 0 <;> simp [h]

/-- `approximate_pubo_extrema({(1,0,1): 2, (0,): -3, (): 1/2, (2,2): -1})` = (-7/2, 5/2), a raw dict -/
example : puboExtrema [([1, 0, 1], 2), ([0], -3), ([], 1/2), ([2, 2], -1)] = (-7/2, 5/2) := by
  decide +kernel
example : pusoExtrema [([1, 0, 1], 2), ([0], -3), ([], 1/2)] = (-9/2, 11/2) := by decide +kernel

/-- a QUBO object is constructible (hypothesis of the object theorems) -/
example : (construct (squash .qubo) [([1, 0, 1], 2), ([0], -3), ([], 1/2)]).toOption.isSome = true := by
  decide +kernel

/-- a constant model -/
example : puboExtrema [([], 3), ([], -1/2)] = (5/2, 5/2) := by decide +kernel

/-- `anneal_temperature_range(QUSO({(0,1): 2, (1,): -1, (): 5}), .5, .01, spin=True)`:
maxΔ = 2·3, minΔ = 2·1 -/
example : tempRange (.obj .quso [([0, 1], 2), ([1], -1), ([], 5)] []) (1/2) (1/100) true
    = .ok (.ofDelta 6, .ofDelta 2) := by decide +kernel

/-- boolean path: `{(0,): 1, (0,1): -2}` ↦ spin terms `{(): 0·…, (1,): 1/2, (0,1): -1/2}` -/
example : tempRange (.raw [([0], 1), ([0, 1], -2)]) (1/2) 0 false = .ok (.ofDelta 2, .zero) := by
  decide +kernel

/-- no variables -/
example : tempRange (.raw [([], 5)]) (1/2) (1/100) false = .ok (.zero, .zero) := by decide +kernel

/-- **regression input of the repaired defect D6**: `H = QUSO({(0,): 1}); H[(0,)] -= 1` has no terms while its
cache is `{0}`; the variables are read from the keys, so the result is `(0, 0)` -/
example : buildObj .quso [([0], 1)] [.addE [0] (-1)] = .ok ⟨[], [0]⟩ := by decide +kernel
example : tempRange (.obj .quso [([0], 1)] [.addE [0] (-1)]) (1/2) (1/100) true = .ok (.zero, .zero) := by
  decide +kernel
/-- the same through `pubo_to_puso` on a raw boolean dict with a repeated label -/
example : tempRange (.raw [([0], 1), ([0, 0], -1)]) (1/2) (1/100) false = .ok (.zero, .zero) := by
  decide +kernel
/-- a stale label next to live ones does not disturb the result: `QUSO({(0,):1,(1,):3}); H[(0,)] -= 1` -/
example : tempRange (.obj .quso [([0], 1), ([1], 3)] [.addE [0] (-1)]) (1/2) (1/100) true
    = .ok (.ofDelta 6, .ofDelta 6) := by decide +kernel

end Qv.C15
