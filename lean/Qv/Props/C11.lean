import Qv.Proofs.AnnealBool
/-!
# C11 — Annealers return well-formed results whose values match their states

Only the property theorems and their non-vacuity examples.  The model is
`Qv.Model.{Pcg,Kernel,AnnealFront}`; its tie to `qubovert/sim/_anneal.py`, `_canneal.c`,
`src/anneal_quso.c`, `src/anneal_puso.c` is the correspondence check `harness/c11.py` (exact replay
through the PCG32 model).  Every theorem holds for **every** random source and acceptance test
(`Src ρ α`, resp. `Src ρ Rat`), every schedule, visiting order and seed.
-/
namespace Qv.C11
open Qv Qv.Kernel Qv.Anneal

variable {ρ α : Type} [Add α] [Mul α] [OfInt α]

/-! ### T11.1 — exactly `num_anneals` results (none if `num_anneals <= 0`) -/

/-- `anneal_quso` returns `max(num_anneals, 0)` results, whenever it returns. -/
theorem count_quso (cfg : Cfg ρ α) (L : Obj) (P : Params ρ α) (rs : List Res)
    (h : annealQuso cfg L P = .ok rs) : rs.length = P.numAnneals.toNat := by
  unfold Anneal.annealQuso at h
  simp only [bind_ok_iff] at h
  obtain ⟨pr, hp, h⟩ := h
  rcases prep_cases _ _ _ _ hp with ⟨hle, rfl⟩ | ⟨_, Ts, N, model, rev, _, _, ⟨_, rfl⟩ | ⟨_, init, _, rfl⟩⟩
  · injection h with h; subst h
    simp [Int.toNat_of_nonpos hle]
  · injection h with h; subst h
    exact (emptyResults_spec _ _).1
  · exact runQuso_length cfg P _ rs h

/-- `anneal_puso` returns `max(num_anneals, 0)` results, whenever it returns. -/
theorem count_puso (cfg : Cfg ρ α) (H : Obj) (P : Params ρ α) (rs : List Res)
    (h : annealPuso cfg H P = .ok rs) : rs.length = P.numAnneals.toNat := by
  unfold Anneal.annealPuso at h
  simp only [bind_ok_iff] at h
  obtain ⟨pr, hp, h⟩ := h
  rcases prep_cases _ _ _ _ hp with ⟨hle, rfl⟩ | ⟨_, Ts, N, model, rev, _, _, ⟨_, rfl⟩ | ⟨_, init, _, rfl⟩⟩
  · injection h with h; subst h
    simp [Int.toNat_of_nonpos hle]
  · injection h with h; subst h
    exact (emptyResults_spec _ _).1
  · exact runPuso_length cfg P _ rs h

/-- `anneal_qubo` -/
theorem count_qubo (cfg : Cfg ρ α) (Q : Obj) (P : Params ρ α) (rs : List Res)
    (h : annealQubo cfg Q P = .ok rs) : rs.length = P.numAnneals.toNat := by
  unfold annealQubo at h
  simp only [bind_ok_iff] at h
  obtain ⟨L, _, init, _, r, hr, h⟩ := h
  rw [(toBoolean_spec r rs h).1]
  have := count_quso cfg L _ r hr
  simpa using this

/-- `anneal_pubo` -/
theorem count_pubo (cfg : Cfg ρ α) (Pm : Obj) (P : Params ρ α) (rs : List Res)
    (h : annealPubo cfg Pm P = .ok rs) : rs.length = P.numAnneals.toNat := by
  unfold annealPubo at h
  simp only [bind_ok_iff] at h
  obtain ⟨H, _, init, _, r, hr, h⟩ := h
  rw [(toBoolean_spec r rs h).1]
  have := count_puso cfg H _ r hr
  simpa using this

/-! ### T11.2 — domain, value set, spin flag -/

/-- Every result of `anneal_quso` has `spin = True`, values in `{1,-1}`, and its state's labels are
`reverse_mapping[0], …, reverse_mapping[N-1]` for the `(N, model, reverse_mapping)` the type dispatch
produced (Matrix input: `0..max_index`, see `domain_matrix_quso`; labelled input: the first
`num_binary_variables` registered labels). -/
theorem states_quso (cfg : Cfg ρ α) (L : Obj) (P : Params ρ α) (rs : List Res)
    (h : annealQuso cfg L P = .ok rs)
    (hinit : ∀ d, P.init = some d → ∀ p ∈ d, p.2 = 1 ∨ p.2 = -1) :
    ∀ r ∈ rs, r.spin = true ∧ (∀ p ∈ r.state, p.2 = 1 ∨ p.2 = -1) ∧
      ∃ N model rev, dispatchQuso L = .ok (N, model, rev) ∧
        r.state.map Prod.fst = (List.range N).map (fun k => rev.getD k 0) := by
  unfold Anneal.annealQuso at h
  simp only [bind_ok_iff] at h
  obtain ⟨pr, hp, h⟩ := h
  rcases prep_cases _ _ _ _ hp with ⟨hle, rfl⟩ | ⟨_, Ts, N, model, rev, _, hd, ⟨hN, rfl⟩ | ⟨_, init, hi, rfl⟩⟩
  · injection h with h; subst h; intro r hr; cases hr
  · injection h with h; subst h
    intro r hr
    obtain ⟨h1, _, h3⟩ := (emptyResults_spec _ _).2 r hr
    exact ⟨h3, by simp [h1], N, model, rev, hd, by simp [h1, hN]⟩
  · intro r hr
    obtain ⟨hsp, s, hg, hst⟩ := runQuso_states cfg P _ rs h (relabelInit_good _ _ _ _ hinit hi) r hr
    refine ⟨hsp, by rw [hst]; exact relabelState_vals _ _ hg.2, N, model, rev, hd, ?_⟩
    rw [hst, relabelState_fst, hg.1]

/-- the same for `anneal_puso` -/
theorem states_puso (cfg : Cfg ρ α) (H : Obj) (P : Params ρ α) (rs : List Res)
    (h : annealPuso cfg H P = .ok rs)
    (hinit : ∀ d, P.init = some d → ∀ p ∈ d, p.2 = 1 ∨ p.2 = -1) :
    ∀ r ∈ rs, r.spin = true ∧ (∀ p ∈ r.state, p.2 = 1 ∨ p.2 = -1) ∧
      ∃ N model rev, dispatchPuso H = .ok (N, model, rev) ∧
        r.state.map Prod.fst = (List.range N).map (fun k => rev.getD k 0) := by
  unfold Anneal.annealPuso at h
  simp only [bind_ok_iff] at h
  obtain ⟨pr, hp, h⟩ := h
  rcases prep_cases _ _ _ _ hp with ⟨hle, rfl⟩ | ⟨_, Ts, N, model, rev, _, hd, ⟨hN, rfl⟩ | ⟨_, init, hi, rfl⟩⟩
  · injection h with h; subst h; intro r hr; cases hr
  · injection h with h; subst h
    intro r hr
    obtain ⟨h1, _, h3⟩ := (emptyResults_spec _ _).2 r hr
    exact ⟨h3, by simp [h1], N, model, rev, hd, by simp [h1, hN]⟩
  · intro r hr
    obtain ⟨hsp, s, hg, hst⟩ := runPuso_states cfg P _ rs h (relabelInit_good _ _ _ _ hinit hi) r hr
    refine ⟨hsp, by rw [hst]; exact relabelState_vals _ _ hg.2, N, model, rev, hd, ?_⟩
    rw [hst, relabelState_fst, hg.1]

/-- Matrix input of `anneal_quso` (`QUSOMatrix`, or `PUSOMatrix`, which is turned into `QUSOMatrix(L)` first:
"a Matrix input stays a Matrix input"): the state assigns a value to every index `0..max_index` of that
Matrix object `M`; for a Matrix without variables (`max_index is None`) the state is empty. -/
theorem domain_matrix_quso (cfg : Cfg ρ α) (L : Obj) (P : Params ρ α) (rs : List Res)
    (hk : L.kind = .qusom ∨ L.kind = .pusom) (h : annealQuso cfg L P = .ok rs)
    (hinit : ∀ d, P.init = some d → ∀ p ∈ d, p.2 = 1 ∨ p.2 = -1) :
    ∀ r ∈ rs, ∃ M : Obj,
      ((L.kind = .qusom ∧ M = L) ∨ (L.kind = .pusom ∧ Obj.build .qusom L.terms = .ok M)) ∧
      r.state.map Prod.fst = List.range (M.maxIndex.elim 0 (· + 1)) := by
  intro r hr
  obtain ⟨_, _, N, model, rev, hd, hst⟩ := states_quso cfg L P rs h hinit r hr
  have key : ∀ M : Obj, M.kind = .qusom → dispatchQusoCore M = .ok (N, model, rev) →
      r.state.map Prod.fst = List.range (M.maxIndex.elim 0 (· + 1)) := by
    intro M hM hc
    obtain ⟨_, hrev, hN⟩ := dispatchCore_matrix M hM N model rev hc
    rw [hst, hrev, ← hN]
    apply List.ext_getElem (by simp)
    intro i h1 h2
    simp only [List.length_map, List.length_range] at h1
    simp [List.getD, List.getElem?_range h1]
  rcases hk with hk | hk
  · rw [dispatchQuso_not_pusom L (by rw [hk]; decide)] at hd
    exact ⟨L, Or.inl ⟨hk, rfl⟩, key L hk hd⟩
  · obtain ⟨M, hb, hc⟩ := dispatch_pusom_quso L hk N model rev hd
    exact ⟨M, Or.inr ⟨hk, hb⟩, key M (build_inv .qusom L.terms M hb).2 hc⟩

/-- A `QUSOMatrix` without variables (`QUSOMatrix({(): 5})`, `QUSOMatrix()`): `num_anneals` results with
empty state whose value is the offset (the `N == 0` shortcut; formerly a `TypeError`, DESIGN.md §10 D4). -/
theorem empty_matrix_quso (cfg : Cfg ρ α) (L : Obj) (P : Params ρ α) (Ts : List α)
    (hk : L.kind = .qusom) (hm : L.maxIndex = none) (hn : 0 < P.numAnneals)
    (hs : createSchedule P.schedule = .ok Ts) :
    annealQuso cfg L P = .ok (List.replicate P.numAnneals.toNat ⟨[], get L.terms [], true⟩) := by
  have : ¬ P.numAnneals ≤ 0 := by omega
  simp [Anneal.annealQuso, prep, this, hs, dispatchQuso, dispatchQusoCore, hk, hm, bind, Except.bind, pure, Except.pure,
    emptyResults]

/-- Boolean functions: `spin = False`, values in `{0,1}`, and the labels are those of the spin result
of the converted model. -/
theorem states_qubo (cfg : Cfg ρ α) (Q : Obj) (P : Params ρ α) (bs : List Res)
    (h : annealQubo cfg Q P = .ok bs) :
    ∀ b ∈ bs, b.spin = false ∧ (∀ p ∈ b.state, p.2 = 0 ∨ p.2 = 1) ∧
      ∃ L N model rev, Anneal.quboToQuso Q = .ok L ∧ dispatchQuso L = .ok (N, model, rev) ∧
        b.state.map Prod.fst = (List.range N).map (fun k => rev.getD k 0) := by
  unfold annealQubo at h
  simp only [bind_ok_iff] at h
  obtain ⟨L, hL, init, hinit, rs, hr, h⟩ := h
  intro b hb
  obtain ⟨r, hrm, h1, _, h3, h4⟩ := (toBoolean_spec rs bs h).2 b hb
  obtain ⟨_, _, N, model, rev, hd, hst⟩ :=
    states_quso cfg L _ rs hr (booleanToSpinInit_vals _ _ hinit) r hrm
  exact ⟨h1, h4, L, N, model, rev, hL, hd, by rw [h3, hst]⟩

theorem states_pubo (cfg : Cfg ρ α) (Pm : Obj) (P : Params ρ α) (bs : List Res)
    (h : annealPubo cfg Pm P = .ok bs) :
    ∀ b ∈ bs, b.spin = false ∧ (∀ p ∈ b.state, p.2 = 0 ∨ p.2 = 1) ∧
      ∃ H N model rev, Anneal.puboToPuso Pm = .ok H ∧ dispatchPuso H = .ok (N, model, rev) ∧
        b.state.map Prod.fst = (List.range N).map (fun k => rev.getD k 0) := by
  unfold annealPubo at h
  simp only [bind_ok_iff] at h
  obtain ⟨H, hH, init, hinit, rs, hr, h⟩ := h
  intro b hb
  obtain ⟨r, hrm, h1, _, h3, h4⟩ := (toBoolean_spec rs bs h).2 b hb
  obtain ⟨_, _, N, model, rev, hd, hst⟩ :=
    states_puso cfg H _ rs hr (booleanToSpinInit_vals _ _ hinit) r hrm
  exact ⟨h1, h4, H, N, model, rev, hH, hd, by rw [h3, hst]⟩

/-! ### T11.3 — `value = model(state)` including the offset (exact arithmetic) -/

/-- The heart of T11.3 for the QUSO kernel: on the arrays `h, num_neighbors, neighbors, J` that the
flattening loop of `anneal_quso` builds from a canonical Matrix model (distinct keys, each strictly
sorted with at most two labels), the C function `quso_value` returns the model's value at the state
minus the offset — every coupling is stored in both adjacency lists and counted exactly once by the
`neighbor >= i` filter. -/
theorem quso_value_C (N : Nat) (model : Poly) (h : List Rat) (adj : List (List (Nat × Rat)))
    (hflat : flattenQuso N model = .ok (h, adj)) (hd : (keys model).Nodup)
    (hk : ∀ kv ∈ model, SSorted kv.1 ∧ kv.1.length ≤ 2) (s : List Int) :
    qusoValueC (qusoArgs (fun v => v) h adj) (mkIndex (adj.map List.length)) N s =
      eval (assign s) model - get model [] :=
  flattenQuso_value N model h adj hflat hd hk s

/-- The same for the PUSO kernel: `puso_value` on `num_couplings, terms, couplings`. -/
theorem puso_value_C (model : Poly) (hd : (keys model).Nodup) (s : List Int) :
    pusoValueC (flattenPuso (fun v => v) model) s = eval (assign s) model - get model [] :=
  flattenPuso_value model hd s

/-- **`anneal_quso`: each result's value is the Matrix model evaluated at the final state, offset
included**, and the reported state is that state relabelled through `reverse_mapping`.
`model` is what the dispatch produced (`L` itself for a `QUSOMatrix`, `L.to_quso()` otherwise); it is
canonical (hypotheses `hd`, `hk`: C05's `tree_canonical`), and `h0` is the bookkeeping fact that a model
without variables has only the constant term (C14). -/
theorem value_quso (src : Src ρ Rat) (L : Obj) (P : Params ρ Rat) (rs : List Res)
    (N : Nat) (model : Poly) (rev : List Var)
    (h : annealQuso (ratCfg src) L P = .ok rs) (hdisp : dispatchQuso L = .ok (N, model, rev))
    (hd : (keys model).Nodup) (hk : ∀ kv ∈ model, SSorted kv.1 ∧ kv.1.length ≤ 2)
    (h0 : N = 0 → ∀ kv ∈ model, kv.1 = [])
    (hinit : ∀ d, P.init = some d → ∀ p ∈ d, p.2 = 1 ∨ p.2 = -1) :
    ∀ r ∈ rs, ∃ s : List Int, s.length = N ∧ SpinList s ∧ r.state = relabelState rev s ∧
      r.value = eval (assign s) model := by
  unfold Anneal.annealQuso at h
  simp only [bind_ok_iff] at h
  obtain ⟨pr, hp, h⟩ := h
  rcases prep_cases _ _ _ _ hp with ⟨hle, rfl⟩ | ⟨_, Ts, N', model', rev', _, hd', hc⟩
  · injection h with h; subst h; intro r hr; cases hr
  · rw [hdisp] at hd'
    injection hd' with e; injection e with e1 e2; injection e2 with e2 e3
    subst e1; subst e2; subst e3
    rcases hc with ⟨hN, rfl⟩ | ⟨_, init, hi, rfl⟩
    · injection h with h; subst h
      intro r hr
      obtain ⟨h1, h2, _⟩ := (emptyResults_spec _ _).2 r hr
      refine ⟨[], (by simp [hN]), (by intro x hx; cases hx), (by simp [h1, relabelState]), ?_⟩
      rw [h2, eval_split_offset (assign []) model hd]
      have : evalNE (assign []) model = 0 := by
        have hf : model.filter (fun kv => !kv.1.isEmpty) = [] := by
          apply List.filter_eq_nil_iff.mpr
          intro kv hkv
          simp [h0 hN kv hkv]
        simp [evalNE, hf]
      rw [this]; ring
    · intro r hr
      obtain ⟨s, hg, hst, hv⟩ :=
        runQuso_value src P _ rs h (relabelInit_good _ _ _ _ hinit hi) hd hk r hr
      exact ⟨s, hg.1, hg.2, hst, hv⟩

/-- **`anneal_puso`: value = model(state) including the offset.** -/
theorem value_puso (src : Src ρ Rat) (H : Obj) (P : Params ρ Rat) (rs : List Res)
    (N : Nat) (model : Poly) (rev : List Var)
    (h : annealPuso (ratCfg src) H P = .ok rs) (hdisp : dispatchPuso H = .ok (N, model, rev))
    (hd : (keys model).Nodup) (h0 : N = 0 → ∀ kv ∈ model, kv.1 = [])
    (hinit : ∀ d, P.init = some d → ∀ p ∈ d, p.2 = 1 ∨ p.2 = -1) :
    ∀ r ∈ rs, ∃ s : List Int, s.length = N ∧ SpinList s ∧ r.state = relabelState rev s ∧
      r.value = eval (assign s) model := by
  unfold Anneal.annealPuso at h
  simp only [bind_ok_iff] at h
  obtain ⟨pr, hp, h⟩ := h
  rcases prep_cases _ _ _ _ hp with ⟨hle, rfl⟩ | ⟨_, Ts, N', model', rev', _, hd', hc⟩
  · injection h with h; subst h; intro r hr; cases hr
  · rw [hdisp] at hd'
    injection hd' with e; injection e with e1 e2; injection e2 with e2 e3
    subst e1; subst e2; subst e3
    rcases hc with ⟨hN, rfl⟩ | ⟨_, init, hi, rfl⟩
    · injection h with h; subst h
      intro r hr
      obtain ⟨h1, h2, _⟩ := (emptyResults_spec _ _).2 r hr
      refine ⟨[], (by simp [hN]), (by intro x hx; cases hx), (by simp [h1, relabelState]), ?_⟩
      rw [h2, eval_split_offset (assign []) model hd]
      have : evalNE (assign []) model = 0 := by
        have hf : model.filter (fun kv => !kv.1.isEmpty) = [] := by
          apply List.filter_eq_nil_iff.mpr
          intro kv hkv
          simp [h0 hN kv hkv]
        simp [evalNE, hf]
      rw [this]; ring
    · intro r hr
      obtain ⟨s, hg, hst, hv⟩ :=
        runPuso_value src P _ rs h (relabelInit_good _ _ _ _ hinit hi) hd r hr
      exact ⟨s, hg.1, hg.2, hst, hv⟩

/-! ### T11.3 over the input's own terms and labels -/

/-- **Labelled `QUSO` through `anneal_quso`.**  `hmap` is the mapping bijection in the form C14 proves it
(`Qv.C14.inv_history`: `mapping`/`reverse_mapping` mutually inverse between the reported variables and
`0..num_binary_variables-1`), read on `Obj`: `mapping` has as many entries as there are variables.
Then every state's labels are exactly the mapped labels, its values are in `{1,-1}`, and the value is the
model's **own terms** evaluated at the state — for every assignment `x` of the labels that agrees with the
state (the state as a function on labels), offset included. -/
theorem value_quso_labelled (src : Src ρ Rat) (L : Obj) (P : Params ρ Rat) (rs : List Res)
    (hk : L.kind = .quso) (h : annealQuso (ratCfg src) L P = .ok rs)
    (hmap : L.mapping.length = L.vars.length)
    (hinit : ∀ d, P.init = some d → ∀ p ∈ d, p.2 = 1 ∨ p.2 = -1) :
    ∀ r ∈ rs, r.state.map Prod.fst = L.mapping ∧ (∀ p ∈ r.state, p.2 = 1 ∨ p.2 = -1) ∧
      ∀ x : Var → Rat, (∀ p ∈ r.state, x p.1 = p.2) → r.value = eval x L.terms :=
  annealQuso_labelled src L P rs hk h hmap hinit

/-- **Labelled `QUSO` / `PUSO` / `PCSO` through `anneal_puso`.** -/
theorem value_puso_labelled (src : Src ρ Rat) (H : Obj) (P : Params ρ Rat) (rs : List Res)
    (hk : H.kind = .quso ∨ H.kind = .puso ∨ H.kind = .pcso) (h : annealPuso (ratCfg src) H P = .ok rs)
    (hmap : H.mapping.length = H.vars.length)
    (hinit : ∀ d, P.init = some d → ∀ p ∈ d, p.2 = 1 ∨ p.2 = -1) :
    ∀ r ∈ rs, r.state.map Prod.fst = H.mapping ∧ (∀ p ∈ r.state, p.2 = 1 ∨ p.2 = -1) ∧
      ∀ x : Var → Rat, (∀ p ∈ r.state, x p.1 = p.2) → r.value = eval x H.terms :=
  annealPuso_labelled src H P rs hk h hmap hinit

/-- **Every `QUSOMatrix` / `QUSO` built by any history of `self[k] += v`** (which is also `cls(d)`):
no bookkeeping hypothesis is left — the invariant (canonical storage, labels of the terms are reported
variables, `mapping` enumerates the variables) is proved along the history. -/
theorem value_quso_built (src : Src ρ Rat) (κ : Kind) (hκ : κ = .qusom ∨ κ = .quso) (ops : Poly) (L : Obj)
    (hb : Obj.build κ ops = .ok L) (P : Params ρ Rat) (rs : List Res)
    (h : annealQuso (ratCfg src) L P = .ok rs)
    (hinit : ∀ d, P.init = some d → ∀ p ∈ d, p.2 = 1 ∨ p.2 = -1) :
    ∀ r ∈ rs, ∀ x : Var → Rat, (∀ p ∈ r.state, x p.1 = p.2) → r.value = eval x L.terms := by
  obtain ⟨hI, hk⟩ := build_inv κ ops L hb
  rcases hκ with rfl | rfl
  · exact annealQuso_matrix src L P rs hk hI h hinit
  · intro r hr
    exact (annealQuso_labelled src L P rs hk h (hI.map_len (by rw [hk]; rfl)) hinit r hr).2.2

/-- the same for `anneal_puso` and the five spin types -/
theorem value_puso_built (src : Src ρ Rat) (κ : Kind)
    (hκ : κ = .qusom ∨ κ = .pusom ∨ κ = .quso ∨ κ = .puso ∨ κ = .pcso) (ops : Poly) (H : Obj)
    (hb : Obj.build κ ops = .ok H) (P : Params ρ Rat) (rs : List Res)
    (h : annealPuso (ratCfg src) H P = .ok rs)
    (hinit : ∀ d, P.init = some d → ∀ p ∈ d, p.2 = 1 ∨ p.2 = -1) :
    ∀ r ∈ rs, ∀ x : Var → Rat, (∀ p ∈ r.state, x p.1 = p.2) → r.value = eval x H.terms := by
  obtain ⟨hI, hk⟩ := build_inv κ ops H hb
  rcases hκ with rfl | rfl | rfl | rfl | rfl
  · exact annealPuso_matrix src H P rs (Or.inl hk) hI h hinit
  · exact annealPuso_matrix src H P rs (Or.inr hk) hI h hinit
  · intro r hr
    exact (annealPuso_labelled src H P rs (Or.inl hk) h (hI.map_len (by rw [hk]; rfl)) hinit r hr).2.2
  · intro r hr
    exact (annealPuso_labelled src H P rs (Or.inr (Or.inl hk)) h (hI.map_len (by rw [hk]; rfl)) hinit r hr).2.2
  · intro r hr
    exact (annealPuso_labelled src H P rs (Or.inr (Or.inr hk)) h (hI.map_len (by rw [hk]; rfl)) hinit r hr).2.2

/-- **Every other input of `anneal_quso`** — `PUSOMatrix` (turned into `QUSOMatrix(L)`), dict, `PUSO`, `PCSO`
(turned into `QUSO(L)`), with arbitrary raw keys: the value is the input's own terms evaluated at every spin
assignment of its labels that agrees with the state. -/
theorem value_quso_rebuilt (src : Src ρ Rat) (L : Obj) (P : Params ρ Rat) (rs : List Res)
    (hk : L.kind ≠ .qusom ∧ L.kind ≠ .quso) (h : annealQuso (ratCfg src) L P = .ok rs)
    (hinit : ∀ d, P.init = some d → ∀ p ∈ d, p.2 = 1 ∨ p.2 = -1) :
    ∀ r ∈ rs, ∀ x : Var → Rat, IsSpin x → (∀ p ∈ r.state, x p.1 = p.2) → r.value = eval x L.terms := by
  intro r hr x hx hcons
  obtain ⟨_, _, N, model, rev, hd, _⟩ := states_quso (ratCfg src) L P rs h hinit r hr
  obtain ⟨M, hb, e⟩ := annealQuso_rebuilt (ratCfg src) L P hk N model rev hd
  rw [e] at h
  by_cases hp : L.kind = .pusom
  · rw [if_pos hp] at hb
    rw [value_quso_built src .qusom (Or.inl rfl) L.terms M hb P rs h hinit r hr x hcons,
      build_eval_spin .qusom rfl L.terms M hb x hx]
  · rw [if_neg hp] at hb
    rw [value_quso_built src .quso (Or.inr rfl) L.terms M hb P rs h hinit r hr x hcons,
      build_eval_spin .quso rfl L.terms M hb x hx]

/-- **A dict (or any non-spin-type input) through `anneal_puso`** (turned into `PUSO(H)`). -/
theorem value_puso_rebuilt (src : Src ρ Rat) (H : Obj) (P : Params ρ Rat) (rs : List Res)
    (hk : ¬ (H.kind = .qusom ∨ H.kind = .pusom) ∧ ¬ (H.kind = .quso ∨ H.kind = .puso ∨ H.kind = .pcso))
    (h : annealPuso (ratCfg src) H P = .ok rs)
    (hinit : ∀ d, P.init = some d → ∀ p ∈ d, p.2 = 1 ∨ p.2 = -1) :
    ∀ r ∈ rs, ∀ x : Var → Rat, IsSpin x → (∀ p ∈ r.state, x p.1 = p.2) → r.value = eval x H.terms := by
  intro r hr x hx hcons
  obtain ⟨_, _, N, model, rev, hd, _⟩ := states_puso (ratCfg src) H P rs h hinit r hr
  obtain ⟨M, hb, e⟩ := annealPuso_rebuilt (ratCfg src) H P hk N model rev hd
  rw [e] at h
  rw [value_puso_built src .puso (Or.inr (Or.inr (Or.inr (Or.inl rfl)))) H.terms M hb P rs h hinit r hr x hcons,
    build_eval_spin .puso rfl H.terms M hb x hx]

/-- **`anneal_qubo`: every result's value is the boolean input model evaluated at the result's boolean
state, offset included** — for every input type (dict with raw keys, `QUBO`, `QUBOMatrix`, …), every
source, schedule, visiting order, initial state.  Composition of `qubo_to_quso` (C04 T4.3 `Qv.C04.qubo_to_quso_value`, i.e. `eval_quboToQuso`), the spin
theorem for the converted model (Matrix or labelled; its bookkeeping invariant is proved along the
conversion's `+=` history), and `to_boolean`. -/
theorem value_qubo (src : Src ρ Rat) (Q : Obj) (P : Params ρ Rat) (bs : List Res)
    (h : annealQubo (ratCfg src) Q P = .ok bs) :
    ∀ b ∈ bs, ∀ x : Var → Rat, IsBool x → (∀ p ∈ b.state, x p.1 = p.2) → b.value = eval x Q.terms := by
  unfold annealQubo at h
  simp only [bind_ok_iff] at h
  obtain ⟨L, hL, init, hinit, rs, hr, htb⟩ := h
  obtain ⟨hI, hk, hconv⟩ := quboToQuso_spec Q L hL
  have hin := booleanToSpinInit_vals _ _ hinit
  intro b hb x hx hcons
  obtain ⟨r, hrm, hval, hz⟩ := toBoolean_cons rs bs htb b hb
  have hzc := hz x hcons
  have hspin : r.value = eval (b2s x) L.terms := by
    by_cases hm : Q.kind = .qubom ∨ Q.kind = .pubom
    · have hk' : L.kind = .qusom := by rw [hk]; simp [kindQuboToQuso, hm]
      exact annealQuso_matrix src L _ rs hk' hI hr hin r hrm (b2s x) hzc
    · have hk' : L.kind = .quso := by rw [hk]; simp [kindQuboToQuso, hm]
      exact (annealQuso_labelled src L _ rs hk' hr (hI.map_len (by rw [hk']; rfl)) hin r hrm).2.2 (b2s x) hzc
  rw [hval, hspin, eval_quboToQuso (isSpin_b2s hx) hconv, s2b_b2s]

/-- **`anneal_pubo`: value = boolean input model at the boolean state, offset included.** -/
theorem value_pubo (src : Src ρ Rat) (Pm : Obj) (P : Params ρ Rat) (bs : List Res)
    (h : annealPubo (ratCfg src) Pm P = .ok bs) :
    ∀ b ∈ bs, ∀ x : Var → Rat, IsBool x → (∀ p ∈ b.state, x p.1 = p.2) → b.value = eval x Pm.terms := by
  unfold annealPubo at h
  simp only [bind_ok_iff] at h
  obtain ⟨H, hH, init, hinit, rs, hr, htb⟩ := h
  obtain ⟨hI, hk, hconv⟩ := puboToPuso_spec Pm H hH
  have hin := booleanToSpinInit_vals _ _ hinit
  intro b hb x hx hcons
  obtain ⟨r, hrm, hval, hz⟩ := toBoolean_cons rs bs htb b hb
  have hzc := hz x hcons
  have hspin : r.value = eval (b2s x) H.terms := by
    by_cases hm : Pm.kind = .pubom ∨ Pm.kind = .qubom
    · have hk' : H.kind = .pusom := by rw [hk]; simp [kindPuboToPuso, hm]
      exact annealPuso_matrix src H _ rs (Or.inr hk') hI hr hin r hrm (b2s x) hzc
    · have hk' : H.kind = .puso := by rw [hk]; simp [kindPuboToPuso, hm]
      exact (annealPuso_labelled src H _ rs (Or.inr (Or.inl hk')) hr (hI.map_len (by rw [hk']; rfl)) hin
        r hrm).2.2 (b2s x) hzc
  rw [hval, hspin, eval_puboToPuso (isSpin_b2s hx) hconv, s2b_b2s]

/-! ### T11.4 — `best` has the smallest value -/

/-- After construction by `add_state` (what all four functions do), `best` is one of the results and no
result has a smaller value; it is `None` exactly for the empty list. -/
theorem best_minimal (rs : List Res) :
    (∀ b, best rs = some b → b ∈ rs ∧ ∀ r ∈ rs, b.value ≤ r.value) ∧ (best rs = none ↔ rs = []) := by
  have h := best_spec rs none (fun _ _ => trivial)
  unfold best
  revert h
  cases hfold : rs.foldl _ none with
  | none =>
    intro h
    simp only at h
    exact ⟨(by intro b hb; cases hb), ⟨fun _ => h.1, fun _ => rfl⟩⟩
  | some b =>
    intro h
    simp only at h
    obtain ⟨hm, hle, _⟩ := h
    refine ⟨?_, ⟨(by intro hb; cases hb), ?_⟩⟩
    · intro b' hb'
      injection hb' with hb'; subst hb'
      rcases hm with hm | hm
      · exact ⟨hm, hle⟩
      · cases hm
    · intro hnil
      rcases hm with hm | hm
      · rw [hnil] at hm; cases hm
      · cases hm

/-! ### the hypotheses `hd`, `hk` of T11.3 hold for every labelled / dict input -/

/-- `QUSO.to_quso()` (the model `anneal_quso` hands to the kernel for every non-Matrix input) is canonical:
distinct keys, each strictly sorted with at most two labels. -/
theorem to_quso_canonical (o : Obj) (model : Poly) (h : toQuso o = .ok model) :
    (keys model).Nodup ∧ ∀ kv ∈ model, SSorted kv.1 ∧ kv.1.length ≤ 2 :=
  toQuso_canonical o model h

/-- `to_puso()` of the labelled spin types has distinct keys. -/
theorem to_puso_canonical (o : Obj) (model : Poly) (h : toPuso o = .ok model) : (keys model).Nodup :=
  toPuso_canonical o model h

/-! ### Non-vacuity: concrete instances of the hypotheses -/

/-- `anneal_quso(QUSOMatrix({(0,1): 1, (1,): -1/2, (): 3, (0,2): -2}), num_anneals=2, schedule=[2,1,0],
in_order=False)` with a deterministic source returns two results -/
example : (Anneal.annealQuso (ratCfg Ex.src) Ex.L (Ex.P false none)).toOption.map List.length = some 2 := by
  decide +kernel

/-- its dispatch: `N = 3`, the model itself, identity labels; `max_index = 2` -/
example : (dispatchQuso Ex.L).toOption = some (3, Ex.L.terms, [0, 1, 2]) := by decide +kernel
example : Ex.L.maxIndex = some 2 := by decide +kernel
example : (keys Ex.L.terms).Nodup := by decide
example : ∀ kv ∈ Ex.L.terms, SSorted kv.1 ∧ kv.1.length ≤ 2 := by
  intro kv hkv
  simp only [Ex.L, List.mem_cons, List.mem_nil_iff, or_false] at hkv
  rcases hkv with rfl | rfl | rfl | rfl <;> simp [SSorted]

/-- a labelled `QUSO` with an initial state, in-order visiting: relabelled through `to_quso()` -/
example : (Anneal.annealQuso (ratCfg Ex.src) Ex.Lq (Ex.P true (some [(5, 1), (7, -1), (9, 1)]))).toOption.map
    (fun rs => rs.map (fun r => r.state.map Prod.fst)) = some [[5, 7, 9], [5, 7, 9]] := by decide +kernel
example : (dispatchQuso Ex.Lq).toOption = some (3, [([0, 1], 1), ([1], -1/2), ([], 3), ([0, 2], -2)], [5, 7, 9]) := by
  decide +kernel

/-- `anneal_puso` on a `PUSOMatrix` with a cubic term -/
example : (Anneal.annealPuso (ratCfg Ex.src) Ex.H (Ex.P false none)).toOption.map List.length = some 2 := by
  decide +kernel
example : (dispatchPuso Ex.H).toOption = some (3, Ex.H.terms, [0, 1, 2]) := by decide +kernel
example : (keys Ex.H.terms).Nodup := by decide

/-- the boolean functions on the dict `{(0,1): 2, (1,): -1, (): 1/2}` -/
example : (Anneal.annealQubo (ratCfg Ex.src) Ex.Q (Ex.P false (some [(0, 1), (1, 0)]))).toOption.map List.length
    = some 2 := by decide +kernel
example : (Anneal.annealPubo (ratCfg Ex.src) Ex.Q (Ex.P true none)).toOption.map List.length = some 2 := by
  decide +kernel

/-- a Matrix without variables, `QUSOMatrix({(): 5})`: two results, empty state, value = offset -/
example : (Anneal.annealQuso (ratCfg Ex.src) { kind := .qusom, terms := [([], 5)] } (Ex.P true none)).toOption
    = some [⟨[], 5, true⟩, ⟨[], 5, true⟩] := by decide +kernel
example : ({ kind := .qusom, terms := [([], 5)] } : Obj).maxIndex = none := rfl

/-- hypotheses of the label-level theorems: the labelled instance has `len(mapping) = num_binary_variables`;
objects are reachable by `+=` histories (with an unsorted and a repeated-label key); a boolean assignment
agreeing with the boolean state `{0: 0, 1: 1}` of the `anneal_qubo` example exists -/
example : Ex.Lq.kind = .quso ∧ Ex.Lq.mapping.length = Ex.Lq.vars.length := ⟨rfl, rfl⟩
example : (Obj.build .quso [([7, 5], 1), ([7], -1/2), ([], 3), ([9, 9, 5, 9], -2)]).toOption.map
    (fun o => (o.mapping, o.vars)) = some ([7, 5, 9], [5, 7, 9]) := by decide +kernel
example : (Obj.build .pusom [([2, 0, 1], 1), ([1], -1/2), ([2, 0, 1], -1)]).toOption.map
    (fun o => (o.terms, o.maxIndex)) = some ([([1], -1/2)], some 2) := by decide +kernel
example : (Anneal.annealQubo (ratCfg Ex.src) Ex.Q (Ex.P false (some [(0, 1), (1, 0)]))).toOption.map
    (fun rs => rs.map (fun r => (r.state, r.value))) = some [([(0, 0), (1, 1)], -1/2), ([(0, 0), (1, 1)], -1/2)] := by
  decide +kernel
example : IsBool (fun i => if i = 1 then 1 else 0) ∧
    ∀ p ∈ [((0 : Var), (0 : Int)), (1, 1)], (fun i : Var => if i = 1 then (1 : Rat) else 0) p.1 = p.2 := by
  refine ⟨fun i => by by_cases h : i = 1 <;> simp [h], ?_⟩
  intro p hp
  simp only [List.mem_cons, List.mem_nil_iff, or_false] at hp
  rcases hp with rfl | rfl <;> simp

/-- `anneal_quso(PUSOMatrix({(0,2): 1}))`: turned into `QUSOMatrix`, the states cover 0, 1, 2 (index 1 occurs in no
term); a `PUSO` with a quadratic key and a dict go through `QUSO(L)` -/
example : (Anneal.annealQuso (ratCfg Ex.src) { kind := .pusom, terms := [([0, 2], 1)], vars := [0, 2] }
    (Ex.P true none)).toOption.map (fun rs => rs.map (fun r => r.state.map Prod.fst)) = some [[0, 1, 2], [0, 1, 2]] := by
  decide +kernel
example : (Obj.build .qusom [([0, 2], (1 : Rat))]).toOption.map (fun M => M.maxIndex) = some (some 2) := by
  decide +kernel
example : (Anneal.annealQuso (ratCfg Ex.src)
    ({ kind := .puso, terms := [([5, 9], 1), ([9], -2)], vars := [5, 9], mapping := [5, 9] } : Obj)
    (Ex.P true none)).toOption.map (fun rs => rs.map (fun r => r.state.map Prod.fst))
    = some [[5, 9], [5, 9]] := by decide +kernel
/-- a cubic key in a `PUSOMatrix` makes `anneal_quso` raise (`KeyError`) -/
example : (Anneal.annealQuso (ratCfg Ex.src) { kind := .pusom, terms := [([0, 1, 2], 1)], vars := [0, 1, 2] }
    (Ex.P true none)).toOption.isSome = false := by decide +kernel

/-- `best` of a three-element list with a tie -/
example : (best [⟨[], 2, true⟩, ⟨[(0, 1)], 1, true⟩, ⟨[(0, -1)], 1, true⟩]).map (·.value) = some 1 := by
  decide +kernel

end Qv.C11
