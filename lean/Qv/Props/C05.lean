import Qv.Proofs.Expr
import Qv.Proofs.Values
import Qv.Proofs.Unique
import Qv.Proofs.UniqueSpin
import Qv.Proofs.ExprErr
import Qv.Proofs.MulKey
import Qv.Proofs.SquashSem
/-!
# C05 — Model arithmetic and evaluation agree with polynomial arithmetic

Only the property theorems and their non-vacuity examples live here (helper lemmas are in
`Qv/Proofs`).  The model is `Qv.Model.{Basic,Arith,Values,Expr}`; its tie to
`qubovert/utils/_dict_arithmetic.py` etc. is the correspondence check `harness/c05.py`.
-/
namespace Qv.C05
open Qv Qv.ExprErr

/-- **T5.1 (homomorphism, whole expression trees).**  For every expression tree `t` built from
`+ - * ** unary± /` (copying, reflected and in-place forms all evaluate through `run`) over models of
one family, plain dicts with arbitrary raw keys, and numbers: if evaluation succeeds with value `v`,
then at *every* assignment of that family `v` evaluates to the arithmetic combination `den t` of the
operand values.  No bound on depth, number of terms, degree or number of variables. -/
theorem tree_value (s : Bool) (x : Var → Rat) (hx : if s then IsSpin x else IsBool x)
    (t : Expr) (v : Val) (hf : t.family s = true) (h : run t = .ok v) :
    v.eval x = den x t :=
  (run_sound (s := s) (x := x) hx t hf h).1

/-- **T5.3 (canonical storage).**  Every model value produced by a successful evaluation is stored
canonically: its keys are pairwise distinct, each key is strictly sorted (hence duplicate-free) and has
at most two labels for the degree-2 types, and no coefficient is zero. -/
theorem tree_canonical (s : Bool) (t : Expr) (κ : Kind) (p : Poly)
    (hf : t.family s = true) (h : run t = .ok (.mdl κ p)) :
    (keys p).Nodup ∧ (∀ k ∈ keys p, SSorted k ∧ (κ.isDeg2 = true → k.length ≤ 2)) ∧
    (∀ kv ∈ p, kv.2 ≠ 0) := by
  -- any assignment of the family will do to invoke `run_sound`; take the constant-one assignment
  have hx : Fam s (fun _ => (1 : Rat)) := by
    cases s <;> simp [Fam, IsSpin, IsBool]
  have hg := (run_sound (s := s) (x := fun _ => 1) hx t hf h).2
  obtain ⟨hd, _, wf⟩ := hg
  refine ⟨wf.nodup, fun k hk => ?_, wf.nonzero⟩
  rcases squash_canon (wf.fixed k hk) with h' | h'
  · exact absurd h' hd
  · exact h'

/-- **T5.4 at the level of dicts, both families.**  Two canonical dicts (distinct keys, every key strictly
sorted, no zero coefficient — the form `tree_canonical` guarantees for every stored model) that take
the same value at every assignment of the family (`s = false`: boolean, `s = true`: spin) have the same
coefficient at every key.  No bound on degree, number of terms or labels. -/
theorem canonical_dicts_unique (s : Bool) (p q : Poly)
    (hp : (keys p).Nodup ∧ (∀ k ∈ keys p, SSorted k) ∧ (∀ kv ∈ p, kv.2 ≠ 0))
    (hq : (keys q).Nodup ∧ (∀ k ∈ keys q, SSorted k) ∧ (∀ kv ∈ q, kv.2 ≠ 0))
    (h : ∀ x, (if s then IsSpin x else IsBool x) → eval x p = eval x q) :
    ∀ k, get p k = get q k := by
  have mk : ∀ (κ : Kind), κ ≠ .dict → κ.isDeg2 = false → ∀ {r : Poly},
      (keys r).Nodup ∧ (∀ k ∈ keys r, SSorted k) ∧ (∀ kv ∈ r, kv.2 ≠ 0) → WF (squash κ) r :=
    fun κ _ h2 r hr => ⟨hr.1, fun k hk => squash_of_canon (Or.inr ⟨hr.2.1 k hk, by simp [h2]⟩), hr.2.2⟩
  cases s with
  | false =>
    exact coeff_eq_of_eval_eq (mk .pubo (by decide) rfl hp) (mk .pubo (by decide) rfl hq)
      (fun x hx => h x (by simpa using hx))
  | true =>
    exact USpin.coeff_eq_of_eval_eq_spin (mk .puso (by decide) rfl hp) (mk .puso (by decide) rfl hq)
      (fun x hx => h x (by simpa using hx))

/-- **T5.4 (equal functions ⇒ equal dicts), both families.**  If two expression trees over models of one
family (`s = false`: boolean, `s = true`: spin) evaluate successfully and denote the same function on
the assignments of that family, the two resulting models have the same coefficient at every key. -/
theorem equal_functions_equal_dicts (s : Bool) (t1 t2 : Expr) (κ1 κ2 : Kind) (p q : Poly)
    (hf1 : t1.family s = true) (hf2 : t2.family s = true)
    (h1 : run t1 = .ok (.mdl κ1 p)) (h2 : run t2 = .ok (.mdl κ2 q))
    (h : ∀ x, (if s then IsSpin x else IsBool x) → den x t1 = den x t2) :
    ∀ k, get p k = get q k := by
  have c1 := tree_canonical s t1 κ1 p hf1 h1
  have c2 := tree_canonical s t2 κ2 q hf2 h2
  apply canonical_dicts_unique s p q
    ⟨c1.1, fun k hk => (c1.2.1 k hk).1, c1.2.2⟩ ⟨c2.1, fun k hk => (c2.2.1 k hk).1, c2.2.2⟩
  intro x hx
  have e1 := tree_value s x hx t1 _ hf1 h1
  have e2 := tree_value s x hx t2 _ hf2 h2
  simp only [Val.eval] at e1 e2
  rw [e1, e2, h x hx]

/-- **T5.4, as Python's `==` on dicts sees it.**  Under the same hypotheses the two results hold exactly
the same `(key, value)` items (dict equality ignores insertion order). -/
theorem equal_functions_equal_items (s : Bool) (t1 t2 : Expr) (κ1 κ2 : Kind) (p q : Poly)
    (hf1 : t1.family s = true) (hf2 : t2.family s = true)
    (h1 : run t1 = .ok (.mdl κ1 p)) (h2 : run t2 = .ok (.mdl κ2 q))
    (h : ∀ x, (if s then IsSpin x else IsBool x) → den x t1 = den x t2) :
    ∀ kv, kv ∈ p ↔ kv ∈ q := by
  have hg := equal_functions_equal_dicts s t1 t2 κ1 κ2 p q hf1 hf2 h1 h2 h
  have c1 := tree_canonical s t1 κ1 p hf1 h1
  have c2 := tree_canonical s t2 κ2 q hf2 h2
  intro kv
  exact ⟨USpin.items_eq_of_get_eq c1.1 c1.2.2 hg,
    USpin.items_eq_of_get_eq c2.1 c2.2.2 (fun k => (hg k).symm)⟩

/-- **Result type.**  The result of an operator is a model of the type of the model operand (the left
one if both are models); `add_kind … div_kind` for a model on the left, `radd_kind`, `rsub_kind`,
`rmul_kind` for the reflected forms.  In the pure model operands are values, so "operands unchanged"
is not a statement about it; the harness checks it on the real objects by deep snapshots. -/
theorem add_kind (κ : Kind) (p : Poly) (b v : Val) (h : Val.add (.mdl κ p) b = .ok v) :
    ∃ r, v = .mdl κ r := by
  cases b <;> simp only [Val.add, bind_ok_iff, pure, Except.pure] at h <;>
    (obtain ⟨d, _, r, _, h⟩ := h; injection h with h; exact ⟨r, h.symm⟩)

theorem mul_kind (κ : Kind) (p : Poly) (b v : Val) (h : Val.mul (.mdl κ p) b = .ok v) :
    ∃ r, v = .mdl κ r := by
  cases b <;> simp only [Val.mul, mulModel, bind_ok_iff, pure, Except.pure] at h <;>
    (obtain ⟨d, _, r, _, h⟩ := h; injection h with h; exact ⟨r, h.symm⟩)

theorem sub_kind (κ : Kind) (p : Poly) (b v : Val) (h : Val.sub (.mdl κ p) b = .ok v) :
    ∃ r, v = .mdl κ r := by
  cases b <;> exact mdlop_kind h

theorem pow_kind (κ : Kind) (p : Poly) (e : Int) (v : Val) (h : Val.pow (.mdl κ p) e = .ok v) :
    ∃ r, v = .mdl κ r := mdlop_kind h

theorem neg_kind (κ : Kind) (p : Poly) (v : Val) (h : Val.neg (.mdl κ p) = .ok v) :
    ∃ r, v = .mdl κ r := mulModel_kind (b := .num (-1)) h

theorem pos_kind (κ : Kind) (p : Poly) (v : Val) (h : Val.pos (.mdl κ p) = .ok v) :
    ∃ r, v = .mdl κ r := pos_shape_kind h

theorem div_kind (κ : Kind) (p : Poly) (c : Rat) (v : Val) (h : Val.div (.mdl κ p) c = .ok v) :
    ∃ r, v = .mdl κ r := mdlop_kind h

/-- the copy constructor `κ(a)` returns type `κ` whatever the type of `a` -/
theorem cast_kind (κ : Kind) (a v : Val) (h : Val.cast κ a = .ok v) : ∃ r, v = .mdl κ r :=
  Val.cast_kind h

/-- **reflected forms**: a number or plain dict on the left of a model — the model decides the type -/
theorem radd_kind (a : Val) (ha : ∀ κ' p', a ≠ .mdl κ' p') (κ : Kind) (p : Poly) (v : Val)
    (h : Val.add a (.mdl κ p) = .ok v) : ∃ r, v = .mdl κ r := by
  cases a with
  | num c => exact mdlop_kind h
  | raw q => exact mdlop_kind h
  | mdl κ' p' => exact absurd rfl (ha κ' p')

theorem rmul_kind (a : Val) (ha : ∀ κ' p', a ≠ .mdl κ' p') (κ : Kind) (p : Poly) (v : Val)
    (h : Val.mul a (.mdl κ p) = .ok v) : ∃ r, v = .mdl κ r := by
  cases a with
  | num c => exact mulModel_kind (b := .num c) h
  | raw q => exact mulModel_kind (b := .raw q) h
  | mdl κ' p' => exact absurd rfl (ha κ' p')

theorem rsub_kind (a : Val) (ha : ∀ κ' p', a ≠ .mdl κ' p') (κ : Kind) (p : Poly) (v : Val)
    (h : Val.sub a (.mdl κ p) = .ok v) : ∃ r, v = .mdl κ r := by
  have key : ∀ o : Val, (mulModel κ p (.num (-1)) >>= fun m => Val.add m o) = .ok v →
      ∃ r, v = .mdl κ r := by
    intro o h
    simp only [bind_ok_iff] at h
    obtain ⟨m, hm, h⟩ := h
    obtain ⟨r, rfl⟩ := mulModel_kind hm
    exact add_kind κ r o v h
  cases a with
  | num c => exact key (.num c) h
  | raw q => exact key (.raw q) h
  | mdl κ' p' => exact absurd rfl (ha κ' p')

/-- **result type, whole trees**: the type of the model a tree evaluates to is the type of one of the
tree's model nodes (a `κ(dict)` leaf or a copy constructor `κ(·)`). -/
theorem result_type_in_tree (t : Expr) (κ : Kind) (p : Poly) (h : run t = .ok (.mdl κ p)) :
    Expr.has (fun κ' => κ' == κ) t = true :=
  run_has (fun κ' => κ' == κ) t h (by simp [Val.has])

/-! ### T5.5 — which exceptions, and from where -/

/-- **(a)** `run` raises nothing but `KeyError`, `ValueError`, `ZeroDivisionError`, `TypeError`. -/
theorem run_errors (t : Expr) (e : Err) (h : run t = .error e) :
    e = .key ∨ e = .value ∨ e = .zerodiv ∨ e = .type := by
  rcases run_err t h with h | ⟨h, _⟩ | ⟨h, _⟩ | ⟨h, _⟩
  · exact Or.inr (Or.inr (Or.inr h))
  · exact Or.inl h
  · exact Or.inr (Or.inl h)
  · exact Or.inr (Or.inr (Or.inl h))

/-- **(d)** a `KeyError` implies that some model node of the tree is of a degree-2 type
(QUBO, QUSO, QUBOMatrix, QUSOMatrix). -/
theorem keyerror_needs_deg2 (t : Expr) (h : run t = .error .key) :
    Expr.has Kind.isDeg2 t = true := by
  rcases run_err t h with h | ⟨_, h⟩ | ⟨h, _⟩ | ⟨h, _⟩
  · cases h
  · exact h
  · cases h
  · cases h

/-- **(b)** a tree whose model nodes are all of the types PUBO, PUSO, PCBO, PCSO, PUBOMatrix, PUSOMatrix
(or plain `DictArithmetic`) never raises `KeyError`. -/
theorem no_keyerror_without_deg2 (t : Expr) (h : Expr.has Kind.isDeg2 t = false) :
    run t ≠ .error .key := by
  intro he
  rw [keyerror_needs_deg2 t he] at h
  cases h

/-- **(c1)** `ValueError` only from a `**` node with exponent `≤ 0`. -/
theorem valueerror_needs_bad_pow (t : Expr) (h : run t = .error .value) : Expr.badPow t = true := by
  rcases run_err t h with h | ⟨h, _⟩ | ⟨_, h⟩ | ⟨h, _⟩
  · cases h
  · cases h
  · exact h
  · cases h

/-- **(c2)** `ZeroDivisionError` only from a `/ 0` node. -/
theorem zerodiv_needs_zero_div (t : Expr) (h : run t = .error .zerodiv) : Expr.zeroDiv t = true := by
  rcases run_err t h with h | ⟨h, _⟩ | ⟨h, _⟩ | ⟨_, h⟩
  · cases h
  · cases h
  · cases h
  · exact h

/-- **(c1′)** on a canonical model, `m ** n` raises `ValueError` iff `n ≤ 0`. -/
theorem pow_valueerror_iff (κ : Kind) (p : Poly) (hp : WF (squash κ) p) (n : Int) :
    Val.pow (.mdl κ p) n = .error .value ↔ n ≤ 0 := pow_value_iff hp n

/-- **(c2′)** on a canonical model, `m / c` raises `ZeroDivisionError` iff `c = 0` and `m` has a term
(`m / 0` on the empty model loops over no key and returns the empty model). -/
theorem div_zerodiv_iff (κ : Kind) (p : Poly) (hp : WF (squash κ) p) (c : Rat) :
    Val.div (.mdl κ p) c = .error .zerodiv ↔ c = 0 ∧ p ≠ [] := ExprErr.div_zerodiv_iff hp c

/-- **T5.5 (degree-2 types, product).**  For a degree-2 type `κ` and a canonical left operand `p`,
`p * q` (`q` a model of any type or a plain dict) raises `KeyError` iff some stored key of `p` and some
key of `q` together squash to more than two labels — `squashB` (boolean) keeps the labels that occur,
`squashS` (spin) those that occur an odd number of times, see `squashB_labels` / `squashS_labels`. -/
theorem mul_keyerror_iff (κ : Kind) (hκ : κ.isDeg2 = true) (p : Poly) (hp : WF (squash κ) p)
    (q : Poly) (b : Val) (hb : b = .raw q ∨ ∃ κ2, b = .mdl κ2 q) :
    Val.mul (.mdl κ p) b = .error .key ↔
      ∃ kp ∈ keys p, ∃ kq ∈ keys q,
        2 < (if κ.isSpin = true then squashS (kp ++ kq) else squashB (kp ++ kq)).length :=
  mulModel_key_iff hκ hp q b hb

/-- **T5.5 (degree-2 types, sum and difference).**  With a canonical left operand of a degree-2 type,
`p + q` / `p - q` raise `KeyError` iff some key of `q` squashes to more than two labels. -/
theorem add_keyerror_iff (κ : Kind) (hκ : κ.isDeg2 = true) (p : Poly) (hp : WF (squash κ) p)
    (q : Poly) (b : Val) (hb : b = .raw q ∨ ∃ κ2, b = .mdl κ2 q) :
    Val.add (.mdl κ p) b = .error .key ↔
      ∃ kq ∈ keys q, 2 < (if κ.isSpin = true then squashS kq else squashB kq).length :=
  add_key_iff hκ hp q b hb

theorem sub_keyerror_iff (κ : Kind) (hκ : κ.isDeg2 = true) (p : Poly) (hp : WF (squash κ) p)
    (q : Poly) (b : Val) (hb : b = .raw q ∨ ∃ κ2, b = .mdl κ2 q) :
    Val.sub (.mdl κ p) b = .error .key ↔
      ∃ kq ∈ keys q, 2 < (if κ.isSpin = true then squashS kq else squashB kq).length :=
  sub_key_iff hκ hp q b hb

/-- the boolean squashed key is strictly sorted and holds exactly the labels of the raw key -/
theorem squashB_labels (k : Key) : SSorted (squashB k) ∧ ∀ i, i ∈ squashB k ↔ i ∈ k :=
  ⟨squashB_sorted k, fun i => mem_squashB_iff i k⟩

/-- the spin squashed key is strictly sorted and holds exactly the labels of odd multiplicity -/
theorem squashS_labels (k : Key) : SSorted (squashS k) ∧ ∀ i, i ∈ squashS k ↔ k.count i % 2 = 1 :=
  ⟨squashS_sorted k, fun i => mem_squashS_iff i k⟩

/-- **T5.2 (value functions).** -/
theorem pubo_value (x : Var → Rat) (hx : IsBool x) (p : Poly) : puboValue x p = eval x p :=
  puboValue_eq_eval hx p

theorem qubo_value (x : Var → Rat) (hx : IsBool x) (p : Poly) (hp : ∀ kv ∈ p, kv.1.length ≤ 2) :
    quboValue x p = eval x p := quboValue_eq_eval hx p hp

theorem puso_value (z : Var → Rat) (hz : IsSpin z) (p : Poly) : pusoValue z p = eval z p :=
  pusoValue_eq_eval hz p

theorem quso_value (z : Var → Rat) (p : Poly) (hp : ∀ kv ∈ p, kv.1.length ≤ 2) :
    qusoValue z p = eval z p := qusoValue_eq_eval z p hp

/-! ### Non-vacuity: concrete instances of the hypotheses -/

/-- `(PUBO({(1,0,1): 2, (): -1}) * {(2,): 3}) ** 2 - 1/2` evaluates successfully -/
example : (run (.sub (.pow (.mul (.mdl .pubo [([1, 0, 1], 2), ([], -1)]) (.raw [([2], 3)])) 2)
    (.num (1/2)))).toOption.isSome = true := by decide +kernel

example : (Expr.sub (.pow (.mul (.mdl .pubo [([1, 0, 1], 2), ([], -1)]) (.raw [([2], 3)])) 2)
    (.num (1/2))).family false = true := rfl

/-- a spin tree -/
example : (run (.mul (.mdl .puso [([0, 0, 1], 2)]) (.mdl .quso [([1], 1), ([0, 1], 1)]))).toOption.isSome
    = true := by decide +kernel

/-- a degree-2 type overflowing raises `KeyError` -/
example : (run (.mul (.mdl .qubo [([0, 1], 1)]) (.mdl .qubo [([2], 1)]))).toOption.isSome = false := by
  decide +kernel

example : IsBool (fun i => if i = 0 then 1 else 0) := by
  intro i; by_cases h : i = 0 <;> simp [h]

/-! #### T5.4, spin: `(a + b) * c` and `a*c + b*c` built from PUSO / QUSO / PCSO leaves -/

/-- both trees evaluate, to models (of different types) holding the same items in a different insertion
order -/
example :
    terms? (run (.mul (.add (.mdl .puso [([0, 1, 2], 2), ([0], -1)]) (.mdl .pcso [([1], 3), ([], 1/2)]))
      (.mdl .quso [([1, 2], 1), ([0], 5)])))
      = some (.puso, [([0], 9/2), ([1, 2], 21/2), ([0, 1, 2], -1), ([], -5), ([2], 3), ([0, 1], 15)])
    ∧ terms? (run (.add (.mul (.mdl .pcso [([1], 3), ([], 1/2)]) (.mdl .quso [([1, 2], 1), ([0], 5)]))
      (.mul (.mdl .puso [([0, 1, 2], 2), ([0], -1)]) (.mdl .quso [([1, 2], 1), ([0], 5)]))))
      = some (.pcso, [([2], 3), ([0, 1], 15), ([1, 2], 21/2), ([0], 9/2), ([0, 1, 2], -1), ([], -5)]) := by
  decide +kernel

/-- the hypothesis "same function" of `equal_functions_equal_dicts` holds for that pair -/
example (x : Var → Rat) :
    den x (.mul (.add (.mdl .puso [([0, 1, 2], 2), ([0], -1)]) (.mdl .pcso [([1], 3), ([], 1/2)]))
      (.mdl .quso [([1, 2], 1), ([0], 5)]))
    = den x (.add (.mul (.mdl .pcso [([1], 3), ([], 1/2)]) (.mdl .quso [([1, 2], 1), ([0], 5)]))
      (.mul (.mdl .puso [([0, 1, 2], 2), ([0], -1)]) (.mdl .quso [([1, 2], 1), ([0], 5)]))) := by
  simp only [den]; ring

/-- a pair that is equal only because spins square to one: `z0 * z0` and `1` -/
example : terms? (run (.mul (.mdl .puso [([0], 1)]) (.mdl .puso [([0], 1)]))) = some (.puso, [([], 1)]) := by
  decide +kernel

example (z : Var → Rat) (hz : IsSpin z) :
    den z (.mul (.mdl .puso [([0], 1)]) (.mdl .puso [([0], 1)])) = den z (.mdl .puso [([], 1)]) := by
  have := hz.sq 0
  simp only [den, eval_cons, eval_nil, mon_cons, mon_nil]
  linarith

/-- a canonical spin dict in the sense of `canonical_dicts_unique` -/
example : (keys [([0, 2], (3 : Rat)), ([], -1)]).Nodup ∧ (∀ k ∈ keys [([0, 2], (3 : Rat)), ([], -1)], SSorted k) ∧
    (∀ kv ∈ [([0, 2], (3 : Rat)), ([], -1)], kv.2 ≠ 0) := by
  refine ⟨by decide, ?_, ?_⟩
  · intro k hk; simp [keys] at hk; rcases hk with rfl | rfl <;> simp [SSorted]
  · intro kv hkv; simp at hkv; rcases hkv with rfl | rfl <;> norm_num

example : IsSpin (fun i => if i = 0 then -1 else 1) := by
  intro i; by_cases h : i = 0 <;> simp [h]

/-! #### T5.5: each of the four exceptions occurs, from the node the theorems name -/

example : errOf (run (.mul (.mdl .qubo [([0, 1], 1)]) (.mdl .pubo [([2], 1)]))) = some .key := by
  decide +kernel
example : Expr.has Kind.isDeg2 (.mul (.mdl .qubo [([0, 1], 1)]) (.mdl .pubo [([2], 1)])) = true := rfl
/-- same operands, non-degree-2 type on the left: no `KeyError` -/
example : errOf (run (.mul (.mdl .pubo [([0, 1], 1)]) (.mdl .qubo [([2], 1)]))) = none := by
  decide +kernel
/-- spin: the shared label cancels, two labels remain, no `KeyError`; with a fresh label it overflows -/
example : errOf (run (.mul (.mdl .quso [([0, 1], 1)]) (.mdl .quso [([1, 2], 1)]))) = none := by
  decide +kernel
example : errOf (run (.mul (.mdl .quso [([0, 1], 1)]) (.mdl .quso [([2], 1)]))) = some .key := by
  decide +kernel
/-- `QUBO + PUBO` with a cubic term on the right: `KeyError`; the other way round it is fine -/
example : errOf (Val.add (.mdl .qubo [([0], 1)]) (.mdl .pubo [([0, 1, 2], 1)])) = some .key := by
  decide +kernel
example : errOf (Val.add (.mdl .pubo [([0, 1, 2], 1)]) (.mdl .qubo [([0], 1)])) = none := by
  decide +kernel
example : errOf (run (.pow (.mdl .pubo [([0], 1)]) 0)) = some .value := by decide +kernel
example : errOf (run (.div (.mdl .puso [([0], 1)]) 0)) = some .zerodiv := by decide +kernel
example : errOf (run (.div (.mdl .puso []) 0)) = none := by decide +kernel
example : errOf (run (.add (.raw [([0], 1)]) (.raw [([0], 1)]))) = some .type := by decide +kernel

/-- a canonical degree-2 operand for `mul_keyerror_iff` / `pow_valueerror_iff` / `div_zerodiv_iff` -/
example : WF (squash .quso) [([0, 1], 1), ([], 2)] := by
  refine ⟨by decide, ?_, ?_⟩
  · intro k hk; simp [keys] at hk; rcases hk with rfl | rfl <;> decide +kernel
  · intro kv hkv; simp at hkv; rcases hkv with rfl | rfl <;> norm_num

/-- reflected forms evaluate: `3 - QUSO`, `dict * PCBO` -/
example : terms? (Val.sub (.num 3) (.mdl .quso [([0, 1], 1)])) = some (.quso, [([0, 1], -1), ([], 3)]) := by
  decide +kernel
example : terms? (Val.mul (.raw [([1, 1], 2)]) (.mdl .pcbo [([0], 1)])) = some (.pcbo, [([0, 1], 2)]) := by
  decide +kernel

end Qv.C05
