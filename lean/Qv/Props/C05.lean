import Qv.Proofs.Expr
import Qv.Proofs.Values
import Qv.Proofs.Unique
/-!
# C05 — Model arithmetic and evaluation agree with polynomial arithmetic

Only the property theorems and their non-vacuity examples live here (helper lemmas are in
`Qv/Proofs`).  The model is `Qv.Model.{Basic,Arith,Values,Expr}`; its tie to
`qubovert/utils/_dict_arithmetic.py` etc. is the correspondence check `harness/c05.py`.
-/
namespace Qv.C05
open Qv

/-- **T5.1 (homomorphism, whole expression trees).**  For every expression tree `t` built from
`+ - * ** unary± /` (copying, reflected and in-place forms all evaluate through `run`) over models of
one family, plain dicts with arbitrary raw keys, and numbers: if evaluation succeeds with value `v`,
then at *every* assignment of that family `v` evaluates to the arithmetic combination `den t` of the
operand values.  No bound on depth, number of terms, degree or number of variables. -/
theorem tree_value (s : Bool) (x : Var → Rat) (hx : if s then IsSpin x else IsBool x)
    (t : Expr) (v : Val) (hf : t.family s = true) (h : run t = .ok v) :
    v.eval x = den x t :=
  (run_sound (s := s) (x := x) hx t hf h).1

/-- **T5.3 (canonical storage).**  Every model value produced by a successful evaluation is stored
canonically: its keys are pairwise distinct, each key is strictly sorted (hence duplicate-free) and has
at most two labels for the degree-2 types, and no coefficient is zero. -/
theorem tree_canonical (s : Bool) (t : Expr) (κ : Kind) (p : Poly)
    (hf : t.family s = true) (h : run t = .ok (.mdl κ p)) :
    (keys p).Nodup ∧ (∀ k ∈ keys p, SSorted k ∧ (κ.isDeg2 = true → k.length ≤ 2)) ∧
    (∀ kv ∈ p, kv.2 ≠ 0) := by
  -- any assignment of the family will do to invoke `run_sound`; take the constant-one assignment
  have hx : Fam s (fun _ => (1 : Rat)) := by
    cases s <;> simp [Fam, IsSpin, IsBool]
  have hg := (run_sound (s := s) (x := fun _ => 1) hx t hf h).2
  obtain ⟨hd, _, wf⟩ := hg
  refine ⟨wf.nodup, fun k hk => ?_, wf.nonzero⟩
  rcases squash_canon (wf.fixed k hk) with h' | h'
  · exact absurd h' hd
  · exact h'

/-- **T5.4 (equal functions ⇒ equal dicts), boolean family — `_partial`: the spin family is not
mechanised (it needs the boolean/spin bijection of C04 at coefficient level).**  If two expression trees over
boolean models evaluate successfully and denote the same function on boolean assignments, the two
resulting models have the same coefficient at every key — i.e. they compare equal as dicts (both are
canonical by `tree_canonical`: distinct keys, no zero values, so equality of `get` is dict equality). -/
theorem equal_functions_equal_dicts_partial (t1 t2 : Expr) (κ1 κ2 : Kind) (p q : Poly)
    (hf1 : t1.family false = true) (hf2 : t2.family false = true)
    (h1 : run t1 = .ok (.mdl κ1 p)) (h2 : run t2 = .ok (.mdl κ2 q))
    (h : ∀ x, IsBool x → den x t1 = den x t2) : ∀ k, get p k = get q k := by
  have toPubo : ∀ {κ : Kind} {r : Poly}, κ ≠ .dict → WF (squash κ) r → WF (squash .pubo) r := by
    intro κ r hd w
    refine ⟨w.nodup, fun k hk => ?_, w.nonzero⟩
    rcases squash_canon (w.fixed k hk) with h' | h'
    · exact absurd h' hd
    · exact squash_of_canon (Or.inr ⟨h'.1, by simp [Kind.isDeg2]⟩)
  have hx1 : Fam false (fun _ => (1 : Rat)) := by simp [Fam, IsBool]
  have g1 := (run_sound (s := false) (x := fun _ => 1) hx1 t1 hf1 h1).2
  have g2 := (run_sound (s := false) (x := fun _ => 1) hx1 t2 hf2 h2).2
  apply coeff_eq_of_eval_eq (toPubo g1.1 g1.2.2) (toPubo g2.1 g2.2.2)
  intro x hx
  have e1 := (run_sound (s := false) (x := x) (by simpa [Fam] using hx) t1 hf1 h1).1
  have e2 := (run_sound (s := false) (x := x) (by simpa [Fam] using hx) t2 hf2 h2).1
  simp only [Val.eval] at e1 e2
  rw [e1, e2, h x hx]

/-- **T5.5 (result type).**  The result of a binary operator is a model of the type of the model
operand (the left one if both are models). -/
theorem add_kind (κ : Kind) (p : Poly) (b v : Val) (h : Val.add (.mdl κ p) b = .ok v) :
    ∃ r, v = .mdl κ r := by
  cases b <;> simp only [Val.add, bind_ok_iff, pure, Except.pure] at h <;>
    (obtain ⟨d, _, r, _, h⟩ := h; injection h with h; exact ⟨r, h.symm⟩)

theorem mul_kind (κ : Kind) (p : Poly) (b v : Val) (h : Val.mul (.mdl κ p) b = .ok v) :
    ∃ r, v = .mdl κ r := by
  cases b <;> simp only [Val.mul, mulModel, bind_ok_iff, pure, Except.pure] at h <;>
    (obtain ⟨d, _, r, _, h⟩ := h; injection h with h; exact ⟨r, h.symm⟩)

/-- **T5.2 (value functions).** -/
theorem pubo_value (x : Var → Rat) (hx : IsBool x) (p : Poly) : puboValue x p = eval x p :=
  puboValue_eq_eval hx p

theorem qubo_value (x : Var → Rat) (hx : IsBool x) (p : Poly) (hp : ∀ kv ∈ p, kv.1.length ≤ 2) :
    quboValue x p = eval x p := quboValue_eq_eval hx p hp

theorem puso_value (z : Var → Rat) (hz : IsSpin z) (p : Poly) : pusoValue z p = eval z p :=
  pusoValue_eq_eval hz p

theorem quso_value (z : Var → Rat) (p : Poly) (hp : ∀ kv ∈ p, kv.1.length ≤ 2) :
    qusoValue z p = eval z p := qusoValue_eq_eval z p hp

/-! ### Non-vacuity: concrete instances of the hypotheses -/

/-- `(PUBO({(1,0,1): 2, (): -1}) * {(2,): 3}) ** 2 - 1/2` evaluates successfully -/
example : (run (.sub (.pow (.mul (.mdl .pubo [([1, 0, 1], 2), ([], -1)]) (.raw [([2], 3)])) 2)
    (.num (1/2)))).toOption.isSome = true := by decide +kernel

example : (Expr.sub (.pow (.mul (.mdl .pubo [([1, 0, 1], 2), ([], -1)]) (.raw [([2], 3)])) 2)
    (.num (1/2))).family false = true := rfl

/-- a spin tree -/
example : (run (.mul (.mdl .puso [([0, 0, 1], 2)]) (.mdl .quso [([1], 1), ([0, 1], 1)]))).toOption.isSome
    = true := by decide +kernel

/-- a degree-2 type overflowing raises `KeyError` -/
example : (run (.mul (.mdl .qubo [([0, 1], 1)]) (.mdl .qubo [([2], 1)]))).toOption.isSome = false := by
  decide +kernel

example : IsBool (fun i => if i = 0 then 1 else 0) := by
  intro i; by_cases h : i = 0 <;> simp [h]

end Qv.C05
