import Qv.Proofs.Subst
/-!
# C18 — Substitution and scaling utilities preserve the represented function

Only the property theorems and their non-vacuity examples live here (helper lemmas are in
`Qv/Proofs/Subst.lean`).  The model is `Qv.Model.Subst`; its tie to `qubovert/utils/_subgraph.py`,
`_normalize.py` and `DictArithmetic.normalize/subgraph/subvalue` is the correspondence check
`harness/c18.py`.

Hypotheses, per container type `τ = type(G)` (`Ty.builtin` = `dict`, `Ty.da .dict` = `DictArithmetic`,
`Ty.da κ` = one of the ten model types):

* assignments `ρ` are **arbitrary rational** functions everywhere — no `IsBool` / `IsSpin`;
* `CanonKeys τ G` — every key of `G` is stored the way `τ` stores keys.  It is *vacuous* for `dict` and
  `DictArithmetic` (`subvalue_dict`, `subgraph_dict`: raw, unsorted, repeated labels allowed) and is the
  class invariant of the ten model types (sorted duplicate-free keys, ≤ 2 labels for the degree-2
  types).  It is needed because the code reads the accumulator with the raw `dict.get(key, 0)` but
  writes it through the type's squashing `__setitem__`: `subvalue_needs_canonical_keys` shows the
  statement fails (even at boolean points) for a `PUBO`-typed term list with a non-canonical key.
  On canonical keys the filtered key is again canonical, so the squash is the identity and no
  condition on `ρ` arises;
* `normalize` additionally uses that a `dict` has pairwise distinct keys (`(keys D).Nodup`).
-/
namespace Qv.C18
open Qv

/-! ## T18.1 subvalue -/

/-- **T18.1 (value).**  If `subvalue(values, G)` returns `D`, then at *every* rational assignment `ρ`
the value of `D` is the value of `G` at `ρ` overridden by `values`.  Any number of terms, labels,
any degree, any substituted numbers. -/
theorem subvalue_value (τ : Ty) (vals : Assoc) (G D : Poly) (hc : CanonKeys τ G)
    (h : subvalue τ vals G = .ok D) (ρ : Var → Rat) :
    eval ρ D = eval (override ρ vals) G := by
  obtain ⟨D', h1, h2, _, _⟩ := subvalueLoop_spec τ vals G [] hc
  have : D' = D := by
    have := h1.symm.trans h
    injection this
  subst this
  simpa using h2 ρ

/-- **T18.1 (total, type, remaining variables).**  On canonical keys `subvalue` raises nothing; the
result is a well-formed object of `G`'s type (distinct canonical keys, no zero coefficient) and no
key mentions a substituted label. -/
theorem subvalue_result (τ : Ty) (vals : Assoc) (G : Poly) (hc : CanonKeys τ G) :
    ∃ D, subvalue τ vals G = .ok D ∧ WF (squash τ.kind) D ∧
      (∀ k ∈ keys D, ∀ i ∈ k, inDict vals i = false) := by
  obtain ⟨D', h1, _, h3, h4⟩ := subvalueLoop_spec τ vals G [] hc
  exact ⟨D', h1, h3 (wf_nil _), h4 (by intro k hk; simp [keys] at hk)⟩

/-- the substituted model is a function of the remaining variables only -/
theorem subvalue_remaining_only (τ : Ty) (vals : Assoc) (G D : Poly) (hc : CanonKeys τ G)
    (h : subvalue τ vals G = .ok D) (ρ ρ' : Var → Rat)
    (hρ : ∀ i, inDict vals i = false → ρ i = ρ' i) : eval ρ D = eval ρ' D := by
  rw [subvalue_value τ vals G D hc h ρ, subvalue_value τ vals G D hc h ρ']
  have : override ρ vals = override ρ' vals := by
    funext i
    unfold override
    cases hl : lookup vals i with
    | none => exact hρ i (by simp [inDict, hl])
    | some v => rfl
  rw [this]

/-- **T18.1 for plain dicts and `DictArithmetic`: no hypothesis at all** (raw keys, arbitrary `ρ`). -/
theorem subvalue_dict (τ : Ty) (hτ : τ.kind = .dict) (vals : Assoc) (G : Poly) :
    ∃ D, subvalue τ vals G = .ok D ∧ ∀ ρ, eval ρ D = eval (override ρ vals) G := by
  obtain ⟨D, h, _⟩ := subvalue_result τ vals G (canonKeys_of_dict hτ G)
  exact ⟨D, h, subvalue_value τ vals G D (canonKeys_of_dict hτ G) h⟩

/-- a key that is not a tuple: `ValueError` (dict / DictArithmetic inputs) -/
theorem subvalue_nontuple (τ : Ty) (hτ : τ.kind = .dict) (vals : Assoc) (G : List RawItem)
    (h : ∃ it ∈ G, it.1 = none) : subvalueRaw τ vals G = .error .value :=
  subvalueLoop_nontuple hτ vals G [] h

/-- The canonical-keys hypothesis cannot be dropped for the model types: a `PUBO`-typed term list
`{(0,): 1, (0,0): 1}` (not constructible through the public API) is mapped to `{(0,): 1}`, whose value
at `x₀ = 1` is 1, not 2. -/
theorem subvalue_needs_canonical_keys :
    ∃ D, subvalue (.da .pubo) [] [([0], 1), ([0, 0], 1)] = .ok D ∧
      eval (fun _ => 1) D ≠ eval (override (fun _ => 1) []) [([0], 1), ([0, 0], 1)] :=
  ⟨[([0], 1)], by decide +kernel, by decide +kernel⟩

/-! ## T18.2 subgraph -/

/-- **T18.2 (value).**  If `subgraph(G, nodes, connections)` returns `D`, then at every rational
assignment `ρ` the value of `D` is the value of `G` without its constant term, with the labels outside
`nodes` fixed to `connections.get(i, 0)`. -/
theorem subgraph_value (τ : Ty) (nodes : List Var) (conn : Assoc) (G D : Poly) (hc : CanonKeys τ G)
    (h : subgraph τ nodes conn G = .ok D) (ρ : Var → Rat) :
    eval ρ D = eval (sgAssign ρ nodes conn) (dropConst G) := by
  obtain ⟨D', h1, h2, _, _⟩ := subgraphLoop_spec τ nodes conn G [] hc
  have : D' = D := by
    have := h1.symm.trans h
    injection this
  subst this
  simpa using h2 ρ

/-- the same with the constant written as a subtraction (a dict has distinct keys) -/
theorem subgraph_value_minus_const (τ : Ty) (nodes : List Var) (conn : Assoc) (G D : Poly)
    (hc : CanonKeys τ G) (hn : (keys G).Nodup) (h : subgraph τ nodes conn G = .ok D) (ρ : Var → Rat) :
    eval ρ D = eval (sgAssign ρ nodes conn) G - get G [] := by
  rw [subgraph_value τ nodes conn G D hc h ρ, eval_dropConst _ hn]

/-- **T18.2 (total, type, node set).**  No exception on canonical keys; the result is a well-formed
object of `G`'s type and every label it mentions is in `nodes`. -/
theorem subgraph_result (τ : Ty) (nodes : List Var) (conn : Assoc) (G : Poly) (hc : CanonKeys τ G) :
    ∃ D, subgraph τ nodes conn G = .ok D ∧ WF (squash τ.kind) D ∧
      (∀ k ∈ keys D, ∀ i ∈ k, i ∈ nodes) := by
  obtain ⟨D', h1, _, h3, h4⟩ := subgraphLoop_spec τ nodes conn G [] hc
  refine ⟨D', h1, h3 (wf_nil _), fun k hk i hi => ?_⟩
  have := h4 (by intro k hk; simp [keys] at hk) k hk i hi
  simpa using this

/-- **T18.2 for plain dicts and `DictArithmetic`: no hypothesis.** -/
theorem subgraph_dict (τ : Ty) (hτ : τ.kind = .dict) (nodes : List Var) (conn : Assoc) (G : Poly) :
    ∃ D, subgraph τ nodes conn G = .ok D ∧
      ∀ ρ, eval ρ D = eval (sgAssign ρ nodes conn) (dropConst G) := by
  obtain ⟨D, h, _⟩ := subgraph_result τ nodes conn G (canonKeys_of_dict hτ G)
  exact ⟨D, h, subgraph_value τ nodes conn G D (canonKeys_of_dict hτ G) h⟩

theorem subgraph_nontuple (τ : Ty) (hτ : τ.kind = .dict) (nodes : List Var) (conn : Assoc)
    (G : List RawItem) (h : ∃ it ∈ G, it.1 = none) : subgraphRaw τ nodes conn G = .error .value :=
  subgraphLoop_nontuple hτ nodes conn G [] h

/-! ## T18.3 normalize -/

/-- **T18.3 (function).**  If `normalize(D, c)` returns `res`: the largest magnitude `M` of `D` is
positive, every coefficient is multiplied by the one factor `m = c / M` (so `∃ m, ∀ k, …`), the largest
magnitude of `res` is `|c|`, and for `DictArithmetic` and the model types `res` is a well-formed
object of the same type.  Holds for every `c`, including `0` and negative values. -/
theorem normalize_fn (τ : Ty) (D res : Poly) (c : Rat) (hn : (keys D).Nodup) (hc : CanonKeys τ D)
    (h : normalizeFn τ D c = .ok res) :
    0 < maxAbs D ∧
    (∃ m, m * maxAbs D = c ∧ ∀ k, get res k = m * get D k) ∧
    maxAbs res = |c| ∧
    (∀ κ, τ = .da κ → WF (squash κ) res) := by
  obtain ⟨hne, hm⟩ := normalizeFn_guards h
  have hpos : 0 < maxAbs D := lt_of_le_of_ne (maxAbs_nonneg D) (Ne.symm hm)
  have h' := normalizeFn_closed τ c hn hc hne hm
  have hres : res = normOut τ (c / maxAbs D) D := by
    have := h.symm.trans h'
    injection this
  subst hres
  refine ⟨hpos, ⟨c / maxAbs D, div_mul_cancel₀ _ hm, fun k => get_normOut τ _ hn k⟩, ?_, ?_⟩
  · rw [maxAbs_normOut, abs_div_mul_self hpos]
  · intro κ hκ
    subst hκ
    exact wf_normOut_da _ hn hc

/-- the function is total on non-empty dicts with a non-zero coefficient … -/
theorem normalize_fn_total (τ : Ty) (D : Poly) (c : Rat) (hn : (keys D).Nodup) (hc : CanonKeys τ D)
    (hne : D ≠ []) (hm : maxAbs D ≠ 0) : ∃ res, normalizeFn τ D c = .ok res :=
  ⟨_, normalizeFn_closed τ c hn hc hne hm⟩

/-- … raises `ValueError` on the empty dict (`max()` of an empty sequence) and `ZeroDivisionError`
when every value is zero (only a builtin dict can hold zeros). -/
theorem normalize_fn_errors (τ : Ty) (c : Rat) :
    normalizeFn τ [] c = .error .value ∧
    ∀ D, D ≠ [] → maxAbs D = 0 → normalizeFn τ D c = .error .zerodiv := by
  refine ⟨rfl, fun D hne hm => ?_⟩
  have he : D.isEmpty = false := by cases D <;> simp_all
  simp [normalizeFn, he, hm]

/-- **T18.3 (method), every requested value `c` (including `0` and negative values).**  On a
well-formed non-empty model the in-place `D.normalize(c)` succeeds, multiplies every coefficient by the
one factor `c / M`, yields largest magnitude `|c|`, stays a well-formed object of the same type,
computes exactly what the function computes, and for `c ≠ 0` keeps the keys and their order. -/
theorem normalize_method (κ : Kind) (D : Poly) (c : Rat) (h : WF (squash κ) D) (hne : D ≠ []) :
    ∃ res, normalizeM κ D c = .ok res ∧
      (∃ m, m * maxAbs D = c ∧ ∀ k, get res k = m * get D k) ∧
      maxAbs res = |c| ∧
      WF (squash κ) res ∧
      normalizeFn (.da κ) D c = .ok res ∧
      (c ≠ 0 → keys res = keys D) := by
  have hpos := wf_maxAbs_pos h hne
  have hck := canonKeys_of_wf h
  refine ⟨normOut (.da κ) (c / maxAbs D) D, normalizeM_closed c h hne,
    ⟨c / maxAbs D, div_mul_cancel₀ _ (ne_of_gt hpos), fun k => get_normOut _ _ h.nodup k⟩, ?_,
    wf_normOut_da _ h.nodup hck, normalizeFn_closed (.da κ) c h.nodup hck hne (ne_of_gt hpos), ?_⟩
  · rw [maxAbs_normOut, abs_div_mul_self hpos]
  · intro hc
    have hm : c / maxAbs D ≠ 0 := div_ne_zero hc (ne_of_gt hpos)
    simp only [normOut]
    rw [dropZeros_of_nonzero (scaleAll_wf h hm).nonzero, keys_scaleAll]

/-- the method on the empty model does nothing (`if self:`) -/
theorem normalize_method_empty (κ : Kind) (c : Rat) : normalizeM κ [] c = .ok [] := rfl

/-- **Requested value 0**: method and function agree, both give the empty (all-zero) model.
(Before the repair of `DictArithmetic.normalize` — iteration over the live dict — the method raised
`RuntimeError` here; the harness keeps these inputs as regression cases.) -/
theorem normalize_method_zero (κ : Kind) (D : Poly) (h : WF (squash κ) D) (hne : D ≠ []) :
    normalizeM κ D 0 = .ok [] ∧ normalizeFn (.da κ) D 0 = .ok [] := by
  have hpos := wf_maxAbs_pos h hne
  have e : normOut (.da κ) (0 / maxAbs D) D = [] := by
    simp only [normOut, zero_div]
    exact dropZeros_scaleAll_zero D
  refine ⟨?_, ?_⟩
  · rw [normalizeM_closed 0 h hne, e]
  · rw [normalizeFn_closed (.da κ) 0 h.nodup (canonKeys_of_wf h) hne (ne_of_gt hpos), e]

/-! ## Non-vacuity: concrete instances -/

/-- the docstring example `subvalue({0: 2}, G)` on a builtin dict -/
example : (subvalue .builtin [(0, 2)] [([0, 1], -4), ([0, 2], -1), ([0], 3), ([1], 2), ([], 2)]).toOption
    = some [([1], -6), ([2], -2), ([], 8)] := by decide +kernel

/-- a `PUSO` with canonical keys, substituted at the non-spin value 1/2; two keys collide and cancel -/
example : (subvalue (.da .puso) [(2, 1/2)] [([0, 2], 2), ([0], -1), ([1, 2, 3], 4)]).toOption
    = some [([1, 3], 2)] := by decide +kernel

example : CanonKeys (.da .puso) [([0, 2], 2), ([0], -1), ([1, 2, 3], 4)] := by
  intro k hk
  simp [keys] at hk
  rcases hk with rfl | rfl | rfl <;> exact Or.inr ⟨by simp [SSorted], by simp [Kind.isDeg2, Ty.kind]⟩

/-- a raw dict with unsorted and repeated labels (no hypothesis needed) -/
example : (subvalue (.da .dict) [(1, -3)] [([1, 0, 1], 2), ([0], 5)]).toOption = some [([0], 23)] := by
  decide +kernel

/-- the docstring example `subgraph(G, {0, 2}, {1: 5})` -/
example : (subgraph (.da .qubo) [0, 2] [(1, 5)]
    [([0, 1], -4), ([0, 2], -1), ([0], 3), ([1], 2), ([], 2)]).toOption
    = some [([0], -17), ([0, 2], -1), ([], 10)] := by decide +kernel

/-- a non-tuple key -/
example : subvalueRaw .builtin [] [(some [0], 1), (none, 1)] = .error .value := by decide +kernel

/-- `normalize` of `{(0,1): 1, (1,2,3): -4}` to 3/2, function and method -/
example : (normalizeFn (.da .pubo) [([0, 1], 1), ([1, 2, 3], -4)] (3/2)).toOption
    = some [([0, 1], 3/8), ([1, 2, 3], -3/2)] := by decide +kernel

example : (normalizeM .pubo [([0, 1], 1), ([1, 2, 3], -4)] (3/2)).toOption
    = some [([0, 1], 3/8), ([1, 2, 3], -3/2)] := by decide +kernel

example : WF (squash .pubo) [([0, 1], 1), ([1, 2, 3], -4)] := by
  refine ⟨by decide +kernel, fun k hk => ?_, fun kv hkv => ?_⟩
  · simp [keys] at hk
    rcases hk with rfl | rfl <;> decide +kernel
  · simp at hkv
    rcases hkv with rfl | rfl <;> norm_num

/-- a builtin dict keeps a zero value; requested value 0 gives all zeros -/
example : (normalizeFn .builtin [([0], 0), ([1], 2)] (-1)).toOption = some [([0], 0), ([1], -1)] := by
  decide +kernel

/-- the former failing input `PUBO({(0,): 2, (1,): -4}).normalize(0)`: now the empty model -/
example : (normalizeM .pubo [([0], 2), ([1], -4)] 0).toOption = some [] := by decide +kernel

/-- a negative requested value through the method -/
example : (normalizeM .quso [([0], 2), ([0, 1], -4)] (-1)).toOption
    = some [([0], -1/2), ([0, 1], 1)] := by decide +kernel

end Qv.C18
