import Qv.Proofs.Convert
import Qv.Proofs.ConvertExport
import Qv.Proofs.ConvertMatrix
/-!
# C04 — Boolean/spin conversions, enumerations and exports preserve the function

Only the property theorems and their non-vacuity examples live here (helper lemmas are in
`Qv/Proofs/Convert.lean`, `Qv/Proofs/ConvertExport.lean`, `Qv/Proofs/ConvertMatrix.lean`).  The model is `Qv.Model.Convert`; its tie to
`qubovert/utils/_conversions.py`, `_qubo.py`, `_quso.py`, `_pubo.py`, `_puso.py`, `_qubomatrix.py`,
`_qusomatrix.py`, `_bo_parentclass.py`, `_binary_helpers.py` is the correspondence check `harness/c04.py`.

Conventions: `b2s x i = 1 - 2 * x i` (boolean 0 ↦ spin 1, boolean 1 ↦ spin -1),
`s2b z i = (1 - z i) / 2`; `eval` is over raw keys (a repeated label multiplies twice), so every theorem
covers raw dicts with unsorted / repeated labels, any degree, any number of terms and variables.
-/
namespace Qv.C04
open Qv

/-! ## T4.1 / T4.2 — `pubo_to_puso`, `puso_to_pubo` -/

/-- **T4.1.** `pubo_to_puso(P)` (for a source of any type `κ`, with arbitrary raw keys) has at every spin
assignment `z` the value of `P` at the corresponding boolean assignment `x = (1 - z)/2`. -/
theorem pubo_to_puso_value (κ : Kind) (P H : Poly) (z : Var → Rat) (hz : IsSpin z)
    (h : puboToPuso κ P = .ok H) : eval z H = eval (s2b z) P :=
  eval_puboToPuso hz h

/-- `pubo_to_puso` never raises. -/
theorem pubo_to_puso_total (κ : Kind) (P : Poly) : ∃ H, puboToPuso κ P = .ok H :=
  convLoop_total (sqTotal_of_not_deg2 (kindPuboToPuso_spin κ).2) P []

/-- **T4.2.** `puso_to_pubo(H)` has at every boolean assignment `x` the value of `H` at `z = 1 - 2x`. -/
theorem puso_to_pubo_value (κ : Kind) (H P : Poly) (x : Var → Rat) (hx : IsBool x)
    (h : pusoToPubo κ H = .ok P) : eval x P = eval (b2s x) H :=
  eval_pusoToPubo hx h

/-- `puso_to_pubo` never raises. -/
theorem puso_to_pubo_total (κ : Kind) (H : Poly) : ∃ P, pusoToPubo κ H = .ok P :=
  convLoop_total (sqTotal_of_not_deg2 (kindPusoToPubo_bool κ).2) H []

/-- The correspondence is a bijection between boolean and spin assignments, so T4.1/T4.2 speak about
*every* corresponding pair. -/
theorem assignment_bijection :
    (∀ z, IsSpin z → IsBool (s2b z) ∧ b2s (s2b z) = z) ∧ (∀ x, IsBool x → IsSpin (b2s x) ∧ s2b (b2s x) = x) :=
  ⟨fun z hz => ⟨isBool_s2b hz, b2s_s2b z⟩, fun x hx => ⟨isSpin_b2s hx, s2b_b2s x⟩⟩

/-! ## T4.3 / T4.4 — the closed forms `qubo_to_quso`, `quso_to_qubo` -/

/-- **T4.3.** whenever `qubo_to_quso(Q)` returns, the result has the value of `Q` at `x = (1 - z)/2`. -/
theorem qubo_to_quso_value (κ : Kind) (Q L : Poly) (z : Var → Rat) (hz : IsSpin z)
    (h : quboToQuso κ Q = .ok L) : eval z L = eval (s2b z) Q :=
  eval_quboToQuso hz h

/-- **T4.4.** -/
theorem quso_to_qubo_value (κ : Kind) (L Q : Poly) (x : Var → Rat) (hx : IsBool x)
    (h : qusoToQubo κ L = .ok Q) : eval x Q = eval (b2s x) L :=
  eval_qusoToQubo hx h

/-- `qubo_to_quso` on anything but an exact `QUBOMatrix`/`QUBO` (dicts, other model types) succeeds
exactly when every key squashes to at most two labels … -/
theorem qubo_to_quso_ok_iff (κ : Kind) (hκ : κ ≠ .qubom ∧ κ ≠ .qubo) (Q : Poly) :
    (∃ L, quboToQuso κ Q = .ok L) ↔ ∀ kv ∈ Q, (squashB kv.1).length ≤ 2 := by
  have hone : IsSpin (fun _ => (1 : Rat)) := fun _ => Or.inl rfl
  unfold quboToQuso
  rw [closedLoop_ok_iff (fun L _ hk v => quboToQusoTerm_total (sqShort_squash _) L hk v)
    (fun h => (eval_quboToQusoTerm (sqOK_spin (kindQuboToQuso_spin κ) hone) h).1)]
  have hsrc : srcSquashQubo κ = squash .qubo := by simp [srcSquashQubo, hκ.1, hκ.2]
  rw [hsrc]
  constructor
  · intro h kv hkv
    obtain ⟨k, hk, hlen⟩ := h kv hkv
    rcases squash_qubo_cases kv.1 with ⟨_, h2⟩ | ⟨h1, _⟩
    · exact h2
    · rw [h1] at hk; cases hk
  · intro h kv hkv
    rcases squash_qubo_cases kv.1 with ⟨h1, h2⟩ | ⟨_, h2⟩
    · exact ⟨_, h1, h2⟩
    · have := h kv hkv; omega

/-- … and otherwise raises `KeyError`. -/
theorem qubo_to_quso_keyerror (κ : Kind) (hκ : κ ≠ .qubom ∧ κ ≠ .qubo) (Q : Poly) (e : Err)
    (h : quboToQuso κ Q = .error e) : e = .key := by
  unfold quboToQuso at h
  have hsrc : srcSquashQubo κ = squash .qubo := by simp [srcSquashQubo, hκ.1, hκ.2]
  rw [hsrc] at h
  refine closedLoop_error (fun L _ hk v => quboToQusoTerm_total (sqShort_squash _) L hk v) ?_ h
  intro kp
  rcases squash_qubo_cases kp with ⟨h1, h2⟩ | ⟨h1, _⟩
  · exact Or.inl ⟨_, h1, h2⟩
  · exact Or.inr h1

/-- On an exact `QUBOMatrix`/`QUBO` ("key will already be squashed") it succeeds when the stored keys
have at most two labels (the class invariant, C05 `tree_canonical`). -/
theorem qubo_to_quso_ok_of_stored (κ : Kind) (hκ : κ = .qubom ∨ κ = .qubo) (Q : Poly)
    (hQ : ∀ kv ∈ Q, kv.1.length ≤ 2) : ∃ L, quboToQuso κ Q = .ok L := by
  have hone : IsSpin (fun _ => (1 : Rat)) := fun _ => Or.inl rfl
  unfold quboToQuso
  rw [closedLoop_ok_iff (fun L _ hk v => quboToQusoTerm_total (sqShort_squash _) L hk v)
    (fun h => (eval_quboToQusoTerm (sqOK_spin (kindQuboToQuso_spin κ) hone) h).1)]
  intro kv hkv
  exact ⟨kv.1, by simp [srcSquashQubo, hκ, pure, Except.pure], hQ kv hkv⟩

theorem quso_to_qubo_ok_iff (κ : Kind) (hκ : κ ≠ .qusom ∧ κ ≠ .quso) (L : Poly) :
    (∃ Q, qusoToQubo κ L = .ok Q) ↔ ∀ kv ∈ L, (squashS kv.1).length ≤ 2 := by
  have hzero : IsBool (fun _ => (0 : Rat)) := fun _ => Or.inl rfl
  unfold qusoToQubo
  rw [closedLoop_ok_iff (fun L _ hk v => qusoToQuboTerm_total (sqShort_squash _) L hk v)
    (fun h => (eval_qusoToQuboTerm (sqOK_bool (kindQusoToQubo_bool κ) hzero) h).1)]
  have hsrc : srcSquashQuso κ = squash .quso := by simp [srcSquashQuso, hκ.1, hκ.2]
  rw [hsrc]
  constructor
  · intro h kv hkv
    obtain ⟨k, hk, hlen⟩ := h kv hkv
    rcases squash_quso_cases kv.1 with ⟨_, h2⟩ | ⟨h1, _⟩
    · exact h2
    · rw [h1] at hk; cases hk
  · intro h kv hkv
    rcases squash_quso_cases kv.1 with ⟨h1, h2⟩ | ⟨_, h2⟩
    · exact ⟨_, h1, h2⟩
    · have := h kv hkv; omega

theorem quso_to_qubo_keyerror (κ : Kind) (hκ : κ ≠ .qusom ∧ κ ≠ .quso) (L : Poly) (e : Err)
    (h : qusoToQubo κ L = .error e) : e = .key := by
  unfold qusoToQubo at h
  have hsrc : srcSquashQuso κ = squash .quso := by simp [srcSquashQuso, hκ.1, hκ.2]
  rw [hsrc] at h
  refine closedLoop_error (fun L _ hk v => qusoToQuboTerm_total (sqShort_squash _) L hk v) ?_ h
  intro kp
  rcases squash_quso_cases kp with ⟨h1, h2⟩ | ⟨h1, _⟩
  · exact Or.inl ⟨_, h1, h2⟩
  · exact Or.inr h1

theorem quso_to_qubo_ok_of_stored (κ : Kind) (hκ : κ = .qusom ∨ κ = .quso) (L : Poly)
    (hL : ∀ kv ∈ L, kv.1.length ≤ 2) : ∃ Q, qusoToQubo κ L = .ok Q := by
  have hzero : IsBool (fun _ => (0 : Rat)) := fun _ => Or.inl rfl
  unfold qusoToQubo
  rw [closedLoop_ok_iff (fun L _ hk v => qusoToQuboTerm_total (sqShort_squash _) L hk v)
    (fun h => (eval_qusoToQuboTerm (sqOK_bool (kindQusoToQubo_bool κ) hzero) h).1)]
  intro kv hkv
  exact ⟨kv.1, by simp [srcSquashQuso, hκ, pure, Except.pure], hL kv hkv⟩

/-! ## T4.5 — relabelling and the `to_*` methods -/

/-- **T4.5 (relabelling loop).** `QUBO.to_qubo`, `QUSO.to_quso` (`srt = false`) and `PUSO._to_puso`
(`srt = true`): the value of the relabelled model at an assignment `s` of the integers is the value of
the source at the labels' images, `l ↦ s (mapping[l])`.  `Fam spin s` is `IsSpin s` / `IsBool s`. -/
theorem relabel_value (κ : Kind) (m : Mapping) (srt : Bool) (M R : Poly) (s : Var → Rat)
    (hs : Fam κ.isSpin s) (h : relabel (squash κ) m srt [] M = .ok R) :
    eval s R = eval (fun l => s (mapFn m l)) M := by
  have := eval_relabel (sqOK_fam hs rfl) h
  simp only [eval_nil, zero_add] at this
  exact this

/-- **T4.5 (all `to_*` methods of the six labelled types, no reduction needed).**  The value of
`M.to_<t>(deg)` at an assignment `s` of the target's family equals the value of `M` at the assignment
`pull … s` of `M`'s labels: `l ↦ s (mapping[l])`, composed with `x = (1 - z)/2` resp. `z = 1 - 2x` when
source and target families differ.  `toMethod` is the code with the reduction loop never entered;
`toMethodIsNoop` (no mapped key longer than `deg`) says when that is the whole code — it is the scope of the
statement ("when no degree reduction is required"), not needed by the proof. -/
theorem to_method_value (κ : Kind) (t : Target) (m : Mapping) (deg : Option Int) (M R : Poly) (s : Var → Rat)
    (_hnoop : toMethodIsNoop κ t m deg M = true)
    (hs : Fam t.isSpin s) (h : toMethod κ t m deg M = .ok R) :
    eval s R = eval (pull κ.isSpin t.isSpin m s) M :=
  eval_toMethod hs h

/-- `to_enumerated` keeps the family: `⟦to_enumerated M⟧ s = ⟦M⟧ (s ∘ mapping)`. -/
theorem to_enumerated_value (κ : Kind) (m : Mapping) (M R : Poly) (s : Var → Rat)
    (hs : Fam κ.isSpin s) (h : toEnumerated κ m M = .ok R) :
    eval s R = eval (fun l => s (mapFn m l)) M := by
  unfold toEnumerated at h
  cases κ <;> simp only [enumTarget] at h <;>
    first
    | cases h
    | exact eval_toMethod (t := .qubo) hs h
    | exact eval_toMethod (t := .quso) hs h
    | exact eval_toMethod (t := .pubo) hs h
    | exact eval_toMethod (t := .puso) hs h

/-- **T4.5 (every corresponding assignment).**  If `x` is any assignment of `M`'s labels and `s` agrees
with it through the mapping on the labels that occur in `M` (such an `s` exists exactly when the mapping
is injective on them), then target at `s` = source at `x`. -/
theorem to_method_value_at (κ : Kind) (t : Target) (m : Mapping) (deg : Option Int) (M R : Poly)
    (s x : Var → Rat) (_hnoop : toMethodIsNoop κ t m deg M = true)
    (hs : Fam t.isSpin s) (h : toMethod κ t m deg M = .ok R)
    (hx : ∀ kv ∈ M, ∀ l ∈ kv.1, pull κ.isSpin t.isSpin m s l = x l) :
    eval s R = eval x M := by
  rw [eval_toMethod hs h]; exact eval_congr_keys hx

/-! ## T4.6 — `convert_solution` -/

/-- `is_solution_spin` decides the form correctly under the documented contract: values all boolean or
all spin, and the `spin` flag tells the truth whenever the values are all `1`. -/
theorem is_solution_spin_contract (vals : List Rat) (flag : Bool) :
    (SolBool vals → ((0 : Rat) ∈ vals ∨ flag = false) → isSolutionSpin vals flag = false) ∧
    (SolSpin vals → ((-1 : Rat) ∈ vals ∨ flag = true) → isSolutionSpin vals flag = true) := by
  constructor
  · intro h hc
    rw [isSolutionSpin_bool h]
    rcases hc with hc | hc
    · simp [hc]
    · simp [hc]
  · intro h hc
    rw [isSolutionSpin_spin h]
    rcases hc with hc | hc
    · simp [hc]
    · simp [hc]

/-- **T4.6 (entries).**  If `M.convert_solution(s, flag)` returns `a`, then for every integer `i < n`
whose label `l = reverse_mapping[i]` belongs to no other integer below `n`, `a[l]` is `s[i]` in the model's
own form (`ownOf`: unchanged, `1 - 2v`, or `(1 - v)/2`, according to the model's family and to what
`is_solution_spin` decided). -/
theorem convert_solution_entry (spinModel : Bool) (rev : Mapping) (n : Nat) (s : Sol) (isDict flag : Bool)
    (a : Assign) (hc : convertSolution spinModel rev n s isDict flag = .ok a)
    (i : Nat) (hi : i < n) (l : Var) (hl : mapGet rev i = .ok l)
    (hu : ∀ j, j < n → mapGet rev j = .ok l → j = i) :
    ∃ v, solGet s isDict i = .ok v ∧
      aget a l = some (ownOf spinModel (isSolutionSpin (s.map Prod.snd) flag) v) :=
  convertSolution_lookup hc hi hl hu

/-- **T4.6 (domain).**  The dict returned by `convert_solution` has exactly the keys
`reverse_mapping[0], …, reverse_mapping[n-1]` (`n = num_binary_variables`): a label `l` is a key iff it is
`reverse_mapping[i]` for some `i < n`.  No hypothesis on the bookkeeping. -/
theorem convert_solution_domain (spinModel : Bool) (rev : Mapping) (n : Nat) (s : Sol) (isDict flag : Bool)
    (a : Assign) (hc : convertSolution spinModel rev n s isDict flag = .ok a) (l : Var) :
    (aget a l).isSome = true ↔ ∃ i, i < n ∧ mapGet rev i = .ok l :=
  convertSolution_dom hc l

/-- **T4.6 (value).**  `M.value(M.convert_solution(s))` equals the enumerated model's value at `s` read in
the model's own form, whenever `mapping` / `reverse_mapping` are inverse to each other on the labels of `M`
with images below `n = num_binary_variables` (the bookkeeping invariant of a refreshed model, property
C14) and `s` in own form is an assignment of the model's family. -/
theorem convert_solution_value (κ : Kind) (m rev : Mapping) (n : Nat) (M E : Poly) (s : Sol)
    (isDict flag : Bool) (a : Assign)
    (hE : toEnumerated κ m M = .ok E)
    (hc : convertSolution κ.isSpin rev n s isDict flag = .ok a)
    (hinv : ∀ kv ∈ M, ∀ l ∈ kv.1, mapFn m l < n ∧ mapGet rev (mapFn m l) = .ok l)
    (hinj : ∀ i j l, i < n → j < n → mapGet rev i = .ok l → mapGet rev j = .ok l → i = j)
    (hfam : Fam κ.isSpin (ownSol κ.isSpin (isSolutionSpin (s.map Prod.snd) flag) s isDict)) :
    eval a.fn M = eval (ownSol κ.isSpin (isSolutionSpin (s.map Prod.snd) flag) s isDict) E := by
  rw [to_enumerated_value κ m M E _ hfam hE]
  apply eval_congr_keys
  intro kv hkv l hl
  obtain ⟨hlt, hrev⟩ := hinv kv hkv l hl
  obtain ⟨v, hv, ha⟩ := convertSolution_lookup hc hlt hrev (fun j hj e => hinj j _ l hj hlt e hrev)
  simp [Assign.fn, ha, ownSol, hv]

/-! ## T4.7 — exports -/

/-- **T4.7 (`Q`).**  For a model stored canonically (distinct keys, at most two distinct labels per key —
C05 `tree_canonical`), `Σ_{(i,j)} Q[i,j] x_i x_j = ⟦M⟧x - offset` at every boolean `x`, where
`offset = M[()]`. -/
theorem export_Q_value (M : Poly) (x : Var → Rat) (hx : IsBool x) (hnd : (keys M).Nodup)
    (hk : ∀ k ∈ keys M, k.length ≤ 2 ∧ k.Nodup) :
    eval x (exportQ [] M) = eval x M - get M [] := by
  have := eval_exportQ_aux hx M [] hnd hk (fun _ _ _ => rfl)
  rw [constSum_eq_get hnd] at this
  simp only [eval_nil, zero_add] at this
  linarith

/-- **T4.7 (`h`, `J`).**  `Σ h_i z_i + Σ J_ij z_i z_j = ⟦L⟧z - offset` at *every* assignment `z`. -/
theorem export_hJ_value (L : Poly) (z : Var → Rat) (hnd : (keys L).Nodup)
    (hk : ∀ kv ∈ L, kv.1.length ≤ 2) :
    evalLin z (exportH L) + eval z (exportJ L) = eval z L - get L [] := by
  have := eval_hJ_aux z L hk
  rw [constSum_eq_get hnd] at this
  linarith

/-- **T4.7 (`matrix_to_qubo`).**  `⟦matrix_to_qubo(A)⟧x = xᵀAx` at every boolean `x` … -/
theorem matrix_to_qubo_value (A : List (List Rat)) (Q : Poly) (x : Var → Rat) (hx : IsBool x)
    (h : matrixToQubo A = .ok Q) : eval x Q = quadForm x A 0 := by
  unfold matrixToQubo at h
  split at h
  · cases h
  · have := eval_m2qRows (sqOK_bool (κ := .qubom) rfl hx) h
    simpa using this

/-- … and it returns exactly on non-empty square inputs (`ValueError` otherwise). -/
theorem matrix_to_qubo_ok_iff (A : List (List Rat)) :
    (∃ Q, matrixToQubo A = .ok Q) ↔ (A ≠ [] ∧ ∀ row ∈ A, row.length = A.length) := by
  unfold matrixToQubo
  constructor
  · rintro ⟨Q, h⟩
    split at h
    · cases h
    · rename_i hc
      simp only [Bool.or_eq_true, List.isEmpty_iff, List.any_eq_true, bne_iff_ne, not_or, not_exists, not_and,
        Decidable.not_not] at hc
      exact ⟨hc.1, hc.2⟩
  · rintro ⟨h1, h2⟩
    have hc : ¬ ((A.isEmpty || A.any fun row => row.length != A.length) = true) := by
      simp only [Bool.or_eq_true, List.isEmpty_iff, List.any_eq_true, bne_iff_ne, not_or, not_exists, not_and,
        Decidable.not_not]
      exact ⟨h1, h2⟩
    simp only [hc, if_false]
    exact m2qRows_total (sqShort_squash _) A [] 0

theorem matrix_to_qubo_error (A : List (List Rat)) (e : Err) (h : matrixToQubo A = .error e) : e = .value := by
  unfold matrixToQubo at h
  split at h
  · injection h with h; exact h.symm
  · obtain ⟨Q, hQ⟩ := m2qRows_total (sqShort_squash .qubom) A [] 0
    rw [hQ] at h; cases h

/-- **T4.7 (`qubo_to_matrix`).**  Whenever `qubo_to_matrix(Q, symmetric)` returns a matrix `A` (for a dict
or a `QUBOMatrix`, symmetric or upper-triangular form), `xᵀAx = ⟦Q⟧x` at every boolean `x` — for the raw
input `Q` (unsorted keys, repeated labels, cancelling terms, stale `_variables` included). -/
theorem qubo_to_matrix_value (Q : Poly) (isObj symmetric : Bool) (A : List (List Rat)) (x : Var → Rat)
    (hx : IsBool x) (h : quboToMatrix Q isObj symmetric = .ok A) : quadForm x A 0 = eval x Q :=
  eval_quboToMatrix hx h

/-- `qubo_to_matrix` raises `ValueError` on an empty dict -/
theorem qubo_to_matrix_empty (symmetric : Bool) : quboToMatrix [] false symmetric = .error .value := rfl

/-! ## T4.8 — result types -/

/-- the inputs a boolean-side function (`pubo_to_puso`, `qubo_to_quso`) is applied to: plain dicts and
the five boolean types; `SpinSource` likewise for `puso_to_pubo`, `quso_to_qubo` -/
def BoolSource (κ : Kind) : Prop := κ.isSpin = false
def SpinSource (κ : Kind) : Prop := κ = .dict ∨ κ.isSpin = true

/-- **T4.8 (result types).**  "Matrix type in gives Matrix type out, anything else gives the labelled
type", for all four free functions and every source type of their family (plain dict, the three labelled
types, the two Matrix types — together all ten model types). -/
theorem free_function_result_kind (κ : Kind) :
    (BoolSource κ → kindPuboToPuso κ = if κ.isMatrix then .pusom else .puso) ∧
    (SpinSource κ → kindPusoToPubo κ = if κ.isMatrix then .pubom else .pubo) ∧
    (BoolSource κ → kindQuboToQuso κ = if κ.isMatrix then .qusom else .quso) ∧
    (SpinSource κ → kindQusoToQubo κ = if κ.isMatrix then .qubom else .qubo) := by
  cases κ <;> simp [BoolSource, SpinSource, Kind.isSpin, Kind.isMatrix, kindPuboToPuso, kindPusoToPubo,
    kindQuboToQuso, kindQusoToQubo]

/-- the `to_*` methods exist exactly on the six labelled types -/
theorem to_method_defined (κ : Kind) (t : Target) (m : Mapping) (deg : Option Int) (M : Poly) :
    (κ = .dict ∨ κ.isMatrix = true) → toMethod κ t m deg M = .error .attr := by
  intro h
  cases κ <;> simp [Kind.isMatrix] at h <;> rfl

/-! ## Non-vacuity -/

/-- `pubo_to_puso({(1, 0, 1): 2, (2,): -1})` on a raw dict with a repeated label -/
example : (puboToPuso .dict [([1, 0, 1], 2), ([2], -1)]).toOption =
    some [([0], -1/2), ([0, 1], 1/2), ([1], -1/2), ([2], 1/2)] := by decide +kernel

example : IsSpin (fun i => if i = 0 then -1 else 1) := by
  intro i; by_cases h : i = 0 <;> simp [h]

example : IsBool (fun i => if i = 0 then 1 else 0) := by
  intro i; by_cases h : i = 0 <;> simp [h]

/-- a spin dict of degree 3 with a repeated label converts -/
example : (pusoToPubo .pusom [([0, 1, 2], 1), ([1, 1], 3)]).toOption.isSome = true := by decide +kernel

/-- `qubo_to_quso` succeeds on a raw dict whose keys squash to two labels, and raises KeyError on three -/
example : (quboToQuso .dict [([1, 0, 1], 2), ([], 1)]).toOption.isSome = true := by decide +kernel
example : (quboToQuso .dict [([0, 1, 2], 2)]).toOption.isSome = false := by decide +kernel
example : (qusoToQubo .puso [([0, 1, 2], 2)]).toOption.isSome = false := by decide +kernel
example : (qusoToQubo .qusom [([0, 1], 2), ([1], -1)]).toOption.isSome = true := by decide +kernel

/-- `PUSO({('b','a','c'): 1/2, ('a',): 2}).to_pubo()` with labels `a,b,c = 0,1,2` mapped to `1,0,2` -/
example : (toMethod .puso .pubo [(1, 0), (0, 1), (2, 2)] none [([0, 1, 2], 1/2), ([0], 2)]).toOption.isSome
    = true := by decide +kernel

/-- `QUBO.to_puso()` through both conversions and the relabelling -/
example : (toMethod .qubo .puso [(5, 0), (3, 1)] none [([3, 5], 1), ([5], -2)]).toOption.isSome = true := by
  decide +kernel
/-- the scope hypothesis holds for `PUBO.to_pubo(deg=3)` of a cubic and fails for `deg=2` -/
example : toMethodIsNoop .pubo .pubo [(0, 0), (1, 1), (2, 2)] (some 3) [([0, 1, 2], 1)] = true ∧
    toMethodIsNoop .pubo .pubo [(0, 0), (1, 1), (2, 2)] (some 2) [([0, 1, 2], 1)] = false := by decide +kernel

example : (toEnumerated .pcso [(4, 0), (7, 1)] [([4, 7], 1)]).toOption = some [([0, 1], 1)] := by decide +kernel

/-- `QUBOMatrix({(0,): 1, (0, 1): 2, (): 3}).Q` -/
example : exportQ [] [([0], 1), ([0, 1], 2), ([], 3)] = [([0, 0], 1), ([0, 1], 2)] := by decide +kernel
example : exportH [([0], 1), ([0, 1], 2), ([], 3)] = [(0, 1)] ∧ exportJ [([0], 1), ([0, 1], 2), ([], 3)] = [([0, 1], 2)] := by
  decide +kernel
example : (matrixToQubo [[1, 2], [3, 4]]).toOption = some [([0], 1), ([0, 1], 5), ([1], 4)] := by decide +kernel
example : (matrixToQubo [[1, 2], [3]]).toOption.isSome = false := by decide +kernel
/-- `qubo_to_matrix({(1, 0): 3, (1, 1): 2}, symmetric=True)`; a constant term is a `ValueError` -/
example : (quboToMatrix [([1, 0], 3), ([1, 1], 2)] false true).toOption = some [[0, 3/2], [3/2, 2]] := by
  decide +kernel
example : (quboToMatrix [([1, 0], 3), ([], 2)] false false).toOption.isSome = false := by decide +kernel

/-- `QUSO({('a','b'): 1}).convert_solution([0, 1])` with `a, b = 5, 7`: boolean input to a spin model -/
example : (convertSolution true [(0, 5), (1, 7)] 2 [(0, 0), (1, 1)] false true).toOption = some [(5, 1), (7, -1)] := by
  decide +kernel
/-- all ones, flag says boolean: converted; a mixed solution raises -/
example : (convertSolution true [(0, 5), (1, 7)] 2 [(0, 1), (1, 1)] true false).toOption = some [(5, -1), (7, -1)] := by
  decide +kernel
example : (convertSolution false [(0, 5), (1, 7)] 2 [(0, -1), (1, 0)] false false).toOption.isSome = false := by
  decide +kernel

end Qv.C04
