import Qv.Model.ResultsX
/-!
# Qv.Gen.PreludeResults — the reading of the Python primitives used by `qubovert/sim/_anneal_results.py`

Hand-written and **trusted** (DESIGN.md §7).  Explicit state: an `AnnealResult` is the record `ArRes`
`(state, value, spin)`; an `AnnealResults` object is the record `ArObj` `(items, best)` — the inherited `list`
part and the `best` attribute.  A method body is a function of the receiver that returns `ArOut α`: what the call
returns or raises **and the receiver after the call** (a mutation made before an exception stays).  Every
primitive below is the literal reading of one Python primitive; none of them touches `best` except the attribute
write, and none compares values except `arLt` / `arLe`.  Values are `Num` (a rational or `±inf`; `nan`, and
numbers that are not comparable, are not modelled).  Aliasing is not modelled: an operand is a value, never the
receiver itself.  Core Lean only.
-/
namespace Qv.Gen
open Qv

abbrev ArNum := ResX.Num
abbrev ArRes := ResX.Result
abbrev ArObj := ResX.Coll
abbrev ArSlice := Res.Slice

/-- what `return self` returns (distinct from `None`, which is `Unit`) -/
inductive ArSelf
  | self
  deriving DecidableEq, Repr

/-- result of a method call: returned value or exception, and the receiver after the call -/
abbrev ArOut (α : Type) := Except Err α × ArObj

/-- `return v` -/
def arRet {α : Type} (self : ArObj) (v : α) : ArOut α := (.ok v, self)

/-- evaluate an expression that may raise and does not change the receiver; an exception ends the method -/
def arEval {τ α : Type} (self : ArObj) (e : Except Err τ) (k : τ → ArOut α) : ArOut α :=
  match e with
  | .ok v => k v
  | .error err => (.error err, self)

/-- a call that may change the receiver, then the rest of the body on the changed receiver; an exception ends the
method with the receiver as the call left it -/
def arSeq {τ α : Type} (c : ArOut τ) (k : τ → ArObj → ArOut α) : ArOut α :=
  match c with
  | (.ok v, s) => k v s
  | (.error err, s) => (.error err, s)

/-- `for x in l: body` where the body changes only the receiver -/
def arForM {τ : Type} (l : List τ) (self : ArObj) (body : ArObj → τ → ArOut Unit) : ArOut Unit :=
  match l with
  | [] => (.ok (), self)
  | x :: r => arSeq (body self x) (fun _ s => arForM r s body)

/-- `for x in l: body` in a function: the body rebinds the locals `acc` -/
def arForE {τ σ : Type} (l : List τ) (acc : σ) (body : σ → τ → Except Err σ) : Except Err σ :=
  match l with
  | [] => .ok acc
  | x :: r => body acc x >>= fun a => arForE r a body

/-- `a or b` where evaluating `b` may raise: `b` is evaluated only when `a` is false -/
def arOrE (a : Bool) (b : Unit → Except Err Bool) : Except Err Bool := if a then .ok true else b ()

/-- `a and b` where evaluating `b` may raise: `b` is evaluated only when `a` is true -/
def arAndE (a : Bool) (b : Unit → Except Err Bool) : Except Err Bool := if a then b () else .ok false

/-- `x.attr` where `x` may be `None`: `AttributeError` on `None` -/
def arAttr {α β : Type} (x : Option α) (f : α → β) : Except Err β :=
  match x with
  | none => .error .attr
  | some a => .ok (f a)

/-- `a < b` on numbers -/
def arLt (a b : ArNum) : Bool := ResX.Num.lt a b
/-- `a <= b` on numbers -/
def arLe (a b : ArNum) : Bool := ResX.Num.le a b
/-- `float('inf')` -/
def arInf : ArNum := .pinf
/-- `float('-inf')` -/
def arNegInf : ArNum := .ninf

/-- `a OP b` where `a` may be `None` and is otherwise an object whose class defines the operator as `f`:
`None < x` is a `TypeError` (neither side implements it) -/
def arOptOp {α β : Type} (a : Option α) (f : α → Except Err β) : Except Err β :=
  match a with
  | none => .error .type
  | some x => f x

/-- `all(t)` on a tuple of booleans -/
def arAll (l : List Bool) : Bool := l.all id

/-- `d.copy()` on a dict: an equal dict -/
def arDictCopy (d : Res.PState) : Res.PState := d

/-- `spin_to_boolean(d)` (`qubovert.utils`): `{k: {-1: 1, 1: 0}[v]}`, `KeyError` on another value -/
def arSpinToBoolean (d : Res.PState) : Except Err Res.PState := Res.spinToBool d
/-- `boolean_to_spin(d)` (`qubovert.utils`): `{k: {0: 1, 1: -1}[v]}`, `KeyError` on another value -/
def arBooleanToSpin (d : Res.PState) : Except Err Res.PState := Res.boolToSpin d

/-- a fresh object before `__init__` runs (an empty list; the attribute `best` not yet set reads as `None`) -/
def arNew : ArObj := ⟨[], none⟩

/-- `Cls(args)`: run `__init__` on a fresh object; the value is that object -/
def arConstruct (init : ArObj → ArOut Unit) : Except Err ArObj :=
  match init arNew with
  | (.ok _, o) => .ok o
  | (.error e, _) => .error e

/-- `self.best = v` -/
def arSetBest (self : ArObj) (v : Option ArRes) : ArObj := { self with best := v }

/-! ### `super()` = `list` -/

/-- `super().__init__()` -/
def arSuperInit (self : ArObj) : ArOut Unit := (.ok (), { self with items := [] })
/-- `super().append(x)` -/
def arSuperAppend (self : ArObj) (x : ArRes) : ArOut Unit := (.ok (), { self with items := self.items ++ [x] })
/-- `super().insert(i, x)`: the index is clamped (`Res.insertPos`) -/
def arSuperInsert (self : ArObj) (i : Int) (x : ArRes) : ArOut Unit :=
  let k := Res.insertPos self.items.length i
  (.ok (), { self with items := self.items.take k ++ x :: self.items.drop k })
/-- `super().remove(x)`: the first element equal to `x` goes; `ValueError` when there is none -/
def arSuperRemove (self : ArObj) (x : ArRes) : ArOut Unit :=
  if x ∈ self.items then (.ok (), { self with items := self.items.erase x }) else (.error .value, self)
/-- `super().pop(i)`: `IndexError` out of range (`Res.normIndex`: negative from the end) -/
def arSuperPop (self : ArObj) (i : Int) : ArOut ArRes :=
  match Res.normIndex self.items.length i with
  | none => (.error .index, self)
  | some k =>
    match self.items[k]? with
    | none => (.error .index, self)
    | some x => (.ok x, { self with items := self.items.take k ++ self.items.drop (k + 1) })
/-- `super().clear()` -/
def arSuperClear (self : ArObj) : ArOut Unit := (.ok (), { self with items := [] })
/-- `super().extend(l)` -/
def arSuperExtend (self : ArObj) (l : List ArRes) : ArOut Unit := (.ok (), { self with items := self.items ++ l })
/-- `super().__iadd__(l)`: extends and returns the receiver -/
def arSuperIAdd (self : ArObj) (l : List ArRes) : ArOut ArSelf := (.ok .self, { self with items := self.items ++ l })
/-- `super().__setitem__(i, x)`, `i` an int -/
def arSuperSetItemInt (self : ArObj) (i : Int) (x : ArRes) : ArOut Unit :=
  match Res.normIndex self.items.length i with
  | none => (.error .index, self)
  | some k => (.ok (), { self with items := self.items.take k ++ x :: self.items.drop (k + 1) })
/-- `super().__delitem__(i)`, `i` an int -/
def arSuperDelItemInt (self : ArObj) (i : Int) : ArOut Unit :=
  match Res.normIndex self.items.length i with
  | none => (.error .index, self)
  | some k => (.ok (), { self with items := self.items.take k ++ self.items.drop (k + 1) })
/-- `super().__setitem__(sl, v)`, `sl` a slice (`ResX.listSetSlice`: contiguous replace, or extended slice with
`ValueError` on a length mismatch / zero step) -/
def arSuperSetItemSlice (self : ArObj) (sl : ArSlice) (v : List ArRes) : ArOut Unit :=
  match ResX.listSetSlice self.items sl v with
  | .ok l => (.ok (), { self with items := l })
  | .error e => (.error e, self)
/-- `super().__delitem__(sl)`, `sl` a slice -/
def arSuperDelItemSlice (self : ArObj) (sl : ArSlice) : ArOut Unit :=
  match ResX.listDelSlice self.items sl with
  | .ok l => (.ok (), { self with items := l })
  | .error e => (.error e, self)
/-- `super().__getitem__(i)`, `i` an int -/
def arSuperGetItemInt (self : ArObj) (i : Int) : Except Err ArRes :=
  match Res.normIndex self.items.length i with
  | none => .error .index
  | some k => match self.items[k]? with
    | none => .error .index
    | some x => .ok x
/-- `super().__getitem__(sl)`, `sl` a slice: a plain list -/
def arSuperGetItemSlice (self : ArObj) (sl : ArSlice) : Except Err (List ArRes) := ResX.listGetSlice self.items sl
/-- `super().__add__(l)`: a plain list -/
def arSuperAdd (self : ArObj) (l : List ArRes) : List ArRes := self.items ++ l
/-- `super().__mul__(n)` / `super().__rmul__(n)`: a plain list, empty for `n <= 0` -/
def arSuperMul (self : ArObj) (n : Int) : List ArRes := ResX.mulList self.items n

/-- `filter(f, l)` -/
def arFilter {α : Type} (f : α → Bool) (l : List α) : List α := l.filter f
/-- `(f(x) for x in l)` consumed by a constructor, `f` may raise: the first exception ends the construction -/
def arMapE {α β : Type} (f : α → Except Err β) (l : List α) : Except Err (List β) := ResX.mapE f l

end Qv.Gen
