import Qv.Model.Basic
import Qv.Gen.Prelude
/-!
# Qv.Gen.PreludeM — meaning of the Python list primitives and of statements that may raise

Hand-written and **trusted** (DESIGN.md §7), like `Qv/Gen/Prelude.lean`.  Used by the functions the
translator renders in *monadic* mode (registry `monadic=True`): every operation that can raise is an
`Except Err _` action, sequenced with `>>=` in Python's evaluation order (left operand, right operand,
operator; arguments left to right; the statement after).  Core Lean only (no Mathlib).
-/
namespace Qv.Gen

/-- Python's reading of an index / slice bound `i` on a sequence of length `len`, clamped to `[0, len]` -/
def pyClamp (len : Nat) (i : Int) : Nat :=
  if i < 0 then ((len : Int) + i).toNat else min i.toNat len

/-- `l[lo:hi]` (`none` = bound omitted); never raises -/
def pySlice {α : Type} (l : List α) (lo hi : Option Int) : List α :=
  let a := match lo with | none => 0 | some i => pyClamp l.length i
  let b := match hi with | none => l.length | some i => pyClamp l.length i
  (l.take b).drop a

/-- `l[i]` for a literal `i` (negative: from the end); `IndexError` when out of range -/
def pyIndex {α : Type} (l : List α) (i : Int) : Except Err α :=
  let j : Int := if i < 0 then (l.length : Int) + i else i
  if j < 0 then .error .index else
  match l[j.toNat]? with
  | some a => .ok a
  | none => .error .index

/-- `l * n` for a list `l` and an int `n`: `n` copies of `l` concatenated (none for `n ≤ 0`) -/
def pyRepeat {α : Type} (l : List α) (n : Int) : List α := (List.replicate n.toNat l).flatten

/-- the length check of a starred unpacking `*head, a₁, …, a_k = l`: `ValueError` when `len(l) < k` -/
def pyUnpackAtLeast {α : Type} (l : List α) (k : Nat) : Except Err Unit :=
  if l.length < k then .error .value else .ok ()

/-- `for a in l: body` where `body` may raise and does not `return`: the locals after the loop, or the
first exception -/
def pyForM {α σ : Type} (l : List α) (s : σ) (body : σ → α → Except Err σ) : Except Err σ :=
  match l with
  | [] => .ok s
  | a :: r => body s a >>= fun s' => pyForM r s' body

/-- `range(n)`: the ints `0, …, n-1` (none for `n ≤ 0`); they are non-negative, so they are kept as `Nat` -/
def pyRangeNat (n : Int) : List Nat := List.range n.toNat

theorem pySlice_to_neg_one {α : Type} (l : List α) : pySlice l none (some (-1)) = l.dropLast := by
  have h : pyClamp l.length (-1) = l.length - 1 := by
    unfold pyClamp
    rw [if_pos (by decide)]
    omega
  simp only [pySlice, h, List.drop_zero, List.dropLast_eq_take]

/-- `l[:-1]` of a non-empty list is shorter (used by the termination proofs of generated recursive functions) -/
theorem pySlice_to_neg_one_length_lt {α : Type} (l : List α) (h : ¬ l = []) :
    (pySlice l none (some (-1))).length < l.length := by
  rw [pySlice_to_neg_one, List.length_dropLast]
  cases l with
  | nil => exact absurd rfl h
  | cons a r => simp

theorem pySlice_from_one {α : Type} (l : List α) : pySlice l (some 1) none = l.drop 1 := by
  have h : pyClamp l.length 1 = min 1 l.length := by
    unfold pyClamp
    rw [if_neg (by decide)]
    rfl
  simp only [pySlice, h, List.take_length]
  cases l with
  | nil => rfl
  | cons a r => simp

/-- `l[1:]` of a non-empty sequence is shorter -/
theorem pySlice_from_one_length_lt {α : Type} (l : List α) (h : ¬ l = []) :
    (pySlice l (some 1) none).length < l.length := by
  rw [pySlice_from_one]
  cases l with
  | nil => exact absurd rfl h
  | cons a r => simp

/-- discharges the termination goals of generated recursive functions: the recursive call is on `v[:-1]` or
`v[1:]` of a sequence known to be non-empty from an enclosing `if not v:` test -/
macro "py_nonempty" : tactic =>
  `(tactic| first
    | assumption
    | (intro h0; simp_all; done)
    | (intro h0; subst h0; simp_all; done)
    | (intro h0; subst h0; simp_all (config := { zetaDelta := true }); done))

macro "py_decreasing" : tactic =>
  `(tactic| first
    | (simp_wf; exact pySlice_to_neg_one_length_lt _ (by py_nonempty))
    | (exact pySlice_to_neg_one_length_lt _ (by py_nonempty))
    | (simp_wf; exact pySlice_from_one_length_lt _ (by py_nonempty))
    | (exact pySlice_from_one_length_lt _ (by py_nonempty))
    | (simp_wf; omega)
    | omega)

end Qv.Gen
