import Qv.Model.TempRange
import Qv.Model.SimplifyItems
import Qv.Gen.PreludeUtil
import Qv.Gen.PreludeStore
/-!
# Qv.Gen.PreludeUtil2 — Python primitives of the second utility tie (`harness/tie_ext/util2.py`)

Hand-written and **trusted** (DESIGN.md §7).  Every definition is the literal reading of ONE Python primitive; the logic
under verification comes out of the generated text in `Qv/Gen/Source{TempRange,Simplify,PcsoGlue,ConsLoops}.lean`.
Core Lean only (no Mathlib).  Every name carries the tag `U2`.
-/
namespace Qv.Gen
open Qv

/-! ## `anneal_temperature_range` (`qubovert/sim/_anneal_temperature_range.py`): `math.log` and the floats made with it

Floating point is outside the exact model (DESIGN.md §3.2).  `math.log(p)` is kept *symbolically* (its argument), and the
only float arithmetic the function performs with it, `a / log(p)`, is kept as that quotient's numerator and the
argument of the logarithm.  The exceptions of the two operations are modelled. -/

/-- the value of `math.log(p)`, recorded by its argument -/
structure PyLogU2 where
  arg : Rat
  deriving DecidableEq, Repr

/-- `math.log(p)`: `ValueError` (math domain error) for `p ≤ 0` -/
def pyLogU2 (p : Rat) : Except Err PyLogU2 := if p ≤ 0 then .error .value else .ok ⟨p⟩

/-- a temperature as the function returns it: the literal `0` / `0.`, or the float `a / log(p)` -/
inductive PyTempU2 where
  | lit0
  | divLog (a p : Rat)
  deriving DecidableEq, Repr

/-- `a / l` for `l = math.log(p)`: `ZeroDivisionError` when `log(p) = 0`, i.e. `p = 1` -/
def pyDivLogU2 (a : Rat) (l : PyLogU2) : Except Err PyTempU2 :=
  if l.arg = 1 then .error .zerodiv else .ok (.divLog a l.arg)

/-- `x in k` for a tuple of labels `k` -/
def pyKeyInU2 (k : Key) (x : Var) : Bool := k.contains x

/-! ## `DictArithmetic.simplify` (`qubovert/utils/_dict_arithmetic.py`): coefficients that are numbers or sympy expressions
(`Qv.Sym.PyCoef`, as in `PreludeUtil`), sympy's `simplify` as one opaque function on expressions -/

/-- `v.simplify()` on a coefficient: a Python number has no attribute `simplify` (`AttributeError`); on a sympy expression
it is sympy's simplification (opaque: `simp`) -/
def pySimplifyU2 {R : Type} (simp : R → R) : Sym.PyCoef R → Except Err R
  | .num _ => .error .attr
  | .sym e => .ok (simp e)

/-- `e * c` for a sympy expression `e` and a float literal `c` (floats are exact rationals in the model) -/
def pyExprMulU2 {R : Type} [Sym.Coef R] (e : R) (c : Rat) : R := Sym.Coef.mul e (Sym.Coef.ofRat c)

/-- `x * c` for a coefficient `x` (number or expression) and a float literal `c` -/
def pyCoefMulU2 {R : Type} [Sym.Coef R] : Sym.PyCoef R → Rat → Sym.PyCoef R
  | .num r, c => .num (r * c)
  | .sym e, c => .sym (pyExprMulU2 e c)

/-- `d[k]` on a `DictArithmetic` for an already squashed key `k` (`__getitem__`: `self.get(k, 0)`) -/
def pyCoefGetItemU2 {R : Type} (d : Sym.CoefItems R) (k : Key) : Sym.PyCoef R :=
  match d with
  | [] => .num 0
  | (k', v) :: r => if k' = k then v else pyCoefGetItemU2 r k

/-! ## `PCBO._pop_constraint` (`qubovert/_pcbo.py`): `self._constraints` — a dict from relation names to lists of recorded
PUBOs — is the model's ONE list of (relation, PUBO) pairs in append order (as in `PreludeReduce.pyConsGet`); the list stored
under a key is the sublist of the entries of that relation.  A key with an empty list does not exist in this reading: the
translator accepts `self._constraints[key]` only inside `if self._constraints.get(key, []):` with the same key, where the
key is present, and `self._constraints.pop(key)` only where that list has just been tested empty or not. -/

/-- `self._constraints.get(key, [])`, and `self._constraints[key]` for a present key: the PUBOs recorded under the relation -/
def pyConsRelU2 (c : List (Qv.Rel × Poly)) (r : Qv.Rel) : List Poly :=
  c.filterMap (fun e => if e.1 = r then some e.2 else none)

/-- the list without its first entry of relation `r` -/
def pyEraseFirstRelU2 (r : Qv.Rel) : List (Qv.Rel × Poly) → List (Qv.Rel × Poly)
  | [] => []
  | e :: t => if e.1 = r then t else e :: pyEraseFirstRelU2 r t

/-- `self._constraints[key].pop()` as a statement, for a non-empty list: the last element of the list under `key`, i.e. the
last recorded entry of that relation, is removed -/
def pyConsPopLastU2 (c : List (Qv.Rel × Poly)) (r : Qv.Rel) : List (Qv.Rel × Poly) :=
  (pyEraseFirstRelU2 r c.reverse).reverse

/-- `self._constraints.pop(key)` as a statement: the key and its whole list are removed -/
def pyConsDelKeyU2 (c : List (Qv.Rel × Poly)) (r : Qv.Rel) : List (Qv.Rel × Poly) :=
  c.filter (fun e => decide (e.1 ≠ r))

end Qv.Gen
