import Qv.Model.Book
import Qv.Gen.PreludeBook
/-!
# Qv.Gen.PreludeBook2 — primitives of the constructor / clear / refresh / copy / mapping layer (C14, C19, C08; tag `bk2`)

Hand-written and **trusted** (DESIGN.md §7); continues `PreludeBook.lean` (same object record `Obj = Qv.Book.State`).
Each definition is the literal reading of ONE Python primitive on that representation.  None of them decides *which*
attributes a constructor resets, *whether* a copy takes over constraints and the ancilla counter, or *in which order*
the `__init__`s of the MRO run — that is in the text generated from the source (`Qv/Gen/SourceBook2.lean`).

Representation added here:
* the argument pack `(*args, **kwargs)` of `__init__` / `set_mapping` / … is ONE value of type `Option δ` (`δ` the type
  of the dict passed): `none` is "no argument", `some d` is "one positional argument `d`".  Keyword arguments, several
  positionals and iterables of pairs are outside the generated definitions (the correspondence exercises them);
* `.dict` as the kind of an *argument* is a plain `dict` or `DictArithmetic` (only its items are read);
* the dict of lists `_constraints = {rel: [P, …]}` is the list of `(rel, P)` pairs in append order (as in `PreludeBook`);
  a key with an empty list and an absent key are the same value.

Core Lean only.
-/
namespace Qv.Gen
open Qv

/-- `cls.__new__(cls)`: a new, empty dict object of class `cls`.  No attribute has been assigned yet (the record's
fields hold their defaults until an `__init__` assigns them; every `__init__` chain of the ten model classes assigns an
attribute before it reads it, which the generated text shows). -/
def pyBk2New (κ : Kind) : Obj := { kind := κ }

/-- `dict(x)`: a new plain dict with the items of `x` (none of its attributes) -/
def pyBk2DictOf (x : Obj) : Obj := { kind := .dict, terms := x.terms }

/-- `d.items()` for the dict types that occur as a single positional argument -/
class PyItemsBk2 (δ : Type) (β : outParam Type) where
  items : δ → List β

/-- a dict / model object: its (key, value) items in dict order -/
instance : PyItemsBk2 Obj (Key × Rat) := ⟨fun o => o.terms⟩
/-- a mapping dict `{label: int}` -/
instance : PyItemsBk2 (List (Var × Nat)) (Var × Nat) := ⟨fun d => d⟩
/-- a reverse mapping dict `{int: label}` -/
instance : PyItemsBk2 (List (Nat × Var)) (Nat × Var) := ⟨fun d => d⟩

/-- `_generate_key_value_pairs(*args, **kwargs)`: the items of `dict(*args, **kwargs)` in dict order — nothing for no
argument, the items of the one positional argument otherwise -/
def pyBk2Pairs {δ β : Type} [PyItemsBk2 δ β] (args : Option δ) : List β :=
  match args with
  | none => []
  | some d => PyItemsBk2.items d

/-- `len(args)` -/
def pyBk2ArgsLen {δ : Type} (args : Option δ) : Nat :=
  match args with
  | none => 0
  | some _ => 1

/-- `args[0]` where `len(args) == 1` has been tested (the translator emits it only where that test dominates) -/
def pyBk2Arg0 {δ : Type} [Inhabited δ] (args : Option δ) : δ := args.getD default

/-- `x.copy()` of a recorded constraint: the same value (aliasing of recorded constraints is C19's heap model) -/
def pyBk2PolyCopy (x : Poly) : Poly := x

/-- `{k: [f(x) for x in v] for k, v in c.items()}` on a constraint dict: `f` applied to every recorded constraint, each
staying under its relation -/
def pyBk2ConsMap (f : Poly → Poly) (c : List (Rel × Poly)) : List (Rel × Poly) := c.map (fun p => (p.1, f p.2))

/-- `c.get(key, [])` / `c[key]` of a constraint dict: the list recorded under `key` (empty when there is none) -/
def pyBk2ConsGet (c : List (Rel × Poly)) (key : Rel) : List Poly := (c.filter (fun p => decide (p.1 = key))).map Prod.snd

/-- removal of the first pair whose relation is `key` -/
def pyBk2EraseFirst (key : Rel) : List (Rel × Poly) → List (Rel × Poly)
  | [] => []
  | p :: r => if p.1 = key then r else p :: pyBk2EraseFirst key r

/-- `c[key].pop()` as a statement: the last constraint recorded under `key` is removed -/
def pyBk2ConsPopLast (c : List (Rel × Poly)) (key : Rel) : List (Rel × Poly) := (pyBk2EraseFirst key c.reverse).reverse

/-- `c.pop(key)` as a statement: the key and its list are removed -/
def pyBk2ConsDropKey (c : List (Rel × Poly)) (key : Rel) : List (Rel × Poly) := c.filter (fun p => !decide (p.1 = key))

/-- `max(a, b)` of two ints -/
def pyBk2MaxNat (a b : Nat) : Nat := if a < b then b else a

end Qv.Gen
