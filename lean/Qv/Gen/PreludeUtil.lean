import Qv.Model.Brute
import Qv.Model.Subst
import Qv.Model.SubsItems
import Qv.Model.Info
import Qv.Gen.PreludeM
import Qv.Gen.PreludeBrute
/-!
# Qv.Gen.PreludeUtil — Python primitives used by the utility functions tied as whole bodies
(`harness/tie_ext/util.py`: `_solve_bruteforce` and its wrappers, …)

Hand-written and **trusted** (DESIGN.md §7).  Every definition is the literal reading of ONE Python primitive
(a builtin, a dict / set method, an attribute read on an explicit state record, `itertools.product`, a
`try … except E`) — the logic under verification comes out of the generated text in `Qv/Gen/Source*.lean`.
Core Lean only (no Mathlib).

Conventions.  A Python `dict` is an insertion-ordered association list.  A Python `set` of labels is kept as a
duplicate-free list in first-insertion order; that listing is *not* the iteration order: iterating a set goes
through an abstract `PySetOrder` (a parameter of every generated function that iterates a set), so a theorem
about such a function holds for every hash order.
-/
namespace Qv.Gen
open Qv

/-! ## generic dicts -/

/-- `d[k] = v` of a builtin dict: update in place (position kept) or append -/
def pyDictPut {κ α : Type} [DecidableEq κ] (d : List (κ × α)) (k : κ) (v : α) : List (κ × α) :=
  match d with
  | [] => [(k, v)]
  | (k', v') :: r => if k' = k then (k, v) :: r else (k', v') :: pyDictPut r k v

/-- `d[k]` of a builtin dict: `KeyError` when absent -/
def pyDictGetItem {κ α : Type} [DecidableEq κ] (d : List (κ × α)) (k : κ) : Except Err α :=
  match d with
  | [] => .error .key
  | (k', v) :: r => if k' = k then .ok v else pyDictGetItem r k

/-- `dict(pairs)`: the pairs are stored one after the other -/
def pyUDictOfPairs {κ α : Type} [DecidableEq κ] (l : List (κ × α)) : List (κ × α) :=
  l.foldl (fun d p => pyDictPut d p.1 p.2) []

/-- `enumerate(l)` counting from `n` -/
def pyEnumFrom {α : Type} : Nat → List α → List (Nat × α)
  | _, [] => []
  | n, a :: r => (n, a) :: pyEnumFrom (n + 1) r

/-- `enumerate(l)` -/
def pyUEnumerate {α : Type} (l : List α) : List (Nat × α) := pyEnumFrom 0 l

/-- `itertools.product(dom, repeat=n)` as a list: tuples in lexicographic order of positions in `dom`, the first
coordinate varies slowest (documented behaviour of `itertools.product`) -/
def pyProduct {α : Type} (dom : List α) : Nat → List (List α)
  | 0 => [[]]
  | n + 1 => dom.flatMap (fun a => (pyProduct dom n).map (fun t => a :: t))

/-! ## sets of labels -/

/-- the iteration order of Python sets: some function that lists the members of a set, each once.  Nothing else is
assumed about it (it depends on hashes and on the history of the set). -/
structure PySetOrder where
  iter : List Var → List Var
  perm : ∀ s, (iter s).Perm s

/-- `s.add(a)` -/
def pyUSetAdd (s : List Var) (a : Var) : List Var := if s.contains a then s else s ++ [a]

/-- `set()` -/
def pySetEmpty : List Var := []

/-- `set(l)` for a tuple / list `l` -/
def pySetOfList (l : List Var) : List Var := l.foldl pyUSetAdd []

/-- `s.update(t)` -/
def pySetUpdate (s t : List Var) : List Var := t.foldl pyUSetAdd s

/-- `len(s)` -/
def pySetLen (s : List Var) : Nat := s.length

/-- `for a in s` / `enumerate(s)` / `list(s)`: the members in the set's iteration order -/
def pySetIter (ord : PySetOrder) (s : List Var) : List Var := ord.iter s

/-! ## `try … except E` -/

/-- `try: body  except E: handler` where both leave their results in the same locals: the locals after the
statement.  An exception other than `E` propagates; so does one raised by the handler. -/
def pyTryExcept {σ : Type} (body : Except Err σ) (exc : Err) (handler : Except Err σ) : Except Err σ :=
  match body with
  | .ok s => .ok s
  | .error e => if e = exc then handler else .error e

/-! ## the object `D` handed to `_solve_bruteforce` (`Qv.Brute.Model`: its type, its items, and — for the `BO`
subclasses — the two attributes the function reads) -/

/-- `not D` / `if D:` on a dict: it has no items -/
def pyModelEmpty (D : Brute.Model) : Bool := D.terms.isEmpty

/-- `k in D` -/
def pyModelHasKey (D : Brute.Model) (k : Key) : Bool := hasKey D.terms k

/-- `D.pop(k)` (no default): the value and the dict without the item; `KeyError` when absent -/
def pyModelPop (D : Brute.Model) (k : Key) : Except Err (Rat × Brute.Model) :=
  if hasKey D.terms k then .ok (get D.terms k, { D with terms := erase D.terms k }) else .error .key

/-- `D[k] = v` for the key `k = ()` (the translator accepts no other key here): `dict.__setitem__` for a plain
dict; for the model types `()` squashes to itself, has no labels to register, and `DictArithmetic.__setitem__`
removes a zero value (`Qv.Brute.store`) -/
def pyModelSetOffset (D : Brute.Model) (v : Rat) : Brute.Model :=
  { D with terms := Brute.store D.kind D.terms [] v }

/-- `D.items()` / what a value function `value(x, D)` reads of `D` -/
def pyModelItems (D : Brute.Model) : Poly := D.terms

/-- `D.num_binary_variables`: defined by the `BO` subclasses.  (`AttributeError` for a plain dict.  The Matrix
types do define it but not `_reverse_mapping`; the model records both as absent for them, which is sound for a
`try` block that reads both and whose handler re-assigns both — the translator checks exactly that.) -/
def pyAttrNumBinaryVariables (D : Brute.Model) : Except Err Nat :=
  match D.book with
  | some b => .ok b.n
  | none => .error .attr

/-- `D._reverse_mapping`: `AttributeError` unless `D` is a `BO` subclass -/
def pyAttrReverseMapping (D : Brute.Model) : Except Err (List (Nat × Var)) :=
  match D.book with
  | some b => .ok b.rm
  | none => .error .attr

/-- `qubovert.utils.pubo_value` / `qubo_value` / `puso_value` / `quso_value` passed as a function and applied to an
assignment *dict*: the model's reading with `KeyError` for a missing label (`Qv.Brute.Fn.valueP`; the value
functions themselves are tied separately on total assignments: group `Values`) -/
def pyValueFn (fn : Brute.Fn) : Brute.Assign → Poly → Except Err Rat := fn.valueP

/-! ## `subgraph` / `subvalue` (`qubovert/utils/_subgraph.py`): the argument `G`, the result container `D = type(G)()`,
the dicts `values` / `connections`, the collection `nodes` -/

/-- the argument `G`: its type and its items in iteration order; a key that is not a tuple is `none` -/
structure PyRawCont where
  ty : Ty
  items : List RawItem

/-- a container under construction: its type (which decides what `D[k] = v` does) and its items -/
structure PyCont where
  ty : Ty
  items : Poly

/-- `type(G)()`: a new empty container of `G`'s type -/
def pyNewLike (G : PyRawCont) : PyCont := ⟨G.ty, []⟩

/-- `G.items()` -/
def pyRawItems (G : PyRawCont) : List RawItem := G.items

/-- `D.get(k, d)`: the raw `dict.get` (no squashing of the key) -/
def pyContGet (D : PyCont) (k : Key) (d : Rat) : Rat := if hasKey D.items k then get D.items k else d

/-- `D[k] = v`: `dict.__setitem__` for a builtin dict, `DictArithmetic.__setitem__` (squash the key, remove a zero value)
for the model types (`Qv.Ty.store`); may raise (`KeyError` for a key of too high degree) -/
def pyContSetItem (D : PyCont) (k : Key) (v : Rat) : Except Err PyCont :=
  (D.ty.store D.items k v).map (fun p => ⟨D.ty, p⟩)

/-- `D.pop(k, d)` as a statement (the popped value is discarded; with a default it never raises): the raw `dict.pop` -/
def pyContPopDefault (D : PyCont) (k : Key) : PyCont := ⟨D.ty, erase D.items k⟩

/-- `m.get(i, d)` on a dict from labels to numbers -/
def pyAssocGet (m : Assoc) (i : Var) (d : Rat) : Rat :=
  match lookup m i with
  | some v => v
  | none => d

/-- `m[i]`: `KeyError` when absent -/
def pyAssocGetItem (m : Assoc) (i : Var) : Except Err Rat :=
  match lookup m i with
  | some v => .ok v
  | none => .error .key

/-- `i in m` for a dict -/
def pyAssocIn (m : Assoc) (i : Var) : Bool := (lookup m i).isSome

/-- `i in nodes` for a set / list / tuple of labels -/
def pyUIn (nodes : List Var) (i : Var) : Bool := nodes.contains i

/-- `np.prod(l)` of a list of numbers: their product, `1` for the empty list -/
def pyProd : List Rat → Rat
  | [] => 1
  | a :: r => a * pyProd r

/-! ## `DictArithmetic.subs` / `PCBO.subs`: coefficients that are numbers or sympy expressions (`Qv.Sym.PyCoef`), the
substitution `*args, **kwargs` as one opaque function `σ` on expressions -/

/-- `try: body  except E₁: h₁  except E₂: h₂ …`: the first clause whose exception matches handles it -/
def pyTryHandlers {σ : Type} (body : Except Err σ) (handlers : List (Err × Except Err σ)) : Except Err σ :=
  match body with
  | .ok s => .ok s
  | .error e =>
    match handlers.find? (fun h => h.1 == e) with
    | some h => h.2
    | none => .error e

/-- `v.subs(*args, **kwargs)` on a coefficient: a Python number has no attribute `subs` (`AttributeError`); on a sympy
expression it is sympy's substitution (opaque: `σ`) -/
def pySubs {R : Type} (σ : R → Sym.SubsRes R) : Sym.PyCoef R → Except Err (Sym.SubsRes R)
  | .num _ => .error .attr
  | .sym e => .ok (σ e)

/-- `float(x)` of a substitution result: `TypeError` while symbols remain -/
def pyFloatOfSubs {R : Type} : Sym.SubsRes R → Except Err Rat
  | .numeric r => .ok r
  | .symbolic _ => .error .type

/-- a substitution result stored as a coefficient -/
def pyCoefOfSubs {R : Type} : Sym.SubsRes R → Sym.PyCoef R
  | .numeric r => .num r
  | .symbolic e => .sym e

/-- `dict.pop(k, _)` of a builtin dict (the remaining dict) -/
def pyDictErase {κ α : Type} [DecidableEq κ] (d : List (κ × α)) (k : κ) : List (κ × α) :=
  match d with
  | [] => []
  | (k', v) :: r => if k' = k then r else (k', v) :: pyDictErase r k

/-- truthiness of a coefficient: a number is truthy iff non-zero, a sympy expression iff it is not the zero expression -/
def pyCoefTruthy {R : Type} [Sym.Coef R] : Sym.PyCoef R → Bool
  | .num r => decide (r ≠ 0)
  | .sym e => !(Sym.Coef.isZero e)

/-- `d[k] = val` on a `DictArithmetic` for an already squashed key `k` (the keys of `self`): `if value: store else: pop` -/
def pyCoefSetItem {R : Type} [Sym.Coef R] (d : Sym.CoefItems R) (k : Key) (v : Sym.PyCoef R) : Sym.CoefItems R :=
  if pyCoefTruthy v then pyDictPut d k v else pyDictErase d k

/-- `self.__class__()` for a `DictArithmetic`: a new empty dict of the same class (whose keys squash as `self`'s do) -/
def pyNewSame {R : Type} (_self : Sym.CoefItems R) : Sym.CoefItems R := []

/-- the object `DictArithmetic.subs` returns when called on a `PCBO` / `PCSO` (`super(self.__class__, self).subs(…)`): it
was built by `self.__class__()`, so its ancilla counter is `0` and it has no recorded constraints -/
def pyObjOfSubs {R : Type} (terms : Sym.CoefItems R) : Sym.SymObj R := ⟨terms, 0, []⟩

/-! ## `get_info` / `create_from_info` (`qubovert/utils/_info.py`): the model object as the record `Qv.MObj` (what these two
functions can see of it), the info dict as the record `Qv.Info` (an optional key that is absent, or present with value
`None`, is `none`) -/

/-- a value stored under one of the optional keys of an info dict -/
inductive InfoVal where
  | mapping (m : List (Var × Nat))
  | num (n : Nat)
  | cons (c : List (Rel × List Poly))

/-- the two modules `create_from_info` looks a class up in: `qv` (the package) and `qv.utils` -/
inductive PyModule where
  | top
  | utils
  deriving DecidableEq, Repr

/-- `getattr(module, t)` for a class name `t`: the class of that name (which module holds it does not change the class) -/
def pyModuleClass (_m : PyModule) (t : Kind) : Kind := t

/-- `hasattr(model, attr)` for the three optional attributes: the labelled types (`QUBO, QUSO, PUBO, PUSO, PCBO, PCSO`)
have `mapping`; `PCBO` and `PCSO` have `num_ancillas` and `constraints` (the class hierarchy of qubovert) -/
def pyHasAttr (m : MObj) (attr : String) : Bool :=
  if attr = "mapping" then m.kind.isLabelled
  else if attr = "num_ancillas" ∨ attr = "constraints" then m.kind.isConstrained
  else false

/-- `getattr(model, attr)` for those attributes -/
def pyGetAttr (m : MObj) (attr : String) : InfoVal :=
  if attr = "mapping" then .mapping m.mapping
  else if attr = "num_ancillas" then .num m.anc
  else .cons m.cons

/-- `dict(type=…, terms=…, name=…)` -/
def pyInfoNew (kind : Kind) (terms : Poly) (name : Option String) : Info :=
  { kind := kind, terms := terms, name := name, mapping := none, numAncillas := none, constraints := none }

/-- `res[key] = value` for one of the optional keys -/
def pyInfoSetItem (res : Info) (key : String) (v : InfoVal) : Info :=
  match v with
  | .mapping m => if key = "mapping" then { res with mapping := some m } else res
  | .num n => if key = "num_ancillas" then { res with numAncillas := some n } else res
  | .cons c => if key = "constraints" then { res with constraints := some c } else res

/-- `key in info` / `info[key] is not None` for the optional keys (absent and `None` are both `none`) -/
def pyInfoHas (info : Info) (key : String) : Bool :=
  if key = "mapping" then info.mapping.isSome
  else if key = "num_ancillas" then info.numAncillas.isSome
  else if key = "constraints" then info.constraints.isSome
  else key = "type" ∨ key = "terms" ∨ key = "name"

/-- truthiness of `info["num_ancillas"]` (a present count is truthy iff non-zero) -/
def pyInfoNumTruthy (info : Info) : Bool :=
  match info.numAncillas with
  | some n => n != 0
  | none => false

/-- `info["mapping"]` (`KeyError` when absent) -/
def pyInfoGetMapping (info : Info) : Except Err (List (Var × Nat)) :=
  match info.mapping with
  | some m => .ok m
  | none => .error .key

/-- `info["num_ancillas"]` (`KeyError` when absent) -/
def pyInfoGetNum (info : Info) : Except Err Nat :=
  match info.numAncillas with
  | some n => .ok n
  | none => .error .key

/-- `info.get("constraints", {}).items()` -/
def pyInfoConstraintItems (info : Info) : List (Rel × List Poly) := info.constraints.getD []

/-- `cls(terms)` for the class named by `info["type"]`: terms through the class's `squash_key`, a fresh mapping for the
labelled types, no name, ancilla counter 0, no constraints -/
def pyUConstruct (κ : Kind) (terms : Poly) : Except Err MObj :=
  (construct (squash κ) terms).map (fun t =>
    { kind := κ, terms := t, name := none, mapping := if κ.isLabelled then initialMapping terms else [], anc := 0, cons := [] })

/-- `model.set_mapping(mp)`: only the labelled types have it (`AttributeError` otherwise) -/
def pySetMapping (m : MObj) (mp : List (Var × Nat)) : Except Err MObj :=
  if m.kind.isLabelled then .ok { m with mapping := mp } else .error .attr

/-- `getattr(model, "add_constraint_%s_zero" % k)`: `PCBO` / `PCSO` have these methods (`AttributeError` otherwise); the
bound method is represented by its relation -/
def pyGetConstraintMethod (m : MObj) (k : Rel) : Except Err Rel :=
  if m.kind.isConstrained then .ok k else .error .attr

/-- `model.add_constraint_<rel>_zero(x, lam=0)`: with `lam = 0` the method records `PUBO(x)` / `PUSO(x)` under the relation
and returns (`if not lam: return self`; the constraint methods themselves are tied in the groups Cons / PcsoCons) -/
def pyAddConstraintLam0 (m : MObj) (rel : Rel) (x : Poly) : Except Err MObj :=
  (storeCons m.kind x).map (fun p => { m with cons := appendCons m.cons rel p })

end Qv.Gen
