import Qv.Gen.PreludeReduce
/-!
# Qv.Gen.PreludeReduce2 — the additional Python primitives read by the whole-function translation of
`PUBO._reduce_degree` (`Qv/Gen/SourceReduce2.lean`, harness/tie_ext/reduce2.py)

Hand-written and **trusted** (DESIGN.md §7), like `PreludeReduce.lean`.  Each definition is the literal reading of one
Python primitive; nothing of the reduction logic (the degree check, how `lam` is wrapped, how hints are mapped, how the
pair counts are built, where the ancilla labels start, the order of the terms) is here.  Core Lean only.
-/
namespace Qv.Gen

/-- a `lam` argument that is not `None`: either `callable(lam)` holds (a total function on numbers) or it is a number -/
inductive PyRd2Lam where
  | fn (f : Rat → Rat)
  | num (c : Rat)

/-- `k[i]` on a tuple of labels for an index `i ≥ 0`: `IndexError` when out of range -/
def pyRd2KeyIdx (k : Key) (i : Nat) : Except Err Var :=
  match k[i]? with
  | some a => .ok a
  | none => .error .index

/-- `range(a, b)` for natural numbers `a`, `b`: `a, a+1, …, b-1` (nothing when `b ≤ a`) -/
def pyRd2Range (a b : Nat) : List Nat := List.range' a (b - a)

/-- `itertools.combinations(k, 2)`: the pairs `(k[i], k[j])`, `i < j`, in lexicographic order of `(i, j)` -/
def pyRd2Combinations2 : Key → List Key
  | [] => []
  | a :: r => r.map (fun b => [a, b]) ++ pyRd2Combinations2 r

/-- `str(k)[:3] == "__a"` for a label `k`.  Labels are the model's ids (DESIGN.md §3.1): the constraint ancilla `"__a<i>"` is
the id `ANC + i`, every label of the user is below `ANC` (the harness maps labels to ids that way) -/
def pyRd2IsAncilla (k : Var) : Bool := decide (Qv.ANC ≤ k)

end Qv.Gen
