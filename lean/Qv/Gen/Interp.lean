import Qv.Model.Pcbo
import Qv.Model.Pcso
import Qv.Model.Convert
import Qv.Model.Subst
import Qv.Gen.Prelude
import Qv.Gen.PreludeCons
import Qv.Gen.PreludeStore
/-!
# Qv.Gen.Interp — what the abstracted statements do to the model state

Hand-written; part of the *statements* of the equivalence theorems in `Qv/Proofs/GenEq/*.lean` (so read with
them): the translator renders a statement that acts on an opaque object (`self += lam * P`, `L[key] += c`,
`self._pop_constraint('le')`, …) as a named constant (`Eff`, `CEff`, `LEff`, `SEff`, `SOp`, update pairs); the
functions here say what each constant does to the model's state, and the theorems say that running the
generated list of constants through them is the model function.  Kept apart from the proofs so that the
distinguishing-input search (`Qv/Gen/Search/*.lean`) can evaluate both sides when a proof no longer checks.
Core Lean only.
-/
namespace Qv.Gen
open Qv.Pcso

/-! ## Bounds (decision chain of `add_constraint_eq_zero`) -/

/-- the meaning, on the model state, of the statements the translator abstracts into `Eff` constants
(registry table `EQ_ZERO_EFFECTS`): a warning is recorded; `self += lam * P`, `self -= lam * P`,
`self += lam * P * P` -/
def runEff (P : Poly) (lam : Rat) (s : St) : Eff → St
  | .warn w => { s with warns := s.warns ++ [w] }
  | .iaddLamP => s.plus (scaleB lam P)
  | .isubLamP => s.minus (scaleB lam P)
  | .iaddLamPP => s.plus (mulB (scaleB lam P) P)

/-- the model's branch tags are instrumentation, not state -/
def untag (s : St) : St := { s with tags := [] }

/-! ## Convert (`store` rule: `L[key] += c`) -/

/-- `L[key] += c` for each recorded update, in order (the meaning of the translator's `store` rule) -/
def applyUpdates (sq : Sq) (L : Poly) : List (Key × Rat) → Except Err Poly
  | [] => pure L
  | (key, c) :: r => do
    let L' ← addTerm sq L key c
    applyUpdates sq L' r

/-! ## Cons (decision chains of the PCBO comparison constraints) -/

/-- the relation a `_pop_constraint` string names -/
def relOf : String → Rel
  | "eq" => .eq | "ne" => .ne | "lt" => .lt | "le" => .le | "gt" => .gt | _ => .ge

/-- interpretation state of a chain: the PCBO `self`, the current value of the local `P`, the local `sign` -/
structure CSt where
  s : St
  P : Poly
  sign : Poly := []

/-- what each abstracted statement (`Qv/Gen/PreludeCons.lean`, registry table `CONS_EFFECTS`) does.
`lam` and `log_trick` are the method's arguments, passed on unchanged where the statement passes them;
`add_constraint_gt_zero(P, lam=lam, bounds=…, suppress_warnings=…)` / `…lt_zero(…)` inside `ne` do not pass
`log_trick`, so it takes its default `True`. -/
def runCEff (lam : Rat) (lt : Bool) (c : CSt) : CEff → CSt
  | .warn w => { c with s := { c.s with warns := c.s.warns ++ [w] } }
  | .iaddLamP => { c with s := c.s.plus (scaleB lam c.P) }
  | .iaddLam => { c with s := c.s.plus (addConstB [] lam) }
  | .pAddOne => { c with P := addConstB c.P 1 }
  | .pCopy => c
  | .slack v => { c with s := c.s.nextAnc.1, P := addTermB c.P [c.s.nextAnc.2] v }
  | .newSign => { c with s := c.s.nextAnc.1, sign := addConstB (addTermB [] [c.s.nextAnc.2] 2) (-1) }
  | .pAddSign => { c with P := iaddB c.P c.sign }
  | .pAddSignAnc v =>
    { c with s := c.s.nextAnc.1, P := iaddB c.P (mulB (scaleB v c.sign) (monoPoly [c.s.nextAnc.2])) }
  | .callEq lo hi => { c with s := addEqZero c.s c.P lam (some lo, some hi) true }
  | .callLe lo hi => { c with s := addLeZero c.s c.P lam lt (some lo, some hi) true }
  | .callLtNeg b sup => { c with s := addLtZero c.s (scaleB (-1) c.P) lam lt (some b.1, some b.2) sup }
  | .callLeNeg b sup => { c with s := addLeZero c.s (scaleB (-1) c.P) lam lt (some b.1, some b.2) sup }
  | .callGt lo hi sup => { c with s := addGtZero c.s c.P lam true (some lo, some hi) sup }
  | .callLt lo hi sup => { c with s := addLtZero c.s c.P lam true (some lo, some hi) sup }
  | .pop r => { c with s := c.s.pop (relOf r) }

/-- run a chain on the PCBO `s` with the constraint polynomial `P`; the model's branch tags are
instrumentation, not state -/
def runChain (lam : Rat) (lt : Bool) (s : St) (P : Poly) (effs : List CEff) : St :=
  { (effs.foldl (runCEff lam lt) { s := s, P := P }).s with tags := [] }

def untagged (s : St) : St := { s with tags := [] }

/-! ## ConsSpecial (`_special_constraints_le_zero`) -/

/-- interpretation state: the PCBO, and the locals `ancillas`, `diff`, `x`, `y` -/
structure LSt where
  s : St
  ancs : Poly := []
  diff : Poly := []
  x : Poly := []
  y : Poly := []

/-- what each statement of `_special_constraints_le_zero` does (`Pwo` is `P - P.offset`).
`AND(*key)` of a tuple of labels is the monomial `monoPoly key`; `PCBO().add_constraint_OR(x, y, lam=lam)`
is `lam * (1 - (x + y * (1 - x)))` (`add_constraint_OR` with bounds `(0, 1)` adds `lam * P`). -/
def runLEff (P Pwo : Poly) (lam : Rat) (c : LSt) : LEff → LSt
  | .sum1 => { c with s := c.s.plus (scaleB (1/2) (mulB (scaleB lam P) Pwo)) }
  | .newAncillas => { c with ancs := [] }
  | .ancilla => { c with s := c.s.nextAnc.1, ancs := addTermB c.ancs [c.s.nextAnc.2] 1 }
  | .diff => { c with diff := isubB Pwo c.ancs }
  | .addDiffSq => { c with s := c.s.plus (mulB (scaleB lam c.diff) c.diff) }
  | .keysOfPwo => c
  | .xyOfKeys =>
    match Pwo with
    | [(k0, _), (k1, _)] => { c with x := monoPoly k0, y := monoPoly k1 }
    | _ => c
  | .addOrPenalty =>
    { c with s := c.s.plus (scaleB lam (isubB (addConstB [] 1) (iaddB c.x (mulB c.y (isubB (addConstB [] 1) c.x))))) }
  | .coef => c
  | .xyOfCoef =>
    match P.find? (fun kv => kv.2 = 1), P.find? (fun kv => kv.2 = -1) with
    | some (kx, _), some (ky, _) => { c with x := monoPoly kx, y := monoPoly ky }
    | _, _ => c
  | .addXnotY => { c with s := c.s.plus (mulB (scaleB lam c.x) (isubB (addConstB [] 1) c.y)) }

/-- the result of the call: `none` when it returned `False`, else the PCBO after the statements it ran -/
def specialResult (P Pwo : Poly) (lam : Rat) (s : St) (r : Bool × List LEff) : Option St :=
  if r.1 = true then some (untagged (r.2.foldl (runLEff P Pwo lam) { s := s }).s) else none

/-! ## PcsoCons (bodies of `PCSO.add_constraint_*_zero`) -/

/-- interpretation state: the PCSO `self`, the local `H`, the helper PCBO `h` -/
structure SSt where
  s : PSt
  H : Poly
  h : St := {}

/-- what each statement does.  `lam`, `log_trick`, `bounds`, `suppress_warnings` are the method's arguments,
handed to the helper call unchanged; warnings (and the model's branch tags) raised inside the helper call
are the call's. -/
def runSEff (lam : Rat) (lt : Bool) (b : Option Rat × Option Rat) (sup : Bool) (c : SSt) : SEff → Except Err SSt
  | .spinCopy => do
    let H' ← spinCopy c.H
    pure { c with H := H' }
  | .append r => pure { c with s := c.s.append (relOf r) c.H }
  | .helper r => do
    let P ← boolImage c.H
    let h := Pcso.helper (relOf r) c.s P lam lt b sup
    pure { c with h := h, s := { c.s with warns := c.s.warns ++ h.warns, tags := c.s.tags ++ h.tags } }
  | .copyAncilla => pure { c with s := { c.s with anc := c.h.anc } }
  | .iaddConverted => do
    let F ← puboToPuso .pcbo c.h.terms
    let terms ← iaddD (squash .pcso) c.s.terms F
    pure { c with s := { c.s with terms := terms } }

/-- run a method body on the PCSO `s` with argument `H` -/
def runBody (lam : Rat) (lt : Bool) (b : Option Rat × Option Rat) (sup : Bool) (s : PSt) (H : Poly)
    (effs : List SEff) : Except Err PSt :=
  (effs.foldlM (runSEff lam lt b sup) { s := s, H := H }).map (·.s)

/-! ## ArithTerms / Normalize (recorded item statements `SOp`) -/

/-- one recorded item statement on a container whose keys are squashed by `sq`
(`DictArithmetic.__setitem__` / `__getitem__` of the receiving type) -/
def applySOp (sq : Sq) (p : Poly) : SOp → Except Err Poly
  | .set k c => setItem sq p k c
  | .add k c => addTerm sq p k c
  | .mul k c => mulItem sq p k c

/-- the recorded statements, in order -/
def applySOps (sq : Sq) (p : Poly) : List SOp → Except Err Poly
  | [] => .ok p
  | o :: r => applySOp sq p o >>= fun p' => applySOps sq p' r

/-! ## Normalize (the function `normalize` only assigns items) -/

/-- the recorded statements of the function `normalize` on a result container of type `τ`: it only assigns
items (`res[k] = c` is `Ty.store`) -/
def runSets (τ : Ty) (p : Poly) : List SOp → Except Err Poly
  | [] => .ok p
  | .set k c :: r => τ.store p k c >>= fun p' => runSets τ p' r
  | _ :: _ => .error .other

end Qv.Gen
