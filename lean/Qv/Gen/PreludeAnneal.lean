import Qv.Model.AnnealFront
import Qv.Gen.PreludeM
/-!
# Qv.Gen.PreludeAnneal — meaning of the Python primitives in `qubovert/sim/_anneal.py`

Hand-written and **trusted** (DESIGN.md §7).  `harness/tie_ext/anneal.py` maps each Python construct it accepts in
the annealer front ends to exactly one of these functions (or to a core `List` function).  Every primitive is the
literal reading of *one* Python primitive on the explicit state the model uses:

* a model object (`QUSO`, `QUSOMatrix`, a plain dict …) is an `Anneal.Obj` (class tag `kind`, dict content `terms`,
  `_variables` as `vars`, `_mapping`/`_reverse_mapping` as `mapping`); constructors / `to_quso` / `to_puso` /
  `qubo_to_quso` / `pubo_to_puso` / `boolean_to_spin` / `AnnealResults.to_boolean` are *named* here and read as the
  model functions of `Qv/Model/AnnealFront.lean` (they belong to other classes of the library; C04/C05/C14 tie them);
* a dict whose keys are `0 … n-1` in order (`dict(enumerate(l))`, `reverse_mapping`) is the list of its values;
* a Python list is a `List`; `l[i]` / `l[i] = x` with a non-negative index raise `IndexError` out of range;
  `rows[i].append(x)` is only accepted on a list of *fresh* rows (`[[] for _ in range(N)]`), where value semantics
  and Python's reference semantics agree;
* `float(v)` is the parameter `toNum`, the rational value of a C `double` is the parameter `ofNum` (DESIGN.md §3.2);
* warnings are not modelled: `QUBOVertWarning.warn("…")` statements are skipped.

The *logic* of the front ends (which type goes which way, `N`, the guards, the placement loop, the flattening
loops, the argument order of the C call, the packaging) is not here: it comes out of the generated text
`Qv/Gen/SourceAnneal.lean`.  Core Lean only (no Mathlib).
-/
namespace Qv.Gen
open Qv Qv.Anneal

/-! ## model objects -/

/-- `type(x) == C`, `type(x) in (C₁, …)`: the class of `x` is one of the listed ones -/
def pyTypeIn (o : Obj) (ks : List Kind) : Bool := ks.contains o.kind

/-- `x.max_index` of a Matrix type -/
def pyMaxIndex (o : Obj) : Option Nat := o.maxIndex

/-- `x.num_binary_variables` : `len(self._variables)` -/
def pyNumBinaryVariables (o : Obj) : Nat := o.vars.length

/-- `x.reverse_mapping` of a labelled type (integer `i` ↦ label), as the list of its values -/
def pyReverseMapping (o : Obj) : List Var := o.mapping

/-- `C(x)` for a model class `C` and a dict-like `x` : `C()` then `self[k] += v` for every item -/
def pyConstruct (κ : Kind) (o : Obj) : Except Err Obj := Obj.build κ o.terms

/-- `x.to_quso()` of a `QUSO` (a `QUSOMatrix`, read through its items only) -/
def pyToQuso (o : Obj) : Except Err Poly := toQuso o

/-- `x.to_puso()` of a `QUSO` / `PUSO` / `PCSO` (a `PUSOMatrix`, read through its items only) -/
def pyToPuso (o : Obj) : Except Err Poly := toPuso o

/-- a model object used as the dict it is (`x.items()`, `x.offset`, `x.degree`) -/
def pyItems (o : Obj) : Poly := o.terms

/-- `d.offset` : `d[()]`, 0 when absent -/
def pyOffsetA (p : Poly) : Rat := get p []

/-- `qubo_to_quso(Q)` (utils/_conversions.py; tied for C04) -/
def pyQuboToQuso (o : Obj) : Except Err Obj := Anneal.quboToQuso o

/-- `pubo_to_puso(P)` (utils/_conversions.py; tied for C04) -/
def pyPuboToPuso (o : Obj) : Except Err Obj := Anneal.puboToPuso o

/-- `boolean_to_spin(d)` on a dict of 0/1 values: `1 - 2 * v` per entry (other values: `KeyError`, as in the model) -/
def pyAnnBooleanToSpin (d : List (Var × Int)) : Except Err (List (Var × Int)) :=
  d.mapM (fun p => if p.2 = 0 then .ok (p.1, (1 : Int)) else if p.2 = 1 then .ok (p.1, (-1 : Int)) else .error Err.key)

/-- `res.to_boolean()` of an `AnnealResults` -/
def pyToBoolean (rs : List Res) : Except Err (List Res) := toBoolean rs

/-! ## lists and dicts -/

/-- `enumerate(l)` -/
def pyEnumerate {β : Type} (l : List β) : List (Nat × β) := (List.range l.length).zip l

/-- `l[i]` for a non-negative index: `IndexError` out of range -/
def pyListGet {β : Type} (l : List β) (i : Nat) : Except Err β :=
  match l[i]? with
  | some a => .ok a
  | none => .error .index

/-- `l[i] = x` for a non-negative index: `IndexError` out of range -/
def pyListSet {β : Type} (l : List β) (i : Nat) (x : β) : Except Err (List β) :=
  if i < l.length then .ok (l.set i x) else .error .index

/-- `rows[i].append(x)` on a list of fresh rows: `IndexError` when `rows[i]` does not exist -/
def pyAppendAt {β : Type} (rows : List (List β)) (i : Nat) (x : β) : Except Err (List (List β)) :=
  pyListGet rows i >>= fun row => pyListSet rows i (row ++ [x])

/-- `d[k]` on a dict kept as the list of its values (keys `0 … n-1`): `KeyError` when absent -/
def pyRevGet (d : List Var) (k : Nat) : Except Err Var :=
  match d[k]? with
  | some a => .ok a
  | none => .error .key

/-- `d[l]` on a dict from labels to ints (insertion-ordered association list): `KeyError` when absent -/
def pyAnnDictGet (d : List (Var × Int)) (l : Var) : Except Err Int :=
  match d.find? (·.1 == l) with
  | some p => .ok p.2
  | none => .error .key

/-- `{k: v for …}` from pairs whose keys are distinct (the labels of a bijective `reverse_mapping`): the pairs in
order.  A repeated key (one position, last value) is not modelled. -/
def pyDictOfPairs {κ β : Type} (l : List (κ × β)) : List (κ × β) := l

/-- `int(b)` of a bool -/
def pyIntOfBool (b : Bool) : Int := if b then 1 else 0

/-! ## results, schedules -/

/-- `AnnealResult(state, value, spin)` -/
def pyAnnealResult (state : List (Var × Int)) (value : Rat) (spin : Bool) : Res :=
  { state := state, value := value, spin := spin }

/-- `res.add_state(state, value, spin)` : the list grows by one result (`best` is a function of the list:
`Anneal.best`) -/
def pyAddState (res : List Res) (state : List (Var × Int)) (value : Rat) (spin : Bool) : List Res :=
  res ++ [pyAnnealResult state value spin]

/-- `isinstance(schedule, str)` -/
def pyIsStr {α : Type} : Schedule α → Bool
  | .explicit _ => false
  | .named _ _ => true

/-- `list(schedule)` of a non-string iterable -/
def pyListOfSchedule {α : Type} : Schedule α → List α
  | .explicit Ts => Ts
  | .named _ _ => []

/-- `schedule in (s₁, …)` for a string -/
def pyStrIn {α : Type} (s : Schedule α) (names : List String) : Bool :=
  match s with
  | .explicit _ => false
  | .named n _ => names.contains n

/-- everything `_create_spin_schedule` does after its validation of the name: `anneal_temperature_range`, the
`T0 < Tf` check and the numpy grid — data (`Schedule.named`), as in the model -/
def pyNamedGrid {α : Type} : Schedule α → Except Err (List α)
  | .explicit Ts => .ok Ts
  | .named _ g => g

/-! A segment that can `return` yields `Flow.ret r` (the function has returned `r`) or `Flow.next s` (the next segment
goes on with the locals `s`). -/

/-- a call of a function whose first segment is generated and whose remaining statements are the named reading `rest` -/
def pySegFinish {ρ σ : Type} (x : Except Err (Flow ρ σ)) (rest : σ → Except Err ρ) : Except Err ρ :=
  x >>= fun f => match f with
    | .ret r => .ok r
    | .next s => rest s

end Qv.Gen
