import Qv.Model.Basic
import Qv.Gen.PreludeM
/-!
# Qv.Gen.PreludeStore — item stores into an opaque container, `max`/`min` of a generator, raising division

Hand-written and **trusted** (DESIGN.md §7).  In functions registered with `store_ops` the container written
to (`res`, `self`) is opaque: the translator records each item statement, in order, as an `SOp` with the
translated key and number.  What a store does to a container of a given type (squashing of the key, removal
of zeros) is the model's `Ty.store` / `addTerm` / `mulItem`; the equivalence theorems run the recorded list
through them.  Core Lean only.
-/
namespace Qv.Gen

/-- an item statement on the opaque container `L` -/
inductive SOp where
  | set (k : Key) (c : Rat)    -- `L[k] = c`
  | add (k : Key) (c : Rat)    -- `L[k] += c`   (`L[k] -= c` is `add k (-c)`)
  | mul (k : Key) (c : Rat)    -- `L[k] *= c`
  deriving DecidableEq, Repr

/-- `max(l)` of a non-empty iterable of numbers (`ValueError` on an empty one): the running maximum is replaced
by a strictly larger element -/
def pyMax : List Rat → Except Err Rat
  | [] => .error .value
  | a :: r => .ok (r.foldl (fun m x => if m < x then x else m) a)

/-- `min(l)` (`ValueError` on an empty iterable) -/
def pyMin : List Rat → Except Err Rat
  | [] => .error .value
  | a :: r => .ok (r.foldl (fun m x => if x < m then x else m) a)

/-- `a / b` for a divisor that is not a non-zero literal: `ZeroDivisionError` when `b == 0` -/
def pyDiv (a b : Rat) : Except Err Rat := if b = 0 then .error .zerodiv else .ok (a / b)

end Qv.Gen
