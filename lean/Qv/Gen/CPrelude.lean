import Qv.Model.KernelMem
/-!
# Qv.Gen.CPrelude — the primitives the definitions generated from the C sources (`Qv/Gen/CSource.lean`,
`harness/translate_c.py`) are written in, beyond those of `Qv.Model.KernelMem` (`Buf.rd`, `Buf.wr`, `malloc`,
`Buf.free`, `Buf.realloc`, `iadd`, `imul`, `ladd`, `lmul`, `toInt`, `forFromM`, `noLeak`, `rowsLive`).

Hand-written, core Lean only.  Trusted as the reading of the C constructs named in the docstrings.
-/
namespace Qv.GenC
open Qv.KMem

/-- everything the C sources do with a `double` beyond `+` and `*` (which are the `Add`/`Mul` of the abstract
number type, as in the hand-written model): uninterpreted -/
structure DOps (α : Type) where
  /-- `a <= b` -/
  dle : α → α → Bool
  /-- `a < b` -/
  dlt : α → α → Bool
  /-- `-a` -/
  dneg : α → α
  /-- `a / b` -/
  ddiv : α → α → α
  /-- `exp(a)` (libm) -/
  dexp : α → α
  /-- `ldexp(a, n)` (libm) -/
  dldexp : α → Int → α
  /-- `(double)u` for a `uint32_t` -/
  dofU32 : UInt32 → α
  /-- a floating literal that is not an integer, by its source text -/
  flit : String → α

/-- the functions of `random.c` as the kernels see them (another translation unit): result first, then the
updated generator state -/
structure RandExt (ρ α : Type) where
  /-- `rand_init(seed)` -/
  rand_init : Int → ρ
  /-- `rand_double(rng)` -/
  rand_double : ρ → α × ρ
  /-- `rand_int(rng, stop)` -/
  rand_int : ρ → Int → Int × ρ

/-- `a - b` in `int` -/
def isub (a b : Int) : M Int := chkInt (a - b)
/-- `a - b` in `long` -/
def lsub (a b : Int) : M Int := chkLong (a - b)

/-- `x >> n` on `uint32_t` with a variable amount: undefined in C for `n >= 32` -/
def shr32 (x n : UInt32) : M UInt32 := if n.toNat < 32 then .ok (x >>> n) else .error .overflow
/-- `x << n` on `uint32_t` with a variable amount -/
def shl32 (x n : UInt32) : M UInt32 := if n.toNat < 32 then .ok (x <<< n) else .error .overflow
/-- `x >> n` on `uint64_t` with a variable amount -/
def shr64 (x n : UInt64) : M UInt64 := if n.toNat < 64 then .ok (x >>> n) else .error .overflow
/-- `x << n` on `uint64_t` with a variable amount -/
def shl64 (x n : UInt64) : M UInt64 := if n.toNat < 64 then .ok (x <<< n) else .error .overflow
/-- `a % b` on `uint32_t`: undefined in C for `b == 0` -/
def umod32 (a b : UInt32) : M UInt32 := if b = 0 then .error .overflow else .ok (a % b)
/-- `a % b` on `uint64_t` -/
def umod64 (a b : UInt64) : M UInt64 := if b = 0 then .error .overflow else .ok (a % b)
/-- `(int)u` for a `uint32_t`: implementation-defined above `INT_MAX`; conservative like `KMem.toInt` -/
def u32ToInt (u : UInt32) : M Int := toInt (u.toNat : Int)

/-- `for(;;) body` where `body` returns `some r` for `return r`: bounded by `fuel` (`none` = fuel exhausted) -/
def foreverM {σ β : Type} : Nat → (σ → M (Option β × σ)) → σ → M (Option β)
  | 0, _, _ => .ok none
  | fuel + 1, body, s => do
    let r ← body s
    match r.1 with
    | some b => pure (some b)
    | none => foreverM fuel body r.2

/-- a branch of the C source that is outside the translated fragment (named in the generated docstring and the
manifest): an error value, so that no theorem can be about it -/
def outside {β : Type} (_why : String) : M β := .error .badSize

end Qv.GenC
