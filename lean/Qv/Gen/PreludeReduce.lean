import Qv.Model.Reduce
import Qv.Gen.PreludeM
/-!
# Qv.Gen.PreludeReduce — the Python primitives used by `PUBO._reduce_degree` and the `to_*` entry points

Hand-written and **trusted** (DESIGN.md §7), like `Qv/Gen/Prelude.lean` / `PreludeM.lean`.  Each definition is the literal
reading of one Python primitive; the reduction logic (which pair is chosen, reuse versus fresh ancilla, where `z` is
inserted, how often the penalty is added, when the loop stops) is *not* here: it comes out of the generated text
(`Qv/Gen/SourceReduce.lean`).  Core Lean only (no Mathlib).

Readings fixed here:
* a local `dict` / `defaultdict(int)` is an association list in insertion order (DESIGN.md §3.4); the locals
  `reductions`, `pair_frequencies`, `mapped_self` are only read by key, written by key and (`mapped_self`) iterated;
* a `set` of tuples (`pairs`) is a list of keys; only `in` is used on it;
* a tuple of labels is a `Key` (so the pair `(x, y)` is the key `[x, y]`);
* integer labels are `Var = Nat`, so `z < i`, `ancilla += 1` are the operations on `Nat`.
-/
namespace Qv.Gen

/-- result of one pass through a loop body that may `break` -/
inductive Brk (σ : Type) where
  | brk (s : σ)     -- `break` was executed (with these locals)
  | next (s : σ)    -- the body ran to its end (or `continue`)

/-- `for a in l: body` where `body` may `break` (the remaining elements are then not visited); the value is the
tuple of the carried locals after the loop -/
def pyForB {α σ : Type} (l : List α) (s : σ) (body : σ → α → Brk σ) : σ :=
  match l with
  | [] => s
  | a :: r =>
    match body s a with
    | .brk s' => s'
    | .next s' => pyForB r s' body

/-- `enumerate(l)` from a start index -/
def pyEnumerateFrom {α : Type} (n : Nat) : List α → List (Nat × α)
  | [] => []
  | a :: r => (n, a) :: pyEnumerateFrom (n + 1) r

/-- `enumerate(l)` -/
def pyREnumerate {α : Type} (l : List α) : List (Nat × α) := pyEnumerateFrom 0 l

/-- `k in d` for a dict `d` -/
def pyDictHas {κ β : Type} [DecidableEq κ] (d : List (κ × β)) (k : κ) : Bool :=
  match d with
  | [] => false
  | (k', _) :: r => if k' = k then true else pyDictHas r k

/-- `d[k]` on a plain dict: `KeyError` when absent -/
def pyRDictGet {κ β : Type} [DecidableEq κ] (d : List (κ × β)) (k : κ) : Except Err β :=
  match d with
  | [] => .error .key
  | (k', v) :: r => if k' = k then .ok v else pyRDictGet r k

/-- `d.get(k, dflt)` -/
def pyDictGetD {κ β : Type} [DecidableEq κ] (d : List (κ × β)) (k : κ) (dflt : β) : β :=
  match d with
  | [] => dflt
  | (k', v) :: r => if k' = k then v else pyDictGetD r k dflt

/-- `d[k] = v`: update in place (position kept) or append -/
def pyRDictSet {κ β : Type} [DecidableEq κ] (d : List (κ × β)) (k : κ) (v : β) : List (κ × β) :=
  match d with
  | [] => [(k, v)]
  | (k', v') :: r => if k' = k then (k, v) :: r else (k', v') :: pyRDictSet r k v

/-- `d[k]` on a `defaultdict(int)`: the stored count, `0` when absent.  (Python also *stores* that `0`; the dict is
never iterated, measured or tested with `in`, so the stored default is unobservable — the translator rejects any
other use of a defaultdict.) -/
def pyDDGet {κ : Type} [DecidableEq κ] (d : List (κ × Nat)) (k : κ) : Nat := pyDictGetD d k 0

/-- `x, y = e` where `e` may be `None`: `TypeError` for `None` -/
def pyNotNone {α : Type} (o : Option α) : Except Err α :=
  match o with
  | none => .error .type
  | some a => .ok a

/-- `while cond: body`, where `body` may raise.  `fuel` is the registry's bound on the number of iterations (an
expression evaluated on entry, e.g. `len(key)`); if the bound were wrong the loop would end in `Err.other`, so an
equivalence theorem with a model that does not fail proves the bound as well. -/
def pyWhileM {σ : Type} (fuel : Nat) (cond : σ → Bool) (body : σ → Except Err σ) (s : σ) : Except Err σ :=
  match fuel with
  | 0 => if cond s then .error .other else .ok s
  | f + 1 => if cond s then body s >>= fun s' => pyWhileM f cond body s' else .ok s

/-- `D += qv.PCBO().add_constraint_eq_AND(z, x, y, lam=l)` for a boolean matrix `D`: the callee (its own body is tied in
group `Logic`, C06) returns the empty PCBO when `not l`, otherwise `l * (3z + xy - 2xz - 2yz)` as a PCBO; `D += that`
adds its terms one by one. -/
def pyIaddEqAND (D : Poly) (z x y : Var) (l : Rat) : Poly := Qv.Reduce.addGadget D l x y z

/-- `D[key] += v` on a `PUBOMatrix` / `QUBOMatrix` `D` (`__getitem__` with default 0, `__setitem__` with
`squash_key`, zero removed).  The `QUBOMatrix` length check (`KeyError` for more than two labels) is not modelled. -/
def pyMatrixIadd (D : Poly) (key : Key) (v : Rat) : Poly := Qv.addTermB D key v

/-- `tuple(sorted(l))` for a list of integer labels -/
def pySortedLabels (l : List Var) : Key := Qv.Reduce.isort l

/-- `m[i]` on the label mapping `self._mapping` (`KeyError` when absent) -/
def pyMappingGet (m : Qv.Reduce.Mapping) (i : Var) : Except Err Var :=
  match Qv.Reduce.lookup m i with
  | none => .error .key
  | some j => .ok j

/-- `i in m` on the label mapping -/
def pyMappingHas (m : Qv.Reduce.Mapping) (i : Var) : Bool := (Qv.Reduce.lookup m i).isSome

/-- `[f(i) for i in k]` where `f` may raise: the list, or the first exception -/
def pyRMapM {α β : Type} (f : α → Except Err β) : List α → Except Err (List β)
  | [] => .ok []
  | a :: r => f a >>= fun b => pyRMapM f r >>= fun l => .ok (b :: l)

/-- `l.insert(n, a)` on a list, `n` a natural number: `l[n:n] = [a]` — `a` goes before index `n`, at the end when
`n ≥ len(l)` -/
def pyRListInsert {α : Type} (l : List α) (n : Nat) (a : α) : List α := l.take n ++ a :: l.drop n

/-- `next(g, dflt)` for a generator `g` whose (pure) elements are the list `l`: the first one, `dflt` when there is none -/
def pyRNextD {α : Type} (l : List α) (dflt : α) : α :=
  match l with
  | [] => dflt
  | a :: _ => a

/-! ## `PCBO.is_solution_valid` -/

/-- the key under which `PCBO._constraints` files a constraint of each relation -/
def pyRelName : Qv.Rel → String
  | .eq => "eq" | .ne => "ne" | .lt => "lt" | .le => "le" | .gt => "gt" | .ge => "ge"

/-- `self._constraints.get(name, [])`: `_constraints` maps a relation name to the list of recorded PUBOs in append
order; the model keeps one list in append order, of which the per-relation lists are the sublists -/
def pyConsGet (c : List (Qv.Rel × Poly)) (name : String) : List Poly :=
  c.filterMap (fun e => if pyRelName e.1 = name then some e.2 else none)

/-- `v.value(solution)` for a recorded PUBO `v` (`pubo_value`, tied in group Values, C05) -/
def pyValue (v : Poly) (solution : Var → Rat) : Rat := Qv.eval solution v

end Qv.Gen
