import Qv.Model.Basic
/-!
# Qv.Gen.Prelude — the fixed meaning given to the Python primitives the translator accepts

Hand-written and **trusted** (DESIGN.md §7): `harness/translate.py` maps each Python construct of its
fragment to exactly one of these functions (or to a core Lean function named in its table
`PRIMS`).  Numbers are exact (`int` → `Int`/`Nat`, every other number → `Rat`, DESIGN.md §3.2);
a tuple of labels is a `Key`; a dict with tuple keys iterated by `.items()` is a `Poly` (association
list in iteration order); a container that is only indexed is a function `Var → Rat`.
Core Lean only (no Mathlib).
-/
namespace Qv.Gen

/-- `abs(v)` -/
def pyAbs (v : Rat) : Rat := if v < 0 then -v else v

/-- `math.ceil(v)` — an `int` -/
def pyCeil (v : Rat) : Int := Rat.ceil v

/-- `int.bit_length(n)`: number of binary digits of `|n|`, `0` for `0` -/
def pyBitLength (n : Int) : Nat := if n.natAbs = 0 then 0 else Nat.log2 n.natAbs + 1

/-- `k[n]` on a tuple of labels.  Python's `IndexError` is not modelled: an out-of-range read gives
label `0` (the translator accepts `k[n]` only for a literal `n`). -/
def pyGet (k : Key) (n : Nat) : Var := k.getD n 0

/-- `l.count(a)` -/
def pyCount (l : List Rat) (a : Rat) : Nat :=
  match l with
  | [] => 0
  | b :: r => (if b = a then 1 else 0) + pyCount r a

/-- `all(l)` for an iterable of numbers: every element is truthy (`≠ 0`) -/
def pyAllNum (l : List Rat) : Bool :=
  match l with
  | [] => true
  | b :: r => decide (b ≠ 0) && pyAllNum r

/-- state of a `for` loop whose body may `return`: either the function has returned `r`, or the loop
goes on with the updated locals `s` -/
inductive Flow (ρ σ : Type) where
  | ret (r : ρ)
  | next (s : σ)

/-- `for a in l: body` where `body` may `return` (then the remaining elements are not visited) -/
def pyFor {α ρ σ : Type} (l : List α) (s : σ) (body : σ → α → Flow ρ σ) : Flow ρ σ :=
  match l with
  | [] => .next s
  | a :: r =>
    match body s a with
    | .ret x => .ret x
    | .next s' => pyFor r s' body

/-- after such a loop: the returned value, or the rest of the function on the final locals -/
def Flow.elim {ρ σ β : Type} (x : Flow ρ σ) (onRet : ρ → β) (onNext : σ → β) : β :=
  match x with
  | .ret r => onRet r
  | .next s => onNext s

/-- the observable effects of the statements the translator abstracts (registry `effects` tables):
a warning, and the three ways `add_constraint_eq_zero` adds the penalty to `self` -/
inductive Eff where
  | warn (msg : String)   -- `QUBOVertWarning.warn(msg)`
  | iaddLamP              -- `self += lam * P`
  | isubLamP              -- `self -= lam * P`
  | iaddLamPP             -- `self += lam * P * P`
  deriving DecidableEq, Repr

end Qv.Gen
