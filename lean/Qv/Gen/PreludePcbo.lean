import Qv.Model.PcboLogic
import Qv.Gen.PreludeObj
/-!
# Qv.Gen.PreludePcbo — a `PCBO` object in the logic-constraint methods

Hand-written and **trusted** (DESIGN.md §7).  In `PCBO.add_constraint_<G>` / `add_constraint_eq_<G>` the
object `self` is the model state `Qv.St` (terms, ancilla counter, recorded constraints, warnings).

| Python | Lean |
|---|---|
| `PCBO()` | `pyNewPCBO` (the empty state) |
| a PCBO used as an operand of `+ - *` | `St.val s` (its terms as a `PCBO`-typed value) |
| `self.add_constraint_eq_zero(P, lam, bounds=(lo, hi))` (no `suppress_warnings`: default `False`) | `pyAddEqZero self P lam lo hi` = the model's `eqZeroV`: `P = PUBO(P)`, then `addEqZero` (tied to the code by C02 and by the generated `_get_bounds` / decision chain of `add_constraint_eq_zero`) |

The method mutates `self` and returns it; the translated methods return the new state.
Core Lean only (no Mathlib).
-/
namespace Qv.Gen

/-- `PCBO()` -/
def pyNewPCBO : St := St.fresh

/-- `self.add_constraint_eq_zero(P, lam, bounds=(lo, hi))` -/
def pyAddEqZero (self : St) (P : Val) (lam lo hi : Rat) : Except Err St := eqZeroV self P lam lo hi

end Qv.Gen
