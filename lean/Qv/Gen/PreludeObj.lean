import Qv.Model.Sat
import Qv.Gen.PreludeM
/-!
# Qv.Gen.PreludeObj — meaning of Python's operators and constructors on qubovert objects

Hand-written and **trusted** (DESIGN.md §7).  A Python value that is a number, a plain dict or a model
object is a `Qv.Val`; an argument that may also be a label is a `Qv.SVal`.  The translator maps

| Python | Lean |
|---|---|
| `a + b`, `a - b`, `a * b`, `a ** n`, `-a` on such values | `Val.add`, `Val.sub`, `Val.mul`, `Val.pow`, `Val.neg` (`Qv/Model/Expr.lean`: Python's operator dispatch incl. the reflected methods; tied to the code by C05) |
| an int literal used as such an operand | `Val.num n` |
| `isinstance(x, qv.BOOLEAN_MODELS)` / `isinstance(x, dict)` | `pyIsBooleanModel x` / `pyIsDict x` |
| `x.copy()` | `pyCopy x` |
| `qv.PUBO()` / `qv.PUBO({…})` / `qv.PUBO(x)` (any class name of the ten) | `pyNew0 κ` / `pyNewDict κ d` / `pyNew κ x` |
| `x` as an element of a key tuple `(x,)` | `pyLabel x` |
| a value passed where a label-or-value is expected | `SVal.val v` |

Core Lean only (no Mathlib).
-/
namespace Qv.Gen

/-- the five classes of `qv.BOOLEAN_MODELS = QUBO, PUBO, PCBO, QUBOMatrix, PUBOMatrix` -/
def pyBooleanKind : Kind → Bool
  | .qubo | .pubo | .pcbo | .qubom | .pubom => true
  | _ => false

/-- `isinstance(x, qv.BOOLEAN_MODELS)` -/
def pyIsBooleanModel : SVal → Bool
  | .val (.mdl κ _) => pyBooleanKind κ
  | _ => false

/-- `isinstance(x, dict)`: a plain dict, or a model object (all ten classes derive from `dict`) -/
def pyIsDict : SVal → Bool
  | .val (.mdl _ _) => true
  | .val (.raw _) => true
  | _ => false

/-- `x.copy()`: `DictArithmetic.copy` is `self.__class__(self)`; `dict.copy`; labels and numbers have no
`copy` -/
def pyCopy : SVal → Except Err Val
  | .val (.mdl κ p) => Val.cast κ (.mdl κ p)
  | .val (.raw p) => .ok (.raw p)
  | _ => .error .attr

/-- `qv.<Class>()` -/
def pyNew0 (κ : Kind) : Val := .mdl κ []

/-- `qv.<Class>({key: value, …})` -/
def pyNewDict (κ : Kind) (d : Poly) : Except Err Val := Val.cast κ (.raw d)

/-- `qv.<Class>(x)`; a label is not a mapping (`TypeError`) -/
def pyNew (κ : Kind) : SVal → Except Err Val
  | .val v => Val.cast κ v
  | .lbl _ => .error .type

/-- `x` used as an element of a key tuple: a label is itself; a dict or model object is unhashable
(`TypeError`).  A *computed number* (`.val (.num _)`) would be a legal label in Python but has no label id
in this universe (labels are ids, DESIGN.md §3.1): it is read as `TypeError` too, and the equivalence
theorems that go through this case exclude such operands explicitly (`BoolOperand`). -/
def pyLabel : SVal → Except Err Var
  | .lbl i => .ok i
  | .val _ => .error .type

end Qv.Gen
