import Qv.Model.Problems2
import Qv.Gen.PreludeM
/-!
# Qv.Gen.PreludeProblems — meaning of the Python primitives used by the problem classes (`qubovert/problems`, C10)

Hand-written and **trusted** (DESIGN.md §7).  The functions generated into `Qv/Gen/SourceProblems.lean` by
`harness/tie_ext/problems.py` are rendered in monadic mode: every operation that may raise is an `Except Err _`
action bound in Python's evaluation order.  Each definition below is the literal reading of ONE Python / qubovert /
numpy primitive; the encoding logic of a problem class (which keys, which coefficients, which loops, which
comparisons) is in the generated text, not here.

Representation of the instance data (`self._…` attributes; they are parameters of the generated functions — the
`__init__` methods are not translated):
* a list / tuple / 1-d numpy array of numbers is a `List Rat`; a 2-d array a `List (List Rat)`;
* a Python `set` / `dict` that is iterated is the list of its elements / items in iteration order (DESIGN.md §3.4);
* a dict `x ↦ i` built by `enumerate` (`_vertex_to_index`) and its inverse (`_index_to_vertex`) are both given by the
  list of the `x` in index order: `d[x]` is `pyIndexOf`, `inv[i]` is `pyDictAt`;
* a solver output (`solution`: dict, list or tuple of numbers) is its list of `(index, value)` items `Qv.Sol` plus the
  flag `…_is_dict` (`Qv.Model.Convert`); a Python `set` *result* is the sorted duplicate-free list (`pySortedSet`).
* a `QUBOMatrix` / `QUSOMatrix` / the terms of a `PCBO` / `PCSO` object is its term list `Poly`; the kind is static.
  The item and arithmetic operations on it are the model's `DictArithmetic` layer (`Qv.Model.Arith`; tied to the
  source by the groups ArithTerms / Normalize / Convert / Logic of C05, C04, C06).
Core Lean only (no Mathlib).
-/
namespace Qv.Gen
open Qv Qv.Prob

/-- `for a in l: …` building a list with an element expression that may raise (`[e for a in l]`, `tuple(e for …)`,
a dict comprehension's items): the elements left to right, or the first exception -/
def pyMapM {α β : Type} (l : List α) (f : α → Except Err β) : Except Err (List β) :=
  match l with
  | [] => .ok []
  | a :: r => f a >>= fun b => pyMapM r f >>= fun bs => .ok (b :: bs)

/-- `range(a, b)` for natural numbers: `a, a+1, …, b-1` -/
def pyRange2 (a b : Nat) : List Nat := (List.range (b - a)).map (fun i => a + i)

/-- `l[i]` on a list / tuple / numpy row (`IndexError` when out of range) -/
def pyListAt {α : Type} (l : List α) (i : Nat) : Except Err α :=
  match l[i]? with
  | some v => .ok v
  | none => .error .index

/-- `d[i]` on a dict `{0: x₀, 1: x₁, …}` given by the list of its values (`KeyError` when absent) -/
def pyDictAt {α : Type} (l : List α) (i : Nat) : Except Err α :=
  match l[i]? with
  | some v => .ok v
  | none => .error .key

/-- `d[x]` on a dict `{x₀: 0, x₁: 1, …}` given by the list of its keys (`KeyError` when absent) -/
def pyIndexOf (l : List Var) (x : Var) : Except Err Nat :=
  match l with
  | [] => .error .key
  | a :: r => if a = x then .ok 0 else pyIndexOf r x >>= fun i => .ok (i + 1)

/-- `sum(l)` of numbers: left to right from `0` -/
def pySum (l : List Rat) : Rat := l.foldl (fun acc x => acc + x) 0

/-- `set(l)` of labels as a value: the sorted duplicate-free list -/
def pySortedSet (l : List Var) : List Var := squashB l

/-- `solution[i]` on a solver output (`KeyError` for a dict, `IndexError` for a list / tuple) -/
def pySolGet (s : Sol) (isDict : Bool) (i : Nat) : Except Err Rat := solGet s isDict i

/-- `spin_to_boolean(solution)` (`qubovert/utils/_conversions.py`) on a container: `{-1: 1, 1: 0}[v]` for every value -/
def pySpinToBoolean (s : Sol) : Except Err Sol := solMap s2bVal s

/-- `boolean_to_spin(solution)` -/
def pyBooleanToSpin (s : Sol) : Except Err Sol := solMap b2sVal s

/-! ### Matrix objects (`κ` is the static class of the receiver) -/

/-- `M[k] += v` -/
def pyMatIAddItem (κ : Kind) (M : Poly) (k : Key) (v : Rat) : Except Err Poly := addTerm (squash κ) M k v
/-- `M[k] = v` -/
def pyMatSetItem (κ : Kind) (M : Poly) (k : Key) (v : Rat) : Except Err Poly := setItem (squash κ) M k v
/-- `M += c` for a number `c` -/
def pyMatIAddNum (κ : Kind) (M : Poly) (c : Rat) : Except Err Poly := iaddC (squash κ) M c
/-- `M += R` for a dict / Matrix / model `R` -/
def pyMatIAdd (κ : Kind) (M R : Poly) : Except Err Poly := iaddD (squash κ) M R
/-- `M *= R` -/
def pyMatIMul (κ : Kind) (M R : Poly) : Except Err Poly := imulD (squash κ) M R
/-- `Cls(d)` for a dict `d` -/
def pyMatOfDict (κ : Kind) (d : Poly) : Except Err Poly := construct (squash κ) d
/-- `c * M` / `M * c` for a number `c`: `M.copy()` then `*= c` -/
def pyMatMulNum (κ : Kind) (M : Poly) (c : Rat) : Except Err Poly :=
  construct (squash κ) M >>= fun cp => imulC (squash κ) cp c
/-- `M * R`: `M.copy()` then `*= R` -/
def pyMatMul (κ : Kind) (M R : Poly) : Except Err Poly :=
  construct (squash κ) M >>= fun cp => imulD (squash κ) cp R

/-- `PCBO().add_constraint_OR(a, b, lam=lam)` for two labels: the terms of the resulting PCBO
(`qubovert/_pcbo.py`, tied to the model's `consOR` by the group Logic of C06) -/
def pyPcboOR (a b : Var) (lam : Rat) : Except Err Poly :=
  consOR St.fresh [.lbl a, .lbl b] lam >>= fun st => .ok st.terms

/-- `PCSO().add_constraint_eq_zero(H, lam=lam)` on a fresh PCSO: the terms it ends with (`qubovert/_pcso.py`,
tied by the groups PcsoCons / Bounds of C03) -/
def pyPcsoEqZero (H : Poly) (lam : Rat) : Except Err Poly := pcsoEqZeroTerms H lam

/-! ### numpy on small arrays (lists) -/

/-- `S @ np.array([x]).T` for a 2-d `S` and a 1-d `x`: the column of the row-by-`x` dot products -/
def pyMatVec (S : List (List Rat)) (x : List Rat) : List Rat := S.map (fun row => dot row x)
/-- `np.array_equal(l, r)` on two columns -/
def pyArrayEqual (l r : List Rat) : Bool := decide (l = r)
/-- `np.allclose(l, r)` on two columns of the same length (default tolerances: the model's `closeTo`) -/
def pyAllClose (l r : List Rat) : Bool := (l.zip r).all (fun ab => closeTo ab.1 ab.2)

end Qv.Gen
