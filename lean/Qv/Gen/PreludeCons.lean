import Qv.Model.Basic
import Qv.Gen.PreludeM
/-!
# Qv.Gen.PreludeCons — the statements of the PCBO / PCSO constraint methods that the translator abstracts

Hand-written and **trusted** (DESIGN.md §7).  In the *decision chains* of
`PCBO.add_constraint_{lt,le,gt,ge,ne}_zero` and in the bodies of `PCSO.add_constraint_*_zero` the objects
`self`, `P`, `lam`, `bounds` are opaque; a statement that acts on them is listed verbatim in the registry
(`harness/translate.py`, tables `CONS_EFFECTS`, `PCSO_EFFECTS`) and rendered as the constant below that names
it, applied to the translated values of the number-typed locals it mentions (`{min_val}` …).  Everything else —
the comparisons on the bounds, their order, the arithmetic on `min_val` / `max_val` / `v`, the loop over
`range(num_bits(…))`, which statements run in which branch and in which order — is translated construct by
construct.  What each constant *does* to the model state is written out in `Qv/Proofs/GenEq/Cons.lean`
(`runCEff`) and `Qv/Proofs/GenEq/PcsoCons.lean` (`runSEff`), inside the statements of the equivalence theorems.
-/
namespace Qv.Gen

/-- statements of the PCBO comparison-constraint methods -/
inductive CEff where
  | warn (msg : String)            -- `QUBOVertWarning.warn(msg)`
  | iaddLamP                       -- `self += lam * P`
  | iaddLam                        -- `self += lam`
  | pAddOne                        -- `P = P + 1`
  | pCopy                          -- `P = P.copy()`
  | slack (v : Rat)                -- `P[(self._next_ancilla,)] += v`
  | newSign                        -- `sign = 2 * boolean_var(self._next_ancilla) - 1`
  | pAddSign                       -- `P += sign`
  | pAddSignAnc (v : Rat)          -- `P += sign * v * boolean_var(self._next_ancilla)`
  | callEq (lo hi : Rat)           -- `self.add_constraint_eq_zero(P, lam=lam, bounds=(lo, hi), suppress_warnings=True)`
  | callLe (lo hi : Rat)           -- `self.add_constraint_le_zero(P, lam=lam, log_trick=log_trick, bounds=(lo, hi), suppress_warnings=True)`
  | callLtNeg (b : Rat × Rat) (sup : Bool)  -- `self.add_constraint_lt_zero(-P, lam=lam, log_trick=log_trick, bounds=b, suppress_warnings=sup)`
  | callLeNeg (b : Rat × Rat) (sup : Bool)  -- `self.add_constraint_le_zero(-P, lam=lam, log_trick=log_trick, bounds=b, suppress_warnings=sup)`
  | callGt (lo hi : Rat) (sup : Bool)       -- `self.add_constraint_gt_zero(P, lam=lam, bounds=(lo, hi), suppress_warnings=sup)` (no `log_trick`: its default)
  | callLt (lo hi : Rat) (sup : Bool)       -- `self.add_constraint_lt_zero(P, lam=lam, bounds=(lo, hi), suppress_warnings=sup)` (no `log_trick`: its default)
  | pop (rel : String)             -- `self._pop_constraint(rel)`
  deriving DecidableEq, Repr

/-- `P.offset` (`PUBOMatrix.offset`): `self[()]`, i.e. `self.get((), 0)` -/
def pyOffset (P : Poly) : Rat := get P []

/-- `set(a) == set(b)` for two collections of numbers -/
def pySetEq (a b : List Rat) : Bool := a.all (fun x => b.contains x) && b.all (fun x => a.contains x)

/-- statements of `_special_constraints_le_zero` -/
inductive LEff where
  | sum1            -- `pcbo += lam * P * P_wo_offset / 2`
  | newAncillas     -- `ancillas = PUBO()`
  | ancilla         -- `ancillas[(pcbo._next_ancilla,)] += 1`
  | diff            -- `diff = P_wo_offset - ancillas`
  | addDiffSq       -- `pcbo += lam * diff * diff`
  | keysOfPwo       -- `variables = tuple(P_wo_offset.keys())`
  | xyOfKeys        -- `x, y = AND(*variables[0]), AND(*variables[1])`
  | addOrPenalty    -- `pcbo += PCBO().add_constraint_OR(x, y, lam=lam)`
  | coef            -- `coef = {v: k for k, v in P.items()}`
  | xyOfCoef        -- `x, y = AND(*coef[1]), AND(*coef[-1])`
  | addXnotY        -- `pcbo += lam * x * (1 - y)`
  deriving DecidableEq, Repr

/-- statements of the six `PCSO.add_constraint_*_zero` methods (`rel` is the relation's name as it occurs in the
statement: in `_append_constraint(rel, H)` resp. in the method name `add_constraint_<rel>_zero` of the helper call) -/
inductive SEff where
  | spinCopy                       -- `H = PUSO(H)`
  | append (rel : String)          -- `self._append_constraint(rel, H)`
  | helper (rel : String)          -- `h = _empty_pcbo(self).add_constraint_<rel>_zero(puso_to_pubo(H), lam=lam, [log_trick=log_trick,] bounds=bounds, suppress_warnings=suppress_warnings)`
  | copyAncilla                    -- `self._ancilla = h._ancilla`
  | iaddConverted                  -- `self += pubo_to_puso(h)`
  deriving DecidableEq, Repr

end Qv.Gen
