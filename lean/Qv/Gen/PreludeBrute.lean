import Qv.Model.Brute
import Qv.Gen.Prelude
/-!
# Qv.Gen.PreludeBrute — the dict operations of the bookkeeping in `_solve_bruteforce`

Hand-written and **trusted** (DESIGN.md §7).  An assignment `x` built by the enumeration is an opaque
`Qv.Brute.Assign`; `all_sols` is a dict from `None`/number to a list of assignments, an association list in
insertion order.  Core Lean only.
-/
namespace Qv.Gen

/-- `d.setdefault(k, []).append(x)` on a dict whose values are lists: append to the list stored under `k`,
inserting `k` (at the end) with `[x]` when absent -/
def pySetdefaultAppend {κ α : Type} [DecidableEq κ] (d : List (κ × List α)) (k : κ) (x : α) : List (κ × List α) :=
  match d with
  | [] => [(k, [x])]
  | (k', l) :: r => if k' = k then (k', l ++ [x]) :: r else (k', l) :: pySetdefaultAppend r k x

end Qv.Gen
