import Qv.Gen.Search.Values
import Qv.Gen.Search.Extrema
import Qv.Gen.Search.Bits
import Qv.Gen.Search.Lam
import Qv.Gen.Search.Bounds
import Qv.Gen.Search.Convert
import Qv.Gen.Search.Sat
import Qv.Gen.Search.Cons
import Qv.Gen.Search.ConsSpecial
import Qv.Gen.Search.Logic
import Qv.Gen.Search.PcsoCons
import Qv.Gen.Search.Brute
import Qv.Gen.Search.ConvGen
import Qv.Gen.Search.ArithTerms
import Qv.Gen.Search.Normalize
/-! all distinguishing-input searches (one module per GenEq group); built on demand by `harness/gen_search.py` -/
