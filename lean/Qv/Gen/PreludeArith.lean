import Qv.Model.Book
import Qv.Gen.PreludeBook
/-!
# Qv.Gen.PreludeArith — operands, live dict views and untied method calls of the `DictArithmetic` operators (C05, C07, C14)

Hand-written and **trusted** (DESIGN.md §7); used by the whole-function tie of `__iadd__ … __ipow__` and of the copying
wrappers (`harness/tie_ext/arith.py`, generated file `Qv/Gen/SourceArith.lean`).  The object is the record `Obj` of
`PreludeBook.lean`; `self[k] op= v` is rendered by the translator with the generated `cls_getitem` / `cls_setitem`
(method resolution computed from the class headers).  Every definition below is the literal reading of ONE Python
primitive; which operand is snapshotted when, what is cleared, in which order items are visited, what is copied and what
is returned all come out of the generated text.

All names carry the tag `ar2`.  Core Lean only.
-/
namespace Qv.Gen
open Qv

/-- the right operand `other` of an operator method: a number, a dict (a plain `dict` or a model object — every model class
is a `dict` subclass) that is a different object from `self`, seen through its items in dict order, or `self` itself
(`d -= d`, `a *= a`: then every read of `other` reads the live `self`) -/
inductive ArOperand_ar2 where
  | num (c : Rat)
  | dict (items : Poly)
  | self
  deriving Repr, Inhabited

/-- `isinstance(other, dict)` -/
def pyIsDict_ar2 : ArOperand_ar2 → Bool
  | .num _ => false
  | _ => true

/-- `tuple(other.items())` / `other.items()` evaluated NOW (a snapshot): `AttributeError` on a number; the items of the
live `self` when `other is self` -/
def pyItems_ar2 (self : Obj) : ArOperand_ar2 → Except Err Poly
  | .num _ => .error .attr
  | .dict q => .ok q
  | .self => .ok self.terms

/-- `other` used as a number (`self[()] += other`, `self[k] *= other`): `TypeError` when it is a dict -/
def pyNum_ar2 : ArOperand_ar2 → Except Err Rat
  | .num c => .ok c
  | _ => .error .type

/-- `other` handed on to a method of ANOTHER object `d` (`d = self.copy(); d += other`): if it names the caller's `self`
it is, for `d`, a distinct dict with `self`'s current items (the callee mutates only `d`) -/
def pyResolve_ar2 (self : Obj) : ArOperand_ar2 → ArOperand_ar2
  | .self => .dict self.terms
  | o => o

/-- a model object (`old = self.copy()`) used as the operand of an operator of another object -/
def pyOfObj_ar2 (o : Obj) : ArOperand_ar2 := .dict o.terms

/-- a numeric literal used as an operand (`-1 * self`) -/
def pyOfNum_ar2 (c : Rat) : ArOperand_ar2 := .num c

/-- `tuple(self.items())` -/
def pySelfItems_ar2 (self : Obj) : Poly := self.terms

/-- `tuple(self.keys())` -/
def pySelfKeys_ar2 (self : Obj) : List Key := self.terms.map Prod.fst

/-- `len(self)` -/
def pyLen_ar2 (self : Obj) : Nat := self.terms.length

/-- iteration over the LIVE view `self.items()` while the body mutates `self` (CPython `dictiter_iternextitem`): every
`next()` — also the last one, which finds the view exhausted — first compares the dict's size with the size at the start
and raises `RuntimeError` (`Err.other`) when it changed; otherwise the item at the next position is read from the live
dict (its current value).  `n0` the size at the start, `i` the position, the first argument the number of `next()` calls
left that can yield.  (A body that removes one key and adds another in the same step keeps the size; CPython's entry
table then has a hole and this position-based reading is no longer exact.  No tied body does that.) -/
def pyLiveSelf_ar2 (body : Obj → Key × Rat → Except Err Obj) (n0 : Nat) : Nat → Nat → Obj → Except Err Obj
  | 0, _, s => if s.terms.length = n0 then .ok s else .error .other
  | fuel + 1, i, s =>
    if s.terms.length ≠ n0 then .error .other
    else match s.terms[i]? with
      | none => .ok s
      | some kv => body s kv >>= fun s' => pyLiveSelf_ar2 body n0 fuel (i + 1) s'

/-- `for k, v in other.items(): body` WITHOUT a snapshot: `AttributeError` on a number; a dict that is another object is
not changed by the body (the body writes `self` only), so its items are visited in order; `other is self` iterates the
live view (`pyLiveSelf_ar2`) -/
def pyForLive_ar2 (self : Obj) (other : ArOperand_ar2) (body : Obj → Key × Rat → Except Err Obj) : Except Err Obj :=
  match other with
  | .num _ => .error .attr
  | .dict q => pyForM q self body
  | .self => pyLiveSelf_ar2 body self.terms.length self.terms.length 0 self

/-- the exponent of `**`: its numeric value and whether it is an instance of `int` (a `Fraction` or `float` is not, even
when its value is integral) -/
structure ArExp_ar2 where
  val : Rat
  isInt : Bool
  deriving Repr, Inhabited

/-- `isinstance(exponent, int)` -/
def pyExpIsInt_ar2 (e : ArExp_ar2) : Bool := e.isInt

/-- `exponent - n` for an int literal `n`: the type of the result is the type of `exponent` -/
def pyExpSub_ar2 (e : ArExp_ar2) (n : Nat) : ArExp_ar2 := { e with val := e.val - (n : Rat) }

/-- `range(x)`: `TypeError` unless `x` is an int; the ints `0 … x-1` (none for `x ≤ 0`) -/
def pyRange_ar2 (x : ArExp_ar2) : Except Err (List Nat) :=
  if x.isInt then .ok (List.range x.val.floor.toNat) else .error .type

/-- `range(a, x)` for a non-negative int literal `a`: `TypeError` unless `x` is an int; the ints `a … x-1` (none for `x ≤ a`) -/
def pyRangeFrom_ar2 (a : Nat) (x : ArExp_ar2) : Except Err (List Nat) :=
  if x.isInt then .ok (List.range' a (x.val.floor.toNat - a)) else .error .type

/-- `a / b` on coefficients: `ZeroDivisionError` for `b == 0` -/
def pyDiv_ar2 (a b : Rat) : Except Err Rat := if b = 0 then .error .zerodiv else .ok (a / b)

/-- Methods of the object that are NOT tied by this unit (their own tie belongs to the bookkeeping unit): every generated
definition takes them as a parameter, and the `*_eq_model` theorems instantiate them with the model's functions
(`Qv.ArithOps.modelMethods`), so a tie of `clear` / `copy` composes with these theorems by rewriting.
* `clear` — `self.clear()` (for the model classes `PUBOMatrix.clear`: `dict.clear(self); self.__init__()`),
* `copy`  — `self.copy()` = `self.__class__(self)`: a fresh object, or the exception its constructor raised. -/
structure ArMethods_ar2 where
  clear : Obj → Obj
  copy : Obj → Except Err Obj

end Qv.Gen
