import Qv.Model.Book
import Qv.Gen.PreludeM
/-!
# Qv.Gen.PreludeBook — explicit object state and the Python primitives of the bookkeeping layer (C14, C05)

Hand-written and **trusted** (DESIGN.md §7).  The methods tied in `Qv/Gen/SourceBook.lean` read and write attributes
of `self`; the translator (`harness/tie_ext/book.py`) threads `self` through the statements as a value of the record
`Obj` below and renders every attribute read / write as a field read / `{ self with … }`.  Each definition here is the
literal reading of ONE Python primitive on that representation; none of them decides *when* a label is registered,
*when* the degree grows or *what* a key is squashed to — that logic is in the generated text.

Representation (the same as the hand-written model's, DESIGN.md §2.1, §3):
* the object is `Qv.Book.State`: `kind` is `self.__class__` (one of the ten model classes; `.dict` = a plain
  `DictArithmetic`), `terms` the dict itself (insertion-ordered association list), `mapping` / `reverse` the dicts
  `_mapping` / `_reverse_mapping`, `nextLabel` = `_next_label`, `variables` = the set `_variables` (kept in order of
  first insertion; every consumer is order-insensitive), `numVars` = `_num_binary_variables`, `degree` = `_degree`
  (`none` is `-float("inf")`), `ancilla` = `_ancilla`, `constraints` = `_constraints` (the dict of lists
  `{rel: [P, …]}` is kept as the list of `(rel, P)` pairs in append order; the list of one relation is the sub-list
  of the pairs with that relation);
* labels are natural numbers (§3.1): equality, hashing and `ordering_key` order of labels are `=` and `≤` on `Nat`;
  a constraint ancilla `"__a%d" % k` is `ANC + k`;
* a Python `set` of labels is a duplicate-free list.

Core Lean only.
-/
namespace Qv.Gen
open Qv

/-- the explicit state of a model object (`self`) -/
abbrev Obj := Qv.Book.State

/-- `-float("inf")` as a value of `_degree` -/
def pyNegInf : Option Nat := none

/-- `max(a, b)` for `a` a cached degree (`-inf` or an int) and `b` an int: `a` unless `b` is strictly larger -/
def pyMaxDeg (a : Option Nat) (b : Nat) : Option Nat :=
  match a with
  | none => some b
  | some m => if m < b then some b else some m

/-- `a < b` for `a` a cached degree (`-inf` or an int) and `b` an int -/
def pyDegLt (a : Option Nat) (b : Nat) : Bool :=
  match a with
  | none => true
  | some m => decide (m < b)

/-- `a <= b` for `a` a cached degree and `b` an int -/
def pyDegLe (a : Option Nat) (b : Nat) : Bool :=
  match a with
  | none => true
  | some m => decide (m ≤ b)

/-- an int stored into `_degree` -/
def pyDegOfNat (n : Nat) : Option Nat := some n

/-- `x in s` for a set (or tuple) of labels -/
def pyIn (x : Var) (s : List Var) : Bool := s.contains x

/-- `s.add(x)` on a set of labels -/
def pySetAdd (s : List Var) (x : Var) : List Var := if s.contains x then s else s ++ [x]

/-- `set(key)`: the distinct labels of a tuple (iteration order of a Python set is arbitrary; here: first occurrence) -/
def pySet (l : List Var) : List Var := l.foldl pySetAdd []

/-- `k in d` for a dict kept as an association list -/
def pyMapHas {α β : Type} [BEq α] (d : List (α × β)) (k : α) : Bool := d.any (fun p => p.1 == k)

/-- `d[k] = v` on a dict kept as an association list: update in place (position kept) or append -/
def pyMapStore {α β : Type} [BEq α] (d : List (α × β)) (k : α) (v : β) : List (α × β) :=
  match d with
  | [] => [(k, v)]
  | p :: r => if p.1 == k then (k, v) :: r else p :: pyMapStore r k v

/-- `str(type(x))` of a label: one fixed string, labels of one model have one type in the model universe (§3.1) -/
def pyTypeStr (_x : Var) : String := "<class 'int'>"

/-- `isinstance(x, int)` of a label of a Matrix key: true in the model universe (malformed keys are exercised by the
correspondence only) -/
def pyIsInt (_x : Var) : Bool := true

/-- the value `ordering_key` returns: the tuple `(str, label)` -/
abbrev OKey := String × Var

/-- `a <= b` on such tuples (Python compares tuples lexicographically) -/
def pyOKeyLe (a b : OKey) : Bool := decide (a.1 < b.1) || (a.1 == b.1 && decide (a.2 ≤ b.2))

/-- insertion of `a` before the first element whose sort key is not smaller (one step of a stable sort) -/
def pyInsertSorted (key : Var → OKey) (a : Var) : List Var → List Var
  | [] => [a]
  | b :: r => if pyOKeyLe (key a) (key b) then a :: b :: r else b :: pyInsertSorted key a r

/-- `sorted(l, key=key)`: the stable sort of `l` by `key` -/
def pySorted (key : Var → OKey) (l : List Var) : List Var := l.foldr (pyInsertSorted key) []

/-- `f or e` where `f` is `None` or a tuple: `e` when `f` is `None` or the empty tuple -/
def pyOrKey (f : Option Key) (e : Key) : Key :=
  match f with
  | none => e
  | some k => if k = [] then e else k

/-- `dict.__setitem__(self, key, value)` (what `super().__setitem__` is in `DictArithmetic`) -/
def pyDictStore (self : Obj) (key : Key) (value : Rat) : Obj := { self with terms := put self.terms key value }

/-- `self.pop(key, 0)` as a statement (the popped value is dropped) -/
def pyDictPop (self : Obj) (key : Key) : Obj := { self with terms := erase self.terms key }

/-- `self.get(key, 0)` -/
def pyDictGet (self : Obj) (key : Key) : Rat := get self.terms key

/-- `dict.clear(self)` -/
def pyDictClear (self : Obj) : Obj := { self with terms := [] }

/-- `max(s)` of a set of labels (`ValueError` when empty) -/
def pyMaxVars : List Var → Except Err Var
  | [] => .error .value
  | a :: r => .ok (r.foldl (fun m x => if m < x then x else m) a)

/-- `"__a%d" % n`: the label of the constraint ancilla number `n` (§3.1: `ANC + n`) -/
def pyAncName (n : Int) : Var := ANC + n.toNat

/-- `self._constraints.setdefault(key, []).append(c)` on the pair-list representation -/
def pyConsAppend (cs : List (Rel × Poly)) (key : Rel) (c : Poly) : List (Rel × Poly) := cs ++ [(key, c)]

end Qv.Gen
