import Qv.Gen.PreludeProblems
import Qv.Model.BruteEntry
/-!
# Qv.Gen.PreludeProblems2 — further Python primitives used by the problem classes (second wave; C10, C09)

Hand-written and **trusted** (DESIGN.md §7), on top of `Qv/Gen/PreludeProblems.lean`.  Each definition is the literal reading of
ONE Python primitive as `harness/tie_ext/problems2.py` renders it; the encoding logic of `SetCover` / `JobSequencing` /
`Problem.solve_bruteforce` (which keys, coefficients, loops, tests) is in the generated text (`Qv/Gen/SourceProblems5.lean`).
Every name carries the tag of this unit where it could clash (`pyLazy…`, `pyComp…`, `pb2…`).  Core Lean only.
-/
namespace Qv.Gen
open Qv Qv.Prob

/-- `filter(test, src)`: a lazy iterator.  It is given by the source elements in order, each paired with the outcome of the test
on it (the test has no side effects, so when it is evaluated is observable only through the position of an exception) -/
def pb2LazyFilter {α : Type} (src : List α) (test : α → Except Err Bool) : List (α × Except Err Bool) :=
  src.map (fun a => (a, test a))

/-- `for a in <filter object>: body` (no `return` in the body): per source element first the test — an exception ends the
loop, `False` skips the element — then the body -/
def pb2ForLazyM {α σ : Type} (l : List (α × Except Err Bool)) (s : σ) (body : σ → α → Except Err σ) : Except Err σ :=
  match l with
  | [] => .ok s
  | (a, t) :: r => t >>= fun b => if b then body s a >>= fun s' => pb2ForLazyM r s' body else pb2ForLazyM r s body

/-- `[elt a for a in l if test a]` (also as the argument of `set` / `tuple`) where test and element may raise: per source
element the test, then (when true) the element -/
def pb2CompM {α β : Type} (l : List α) (test : α → Except Err Bool) (elt : α → Except Err β) : Except Err (List β) :=
  match l with
  | [] => .ok []
  | a :: r => test a >>= fun b =>
    if b then elt a >>= fun y => pb2CompM r test elt >>= fun ys => .ok (y :: ys) else pb2CompM r test elt

/-- the elements of `e for a in A for b in B(a)`, given the per-`a` lists in order -/
def pb2Flatten {α : Type} (ll : List (List α)) : List α := ll.flatMap id

/-- `s.add(x)` on a set of labels (sorted duplicate-free list) -/
def pb2SetAdd (s : List Var) (x : Var) : List Var := insertU x s

/-- `t[i].add(x)` on a tuple of sets (`IndexError` when `i` is out of range) -/
def pb2TupSetAdd (t : List (List Var)) (i : Nat) (x : Var) : Except Err (List (List Var)) :=
  match t[i]? with
  | some s => .ok (t.set i (insertU x s))
  | none => .error .index

/-- state of nested `for` loops that may `return`: still running with the locals `σ`, or returned `ρ` -/
inductive Pb2Ret (ρ σ : Type) where
  | run : σ → Pb2Ret ρ σ
  | ret : ρ → Pb2Ret ρ σ

/-- `for a in l: body` where the body may raise and may `return`: after a `return` nothing more runs -/
def pb2ForRetM {α ρ σ : Type} (l : List α) (s : σ) (body : σ → α → Except Err (Pb2Ret ρ σ)) : Except Err (Pb2Ret ρ σ) :=
  match l with
  | [] => .ok (.run s)
  | a :: r => body s a >>= fun st =>
    match st with
    | .run s' => pb2ForRetM r s' body
    | .ret v => .ok (.ret v)

/-! ### `Problem.solve_bruteforce` -/

/-- `Q = dict(qubo)` of a `QUBOMatrix`: the plain dict with the same items -/
def pb2DictOf (Q : Poly) : Poly := Q

/-- `Q.setdefault(k, 0)` on a plain dict -/
def pb2Setdefault0 (Q : Poly) (k : Key) : Poly := if hasKey Q k then Q else Q ++ [(k, 0)]

/-- `solve_qubo_bruteforce(Q, all_solutions)[1]` on a plain dict `Q` (`valid` defaulted: always true): the model's solver
(`Qv.Model.Brute`, tied to `_solve_bruteforce` by the groups Brute / BruteWhole of C09); `order` is the iteration order of the
set of variables the solver collects from the keys -/
def pb2SolveQubo (Q : Poly) (allS : Bool) (order : List Var) : Except Err Brute.Sol :=
  Brute.solveMethod .qubo (Brute.ofDict Q) allS (fun _ => true) order

/-- `solve_qubo_bruteforce(Q, all_solutions, valid)` on a plain dict `Q`: both components of the model's solver result.  The
model's solver takes a total `valid`; an exception of the given `valid` is read as `False` (it does not arise on the assignments
the solver builds when `valid` is total on them — the hypothesis under which this reading is the solver's behaviour) -/
def pb2SolveQuboValid (Q : Poly) (allS : Bool) (valid : Sol → Except Err Bool) (order : List Var) :
    Except Err (Option Rat × Brute.Sol) :=
  (Brute.solve .qubo (Brute.ofDict Q) allS (fun x => match valid x with | .ok b => b | .error _ => false) order).map
    (fun o => (o.obj, o.sol))

/-- `for x in sol` / `[… for x in sol]` where `sol` is the second component of the solver's result: with `all_solutions` it is a
list of dicts.  (A dict result would be iterated by its keys; the solver never returns one when `all_solutions` is true —
`pb2_solve_shape` in `Qv/Proofs/GenEq/Problems9.lean` — so that combination is read as `TypeError`.) -/
def pb2SolIter : Brute.Sol → Except Err (List Sol)
  | .many xs => .ok xs
  | .one _ => .error .type

/-- `sol` handed to a function that expects the dict (`all_solutions` false; the other combination cannot occur and is read as
`TypeError`) -/
def pb2SolDict : Brute.Sol → Except Err Sol
  | .one x => .ok x
  | .many _ => .error .type

/-! ### solution containers that are tuples -/

/-- a tuple / list of numbers as a solution container: `enumerate` of it -/
def pb2Enumerate (l : List Rat) : Sol := (List.range l.length).zip l

/-- `sorted(solution.items())` for a dict with distinct integer keys: the items in ascending key order -/
def pb2SortedItems (s : Sol) : List (Nat × Rat) := sortItems s

/-- `for x in solution` on a solver output: the keys of a dict, the elements of a list / tuple -/
def pb2SolIterVals (s : Sol) (isDict : Bool) : List Rat := if isDict then s.map (fun kv => (kv.1 : Rat)) else s.map Prod.snd

end Qv.Gen
