import Qv.Gen.SourceConv2
import Qv.Gen.Search.Lib
import Qv.Model.Convert
/-! distinguishing-input search for the group `Conv2Free` (the whole free conversions, C04): every type × a stream of
term lists (raw dicts: unsorted / repeated labels / long keys; the same lists are also fed under the model types) -/
namespace Qv.Gen.Search

def convKinds : List Kind := [.dict, .qubo, .quso, .pubo, .puso, .pcbo, .pcso, .qubom, .qusom, .pubom, .pusom]

def showObj (r : Except Err ConvObj) : String := showExcept (fun o => o.kind.name ++ " " ++ jPoly o.items) r

def asObjS (κ : Kind) (r : Except Err Poly) : Except Err ConvObj := r >>= fun t => .ok ⟨κ, t⟩

private def freeSearch (name : String) (gen : ConvObj → Except Err ConvObj) (rk : Kind → Kind) (model : Kind → Poly → Except Err Poly) : String :=
  report name (pairs convKinds polys)
    (fun i => showObj (gen ⟨i.1, i.2⟩) != showObj (asObjS (rk i.1) (model i.1 i.2)))
    (fun i => jObj [("kind", jStr i.1.name), ("items", jPoly i.2)])
    (fun i => showObj (gen ⟨i.1, i.2⟩)) (fun i => showObj (asObjS (rk i.1) (model i.1 i.2)))

def search_qubo_to_quso : String := freeSearch "qubo_to_quso" qubo_to_quso kindQuboToQuso quboToQuso
def search_quso_to_qubo : String := freeSearch "quso_to_qubo" quso_to_qubo kindQusoToQubo qusoToQubo
def search_pubo_to_puso : String := freeSearch "pubo_to_puso" pubo_to_puso kindPuboToPuso puboToPuso
def search_puso_to_pubo : String := freeSearch "puso_to_pubo" puso_to_pubo kindPusoToPubo pusoToPubo

end Qv.Gen.Search
