import Qv.Gen.Search.Anneal
/-! distinguishing-input search for the group `AnnealSched` (`_create_spin_schedule`; C11, C12) -/
namespace Qv.Gen.Search
open Qv Qv.Anneal

def search_create_spin_schedule : String :=
  let grids : List (Except Err (List Rat)) := [.ok [2, 1, 1/2], .ok [], .error .value]
  let inputs : List (Schedule Rat) := [.explicit [], .explicit [1, 0], .explicit [0, 0, 3]] ++
    (pairs ["linear", "geometric", "cubic", "", "Linear"] grids).map (fun p => Schedule.named p.1 p.2)
  let sh (r : Except Err (List Rat)) := showExcept (jList ratStr) r
  let name : Schedule Rat → String
    | .explicit Ts => jList ratStr Ts
    | .named n g => jStr n ++ " with grid " ++ sh g
  report "create_spin_schedule" inputs
    (fun s => sh (pySegFinish (create_spin_schedule s) pyNamedGrid) != sh (createSchedule s))
    (fun s => jObj [("schedule", jStr (name s))]) (fun s => sh (pySegFinish (create_spin_schedule s) pyNamedGrid))
    (fun s => sh (createSchedule s))

end Qv.Gen.Search
