import Qv.Gen.SourcePcsoGlue
import Qv.Gen.Search.Lib
/-! distinguishing-input search for the group `PcsoGlue` (`_empty_pcbo`, `PCSO.is_solution_valid`; C03): PCSO states with
several ancilla counters, terms and recorded constraints; every relation with a spin-constraint value below, at and above
zero, alone and in pairs, at the spin values `z0 = 1` and `z0 = -1` -/
namespace Qv.Gen.Search
open Qv Qv.Pcso

def relsU2 : List Rel := [.eq, .ne, .lt, .le, .gt, .ge]
def relNameU2 : Rel → String
  | .eq => "eq" | .ne => "ne" | .lt => "lt" | .le => "le" | .gt => "gt" | .ge => "ge"
def spinConsU2 : List Poly := [[([], -1)], [], [([], 1)], [([0], 1), ([], -1)], [([0], 1), ([], 1)], [([0], -2)]]
def singleU2 : List (List (Rel × Poly)) := (pairs relsU2 spinConsU2).map (fun c => [c])
def conssU2 : List (List (Rel × Poly)) := [[]] ++ singleU2 ++ (pairs singleU2 singleU2).map (fun p => p.1 ++ p.2)
def jConsU2 (c : List (Rel × Poly)) : String := jList (fun c => "[" ++ jStr (relNameU2 c.1) ++ ", " ++ jPoly c.2 ++ "]") c

def showStU2 (h : St) : String :=
  "anc " ++ jNat h.anc ++ " | terms " ++ jPoly h.terms ++ " | constraints " ++ jConsU2 h.cons ++ " | warnings " ++ jNat h.warns.length

def search_empty_pcbo_u2 : String :=
  let states : List PSt := (pairs (pairs [0, 1, 2, 7] [[], [([0], 1)], [([0, 1], -2), ([], 3)]]) [[], [(Rel.le, [([0], 1)])]]).map
    (fun i => { terms := i.1.2, anc := i.1.1, cons := i.2 })
  report "empty_pcbo_u2" states (fun s => showStU2 (empty_pcbo_u2 s) != showStU2 (emptyPcbo s))
    (fun s => jObj [("ancilla", jNat s.anc), ("terms", jPoly s.terms), ("constraints", jConsU2 s.cons)])
    (fun s => showStU2 (empty_pcbo_u2 s)) (fun s => showStU2 (emptyPcbo s))

def search_pcso_is_solution_valid_u2 : String :=
  let zs : List (Var → Rat) := [fun _ => 1, fun _ => -1]
  let inputs := pairs conssU2 [0, 1]
  let z (i : List (Rel × Poly) × Nat) : Var → Rat := zs.getD i.2 (fun _ => 1)
  report "pcso_is_solution_valid_u2" inputs
    (fun i => pcso_is_solution_valid_u2 i.1 (z i) != Pcso.isValid { cons := i.1 } (z i))
    (fun i => jObj [("constraints", jConsU2 i.1), ("z0", if i.2 = 0 then "1" else "-1")])
    (fun i => boolStr (pcso_is_solution_valid_u2 i.1 (z i))) (fun i => boolStr (Pcso.isValid { cons := i.1 } (z i)))

end Qv.Gen.Search
