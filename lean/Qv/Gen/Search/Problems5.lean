import Qv.Gen.Search.Problems5Lib
/-! distinguishing-input search for the group `Problems5` (SetCover without `to_qubo`; C10) -/
namespace Qv.Gen.Search
open Qv Qv.Prob

def search_SetCover_num_binary_variables : String :=
  let g (p : SC) := SetCover_num_binary_variables p.U p.V p.weights p.logTrick p.M p.logM p.N p.n
  let m (p : SC) : Except Err Nat := .ok p.numVars
  report "SetCover_num_binary_variables" pb2ScInstances (fun i => showExcept jNat (g i) != showExcept jNat (m i))
    (fun i => jObj (pb2JSC i)) (fun i => showExcept jNat (g i)) (fun i => showExcept jNat (m i))

/-- `_x(alpha, m)` on `alpha ∈ U`, `m` in the range the encoding uses -/
def search_SetCover__x : String :=
  let inputs := pb2ScInstances.flatMap (fun p => pairs (pairs [p] p.U) (if p.logTrick then List.range (p.logM + 1) else (List.range p.M).map (· + 1)))
  let g (i : (SC × Var) × Nat) := (SetCover__x i.1.1.U i.1.1.V i.1.1.weights i.1.1.logTrick i.1.1.M i.1.1.logM i.1.1.N i.1.1.n i.1.2 i.2)
  let m (i : (SC × Var) × Nat) : Except Err Int := .ok ((i.1.1.x (i.1.1.U.idxOf i.1.2) i.2 : Nat) : Int)
  report "SetCover__x" inputs (fun i => showExcept jInt (g i) != showExcept jInt (m i))
    (fun i => jObj (pb2JSC i.1.1 ++ [("alpha", jNat i.1.2), ("m", jNat i.2)])) (fun i => showExcept jInt (g i)) (fun i => showExcept jInt (m i))

/-- `list(_filtered_range(alpha, start))` -/
def search_SetCover__filtered_range : String :=
  let inputs := pb2ScInstances.flatMap (fun p => pairs (pairs [p] (p.U ++ [7])) (List.range (p.N + 2)))
  let g (i : (SC × Var) × Nat) : Except Err (List Nat) :=
    (SetCover__filtered_range i.1.1.U i.1.1.V i.1.1.weights i.1.1.logTrick i.1.1.M i.1.1.logM i.1.1.N i.1.1.n i.1.2 i.2) >>= fun F =>
      pb2ForLazyM F [] (fun acc k => .ok (acc ++ [k]))
  let m (i : (SC × Var) × Nat) : Except Err (List Nat) := .ok (i.1.1.filtered i.1.2 i.2)
  report "SetCover__filtered_range" inputs (fun i => pb2ShowNatsE (g i) != pb2ShowNatsE (m i))
    (fun i => jObj (pb2JSC i.1.1 ++ [("alpha", jNat i.1.2), ("start", jNat i.2)])) (fun i => pb2ShowNatsE (g i)) (fun i => pb2ShowNatsE (m i))

/-- solver outputs over all `num_binary_variables` labels would be too many: the subset bits vary over everything, the ancilla
bits over all-0 / all-1 / all-(-1) (what decides the boolean-vs-spin detection) -/
def pb2ScSols (p : SC) : List (Sol × Bool) :=
  let mk (vals : List Rat) : Sol := (List.range vals.length).zip vals
  let anc := p.numVars - p.N
  ((tuples [0, 1] p.N ++ tuples [1, -1] p.N).flatMap (fun v =>
    ([0, 1, -1] : List Rat).flatMap (fun a => [(mk (v ++ List.replicate anc a), false), ((mk (v ++ List.replicate anc a)).reverse, true)]))) ++
  [(mk (List.replicate p.N 2), false), (mk (List.replicate (p.N - 1) 1), false), (mk (List.replicate (p.N - 1) 0), true)]

def pb2ScSolInputs : List (SC × Sol × Bool × Bool) :=
  (pb2ScInstances.filter (fun p => p.N ≤ 3)).flatMap (fun p => (pb2ScSols p).flatMap (fun sd => bools.map (fun sp => (p, sd.1, sd.2, sp))))

def pb2JScSol (i : SC × Sol × Bool × Bool) : String :=
  jObj (pb2JSC i.1 ++ [("solution", jSol i.2.1), ("is_dict", jBool i.2.2.1), ("spin", jBool i.2.2.2)])

def search_SetCover_convert_solution : String :=
  let g (i : SC × Sol × Bool × Bool) :=
    SetCover_convert_solution i.1.U i.1.V i.1.weights i.1.logTrick i.1.M i.1.logM i.1.N i.1.n i.2.1 i.2.2.1 i.2.2.2
  let m (i : SC × Sol × Bool × Bool) := i.1.convert i.2.1 i.2.2.1 i.2.2.2
  report "SetCover_convert_solution" pb2ScSolInputs (fun i => pb2ShowNatsE (g i) != pb2ShowNatsE (m i)) pb2JScSol
    (fun i => pb2ShowNatsE (g i)) (fun i => pb2ShowNatsE (m i))

def search_SetCover_is_solution_valid : String :=
  let g (i : SC × Sol × Bool × Bool) :=
    SetCover_is_solution_valid i.1.U i.1.V i.1.weights i.1.logTrick i.1.M i.1.logM i.1.N i.1.n i.2.1 i.2.2.1 i.2.2.2
  let m (i : SC × Sol × Bool × Bool) := i.1.valid i.2.1 i.2.2.1 i.2.2.2
  report "SetCover_is_solution_valid" pb2ScSolInputs (fun i => showBoolE (g i) != showBoolE (m i)) pb2JScSol
    (fun i => showBoolE (g i)) (fun i => showBoolE (m i))

def pb2Subsets : List Nat → List (List Nat)
  | [] => [[]]
  | a :: r => (pb2Subsets r).flatMap (fun s => [s, a :: s])

def search_SetCover_is_solution_valid_converted : String :=
  let inputs := pb2ScInstances.flatMap (fun p => pairs [p] (pb2Subsets (List.range p.N)))
  let g (i : SC × List Var) := SetCover_is_solution_valid_converted i.1.U i.1.V i.1.weights i.1.logTrick i.1.M i.1.logM i.1.N i.1.n i.2 false
  let m (i : SC × List Var) : Except Err Bool := .ok (i.1.validConv i.2)
  report "SetCover_is_solution_valid_converted" inputs (fun i => showBoolE (g i) != showBoolE (m i))
    (fun i => jObj (pb2JSC i.1 ++ [("cover", showNats i.2)])) (fun i => showBoolE (g i)) (fun i => showBoolE (m i))

end Qv.Gen.Search
