import Qv.Gen.SourceProblems9
import Qv.Gen.Search.ProblemsLib
/-! distinguishing-input search for the group `Problems9` (Problem.solve_bruteforce; C10, C09): the child's `to_qubo` result is the
input dict, its `convert_solution` the identity, the variable set is enumerated in ascending order -/
namespace Qv.Gen.Search
open Qv Qv.Prob

def pb2Qubos : List Poly :=
  [[], [([], 3)], [([0], -1), ([0, 2], 2)], [([0], 1), ([1], -1)], [([0, 1], -2), ([0], 1), ([1], 1)], [([1], 0)],
   [([0, 1], 1), ([1, 2], 1), ([0], -1), ([2], -1), ([], 2)], [([2], -1)], [([0], 0), ([1], 0)], [([0, 0], -1), ([1], 1/2)],
   [([3], 1), ([0, 3], -2)]]

def pb2Order (Q : Poly) (N : Nat) : List Var := squashB ((Brute.padQ Q N).flatMap (fun kv => kv.1))
def pb2SortSol (x : Sol) : Sol := sortItems x
def pb2ShowOne (r : Except Err Sol) : String := showExcept (fun x => jSol (pb2SortSol x)) r
def pb2ShowAll (r : Except Err (List Sol)) : String := showExcept (jList (fun x => jSol (pb2SortSol x))) r
def pb2JIn (i : Poly × Nat) : String := jObj [("Q", jPoly i.1), ("N", jNat i.2)]

def search_Problem_solve_bruteforce_one : String :=
  let inputs := pairs pb2Qubos [0, 1, 2, 3, 4]
  let g (i : Poly × Nat) := Problem_solve_bruteforce_one i.2 (fun x => (.ok x : Except Err Sol)) false i.1 (pb2Order i.1 i.2)
  let m (i : Poly × Nat) : Except Err Sol := Brute.problemSolve i.1 i.2 false (pb2Order i.1 i.2) >>= fun sol =>
    match sol with | .one x => .ok x | .many _ => .error .type
  report "Problem_solve_bruteforce_one" inputs (fun i => pb2ShowOne (g i) != pb2ShowOne (m i)) pb2JIn
    (fun i => pb2ShowOne (g i)) (fun i => pb2ShowOne (m i))

def search_Problem_solve_bruteforce_all : String :=
  let inputs := pairs pb2Qubos [0, 1, 2, 3, 4]
  let g (i : Poly × Nat) := Problem_solve_bruteforce_all i.2 (fun x => (.ok x : Except Err Sol)) true i.1 (pb2Order i.1 i.2)
  let m (i : Poly × Nat) : Except Err (List Sol) := Brute.problemSolve i.1 i.2 true (pb2Order i.1 i.2) >>= fun sol =>
    match sol with | .many xs => .ok xs | .one _ => .error .type
  report "Problem_solve_bruteforce_all" inputs (fun i => pb2ShowAll (g i) != pb2ShowAll (m i)) pb2JIn
    (fun i => pb2ShowAll (g i)) (fun i => pb2ShowAll (m i))

end Qv.Gen.Search
