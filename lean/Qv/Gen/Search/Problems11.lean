import Qv.Gen.SourceProblems11
import Qv.Gen.Search.Problems5Lib
/-! distinguishing-input search for the group `Problems11` (SetCover.solve_bruteforce; C10, C09): the variable set of the
objective dict `{(i,): w_i}` is enumerated in ascending order -/
namespace Qv.Gen.Search
open Qv Qv.Prob

def pb2ShowCovers (r : Except Err (List (List Nat))) : String := showExcept (jList showNats) r

def search_SetCover_solve_bruteforce_all : String :=
  let g (p : SC) := SetCover_solve_bruteforce_all p.U p.V p.weights p.logTrick p.M p.logM p.N p.n true (List.range p.N)
  let m (p : SC) := p.solveBruteforce true (List.range p.N)
  report "SetCover_solve_bruteforce_all" pb2ScInstances (fun i => pb2ShowCovers (g i) != pb2ShowCovers (m i))
    (fun i => jObj (pb2JSC i)) (fun i => pb2ShowCovers (g i)) (fun i => pb2ShowCovers (m i))

def search_SetCover_solve_bruteforce_one : String :=
  let g (p : SC) : Except Err (List (List Nat)) :=
    SetCover_solve_bruteforce_one p.U p.V p.weights p.logTrick p.M p.logM p.N p.n false (List.range p.N) >>= fun r => .ok [r]
  let m (p : SC) := p.solveBruteforce false (List.range p.N)
  report "SetCover_solve_bruteforce_one" pb2ScInstances (fun i => pb2ShowCovers (g i) != pb2ShowCovers (m i))
    (fun i => jObj (pb2JSC i)) (fun i => pb2ShowCovers (g i)) (fun i => pb2ShowCovers (m i))

end Qv.Gen.Search
