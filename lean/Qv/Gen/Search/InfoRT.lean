import Qv.Gen.SourceInfoRT
import Qv.Gen.Search.Lib
/-! distinguishing-input search for the group `InfoRT` (`get_info`, `create_from_info`; C19) -/
namespace Qv.Gen.Search
open Qv

def kinds : List Kind := [.dict, .qubo, .quso, .pubo, .puso, .pcbo, .pcso, .qubom, .qusom, .pubom, .pusom]
def names : List (Option String) := [none, some "m", some "", some "0"]
def consL : List (List (Rel × List Poly)) :=
  [[], [(.eq, [[([0], 1)]])], [(.le, [[([0, 1], 1), ([], -1)], [([2], 2)]]), (.eq, [[([1], 1)]])], [(.gt, [])]]

def mobjs : List MObj :=
  (pairs kinds (pairs names [(0 : Nat), 2])).flatMap (fun i =>
    consL.map (fun c => { kind := i.1, terms := [([0, 1], 1), ([2], -2)], name := i.2.1, mapping := [(0, 0), (1, 1), (2, 2)],
                          anc := i.2.2, cons := c }))

def search_get_info_fn : String :=
  let g (m : MObj) := showExcept (fun i => toString (repr i)) (get_info_fn m)
  let mo (m : MObj) := toString (repr (getInfo m))
  report "get_info_fn" mobjs (fun m => g m != mo m) (fun m => jStr (toString (repr m))) g mo

/-- well-formed infos: those `get_info` produces, plus absent / zero / `None` variants of the optional keys -/
def infos : List Info :=
  (mobjs.map getInfo) ++ (mobjs.map (fun m => { getInfo m with mapping := none })) ++
  (mobjs.map (fun m => { getInfo m with numAncillas := none, constraints := none })) ++
  (mobjs.map (fun m => { getInfo m with numAncillas := some 0, terms := [([1, 0], 2), ([0, 1], -2), ([3, 3], 1)] }))

def search_create_from_info_fn : String :=
  let g (i : Info) := showExcept (fun m => toString (repr m)) (create_from_info_fn i)
  let mo (i : Info) := showExcept (fun m => toString (repr m)) (createFromInfo i)
  report "create_from_info_fn" infos (fun i => g i != mo i) (fun i => jStr (toString (repr i))) g mo

end Qv.Gen.Search
