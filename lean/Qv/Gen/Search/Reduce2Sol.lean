import Qv.Gen.SourceReduce2Sol
import Qv.Gen.Search.Lib
/-! distinguishing-input search for the group `Reduce2Sol` (`PCBO.remove_ancilla_from_solution`, C08) -/
namespace Qv.Gen.Search
open Qv

private def rd2Sols : List Brute.Assign :=
  [ [], [(0, 1)], [(ANC, 1)], [(0, 1), (ANC, 0), (1, 0)], [(ANC + 1, 1), (ANC, 1)], [(3, 0), (ANC + 2, 1), (ANC - 1, 1), (7, 1)],
    [(ANC, 0), (0, 0), (ANC + 5, 1), (2, 1), (ANC + 1, 0)] ]
private def rd2JSol (s : Brute.Assign) : String := jList (fun p => "[" ++ jNat p.1 ++ ", " ++ jRat p.2 ++ "]") s

def search_rd2_remove_ancilla : String :=
  report "rd2_remove_ancilla" rd2Sols (fun s => rd2_remove_ancilla s != Workflow.removeAncilla s)
    (fun s => jObj [("solution", rd2JSol s)]) (fun s => rd2JSol (rd2_remove_ancilla s)) (fun s => rd2JSol (Workflow.removeAncilla s))

end Qv.Gen.Search
