import Qv.Gen.Search.Problems7
/-! distinguishing-input search for the group `Problems8` (JobSequencing.convert_solution / is_solution_valid; C10) -/
namespace Qv.Gen.Search
open Qv Qv.Prob

/-- solver outputs: the `m * N` assignment bits vary over everything (boolean and spin), the slack bits over all-0 / all-1 / all-(-1) -/
def pb2JsSols (p : JS) : List (Sol × Bool) :=
  let mk (vals : List Rat) : Sol := (List.range vals.length).zip vals
  let k := p.m * p.N
  let anc := p.numVars - k
  ((tuples [0, 1] k ++ tuples [1, -1] k).flatMap (fun v =>
    ([0, 1, -1] : List Rat).flatMap (fun a => [(mk (v ++ List.replicate anc a), false), ((mk (v ++ List.replicate anc a)).reverse, true)]))) ++
  [(mk (List.replicate k 2), false), (mk (List.replicate (k - 1) 1), false), (mk (List.replicate (k - 1) 0), true)]

def pb2JsSolInputs : List (JS × Sol × Bool × Bool) :=
  (pb2JsInstances.filter (fun p => p.m * p.N ≤ 4)).flatMap (fun p => (pb2JsSols p).flatMap (fun sd => bools.map (fun sp => (p, sd.1, sd.2, sp))))

def pb2JJsSol (i : JS × Sol × Bool × Bool) : String :=
  jObj (pb2JJS i.1 ++ [("solution", jSol i.2.1), ("is_dict", jBool i.2.2.1), ("spin", jBool i.2.2.2)])
def pb2ShowSetsE (r : Except Err (List (List Var))) : String := showExcept (jList showNats) r

def search_JobSequencing_convert_solution : String :=
  let g (i : JS × Sol × Bool × Bool) :=
    JobSequencing_convert_solution i.1.lengths (pb2Keys i.1) i.1.m i.1.logTrick i.1.maxL i.1.N i.1.M i.1.logM i.2.1 i.2.2.1 i.2.2.2
  let m (i : JS × Sol × Bool × Bool) := i.1.convert i.2.1 i.2.2.1 i.2.2.2
  report "JobSequencing_convert_solution" pb2JsSolInputs (fun i => pb2ShowSetsE (g i) != pb2ShowSetsE (m i)) pb2JJsSol
    (fun i => pb2ShowSetsE (g i)) (fun i => pb2ShowSetsE (m i))

def search_JobSequencing_is_solution_valid : String :=
  let g (i : JS × Sol × Bool × Bool) :=
    JobSequencing_is_solution_valid i.1.lengths (pb2Keys i.1) i.1.m i.1.logTrick i.1.maxL i.1.N i.1.M i.1.logM i.2.1 i.2.2.1 i.2.2.2
  let m (i : JS × Sol × Bool × Bool) := i.1.valid i.2.1 i.2.2.1 i.2.2.2
  report "JobSequencing_is_solution_valid" pb2JsSolInputs (fun i => showBoolE (g i) != showBoolE (m i)) pb2JJsSol
    (fun i => showBoolE (g i)) (fun i => showBoolE (m i))

def search_JobSequencing_is_solution_valid_converted : String :=
  let cs : List (List (List Var)) := [[], [[0], [1]], [[0, 1], []], [[0], [0, 1]], [[1], [0], [2]], [[0], []], [[2], [0]], [[0, 2], [1]],
    [[0, 1, 2]], [[3, 5], []], [[5], [3], []], [[0], [1], [1]], [[0, 7]], [[1, 0]]]
  let inputs := pairs pb2JsInstances cs
  let g (i : JS × List (List Var)) :=
    JobSequencing_is_solution_valid_converted i.1.lengths (pb2Keys i.1) i.1.m i.1.logTrick i.1.maxL i.1.N i.1.M i.1.logM i.2 false
  let m (i : JS × List (List Var)) : Except Err Bool := .ok (i.1.validConv i.2)
  report "JobSequencing_is_solution_valid_converted" inputs (fun i => showBoolE (g i) != showBoolE (m i))
    (fun i => jObj (pb2JJS i.1 ++ [("assignment", jList showNats i.2)])) (fun i => showBoolE (g i)) (fun i => showBoolE (m i))

end Qv.Gen.Search
