import Qv.Gen.SourceStore
import Qv.Gen.Search.Lib
import Qv.Gen.Interp
/-! distinguishing-input search for the group `ArithTerms` (item statements of the `DictArithmetic` operators, C05) -/
namespace Qv.Gen.Search

private def showP (r : Except Err Poly) : String := showExcept jPoly r
private def base : Poly := [([], 1), ([0], 2), ([0, 1], -1)]
private def longKeys : List Key := keys ++ [List.range 31, List.range 40]

private def kvSearch (name : String) (gen : Key → Rat → List SOp) (model : Sq → Poly → Key → Rat → Except Err Poly) : String :=
  report name (pairs longKeys smallRats)
    (fun i => showP (applySOps (squash .pubo) base (gen i.1 i.2)) != showP (model (squash .pubo) base i.1 i.2))
    (fun i => jObj [("k", jKey i.1), ("v", jRat i.2)])
    (fun i => showP (applySOps (squash .pubo) base (gen i.1 i.2))) (fun i => showP (model (squash .pubo) base i.1 i.2))

def search_dict_iadd_term : String := kvSearch "dict_iadd_term" dict_iadd_term addTerm
def search_dict_isub_term : String := kvSearch "dict_isub_term" dict_isub_term (fun sq p k v => addTerm sq p k (-v))
def search_dict_imul_const_term : String := kvSearch "dict_imul_const_term" dict_imul_const_term mulItem

def search_dict_imul_row : String :=
  let qs := polys.filter (fun p => p.length ≤ 3)
  report "dict_imul_row" (pairs (pairs keys smallRats) qs)
    (fun i => showP (applySOps (squash .pubo) base (dict_imul_row i.1.1 i.1.2 i.2)) != showP (mulRow (squash .pubo) base i.1.1 i.1.2 i.2))
    (fun i => jObj [("k", jKey i.1.1), ("v", jRat i.1.2), ("oitems", jPoly i.2)])
    (fun i => showP (applySOps (squash .pubo) base (dict_imul_row i.1.1 i.1.2 i.2)))
    (fun i => showP (mulRow (squash .pubo) base i.1.1 i.1.2 i.2))

end Qv.Gen.Search
