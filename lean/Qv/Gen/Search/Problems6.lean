import Qv.Gen.Search.Problems5Lib
/-! distinguishing-input search for the group `Problems6` (SetCover.to_qubo, both slack encodings; C10) -/
namespace Qv.Gen.Search
open Qv Qv.Prob

def search_SetCover_to_qubo : String :=
  let ab : List (Option (Rat × Rat)) := [none] ++ (pairs [2, 1, 3, 1/2, -1, 1000001] [1, 2, 1/2, 0]).map some
  let inputs := pairs pb2ScInstances ab
  let g (i : SC × Option (Rat × Rat)) := match i.2 with
    | some ab => SetCover_to_qubo i.1.U i.1.V i.1.weights i.1.logTrick i.1.M i.1.logM i.1.N i.1.n ab.1 ab.2
    | none => SetCover_to_qubo_default i.1.U i.1.V i.1.weights i.1.logTrick i.1.M i.1.logM i.1.N i.1.n
  let m (i : SC × Option (Rat × Rat)) := match i.2 with
    | some ab => i.1.toQubo ab.1 ab.2
    | none => i.1.toQubo 2 1
  report "SetCover_to_qubo" inputs (fun i => showPoly (g i) != showPoly (m i))
    (fun i => jObj (pb2JSC i.1 ++ [("A", jOptR (i.2.map Prod.fst)), ("B", jOptR (i.2.map Prod.snd))]))
    (fun i => showPoly (g i)) (fun i => showPoly (m i))

end Qv.Gen.Search
