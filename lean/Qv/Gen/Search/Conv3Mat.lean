import Qv.Gen.SourceConv3Mat
import Qv.Gen.Search.Conv2Free
import Qv.Model.Convert
/-! distinguishing-input search for the group `Conv3Mat` (`matrix_to_qubo`, `qubo_to_matrix`, C04): matrices as lists of
lists (empty, ragged, non-square, square with zero / cancelling / asymmetric entries) and QUBO dicts × symmetric × array -/
namespace Qv.Gen.Search

def cv3Mats : List (List (List Rat)) :=
  [[], [[]], [[], []], [[1]], [[0]], [[-2]], [[1, 2], [3, 4]], [[0, 5], [0, 0]], [[0, 0], [5, 0]], [[0, 1], [-1, 0]],
   [[1, -1], [1, 0]], [[1, 2], [3]], [[1], [2, 3]], [[1, 2]], [[1], [2]], [[1, 2, 3], [4, 5, 6]], [[1, 2], [3, 4], [5, 6]],
   [[1, 2, 3], [4, 5, 6], [7, 8, 9]], [[0, 0, 1], [0, 0, 0], [2, 0, 0]], [[1/2, 0, 0], [3, -1/2, 0], [0, 7, 0]],
   [[0, 2, 0], [-2, 0, 0], [0, 0, 0]], [[1, 1, 1, 1], [0, 1, 0, 1], [1, 0, 0, 0], [0, 0, 2, 1]], [[1, 2, 3], [4, 5], [6, 7, 8]]]

def jRows (A : List (List Rat)) : String := jList (jList jRat) A

def search_cv3_matrix_to_qubo : String :=
  report "cv3_matrix_to_qubo" cv3Mats
    (fun A => showObj (cv3_matrix_to_qubo (.seq A)) != showObj (asObjS .qubom (matrixToQubo A)))
    (fun A => jObj [("rows", jRows A)])
    (fun A => showObj (cv3_matrix_to_qubo (.seq A))) (fun A => showObj (asObjS .qubom (matrixToQubo A)))

def cv3ShowRes (r : Except Err Cv3MatRes) : String :=
  showExcept (fun m => match m with
    | .list rows => "list " ++ jRows rows
    | .array a => "array " ++ jRows (cv3ToList a)) r

def cv3ModelRes (p : Poly) (sym arr : Bool) : Except Err Cv3MatRes :=
  quboToMatrix p false sym >>= fun A => .ok (if arr then .array ⟨A.length, (pairs (List.range A.length) (List.range A.length)).map
    (fun ij => ([ij.1, ij.2], (A.getD ij.1 []).getD ij.2 0))⟩ else .list A)

/-- QUBO dicts: the generic term lists, plus ones whose keys coincide after squashing, cancel, or have a gap in the labels -/
def cv3Qubos : List Poly :=
  polys ++ [[([1, 0], 3), ([1, 1], 2)], [([0, 1], 1), ([1, 0], 2), ([1], 5)], [([0], 1), ([0, 0], -1)], [([2, 0], 4)],
    [([0, 1], 2), ([1, 2], -3), ([2], 1), ([0], 7)], [([1, 0], 3), ([], 2)], [([1, 0], 3), ([], 0)], [([3], 1), ([0, 3], 1/2)]]

def search_cv3_qubo_to_matrix : String :=
  report "cv3_qubo_to_matrix" (pairs cv3Qubos (pairs bools bools))
    (fun i => cv3ShowRes (cv3_qubo_to_matrix ⟨false, i.1, none⟩ i.2.1 i.2.2) != cv3ShowRes (cv3ModelRes i.1 i.2.1 i.2.2))
    (fun i => jObj [("items", jPoly i.1), ("symmetric", jBool i.2.1), ("array", jBool i.2.2)])
    (fun i => cv3ShowRes (cv3_qubo_to_matrix ⟨false, i.1, none⟩ i.2.1 i.2.2)) (fun i => cv3ShowRes (cv3ModelRes i.1 i.2.1 i.2.2))

end Qv.Gen.Search
