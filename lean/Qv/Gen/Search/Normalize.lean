import Qv.Gen.SourceStore
import Qv.Gen.Search.Lib
import Qv.Gen.Interp
/-! distinguishing-input search for the group `Normalize` (C18) -/
namespace Qv.Gen.Search

private def showP (r : Except Err Poly) : String := showExcept jPoly r
private def ps : List Poly := polys ++ [[([0], -2000000000), ([1], 3)], [([0], 0)], [([0], 3), ([1], -3)]]

def search_normalize_fn : String :=
  report "normalize_fn" (pairs ps [(1 : Rat), 2, -1, 1/2])
    (fun i => showP (normalize_fn i.1 i.2 >>= runSets (.da .pubo) []) != showP (normalizeFn (.da .pubo) i.1 i.2))
    (fun i => jObj [("D", jPoly i.1), ("value", jRat i.2)])
    (fun i => showP (normalize_fn i.1 i.2 >>= runSets (.da .pubo) [])) (fun i => showP (normalizeFn (.da .pubo) i.1 i.2))

def search_normalize_method : String :=
  report "normalize_method" (pairs ps [(1 : Rat), 2, -1, 1/2])
    (fun i => showP (normalize_method i.1 i.2 >>= applySOps (squash .pubo) i.1) != showP (normalizeM .pubo i.1 i.2))
    (fun i => jObj [("self", jPoly i.1), ("value", jRat i.2)])
    (fun i => showP (normalize_method i.1 i.2 >>= applySOps (squash .pubo) i.1)) (fun i => showP (normalizeM .pubo i.1 i.2))

end Qv.Gen.Search
