import Qv.Gen.Source
import Qv.Gen.Search.Lib
import Qv.Model.Reduce
/-! distinguishing-input search for the group `Lam` (`PUBO.default_lam`) -/
namespace Qv.Gen.Search

def search_default_lam : String :=
  report "default_lam" rats (fun v => default_lam v != Qv.Reduce.defaultLam v) (fun v => jObj [("v", jRat v)])
    (fun v => ratStr (default_lam v)) (fun v => ratStr (Qv.Reduce.defaultLam v))

end Qv.Gen.Search
