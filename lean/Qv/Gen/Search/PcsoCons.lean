import Qv.Gen.SourcePcso
import Qv.Gen.Search.Lib
import Qv.Gen.Interp
/-! distinguishing-input search for the group `PcsoCons` (bodies of the six `PCSO.add_constraint_*_zero`, C03) -/
namespace Qv.Gen.Search
open Qv.Pcso

private def showP (r : Except Err PSt) : String := showExcept (fun s => toString (repr s)) r

private def pcsoSearch (name : String) (rel : Rel) (gen : Rat → List SEff) : String :=
  let Hs : List Poly := [[([0], 1), ([1, 2], -2)], [([], 1), ([0, 1], 1)], [([0, 0, 1], 3)]]
  let inputs := pairs Hs (pairs [(0 : Rat), 1, 3/2, -2, 12345] (pairs bools optBounds))
  let g (i : Poly × Rat × Bool × (Option Rat × Option Rat)) : Except Err PSt :=
    runBody i.2.1 i.2.2.1 i.2.2.2 false {} i.1 (gen i.2.1)
  let m (i : Poly × Rat × Bool × (Option Rat × Option Rat)) : Except Err PSt :=
    Pcso.addConstraint rel {} i.1 i.2.1 i.2.2.1 i.2.2.2 false
  report name inputs (fun i => showP (g i) != showP (m i))
    (fun i => jObj [("H", jPoly i.1), ("lam", jRat i.2.1), ("log_trick", jBool i.2.2.1),
      ("bounds", "[" ++ jOptRat i.2.2.2.1 ++ ", " ++ jOptRat i.2.2.2.2 ++ "]")])
    (fun i => showP (g i)) (fun i => showP (m i))

def search_pcso_add_constraint_eq_zero : String := pcsoSearch "pcso_add_constraint_eq_zero" .eq pcso_add_constraint_eq_zero
def search_pcso_add_constraint_ne_zero : String := pcsoSearch "pcso_add_constraint_ne_zero" .ne pcso_add_constraint_ne_zero
def search_pcso_add_constraint_lt_zero : String := pcsoSearch "pcso_add_constraint_lt_zero" .lt pcso_add_constraint_lt_zero
def search_pcso_add_constraint_le_zero : String := pcsoSearch "pcso_add_constraint_le_zero" .le pcso_add_constraint_le_zero
def search_pcso_add_constraint_gt_zero : String := pcsoSearch "pcso_add_constraint_gt_zero" .gt pcso_add_constraint_gt_zero
def search_pcso_add_constraint_ge_zero : String := pcsoSearch "pcso_add_constraint_ge_zero" .ge pcso_add_constraint_ge_zero

end Qv.Gen.Search
