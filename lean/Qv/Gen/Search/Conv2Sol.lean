import Qv.Gen.SourceConv2Sol
import Qv.Gen.Search.Lib
import Qv.Model.Convert
/-! distinguishing-input search for the group `Conv2Sol` (`boolean_to_spin` / `spin_to_boolean` on containers, the
four `convert_solution` methods, C04) -/
namespace Qv.Gen.Search

def jSolItems (l : List (Nat × Rat)) : String := jList (fun iv => "[" ++ jNat iv.1 ++ ", " ++ jRat iv.2 ++ "]") l
def showSol (r : Except Err SolC) : String :=
  showExcept (fun s => (if s.isDict then "dict " else "seq ") ++ jSolItems s.items) r
def showAssign (r : Except Err (List (Var × Rat))) : String := showExcept jSolItems r

/-- value lists: boolean, spin, all-ones (ambiguous), mixed / invalid, empty -/
def solVals : List (List Rat) := [[], [0], [1], [-1], [1, 1], [0, 1], [1, 0], [1, -1], [-1, 1], [0, -1], [-1, 0], [1, 1, 1],
  [1, 0, 1], [1, -1, 1], [-1, -1, -1], [0, 0, 0], [1, 1, 0], [1, 1, -1], [2], [1, 2], [0, 2], [-1, 2], [1/2, 0], [1, 0, -1, 1]]

/-- containers: every value list as a sequence and as a dict (keys 0..n-1 in order), plus dicts with permuted /
missing / extra keys -/
def convSols : List SolC :=
  solVals.map (fun l => ⟨false, (List.range l.length).zip l⟩) ++ solVals.map (fun l => ⟨true, (List.range l.length).zip l⟩) ++
  [⟨true, [(1, 0), (0, 1)]⟩, ⟨true, [(2, -1), (0, 1), (1, 1)]⟩, ⟨true, [(0, 1), (2, 0)]⟩, ⟨true, [(5, -1), (0, 1), (1, -1)]⟩,
   ⟨true, [(1, 1), (2, 1), (3, 0)]⟩]

private def mapSearch (name : String) (gen : SolC → Except Err SolC) (f : Rat → Except Err Rat) : String :=
  let m (s : SolC) : Except Err SolC := solMap f s.items >>= fun l => .ok ⟨s.isDict, l⟩
  report name convSols (fun s => showSol (gen s) != showSol (m s))
    (fun s => jObj [("is_dict", jBool s.isDict), ("items", jSolItems s.items)]) (fun s => showSol (gen s)) (fun s => showSol (m s))

def search_boolean_to_spin : String := mapSearch "boolean_to_spin" boolean_to_spin b2sVal
def search_spin_to_boolean : String := mapSearch "spin_to_boolean" spin_to_boolean s2bVal

/-- object convStates: (reverse mapping, num_binary_variables): consistent ones of 0..3 variables (labels ≠ indices), one
with more mapping entries than variables, one whose reverse mapping lacks an index -/
def convStates : List (PyMap × Nat) :=
  [([], 0), ([(0, 7)], 1), ([(0, 7), (1, 3)], 2), ([(0, 4), (1, 9), (2, 2)], 3), ([(0, 7), (1, 3), (2, 5)], 2), ([(0, 7)], 2)]

private def csSearch (name : String) (spinModel : Bool) (gen : ConvModel → SolC → Bool → Except Err (List (Var × Rat))) : String :=
  let κ : Kind := if spinModel then .quso else .qubo
  let mk (st : PyMap × Nat) : ConvModel := ⟨κ, [], st.1.map (fun ab => (ab.2, ab.1)), st.1, st.2⟩
  report name (pairs convStates (pairs convSols bools))
    (fun i => showAssign (gen (mk i.1) i.2.1 i.2.2) != showAssign (convertSolution spinModel i.1.1 i.1.2 i.2.1.items i.2.1.isDict i.2.2))
    (fun i => jObj [("rev", jSolItems (i.1.1.map (fun ab => (ab.1, (ab.2 : Rat))))), ("nvars", jNat i.1.2),
      ("is_dict", jBool i.2.1.isDict), ("items", jSolItems i.2.1.items), ("spin", jBool i.2.2)])
    (fun i => showAssign (gen (mk i.1) i.2.1 i.2.2))
    (fun i => showAssign (convertSolution spinModel i.1.1 i.1.2 i.2.1.items i.2.1.isDict i.2.2))

def search_QUBO_convert_solution : String := csSearch "QUBO_convert_solution" false QUBO_convert_solution
def search_QUSO_convert_solution : String := csSearch "QUSO_convert_solution" true QUSO_convert_solution
def search_PUBO_convert_solution : String := csSearch "PUBO_convert_solution" false PUBO_convert_solution
def search_PUSO_convert_solution : String := csSearch "PUSO_convert_solution" true PUSO_convert_solution

end Qv.Gen.Search
