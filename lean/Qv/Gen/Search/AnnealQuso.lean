import Qv.Gen.Search.Anneal
/-! distinguishing-input search for the group `AnnealQuso` (segments of `anneal_quso`; C11, C12, C17) -/
namespace Qv.Gen.Search
open Qv Qv.Anneal

def search_anneal_quso_dispatch : String :=
  report "anneal_quso_dispatch" objInputs
    (fun i => showDispatch (anneal_quso_dispatch (objOf i.1 i.2)) != showDispatch (dispatchQuso (objOf i.1 i.2)))
    jObjInput (fun i => showDispatch (anneal_quso_dispatch (objOf i.1 i.2))) (fun i => showDispatch (dispatchQuso (objOf i.1 i.2)))

def search_anneal_quso_state : String :=
  let inputs := pairs [0, 1, 2, 3, 4] (pairs revMaps (pairs initDicts [(-1 : Int), 0, 1, 3]))
  let g (i : Nat × List Var × Option (List (Var × Int)) × Int) := anneal_quso_state i.1 [([], 5/2), ([0], 1)] i.2.1 i.2.2.2 i.2.2.1
  let m (i : Nat × List Var × Option (List (Var × Int)) × Int) := srcState i.1 [([], 5/2), ([0], 1)] i.2.1 i.2.2.2 i.2.2.1
  let sh := showFlow (jList showRes) (jList (fun (x : Int) => toString x))
  report "anneal_quso_state" inputs (fun i => sh (g i) != sh (m i))
    (fun i => jObj [("N", jNat i.1), ("reverse_mapping", jKey i.2.1), ("initial_state", jInit i.2.2.1), ("num_anneals", jInt i.2.2.2)])
    (fun i => sh (g i)) (fun i => sh (m i))

def search_anneal_quso_flatten : String :=
  let inputs := pairs [0, 1, 2, 3, 4, 10] annealPolys
  let sh (r : Except Err (List Rat × List Nat × List Nat × List Rat)) := showExcept (fun t =>
    "h=" ++ jList ratStr t.1 ++ " num_neighbors=" ++ jKey t.2.1 ++ " neighbors=" ++ jKey t.2.2.1 ++ " J=" ++ jList ratStr t.2.2.2) r
  let g (i : Nat × Poly) := anneal_quso_flatten (fun (v : Rat) => v) i.1 i.2
  let m (i : Nat × Poly) := srcFlattenQuso (fun (v : Rat) => v) i.1 i.2
  report "anneal_quso_flatten" inputs (fun i => sh (g i) != sh (m i))
    (fun i => jObj [("N", jNat i.1), ("model", jPoly i.2)]) (fun i => sh (g i)) (fun i => sh (m i))

end Qv.Gen.Search
