import Qv.Gen.SourceSimplify
import Qv.Gen.Search.Lib
/-! distinguishing-input search for the group `Simplify` (`DictArithmetic.simplify`; C16): coefficients in ℚ[λ] (`RatPoly`) or
plain numbers; `simplify` on expressions is the identity (ℚ[λ] elements are kept in normal form); the resulting dict is shown
with every coefficient evaluated at `λ = c` -/
namespace Qv.Gen.Search
open Qv Qv.Sym

def jCoefU2 : PyCoef RatPoly → String
  | .num r => jObj [("num", jRat r)]
  | .sym e => jObj [("sym", jList jRat e.c)]
def jItemsU2 (d : CoefItems RatPoly) : String := jList (fun kv => "[" ++ jKey kv.1 ++ ", " ++ jCoefU2 kv.2 ++ "]") d
def showEvalU2 (c : Rat) (d : CoefItems RatPoly) : String := jPoly (d.map (fun kv => (kv.1, coefVal (RatPoly.evalAt c) kv.2)))

def coefsU2 : List (PyCoef RatPoly) :=
  [.num 1, .num (-2), .num (1/2), .sym RatPoly.X, .sym ⟨[-2, 1]⟩, .sym ⟨[0, 2]⟩, .sym ⟨[1, 0, 1]⟩, .sym ⟨[-1, 1/2]⟩, .sym ⟨[2, -2]⟩,
   .sym ⟨[0, 0, -3]⟩, .sym ⟨[]⟩, .num 0]
def itemListsU2 : List (CoefItems RatPoly) :=
  [[]] ++ coefsU2.map (fun c => [([0], c)]) ++ coefsU2.map (fun c => [([], 1 |> PyCoef.num), ([0, 1], c), ([2], .sym ⟨[-2, 1]⟩)]) ++
  coefsU2.map (fun c => [([1], c), ([0], .num 5), ([0, 2], c)]) ++
  [[([0], .sym ⟨[-2, 1]⟩), ([1], .sym ⟨[-1, 1]⟩), ([0, 1], .sym ⟨[2, -2]⟩)], [([0], .num 1), ([1], .num 2), ([], .num (-3))]]
def csU2 : List Rat := [1, 2, 1/2, 3, 0, -1]

def search_dict_simplify_u2 : String :=
  let inputs := pairs itemListsU2 csU2
  let g (i : CoefItems RatPoly × Rat) := showExcept (showEvalU2 i.2) (dict_simplify_u2 i.1 (fun e => e))
  let m (i : CoefItems RatPoly × Rat) := showEvalU2 i.2 (simplifyItems (fun e => e) i.1)
  report "dict_simplify_u2" inputs (fun i => g i != m i) (fun i => jObj [("items", jItemsU2 i.1), ("c", jRat i.2)]) g m

end Qv.Gen.Search
