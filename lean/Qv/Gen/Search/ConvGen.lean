import Qv.Gen.SourceConv
import Qv.Gen.Search.Lib
import Qv.Gen.Interp
/-! distinguishing-input search for the group `ConvGen` (`pubo_to_puso` / `puso_to_pubo` expansions, C04) -/
namespace Qv.Gen.Search

private def longKeys : List Key := keys ++ [[0, 1, 2, 3, 4], [5, 4, 3, 2, 1, 0], [0, 1, 2, 3, 4, 5, 6]]
private def showP (r : Except Err Poly) : String := showExcept jPoly r

private def genSearch (name : String) (gen model : Key → List (Key × Rat)) : String :=
  report name longKeys (fun k => gen k != model k) (fun k => jObj [("k", jKey k)]) (fun k => jPoly (gen k)) (fun k => jPoly (model k))

private def termSearch (name : String) (κ : Kind) (gen : Key → Rat → List (Key × Rat)) (model : Key → List (Key × Rat)) : String :=
  let acc : Poly := [([], 1), ([0], 2)]
  report name (pairs longKeys smallRats)
    (fun i => showP (applyUpdates (squash κ) acc (gen i.1 i.2)) != showP (addGen (squash κ) acc (model i.1) i.2))
    (fun i => jObj [("k", jKey i.1), ("v", jRat i.2)])
    (fun i => showP (applyUpdates (squash κ) acc (gen i.1 i.2))) (fun i => showP (addGen (squash κ) acc (model i.1) i.2))

def search_pubo_to_puso_generate : String := genSearch "pubo_to_puso_generate" pubo_to_puso_generate genB2S
def search_puso_to_pubo_generate : String := genSearch "puso_to_pubo_generate" puso_to_pubo_generate genS2B
def search_pubo_to_puso_term : String := termSearch "pubo_to_puso_term" .puso pubo_to_puso_term genB2S
def search_puso_to_pubo_term : String := termSearch "puso_to_pubo_term" .pubo puso_to_pubo_term genS2B

end Qv.Gen.Search
