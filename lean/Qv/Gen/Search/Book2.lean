import Qv.Gen.SourceBook2
import Qv.Model.Book2
import Qv.Gen.Search.Lib
/-! distinguishing-input search for the group `Book2` (constructors, clear, refresh, copy, mappings, constraint pops, the start
of the reduction ancillas; C14 / C19 / C08; tag `bk2`): generated definitions of `Qv/Gen/SourceBook2.lean` vs the model functions
of `Qv/Model/Book.lean` / `Qv/Model/Book2.lean` on object states reached by short edit histories of all ten classes — stale
caches, cancelled variables, constrained models with recorded constraints and a non-zero ancilla counter included — and on
constructor arguments of the own class, of another class, and plain dicts.  Trusted by no theorem. -/
namespace Qv.Gen.Search
open Qv Qv.Book

private def kinds2 : List Kind := [.qubo, .quso, .pubo, .puso, .pcbo, .pcso, .qubom, .qusom, .pubom, .pusom]

private def leC : Op := .cons .le [([0], 1), ([1], 1), ([2], 1), ([], -2)] 1 true none none
private def eqC : Op := .cons .eq [([0], 1), ([1], -1)] 2 true none none
private def hists2 : List (List Op) :=
  [ [], [.setitem [0] 1], [.setitem [1, 0] 2, .setitem [2] 3], [.setitem [0, 1] 1, .setitem [0, 1] 0],
    [.setitem [2] 1, .setitem [0] 1, .setitem [2, 2, 0] (-1)], [.setitem [1] 1, .setitem [1] 0, .setitem [4] 2],
    [.setitem [] 5], [.setitem [5] 1, .setitem [3] 1, .setitem [5] 0, .setitem [0, 3] 2],
    [leC], [eqC, leC], [leC, .setitem [0] 0, .setitem [7] 1], [.setitem [3] 2, leC, eqC, .isubSelf],
    [.setitem [1, 2, 3] 1, .setitem [0] 1, .setitem [0] 0] ]

private def states2 : List State := kinds2.flatMap (fun κ => hists2.map (Book.run Fix.fixed κ))

private def jOptNat2 : Option Nat → String
  | none => "null"
  | some n => jNat n
private def sortV2 (l : List Var) : List Var := l.foldr insertU []
private def relOrder : List Rel := [.eq, .ne, .lt, .le, .gt, .ge]
private def jCons2 (cs : List (Rel × Poly)) : String :=
  jList (fun c => "[" ++ jStr c.1.name ++ ", " ++ jPoly c.2 ++ "]")
    (relOrder.flatMap (fun r => cs.filter (fun c => decide (c.1 = r))))
def jStateBk2 (s : State) : String :=
  jObj [("kind", jStr s.kind.name), ("terms", jPoly s.terms),
    ("mapping", jList (fun p => "[" ++ jNat p.1 ++ ", " ++ jNat p.2 ++ "]") s.mapping),
    ("reverse", jList (fun p => "[" ++ jNat p.1 ++ ", " ++ jNat p.2 ++ "]") s.reverse),
    ("next_label", jNat s.nextLabel), ("variables", jKey (sortV2 s.variables)), ("num_binary_variables", jNat s.numVars),
    ("degree", jOptNat2 s.degree), ("ancilla", jNat s.ancilla), ("constraints", jCons2 s.constraints)]
private def showS2 (r : Except Err State) : String := showExcept jStateBk2 r
/-- a generated method that (after an edit of the source) no longer raises returns a plain state: both shapes are shown alike -/
class AsExceptBk2 (α : Type) where conv : α → Except Err State
instance : AsExceptBk2 State := ⟨Except.ok⟩
instance : AsExceptBk2 (Except Err State) := ⟨id⟩
private def showA {α : Type} [AsExceptBk2 α] (r : α) : String := showS2 (AsExceptBk2.conv r)
private def cmp2 {α : Type} (name : String) (xs : List α) (inp : α → String) (g m : α → String) : String :=
  report name xs (fun i => g i != m i) inp g m

private def dicts2 : List State :=
  [ { kind := .dict, terms := [([0], 1), ([1, 0], 2)] }, { kind := .dict, terms := [([0, 1, 2], 1), ([2], -1)] },
    { kind := .dict, terms := [([2, 2], 3), ([2], -3), ([], 1)] }, { kind := .dict, terms := [([0, 1], 1), ([1, 0], 2)] } ]
private def args2 : List (Option State) := [none] ++ (states2 ++ dicts2).map some
private def jArg (a : Option State) : String := match a with | none => "null" | some d => jStateBk2 d
private def sIn2 (s : State) : String := jObj [("self", jStateBk2 s)]
private def saIn (i : State × Option State) : String := jObj [("self", jStateBk2 i.1), ("arg", jArg i.2)]
private def someArgs : List (Option State) := args2.take 60 ++ dicts2.map some

/-- `T(arg)` / `T()` on a new object -/
private def castM (κ : Kind) (a : Option State) : Except Err State :=
  match a with
  | none => .ok (init κ)
  | some d => Book2.toExcept (Book.cast Fix.fixed d κ)

def search_cls_init_bk2 : String :=
  cmp2 "cls_init_bk2" (pairs kinds2 args2) (fun i => jObj [("kind", jStr i.1.name), ("arg", jArg i.2)])
    (fun i => showS2 (cls_init_bk2 i.1 (pyBk2New i.1) i.2)) (fun i => showS2 (castM i.1 i.2))

private def initM (s : State) (a : Option State) : Except Err State := Book2.toExcept (Book2.initWith Fix.fixed s a)
private def loopM (s : State) (a : Option State) : Except Err State :=
  Book2.toExcept (iaddLoop Fix.fixed s (Book2.argTerms a))
private def sa : List (State × Option State) := pairs (states2.filter (fun s => s.terms.length ≤ 1)) someArgs
private def saBO := sa.filter (fun i => hasBO i.1.kind)
private def saCons := sa.filter (fun i => hasCons i.1.kind)

def search_DictArithmetic_init_bk2 : String :=
  cmp2 "DictArithmetic_init_bk2" sa saIn (fun i => showS2 (DictArithmetic_init_bk2 i.1 i.2)) (fun i => showS2 (loopM i.1 i.2))
def search_PUBOMatrix_init_bk2 : String :=
  cmp2 "PUBOMatrix_init_bk2" sa saIn (fun i => showS2 (PUBOMatrix_init_bk2 i.1 i.2))
    (fun i => showS2 (loopM { i.1 with degree := none, variables := [], numVars := 0 } i.2))
def search_BO_init_bk2 : String :=
  cmp2 "BO_init_bk2" saBO saIn (fun i => jStateBk2 (BO_init_bk2 i.1 i.2))
    (fun i => jStateBk2 { i.1 with mapping := [], reverse := [], nextLabel := 0 })
private def boM (i : State × Option State) : String := showS2 (loopM (Book2.resetCaches i.1) i.2)
def search_PUBO_init_bk2 : String := cmp2 "PUBO_init_bk2" saBO saIn (fun i => showS2 (PUBO_init_bk2 i.1 i.2)) boM
def search_QUBO_init_bk2 : String := cmp2 "QUBO_init_bk2" saBO saIn (fun i => showS2 (QUBO_init_bk2 i.1 i.2)) boM
def search_PUSO_init_bk2 : String := cmp2 "PUSO_init_bk2" saBO saIn (fun i => showS2 (PUSO_init_bk2 i.1 i.2)) boM
def search_QUSO_init_bk2 : String := cmp2 "QUSO_init_bk2" saBO saIn (fun i => showS2 (QUSO_init_bk2 i.1 i.2)) boM
def search_cls_super_init_bk2 : String :=
  cmp2 "cls_super_init_bk2" saCons saIn (fun i => showS2 (cls_super_init_bk2 i.1.kind i.1 i.2)) boM
def search_cls_isinstance_bk2 : String :=
  cmp2 "cls_isinstance_bk2" (pairs (kinds2 ++ [.dict]) [Kind.pcbo, Kind.pcso])
    (fun i => jObj [("x", jStr i.1.name), ("cls", jStr i.2.name)])
    (fun i => boolStr (cls_isinstance_bk2 i.1 i.2)) (fun i => boolStr (decide (i.1 = i.2)))
def search_PCBO_constraints_bk2 : String :=
  cmp2 "PCBO_constraints_bk2" states2 sIn2 (fun s => jCons2 (PCBO_constraints_bk2 s)) (fun s => jCons2 s.constraints)
def search_PCSO_constraints_bk2 : String :=
  cmp2 "PCSO_constraints_bk2" states2 sIn2 (fun s => jCons2 (PCSO_constraints_bk2 s)) (fun s => jCons2 s.constraints)
def search_PCSO_num_ancillas_bk2 : String :=
  cmp2 "PCSO_num_ancillas_bk2" states2 sIn2 (fun s => jNat (PCSO_num_ancillas_bk2 s)) (fun s => jNat s.ancilla)
def search_cls_constraints_bk2 : String :=
  cmp2 "cls_constraints_bk2" states2 sIn2 (fun s => showExcept jCons2 (cls_constraints_bk2 s.kind s))
    (fun s => showExcept jCons2 (if hasCons s.kind then .ok s.constraints else .error .attr))
def search_cls_num_ancillas_bk2 : String :=
  cmp2 "cls_num_ancillas_bk2" states2 sIn2 (fun s => showExcept jNat (cls_num_ancillas_bk2 s.kind s))
    (fun s => showExcept jNat (if hasCons s.kind then .ok s.ancilla else .error .attr))
def search_PCBO_init_bk2 : String :=
  cmp2 "PCBO_init_bk2" saCons saIn (fun i => showS2 (PCBO_init_bk2 i.1 i.2)) (fun i => showS2 (initM i.1 i.2))
def search_PCSO_init_bk2 : String :=
  cmp2 "PCSO_init_bk2" saCons saIn (fun i => showS2 (PCSO_init_bk2 i.1 i.2)) (fun i => showS2 (initM i.1 i.2))

def search_DictArithmetic_copy_bk2 : String :=
  cmp2 "DictArithmetic_copy_bk2" states2 sIn2 (fun s => showA (DictArithmetic_copy_bk2 s))
    (fun s => showS2 (Book2.toExcept (Book.copy Fix.fixed s)))
def search_PUBOMatrix_refresh_bk2 : String :=
  cmp2 "PUBOMatrix_refresh_bk2" states2 sIn2 (fun s => showA (PUBOMatrix_refresh_bk2 s))
    (fun s => showS2 (Book2.toExcept (Book.refresh Fix.fixed s)))
def search_PUBOMatrix_clear_bk2 : String :=
  cmp2 "PUBOMatrix_clear_bk2" states2 (fun s => jObj [("self", jStateBk2 s), ("op", jStr "clear")])
    (fun s => showA (PUBOMatrix_clear_bk2 s)) (fun s => showS2 (.ok (Book.clear s)))

private def maps2 : List (List (Var × Nat)) := [[], [(0, 0)], [(0, 1), (1, 0)], [(3, 0), (1, 1), (2, 2)], [(5, 2), (0, 0)]]
private def boStates := states2.filter (fun s => hasBO s.kind)
private def jMap (m : List (Nat × Nat)) : String := jList (fun p => "[" ++ jNat p.1 ++ ", " ++ jNat p.2 ++ "]") m
def search_BO_set_mapping_bk2 : String :=
  cmp2 "BO_set_mapping_bk2" (pairs boStates maps2) (fun i => jObj [("self", jStateBk2 i.1), ("mapping", jMap i.2)])
    (fun i => jStateBk2 (BO_set_mapping_bk2 i.1 (some i.2))) (fun i => jStateBk2 (Book2.setMapping i.1 i.2))
def search_BO_set_reverse_mapping_bk2 : String :=
  cmp2 "BO_set_reverse_mapping_bk2" (pairs boStates maps2) (fun i => jObj [("self", jStateBk2 i.1), ("mapping", jMap i.2)])
    (fun i => jStateBk2 (BO_set_reverse_mapping_bk2 i.1 (some i.2))) (fun i => jStateBk2 (Book2.setReverseMapping i.1 i.2))

private def consStates : List State :=
  (states2.filter (fun s => hasCons s.kind)).flatMap (fun s =>
    [s, { s with constraints := s.constraints ++ [(.eq, [([9], 1)]), (.le, [([8], 1)]), (.eq, [([7], 1)])] }])
def search_PCBO_pop_constraint_bk2 : String :=
  cmp2 "PCBO_pop_constraint_bk2" (pairs consStates [Rel.eq, Rel.le, Rel.gt])
    (fun i => jObj [("self", jStateBk2 i.1), ("key", jStr i.2.name)])
    (fun i => jStateBk2 (PCBO_pop_constraint_bk2 i.1 i.2)) (fun i => jStateBk2 { i.1 with constraints := (popLast i.2 i.1.constraints).1 })

def search_reduce_degree_anc_start_bk2 : String :=
  cmp2 "reduce_degree_anc_start_bk2" states2 sIn2 (fun s => jNat (reduce_degree_anc_start_bk2 s)) (fun s => jNat (ancStart Fix.fixed s))
private def convS (s : State) : State := { kind := .pubo, terms := Book.pusoToPubo s.terms, numVars := (trueVars s.terms).length }
def search_PUSO_create_pubo_bk2 : String :=
  cmp2 "PUSO_create_pubo_bk2" (states2.filter (fun s => s.kind == .puso || s.kind == .pcso)) sIn2
    (fun s => jStateBk2 (PUSO_create_pubo_bk2 convS s))
    (fun s => jStateBk2 { convS s with mapping := s.mapping, reverse := s.reverse, numVars := s.numVars })

end Qv.Gen.Search
