import Qv.Gen.Source
import Qv.Gen.Search.Lib
import Qv.Gen.Interp
/-! distinguishing-input search for the group `Convert` (`is_solution_spin`, loop bodies of `qubo_to_quso` / `quso_to_qubo`) -/
namespace Qv.Gen.Search

def search_is_solution_spin : String :=
  let sols : List (List Rat) := [[], [1], [0], [-1], [1, 1], [1, 0], [1, -1], [0, -1], [-1, 0], [1, 1, -1, 0], [1, 1, 0, -1],
    [2, 1], [1, 2, -1], [1, 1, 1]]
  report "is_solution_spin" (pairs sols (pairs bools bools))
    (fun i => is_solution_spin i.1 i.2.1 i.2.2 != isSolutionSpin i.1 i.2.2)
    (fun i => jObj [("solution", jList jRat i.1), ("is_dict", jBool i.2.1), ("default", jBool i.2.2)])
    (fun i => boolStr (is_solution_spin i.1 i.2.1 i.2.2)) (fun i => boolStr (isSolutionSpin i.1 i.2.2))

private def showP (r : Except Err Poly) : String := showExcept jPoly r

/-- the per-term updates applied to a PUSO-squashed / PUBO-squashed container that already holds a few terms -/
private def termSearch (name : String) (κ : Kind) (gen : Key → Rat → Except Err (List (Key × Rat)))
    (model : Sq → Poly → Key → Rat → Except Err Poly) : String :=
  let L : Poly := [([], 1), ([0], 2), ([0, 1], -1)]
  report name (pairs keys smallRats)
    (fun i => showP (gen i.1 i.2 >>= applyUpdates (squash κ) L) != showP (model (squash κ) L i.1 i.2))
    (fun i => jObj [("k", jKey i.1), ("v", jRat i.2)])
    (fun i => showP (gen i.1 i.2 >>= applyUpdates (squash κ) L)) (fun i => showP (model (squash κ) L i.1 i.2))

def search_qubo_to_quso_term : String := termSearch "qubo_to_quso_term" .quso qubo_to_quso_term quboToQusoTerm
def search_quso_to_qubo_term : String := termSearch "quso_to_qubo_term" .qubo quso_to_qubo_term qusoToQuboTerm

end Qv.Gen.Search
