import Qv.Gen.SourceResults
import Qv.Gen.Search.Lib
/-! distinguishing-input search for the group `Results` (`qubovert/sim/_anneal_results.py`, C13): generated
definitions vs `Qv.ResX` on small collections over a pool of results with duplicated, equal-valued and infinite
values, in states that satisfy the invariant and in a few stale ones.  Output strings are shared with
`harness/tie_ext/results.py` (`show_out`). -/
namespace Qv.Gen.Search
open Qv Qv.ResX

def numStr : Num → String
  | .ninf => "-inf"
  | .pinf => "inf"
  | .fin q => ratStr q
def stateStr (s : Res.PState) : String := "{" ++ ",".intercalate (s.map (fun kv => toString kv.1 ++ ":" ++ toString kv.2)) ++ "}"
def resStr (r : Result) : String := "(" ++ stateStr r.state ++ "," ++ numStr r.value ++ "," ++ boolStr r.spin ++ ")"
def optStr : Option Result → String
  | none => "None"
  | some r => resStr r
def listStr (l : List Result) : String := "[" ++ ",".intercalate (l.map resStr) ++ "]"
def collStr (c : Coll) : String := listStr c.items ++ "best=" ++ optStr c.best
def outStr {α : Type} (f : α → String) (o : ArOut α) : String :=
  (match o.1 with | .ok v => "ok " ++ f v | .error e => "raise " ++ e.name) ++ " | " ++ collStr o.2
def unitStr (_ : Unit) : String := "None"
def selfStr (_ : ArSelf) : String := "self"

def jRes (r : Result) : String :=
  jObj [("state", jList (fun kv : Nat × Int => "[" ++ toString kv.1 ++ ", " ++ toString kv.2 ++ "]") r.state),
        ("value", jStr (numStr r.value)), ("spin", jBool r.spin)]
def jOptRes : Option Result → String
  | none => "null"
  | some r => jRes r
def jColl (c : Coll) : String := jObj [("items", jList jRes c.items), ("best", jOptRes c.best)]

def pool : List Result :=
  [⟨[(0, 0), (1, 1)], .fin 1, false⟩, ⟨[(0, 1), (1, 1)], .fin 2, false⟩, ⟨[(0, 0), (1, 0)], .fin 0, false⟩,
   ⟨[(0, 1), (1, 0)], .fin 1, false⟩, ⟨[(0, 1), (1, -1)], .pinf, true⟩, ⟨[(0, -1), (1, -1)], .ninf, true⟩,
   ⟨[(0, 1)], .fin (-1000001 / 2), true⟩, ⟨[(0, 0)], .pinf, false⟩]

def lists : List (List Result) :=
  [[]] ++ pool.map (fun a => [a]) ++ (pairs pool pool).map (fun p => [p.1, p.2]) ++
  [[pool[1]!, pool[0]!, pool[2]!], [pool[0]!, pool[3]!, pool[0]!], [pool[4]!, pool[1]!, pool[7]!], [pool[2]!, pool[2]!, pool[5]!, pool[1]!],
   [pool[0]!, pool[3]!, ⟨[(0, 1), (1, 1)], .fin 1, false⟩]]

/-- sound states (`best` as the constructor leaves it), stale ones (`None` on a non-empty list, the last element) and, on
the longer lists, every element as `best` (a later one of several least elements is a reachable sound state) -/
def colls : List Coll :=
  lists.map construct ++ (lists.filter (fun l => l.length = 2)).flatMap (fun l => [⟨l, none⟩, ⟨l, l.getLast?⟩]) ++
  (lists.filter (fun l => l.length ≥ 3)).flatMap (fun l => l.map (fun b => ⟨l, some b⟩))
def soundColls : List Coll := lists.map construct
def idxs : List Int := [0, 1, -1, 2, -2, 3, -3, 5]
def slices : List Res.Slice :=
  [⟨none, none, none⟩, ⟨some 0, some 1, none⟩, ⟨some 1, none, none⟩, ⟨none, some (-1), none⟩, ⟨none, none, some (-1)⟩,
   ⟨none, none, some 2⟩, ⟨some 1, some 1, none⟩, ⟨none, none, some 0⟩, ⟨some 5, some 2, none⟩]
def jSlice (sl : Res.Slice) : String :=
  let o : Option Int → String := fun x => match x with | none => "null" | some i => toString i
  "[" ++ o sl.start ++ ", " ++ o sl.stop ++ ", " ++ o sl.step ++ "]"

def exStr {α : Type} (f : α → String) (r : Except Err α) : String := showExcept f r

def search_recompute_best : String :=
  report "recompute_best" colls (fun c => exStr optStr (recompute_best c) != exStr optStr (.ok (recompute c.items)))
    (fun c => jObj [("self", jColl c)]) (fun c => exStr optStr (recompute_best c)) (fun c => exStr optStr (.ok (recompute c.items)))

def search_res_lt : String :=
  let inp := pairs pool (none :: pool.map some)
  report "res_lt" inp (fun i => exStr boolStr (res_lt i.1 i.2) != exStr boolStr (i.1.lt i.2))
    (fun i => jObj [("a", jRes i.1), ("b", jOptRes i.2)]) (fun i => exStr boolStr (res_lt i.1 i.2)) (fun i => exStr boolStr (i.1.lt i.2))

def search_res_le : String :=
  let inp := pairs pool (none :: pool.map some)
  report "res_le" inp (fun i => exStr boolStr (res_le i.1 i.2) != exStr boolStr (i.1.le i.2))
    (fun i => jObj [("a", jRes i.1), ("b", jOptRes i.2)]) (fun i => exStr boolStr (res_le i.1 i.2)) (fun i => exStr boolStr (i.1.le i.2))

def search_res_eq : String :=
  let inp := pairs pool (none :: pool.map some)
  report "res_eq" inp (fun i => exStr boolStr (res_eq i.1 i.2) != exStr boolStr (i.1.eq i.2))
    (fun i => jObj [("a", jRes i.1), ("b", jOptRes i.2)]) (fun i => exStr boolStr (res_eq i.1 i.2)) (fun i => exStr boolStr (i.1.eq i.2))

/-- generic comparison of a generated mutator with the model outcome -/
def cmp {ι α : Type} (name : String) (inp : List ι) (g m : ι → ArOut α) (f : α → String) (j : ι → String) : String :=
  report name inp (fun i => outStr f (g i) != outStr f (m i)) j (fun i => outStr f (g i)) (fun i => outStr f (m i))

def search_ar_append : String :=
  cmp "ar_append" (pairs colls pool) (fun i => ar_append i.1 i.2) (fun i => (.ok (), i.1.append i.2)) unitStr
    (fun i => jObj [("self", jColl i.1), ("result", jRes i.2)])

def search_ar_init : String :=
  cmp "ar_init" lists (fun l => ar_init arNew l) (fun l => (.ok (), construct l)) unitStr
    (fun l => jObj [("iterable", jList jRes l)])

def search_ar_insert : String :=
  cmp "ar_insert" (pairs colls (pairs [(0 : Int), 1, -1, 5, -5] pool)) (fun i => ar_insert i.1 i.2.1 i.2.2)
    (fun i => (.ok (), i.1.insert i.2.1 i.2.2)) unitStr
    (fun i => jObj [("self", jColl i.1), ("index", jInt i.2.1), ("result", jRes i.2.2)])

def search_ar_remove : String :=
  cmp "ar_remove" (pairs colls pool) (fun i => ar_remove i.1 i.2)
    (fun i => match i.1.remove i.2 with
      | .error e => (.error e, i.1)
      | .ok (c, none) => (.ok (), c)
      | .ok (c, some e) => (.error e, c)) unitStr
    (fun i => jObj [("self", jColl i.1), ("result", jRes i.2)])

def search_ar_pop : String :=
  cmp "ar_pop" (pairs colls idxs) (fun i => ar_pop i.1 i.2)
    (fun i => match i.1.pop i.2 with
      | .error e => (.error e, i.1)
      | .ok (c, x, none) => (.ok x, c)
      | .ok (c, _, some e) => (.error e, c)) resStr
    (fun i => jObj [("self", jColl i.1), ("index", jInt i.2)])

def search_ar_extend_ar : String :=
  cmp "ar_extend_ar" (pairs soundColls soundColls) (fun i => ar_extend_ar i.1 i.2) (fun i => (.ok (), i.1.extendAR i.2)) unitStr
    (fun i => jObj [("self", jColl i.1), ("other", jColl i.2)])

def search_ar_iadd_ar : String :=
  cmp "ar_iadd_ar" (pairs soundColls soundColls) (fun i => ar_iadd_ar i.1 i.2) (fun i => (.ok .self, i.1.extendAR i.2)) selfStr
    (fun i => jObj [("self", jColl i.1), ("other", jColl i.2)])

def search_ar_extend_list : String :=
  cmp "ar_extend_list" (pairs soundColls lists) (fun i => ar_extend_list i.1 i.2) (fun i => (.ok (), i.1.extendList i.2)) unitStr
    (fun i => jObj [("self", jColl i.1), ("other", jList jRes i.2)])

def search_ar_iadd_list : String :=
  cmp "ar_iadd_list" (pairs soundColls lists) (fun i => ar_iadd_list i.1 i.2) (fun i => (.ok .self, i.1.extendList i.2)) selfStr
    (fun i => jObj [("self", jColl i.1), ("other", jList jRes i.2)])

def search_ar_setitem_int : String :=
  cmp "ar_setitem_int" (pairs colls (pairs idxs pool)) (fun i => ar_setitem_int i.1 i.2.1 i.2.2)
    (fun i => match i.1.setItem i.2.1 i.2.2 with | .ok c => (.ok (), c) | .error e => (.error e, i.1)) unitStr
    (fun i => jObj [("self", jColl i.1), ("index", jInt i.2.1), ("value", jRes i.2.2)])

def search_ar_delitem_int : String :=
  cmp "ar_delitem_int" (pairs colls idxs) (fun i => ar_delitem_int i.1 i.2)
    (fun i => match i.1.delItem i.2 with | .ok c => (.ok (), c) | .error e => (.error e, i.1)) unitStr
    (fun i => jObj [("self", jColl i.1), ("index", jInt i.2)])

def search_ar_setitem_slice : String :=
  cmp "ar_setitem_slice" (pairs soundColls (pairs slices [[], [pool[4]!], [pool[2]!, pool[7]!]]))
    (fun i => ar_setitem_slice i.1 i.2.1 i.2.2)
    (fun i => match i.1.setSlice i.2.1 i.2.2 with | .ok c => (.ok (), c) | .error e => (.error e, i.1)) unitStr
    (fun i => jObj [("self", jColl i.1), ("index", jSlice i.2.1), ("value", jList jRes i.2.2)])

def search_ar_delitem_slice : String :=
  cmp "ar_delitem_slice" (pairs colls slices) (fun i => ar_delitem_slice i.1 i.2)
    (fun i => match i.1.delSlice i.2 with | .ok c => (.ok (), c) | .error e => (.error e, i.1)) unitStr
    (fun i => jObj [("self", jColl i.1), ("index", jSlice i.2)])

def search_ar_clear : String :=
  cmp "ar_clear" colls (fun c => ar_clear c) (fun c => (.ok (), c.clear)) unitStr (fun c => jObj [("self", jColl c)])

def search_ar_copy : String :=
  cmp "ar_copy" colls (fun c => ar_copy c) (fun c => (.ok c.copy, c)) collStr (fun c => jObj [("self", jColl c)])

def search_ar_mul : String :=
  cmp "ar_mul" (pairs colls [(0 : Int), 1, 2, -1]) (fun i => ar_mul i.1 i.2) (fun i => (.ok (i.1.mul i.2), i.1)) collStr
    (fun i => jObj [("self", jColl i.1), ("other", jInt i.2)])

def search_ar_rmul : String :=
  cmp "ar_rmul" (pairs colls [(0 : Int), 1, 2, -1]) (fun i => ar_rmul i.1 i.2) (fun i => (.ok (i.1.mul i.2), i.1)) collStr
    (fun i => jObj [("self", jColl i.1), ("other", jInt i.2)])

def search_ar_add : String :=
  cmp "ar_add" (pairs soundColls lists) (fun i => ar_add i.1 i.2) (fun i => (.ok (i.1.add i.2), i.1)) collStr
    (fun i => jObj [("self", jColl i.1), ("other", jList jRes i.2)])

def search_ar_to_boolean : String :=
  cmp "ar_to_boolean" colls (fun c => ar_to_boolean c) (fun c => (c.toBoolean, c)) collStr (fun c => jObj [("self", jColl c)])

def search_ar_to_spin : String :=
  cmp "ar_to_spin" colls (fun c => ar_to_spin c) (fun c => (c.toSpin, c)) collStr (fun c => jObj [("self", jColl c)])

end Qv.Gen.Search
