import Qv.Gen.SourceConsLoops
import Qv.Model.Pcbo
import Qv.Gen.Search.Lib
/-! distinguishing-input search for the group `ConsLoops` (`PCBO._pop_constraint`; C02, C03, C06): recorded-constraint lists with
no / one / several entries of the popped relation, interleaved with other relations -/
namespace Qv.Gen.Search
open Qv

def relsCL : List Rel := [.eq, .ne, .lt, .le, .gt, .ge]
def relNameCL : Rel → String
  | .eq => "eq" | .ne => "ne" | .lt => "lt" | .le => "le" | .gt => "gt" | .ge => "ge"
def jConsCL (c : List (Rel × Poly)) : String := jList (fun c => "[" ++ jStr (relNameCL c.1) ++ ", " ++ jPoly c.2 ++ "]") c
def consListsCL : List (List (Rel × Poly)) :=
  [[], [(.le, [([0], 1)])], [(.eq, [([0], 1)])], [(.le, [([0], 1)]), (.le, [([1], 1)])],
   [(.le, [([0], 1)]), (.eq, [([1], 1)])], [(.eq, [([0], 1)]), (.le, [([1], 1)])],
   [(.le, [([0], 1)]), (.eq, [([1], 1)]), (.le, [([2], 1)])], [(.le, [([0], 1)]), (.eq, [([1], 1)]), (.le, [([2], 1)]), (.eq, [([3], 1)])],
   [(.gt, [([0], 1)]), (.lt, [([1], 1)]), (.gt, [([2], 1)]), (.ne, [([3], 1)]), (.ge, [([4], 1)])],
   [(.eq, [([0], 1)]), (.eq, [([0], 1)]), (.eq, [([0], 1)])]]

def search_pcbo_pop_constraint_u2 : String :=
  let inputs := pairs consListsCL relsCL
  report "pcbo_pop_constraint_u2" inputs
    (fun i => jConsCL (pcbo_pop_constraint_u2 i.1 i.2) != jConsCL (popLast i.2 i.1).1)
    (fun i => jObj [("constraints", jConsCL i.1), ("key", jStr (relNameCL i.2))])
    (fun i => jConsCL (pcbo_pop_constraint_u2 i.1 i.2)) (fun i => jConsCL (popLast i.2 i.1).1)

end Qv.Gen.Search
