import Qv.Gen.SourceSubgraph
import Qv.Gen.Search.Lib
/-! distinguishing-input search for the group `Subgraph` (`subgraph`, `subvalue` as whole functions; C18) -/
namespace Qv.Gen.Search
open Qv

def tys : List (String × Ty) :=
  [("dict", .builtin), ("DictArithmetic", .da .dict), ("PUBO", .da .pubo), ("PUSO", .da .puso), ("QUBO", .da .qubo)]

def rawGs : List (List RawItem) :=
  (polys.map liftItems) ++ [[(some [0], 1), (none, 1)], [(none, 2)], [(some [0, 1], 2), (some [1, 0], -2), (some [], 1)],
    [(some [0, 1], -4), (some [0, 2], -1), (some [0], 3), (some [1], 2), (some [], 2)]]

def assocs : List Assoc := [[], [(1, 5)], [(0, 2)], [(0, 0)], [(0, 2), (2, -3)], [(1, 1/2), (3, -1)], [(0, 1), (1, 1), (2, 1)]]
def nodeSets : List (List Var) := [[], [0], [1], [0, 2], [0, 1], [0, 1, 2, 3], [3]]

def jRaw (l : List RawItem) : String :=
  jList (fun it => "[" ++ (match it.1 with | none => "null" | some k => jKey k) ++ ", " ++ jRat it.2 ++ "]") l
def jAssoc (m : Assoc) : String := jList (fun p => "[" ++ jNat p.1 ++ ", " ++ jRat p.2 ++ "]") m
def showC (r : Except Err PyCont) : String := showExcept (fun c => jPoly c.items) r
def showP (r : Except Err Poly) : String := showExcept jPoly r

def search_subgraph_fn : String :=
  let conns : List (Option Assoc) := none :: assocs.map some
  let inputs := pairs tys (pairs rawGs (pairs nodeSets conns))
  let g (i : (String × Ty) × List RawItem × List Var × Option Assoc) := showC (subgraph_fn ⟨i.1.2, i.2.1⟩ i.2.2.1 i.2.2.2)
  let m (i : (String × Ty) × List RawItem × List Var × Option Assoc) :=
    showP (subgraphRaw i.1.2 i.2.2.1 (i.2.2.2.getD []) i.2.1)
  report "subgraph_fn" inputs (fun i => g i != m i)
    (fun i => jObj [("type", jStr i.1.1), ("G", jRaw i.2.1), ("nodes", jList jNat i.2.2.1),
      ("connections", match i.2.2.2 with | none => "null" | some c => jAssoc c)]) g m

def search_subvalue_fn : String :=
  let inputs := pairs tys (pairs rawGs assocs)
  let g (i : (String × Ty) × List RawItem × Assoc) := showC (subvalue_fn i.2.2 ⟨i.1.2, i.2.1⟩)
  let m (i : (String × Ty) × List RawItem × Assoc) := showP (subvalueRaw i.1.2 i.2.2 i.2.1)
  report "subvalue_fn" inputs (fun i => g i != m i)
    (fun i => jObj [("type", jStr i.1.1), ("values", jAssoc i.2.2), ("G", jRaw i.2.1)]) g m

end Qv.Gen.Search
