import Qv.Gen.Search.Anneal
/-! distinguishing-input search for the group `AnnealPackage` (`_package_spin_results`; C11) -/
namespace Qv.Gen.Search
open Qv Qv.Anneal

def search_package_spin_results : String :=
  let outs : List (List (List Int × Rat)) := [[], [([1, -1], 3)], [([1, -1, 1], -2), ([-1, -1, 1], 1/2)], [([], 0)], [([1], 1), ([-1], -1), ([1], 1)]]
  let inputs := pairs outs (pairs [(0 : Rat), 5/2, -1] revMaps)
  let sh (r : Except Err (List Res)) := showExcept (jList showRes) r
  let g (i : List (List Int × Rat) × Rat × List Var) := package_spin_results (fun (v : Rat) => v) (i.1.map Prod.fst) (i.1.map Prod.snd) i.2.1 i.2.2
  let m (i : List (List Int × Rat) × Rat × List Var) := package (fun (v : Rat) => v) i.2.2 i.2.1 i.1
  report "package_spin_results" inputs (fun i => sh (g i) != sh (m i))
    (fun i => jObj [("states", jList (fun (sv : List Int × Rat) => jList (fun (x : Int) => toString x) sv.1) i.1),
      ("values", jList (fun (sv : List Int × Rat) => jRat sv.2) i.1), ("offset", jRat i.2.1), ("reverse_mapping", jKey i.2.2)])
    (fun i => sh (g i)) (fun i => sh (m i))

end Qv.Gen.Search
