import Qv.Gen.Search.Anneal
/-! distinguishing-input search for the group `AnnealPuso` (segments of `anneal_puso`; C11, C12, C17) -/
namespace Qv.Gen.Search
open Qv Qv.Anneal

def search_anneal_puso_dispatch : String :=
  report "anneal_puso_dispatch" objInputs
    (fun i => showDispatch (anneal_puso_dispatch (objOf i.1 i.2)) != showDispatch (dispatchPuso (objOf i.1 i.2)))
    jObjInput (fun i => showDispatch (anneal_puso_dispatch (objOf i.1 i.2))) (fun i => showDispatch (dispatchPuso (objOf i.1 i.2)))

def search_anneal_puso_state : String :=
  let inputs := pairs [0, 1, 2, 3, 4] (pairs revMaps (pairs initDicts [(-1 : Int), 0, 1, 3]))
  let g (i : Nat × List Var × Option (List (Var × Int)) × Int) := anneal_puso_state i.1 [([], 5/2), ([0], 1)] i.2.1 i.2.2.2 i.2.2.1
  let m (i : Nat × List Var × Option (List (Var × Int)) × Int) := srcState i.1 [([], 5/2), ([0], 1)] i.2.1 i.2.2.2 i.2.2.1
  let sh := showFlow (jList showRes) (jList (fun (x : Int) => toString x))
  report "anneal_puso_state" inputs (fun i => sh (g i) != sh (m i))
    (fun i => jObj [("N", jNat i.1), ("reverse_mapping", jKey i.2.1), ("initial_state", jInit i.2.2.1), ("num_anneals", jInt i.2.2.2)])
    (fun i => sh (g i)) (fun i => sh (m i))

def search_anneal_puso_flatten : String :=
  let inputs := pairs [0, 3] annealPolys
  let sh (r : Except Err (List Nat × List Nat × List Rat)) := showExcept (fun t =>
    "num_couplings=" ++ jKey t.1 ++ " terms=" ++ jKey t.2.1 ++ " couplings=" ++ jList ratStr t.2.2) r
  let g (i : Nat × Poly) := anneal_puso_flatten (fun (v : Rat) => v) i.1 i.2
  let m (i : Nat × Poly) : Except Err (List Nat × List Nat × List Rat) := .ok (srcFlattenPuso (fun (v : Rat) => v) i.2)
  report "anneal_puso_flatten" inputs (fun i => sh (g i) != sh (m i))
    (fun i => jObj [("N", jNat i.1), ("model", jPoly i.2)]) (fun i => sh (g i)) (fun i => sh (m i))

end Qv.Gen.Search
