import Qv.Gen.SourceTempRange
import Qv.Model.TempRangeFn
import Qv.Gen.Search.Lib
/-! distinguishing-input search for the group `TempRange` (`anneal_temperature_range`; C15): item lists (raw keys included) ×
probability pairs (admissible, boundary, inadmissible) × spin flag × two iteration orders of the variable set -/
namespace Qv.Gen.Search
open Qv

def showTempU2 : PyTempU2 → String
  | .lit0 => "0"
  | .divLog a p => if a = 0 then "0" else ratStr a ++ "/log(" ++ ratStr p ++ ")"
def showTempPairU2 (r : PyTempU2 × PyTempU2) : String := "(" ++ showTempU2 r.1 ++ ", " ++ showTempU2 r.2 ++ ")"
def tempOfSearchU2 (p : Rat) : Temp → PyTempU2
  | .zero => .lit0
  | .ofDelta dE => .divLog (-dE) p

def probsU2 : List (Rat × Rat) :=
  [(1/2, 1/100), (1/2, 0), (0, 0), (1/2, 1/2), (9/10, 1/10), (1/100, 1/2), (1, 1/2), (1/2, 1), (-1/10, -1/5), (1/2, -1/10),
   (3/2, 1/2), (1, 1), (1, 0), (99/100, 99/100)]
def ordersU2 : List (String × PySetOrder) :=
  [("id", ⟨id, fun _ => List.Perm.refl _⟩), ("reverse", ⟨List.reverse, fun s => List.reverse_perm s⟩)]

def search_anneal_temperature_range_u2 : String :=
  let inputs := pairs (pairs polys probsU2) (pairs bools ordersU2)
  let g (i : (Poly × (Rat × Rat)) × (Bool × (String × PySetOrder))) :=
    showExcept showTempPairU2 (anneal_temperature_range_u2 i.1.1 i.1.2.1 i.1.2.2 i.2.1 puboToPusoItems i.2.2.2)
  let m (i : (Poly × (Rat × Rat)) × (Bool × (String × PySetOrder))) :=
    showExcept showTempPairU2 ((tempRangeFn puboToPusoItems i.1.1 i.1.2.1 i.1.2.2 i.2.1).map
      (fun r => (tempOfSearchU2 i.1.2.1 r.1, tempOfSearchU2 i.1.2.2 r.2)))
  report "anneal_temperature_range_u2" inputs (fun i => g i != m i)
    (fun i => jObj [("model", jPoly i.1.1), ("start_flip_prob", jRat i.1.2.1), ("end_flip_prob", jRat i.1.2.2),
      ("spin", jBool i.2.1), ("set_order", jStr i.2.2.1)]) g m

end Qv.Gen.Search
