import Qv.Gen.SourceLogic
import Qv.Gen.Search.Sat
import Qv.Model.PcboLogic
/-! distinguishing-input search for the group `Logic` (the sixteen logic-constraint methods of `PCBO`, C06) -/
namespace Qv.Gen.Search

private def showSt (r : Except Err St) : String := showExcept (fun s => toString (repr s)) r
private def lams : List Rat := [1, 1/2]
/-- at most four operands: the penalties are products of the gate polynomials -/
private def opLists : List (List SVal) := operandLists.filter (fun l => l.length ≤ 4)

private def varSearch (name : String) (gen model : St → List SVal → Rat → Except Err St) : String :=
  report name (pairs opLists lams) (fun i => showSt (gen {} i.1 i.2) != showSt (model {} i.1 i.2))
    (fun i => jObj [("operands", jList jOperand i.1), ("lam", jRat i.2)])
    (fun i => showSt (gen {} i.1 i.2)) (fun i => showSt (model {} i.1 i.2))

private def eqVarSearch (name : String) (gen model : St → SVal → List SVal → Rat → Except Err St) : String :=
  report name (pairs opLists lams)
    (fun i => showSt (gen {} (.lbl 20) i.1 i.2) != showSt (model {} (.lbl 20) i.1 i.2))
    (fun i => jObj [("a", jOperand (.lbl 20)), ("operands", jList jOperand i.1), ("lam", jRat i.2)])
    (fun i => showSt (gen {} (.lbl 20) i.1 i.2)) (fun i => showSt (model {} (.lbl 20) i.1 i.2))

private def oneSearch (name : String) (gen model : St → SVal → Rat → Except Err St) : String :=
  report name (pairs [SVal.lbl 0, .val (.raw [([0, 1], 1)]), .val (.mdl .pcbo [([0], 1)])] lams)
    (fun i => showSt (gen {} i.1 i.2) != showSt (model {} i.1 i.2))
    (fun i => jObj [("a", jOperand i.1), ("lam", jRat i.2)])
    (fun i => showSt (gen {} i.1 i.2)) (fun i => showSt (model {} i.1 i.2))

private def twoSearch (name : String) (gen model : St → SVal → SVal → Rat → Except Err St) : String :=
  report name (pairs (pairs [SVal.lbl 0, .val (.mdl .pcbo [([0, 1], 1)])] [SVal.lbl 1, .lbl 0]) lams)
    (fun i => showSt (gen {} i.1.1 i.1.2 i.2) != showSt (model {} i.1.1 i.1.2 i.2))
    (fun i => jObj [("a", jOperand i.1.1), ("b", jOperand i.1.2), ("lam", jRat i.2)])
    (fun i => showSt (gen {} i.1.1 i.1.2 i.2)) (fun i => showSt (model {} i.1.1 i.1.2 i.2))

def search_add_constraint_NOT : String := oneSearch "add_constraint_NOT" add_constraint_NOT consNOT
def search_add_constraint_BUFFER : String := oneSearch "add_constraint_BUFFER" add_constraint_BUFFER consBUFFER
def search_add_constraint_AND : String := varSearch "add_constraint_AND" add_constraint_AND consAND
def search_add_constraint_NAND : String := varSearch "add_constraint_NAND" add_constraint_NAND consNAND
def search_add_constraint_OR : String := varSearch "add_constraint_OR" add_constraint_OR consOR
def search_add_constraint_XOR : String := varSearch "add_constraint_XOR" add_constraint_XOR consXOR
def search_add_constraint_NOR : String := varSearch "add_constraint_NOR" add_constraint_NOR consNOR
def search_add_constraint_XNOR : String := varSearch "add_constraint_XNOR" add_constraint_XNOR consXNOR
def search_add_constraint_eq_AND : String := eqVarSearch "add_constraint_eq_AND" add_constraint_eq_AND consEqAND
def search_add_constraint_eq_NAND : String := eqVarSearch "add_constraint_eq_NAND" add_constraint_eq_NAND consEqNAND
def search_add_constraint_eq_OR : String := eqVarSearch "add_constraint_eq_OR" add_constraint_eq_OR consEqOR
def search_add_constraint_eq_NOR : String := eqVarSearch "add_constraint_eq_NOR" add_constraint_eq_NOR consEqNOR
def search_add_constraint_eq_XOR : String := eqVarSearch "add_constraint_eq_XOR" add_constraint_eq_XOR consEqXOR
def search_add_constraint_eq_XNOR : String := eqVarSearch "add_constraint_eq_XNOR" add_constraint_eq_XNOR consEqXNOR
def search_add_constraint_eq_BUFFER : String := twoSearch "add_constraint_eq_BUFFER" add_constraint_eq_BUFFER consEqBUFFER
def search_add_constraint_eq_NOT : String := twoSearch "add_constraint_eq_NOT" add_constraint_eq_NOT consEqNOT

end Qv.Gen.Search
