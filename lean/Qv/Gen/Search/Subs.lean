import Qv.Gen.SourceSubs
import Qv.Gen.Search.Lib
/-! distinguishing-input search for the group `Subs` (`DictArithmetic.subs`, `PCBO.subs`; C16): coefficients in ℚ[λ]
(`RatPoly`), the substitution `λ ↦ c` -/
namespace Qv.Gen.Search
open Qv Qv.Sym

def jCoef : PyCoef RatPoly → String
  | .num r => jObj [("num", jRat r)]
  | .sym e => jObj [("sym", jList jRat e.c)]
def jItems (d : CoefItems RatPoly) : String := jList (fun kv => "[" ++ jKey kv.1 ++ ", " ++ jCoef kv.2 ++ "]") d
/-- a stored coefficient as the harness prints it: numbers only (a remaining expression is shown as `sym`) -/
def showItems (d : CoefItems RatPoly) : String :=
  jList (fun kv => "[" ++ jKey kv.1 ++ ", " ++ (match kv.2 with | .num r => jRat r | .sym e => jStr ("sym " ++ toString (repr e.c))) ++ "]") d

def coefs' : List (PyCoef RatPoly) :=
  [.num 1, .num (-2), .num 0, .num (1/2), .sym RatPoly.X, .sym ⟨[-2, 1]⟩, .sym ⟨[0, 2]⟩, .sym ⟨[1, 0, 1]⟩, .sym ⟨[-1, 1/2]⟩, .sym ⟨[2, -2]⟩,
   .sym ⟨[0, 0, -3]⟩, .sym ⟨[3]⟩]
def itemLists : List (CoefItems RatPoly) :=
  [[]] ++ coefs'.map (fun c => [([0], c)]) ++ coefs'.map (fun c => [([], 1 |> PyCoef.num), ([0, 1], c), ([2], .sym ⟨[-2, 1]⟩)]) ++
  [[([0], .sym ⟨[-2, 1]⟩), ([1], .sym ⟨[-1, 1]⟩), ([0, 1], .sym ⟨[2, -2]⟩)], [([0], .num 1), ([1], .num 2), ([], .num (-3))],
   [([0], .sym ⟨[-1, 1]⟩), ([0], .sym RatPoly.X)]]
def cs : List Rat := [1, 2, 1/2, 3, 5/2, 0, -1]

def search_dict_subs : String :=
  let inputs := pairs itemLists cs
  let σ (c : Rat) : RatPoly → SubsRes RatPoly := fun e => .numeric (RatPoly.evalAt c e)
  let g (i : CoefItems RatPoly × Rat) := showExcept showItems (dict_subs i.1 (σ i.2))
  let m (i : CoefItems RatPoly × Rat) := jPoly (subsItems (coefVal (RatPoly.evalAt i.2)) i.1)
  report "dict_subs" inputs (fun i => g i != m i) (fun i => jObj [("items", jItems i.1), ("c", jRat i.2)]) g m

def consLists : List (List (Rel × List (CoefItems RatPoly))) :=
  [[], [(.eq, [[([0], .num 1)]])], [(.eq, [[([0], .num 1)], [([0, 1], .num 2), ([], .num (-1))]]), (.le, [[([1], .sym ⟨[0, 1]⟩)]])],
   [(.lt, []), (.ge, [[([2], .num 3)]])]]

def showObj' (o : SymObj RatPoly) : String :=
  showItems o.terms ++ " | anc " ++ jNat o.anc ++ " | " ++
    jList (fun rc => "[" ++ jStr rc.1.name ++ ", " ++ jList showItems rc.2 ++ "]") o.cons

def search_pcbo_subs : String :=
  let inputs := pairs (pairs itemLists [0, 3]) (pairs consLists [(2 : Rat), 1, 1/2])
  let σ (c : Rat) : RatPoly → SubsRes RatPoly := fun e => .numeric (RatPoly.evalAt c e)
  let g (i : (CoefItems RatPoly × Nat) × (List (Rel × List (CoefItems RatPoly)) × Rat)) :=
    showExcept showObj' (pcbo_subs ⟨i.1.1, i.1.2, i.2.1⟩ (σ i.2.2))
  let m (i : (CoefItems RatPoly × Nat) × (List (Rel × List (CoefItems RatPoly)) × Rat)) :=
    let r := subsObj (coefVal (RatPoly.evalAt i.2.2)) ⟨i.1.1, i.1.2, i.2.1⟩
    showObj' ⟨CoefItems.ofPoly r.1, r.2.1, r.2.2.map (fun rc => (rc.1, rc.2.map CoefItems.ofPoly))⟩
  report "pcbo_subs" inputs (fun i => g i != m i)
    (fun i => jObj [("terms", jItems i.1.1), ("ancilla", jNat i.1.2),
      ("constraints", jList (fun rc => "[" ++ jStr rc.1.name ++ ", " ++ jList jItems rc.2 ++ "]") i.2.1), ("c", jRat i.2.2)]) g m

end Qv.Gen.Search
