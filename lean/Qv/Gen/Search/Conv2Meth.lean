import Qv.Gen.SourceConv2Meth
import Qv.Gen.Search.Conv2Free
/-! distinguishing-input search for the group `Conv2Meth` (`to_*` methods of the labelled types and the `Conversions`
defaults, C04): term lists × mappings (identity, reversed, non-injective so that relabelled keys coincide, partial) -/
namespace Qv.Gen.Search

def mappings : List PyMap :=
  [[(0, 0), (1, 1), (2, 2), (3, 3)], [(0, 3), (1, 2), (2, 1), (3, 0)], [(3, 0), (1, 1), (0, 2), (2, 3)],
   [(0, 0), (1, 0), (2, 1), (3, 1)], [(0, 0)], []]

def jMap (m : PyMap) : String := jList (fun ab => "[" ++ jNat ab.1 ++ ", " ++ jNat ab.2 ++ "]") m

def mkModel (κ : Kind) (p : Poly) (m : PyMap) : ConvModel := ⟨κ, p, m, m.map (fun ab => (ab.2, ab.1)), m.length⟩

private def methSearch (name : String) (κ : Kind) (gen : ConvModel → Except Err ConvObj) (model : PyMap → Poly → Except Err ConvObj) : String :=
  report name (pairs polys mappings)
    (fun i => showObj (gen (mkModel κ i.1 i.2)) != showObj (model i.2 i.1))
    (fun i => jObj [("kind", jStr κ.name), ("items", jPoly i.1), ("mapping", jMap i.2)])
    (fun i => showObj (gen (mkModel κ i.1 i.2))) (fun i => showObj (model i.2 i.1))

def search_QUBO_to_qubo : String := methSearch "QUBO_to_qubo" .qubo QUBO_to_qubo (fun m p => asObjS .qubom (quboTo .qubo m p))
def search_QUBO_to_pubo : String := methSearch "QUBO_to_pubo" .qubo QUBO_to_pubo (fun m p => asObjS .pubom (quboTo .pubo m p))
def search_QUSO_to_quso : String := methSearch "QUSO_to_quso" .quso QUSO_to_quso (fun m p => asObjS .qusom (qusoTo .quso m p))
def search_QUSO_to_puso : String := methSearch "QUSO_to_puso" .quso QUSO_to_puso (fun m p => asObjS .pusom (qusoTo .puso m p))
def search_PUSO_to_puso_enum : String :=
  methSearch "PUSO_to_puso_enum" .puso PUSO_to_puso_enum (fun m p => asObjS .pusom (relabel (squash .pusom) m true [] p))

/-- the value standing for the reduction route (never produced by the relabelling) -/
def routeMark : Except Err ConvObj := .ok ⟨.dict, [([9, 9, 9], 9)]⟩
def degs : List (Option Int) := [none, some 0, some 1, some 2, some 3, some 4, some (-1)]

def search_PUSO_to_puso : String :=
  let model (i : Poly × PyMap × Option Int) : Except Err ConvObj :=
    match i.2.2 with
    | none => asObjS .pusom (relabel (squash .pusom) i.2.1 true [] i.1)
    | some d => if degGe d i.1 then asObjS .pusom (relabel (squash .pusom) i.2.1 true [] i.1) else routeMark
  report "PUSO_to_puso" (pairs polys (pairs (mappings.take 2) degs))
    (fun i => showObj (PUSO_to_puso (mkModel .puso i.1 i.2.1) i.2.2 routeMark) != showObj (model i))
    (fun i => jObj [("kind", jStr "PUSO"), ("items", jPoly i.1), ("mapping", jMap i.2.1),
      ("deg", match i.2.2 with | none => "null" | some d => jInt d)])
    (fun i => showObj (PUSO_to_puso (mkModel .puso i.1 i.2.1) i.2.2 routeMark)) (fun i => showObj (model i))

def search_PUSO_to_quso : String :=
  let model (i : Poly × PyMap) : Except Err ConvObj :=
    if degGe 2 i.1 then asObjS .qusom (relabel (squash .pusom) i.2 true [] i.1 >>= fun H => construct (squash .qusom) H)
    else routeMark
  report "PUSO_to_quso" (pairs polys (mappings.take 3))
    (fun i => showObj (PUSO_to_quso (mkModel .puso i.1 i.2) routeMark) != showObj (model i))
    (fun i => jObj [("kind", jStr "PUSO"), ("items", jPoly i.1), ("mapping", jMap i.2)])
    (fun i => showObj (PUSO_to_quso (mkModel .puso i.1 i.2) routeMark)) (fun i => showObj (model i))

/-- `_reduce_degree` stand-in that records what it was called with -/
def redMark (self : ConvModel) (D : ConvObj) (deg : Option Int) : Except Err ConvObj :=
  .ok ⟨D.kind, D.items ++ [([self.nvars], match deg with | none => -1 | some d => (d : Rat))]⟩

def search_PUBO_to_pubo : String :=
  report "PUBO_to_pubo" degs
    (fun d => showObj (PUBO_to_pubo (mkModel .pubo [] [(0, 0)]) d redMark) != showObj (redMark (mkModel .pubo [] [(0, 0)]) ⟨.pubom, []⟩ d))
    (fun d => jObj [("deg", match d with | none => "null" | some d => jInt d)])
    (fun d => showObj (PUBO_to_pubo (mkModel .pubo [] [(0, 0)]) d redMark)) (fun d => showObj (redMark (mkModel .pubo [] [(0, 0)]) ⟨.pubom, []⟩ d))

def search_PUBO_to_qubo : String :=
  report "PUBO_to_qubo" [()]
    (fun _ => showObj (PUBO_to_qubo (mkModel .pubo [] [(0, 0)]) redMark) != showObj (redMark (mkModel .pubo [] [(0, 0)]) ⟨.qubom, []⟩ (some 2)))
    (fun _ => jObj []) (fun _ => showObj (PUBO_to_qubo (mkModel .pubo [] [(0, 0)]) redMark))
    (fun _ => showObj (redMark (mkModel .pubo [] [(0, 0)]) ⟨.qubom, []⟩ (some 2)))

private def fwdSearch (name : String) (gen : Except Err ConvObj → Except Err ConvObj) (rk : Kind → Kind) (model : Kind → Poly → Except Err Poly) : String :=
  let ins : List (Except Err ConvObj) := [.error .key] ++ (pairs [Kind.qubom, .qusom, .pubom, .pusom, .qubo, .puso] polys).map (fun i => .ok ⟨i.1, i.2⟩)
  let m (r : Except Err ConvObj) : Except Err ConvObj := r >>= fun o => asObjS (rk o.kind) (model o.kind o.items)
  report name ins (fun r => showObj (gen r) != showObj (m r)) (fun r => jObj [("self_to", jStr (showObj r))])
    (fun r => showObj (gen r)) (fun r => showObj (m r))

def search_Conversions_to_qubo : String := fwdSearch "Conversions_to_qubo" Conversions_to_qubo kindQusoToQubo qusoToQubo
def search_Conversions_to_quso : String := fwdSearch "Conversions_to_quso" Conversions_to_quso kindQuboToQuso quboToQuso
def search_Conversions_to_pubo : String := fwdSearch "Conversions_to_pubo" Conversions_to_pubo kindPusoToPubo pusoToPubo
def search_Conversions_to_puso : String := fwdSearch "Conversions_to_puso" Conversions_to_puso kindPuboToPuso puboToPuso

end Qv.Gen.Search
