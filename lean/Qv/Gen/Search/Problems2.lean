import Qv.Gen.Search.ProblemsLib
/-! distinguishing-input search for the group `Problems2` (VertexCover; C10) -/
namespace Qv.Gen.Search
open Qv Qv.Prob

def vcInstances : List VC :=
  [⟨[(0, 1), (1, 2)]⟩, ⟨[(1, 2), (0, 1)]⟩, ⟨[(0, 1), (0, 2), (1, 2), (2, 3)]⟩, ⟨[]⟩, ⟨[(0, 0)]⟩, ⟨[(2, 5)]⟩,
   ⟨[(0, 1), (1, 0)]⟩, ⟨[(0, 1), (2, 3), (4, 5)]⟩, ⟨[(3, 0), (3, 1), (3, 2), (3, 4)]⟩]

def search_VertexCover_to_qubo : String :=
  let ab : List (Option (Rat × Rat)) := [none] ++ (pairs weights [1, 2, 1/2, -1, 0]).map some
  let inputs := pairs vcInstances ab
  let g (i : VC × Option (Rat × Rat)) := match i.2 with
    | some ab => VertexCover_to_qubo i.1.edges i.1.vertices i.1.numVars ab.1 ab.2
    | none => VertexCover_to_qubo_default i.1.edges i.1.vertices i.1.numVars
  let m (i : VC × Option (Rat × Rat)) := match i.2 with
    | some ab => i.1.toQubo ab.1 ab.2
    | none => i.1.toQubo 2 1
  report "VertexCover_to_qubo" inputs (fun i => showPoly (g i) != showPoly (m i))
    (fun i => jObj [("edges", jEdges i.1.edges), ("A", jOptR (i.2.map Prod.fst)), ("B", jOptR (i.2.map Prod.snd))])
    (fun i => showPoly (g i)) (fun i => showPoly (m i))

def vcSolInputs : List (VC × Sol × Bool × Bool) :=
  (vcInstances.filter (fun p => p.numVars ≤ 4)).flatMap (fun p => (sols p.numVars).flatMap (fun sd => bools.map (fun sp => (p, sd.1, sd.2, sp))))

def showVarsE (r : Except Err (List Var)) : String := showExcept showNats r
def jVcSol (i : VC × Sol × Bool × Bool) : String :=
  jObj [("edges", jEdges i.1.edges), ("solution", jSol i.2.1), ("is_dict", jBool i.2.2.1), ("spin", jBool i.2.2.2)]

def search_VertexCover_convert_solution : String :=
  let g (i : VC × Sol × Bool × Bool) := VertexCover_convert_solution i.1.edges i.1.vertices i.1.numVars i.2.1 i.2.2.1 i.2.2.2
  let m (i : VC × Sol × Bool × Bool) := i.1.convert i.2.1 i.2.2.2
  report "VertexCover_convert_solution" vcSolInputs (fun i => showVarsE (g i) != showVarsE (m i)) jVcSol
    (fun i => showVarsE (g i)) (fun i => showVarsE (m i))

def search_VertexCover_is_solution_valid : String :=
  let g (i : VC × Sol × Bool × Bool) := VertexCover_is_solution_valid i.1.edges i.1.vertices i.1.numVars i.2.1 i.2.2.1 i.2.2.2
  let m (i : VC × Sol × Bool × Bool) := i.1.valid i.2.1 i.2.2.2
  report "VertexCover_is_solution_valid" vcSolInputs (fun i => showBoolE (g i) != showBoolE (m i)) jVcSol
    (fun i => showBoolE (g i)) (fun i => showBoolE (m i))

def search_VertexCover_is_solution_valid_converted : String :=
  let covers : List (List Var) := [[], [0], [1], [0, 1], [1, 2], [0, 2, 3], [2], [3], [5], [0, 1, 2, 3, 4, 5]]
  let inputs := pairs vcInstances covers
  let g (i : VC × List Var) := VertexCover_is_solution_valid_converted i.1.edges i.1.vertices i.1.numVars i.2 false
  let m (i : VC × List Var) : Except Err Bool := .ok (i.1.validConv i.2)
  report "VertexCover_is_solution_valid_converted" inputs (fun i => showBoolE (g i) != showBoolE (m i))
    (fun i => jObj [("edges", jEdges i.1.edges), ("cover", showNats i.2)]) (fun i => showBoolE (g i)) (fun i => showBoolE (m i))

end Qv.Gen.Search
