import Qv.Gen.SourceReduce
import Qv.Gen.Search.Lib
import Qv.Model.ReduceStep
/-! distinguishing-input search for the group `Reduce` (the parts of `PUBO._reduce_degree`, C01 / C08).
Generated definitions against the model on small structured inputs; `rd_term` is driven over whole models (the model's
`mapSelf` supplies `mapped_self` and the pair counts, which are not under test here), so that a distinguishing input is a
model + target degree the harness can replay on the real `to_pubo`. -/
namespace Qv.Gen.Search
open Qv Qv.Reduce

private def sortedKeys : List Key := [[0, 1], [0, 1, 2], [1, 3, 4], [0, 1, 2, 3], [0, 2, 5, 7], [1, 2, 3, 4, 6], [0, 1, 2, 3, 4, 5],
  [0, 1, 2, 3, 4, 5, 6, 7, 9]]
private def zs : List Var := [0, 3, 4, 6, 8, 9]
private def redsKs (r : Reds) : List (Key × Var) := r.map (fun e => ([e.1.1, e.1.2], e.2))
private def freqKs (f : Freq) : List (Key × Nat) := f.map (fun e => ([e.1.1, e.1.2], e.2))
private def jPair (p : Pair) : String := "[" ++ toString p.1 ++ ", " ++ toString p.2 ++ "]"

private def rekeyInputs : List (Key × Var × Var × Var) :=
  sortedKeys.flatMap (fun k => (pairsOf k).flatMap (fun p => zs.map (fun z => (k, p.1, p.2, z))))

def search_rd_rekey : String :=
  report "rd_rekey" rekeyInputs (fun i => rd_rekey i.1 i.2.1 i.2.2.1 i.2.2.2 != rekey i.1 i.2.1 i.2.2.1 i.2.2.2)
    (fun i => jObj [("key", jKey i.1), ("x", jNat i.2.1), ("y", jNat i.2.2.1), ("z", jNat i.2.2.2)])
    (fun i => jKey (rd_rekey i.1 i.2.1 i.2.2.1 i.2.2.2)) (fun i => jKey (rekey i.1 i.2.1 i.2.2.1 i.2.2.2))

private def redsList : List Reds := [[], [((0, 1), 8)], [((1, 2), 8), ((0, 8), 9)], [((2, 3), 9)]]
private def freqList : List Freq := [[], [((0, 1), 2), ((1, 2), 3), ((0, 2), 3)], [((2, 3), 5), ((0, 1), 5), ((1, 3), 4)]]
private def pairsList : List (List Key) := [[], [[1, 2]], [[0, 3], [2, 3]], [[]]]
private def scanInputs := pairs sortedKeys (pairs redsList (pairs pairsList freqList))

private def showScanG (r : Bool × (Option Nat × Option Key) × Var × Var) : String :=
  if r.1 then "used " ++ toString r.2.2.1 ++ " " ++ toString r.2.2.2 else "pick " ++ toString (repr r.2.1.2)
private def showScanM (c : Option Choice) : String :=
  match c with
  | some (Choice.used p _) => "used " ++ toString p.1 ++ " " ++ toString p.2
  | some (Choice.pick p) => "pick " ++ toString (repr (some [p.1, p.2] : Option Key))
  | none => "pick " ++ toString (repr (none : Option Key))

def search_rd_scan : String :=
  let g (i : Key × Reds × List Key × Freq) := showScanG (rd_scan i.1 (redsKs i.2.1) i.2.2.1 (freqKs i.2.2.2) 77 78)
  let m (i : Key × Reds × List Key × Freq) := showScanM (scan i.2.1 i.2.2.1 i.2.2.2 (pairsOf i.1) none)
  report "rd_scan" scanInputs (fun i => g i != m i)
    (fun i => jObj [("key", jKey i.1), ("reductions", jStr (toString (repr i.2.1))), ("pairs", jList jKey i.2.2.1),
      ("pair_frequencies", jStr (toString (repr i.2.2.2)))]) g m

private def showSt (r : Except Err (Key × Poly × List (Key × Var) × Var × List (Key × Nat))) : String :=
  match r with
  | .ok v => jKey v.1 ++ " " ++ jPoly v.2.1 ++ " " ++ toString (repr v.2.2.1) ++ " " ++ toString v.2.2.2.1 ++ " " ++ toString (repr v.2.2.2.2)
  | .error e => "raise " ++ e.name

def search_rd_choose : String :=
  let inputs := pairs [true, false] (pairs [(0, 1), (1, 2), (2, 3)] (pairs redsList freqList))
  let g (i : Bool × Pair × Reds × Freq) : String :=
    match rd_choose i.1 (some 1, some [i.2.1.1, i.2.1.2]) i.2.1.1 i.2.1.2 (redsKs i.2.2.1) 10 (freqKs i.2.2.2) with
    | .ok r => toString (repr r)
    | .error e => "raise " ++ e.name
  let m (i : Bool × Pair × Reds × Freq) : String :=
    let p := i.2.1
    if i.1 then
      match redGet i.2.2.1 p with
      | some z => toString (repr (p.1, p.2, z, redsKs i.2.2.1, (10 : Nat), freqKs i.2.2.2))
      | none => "raise KeyError"
    else
      match redGet i.2.2.1 p with
      | none => toString (repr (p.1, p.2, (10 : Nat), redsKs (i.2.2.1 ++ [(p, 10)]), (11 : Nat),
          freqKs (freqInc (freqInc i.2.2.2 (p.1, 10)) (p.2, 10))))
      | some _ => g i     -- not reachable from the scan: a picked pair has no reduction
  report "rd_choose" inputs (fun i => g i != m i)
    (fun i => jObj [("previously_used", jBool i.1), ("pair", jPair i.2.1), ("reductions", jStr (toString (repr i.2.2.1))),
      ("pair_frequencies", jStr (toString (repr i.2.2.2)))]) g m

private def dlam (v : Rat) : Rat := 1 + (if v < 0 then -v else v)

def search_rd_step : String :=
  let inputs := pairs [[0, 1, 2], [0, 1, 2, 3], [1, 2, 3, 4, 6]] (pairs redsList (pairs pairsList freqList))
  let g (i : Key × Reds × List Key × Freq) : String :=
    showSt ((rd_step i.1 (-3) [([0], 1)] (redsKs i.2.1) i.2.2.1 (freqKs i.2.2.2) 10 dlam 77 78).map
      (fun r => (r.1, r.2.1, r.2.2.1, r.2.2.2.1, r.2.2.2.2.1)))
  let m (i : Key × Reds × List Key × Freq) : String :=
    match stepM i.2.2.1 (dlam (-3)) i.1 { next := 10, reds := i.2.1, freq := i.2.2.2, D := [([0], 1)] } with
    | some r => showSt (.ok (r.1, r.2.1.D, redsKs r.2.1.reds, r.2.1.next, freqKs r.2.1.freq))
    | none => "none"
  report "rd_step" inputs (fun i => g i != m i)
    (fun i => jObj [("key", jKey i.1), ("reductions", jStr (toString (repr i.2.1))), ("pairs", jList jKey i.2.2.1),
      ("pair_frequencies", jStr (toString (repr i.2.2.2)))]) g m

/-- whole models (labels in order of first appearance, so the mapping is the identity), target degrees 2 and 3 -/
private def models : List Poly :=
  [ [([0, 1, 2], 1)], [([0, 1, 2], -2)], [([0, 1, 2, 3], 3)], [([0, 1, 2, 3, 4], -1)],
    [([0, 1, 2], 1), ([1, 2, 3], 2)], [([0, 1, 2], 2), ([0, 1, 3], -3)], [([0, 1, 2, 3], 1), ([1, 2, 3], -2), ([0, 3], 1)],
    [([0], 2), ([0, 1, 2], -1), ([2, 3, 4], 4), ([0, 1, 2, 3, 4], 1)], [([0, 1, 2, 3, 4, 5], 2), ([2, 3, 4, 5], -5)],
    [([0, 1, 2], 1), ([0, 1, 3], 1), ([0, 1, 4], 1), ([2, 3, 4], -3)], [([0, 2, 3], 5), ([1, 2, 3], -1), ([0, 1, 2, 3], 2)],
    [([0, 1, 2, 3, 4, 5, 6, 7], 1)], [([0, 1, 2, 3, 4, 5, 6], -2), ([4, 5, 6], 1)] ]

private def nvars (p : Poly) : Nat := p.foldl (fun n kv => kv.1.foldl (fun n i => max n (i + 1)) n) 0
private def idMap (n : Nat) : Mapping := (List.range n).map (fun i => (i, i))
private def sortStrs (l : List String) : List String := l.mergeSort (fun a b => decide (a ≤ b))
private def showD (D : Poly) : String :=
  "[" ++ ", ".intercalate (sortStrs (D.map (fun kv => "[" ++ jKey kv.1 ++ ", " ++ jRat kv.2 ++ "]"))) ++ "]"

private def genRun (p : Poly) (deg : Nat) : String :=
  match mapSelf (idMap (nvars p)) p [] [] with
  | .error e => "raise " ++ e.name
  | .ok ms =>
    let r := ms.1.foldl (fun (acc : Except Err (Poly × List (Key × Var) × Var × List (Key × Nat) × Var × Var)) kv =>
      acc >>= fun s => rd_term kv.1 kv.2 deg s.1 s.2.1 [] s.2.2.2.1 s.2.2.1 dlam s.2.2.2.2.1 s.2.2.2.2.2)
      (.ok ([], [], nvars p, freqKs ms.2, 0, 0))
    match r with
    | .ok s => showD s.1
    | .error e => "raise " ++ e.name

private def modelRun (p : Poly) (deg : Nat) : String :=
  match reduceDegreeC p (idMap (nvars p)) (nvars p) (degree p) (some deg) .default [] with
  | .ok o => showD o.D
  | .error e => "raise " ++ e.name

def search_rd_term : String :=
  report "rd_term" (pairs models [2, 3]) (fun i => genRun i.1 i.2 != modelRun i.1 i.2)
    (fun i => jObj [("P", jPoly i.1), ("deg", jNat i.2)]) (fun i => genRun i.1 i.2) (fun i => modelRun i.1 i.2)

end Qv.Gen.Search
