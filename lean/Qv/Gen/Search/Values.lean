import Qv.Gen.Source
import Qv.Gen.Search.Lib
import Qv.Model.Values
/-! distinguishing-input search for the group `Values` (C05) — see `Qv/Gen/Search/Lib.lean` -/
namespace Qv.Gen.Search

private def showIn (names : String × String) (i : Poly × List Rat) : String :=
  jObj [(names.1, jList jRat i.2), (names.2, jPoly i.1)]

private def valueSearch (name : String) (names : String × String) (dom : List Rat) (dflt : Rat)
    (gen model : (Var → Rat) → Poly → Rat) : String :=
  report name (pairs polys (tuples dom 4))
    (fun i => gen (assignOf dflt i.2) i.1 != model (assignOf dflt i.2) i.1) (showIn names)
    (fun i => ratStr (gen (assignOf dflt i.2) i.1)) (fun i => ratStr (model (assignOf dflt i.2) i.1))

def search_pubo_value : String := valueSearch "pubo_value" ("x", "P") [0, 1] 0 pubo_value puboValue
def search_qubo_value : String := valueSearch "qubo_value" ("x", "Q") [0, 1] 0 qubo_value quboValue
def search_puso_value : String := valueSearch "puso_value" ("z", "H") [1, -1] 1 puso_value pusoValue
def search_quso_value : String := valueSearch "quso_value" ("z", "L") [1, -1] 1 quso_value qusoValue

end Qv.Gen.Search
