import Qv.Gen.SourceArith
import Qv.Model.ArithOps
import Qv.Gen.Search.Book
/-! distinguishing-input search for the group `ArithOps` (the in-place operators of `DictArithmetic` as whole functions,
`PCBO.__imul__`, `PCSO.__imul__`, the `*=` table; C05 / C07 / C14): generated definitions of `Qv/Gen/SourceArith.lean` vs
`Qv.ArithOps` on object states reached by short edit histories of every model class and operands of every shape (numbers
incl. 0, dicts with unsorted / repeated / long keys and cancelling coefficients, the receiver itself).  Trusted by no theorem. -/
namespace Qv.Gen.Search
open Qv Qv.Book Qv.ArithOps

def kinds_ar2 : List Kind := [.pubo, .qubo, .puso, .quso, .pcbo, .pcso, .pubom, .qubom, .pusom, .qusom]

def hists_ar2 : List (List Op) :=
  [ [.setitem [0] 1, .setitem [1, 0] 2], [], [.setitem [] 5], [.setitem [1] 1, .setitem [1] 0, .setitem [2] 2],
    [.setitem [2] 1, .setitem [0] (-1), .setitem [] (1/2)], [.setitem [0, 1] 1, .setitem [1] (-1), .setitem [0] 3],
    [.setitem [3] 2, .cons .eq [([0], 1), ([1], -1)] 2 false none none] ]

def states_ar2 : List State := kinds_ar2.flatMap (fun κ => hists_ar2.map (Book.run Fix.fixed κ))

def modelM_ar2 : ArMethods_ar2 := { clear := Book.clear, copy := ArithOps.copy Fix.fixed }

def operands_ar2 : List ArOperand_ar2 :=
  [ .self, .dict [([0], 1), ([1], 1)], .num 2, .num 0, .num (-1/2), .dict [], .dict [([0], -1)], .dict [([1, 0], -2), ([2], 1)],
    .dict [([1, 0, 1], 3), ([], 1)], .dict [([0, 1, 2], 1)], .dict [([], -5)], .dict [([2], 1), ([0], 1), ([2, 2], -1)] ]

def toModelS_ar2 : ArOperand_ar2 → Operand
  | .num c => .num c
  | .dict q => .dict q
  | .self => .self

def jOperand_ar2 : ArOperand_ar2 → String
  | .num c => jObj [("num", jRat c)]
  | .dict q => jObj [("dict", jPoly q)]
  | .self => jStr "self"

def showS_ar2 (r : Except Err State) : String := showExcept jState r

def soIn_ar2 (i : State × ArOperand_ar2) : String := jObj [("self", jState i.1), ("other", jOperand_ar2 i.2)]

def cmpOp_ar2 (name : String) (xs : List (State × ArOperand_ar2)) (g : State → ArOperand_ar2 → Except Err State)
    (m : State → Operand → Except Err State) : String :=
  report name xs (fun i => showS_ar2 (g i.1 i.2) != showS_ar2 (m i.1 (toModelS_ar2 i.2))) soIn_ar2
    (fun i => showS_ar2 (g i.1 i.2)) (fun i => showS_ar2 (m i.1 (toModelS_ar2 i.2)))

def so_ar2 : List (State × ArOperand_ar2) := pairs states_ar2 operands_ar2
def soNoSelf_ar2 : List (State × ArOperand_ar2) := so_ar2.filter (fun i => match i.2 with | .self => false | _ => true)
def soNum_ar2 : List (State × ArOperand_ar2) := so_ar2.filter (fun i => match i.2 with | .num _ => true | _ => false)

def search_DictArithmetic_iadd_ar2 : String :=
  cmpOp_ar2 "DictArithmetic_iadd_ar2" soNoSelf_ar2 (DictArithmetic_iadd_ar2 modelM_ar2) (ArithOps.iadd Fix.fixed)
def search_DictArithmetic_isub_ar2 : String :=
  cmpOp_ar2 "DictArithmetic_isub_ar2" so_ar2 (DictArithmetic_isub_ar2 modelM_ar2) (ArithOps.isub Fix.fixed)
def search_DictArithmetic_imul_ar2 : String :=
  cmpOp_ar2 "DictArithmetic_imul_ar2" so_ar2 (DictArithmetic_imul_ar2 modelM_ar2) (ArithOps.imulBase Fix.fixed)
def search_DictArithmetic_itruediv_ar2 : String :=
  cmpOp_ar2 "DictArithmetic_itruediv_ar2" soNum_ar2 (DictArithmetic_itruediv_ar2 modelM_ar2)
    (fun s o => match o with | .num c => ArithOps.idiv Fix.fixed s c | _ => .error .other)
def search_PCBO_imul_ar2 : String :=
  cmpOp_ar2 "PCBO_imul_ar2" so_ar2 (PCBO_imul_ar2 modelM_ar2) (ArithOps.imul Fix.fixed)
def search_PCSO_imul_ar2 : String :=
  cmpOp_ar2 "PCSO_imul_ar2" so_ar2 (PCSO_imul_ar2 modelM_ar2) (ArithOps.imul Fix.fixed)
def search_cls_imul_ar2 : String :=
  cmpOp_ar2 "cls_imul_ar2" so_ar2 (fun s o => cls_imul_ar2 s.kind modelM_ar2 s o) (ArithOps.imul Fix.fixed)

def exps_ar2 : List (ArExp_ar2 × Option Int) :=
  [ (⟨2, true⟩, some 2), (⟨1, true⟩, some 1), (⟨3, true⟩, some 3), (⟨0, true⟩, some 0), (⟨-1, true⟩, some (-1)), (⟨2, false⟩, none),
    (⟨1/2, false⟩, none), (⟨-2, false⟩, none) ]

def seIn_ar2 (i : State × (ArExp_ar2 × Option Int)) : String :=
  jObj [("self", jState i.1), ("exponent", jRat i.2.1.val), ("is_int", jBool i.2.1.isInt)]

def search_DictArithmetic_ipow_ar2 : String :=
  report "DictArithmetic_ipow_ar2" (pairs states_ar2 exps_ar2)
    (fun i => showS_ar2 (DictArithmetic_ipow_ar2 modelM_ar2 i.1 i.2.1) != showS_ar2 (ArithOps.ipow Fix.fixed i.1 i.2.2)) seIn_ar2
    (fun i => showS_ar2 (DictArithmetic_ipow_ar2 modelM_ar2 i.1 i.2.1)) (fun i => showS_ar2 (ArithOps.ipow Fix.fixed i.1 i.2.2))

def search_DictArithmetic_num_terms_ar2 : String :=
  report "DictArithmetic_num_terms_ar2" states_ar2
    (fun s => showExcept jNat (DictArithmetic_num_terms_ar2 modelM_ar2 s) != jNat s.terms.length) (fun s => jObj [("self", jState s)])
    (fun s => showExcept jNat (DictArithmetic_num_terms_ar2 modelM_ar2 s)) (fun s => jNat s.terms.length)
def search_PUBOMatrix_offset_ar2 : String :=
  report "PUBOMatrix_offset_ar2" states_ar2
    (fun s => showExcept ratStr (PUBOMatrix_offset_ar2 modelM_ar2 s) != showExcept ratStr (getItem (squash s.kind) s.terms []))
    (fun s => jObj [("self", jState s)])
    (fun s => showExcept ratStr (PUBOMatrix_offset_ar2 modelM_ar2 s)) (fun s => showExcept ratStr (getItem (squash s.kind) s.terms []))

end Qv.Gen.Search
