import Qv.Gen.SourceSat
import Qv.Gen.Search.Lib
import Qv.Model.Sat
/-! distinguishing-input search for the group `Sat` (the eight gate builders, C07) -/
namespace Qv.Gen.Search

/-- operand lists: labels (distinct, repeated), up to six operands (the results of `OR` / `XOR` have `2^n` terms), a
plain dict, a PCBO and a QUBO operand -/
def operandLists : List (List SVal) :=
  let l (i : Nat) := SVal.lbl i
  [[], [l 0], [l 0, l 1], [l 1, l 0], [l 0, l 0], [l 0, l 1, l 2], [l 2, l 0, l 0], [l 0, l 1, l 2, l 3],
   [l 0, l 1, l 2, l 3, l 4], [l 5, l 4, l 3, l 2, l 1, l 0],
   [SVal.val (.raw [([0, 1], 1)]), l 2], [l 2, SVal.val (.mdl .pcbo [([0], 1)])], [SVal.val (.mdl .qubo [([0], 1)]), l 1, l 2],
   [SVal.val (.mdl .pubo [([0, 1], 1)]), SVal.val (.mdl .pubo [([1, 2], 1)])]]

def jOperand : SVal → String
  | .lbl i => jObj [("lbl", jNat i)]
  | .val (.raw p) => jObj [("dict", jPoly p)]
  | .val (.mdl κ p) => jObj [("model", jStr κ.name), ("terms", jPoly p)]
  | .val (.num c) => jObj [("num", jRat c)]

def showVal (r : Except Err Val) : String :=
  showExcept (fun v => match v with
    | .num c => "num " ++ ratStr c
    | .raw p => "dict " ++ jPoly p
    | .mdl κ p => κ.name ++ " " ++ jPoly p) r

private def gateSearch (name : String) (gen model : List SVal → Except Err Val) (lists : List (List SVal)) : String :=
  report name lists (fun vs => showVal (gen vs) != showVal (model vs)) (fun vs => jObj [("operands", jList jOperand vs)])
    (fun vs => showVal (gen vs)) (fun vs => showVal (model vs))

private def one (f : SVal → Except Err Val) (vs : List SVal) : Except Err Val :=
  match vs with | [v] => f v | _ => .error .type

def search_BUFFER : String := gateSearch "BUFFER" (one BUFFER) (applyGate .buffer) (operandLists.filter (·.length = 1) ++
  [[SVal.val (.raw [([0, 1], 2)])], [SVal.val (.mdl .pcbo [([0], 1), ([], -1)])], [SVal.val (.mdl .qubo [([0, 1], 1)])]])
def search_NOT : String := gateSearch "NOT" (one NOT) (applyGate .not) (operandLists.filter (·.length = 1) ++
  [[SVal.val (.raw [([0, 1], 2)])], [SVal.val (.mdl .pcbo [([0], 1), ([], -1)])], [SVal.val (.mdl .qubo [([0, 1], 1)])]])
/-- products of labels stay small: `AND` / `NAND` are also tried on nine and ten operands -/
def andLists : List (List SVal) := operandLists ++ [(List.range 9).map SVal.lbl, (List.range 10).map SVal.lbl]
def search_AND : String := gateSearch "AND" AND (applyGate .and) andLists
def search_NAND : String := gateSearch "NAND" NAND (applyGate .nand) andLists
def search_OR : String := gateSearch "OR" OR (applyGate .or) operandLists
def search_NOR : String := gateSearch "NOR" NOR (applyGate .nor) operandLists
def search_XOR : String := gateSearch "XOR" XOR (applyGate .xor) operandLists
def search_XNOR : String := gateSearch "XNOR" XNOR (applyGate .xnor) operandLists

end Qv.Gen.Search
