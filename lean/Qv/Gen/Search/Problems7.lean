import Qv.Gen.SourceProblems7
import Qv.Gen.Search.Problems5Lib
/-! distinguishing-input search for the group `Problems7` (JobSequencing: `_x`, `_y`, `to_qubo`; C10) -/
namespace Qv.Gen.Search
open Qv Qv.Prob

/-- JobSequencing instances (`lengths` items in dict order with distinct labels, workers, both slack encodings, `M`) -/
def pb2JsInstances : List JS :=
  (pairs bools
    [(([(0, 1), (1, 2)] : List (Var × Rat)), (2 : Nat), (4 : Nat)),
     ([(0, 1), (1, 1), (2, 1)], 3, 3),
     ([(2, 3), (0, 1)], 2, 6),
     ([(0, 2)], 1, 2),
     ([(0, 1), (1, 2), (2, 3)], 2, 2),
     ([(5, 1/2), (3, 2)], 3, 1),
     ([(0, 1), (1, 1000001)], 2, 3)]).map (fun i => ⟨i.2.1, i.2.2.1, i.1, i.2.2.2⟩)

def pb2Keys (p : JS) : List Var := p.lengths.map Prod.fst
def pb2JJS (p : JS) : List (String × String) :=
  [("lengths", jList (fun jl => "[" ++ jNat jl.1 ++ ", " ++ jRat jl.2 ++ "]") p.lengths), ("m", jNat p.m),
   ("log_trick", jBool p.logTrick), ("M", jNat p.M)]

def search_JobSequencing__x : String :=
  let inputs := pb2JsInstances.flatMap (fun p => pairs (pairs [p] (pb2Keys p)) (List.range (p.m + 1)))
  let g (i : (JS × Var) × Nat) := JobSequencing__x i.1.1.lengths (pb2Keys i.1.1) i.1.1.m i.1.1.logTrick i.1.1.maxL i.1.1.N i.1.1.M i.1.1.logM i.1.2 i.2
  let m (i : (JS × Var) × Nat) : Except Err Nat := .ok (i.1.1.x ((pb2Keys i.1.1).idxOf i.1.2) i.2)
  report "JobSequencing__x" inputs (fun i => showExcept jNat (g i) != showExcept jNat (m i))
    (fun i => jObj (pb2JJS i.1.1 ++ [("job", jNat i.1.2), ("worker", jNat i.2)])) (fun i => showExcept jNat (g i)) (fun i => showExcept jNat (m i))

def search_JobSequencing__y : String :=
  let inputs := pb2JsInstances.flatMap (fun p => pairs (pairs [p] (List.range (p.maxM + 1))) (pyRange2 1 p.m))
  let g (i : (JS × Nat) × Nat) := JobSequencing__y i.1.1.lengths (pb2Keys i.1.1) i.1.1.m i.1.1.logTrick i.1.1.maxL i.1.1.N i.1.1.M i.1.1.logM i.1.2 i.2
  let m (i : (JS × Nat) × Nat) : Except Err Int := .ok ((i.1.1.y i.1.2 i.2 : Nat) : Int)
  report "JobSequencing__y" inputs (fun i => showExcept jInt (g i) != showExcept jInt (m i))
    (fun i => jObj (pb2JJS i.1.1 ++ [("i", jNat i.1.2), ("worker", jNat i.2)])) (fun i => showExcept jInt (g i)) (fun i => showExcept jInt (m i))

def search_JobSequencing_to_qubo : String :=
  let ab : List (Option (Option Rat × Rat)) := [none] ++ (pairs [none, some 2, some 1, some (1/2), some (-1), some 1000001] [1, 2, 1/2, 0]).map some
  let inputs := pairs pb2JsInstances ab
  let g (i : JS × Option (Option Rat × Rat)) := match i.2 with
    | some ab => JobSequencing_to_qubo i.1.lengths (pb2Keys i.1) i.1.m i.1.logTrick i.1.maxL i.1.N i.1.M i.1.logM ab.1 ab.2
    | none => JobSequencing_to_qubo_default i.1.lengths (pb2Keys i.1) i.1.m i.1.logTrick i.1.maxL i.1.N i.1.M i.1.logM
  let m (i : JS × Option (Option Rat × Rat)) := match i.2 with
    | some ab => i.1.toQubo ab.1 ab.2
    | none => i.1.toQubo none 1
  report "JobSequencing_to_qubo" inputs (fun i => showPoly (g i) != showPoly (m i))
    (fun i => jObj (pb2JJS i.1 ++ [("A", match i.2 with | some ab => jOptR ab.1 | none => "null"), ("B", jOptR (i.2.map Prod.snd))]))
    (fun i => showPoly (g i)) (fun i => showPoly (m i))

end Qv.Gen.Search
