import Qv.Gen.SourceProblems5
import Qv.Gen.Search.ProblemsLib
/-! shared by the distinguishing-input searches of the second-wave problem-class groups (C10): instances and printing -/
namespace Qv.Gen.Search
open Qv Qv.Prob

/-- SetCover instances (`U` in an iteration order, `V`, weights of the length of `V`, both slack encodings, `M` as `__init__`
computes it or given): coverable and not, repeated subsets, an element in no subset, `U` enumerated out of order -/
def pb2ScInstances : List SC :=
  (pairs bools
    [(([0, 1, 2] : List Var), ([[0, 1], [1, 2], [0, 2]] : List (List Var)), ([1, 1, 1] : List Rat), (2 : Nat)),
     ([0, 1, 2, 3], [[0, 1], [0, 2], [2, 3]], [1, 1/2, 1], 2),
     ([2, 0, 1], [[0, 1, 2], [2]], [1, 1], 2),
     ([0, 1], [[0], [0]], [1, 1], 2),
     ([0, 1, 2], [[0, 1, 2], [0, 1, 2], [1]], [1/2, 1, 1/4], 3),
     ([5, 3], [[3, 5], [5], [3], [3, 5]], [1, 1, 1, 1], 3),
     ([0], [[0]], [1], 1),
     ([0, 1, 2], [[0, 1], [1, 2], [0, 2]], [1, 1, 1], 4),
     ([1, 0], [[], [0, 1], [1]], [1, 3/4, 1], 1)]).map
    (fun i => ⟨i.2.1, i.2.2.1, i.2.2.2.1, i.1, i.2.2.2.2⟩)

def pb2JSC (p : SC) : List (String × String) :=
  [("U", showNats p.U), ("V", jList showNats p.V), ("weights", showRats p.weights), ("log_trick", jBool p.logTrick),
   ("M", jNat p.M)]

def pb2ShowNatsE (r : Except Err (List Nat)) : String := showExcept showNats r

end Qv.Gen.Search
