import Qv.Gen.SourceBruteWhole
import Qv.Gen.Search.Lib
/-! distinguishing-input search for the group `BruteWhole` (`_solve_bruteforce` as a whole function, its wrappers and the
`solve_bruteforce` methods; C09) -/
namespace Qv.Gen.Search
open Qv Qv.Brute

/-- two hash orders: first-insertion order and its reverse -/
def setOrders : List (String × PySetOrder) :=
  [("insertion", ⟨id, fun s => List.Perm.refl s⟩), ("reverse", ⟨List.reverse, fun s => List.reverse_perm s⟩)]

/-- validity predicates by name (the harness has the same menu) -/
def valids : List (String × (Assign → Bool)) :=
  [("always", fun _ => true), ("never", fun _ => false),
   ("sum_even", fun x => (x.foldl (fun s p => s + (if p.2 = 1 then 1 else 0)) (0 : Nat)) % 2 == 0),
   ("label0_not_one", fun x => match aget? x 0 with | some v => v != 1 | none => true)]

def bmodels : List Brute.Model :=
  (([[], [([], 3)], [([], 0)], [([0], 1)], [([0], -1)], [([0], 0)], [([], 2), ([0], -1)], [([0], -1), ([], 2)],
     [([0, 1], 1), ([0], -1), ([1], -1)], [([0, 1], -1)], [([1, 0], 2), ([], -1), ([1], -1)], [([0, 1], 1), ([1, 2], 1), ([1], -1), ([2], -2)],
     [([0], 1), ([1], 1)], [([0], 1), ([1], -1), ([], 0)], [([2, 0], 1), ([0, 2], -1)], [([0, 1, 2], -2), ([0], 1), ([2], 1)],
     [([0, 0], -1), ([1], 1)], [([5], 2), ([3], -2), ([], 1)]] : List Poly).map (fun p => (⟨.dict, p, none⟩ : Brute.Model))) ++
  [⟨.pubo, [([0, 1], 1), ([0], -1)], some ⟨2, [(0, 0), (1, 1)]⟩⟩, ⟨.pubo, [([], 2), ([7], -1)], some ⟨1, [(0, 7)]⟩⟩,
   ⟨.quso, [([], 0), ([0, 1], 1)], some ⟨2, [(0, 0), (1, 1)]⟩⟩, ⟨.pubo, [([0], 1)], some ⟨2, [(0, 0)]⟩⟩,
   ⟨.puso, [([], 5)], some ⟨0, []⟩⟩, ⟨.pubo, [([0], 1), ([1], 1)], some ⟨2, [(1, 1), (0, 0)]⟩⟩,
   ⟨.pubom, [([0], 1), ([], 0)], none⟩, ⟨.qusom, [([], -1), ([0, 1], 1), ([1], 1)], none⟩]

def fns : List (String × Brute.Fn) := [("pubo", .pubo), ("qubo", .qubo), ("puso", .puso), ("quso", .quso)]

def jAssign (a : Assign) : String := jList (fun p => "[" ++ jNat p.1 ++ ", " ++ jRat p.2 ++ "]") a
def showSolBW : Brute.Sol → String
  | .one x => "one " ++ jAssign x
  | .many xs => "many " ++ jList jAssign xs
def showObjBW : Option Rat → String
  | none => "None"
  | some r => ratStr r
def jBook : Option Brute.Book → String
  | none => "null"
  | some b => jObj [("n", jNat b.n), ("rm", jList (fun p => "[" ++ jNat p.1 ++ ", " ++ jNat p.2 ++ "]") b.rm)]
def jModel (D : Brute.Model) : String := jObj [("kind", jStr D.kind.name), ("terms", jPoly D.terms), ("book", jBook D.book)]

/-- the form shown to the harness, independent of the hash order: a single solution is not shown (which minimiser is
returned depends on the variable order; the oracle judges it), all solutions as a sorted list of label-sorted dicts -/
def canonAssign (a : Assign) : String := jAssign (a.mergeSort (fun p q => decide (p.1 ≤ q.1)))
def canonSol : Brute.Sol → String
  | .one _ => "one"
  | .many xs => "many [" ++ ", ".intercalate ((xs.map canonAssign).mergeSort (fun a b => decide (a ≤ b))) ++ "]"

def showWhole (r : Except Err ((Option Rat × Brute.Sol) × Brute.Model)) : String :=
  showExcept (fun v => showObjBW v.1.1 ++ " | " ++ showSolBW v.1.2 ++ " | after " ++ jPoly v.2.terms) r
def showOut (D : Brute.Model) (r : Except Err Brute.Out) : String :=
  showExcept (fun o => showObjBW o.obj ++ " | " ++ showSolBW o.sol ++ " | after " ++ jPoly o.after) r
def showMethod (r : Except Err (Brute.Sol × Brute.Model)) : String :=
  showExcept (fun v => showSolBW v.1 ++ " | after " ++ jPoly v.2.terms) r
def showMethodOut (r : Except Err Brute.Out) : String :=
  showExcept (fun o => showSolBW o.sol ++ " | after " ++ jPoly o.after) r
def canonWhole (r : Except Err ((Option Rat × Brute.Sol) × Brute.Model)) : String :=
  showExcept (fun v => showObjBW v.1.1 ++ " | " ++ canonSol v.1.2 ++ " | after " ++ jPoly v.2.terms) r
def canonOut (r : Except Err Brute.Out) : String :=
  showExcept (fun o => showObjBW o.obj ++ " | " ++ canonSol o.sol ++ " | after " ++ jPoly o.after) r
def canonMethod (r : Except Err (Brute.Sol × Brute.Model)) : String :=
  showExcept (fun v => canonSol v.1 ++ " | after " ++ jPoly v.2.terms) r
def canonMethodOut (r : Except Err Brute.Out) : String :=
  showExcept (fun o => canonSol o.sol ++ " | after " ++ jPoly o.after) r

/-- the items of `D` when the key scan runs (offset popped and re-inserted) -/
def scanTerms' (D : Brute.Model) : Poly :=
  if hasKey D.terms [] then store D.kind (erase D.terms []) [] (get D.terms []) else D.terms

abbrev WInput := Brute.Model × Bool × (String × (Assign → Bool)) × (String × PySetOrder)

def wInputs : List WInput := pairs bmodels (pairs bools (pairs valids setOrders))

def jW (extra : List (String × String)) (i : WInput) : String :=
  jObj ([("D", jModel i.1), ("all_solutions", jBool i.2.1), ("valid", jStr i.2.2.1.1), ("set_order", jStr i.2.2.2.1)] ++ extra)

def search_solve_bruteforce_whole : String :=
  let inputs := pairs fns wInputs
  let g (i : (String × Brute.Fn) × WInput) :=
    solve_bruteforce_whole i.2.1 i.2.2.1 i.2.2.2.1.2 i.1.2.spin i.1.2.valueP i.2.2.2.2.2
  let m (i : (String × Brute.Fn) × WInput) :=
    solveCore i.2.1 i.2.2.1 i.2.2.2.1.2 i.1.2.spin i.1.2.valueP (i.2.2.2.2.2.iter (keyLabels (scanTerms' i.2.1)))
  report "solve_bruteforce_whole" inputs (fun i => showWhole (g i) != showOut i.2.1 (m i))
    (fun i => jW [("spin", jBool i.1.2.spin), ("value", jStr i.1.1)] i.2) (fun i => canonWhole (g i)) (fun i => canonOut (m i))

def searchWrapper (name : String) (fn : Brute.Fn)
    (gen : Brute.Model → Bool → (Assign → Bool) → PySetOrder → Except Err ((Option Rat × Brute.Sol) × Brute.Model)) : String :=
  let g (i : WInput) := gen i.1 i.2.1 i.2.2.1.2 i.2.2.2.2
  let m (i : WInput) := solve fn i.1 i.2.1 i.2.2.1.2 (i.2.2.2.2.iter (keyLabels (scanTerms' i.1)))
  report name wInputs (fun i => showWhole (g i) != showOut i.1 (m i)) (jW []) (fun i => canonWhole (g i))
    (fun i => canonOut (m i))

def search_solve_pubo_bruteforce : String := searchWrapper "solve_pubo_bruteforce" .pubo solve_pubo_bruteforce
def search_solve_qubo_bruteforce : String := searchWrapper "solve_qubo_bruteforce" .qubo solve_qubo_bruteforce
def search_solve_puso_bruteforce : String := searchWrapper "solve_puso_bruteforce" .puso solve_puso_bruteforce
def search_solve_quso_bruteforce : String := searchWrapper "solve_quso_bruteforce" .quso solve_quso_bruteforce

def searchMethod (name : String) (fn : Brute.Fn)
    (gen : Brute.Model → Bool → (Assign → Bool) → PySetOrder → Except Err (Brute.Sol × Brute.Model)) : String :=
  let g (i : WInput) := gen i.1 i.2.1 i.2.2.1.2 i.2.2.2.2
  let m (i : WInput) := solve fn i.1 i.2.1 i.2.2.1.2 (i.2.2.2.2.iter (keyLabels (scanTerms' i.1)))
  report name wInputs (fun i => showMethod (g i) != showMethodOut (m i)) (jW []) (fun i => canonMethod (g i))
    (fun i => canonMethodOut (m i))

def search_pubomatrix_solve_bruteforce : String := searchMethod "pubomatrix_solve_bruteforce" .pubo pubomatrix_solve_bruteforce
def search_qubomatrix_solve_bruteforce : String := searchMethod "qubomatrix_solve_bruteforce" .qubo qubomatrix_solve_bruteforce
def search_pusomatrix_solve_bruteforce : String := searchMethod "pusomatrix_solve_bruteforce" .puso pusomatrix_solve_bruteforce
def search_qusomatrix_solve_bruteforce : String := searchMethod "qusomatrix_solve_bruteforce" .quso qusomatrix_solve_bruteforce

end Qv.Gen.Search
