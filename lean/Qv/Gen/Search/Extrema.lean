import Qv.Gen.Source
import Qv.Gen.Search.Lib
import Qv.Model.Extrema
/-! distinguishing-input search for the group `Extrema` (C15; C02, C03, C06) -/
namespace Qv.Gen.Search

private def extremaSearch (name pname : String) (gen model : Poly → Rat × Rat) : String :=
  report name polys (fun p => gen p != model p) (fun p => jObj [(pname, jPoly p)]) (fun p => pairStr (gen p))
    (fun p => pairStr (model p))

def search_approximate_pubo_extrema : String := extremaSearch "approximate_pubo_extrema" "P" approximate_pubo_extrema puboExtrema
def search_approximate_puso_extrema : String := extremaSearch "approximate_puso_extrema" "H" approximate_puso_extrema pusoExtrema
def search_approximate_qubo_extrema : String := extremaSearch "approximate_qubo_extrema" "Q" approximate_qubo_extrema puboExtrema
def search_approximate_quso_extrema : String := extremaSearch "approximate_quso_extrema" "L" approximate_quso_extrema pusoExtrema

end Qv.Gen.Search
