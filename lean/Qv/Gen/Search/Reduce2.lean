import Qv.Gen.SourceReduce2
import Qv.Gen.Search.Lib
import Qv.Model.ReduceWhole
/-! distinguishing-input search for the group `Reduce2` (`PUBO._reduce_degree` as a whole and its outer parts, C01 / C08 /
C14 / C16).  Generated definitions against the model on small structured inputs; `rd2_whole` is driven over whole models
with target degree, penalty setting and hints, so that a distinguishing input is a call the harness can replay on the real
`to_pubo`. -/
namespace Qv.Gen.Search
open Qv Qv.Reduce

private def rd2FreqK (f : Freq) : List (Key × Nat) := f.map (fun e => ([e.1.1, e.1.2], e.2))
private def rd2SortStrs (l : List String) : List String := l.mergeSort (fun a b => decide (a ≤ b))
private def rd2ShowD (D : Poly) : String :=
  "[" ++ ", ".intercalate (rd2SortStrs (D.map (fun kv => "[" ++ jKey kv.1 ++ ", " ++ jRat kv.2 ++ "]"))) ++ "]"
private def rd2ShowFreq (f : List (Key × Nat)) : String := jList (fun e => "[" ++ jKey e.1 ++ ", " ++ jNat e.2 ++ "]") f
private def rd2JOptNat : Option Nat → String
  | none => "null"
  | some n => jNat n
private def rd2JOptKeys : Option (List Key) → String
  | none => "null"
  | some l => jList jKey l

/-! ### prologue -/

private def rd2Lams : List Lam := [.default, .const 0, .const 2, .const (-1 / 2), .absTimes 2, .affine 1 3, .sqPlus 1]
private def rd2LamArgS : Lam → Option PyRd2Lam
  | .default => none
  | .const c => some (.num c)
  | l => some (.fn l.app)
private def rd2JLam : Lam → String
  | .default => jObj [("kind", jStr "default")]
  | .const c => jObj [("kind", jStr "const"), ("c", jRat c)]
  | .absTimes c => jObj [("kind", jStr "absTimes"), ("c", jRat c)]
  | .affine a b => jObj [("kind", jStr "affine"), ("a", jRat a), ("b", jRat b)]
  | .sqPlus c => jObj [("kind", jStr "sqPlus"), ("c", jRat c)]
private def rd2Probe : List Rat := [0, 1, -3, 5 / 2]

def search_rd2_prologue : String :=
  let inputs := pairs [none, some 0, some 1, some 2, some 3, some 7] (pairs rd2Lams [0, 1, 4])
  let sh (r : Except Err (Nat × (Rat → Rat))) : String :=
    showExcept (fun p => toString p.1 ++ " " ++ jList jRat (rd2Probe.map p.2)) r
  let g (i : Option Nat × Lam × Nat) : String := sh (rd2_prologue i.1 (rd2LamArgS i.2.1) i.2.2)
  let m (i : Option Nat × Lam × Nat) : String :=
    sh (match i.1 with
        | some d => if d < 2 then .error .value else .ok (d, i.2.1.app)
        | none => .ok (i.2.2, i.2.1.app))
  report "rd2_prologue" inputs (fun i => g i != m i)
    (fun i => jObj [("deg", rd2JOptNat i.1), ("lam", rd2JLam i.2.1), ("degree", jNat i.2.2)]) g m

/-! ### hints -/

private def rd2Maps : List Mapping := [[], [(0, 0), (1, 1), (2, 2)], [(0, 2), (1, 0), (2, 1), (5, 3)]]
private def rd2Hints : List (Option (List Key)) :=
  [none, some [], some [[0, 1]], some [[1, 0], [2, 5]], some [[0, 9], [1, 2]], some [[2, 1, 0]], some [[]]]

def search_rd2_pairs : String :=
  let g (i : Option (List Key) × Mapping) : String := showExcept (jList jKey) (rd2_pairs i.1 i.2)
  let m (i : Option (List Key) × Mapping) : String := jList jKey ((i.1.getD []).map (mapPair i.2))
  report "rd2_pairs" (pairs rd2Hints rd2Maps) (fun i => g i != m i)
    (fun i => jObj [("pairs", rd2JOptKeys i.1), ("mapping", jStr (toString (repr i.2)))]) g m

/-! ### pair counts, one term -/

private def rd2Keys : List Key := [[], [0], [0, 1], [0, 1, 2], [1, 3, 4, 6], [0, 1, 2, 3, 4], [2, 2, 3]]
private def rd2Freqs : List Freq := [[], [((0, 1), 2), ((1, 2), 3)], [((1, 3), 1), ((0, 2), 4), ((2, 3), 1)]]

def search_rd2_freq : String :=
  let g (i : Key × Freq) : String := showExcept rd2ShowFreq (rd2_freq i.1 (rd2FreqK i.2))
  let m (i : Key × Freq) : String := rd2ShowFreq (rd2FreqK ((pairsOf i.1).foldl freqInc i.2))
  report "rd2_freq" (pairs rd2Keys rd2Freqs) (fun i => g i != m i)
    (fun i => jObj [("key", jKey i.1), ("pair_frequencies", jStr (toString (repr i.2)))]) g m

def search_rd2_count : String :=
  let accs : List Poly := [[], [([0, 1], 2)], [([], 1), ([0, 2], -3), ([1, 2], 3)]]
  let inputs := pairs [[], [0], [1, 0], [0, 1, 2], [2, 0], [0, 7]] (pairs [(3 : Rat), -3, 0] (pairs rd2Maps (pairs accs rd2Freqs)))
  let sh (r : Except Err (Poly × List (Key × Nat))) : String := showExcept (fun p => jPoly p.1 ++ " " ++ rd2ShowFreq p.2) r
  let g (i : Key × Rat × Mapping × Poly × Freq) : String := sh (rd2_count i.1 i.2.1 i.2.2.1 i.2.2.2.1 (rd2FreqK i.2.2.2.2))
  let m (i : Key × Rat × Mapping × Poly × Freq) : String :=
    sh (match Reduce.mapKey i.2.2.1 i.1 with
        | .error e => .error e
        | .ok key => .ok (put i.2.2.2.1 key (get i.2.2.2.1 key + i.2.1), rd2FreqK ((pairsOf key).foldl freqInc i.2.2.2.2)))
  report "rd2_count" inputs (fun i => g i != m i)
    (fun i => jObj [("k", jKey i.1), ("v", jRat i.2.1), ("mapping", jStr (toString (repr i.2.2.1))),
      ("mapped_self", jPoly i.2.2.2.1), ("pair_frequencies", jStr (toString (repr i.2.2.2.2)))]) g m

/-! ### the whole function -/

/-- whole models (labels in order of first appearance, so the mapping is the identity) -/
private def rd2Models : List Poly :=
  [ [], [([], 3)], [([0], 2), ([], -1)], [([0, 1], 1)], [([0, 1, 2], 1)], [([0, 1, 2], -2)], [([0, 1, 2, 3], 3)],
    [([0, 1, 2], 1), ([1, 2, 3], 2)], [([0, 1, 2], 2), ([0, 1, 3], -3)], [([0, 1, 2, 3], 1), ([1, 2, 3], -2), ([0, 3], 1)],
    [([0], 2), ([0, 1, 2], -1), ([2, 3, 4], 4), ([0, 1, 2, 3, 4], 1)], [([0, 1, 2, 3, 4, 5], 2), ([2, 3, 4, 5], -5)],
    [([0, 1, 2], 1), ([0, 1, 3], 1), ([0, 1, 4], 1), ([2, 3, 4], -3)], [([0, 2, 3], 5), ([1, 2, 3], -1), ([0, 1, 2, 3], 2)],
    [([0, 1, 2, 3, 4, 5, 6], -2), ([4, 5, 6], 1)], [([0, 1, 2, 3], 1), ([1, 2, 3], 0), ([1, 2], 4)] ]

private def rd2Nvars (p : Poly) : Nat := p.foldl (fun n kv => kv.1.foldl (fun n i => max n (i + 1)) n) 0
private def rd2IdMap (n : Nat) : Mapping := (List.range n).map (fun i => (i, i))

private def rd2Settings : List (Option Nat × Lam × Option (List Key)) :=
  [ (some 2, .default, none), (some 3, .default, none), (none, .default, none), (some 1, .default, none),
    (some 2, .const 2, none), (some 2, .const 0, none), (some 2, .absTimes 2, none), (some 3, .affine 1 3, none),
    (some 2, .default, some [[1, 2]]), (some 2, .default, some [[2, 1], [0, 9]]), (some 2, .sqPlus 1, some [[0, 3], [2, 3]]) ]

def search_rd2_whole : String :=
  let g (i : Poly × Option Nat × Lam × Option (List Key)) : String :=
    showExcept rd2ShowD (rd2_whole [] i.2.1 (rd2LamArgS i.2.2.1) i.2.2.2 (rd2IdMap (rd2Nvars i.1)) i.1 (rd2Nvars i.1)
      (degree i.1) 77 78)
  let m (i : Poly × Option Nat × Lam × Option (List Key)) : String :=
    showExcept (fun o => rd2ShowD o.D)
      (reduceDegreeC i.1 (rd2IdMap (rd2Nvars i.1)) (rd2Nvars i.1) (degree i.1) i.2.1 i.2.2.1 (i.2.2.2.getD []))
  report "rd2_whole" (pairs rd2Models rd2Settings) (fun i => g i != m i)
    (fun i => jObj [("P", jPoly i.1), ("deg", rd2JOptNat i.2.1), ("lam", rd2JLam i.2.2.1), ("pairs", rd2JOptKeys i.2.2.2)]) g m

end Qv.Gen.Search
