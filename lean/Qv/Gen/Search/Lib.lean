import Qv.Model.Basic
/-!
# Qv.Gen.Search.Lib — structured input streams and the first-difference search

Used only when an equivalence obligation `Qv.Gen.<f> = model <f>` stops checking (`harness/gen_tie.py`):
the generated definition still elaborates, so both sides can be *evaluated* on a stream of small structured
inputs; the first input on which they differ is printed as JSON and replayed on the real code by the harness.
Nothing here is trusted by any theorem.  Core Lean only; evaluated by the interpreter (`lake env lean`).
-/
namespace Qv.Gen.Search

def jEsc (s : String) : String :=
  s.foldl (fun acc c =>
    if c = '"' then acc ++ "\\\"" else if c = '\\' then acc ++ "\\\\" else if c = '\n' then acc ++ " " else acc.push c) ""
def jStr (s : String) : String := "\"" ++ jEsc s ++ "\""
/-- `n` or `n/d`: the textual form of a number shared with the harness (`gen_search.fs`) -/
def ratStr (r : Rat) : String := if r.den = 1 then toString r.num else toString r.num ++ "/" ++ toString r.den
def jRat (r : Rat) : String := jStr (ratStr r)
def jNat (n : Nat) : String := toString n
def jInt (n : Int) : String := toString n
def jBool (b : Bool) : String := if b then "true" else "false"
def jList {α : Type} (f : α → String) (l : List α) : String := "[" ++ ", ".intercalate (l.map f) ++ "]"
def jKey (k : Key) : String := jList jNat k
def jPoly (p : Poly) : String := jList (fun kv => "[" ++ jKey kv.1 ++ ", " ++ jRat kv.2 ++ "]") p
def jObj (fields : List (String × String)) : String :=
  "{" ++ ", ".intercalate (fields.map (fun f => jStr f.1 ++ ": " ++ f.2)) ++ "}"
def jOptRat : Option Rat → String
  | none => "null"
  | some r => jRat r

/-- an assignment given by its values on the labels `0, 1, 2, …` (other labels: `dflt`) -/
def assignOf (dflt : Rat) (vals : List Rat) : Var → Rat := fun i => vals.getD i dflt

/-- all value lists of length `n` over `dom` -/
def tuples (dom : List Rat) : Nat → List (List Rat)
  | 0 => [[]]
  | n + 1 => dom.flatMap (fun a => (tuples dom n).map (fun t => a :: t))

def rats : List Rat := [0, 1, -1, 2, -2, 1/2, -1/2, 3, -3, 5/2, -7/3, 4, 7, -8, 1000001, -1000001]
def smallRats : List Rat := [0, 1, -1, 2, -3, 1/2, -5/2]
def coefs : List Rat := [1, -1, 2, -3, 1/2, 0]

/-- keys: empty, single, pairs (sorted, unsorted, repeated label), longer than 2, longer than 3 -/
def keys : List Key := [[], [0], [1], [3], [0, 1], [1, 0], [0, 0], [1, 2], [0, 3], [0, 1, 2], [2, 1, 0], [0, 0, 1],
  [1, 1, 1], [0, 1, 2, 3], [3, 2, 1, 0, 0]]

/-- small term lists (a dict: no key twice): empty, constant, single terms over every key and a few coefficients, and two / three / four
term combinations (incl. a repeated key, cancelling coefficients, offset first / last) -/
def polys : List Poly :=
  [[]] ++ keys.flatMap (fun k => coefs.map (fun c => [(k, c)])) ++
  [ [([], 2), ([0], -3)], [([0], -3), ([], 2)], [([0], 1), ([1], 1), ([], -1)], [([0], 1), ([1], -1)],
    [([], 1), ([0], -1), ([1, 2], -1)], [([0], 2), ([1], 3), ([], -3)], [([0, 1], 5), ([0], -3), ([], 2), ([2], 1/2)],
    [([0, 1], 1), ([1, 0], 1)], [([0], 2), ([1], -3)], [([0, 1, 2], 4), ([0], -1), ([2], 2)],
    [([0, 0], 3), ([1], 1)], [([0], 1), ([1], 1), ([2], 1), ([], -2)], [([0, 1], -2), ([1, 2], -2), ([0, 2], 3), ([], 1)],
    [([0], 1000001), ([1], -1)], [([0], -1000001), ([1], 2)], [([0, 1, 2, 3], 1), ([3], -2)], [([0], 1/2), ([1], 1/3), ([], -5/6)] ]

def bools : List Bool := [false, true]

/-- bounds pairs: ordinary, equal, crossed, zero at either end, negative, huge -/
def bounds : List (Rat × Rat) :=
  [(0, 0), (0, 3), (-1, 1), (-3, 0), (1, 2), (-2, -1), (2, 1), (-3, 2), (-1/2, 7/2), (0, 1), (-1, 0), (-1, 2), (-9, 10),
   (-1000001, 1000001), (3, 3), (-3, -3), (-4, 11), (-100, 5)]

def optBounds : List (Option Rat × Option Rat) :=
  [(none, none), (some 0, none), (none, some 3), (some (-1), some 1), (some 2, some 1), (some 0, some 0)]

/-- the first element of `xs` on which `differs` holds, with its position; `none` after all `xs.length` inputs -/
def firstDiff {α : Type} (xs : List α) (differs : α → Bool) : Nat × Option α :=
  let rec go : List α → Nat → Nat × Option α
    | [], n => (n, none)
    | x :: r, n => if differs x then (n + 1, some x) else go r (n + 1)
  go xs 0

/-- the result line the harness parses -/
def report {α : Type} (name : String) (xs : List α) (differs : α → Bool) (showInput : α → String)
    (showGen showModel : α → String) : String :=
  match firstDiff xs differs with
  | (n, none) => jObj [("function", jStr name), ("tried", jNat n), ("input", "null")]
  | (n, some x) => jObj [("function", jStr name), ("tried", jNat n), ("input", showInput x),
      ("generated", jStr (showGen x)), ("model", jStr (showModel x))]

def pairs {α β : Type} (as : List α) (bs : List β) : List (α × β) := as.flatMap (fun a => bs.map (fun b => (a, b)))

def showExcept {α : Type} (f : α → String) (r : Except Err α) : String :=
  match r with
  | .ok v => f v
  | .error e => "raise " ++ e.name
def pairStr (p : Rat × Rat) : String := "(" ++ ratStr p.1 ++ ", " ++ ratStr p.2 ++ ")"
def boolStr (b : Bool) : String := if b then "true" else "false"

end Qv.Gen.Search
