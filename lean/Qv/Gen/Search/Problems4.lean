import Qv.Gen.Search.ProblemsLib
/-! distinguishing-input search for the group `Problems4` (AlternatingSectorsChain.to_quso; C10) -/
namespace Qv.Gen.Search
open Qv Qv.Prob

/-- chains with `N ≥ 1` (what `__init__` allows): lengths around the sector boundaries, chain lengths 2..4 -/
def ascInstances : List ASC :=
  (pairs [1, 2, 3, 4, 5, 6, 7, 8, 9, 12, 13] (pairs [2, 3, 4] [((1 : Rat), (10 : Rat)), (2, 1/2), (0, 3)])).map
    (fun i => ⟨i.1, i.2.1, -i.2.2.1, -i.2.2.2⟩)

def search_AlternatingSectorsChain_to_quso : String :=
  let inputs := pairs ascInstances [none, some false, some true]
  let g (i : ASC × Option Bool) := match i.2 with
    | some pbc => AlternatingSectorsChain_to_quso i.1.N i.1.len i.1.negMin i.1.negMax pbc
    | none => AlternatingSectorsChain_to_quso_default i.1.N i.1.len i.1.negMin i.1.negMax
  let m (i : ASC × Option Bool) := i.1.toQuso (i.2.getD false)
  report "AlternatingSectorsChain_to_quso" inputs (fun i => showPoly (g i) != showPoly (m i))
    (fun i => jObj [("N", jNat i.1.N), ("chain_length", jNat i.1.len), ("min_strength", jRat (-i.1.negMin)),
      ("max_strength", jRat (-i.1.negMax)), ("pbc", match i.2 with | none => "null" | some b => jBool b)])
    (fun i => showPoly (g i)) (fun i => showPoly (m i))

end Qv.Gen.Search
