import Qv.Gen.SourceConv3Dec
import Qv.Gen.Search.Conv2Sol
import Qv.Model.Convert3
/-! distinguishing-input search for the group `Conv3Dec` (`decimal_to_boolean`, `boolean_to_decimal`, `decimal_to_spin`,
`spin_to_decimal`, C04 additions): numbers × widths, and tuples of bits / spins -/
namespace Qv.Gen.Search

def cv3Decs : List Int := [0, 1, 2, 3, 4, 5, 6, 7, 8, 10, 15, 16, 31, 32, 255, 256, 1000001, -1, -2, -7]
def cv3Widths : List (Option Int) := [none, some 0, some 1, some 2, some 3, some 4, some 5, some 7, some 8, some 9, some 20, some (-1)]
def cv3JOptInt : Option Int → String
  | none => "null"
  | some n => jInt n
def cv3ShowInts (r : Except Err (List Int)) : String := showExcept (jList jInt) r

def search_cv3_decimal_to_boolean : String :=
  report "cv3_decimal_to_boolean" (pairs cv3Decs cv3Widths)
    (fun i => cv3ShowInts (cv3_decimal_to_boolean i.1 i.2) != cv3ShowInts (decimalToBoolean i.1 i.2))
    (fun i => jObj [("d", jInt i.1), ("num_bits", cv3JOptInt i.2)])
    (fun i => cv3ShowInts (cv3_decimal_to_boolean i.1 i.2)) (fun i => cv3ShowInts (decimalToBoolean i.1 i.2))

def cv3SeqOf (l : List Int) : SolC := ⟨false, (List.range l.length).zip (l.map (fun (k : Int) => (k : Rat)))⟩

def search_cv3_decimal_to_spin : String :=
  let model (i : Int × Option Int) : Except Err SolC := decimalToSpin i.1 i.2 >>= fun z => .ok (cv3SeqOf z)
  report "cv3_decimal_to_spin" (pairs cv3Decs cv3Widths)
    (fun i => showSol (cv3_decimal_to_spin i.1 i.2) != showSol (model i))
    (fun i => jObj [("d", jInt i.1), ("num_spins", cv3JOptInt i.2)])
    (fun i => showSol (cv3_decimal_to_spin i.1 i.2)) (fun i => showSol (model i))

/-- tuples of bits: all of length ≤ 4, and some longer ones -/
def cv3BitLists : List (List Int) :=
  (List.range 5).flatMap (fun n => (tuples [0, 1] n).map (fun t => t.map (fun r => r.num))) ++
  [[1, 0, 1, 0, 1, 0, 1], [0, 0, 0, 0, 0, 1], [1, 1, 1, 1, 1, 1, 1, 1, 1], [1, 0, 0, 0, 0, 0, 0, 0, 0, 0, 0, 0, 0, 0, 0, 0, 0]]

def cv3ShowInt (r : Except Err Int) : String := showExcept jInt r

def search_cv3_boolean_to_decimal : String :=
  report "cv3_boolean_to_decimal" cv3BitLists
    (fun l => cv3ShowInt (cv3_boolean_to_decimal (cv3SeqOf l)) != cv3ShowInt (.ok (booleanToDecimal l)))
    (fun l => jObj [("is_dict", jBool false), ("items", jSolItems (cv3SeqOf l).items)])
    (fun l => cv3ShowInt (cv3_boolean_to_decimal (cv3SeqOf l))) (fun l => cv3ShowInt (.ok (booleanToDecimal l)))

def search_cv3_spin_to_decimal : String :=
  let spins (l : List Int) : List Int := l.map (fun b => 1 - 2 * b)
  report "cv3_spin_to_decimal" cv3BitLists
    (fun l => cv3ShowInt (cv3_spin_to_decimal (cv3SeqOf (spins l))) != cv3ShowInt (.ok (spinToDecimal (spins l))))
    (fun l => jObj [("is_dict", jBool false), ("items", jSolItems (cv3SeqOf (spins l)).items)])
    (fun l => cv3ShowInt (cv3_spin_to_decimal (cv3SeqOf (spins l)))) (fun l => cv3ShowInt (.ok (spinToDecimal (spins l))))

end Qv.Gen.Search
