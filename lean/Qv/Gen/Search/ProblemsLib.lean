import Qv.Gen.SourceProblems
import Qv.Gen.Search.Lib
/-! shared by the distinguishing-input searches of the problem-class groups (C10): printing and input streams -/
namespace Qv.Gen.Search
open Qv Qv.Prob

def keyLt : Key → Key → Bool
  | [], [] => false
  | [], _ :: _ => true
  | _ :: _, [] => false
  | a :: r, b :: s => a < b || (a == b && keyLt r s)

def insTerm (t : Key × Rat) : Poly → Poly
  | [] => [t]
  | u :: r => if keyLt t.1 u.1 then t :: u :: r else u :: insTerm t r

/-- a returned matrix, printed with its terms sorted by key (dict equality ignores insertion order) -/
def showPoly (r : Except Err Poly) : String := showExcept (fun p => jPoly (p.foldr insTerm [])) r
def showRats (l : List Rat) : String := jList jRat l
def showNats (l : List Nat) : String := jList jNat l
def showBoolE (r : Except Err Bool) : String := showExcept boolStr r
def jSol (s : Sol) : String := jList (fun iv => "[" ++ jNat iv.1 ++ ", " ++ jRat iv.2 ++ "]") s
def jEdges (l : List (Var × Var)) : String := jList (fun e => "[" ++ jNat e.1 ++ ", " ++ jNat e.2 ++ "]") l
def jWEdges (l : List ((Var × Var) × Rat)) : String :=
  jList (fun e => "[" ++ jNat e.1.1 ++ ", " ++ jNat e.1.2 ++ ", " ++ jRat e.2 ++ "]") l
def jOptR : Option Rat → String
  | none => "null"
  | some r => jRat r

/-- solver outputs over `n` labels: every boolean and spin assignment as a list and as a dict (reversed item order), one with
a value outside both domains, one too short -/
def sols (n : Nat) : List (Sol × Bool) :=
  let mk (vals : List Rat) : Sol := (List.range vals.length).zip vals
  ((tuples [0, 1] n ++ tuples [1, -1] n).flatMap (fun v => [(mk v, false), ((mk v).reverse, true)])) ++
  [(mk (List.replicate n 2), false), (mk (List.replicate (n - 1) 1), false), (mk (List.replicate (n - 1) 0), true)]

def weights : List Rat := [1, 2, 3, 1/2, -1, 0, 1000001]

end Qv.Gen.Search
