import Qv.Gen.Search.ProblemsLib
/-! distinguishing-input search for the group `Problems3` (BILP; C10) -/
namespace Qv.Gen.Search
open Qv Qv.Prob

def bilpInstances : List BILP :=
  [⟨[1, 2], [[1, 1]], [1], 2⟩, ⟨[1, -1, 2], [[1, 0, 1], [0, 1, 1]], [1, 1], 3⟩, ⟨[0, 0], [[2, 3], [1, -1]], [5, 0], 2⟩,
   ⟨[3], [[1], [2], [0]], [1, 2, 0], 1⟩, ⟨[1, 1, 1, 1], [[1, 2, 3, 4]], [6], 4⟩, ⟨[1/2, 1], [[1/2, 1/2]], [1/2], 2⟩,
   ⟨[1, 2], [[1, 1], [1, 1]], [1, 1000001], 2⟩, ⟨[], [[]], [0], 0⟩]

def jBILP (p : BILP) : List (String × String) := [("c", showRats p.c), ("S", jList showRats p.S), ("b", showRats p.b)]

def search_BILP_to_qubo : String :=
  let inputs := pairs bilpInstances (pairs ([none] ++ weights.map some) ([none] ++ [1, 2, 1/2, -1].map some))
  let g (i : BILP × Option Rat × Option Rat) := match i.2.2 with
    | some B => BILP_to_qubo i.1.c i.1.S i.1.b i.1.N i.1.S.length i.2.1 B
    | none => BILP_to_qubo_default i.1.c i.1.S i.1.b i.1.N i.1.S.length
  let m (i : BILP × Option Rat × Option Rat) := match i.2.2 with
    | some B => i.1.toQubo i.2.1 B
    | none => i.1.toQubo none 1
  report "BILP_to_qubo" inputs (fun i => showPoly (g i) != showPoly (m i))
    (fun i => jObj (jBILP i.1 ++ [("A", jOptR i.2.1), ("B", jOptR i.2.2)])) (fun i => showPoly (g i)) (fun i => showPoly (m i))

def bilpSolInputs : List (BILP × Sol × Bool × Bool) :=
  (bilpInstances.filter (fun p => p.N ≤ 3 && p.N ≥ 1)).flatMap (fun p => (sols p.N).flatMap (fun sd => bools.map (fun sp => (p, sd.1, sd.2, sp))))

def showRatsE (r : Except Err (List Rat)) : String := showExcept showRats r
def jBilpSol (i : BILP × Sol × Bool × Bool) : String :=
  jObj (jBILP i.1 ++ [("solution", jSol i.2.1), ("is_dict", jBool i.2.2.1), ("spin", jBool i.2.2.2)])

def search_BILP_convert_solution : String :=
  let g (i : BILP × Sol × Bool × Bool) := BILP_convert_solution i.1.c i.1.S i.1.b i.1.N i.1.S.length i.2.1 i.2.2.1 i.2.2.2
  let m (i : BILP × Sol × Bool × Bool) := i.1.convert i.2.1 i.2.2.1 i.2.2.2
  report "BILP_convert_solution" bilpSolInputs (fun i => showRatsE (g i) != showRatsE (m i)) jBilpSol
    (fun i => showRatsE (g i)) (fun i => showRatsE (m i))

def search_BILP_is_solution_valid : String :=
  let inputs := pairs bilpSolInputs bools
  let g (i : (BILP × Sol × Bool × Bool) × Bool) :=
    BILP_is_solution_valid i.1.1.c i.1.1.S i.1.1.b i.1.1.N i.1.1.S.length i.1.2.1 i.1.2.2.1 i.1.2.2.2 i.2
  let m (i : (BILP × Sol × Bool × Bool) × Bool) := i.1.1.valid i.1.2.1 i.1.2.2.1 i.1.2.2.2 i.2
  report "BILP_is_solution_valid" inputs (fun i => showBoolE (g i) != showBoolE (m i))
    (fun i => jObj (jBILP i.1.1 ++ [("solution", jSol i.1.2.1), ("is_dict", jBool i.1.2.2.1), ("spin", jBool i.1.2.2.2), ("exact", jBool i.2)]))
    (fun i => showBoolE (g i)) (fun i => showBoolE (m i))

def search_BILP_is_solution_valid_converted : String :=
  let inputs := (bilpInstances.filter (fun p => p.N ≤ 4)).flatMap (fun p => pairs ((tuples [0, 1] p.N).map (fun x => (p, x))) bools)
  let g (i : (BILP × List Rat) × Bool) := BILP_is_solution_valid_converted i.1.1.c i.1.1.S i.1.1.b i.1.1.N i.1.1.S.length i.1.2 false i.2
  let m (i : (BILP × List Rat) × Bool) : Except Err Bool := .ok (i.1.1.validConv i.1.2 i.2)
  report "BILP_is_solution_valid_converted" inputs (fun i => showBoolE (g i) != showBoolE (m i))
    (fun i => jObj (jBILP i.1.1 ++ [("x", showRats i.1.2), ("exact", jBool i.2)])) (fun i => showBoolE (g i)) (fun i => showBoolE (m i))

end Qv.Gen.Search
