import Qv.Gen.SourceConv3Exp
import Qv.Gen.Search.Conv2Sol
import Qv.Model.Convert
/-! distinguishing-input search for the group `Conv3Exp` (`QUSOMatrix.h`, `QUSOMatrix.J`, C04) -/
namespace Qv.Gen.Search

/-- term lists a QUSOMatrix can hold (distinct keys), incl. several single-label keys and pairs in both orders -/
def cv3Qusos : List Poly :=
  polys ++ [[([0], 1), ([1], 2), ([2], -3), ([], 4)], [([2], 1), ([0, 1], 2), ([0], 3), ([1, 2], 5)], [([1], 1), ([0], 2)],
    [([0, 1], 1), ([0, 2], 2), ([1, 2], 3)], [([3], 1/2), ([0, 3], -1), ([], 2), ([0], 7)]]

def search_cv3_QUSOMatrix_h : String :=
  let sh (r : Except Err (List (Var × Rat))) : String := showAssign r
  report "cv3_QUSOMatrix_h" cv3Qusos (fun p => sh (cv3_QUSOMatrix_h ⟨.qusom, p⟩) != sh (.ok (exportH p)))
    (fun p => jObj [("kind", jStr "QUSOMatrix"), ("items", jPoly p)]) (fun p => sh (cv3_QUSOMatrix_h ⟨.qusom, p⟩))
    (fun p => sh (.ok (exportH p)))

def search_cv3_QUSOMatrix_J : String :=
  let sh (r : Except Err Poly) : String := showExcept jPoly r
  report "cv3_QUSOMatrix_J" cv3Qusos (fun p => sh (cv3_QUSOMatrix_J ⟨.qusom, p⟩) != sh (.ok (exportJ p)))
    (fun p => jObj [("kind", jStr "QUSOMatrix"), ("items", jPoly p)]) (fun p => sh (cv3_QUSOMatrix_J ⟨.qusom, p⟩))
    (fun p => sh (.ok (exportJ p)))

end Qv.Gen.Search
