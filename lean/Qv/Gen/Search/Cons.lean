import Qv.Gen.SourceCons
import Qv.Gen.Search.Lib
import Qv.Gen.Interp
/-! distinguishing-input search for the group `Cons` (decision chains of `PCBO.add_constraint_{lt,le,gt,ge,ne}_zero`) -/
namespace Qv.Gen.Search

private def stStr (s : St) : String := toString (repr (untagged s))
private def showSt (r : Except Err St) : String := showExcept stStr r

/-- inputs: bounds pair × log_trick × suppress_warnings, on the PCBO `{}` with a polynomial to which no special
shape applies, `lam = 3/2` -/
private def chainSearch (name : String) (rel : Rel)
    (gen : Bool → Bool → Rat → Rat → Except Err (List CEff))
    (model : St → Poly → Rat → Bool → Option Rat × Option Rat → Bool → St) (needsNoSpecial : Bool) : String :=
  let P : Poly := [([0], 2), ([1, 2], -3), ([], 1/2)]
  let lam : Rat := 3/2
  let s : St := {}
  -- without the log trick the number of slack ancillas is the width of the bounds: keep them small
  let small := bounds.filter (fun b => -12 ≤ b.1 ∧ b.1 ≤ 12 ∧ -12 ≤ b.2 ∧ b.2 ≤ 12)
  let inputs := (pairs small (pairs bools bools)).filter (fun i =>
    !needsNoSpecial || (specialLe (s.append rel P) P lam i.2.1 i.1).isNone)
  let g (i : (Rat × Rat) × Bool × Bool) : Except Err St :=
    (gen i.2.1 i.2.2 i.1.1 i.1.2).map (fun effs => (effs.foldl (runCEff lam i.2.1) { s := s.append rel P, P := P }).s)
  let m (i : (Rat × Rat) × Bool × Bool) : Except Err St := .ok (model s P lam i.2.1 (some i.1.1, some i.1.2) i.2.2)
  report name inputs (fun i => showSt (g i) != showSt (m i))
    (fun i => jObj [("min_val", jRat i.1.1), ("max_val", jRat i.1.2), ("log_trick", jBool i.2.1),
      ("suppress_warnings", jBool i.2.2)])
    (fun i => showSt (g i)) (fun i => showSt (m i))

def search_add_constraint_lt_zero_decision : String :=
  chainSearch "add_constraint_lt_zero_decision" .lt add_constraint_lt_zero_decision addLtZero false
def search_add_constraint_le_zero_decision : String :=
  chainSearch "add_constraint_le_zero_decision" .le add_constraint_le_zero_decision addLeZero true
def search_add_constraint_gt_zero_decision : String :=
  chainSearch "add_constraint_gt_zero_decision" .gt add_constraint_gt_zero_decision addGtZero false
def search_add_constraint_ge_zero_decision : String :=
  chainSearch "add_constraint_ge_zero_decision" .ge add_constraint_ge_zero_decision addGeZero false
def search_add_constraint_ne_zero_decision : String :=
  chainSearch "add_constraint_ne_zero_decision" .ne add_constraint_ne_zero_decision addNeZero false

end Qv.Gen.Search
