import Qv.Gen.Search.ProblemsLib
/-! distinguishing-input search for the group `Problems` (NumberPartitioning, GraphPartitioning; C10) -/
namespace Qv.Gen.Search
open Qv Qv.Prob

def npLists : List (List Rat) := [[1, 2, 3], [3, 1, 1, 2, 2, 1], [5], [1, -1], [2, 2], [1/2, 3/2, 1], [], [4, 5, 6, 7, 8], [1000001, 1, 1000000]]

def search_NumberPartitioning_to_quso : String :=
  let inputs := pairs npLists ((weights.map some) ++ [none])
  let g (i : List Rat × Option Rat) := match i.2 with
    | some A => NumberPartitioning_to_quso i.1 i.1.length A
    | none => NumberPartitioning_to_quso_default i.1 i.1.length
  let m (i : List Rat × Option Rat) := (NP.mk i.1).toQuso (i.2.getD 1)
  report "NumberPartitioning_to_quso" inputs (fun i => showPoly (g i) != showPoly (m i))
    (fun i => jObj [("S", showRats i.1), ("A", jOptR i.2)]) (fun i => showPoly (g i)) (fun i => showPoly (m i))

def npSolInputs : List (List Rat × Sol × Bool × Bool) :=
  (npLists.filter (fun S => S.length ≤ 4 && S.length ≥ 1)).flatMap (fun S => (sols S.length).flatMap (fun sd => bools.map (fun sp => (S, sd.1, sd.2, sp))))

def showPairRats (r : Except Err (List Rat × List Rat)) : String :=
  showExcept (fun c => "[" ++ showRats c.1 ++ ", " ++ showRats c.2 ++ "]") r

def jNpSol (i : List Rat × Sol × Bool × Bool) : String :=
  jObj [("S", showRats i.1), ("solution", jSol i.2.1), ("is_dict", jBool i.2.2.1), ("spin", jBool i.2.2.2)]

def search_NumberPartitioning_convert_solution : String :=
  let g (i : List Rat × Sol × Bool × Bool) := NumberPartitioning_convert_solution i.1 i.1.length i.2.1 i.2.2.1 i.2.2.2
  let m (i : List Rat × Sol × Bool × Bool) := (NP.mk i.1).convert i.2.1
  report "NumberPartitioning_convert_solution" npSolInputs (fun i => showPairRats (g i) != showPairRats (m i)) jNpSol
    (fun i => showPairRats (g i)) (fun i => showPairRats (m i))

def search_NumberPartitioning_is_solution_valid : String :=
  let g (i : List Rat × Sol × Bool × Bool) := NumberPartitioning_is_solution_valid i.1 i.1.length i.2.1 i.2.2.1 i.2.2.2
  let m (i : List Rat × Sol × Bool × Bool) := (NP.mk i.1).valid i.2.1
  report "NumberPartitioning_is_solution_valid" npSolInputs (fun i => showBoolE (g i) != showBoolE (m i)) jNpSol
    (fun i => showBoolE (g i)) (fun i => showBoolE (m i))

def search_NumberPartitioning_is_solution_valid_converted : String :=
  let ls : List (List Rat) := [[], [1], [1, 2], [3], [2, 1], [1/2, 1/2], [1], [0], [-1, 1], [1000001], [1000000, 1]]
  let inputs := pairs ls ls
  let g (i : List Rat × List Rat) := NumberPartitioning_is_solution_valid_converted [] 0 i false
  let m (i : List Rat × List Rat) : Except Err Bool := .ok (NP.validConv i)
  report "NumberPartitioning_is_solution_valid_converted" inputs (fun i => showBoolE (g i) != showBoolE (m i))
    (fun i => jObj [("partition1", showRats i.1), ("partition2", showRats i.2)]) (fun i => showBoolE (g i)) (fun i => showBoolE (m i))

/-! GraphPartitioning: weighted inputs (a self-loop, an isolated loop vertex, both directions), with the vertex enumeration -/
def gpInstances : List GP :=
  [⟨[((0, 1), 1), ((1, 2), 1), ((0, 3), 1)], [0, 1, 2, 3]⟩, ⟨[((0, 1), 1), ((1, 2), 1), ((0, 3), 1)], [3, 1, 0, 2]⟩,
   ⟨[((0, 1), 2), ((1, 2), -1)], [2, 0, 1]⟩, ⟨[((0, 1), 1), ((2, 2), 1)], [0, 1, 2]⟩, ⟨[((0, 1), 1), ((1, 0), 1)], [1, 0]⟩,
   ⟨[], []⟩, ⟨[((0, 1), 1/2), ((2, 3), 3), ((1, 2), 1), ((3, 0), 1), ((0, 2), 1)], [0, 1, 2, 3]⟩,
   ⟨[((0, 1), 1), ((0, 2), 1), ((0, 3), 1), ((0, 4), 1), ((0, 5), 1)], [5, 4, 3, 2, 1, 0]⟩]

def jGP (p : GP) : List (String × String) := [("edges", jWEdges p.input), ("order", showNats p.order)]

def search_GraphPartitioning_to_quso : String :=
  let inputs := pairs gpInstances (pairs ([none] ++ weights.map some) ([none] ++ [1, 2, 1/2, -1].map some))
  let g (i : GP × Option Rat × Option Rat) := match i.2.2 with
    | some B => GraphPartitioning_to_quso i.1.edges i.1.order i.1.numVars i.1.degree i.2.1 B
    | none => GraphPartitioning_to_quso_default i.1.edges i.1.order i.1.numVars i.1.degree
  let m (i : GP × Option Rat × Option Rat) := match i.2.2 with
    | some B => i.1.toQuso i.2.1 B
    | none => i.1.toQuso none 1
  report "GraphPartitioning_to_quso" inputs (fun i => showPoly (g i) != showPoly (m i))
    (fun i => jObj (jGP i.1 ++ [("A", jOptR i.2.1), ("B", jOptR i.2.2)])) (fun i => showPoly (g i)) (fun i => showPoly (m i))

def gpSolInputs : List (GP × Sol × Bool × Bool) :=
  (gpInstances.filter (fun p => p.numVars ≤ 4)).flatMap (fun p => (sols p.numVars).flatMap (fun sd => bools.map (fun sp => (p, sd.1, sd.2, sp))))

def showPairNats (r : Except Err (List Var × List Var)) : String :=
  showExcept (fun c => "[" ++ showNats c.1 ++ ", " ++ showNats c.2 ++ "]") r
def jGpSol (i : GP × Sol × Bool × Bool) : String :=
  jObj (jGP i.1 ++ [("solution", jSol i.2.1), ("is_dict", jBool i.2.2.1), ("spin", jBool i.2.2.2)])

def search_GraphPartitioning_convert_solution : String :=
  let g (i : GP × Sol × Bool × Bool) := GraphPartitioning_convert_solution i.1.edges i.1.order i.1.numVars i.1.degree i.2.1 i.2.2.1 i.2.2.2
  let m (i : GP × Sol × Bool × Bool) := i.1.convert i.2.1
  report "GraphPartitioning_convert_solution" gpSolInputs (fun i => showPairNats (g i) != showPairNats (m i)) jGpSol
    (fun i => showPairNats (g i)) (fun i => showPairNats (m i))

def search_GraphPartitioning_is_solution_valid : String :=
  let g (i : GP × Sol × Bool × Bool) := GraphPartitioning_is_solution_valid i.1.edges i.1.order i.1.numVars i.1.degree i.2.1 i.2.2.1 i.2.2.2
  let m (i : GP × Sol × Bool × Bool) := i.1.valid i.2.1
  report "GraphPartitioning_is_solution_valid" gpSolInputs (fun i => showBoolE (g i) != showBoolE (m i)) jGpSol
    (fun i => showBoolE (g i)) (fun i => showBoolE (m i))

def search_GraphPartitioning_is_solution_valid_converted : String :=
  let ls : List (List Var) := [[], [0], [0, 1], [2], [1, 2, 3], [0, 1, 2, 3]]
  let inputs := pairs ls ls
  let g (i : List Var × List Var) := GraphPartitioning_is_solution_valid_converted [] [] 0 0 i false
  let m (i : List Var × List Var) : Except Err Bool := .ok (GP.validConv i)
  report "GraphPartitioning_is_solution_valid_converted" inputs (fun i => showBoolE (g i) != showBoolE (m i))
    (fun i => jObj [("partition1", showNats i.1), ("partition2", showNats i.2)]) (fun i => showBoolE (g i)) (fun i => showBoolE (m i))

end Qv.Gen.Search
