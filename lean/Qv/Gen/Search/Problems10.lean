import Qv.Gen.SourceProblems10
import Qv.Gen.Search.ProblemsLib
/-! distinguishing-input search for the group `Problems10` (AlternatingSectorsChain: num_binary_variables, convert_solution,
is_solution_valid; C10) -/
namespace Qv.Gen.Search
open Qv Qv.Prob

def pb2AscInstances : List ASC := [⟨1, 2, -1, -10⟩, ⟨2, 3, -1, -10⟩, ⟨3, 2, -2, -1/2⟩, ⟨4, 3, 0, -3⟩]
def pb2JAsc (p : ASC) : List (String × String) :=
  [("N", jNat p.N), ("chain_length", jNat p.len), ("min_strength", jRat (-p.negMin)), ("max_strength", jRat (-p.negMax))]

def search_AlternatingSectorsChain_num_binary_variables : String :=
  let g (p : ASC) := AlternatingSectorsChain_num_binary_variables p.N p.len p.negMin p.negMax
  let m (p : ASC) : Except Err Nat := .ok p.numVars
  report "AlternatingSectorsChain_num_binary_variables" pb2AscInstances (fun i => showExcept jNat (g i) != showExcept jNat (m i))
    (fun i => jObj (pb2JAsc i)) (fun i => showExcept jNat (g i)) (fun i => showExcept jNat (m i))

def pb2AscSolInputs : List (ASC × Sol × Bool × Bool) :=
  pb2AscInstances.flatMap (fun p => (sols p.N).flatMap (fun sd => bools.map (fun sp => (p, sd.1, sd.2, sp))))
def pb2JAscSol (i : ASC × Sol × Bool × Bool) : String :=
  jObj (pb2JAsc i.1 ++ [("solution", jSol i.2.1), ("is_dict", jBool i.2.2.1), ("spin", jBool i.2.2.2)])
def pb2ShowRatsE (r : Except Err (List Rat)) : String := showExcept showRats r

def search_AlternatingSectorsChain_convert_solution : String :=
  let g (i : ASC × Sol × Bool × Bool) : Except Err (List Rat) :=
    AlternatingSectorsChain_convert_solution i.1.N i.1.len i.1.negMin i.1.negMax i.2.1 i.2.2.1 i.2.2.2 >>= fun t => .ok (solValues t)
  let m (i : ASC × Sol × Bool × Bool) := i.1.convert i.2.1 i.2.2.1 i.2.2.2
  report "AlternatingSectorsChain_convert_solution" pb2AscSolInputs (fun i => pb2ShowRatsE (g i) != pb2ShowRatsE (m i)) pb2JAscSol
    (fun i => pb2ShowRatsE (g i)) (fun i => pb2ShowRatsE (m i))

def search_AlternatingSectorsChain_is_solution_valid : String :=
  let g (i : ASC × Sol × Bool × Bool) := AlternatingSectorsChain_is_solution_valid i.1.N i.1.len i.1.negMin i.1.negMax i.2.1 i.2.2.1 i.2.2.2
  let m (i : ASC × Sol × Bool × Bool) := i.1.valid i.2.1 i.2.2.1 i.2.2.2
  report "AlternatingSectorsChain_is_solution_valid" pb2AscSolInputs (fun i => showBoolE (g i) != showBoolE (m i)) pb2JAscSol
    (fun i => showBoolE (g i)) (fun i => showBoolE (m i))

end Qv.Gen.Search
