import Qv.Gen.SourceConv2Exp
import Qv.Gen.Search.Lib
import Qv.Model.Convert
/-! distinguishing-input search for the group `Conv2Exp` (`QUBOMatrix.Q`, C04) -/
namespace Qv.Gen.Search

def search_QUBOMatrix_Q : String :=
  let sh (r : Except Err Poly) : String := showExcept jPoly r
  report "QUBOMatrix_Q" polys (fun p => sh (QUBOMatrix_Q ⟨.qubom, p⟩) != sh (.ok (exportQ [] p)))
    (fun p => jObj [("kind", jStr "QUBOMatrix"), ("items", jPoly p)]) (fun p => sh (QUBOMatrix_Q ⟨.qubom, p⟩))
    (fun p => sh (.ok (exportQ [] p)))

end Qv.Gen.Search
