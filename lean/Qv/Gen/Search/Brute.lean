import Qv.Gen.SourceBrute
import Qv.Gen.Search.Lib
/-! distinguishing-input search for the group `Brute` (bookkeeping of one visited assignment, C09) -/
namespace Qv.Gen.Search
open Qv.Brute

private def showR (r : (Option Rat × Assign) × AllSols) : String := toString (repr r)

def search_solve_bruteforce_update : String :=
  let x1 : Assign := [(0, 1), (1, 0)]
  let x2 : Assign := [(0, 0), (1, 1)]
  let sts : List St := [St.init, ⟨some 3, x1, [(none, [[]]), (some 3, [x1])]⟩, ⟨some (-1), x1, [(none, [[]]), (some 2, [x2]), (some (-1), [x1])]⟩,
    ⟨some 3, x1, [(none, [[]])]⟩, ⟨some 1000000000, x1, [(none, [[]]), (some 1000000000, [x1])]⟩]
  let inputs := pairs bools (pairs sts [(3 : Rat), 2, 4, -1, -2, 0, 1000000000, 1000000001, 5/2])
  let g (i : Bool × St × Rat) := solve_bruteforce_update i.1 (i.2.1.bestV, i.2.1.bestX) i.2.1.allSols x2 i.2.2
  let m (i : Bool × St × Rat) :=
    let s := update i.1 i.2.1 x2 i.2.2
    ((s.bestV, s.bestX), s.allSols)
  report "solve_bruteforce_update" inputs (fun i => showR (g i) != showR (m i))
    (fun i => jObj [("all_solutions", jBool i.1), ("best", jStr (toString (repr (i.2.1.bestV, i.2.1.bestX)))),
      ("all_sols", jStr (toString (repr i.2.1.allSols))), ("x", jStr (toString (repr x2))), ("v", jRat i.2.2)])
    (fun i => showR (g i)) (fun i => showR (m i))

end Qv.Gen.Search
