import Qv.Gen.SourceConv3Enum
import Qv.Gen.Search.Conv2Free
import Qv.Model.Convert
/-! distinguishing-input search for the group `Conv3Enum` (`BO.to_enumerated`, C04): every type, with four distinguishable
marker values standing for `self.to_qubo()` … `self.to_puso()` -/
namespace Qv.Gen.Search

def cv3Mark (n : Nat) : Except Err ConvObj := .ok ⟨.dict, [([n], 1)]⟩

def search_cv3_BO_to_enumerated : String :=
  let model (κ : Kind) : Except Err ConvObj :=
    match enumTarget κ with
    | some .qubo => cv3Mark 0 | some .quso => cv3Mark 1 | some .pubo => cv3Mark 2 | some .puso => cv3Mark 3
    | none => .error .attr
  let gen (κ : Kind) : Except Err ConvObj := cv3_BO_to_enumerated ⟨κ, [], [], [], 0⟩ (cv3Mark 0) (cv3Mark 1) (cv3Mark 2) (cv3Mark 3)
  report "cv3_BO_to_enumerated" convKinds (fun κ => showObj (gen κ) != showObj (model κ))
    (fun κ => jObj [("kind", jStr κ.name)]) (fun κ => showObj (gen κ)) (fun κ => showObj (model κ))

end Qv.Gen.Search
