import Qv.Gen.SourceValid
import Qv.Gen.Search.Lib
/-! distinguishing-input search for the group `Valid` (`PCBO.is_solution_valid`, C08 / C02): every relation with a
constraint value below, at and above zero, alone and in pairs -/
namespace Qv.Gen.Search
open Qv

private def rels : List Rel := [.eq, .ne, .lt, .le, .gt, .ge]
private def consts : List Poly := [[([], -1)], [], [([], 1)], [([0], 1), ([], -1)]]
private def single : List (List (Rel × Poly)) := (pairs rels consts).map (fun c => [c])
private def conss : List (List (Rel × Poly)) :=
  [[]] ++ single ++ (pairs single single).map (fun p => p.1 ++ p.2)

def search_is_solution_valid : String :=
  let xs : List (Var → Rat) := [fun _ => 0, fun _ => 1]
  let inputs := pairs conss [0, 1]
  let x (i : List (Rel × Poly) × Nat) : Var → Rat := xs.getD i.2 (fun _ => 0)
  report "is_solution_valid" inputs
    (fun i => is_solution_valid i.1 (x i) != isValid { cons := i.1 } (x i))
    (fun i => jObj [("constraints", jList (fun c => "[" ++ jStr (pyRelName c.1) ++ ", " ++ jPoly c.2 ++ "]") i.1),
      ("x0", jNat i.2)])
    (fun i => boolStr (is_solution_valid i.1 (x i))) (fun i => boolStr (isValid { cons := i.1 } (x i)))

end Qv.Gen.Search
