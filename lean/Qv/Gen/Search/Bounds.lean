import Qv.Gen.Source
import Qv.Gen.Search.Lib
import Qv.Gen.Interp
/-! distinguishing-input search for the group `Bounds` (`_get_bounds`, decision chain of `add_constraint_eq_zero`) -/
namespace Qv.Gen.Search

private def showB (r : Rat × Option Rat) : String := "(" ++ ratStr r.1 ++ ", " ++ (match r.2 with | none => "None" | some h => ratStr h) ++ ")"

/-- `get_bounds P (some b)` / `get_bounds P none` against the model's `getBounds` (both theorems) -/
def search_get_bounds : String :=
  let inputs : List (Poly × Option (Option Rat × Option Rat)) :=
    pairs (polys.take 40) (none :: optBounds.map some)
  let model (i : Poly × Option (Option Rat × Option Rat)) : Rat × Option Rat :=
    let b := i.2.getD (none, none)
    ((getBounds i.1 b).1, some (getBounds i.1 b).2)
  report "get_bounds" inputs (fun i => showB (get_bounds i.1 i.2) != showB (model i))
    (fun i => jObj [("P", jPoly i.1), ("bounds", match i.2 with
      | none => "null" | some b => "[" ++ jOptRat b.1 ++ ", " ++ jOptRat b.2 ++ "]")])
    (fun i => showB (get_bounds i.1 i.2)) (fun i => showB (model i))

private def stStr (s : St) : String := toString (repr (untag s))

/-- the chain on the PCBO `{}` with `P = 2 x0 - 3 x1 x2` (for which no special shape applies), `lam = 3/2` -/
def search_add_constraint_eq_zero_decision : String :=
  let P : Poly := [([0], 2), ([1, 2], -3)]
  let lam : Rat := 3/2
  let s : St := {}
  let gen (i : (Rat × Rat) × Bool) : St :=
    (add_constraint_eq_zero_decision i.2 i.1.1 i.1.2).foldl (runEff P lam) (s.append .eq P)
  let model (i : (Rat × Rat) × Bool) : St := addEqZero s P lam (some i.1.1, some i.1.2) i.2
  report "add_constraint_eq_zero_decision" (pairs bounds bools) (fun i => stStr (gen i) != stStr (model i))
    (fun i => jObj [("min_val", jRat i.1.1), ("max_val", jRat i.1.2), ("suppress_warnings", jBool i.2)])
    (fun i => stStr (gen i)) (fun i => stStr (model i))

end Qv.Gen.Search
