import Qv.Gen.SourceBook
import Qv.Model.Arith
import Qv.Gen.Search.Lib
/-! distinguishing-input search for the group `Book` (bookkeeping and key canonicalisation, C14 / C05): generated definitions
of `Qv/Gen/SourceBook.lean` vs the model functions of `Qv/Model/Basic.lean` / `Qv/Model/Book.lean` on keys with repeated /
unsorted labels, all kinds, and object states reached by short edit histories (stale caches, cancelled variables, zero
assignments included).  Trusted by no theorem. -/
namespace Qv.Gen.Search
open Qv Qv.Book

private def bkeys : List Key := keys ++ [[0, 0, 1, 2], [1, 2, 2, 3], [2, 2], [1, 1, 0], [5, 5, 5, 5], [0, 1, 0, 1], [4, 0, 4, 0, 4], [7, 3], [2, 0, 2], [9]]
private def kinds : List Kind := [.qubo, .quso, .pubo, .puso, .pcbo, .pcso, .qubom, .qusom, .pubom, .pusom]
private def vals : List Rat := [1, 0, -2, 1/2]

private def hists : List (List Op) :=
  [ [], [.setitem [0] 1], [.setitem [1, 0] 2, .setitem [2] 3], [.setitem [0, 1] 1, .setitem [0, 1] 0],
    [.setitem [2] 1, .setitem [0] 1, .setitem [2, 2, 0] (-1)], [.setitem [3] 0], [.setitem [1] 1, .setitem [1] 0, .setitem [4] 2],
    [.setitem [] 5], [.setitem [1, 2] 1, .setitem [2, 3] 1, .setitem [1, 2] 0, .refresh],
    [.setitem [5] 1, .setitem [3] 1, .setitem [5] 0, .setitem [0, 3] 2] ]

private def states : List State := kinds.flatMap (fun κ => hists.map (Book.run Fix.fixed κ))

private def jOptNat : Option Nat → String
  | none => "null"
  | some n => jNat n
private def sortV (l : List Var) : List Var := l.foldr insertU []
def jState (s : State) : String :=
  jObj [("kind", jStr s.kind.name), ("terms", jPoly s.terms),
    ("mapping", jList (fun p => "[" ++ jNat p.1 ++ ", " ++ jNat p.2 ++ "]") s.mapping),
    ("reverse", jList (fun p => "[" ++ jNat p.1 ++ ", " ++ jNat p.2 ++ "]") s.reverse),
    ("next_label", jNat s.nextLabel), ("variables", jKey (sortV s.variables)), ("num_binary_variables", jNat s.numVars),
    ("degree", jOptNat s.degree), ("ancilla", jNat s.ancilla)]
private def showS (r : Except Err State) : String := showExcept jState r
private def showK (r : Except Err Key) : String := showExcept jKey r
private def showOK (r : Except Err (Option Key)) : String := showExcept (fun o => match o with | none => "None" | some k => jKey k) r
private def showR (r : Except Err Rat) : String := showExcept ratStr r

private def cmp {α : Type} (name : String) (xs : List α) (inp : α → String) (g m : α → String) : String :=
  report name xs (fun i => g i != m i) inp g m

private def keyIn (k : Key) : String := jObj [("key", jKey k)]

def search_ordering_key : String :=
  cmp "ordering_key" (pairs (List.range 6) (List.range 6)) (fun i => jObj [("a", jNat i.1), ("b", jNat i.2)])
    (fun i => boolStr (pyOKeyLe (ordering_key i.1) (ordering_key i.2))) (fun i => boolStr (decide (i.1 ≤ i.2)))

private def ckv (name : String) (g m : Key → Except Err (Option Key)) : String :=
  cmp name bkeys keyIn (fun k => showOK (g k)) (fun k => showOK (m k))

def search_PUBOMatrix_check_key_valid : String := ckv "PUBOMatrix_check_key_valid" PUBOMatrix_check_key_valid (fun _ => .ok none)
def search_PUBO_check_key_valid : String := ckv "PUBO_check_key_valid" PUBO_check_key_valid (fun _ => .ok none)
def search_PUSO_check_key_valid : String := ckv "PUSO_check_key_valid" PUSO_check_key_valid (fun _ => .ok none)
def search_QUBO_check_key_valid : String := ckv "QUBO_check_key_valid" QUBO_check_key_valid
  (fun k => if (squashB k).length > 2 then .error .key else .ok none)
def search_QUSO_check_key_valid : String := ckv "QUSO_check_key_valid" QUSO_check_key_valid
  (fun k => if (squashS k).length > 2 then .error .key else .ok none)
def search_QUBOMatrix_check_key_valid : String := ckv "QUBOMatrix_check_key_valid" QUBOMatrix_check_key_valid
  (fun k => if (squashB k).length > 2 then .error .key else .ok (some (squashB k)))
def search_QUSOMatrix_check_key_valid : String := ckv "QUSOMatrix_check_key_valid" QUSOMatrix_check_key_valid
  (fun k => if (squashS k).length > 2 then .error .key else .ok (some (squashS k)))

def search_PUBOMatrix_squash_key : String :=
  cmp "PUBOMatrix_squash_key" bkeys keyIn (fun k => showK (PUBOMatrix_squash_key (fun _ => .ok none) k)) (fun k => showK (.ok (squashB k)))
def search_PUSOMatrix_squash_key : String :=
  cmp "PUSOMatrix_squash_key" bkeys keyIn (fun k => showK (PUSOMatrix_squash_key (fun _ => .ok none) k)) (fun k => showK (.ok (squashS k)))
def search_cls_squash_key : String :=
  cmp "cls_squash_key" (pairs kinds bkeys) (fun i => jObj [("kind", jStr i.1.name), ("key", jKey i.2)])
    (fun i => showK (cls_squash_key i.1 i.2)) (fun i => showK (squash i.1 i.2))

private def sk : List (State × Key) := pairs states bkeys
private def skv : List ((State × Key) × Rat) := pairs sk vals
private def skIn (i : State × Key) : String := jObj [("self", jState i.1), ("key", jKey i.2)]
private def skvIn (i : (State × Key) × Rat) : String := jObj [("self", jState i.1.1), ("key", jKey i.1.2), ("value", jRat i.2)]

def search_DictArithmetic_getitem : String :=
  cmp "DictArithmetic_getitem" sk skIn (fun i => ratStr (DictArithmetic_getitem i.1 i.2)) (fun i => ratStr (get i.1.terms i.2))
def search_DictArithmetic_setitem : String :=
  cmp "DictArithmetic_setitem" skv skvIn (fun i => jState (DictArithmetic_setitem i.1.1 i.1.2 i.2))
    (fun i => jState { i.1.1 with terms := set i.1.1.terms i.1.2 i.2 })
def search_PUBOMatrix_getitem : String :=
  cmp "PUBOMatrix_getitem" sk skIn (fun i => showR (PUBOMatrix_getitem i.1 i.2)) (fun i => showR (getItem (squash i.1.kind) i.1.terms i.2))
def search_cls_getitem : String :=
  cmp "cls_getitem" sk skIn (fun i => showR (cls_getitem i.1.kind i.1 i.2)) (fun i => showR (getItem (squash i.1.kind) i.1.terms i.2))
def search_PUBOMatrix_setitem : String :=
  cmp "PUBOMatrix_setitem" skv skvIn (fun i => showS (PUBOMatrix_setitem i.1.1 i.1.2 i.2)) (fun i => showS (matSet i.1.1 i.1.2 i.2))
def search_BO_setitem : String :=
  cmp "BO_setitem" (skv.filter (fun i => hasBO i.1.1.kind)) skvIn (fun i => showS (BO_setitem i.1.1 i.1.2 i.2))
    (fun i => showS (setitem Fix.fixed i.1.1 i.1.2 i.2))
def search_cls_setitem : String :=
  cmp "cls_setitem" skv skvIn (fun i => showS (cls_setitem i.1.1.kind i.1.1 i.1.2 i.2)) (fun i => showS (setitem Fix.fixed i.1.1 i.1.2 i.2))

private def sIn (s : State) : String := jObj [("self", jState s)]
private def jOptInt : Option Int → String
  | none => "None"
  | some n => jInt n
def search_PUBOMatrix_degree : String := cmp "PUBOMatrix_degree" states sIn (fun s => jOptNat (PUBOMatrix_degree s)) (fun s => jOptNat s.degree)
def search_PUBOMatrix_variables : String :=
  cmp "PUBOMatrix_variables" states sIn (fun s => jKey (sortV (PUBOMatrix_variables s))) (fun s => jKey (sortV s.variables))
def search_PUBOMatrix_num_binary_variables : String :=
  cmp "PUBOMatrix_num_binary_variables" states sIn (fun s => jNat (PUBOMatrix_num_binary_variables s)) (fun s => jNat s.numVars)
def search_PUBOMatrix_max_index : String :=
  cmp "PUBOMatrix_max_index" (states.filter (fun s => !hasBO s.kind)) sIn
    (fun s => showExcept (fun o => jOptInt (o.map (fun (n : Nat) => (n : Int)))) (PUBOMatrix_max_index s)) (fun s => jOptInt (maxIndex s))
def search_BO_max_index : String :=
  cmp "BO_max_index" (states.filter (fun s => hasBO s.kind)) sIn (fun s => jOptInt (some (BO_max_index s))) (fun s => jOptInt (maxIndex s))
def search_BO_mapping : String :=
  cmp "BO_mapping" states sIn (fun s => jState { s with mapping := BO_mapping s }) jState
def search_BO_reverse_mapping : String :=
  cmp "BO_reverse_mapping" states sIn (fun s => jState { s with reverse := BO_reverse_mapping s }) jState

def search_PCBO_num_ancillas : String := cmp "PCBO_num_ancillas" states sIn (fun s => jNat (PCBO_num_ancillas s)) (fun s => jNat s.ancilla)
private def ancStates : List State := states.flatMap (fun s => [s, { s with ancilla := 3 }])
def search_PCBO_next_ancilla : String :=
  cmp "PCBO_next_ancilla" ancStates sIn (fun s => jNat (PCBO_next_ancilla s).1 ++ " " ++ jState (PCBO_next_ancilla s).2)
    (fun s => jNat (ANC + s.ancilla) ++ " " ++ jState { s with ancilla := s.ancilla + 1 })
private def jCons (cs : List (Rel × Poly)) : String := jList (fun c => jStr (reprStr c.1) ++ jPoly c.2) cs
def search_PCBO_append_constraint : String :=
  cmp "PCBO_append_constraint" (pairs states [(Rel.eq, ([([0], 1)] : Poly)), (Rel.le, [])]) (fun i => jObj [("self", jState i.1)])
    (fun i => jCons (PCBO_append_constraint i.1 i.2.1 i.2.2).constraints) (fun i => jCons (i.1.constraints ++ [i.2]))

end Qv.Gen.Search
