import Qv.Gen.Search.ArithOps
/-! distinguishing-input search for the group `ArithWrap` (the copying / reflected / unary operators of `DictArithmetic`;
C05 / C07 / C19): generated definitions vs `Qv.ArithOps.add … neg`; the printed result is the returned object.
Trusted by no theorem. -/
namespace Qv.Gen.Search
open Qv Qv.Book Qv.ArithOps

def search_DictArithmetic_add_ar2 : String :=
  cmpOp_ar2 "DictArithmetic_add_ar2" so_ar2 (DictArithmetic_add_ar2 modelM_ar2) (ArithOps.add Fix.fixed)
def search_DictArithmetic_radd_ar2 : String :=
  cmpOp_ar2 "DictArithmetic_radd_ar2" so_ar2 (DictArithmetic_radd_ar2 modelM_ar2) (ArithOps.radd Fix.fixed)
def search_DictArithmetic_sub_ar2 : String :=
  cmpOp_ar2 "DictArithmetic_sub_ar2" so_ar2 (DictArithmetic_sub_ar2 modelM_ar2) (ArithOps.sub Fix.fixed)
def search_DictArithmetic_mul_ar2 : String :=
  cmpOp_ar2 "DictArithmetic_mul_ar2" so_ar2 (DictArithmetic_mul_ar2 modelM_ar2) (ArithOps.mul Fix.fixed)
def search_DictArithmetic_rmul_ar2 : String :=
  cmpOp_ar2 "DictArithmetic_rmul_ar2" so_ar2 (DictArithmetic_rmul_ar2 modelM_ar2) (ArithOps.rmul Fix.fixed)
def search_DictArithmetic_rsub_ar2 : String :=
  cmpOp_ar2 "DictArithmetic_rsub_ar2" so_ar2 (DictArithmetic_rsub_ar2 modelM_ar2) (ArithOps.rsub Fix.fixed)
def search_DictArithmetic_truediv_ar2 : String :=
  cmpOp_ar2 "DictArithmetic_truediv_ar2" soNum_ar2 (DictArithmetic_truediv_ar2 modelM_ar2)
    (fun s o => match o with | .num c => ArithOps.div Fix.fixed s c | _ => .error .other)
def search_DictArithmetic_pow_ar2 : String :=
  report "DictArithmetic_pow_ar2" (pairs states_ar2 exps_ar2)
    (fun i => showS_ar2 (DictArithmetic_pow_ar2 modelM_ar2 i.1 i.2.1) != showS_ar2 (ArithOps.pow Fix.fixed i.1 i.2.2)) seIn_ar2
    (fun i => showS_ar2 (DictArithmetic_pow_ar2 modelM_ar2 i.1 i.2.1)) (fun i => showS_ar2 (ArithOps.pow Fix.fixed i.1 i.2.2))
def search_DictArithmetic_pos_ar2 : String :=
  report "DictArithmetic_pos_ar2" states_ar2
    (fun s => showS_ar2 (DictArithmetic_pos_ar2 modelM_ar2 s) != showS_ar2 (ArithOps.pos Fix.fixed s)) (fun s => jObj [("self", jState s)])
    (fun s => showS_ar2 (DictArithmetic_pos_ar2 modelM_ar2 s)) (fun s => showS_ar2 (ArithOps.pos Fix.fixed s))
def search_DictArithmetic_neg_ar2 : String :=
  report "DictArithmetic_neg_ar2" states_ar2
    (fun s => showS_ar2 (DictArithmetic_neg_ar2 modelM_ar2 s) != showS_ar2 (ArithOps.neg Fix.fixed s)) (fun s => jObj [("self", jState s)])
    (fun s => showS_ar2 (DictArithmetic_neg_ar2 modelM_ar2 s)) (fun s => showS_ar2 (ArithOps.neg Fix.fixed s))

end Qv.Gen.Search
