import Qv.Gen.SourceReduce2Spin
import Qv.Gen.SourceReduce2
import Qv.Gen.Search.Lib
import Qv.Model.ReduceWhole
/-! distinguishing-input search for the group `Reduce2Spin` (`PUSO._create_pubo`, `PUSO.to_pubo`, `PUSO.to_qubo`; C01 / C08).
The generated methods are composed with the generated `PUBO.to_pubo` / `to_qubo` and the generated whole `_reduce_degree`
and compared with the model's spin routes on whole PUSO models (labels in order of first appearance; one model has a
mapping with a cancelled variable, so that a lost hand-over of `num_binary_variables` shows). -/
namespace Qv.Gen.Search
open Qv Qv.Reduce

private def rd2sSortStrs (l : List String) : List String := l.mergeSort (fun a b => decide (a ≤ b))
private def rd2sShowD (D : Poly) : String :=
  "[" ++ ", ".intercalate (rd2sSortStrs (D.map (fun kv => "[" ++ jKey kv.1 ++ ", " ++ jRat kv.2 ++ "]"))) ++ "]"
private def rd2sIdMap (n : Nat) : PyMap := (List.range n).map (fun i => (i, i))

/-- (terms, number of labels in the mapping) -/
private def rd2sModels : List (Poly × Nat) :=
  [ ([], 0), ([([0, 1], 1)], 2), ([([0, 1, 2], 1)], 3), ([([0, 1, 2], -2), ([0], 1)], 3), ([([0, 1, 2, 3], 3)], 4),
    ([([0, 1, 2], 1), ([1, 2, 3], 2)], 4), ([([0, 1, 2], 1)], 5), ([([1, 2, 3], 2), ([], 1)], 4) ]

private def rd2sModel (i : Poly × Nat) : ConvModel := ⟨.puso, i.1, rd2sIdMap i.2, rd2sIdMap i.2, i.2⟩
private def rd2sRed (pairs : Option (List Key)) (self : ConvModel) (D : ConvObj) (deg : Option Int) : Except Err ConvObj :=
  rd2_whole D.items (deg.map Int.toNat) none pairs self.mapping self.items self.nvars ((pyDegree self).getD 0) 77 78 >>=
    fun t => .ok ⟨D.kind, t⟩
private def rd2sShowObj (o : ConvObj) : String := toString (repr o.kind) ++ " " ++ rd2sShowD o.items
private def rd2sShowModel (o : ConvModel) : String :=
  toString (repr o.kind) ++ " " ++ jPoly o.items ++ " " ++ toString (repr o.mapping) ++ " " ++ toString (repr o.rev) ++ " " ++ toString o.nvars

/-- the same models, once with the identity mapping and once with a mapping that is not its own inverse and a
`num_binary_variables` that differs from the number of labels of the terms -/
private def rd2sStates : List ConvModel :=
  rd2sModels.map rd2sModel ++
    rd2sModels.map (fun i => ⟨.puso, i.1, [(0, 1), (1, 2), (2, 0), (3, 3)], [(1, 0), (2, 1), (0, 2), (3, 3)], i.2 + 1⟩)

def search_rd2_create_pubo : String :=
  let g (M : ConvModel) : String := showExcept rd2sShowModel (rd2_create_pubo M)
  let m (M : ConvModel) : String := rd2sShowModel ⟨.pubo, Reduce.pusoToPubo M.items, M.mapping, M.rev, M.nvars⟩
  report "rd2_create_pubo" rd2sStates (fun i => g i != m i)
    (fun M => jObj [("H", jPoly M.items), ("mapping", jStr (toString (repr M.mapping))),
      ("reverse_mapping", jStr (toString (repr M.rev))), ("num_binary_variables", jNat M.nvars)]) g m

def search_rd2_PUSO_to_pubo : String :=
  let inputs := pairs rd2sModels [none, some 2, some 3, some 1]
  let g (i : (Poly × Nat) × Option Nat) : String :=
    showExcept rd2sShowObj (rd2_PUSO_to_pubo (rd2sModel i.1) (i.2.map Int.ofNat) (rd2sRed none))
  let m (i : (Poly × Nat) × Option Nat) : String :=
    showExcept (fun o => rd2sShowObj ⟨.pubom, o.res⟩)
      (route true .pubo i.1.1 (rd2sIdMap i.1.2) i.1.2 i.2 .default [])
  report "rd2_PUSO_to_pubo" inputs (fun i => g i != m i)
    (fun i => jObj [("H", jPoly i.1.1), ("n", jNat i.1.2), ("deg", match i.2 with | none => "null" | some d => jNat d)]) g m

def search_rd2_PUSO_to_qubo : String :=
  let g (i : Poly × Nat) : String := showExcept rd2sShowObj (rd2_PUSO_to_qubo (rd2sModel i) (rd2sRed none))
  let m (i : Poly × Nat) : String :=
    showExcept (fun o => rd2sShowObj ⟨.qubom, o.res⟩) (route true .qubo i.1 (rd2sIdMap i.2) i.2 none .default [])
  report "rd2_PUSO_to_qubo" rd2sModels (fun i => g i != m i) (fun i => jObj [("H", jPoly i.1), ("n", jNat i.2)]) g m

end Qv.Gen.Search
