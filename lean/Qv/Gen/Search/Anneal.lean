import Qv.Gen.SourceAnneal
import Qv.Model.AnnealSrc
import Qv.Gen.Search.Lib
/-! shared input streams and printers of the distinguishing-input searches for the annealer front ends (groups
`AnnealSched`, `AnnealPackage`, `AnnealQuso`, `AnnealPuso`, `AnnealBool`; C11, C12, C17).  Nothing here is trusted. -/
namespace Qv.Gen.Search
open Qv Qv.Anneal

def kindName : Kind → String
  | .dict => "dict" | .qubo => "QUBO" | .quso => "QUSO" | .pubo => "PUBO" | .puso => "PUSO" | .pcbo => "PCBO" | .pcso => "PCSO"
  | .qubom => "QUBOMatrix" | .qusom => "QUSOMatrix" | .pubom => "PUBOMatrix" | .pusom => "PUSOMatrix"

/-- a model object of class `κ` built from the items `p` (a plain dict keeps them as they are) -/
def objOf (κ : Kind) (p : Poly) : Obj :=
  if κ = .dict then Obj.ofDict p else
  match Obj.build κ p with
  | .ok o => o
  | .error _ => { kind := κ }

def annealKinds : List Kind := [.qusom, .pusom, .quso, .puso, .pcso, .dict]

/-- models: empty, offset only, linear only, gaps in the labels, cancelled terms, degree 3, large labels -/
def annealPolys : List Poly :=
  [[], [([], 3)], [([0], 1)], [([2], -1), ([], 1/2)], [([0, 1], 1), ([1], -1/2), ([], 3), ([0, 2], -2)],
   [([1, 3], 2), ([3], 1)], [([0, 1], 1), ([0, 1], -1)], [([0, 1], 1), ([0, 1], -1), ([4], 2)], [([0, 1, 2], 1), ([1], -1/2), ([], 3)],
   [([5, 7], 1), ([7], -1/2), ([], 3), ([5, 9], -2)], [([2, 0], 3), ([0], 1)], [([0, 0], 2), ([1], 1)], [([0, 1, 2, 3], -1), ([3, 0], 2)],
   [([1], 0), ([2], 1)]]

def objInputs : List (Kind × Poly) := pairs annealKinds annealPolys

def jObjInput (i : Kind × Poly) : String := jObj [("type", jStr (kindName i.1)), ("items", jPoly i.2)]

def showDispatch (r : Except Err (Nat × Poly × List Var)) : String :=
  showExcept (fun t => "N=" ++ toString t.1 ++ " model=" ++ jPoly t.2.1 ++ " reverse_mapping=" ++ jKey t.2.2) r

def showRes (r : Res) : String :=
  "{" ++ jList (fun p => "(" ++ toString p.1 ++ "," ++ toString p.2 ++ ")") r.state ++ " " ++ ratStr r.value ++ " " ++ boolStr r.spin ++ "}"

def showFlow {ρ σ : Type} (f : ρ → String) (g : σ → String) (r : Except Err (Flow ρ σ)) : String :=
  showExcept (fun x => match x with | .ret a => "return " ++ f a | .next b => "go on with " ++ g b) r

def initDicts : List (Option (List (Var × Int))) :=
  [none, some [], some [(0, 1)], some [(0, -1), (1, 1)], some [(0, 1), (1, -1), (2, -1)], some [(5, -1), (7, 1), (9, -1)],
   some [(1, -1), (0, -1), (2, 1), (3, -1)]]

def revMaps : List (List Var) := [[], [0], [0, 1], [0, 1, 2], [5, 7, 9], [1, 0], [0, 1, 2, 3]]

def jInit : Option (List (Var × Int)) → String
  | none => "null"
  | some d => jList (fun p => "[" ++ toString p.1 ++ ", " ++ toString p.2 ++ "]") d

end Qv.Gen.Search
