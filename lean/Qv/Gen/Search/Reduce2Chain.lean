import Qv.Gen.SourceReduce2
import Qv.Gen.Search.Lib
/-! distinguishing-input search for the group `Reduce2Chain`: where the ancilla labels of `PUBO._reduce_degree` start
(the chain theorems of the group have no definitions of their own to evaluate; a difference in `_reduce_degree` as a whole
is found by `search_rd2_whole` in `Search/Reduce2.lean`). -/
namespace Qv.Gen.Search
open Qv

def search_rd2_ancilla : String :=
  report "rd2_ancilla" ([0, 1, 2, 5, 17] : List Nat) (fun n => rd2_ancilla n != n)
    (fun n => jObj [("num_binary_variables", jNat n)]) (fun n => jNat (rd2_ancilla n)) (fun n => jNat n)

end Qv.Gen.Search
