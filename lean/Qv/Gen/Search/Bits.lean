import Qv.Gen.Source
import Qv.Gen.Search.Lib
import Qv.Model.Pcbo
/-! distinguishing-input search for the group `Bits` (`num_bits`) -/
namespace Qv.Gen.Search

/-- the model side of the two theorems: `numBits` for `val ≥ 0`, `ValueError` below -/
private def modelBits (val : Rat) (lt : Bool) : Except Err Int :=
  if val < 0 then .error .value else .ok ((numBits val lt : Nat) : Int)

private def showBits (r : Except Err Int) : String := showExcept (fun (n : Int) => toString n) r

def search_num_bits : String :=
  report "num_bits" (pairs (rats ++ [1/3, 7/2, 15, 16, 17, 1023, 1024]) bools)
    (fun i => showBits (num_bits i.1 i.2) != showBits (modelBits i.1 i.2))
    (fun i => jObj [("val", jRat i.1), ("log_trick", jBool i.2)])
    (fun i => showBits (num_bits i.1 i.2)) (fun i => showBits (modelBits i.1 i.2))

end Qv.Gen.Search
