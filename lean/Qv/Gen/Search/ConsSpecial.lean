import Qv.Gen.SourceCons
import Qv.Gen.Search.Lib
import Qv.Gen.Interp
/-! distinguishing-input search for the group `ConsSpecial` (`_special_constraints_le_zero`) -/
namespace Qv.Gen.Search

private def showO (r : Except Err (Option St)) : String :=
  showExcept (fun o => match o with | none => "False" | some s => "True " ++ toString (repr (untagged s))) r

def search_special_constraints_le_zero_decision : String :=
  let lam : Rat := 3/2
  let s : St := {}
  let inputs := pairs (polys.filter (fun p => p.length ≤ 3)) (pairs bools [((-1 : Rat), (1 : Rat)), (-3, 2), (0, 1), (-2, 0), (-1, 0)])
  let pwo (P : Poly) : Poly := isubB P (addConstB [] (offsetOf P))
  let g (i : Poly × Bool × (Rat × Rat)) : Except Err (Option St) :=
    (special_constraints_le_zero_decision i.1 i.2.1 i.2.2.1 i.2.2.2 (pwo i.1)).map (specialResult i.1 (pwo i.1) lam s)
  let m (i : Poly × Bool × (Rat × Rat)) : Except Err (Option St) := .ok ((specialLe s i.1 lam i.2.1 i.2.2).map untagged)
  report "special_constraints_le_zero_decision" inputs (fun i => showO (g i) != showO (m i))
    (fun i => jObj [("P", jPoly i.1), ("log_trick", jBool i.2.1), ("bounds", "[" ++ jRat i.2.2.1 ++ ", " ++ jRat i.2.2.2 ++ "]")])
    (fun i => showO (g i)) (fun i => showO (m i))

end Qv.Gen.Search
