import Qv.Gen.CPrelude
/-!
# Qv.Gen.CPreludePy — the CPython C-API calls of `qubovert/sim/_canneal.c` as the definitions generated from that
file (`Qv/Gen/CSourceCanneal.lean`, `harness/translate_canneal.py`) see them (unit tag `cw`).

Hand-written, core Lean only.  Trusted as the reading of the API functions named in the docstrings (CPython 3.12,
`Doc/c-api/{list,long,float,arg}.rst`).  A Python object is abstracted to what the wrapper can observe of it: `NULL`,
an `int`, a `float` (incl. subclasses such as `numpy.float64`), a `list`, a `tuple`.  Reference counts, the error
indicator and object identity are **not** modelled: an API call that fails in CPython (returns `NULL` / `-1` with
an exception set — the wrapper never checks) is an error of the checked-memory monad (`MemErr.pyIndex`), so
"returns `.ok`" means that no API call failed; `PyList_SetItem` steals its reference (the translator makes the
stolen variable unreadable afterwards, which also rules out two list slots sharing one mutable object).

Only the *checked* API functions are given a reading.  The unchecked macros / inline functions
(`PyFloat_AS_DOUBLE`, `PyList_GET_ITEM`, `PyList_GET_SIZE`, `PyList_SET_ITEM`, `PyLong_AS_LONG`, …) are **not**
in the table: a wrapper that uses them is Untranslatable.
-/
namespace Qv.GenC
open Qv.KMem
open Qv.Kernel (OfInt ofInt)

/-- a `PyObject *` as far as `_canneal.c` looks at it -/
inductive PyObj (α : Type) where
  /-- `NULL` (also: a slot of a fresh `PyList_New(n)`) -/
  | null
  /-- a Python `int` -/
  | int (n : Int)
  /-- a Python `float` holding the C `double` `x` -/
  | float (x : α)
  /-- a Python `list` -/
  | list (l : List (PyObj α))
  /-- a Python `tuple` -/
  | tuple (l : List (PyObj α))

section
variable {α : Type}

/-- `PyList_Size(o)`: the length of a list (`Py_ssize_t`); `-1` + `SystemError` for anything else -/
def cwListSize : PyObj α → M Int
  | .list l => .ok (l.length : Int)
  | _ => .error .pyIndex

/-- `PyList_GetItem(o, i)`: the item at position `i` (borrowed); `NULL` + `IndexError` outside `0 <= i < len`,
`NULL` + `SystemError` for a non-list -/
def cwListGetItem (o : PyObj α) (i : Int) : M (PyObj α) :=
  match o with
  | .list l => if i < 0 then .error .pyIndex else pyGet l i.toNat
  | _ => .error .pyIndex

/-- `PyLong_AsLong(o)`: the value of a Python `int` that fits a C `long`; `-1` + `OverflowError` beyond,
`-1` + `TypeError` for a `float` (no `__index__`), failure for `NULL` and containers -/
def cwLongAsLong : PyObj α → M Int
  | .int n => chkLong n
  | _ => .error .pyIndex

/-- `PyFloat_AsDouble(o)`: the `double` of a `float`; a Python `int` is converted (`__index__`, `(double)n`);
`-1.0` + `TypeError` for `NULL` and containers -/
def cwFloatAsDouble [OfInt α] : PyObj α → M α
  | .float x => .ok x
  | .int n => .ok (ofInt n)
  | _ => .error .pyIndex

/-- `PyList_New(n)`: a new list of `n` `NULL` slots; `NULL` + `SystemError` for `n < 0` -/
def cwListNew (n : Int) : M (PyObj α) :=
  if n < 0 then .error .badSize else .ok (.list (List.replicate n.toNat .null))

/-- `PyList_SetItem(l, i, o)`: stores `o` at position `i` of the list (stealing the reference); `-1` +
`IndexError` outside `0 <= i < len`, `-1` + `SystemError` for a non-list -/
def cwListSetItem (l : PyObj α) (i : Int) (o : PyObj α) : M (PyObj α) :=
  match l with
  | .list xs => if i < 0 then .error .pyIndex
                else if i.toNat < xs.length then .ok (.list (xs.set i.toNat o)) else .error .pyIndex
  | _ => .error .pyIndex

/-- `PyLong_FromLong(x)` (allocation failure not modelled) -/
def cwLongFromLong (x : Int) : PyObj α := .int x

/-- `PyFloat_FromDouble(x)` (allocation failure not modelled) -/
def cwFloatFromDouble (x : α) : PyObj α := .float x

/-- `Py_BuildValue("OO…", a, b, …)` with two or more object arguments: the tuple of them -/
def cwBuildTuple (l : List (PyObj α)) : PyObj α := .tuple l

end
end Qv.GenC
