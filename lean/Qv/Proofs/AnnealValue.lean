import Qv.Proofs.AnnealFront
import Qv.Proofs.Convert
/-!
# Values over the input's own terms and labels (C11, T11.3 extended)

Relabelling through `_mapping` / `reverse_mapping`, and the boolean → spin conversions of the boolean
front ends, composed with the kernel-level value theorems.
-/
namespace Qv.Anneal
open Qv Qv.Kernel

/-! ## small facts about `eval` -/

theorem mon_congr {x y : Var → Rat} : ∀ (k : Key), (∀ i ∈ k, x i = y i) → mon x k = mon y k
  | [], _ => rfl
  | i :: k, h => by
    simp only [mon_cons]
    rw [h i List.mem_cons_self, mon_congr k (fun j hj => h j (List.mem_cons_of_mem _ hj))]

theorem eval_congr {x y : Var → Rat} : ∀ (p : Poly), (∀ kv ∈ p, ∀ i ∈ kv.1, x i = y i) → eval x p = eval y p
  | [], _ => rfl
  | (k, v) :: p, h => by
    simp only [eval_cons]
    rw [mon_congr k (h (k, v) List.mem_cons_self),
      eval_congr p (fun kv hkv => h kv (List.mem_cons_of_mem _ hkv))]

theorem mon_map (y : Var → Rat) (f : Var → Var) : ∀ k : Key, mon y (k.map f) = mon (fun l => y (f l)) k
  | [] => rfl
  | i :: k => by simp [mon_map y f k]

theorem eval_map (y : Var → Rat) (f : Var → Var) : ∀ p : Poly,
    eval y (p.map (fun kv => (kv.1.map f, kv.2))) = eval (fun l => y (f l)) p
  | [] => rfl
  | (k, v) :: p => by simp [mon_map, eval_map y f p]

/-! ## `_mapping[l]` -/

/-- the index of label `l` in the mapping -/
def idxFn (m : List Var) (l : Var) : Nat := (m.findIdx? (· == l)).getD 0

theorem idxOf_ok {m : List Var} {l : Var} {i : Nat} (h : idxOf m l = .ok i) :
    i = idxFn m l ∧ i < m.length ∧ m.getD i 0 = l := by
  unfold idxOf at h
  split at h
  · rename_i j hj
    injection h with h; subst h
    obtain ⟨hlt, hp, _⟩ := List.findIdx?_eq_some_iff_getElem.mp hj
    refine ⟨by simp [idxFn, hj], hlt, ?_⟩
    simp only [List.getD, List.getElem?_eq_getElem hlt, Option.getD_some]
    simpa using hp
  · cases h

theorem mapM_idx {m : List Var} : ∀ (k : Key) (k' : List Nat), k.mapM (idxOf m) = .ok k' →
    k' = k.map (idxFn m) ∧ ∀ l ∈ k, idxFn m l < m.length ∧ m.getD (idxFn m l) 0 = l
  | [], k', h => by
    simp only [List.mapM_nil, pure, Except.pure] at h
    injection h with h; subst h; simp
  | l :: k, k', h => by
    simp only [List.mapM_cons, bind_ok_iff, pure, Except.pure] at h
    obtain ⟨i, hi, ks, hks, h⟩ := h
    injection h with h; subst h
    obtain ⟨e, hlt, hget⟩ := idxOf_ok hi
    obtain ⟨h1, h2⟩ := mapM_idx k ks hks
    subst e
    refine ⟨by simp [h1], ?_⟩
    intro l' hl'
    rcases List.mem_cons.mp hl' with rfl | hl'
    · exact ⟨hlt, hget⟩
    · exact h2 l' hl'

theorem relabelOps {m : List Var} : ∀ (terms : Poly) (ops : Poly),
    terms.mapM (fun kv => do pure ((← kv.1.mapM (idxOf m)), kv.2)) = .ok ops →
    ops = terms.map (fun kv => (kv.1.map (idxFn m), kv.2)) ∧
    ∀ kv ∈ terms, ∀ l ∈ kv.1, idxFn m l < m.length ∧ m.getD (idxFn m l) 0 = l
  | [], ops, h => by
    simp only [List.mapM_nil, pure, Except.pure] at h
    injection h with h; subst h; simp
  | kv :: terms, ops, h => by
    simp only [List.mapM_cons, bind_ok_iff, pure, Except.pure] at h
    obtain ⟨kv', ⟨k', hk', hkv'⟩, os, hos, h⟩ := h
    injection h with h; subst h
    injection hkv' with hkv'; subst hkv'
    obtain ⟨e, hb⟩ := mapM_idx kv.1 k' hk'
    obtain ⟨h1, h2⟩ := relabelOps terms os hos
    subst e
    refine ⟨by simp [h1], ?_⟩
    intro kv2 hkv2
    rcases List.mem_cons.mp hkv2 with rfl | hkv2
    · exact hb
    · exact h2 kv2 hkv2

/-! ## keys of a model built from constant terms only -/

theorem iaddD_keys_nil {sq : Sq} (hsq : sq [] = .ok []) : ∀ (ops p p' : Poly),
    (∀ kv ∈ ops, kv.1 = []) → (∀ kv ∈ p, kv.1 = []) → iaddD sq p ops = .ok p' → ∀ kv ∈ p', kv.1 = []
  | [], p, p', _, hp, h => by
    simp only [iaddD] at h; injection h with h; subst h; exact hp
  | (k, v) :: ops, p, p', ho, hp, h => by
    simp only [iaddD, bind_ok_iff] at h
    obtain ⟨p1, h1, h⟩ := h
    have hk : k = [] := ho (k, v) List.mem_cons_self
    subst hk
    refine iaddD_keys_nil hsq ops p1 p' (fun kv hkv => ho kv (List.mem_cons_of_mem _ hkv)) ?_ h
    simp only [addTerm, hsq, bind_ok_iff, pure, Except.pure] at h1
    obtain ⟨k', hk', h1⟩ := h1
    injection hk' with hk'; subst hk'
    injection h1 with h1; subst h1
    intro kv hkv
    unfold set at hkv
    split at hkv
    · exact hp kv (mem_erase_sub p [] kv hkv)
    · rcases mem_put p [] _ kv hkv with e | hm
      · rw [e]
      · exact hp kv hm

/-! ## labels handed to the kernel are below `N` -/

theorem qstep_bound (N : Nat) : ∀ (items : Poly) (s s' : List Rat × List (List (Nat × Rat))),
    (∀ kv ∈ items, kv.1.length ≤ 2) → items.foldlM (qstep N) s = .ok s' →
    ∀ kv ∈ items, ∀ i ∈ kv.1, i < N
  | [], _, _, _, _ => by intro kv hkv; cases hkv
  | (k, v) :: rest, s, s', hk, hf => by
    simp only [List.foldlM_cons, bind_ok_iff] at hf
    obtain ⟨s1, hs, hf⟩ := hf
    have ih := qstep_bound N rest s1 s' (fun kv hkv => hk kv (List.mem_cons_of_mem _ hkv)) hf
    intro kv hkv
    rcases List.mem_cons.mp hkv with rfl | hkv
    · have hl := hk (k, v) List.mem_cons_self
      match k, hl, hs with
      | [], _, _ => intro i hi; cases hi
      | [a], _, hs =>
        simp only [qstep] at hs
        split at hs
        · rename_i ha; intro i hi; simp only [List.mem_singleton] at hi; subst hi; exact ha
        · cases hs
      | [a, b], _, hs =>
        simp only [qstep] at hs
        split at hs
        · rename_i hab
          intro i hi
          simp only [List.mem_cons, List.mem_nil_iff, or_false] at hi
          rcases hi with rfl | rfl
          · exact hab.1
          · exact hab.2
        · cases hs
      | _ :: _ :: _ :: _, hl, _ => simp at hl
    · exact ih kv hkv

theorem runQuso_bound {ρ α : Type} [Add α] [Mul α] [OfInt α] (cfg : Cfg ρ α) (P : Params ρ α) (c : Call α)
    (rs : List Res) (h : runQuso cfg P c = .ok rs) (hk : ∀ kv ∈ c.model, kv.1.length ≤ 2) :
    ∀ kv ∈ c.model, ∀ i ∈ kv.1, i < c.N := by
  unfold runQuso at h
  simp only [bind_ok_iff] at h
  obtain ⟨s', hflat, _⟩ := h
  rw [flattenQuso_eq] at hflat
  exact qstep_bound c.N c.model _ s' hk hflat

theorem runPuso_bound {ρ α : Type} [Add α] [Mul α] [OfInt α] (cfg : Cfg ρ α) (P : Params ρ α) (c : Call α)
    (rs : List Res) (h : runPuso cfg P c = .ok rs) : ∀ kv ∈ c.model, ∀ i ∈ kv.1, i < c.N := by
  unfold runPuso at h
  simp only [pure, Except.pure] at h
  split at h
  · exact absurd h (by simp [bind, Except.bind, throw, throwThe, MonadExceptOf.throw])
  · rename_i hany
    intro kv hkv i hi
    by_contra hge
    apply hany
    simp only [flattenPuso, List.any_eq_true, decide_eq_true_eq]
    refine ⟨i, ?_, Nat.le_of_not_lt hge⟩
    simp only [List.mem_flatten, List.mem_map, List.mem_filter]
    refine ⟨kv.1, ⟨kv, ⟨hkv, ?_⟩, rfl⟩, hi⟩
    cases hk : kv.1 with
    | nil => rw [hk] at hi; cases hi
    | cons a r => rfl

/-! ## value and label bound at the dispatch level -/

theorem evalNE_of_keys_nil (x : Var → Rat) (model : Poly) (h : ∀ kv ∈ model, kv.1 = []) : evalNE x model = 0 := by
  have hf : model.filter (fun kv => !kv.1.isEmpty) = [] := by
    apply List.filter_eq_nil_iff.mpr
    intro kv hkv
    simp [h kv hkv]
  simp [evalNE, hf]

/-- `value_quso` together with the fact that every label of the model is below `N` -/
theorem annealQuso_value_bound {ρ : Type} (src : Src ρ Rat) (L : Obj) (P : Params ρ Rat) (rs : List Res)
    (N : Nat) (model : Poly) (rev : List Var)
    (h : Anneal.annealQuso (ratCfg src) L P = .ok rs) (hdisp : dispatchQuso L = .ok (N, model, rev))
    (hd : (keys model).Nodup) (hk : ∀ kv ∈ model, SSorted kv.1 ∧ kv.1.length ≤ 2)
    (h0 : N = 0 → ∀ kv ∈ model, kv.1 = [])
    (hinit : ∀ d, P.init = some d → ∀ p ∈ d, p.2 = 1 ∨ p.2 = -1) :
    ∀ r ∈ rs, ∃ s : List Int, GoodState N s ∧ r.state = relabelState rev s ∧
      r.value = eval (assign s) model ∧ ∀ kv ∈ model, ∀ i ∈ kv.1, i < N := by
  unfold Anneal.annealQuso at h
  simp only [bind_ok_iff] at h
  obtain ⟨pr, hp, h⟩ := h
  rcases prep_cases _ _ _ _ hp with ⟨hle, rfl⟩ | ⟨_, Ts, N', model', rev', _, hd', hc⟩
  · injection h with h; subst h; intro r hr; cases hr
  · rw [hdisp] at hd'
    injection hd' with e; injection e with e1 e2; injection e2 with e2 e3
    subst e1; subst e2; subst e3
    rcases hc with ⟨hN, rfl⟩ | ⟨_, init, hi, rfl⟩
    · injection h with h; subst h
      intro r hr
      obtain ⟨h1, h2, _⟩ := (emptyResults_spec _ _).2 r hr
      refine ⟨[], ⟨(by simp [hN]), (by intro x hx; cases hx)⟩, (by simp [h1, relabelState]), ?_, ?_⟩
      · rw [h2, eval_split_offset (assign []) model hd, evalNE_of_keys_nil _ _ (h0 hN)]; ring
      · intro kv hkv i hi; rw [h0 hN kv hkv] at hi; cases hi
    · intro r hr
      obtain ⟨s, hg, hst, hv⟩ :=
        runQuso_value src P _ rs h (relabelInit_good _ _ _ _ hinit hi) hd hk r hr
      exact ⟨s, hg, hst, hv, runQuso_bound _ P _ rs h (fun kv hkv => (hk kv hkv).2)⟩

theorem annealPuso_value_bound {ρ : Type} (src : Src ρ Rat) (H : Obj) (P : Params ρ Rat) (rs : List Res)
    (N : Nat) (model : Poly) (rev : List Var)
    (h : Anneal.annealPuso (ratCfg src) H P = .ok rs) (hdisp : dispatchPuso H = .ok (N, model, rev))
    (hd : (keys model).Nodup) (h0 : N = 0 → ∀ kv ∈ model, kv.1 = [])
    (hinit : ∀ d, P.init = some d → ∀ p ∈ d, p.2 = 1 ∨ p.2 = -1) :
    ∀ r ∈ rs, ∃ s : List Int, GoodState N s ∧ r.state = relabelState rev s ∧
      r.value = eval (assign s) model ∧ ∀ kv ∈ model, ∀ i ∈ kv.1, i < N := by
  unfold Anneal.annealPuso at h
  simp only [bind_ok_iff] at h
  obtain ⟨pr, hp, h⟩ := h
  rcases prep_cases _ _ _ _ hp with ⟨hle, rfl⟩ | ⟨_, Ts, N', model', rev', _, hd', hc⟩
  · injection h with h; subst h; intro r hr; cases hr
  · rw [hdisp] at hd'
    injection hd' with e; injection e with e1 e2; injection e2 with e2 e3
    subst e1; subst e2; subst e3
    rcases hc with ⟨hN, rfl⟩ | ⟨_, init, hi, rfl⟩
    · injection h with h; subst h
      intro r hr
      obtain ⟨h1, h2, _⟩ := (emptyResults_spec _ _).2 r hr
      refine ⟨[], ⟨(by simp [hN]), (by intro x hx; cases hx)⟩, (by simp [h1, relabelState]), ?_, ?_⟩
      · rw [h2, eval_split_offset (assign []) model hd, evalNE_of_keys_nil _ _ (h0 hN)]; ring
      · intro kv hkv i hi; rw [h0 hN kv hkv] at hi; cases hi
    · intro r hr
      obtain ⟨s, hg, hst, hv⟩ :=
        runPuso_value src P _ rs h (relabelInit_good _ _ _ _ hinit hi) hd r hr
      exact ⟨s, hg, hst, hv, runPuso_bound _ P _ rs h⟩

/-! ## relabelling: the Matrix model at an index-level state is the labelled model at the labelled state -/

/-- spin everywhere, equal to the C state on `0..N-1` -/
def spinExt (s : List Int) : Var → Rat := fun i => if i < s.length then ((s.getD i 0 : Int) : Rat) else 1

theorem spinExt_spin {s : List Int} (hs : SpinList s) : IsSpin (spinExt s) := by
  intro i
  unfold spinExt
  split
  · rename_i hi
    rcases hs _ (getD_mem 0 hi) with h | h <;> rw [h] <;> simp
  · exact Or.inl rfl

theorem toQuso_eval (L : Obj) (model : Poly) (h : toQuso L = .ok model) (y : Var → Rat) (hy : IsSpin y) :
    eval y model = eval (fun l => y (idxFn L.mapping l)) L.terms ∧
    ∀ kv ∈ L.terms, ∀ l ∈ kv.1, idxFn L.mapping l < L.mapping.length ∧ L.mapping.getD (idxFn L.mapping l) 0 = l := by
  unfold toQuso at h
  simp only [bind_ok_iff] at h
  obtain ⟨ops, hops, hc⟩ := h
  obtain ⟨e, hb⟩ := relabelOps L.terms ops hops
  refine ⟨?_, hb⟩
  rw [eval_construct (sqOK_spin (κ := .qusom) rfl hy) hc, e, eval_map]

theorem toPuso_eval (L : Obj) (model : Poly) (h : toPuso L = .ok model) (y : Var → Rat) (hy : IsSpin y) :
    eval y model = eval (fun l => y (idxFn L.mapping l)) L.terms ∧
    ∀ kv ∈ L.terms, ∀ l ∈ kv.1, idxFn L.mapping l < L.mapping.length ∧ L.mapping.getD (idxFn L.mapping l) 0 = l := by
  unfold toPuso at h
  split at h
  · simp only [bind_ok_iff] at h
    obtain ⟨q, hq, hc⟩ := h
    obtain ⟨e, hb⟩ := toQuso_eval L q hq y hy
    exact ⟨by rw [eval_construct (sqOK_spin (κ := .pusom) rfl hy) hc, e], hb⟩
  · simp only [bind_ok_iff] at h
    obtain ⟨ops, hops, hc⟩ := h
    obtain ⟨e, hb⟩ := relabelOps L.terms ops hops
    refine ⟨?_, hb⟩
    rw [eval_construct (sqOK_spin (κ := .pusom) rfl hy) hc, e, eval_map]

/-- with an empty mapping the relabelled model has constant terms only -/
theorem toQuso_keys_nil (L : Obj) (model : Poly) (h : toQuso L = .ok model) (hm : L.mapping.length = 0) :
    ∀ kv ∈ model, kv.1 = [] := by
  unfold toQuso at h
  simp only [bind_ok_iff] at h
  obtain ⟨ops, hops, hc⟩ := h
  obtain ⟨e, hb⟩ := relabelOps L.terms ops hops
  refine iaddD_keys_nil (sq := squash .qusom) rfl ops [] model ?_ (by intro kv hkv; cases hkv) hc
  intro kv hkv
  rw [e] at hkv
  obtain ⟨kv0, hkv0, rfl⟩ := List.mem_map.mp hkv
  cases hk : kv0.1 with
  | nil => simp [hk]
  | cons a r =>
    have := (hb kv0 hkv0 a (by rw [hk]; exact List.mem_cons_self)).1
    omega

theorem toPuso_keys_nil (L : Obj) (model : Poly) (h : toPuso L = .ok model) (hm : L.mapping.length = 0) :
    ∀ kv ∈ model, kv.1 = [] := by
  unfold toPuso at h
  split at h
  · simp only [bind_ok_iff] at h
    obtain ⟨q, hq, hc⟩ := h
    exact iaddD_keys_nil (sq := squash .pusom) rfl q [] model (toQuso_keys_nil L q hq hm)
      (by intro kv hkv; cases hkv) hc
  · simp only [bind_ok_iff] at h
    obtain ⟨ops, hops, hc⟩ := h
    obtain ⟨e, hb⟩ := relabelOps L.terms ops hops
    refine iaddD_keys_nil (sq := squash .pusom) rfl ops [] model ?_ (by intro kv hkv; cases hkv) hc
    intro kv hkv
    rw [e] at hkv
    obtain ⟨kv0, hkv0, rfl⟩ := List.mem_map.mp hkv
    cases hk : kv0.1 with
    | nil => simp [hk]
    | cons a r =>
      have := (hb kv0 hkv0 a (by rw [hk]; exact List.mem_cons_self)).1
      omega

/-- the relabelling step: from the Matrix model at the kernel state to the labelled terms at any spin
assignment of the labels that agrees with the reported state -/
theorem relabel_value_core (L : Obj) (model : Poly) (N : Nat) (s : List Int)
    (hev : ∀ y, IsSpin y → eval y model = eval (fun l => y (idxFn L.mapping l)) L.terms)
    (hidx : ∀ kv ∈ L.terms, ∀ l ∈ kv.1, idxFn L.mapping l < L.mapping.length ∧
      L.mapping.getD (idxFn L.mapping l) 0 = l)
    (hN : L.mapping.length = N) (hs : GoodState N s) (hb : ∀ kv ∈ model, ∀ i ∈ kv.1, i < N)
    (x : Var → Rat) (hcons : ∀ p ∈ relabelState L.mapping s, x p.1 = p.2) :
    eval (assign s) model = eval x L.terms := by
  have h1 : eval (assign s) model = eval (spinExt s) model := by
    apply eval_congr
    intro kv hkv i hi
    have := hb kv hkv i hi
    simp [assign, spinExt, hs.1, this]
  rw [h1, hev _ (spinExt_spin hs.2)]
  apply eval_congr
  intro kv hkv l hl
  obtain ⟨hlt, hget⟩ := hidx kv hkv l hl
  have hk : idxFn L.mapping l < s.length := by rw [hs.1, ← hN]; exact hlt
  have hmem : (l, s.getD (idxFn L.mapping l) 0) ∈ relabelState L.mapping s := by
    simp only [relabelState, List.mem_map, List.mem_range]
    exact ⟨idxFn L.mapping l, hk, by rw [hget]⟩
  have := hcons _ hmem
  simp only at this
  simp [spinExt, hk, this]

theorem range_map_getD (m : List Var) : (List.range m.length).map (fun k => m.getD k 0) = m := by
  apply List.ext_getElem (by simp)
  intro i h1 h2
  simp only [List.length_map, List.length_range] at h1
  simp [List.getD, List.getElem?_eq_getElem h1]

/-- the dispatch of a labelled `QUSO` -/
theorem dispatchQuso_labelled (L : Obj) (hk : L.kind = .quso) (N : Nat) (model : Poly) (rev : List Var)
    (h : dispatchQuso L = .ok (N, model, rev)) : N = L.vars.length ∧ toQuso L = .ok model ∧ rev = L.mapping := by
  have hne : ¬ L.kind = .qusom := by rw [hk]; decide
  have hnp : ¬ L.kind = .pusom := by rw [hk]; decide
  unfold dispatchQuso at h
  rw [if_neg hnp] at h
  unfold dispatchQusoCore at h
  rw [if_neg hne] at h
  cases hq : toQuso L with
  | error e => simp [hk, hq, bind, Except.bind, pure, Except.pure] at h
  | ok m =>
    simp only [hk, if_true, hq, bind, Except.bind, pure, Except.pure] at h
    injection h with h
    injection h with h1 h2; injection h2 with h2 h3
    subst h1; subst h2; subst h3
    exact ⟨rfl, rfl, rfl⟩

/-- the dispatch of a labelled `QUSO` / `PUSO` / `PCSO` in `anneal_puso` -/
theorem dispatchPuso_labelled (H : Obj) (hk : H.kind = .quso ∨ H.kind = .puso ∨ H.kind = .pcso) (N : Nat)
    (model : Poly) (rev : List Var) (h : dispatchPuso H = .ok (N, model, rev)) :
    N = H.vars.length ∧ toPuso H = .ok model ∧ rev = H.mapping := by
  have hne : ¬ (H.kind = .qusom ∨ H.kind = .pusom) := by
    rcases hk with h | h | h <;> rw [h] <;> decide
  unfold dispatchPuso at h
  rw [if_neg hne, if_pos hk] at h
  cases hq : toPuso H with
  | error e => simp [hq, bind, Except.bind, pure, Except.pure] at h
  | ok m =>
    simp only [hq, bind, Except.bind, pure, Except.pure] at h
    injection h with h
    injection h with h1 h2; injection h2 with h2 h3
    subst h1; subst h2; subst h3
    exact ⟨rfl, rfl, rfl⟩

/-- **labelled `QUSO` through `anneal_quso`**: the state is a function on the model's own labels and the
value is the model's own terms evaluated there -/
theorem annealQuso_labelled {ρ : Type} (src : Src ρ Rat) (L : Obj) (P : Params ρ Rat) (rs : List Res)
    (hk : L.kind = .quso) (h : Anneal.annealQuso (ratCfg src) L P = .ok rs)
    (hmap : L.mapping.length = L.vars.length)
    (hinit : ∀ d, P.init = some d → ∀ p ∈ d, p.2 = 1 ∨ p.2 = -1) :
    ∀ r ∈ rs, r.state.map Prod.fst = L.mapping ∧ (∀ p ∈ r.state, p.2 = 1 ∨ p.2 = -1) ∧
      ∀ x : Var → Rat, (∀ p ∈ r.state, x p.1 = p.2) → r.value = eval x L.terms := by
  have h' := h
  unfold Anneal.annealQuso at h'
  simp only [bind_ok_iff] at h'
  obtain ⟨pr, hp, hm⟩ := h'
  rcases prep_cases _ _ _ _ hp with ⟨hle, rfl⟩ | ⟨_, Ts, N, model, rev, _, hd, _⟩
  · injection hm with hm; subst hm; intro r hr; cases hr
  · obtain ⟨hN, htq, hrev⟩ := dispatchQuso_labelled L hk N model rev hd
    subst hrev
    obtain ⟨hnd, hkc⟩ := toQuso_canonical L model htq
    have h0 : N = 0 → ∀ kv ∈ model, kv.1 = [] := fun hz => toQuso_keys_nil L model htq (by omega)
    intro r hr
    obtain ⟨s, hg, hst, hv, hb⟩ := annealQuso_value_bound src L P rs N model L.mapping h hd hnd hkc h0 hinit r hr
    refine ⟨?_, by rw [hst]; exact relabelState_vals _ _ hg.2, ?_⟩
    · rw [hst, relabelState_fst, hg.1, hN, ← hmap, range_map_getD]
    · intro x hcons
      rw [hv]
      exact relabel_value_core L model N s (fun y hy => (toQuso_eval L model htq y hy).1)
        (toQuso_eval L model htq (fun _ => 1) (fun _ => Or.inl rfl)).2 (by omega) hg hb x (hst ▸ hcons)

/-- **labelled `QUSO` / `PUSO` / `PCSO` through `anneal_puso`** -/
theorem annealPuso_labelled {ρ : Type} (src : Src ρ Rat) (H : Obj) (P : Params ρ Rat) (rs : List Res)
    (hk : H.kind = .quso ∨ H.kind = .puso ∨ H.kind = .pcso) (h : Anneal.annealPuso (ratCfg src) H P = .ok rs)
    (hmap : H.mapping.length = H.vars.length)
    (hinit : ∀ d, P.init = some d → ∀ p ∈ d, p.2 = 1 ∨ p.2 = -1) :
    ∀ r ∈ rs, r.state.map Prod.fst = H.mapping ∧ (∀ p ∈ r.state, p.2 = 1 ∨ p.2 = -1) ∧
      ∀ x : Var → Rat, (∀ p ∈ r.state, x p.1 = p.2) → r.value = eval x H.terms := by
  have h' := h
  unfold Anneal.annealPuso at h'
  simp only [bind_ok_iff] at h'
  obtain ⟨pr, hp, hm⟩ := h'
  rcases prep_cases _ _ _ _ hp with ⟨hle, rfl⟩ | ⟨_, Ts, N, model, rev, _, hd, _⟩
  · injection hm with hm; subst hm; intro r hr; cases hr
  · obtain ⟨hN, htq, hrev⟩ := dispatchPuso_labelled H hk N model rev hd
    subst hrev
    have hnd := toPuso_canonical H model htq
    have h0 : N = 0 → ∀ kv ∈ model, kv.1 = [] := fun hz => toPuso_keys_nil H model htq (by omega)
    intro r hr
    obtain ⟨s, hg, hst, hv, hb⟩ := annealPuso_value_bound src H P rs N model H.mapping h hd hnd h0 hinit r hr
    refine ⟨?_, by rw [hst]; exact relabelState_vals _ _ hg.2, ?_⟩
    · rw [hst, relabelState_fst, hg.1, hN, ← hmap, range_map_getD]
    · intro x hcons
      rw [hv]
      exact relabel_value_core H model N s (fun y hy => (toPuso_eval H model htq y hy).1)
        (toPuso_eval H model htq (fun _ => 1) (fun _ => Or.inl rfl)).2 (by omega) hg hb x (hst ▸ hcons)

end Qv.Anneal
