import Qv.Proofs.Canon
import Qv.Model.Expr
/-!
# Soundness of the expression evaluator `run` with respect to the denotation `den`
-/
namespace Qv

theorem bind_ok_iff {α β : Type} {a : Except Err α} {f : α → Except Err β} {b : β} :
    (a >>= f) = .ok b ↔ ∃ a', a = .ok a' ∧ f a' = .ok b := by
  cases a with
  | error e => simp [bind, Except.bind]
  | ok a' => simp [bind, Except.bind]

/-- the assignment belongs to the family: spin (`s = true`) or boolean (`s = false`) -/
def Fam (s : Bool) (x : Var → Rat) : Prop := if s then IsSpin x else IsBool x

theorem sqOK_fam {s : Bool} {x : Var → Rat} (hx : Fam s x) {κ : Kind} (hκ : κ.isSpin = s) :
    SqOK (squash κ) x := by
  cases s with
  | true => exact sqOK_spin hκ (by simpa [Fam] using hx)
  | false => exact sqOK_bool hκ (by simpa [Fam] using hx)

/-- a value produced inside a tree of family `s`: model values are canonical models of that family -/
def Val.Good (s : Bool) : Val → Prop
  | .mdl κ p => κ ≠ .dict ∧ κ.isSpin = s ∧ WF (squash κ) p
  | _ => True

section
variable {s : Bool} {x : Var → Rat} (hx : Fam s x)
include hx

theorem mulModel_sound {κ : Kind} {p : Poly} (hκ : κ ≠ .dict ∧ κ.isSpin = s) {b v : Val}
    (h : mulModel κ p b = .ok v) : v.eval x = eval x p * b.eval x ∧ v.Good s := by
  have hs := sqOK_fam hx hκ.2
  have hi := squash_idem κ
  cases b with
  | num c =>
    simp only [mulModel, bind_ok_iff, pure, Except.pure] at h
    obtain ⟨d, hd, r, hr, h⟩ := h
    injection h with h; subst h
    have wd := wf_construct hi hd
    exact ⟨by simp only [Val.eval]; rw [eval_imulC x wd hr, eval_construct hs hd],
      hκ.1, hκ.2, wf_imulC hi wd hr⟩
  | raw q =>
    simp only [mulModel, bind_ok_iff, pure, Except.pure] at h
    obtain ⟨d, hd, r, hr, h⟩ := h
    injection h with h; subst h
    exact ⟨by simp only [Val.eval]; rw [eval_imulD hs hr, eval_construct hs hd],
      hκ.1, hκ.2, wf_imulD hi hr⟩
  | mdl κ2 q =>
    simp only [mulModel, bind_ok_iff, pure, Except.pure] at h
    obtain ⟨d, hd, r, hr, h⟩ := h
    injection h with h; subst h
    exact ⟨by simp only [Val.eval]; rw [eval_imulD hs hr, eval_construct hs hd],
      hκ.1, hκ.2, wf_imulD hi hr⟩

theorem addC_sound {κ : Kind} {p : Poly} (hκ : κ ≠ .dict ∧ κ.isSpin = s) {c : Rat} {r : Poly}
    {d : Poly} (hd : construct (squash κ) p = .ok d) (hr : iaddC (squash κ) d c = .ok r) :
    eval x r = eval x p + c ∧ WF (squash κ) r := by
  have hs := sqOK_fam hx hκ.2
  have hi := squash_idem κ
  exact ⟨by rw [eval_iaddC hs hr, eval_construct hs hd], wf_addTerm hi (wf_construct hi hd) hr⟩

theorem addD_sound {κ : Kind} {p q : Poly} (hκ : κ ≠ .dict ∧ κ.isSpin = s) {r : Poly}
    {d : Poly} (hd : construct (squash κ) p = .ok d) (hr : iaddD (squash κ) d q = .ok r) :
    eval x r = eval x p + eval x q ∧ WF (squash κ) r := by
  have hs := sqOK_fam hx hκ.2
  have hi := squash_idem κ
  exact ⟨by rw [eval_iaddD hs hr, eval_construct hs hd], wf_iaddD hi (wf_construct hi hd) hr⟩

theorem subD_sound {κ : Kind} {p q : Poly} (hκ : κ ≠ .dict ∧ κ.isSpin = s) {r : Poly}
    {d : Poly} (hd : construct (squash κ) p = .ok d) (hr : isubD (squash κ) d q = .ok r) :
    eval x r = eval x p - eval x q ∧ WF (squash κ) r := by
  have hs := sqOK_fam hx hκ.2
  have hi := squash_idem κ
  exact ⟨by rw [eval_isubD hs hr, eval_construct hs hd], wf_isubD hi (wf_construct hi hd) hr⟩

theorem Val.add_sound {a b v : Val} (ha : a.Good s) (hb : b.Good s)
    (h : Val.add a b = .ok v) : v.eval x = a.eval x + b.eval x ∧ v.Good s := by
  cases a with
  | num c =>
    cases b with
    | num c2 => simp [Val.add] at h; subst h; simp [Val.eval, Val.Good]
    | raw q => simp [Val.add] at h
    | mdl κ p =>
      simp only [Val.add, bind_ok_iff, pure, Except.pure] at h
      obtain ⟨d, hd, r, hr, h⟩ := h
      injection h with h; subst h
      have := addC_sound hx ⟨hb.1, hb.2.1⟩ hd hr
      exact ⟨by simp only [Val.eval]; rw [this.1]; ring, hb.1, hb.2.1, this.2⟩
  | raw q =>
    cases b with
    | num c2 => simp [Val.add] at h
    | raw q2 => simp [Val.add] at h
    | mdl κ p =>
      simp only [Val.add, bind_ok_iff, pure, Except.pure] at h
      obtain ⟨d, hd, r, hr, h⟩ := h
      injection h with h; subst h
      have := addD_sound hx ⟨hb.1, hb.2.1⟩ hd hr
      exact ⟨by simp only [Val.eval]; rw [this.1]; ring, hb.1, hb.2.1, this.2⟩
  | mdl κ p =>
    cases b with
    | num c =>
      simp only [Val.add, bind_ok_iff, pure, Except.pure] at h
      obtain ⟨d, hd, r, hr, h⟩ := h
      injection h with h; subst h
      have := addC_sound hx ⟨ha.1, ha.2.1⟩ hd hr
      exact ⟨by simp only [Val.eval]; rw [this.1], ha.1, ha.2.1, this.2⟩
    | raw q =>
      simp only [Val.add, bind_ok_iff, pure, Except.pure] at h
      obtain ⟨d, hd, r, hr, h⟩ := h
      injection h with h; subst h
      have := addD_sound hx ⟨ha.1, ha.2.1⟩ hd hr
      exact ⟨by simp only [Val.eval]; rw [this.1], ha.1, ha.2.1, this.2⟩
    | mdl κ2 q =>
      simp only [Val.add, bind_ok_iff, pure, Except.pure] at h
      obtain ⟨d, hd, r, hr, h⟩ := h
      injection h with h; subst h
      have := addD_sound hx ⟨ha.1, ha.2.1⟩ hd hr
      exact ⟨by simp only [Val.eval]; rw [this.1], ha.1, ha.2.1, this.2⟩

theorem Val.mul_sound {a b v : Val} (ha : a.Good s) (hb : b.Good s)
    (h : Val.mul a b = .ok v) : v.eval x = a.eval x * b.eval x ∧ v.Good s := by
  cases a with
  | num c =>
    cases b with
    | num c2 => simp [Val.mul] at h; subst h; simp [Val.eval, Val.Good]
    | raw q => simp [Val.mul] at h
    | mdl κ p =>
      simp only [Val.mul] at h
      have := mulModel_sound hx ⟨hb.1, hb.2.1⟩ h
      exact ⟨by rw [this.1]; simp only [Val.eval]; ring, this.2⟩
  | raw q =>
    cases b with
    | num c2 => simp [Val.mul] at h
    | raw q2 => simp [Val.mul] at h
    | mdl κ p =>
      simp only [Val.mul] at h
      have := mulModel_sound hx ⟨hb.1, hb.2.1⟩ h
      exact ⟨by rw [this.1]; simp only [Val.eval]; ring, this.2⟩
  | mdl κ p =>
    simp only [Val.mul] at h
    have := mulModel_sound hx ⟨ha.1, ha.2.1⟩ h
    exact ⟨by rw [this.1]; simp only [Val.eval], this.2⟩

theorem Val.sub_sound {a b v : Val} (ha : a.Good s) (hb : b.Good s)
    (h : Val.sub a b = .ok v) : v.eval x = a.eval x - b.eval x ∧ v.Good s := by
  cases a with
  | num c =>
    cases b with
    | num c2 => simp [Val.sub] at h; subst h; simp [Val.eval, Val.Good]
    | raw q => simp [Val.sub] at h
    | mdl κ p =>
      simp only [Val.sub, bind_ok_iff] at h
      obtain ⟨m, hm, h⟩ := h
      have h1 := mulModel_sound hx ⟨hb.1, hb.2.1⟩ hm
      have h2 := Val.add_sound hx h1.2 (b := .num c) trivial h
      exact ⟨by rw [h2.1, h1.1]; simp only [Val.eval]; ring, h2.2⟩
  | raw q =>
    cases b with
    | num c2 => simp [Val.sub] at h
    | raw q2 => simp [Val.sub] at h
    | mdl κ p =>
      simp only [Val.sub, bind_ok_iff] at h
      obtain ⟨m, hm, h⟩ := h
      have h1 := mulModel_sound hx ⟨hb.1, hb.2.1⟩ hm
      have h2 := Val.add_sound hx h1.2 (b := .raw q) trivial h
      exact ⟨by rw [h2.1, h1.1]; simp only [Val.eval]; ring, h2.2⟩
  | mdl κ p =>
    cases b with
    | num c =>
      simp only [Val.sub, bind_ok_iff, pure, Except.pure] at h
      obtain ⟨d, hd, r, hr, h⟩ := h
      injection h with h; subst h
      have := addC_sound hx ⟨ha.1, ha.2.1⟩ hd hr
      exact ⟨by simp only [Val.eval]; rw [this.1]; ring, ha.1, ha.2.1, this.2⟩
    | raw q =>
      simp only [Val.sub, bind_ok_iff, pure, Except.pure] at h
      obtain ⟨d, hd, r, hr, h⟩ := h
      injection h with h; subst h
      have := subD_sound hx ⟨ha.1, ha.2.1⟩ hd hr
      exact ⟨by simp only [Val.eval]; rw [this.1], ha.1, ha.2.1, this.2⟩
    | mdl κ2 q =>
      simp only [Val.sub, bind_ok_iff, pure, Except.pure] at h
      obtain ⟨d, hd, r, hr, h⟩ := h
      injection h with h; subst h
      have := subD_sound hx ⟨ha.1, ha.2.1⟩ hd hr
      exact ⟨by simp only [Val.eval]; rw [this.1], ha.1, ha.2.1, this.2⟩

theorem Val.neg_sound {a v : Val} (ha : a.Good s)
    (h : Val.neg a = .ok v) : v.eval x = - a.eval x ∧ v.Good s := by
  cases a with
  | num c => simp [Val.neg] at h; subst h; simp [Val.eval, Val.Good]
  | raw q => simp [Val.neg] at h
  | mdl κ p =>
    simp only [Val.neg] at h
    have := mulModel_sound hx ⟨ha.1, ha.2.1⟩ h
    exact ⟨by rw [this.1]; simp only [Val.eval]; ring, this.2⟩

theorem Val.pos_sound {a v : Val} (ha : a.Good s)
    (h : Val.pos a = .ok v) : v.eval x = a.eval x ∧ v.Good s := by
  cases a with
  | num c => simp [Val.pos] at h; subst h; simp [Val.eval, Val.Good]
  | raw q => simp [Val.pos] at h
  | mdl κ p =>
    simp only [Val.pos, bind_ok_iff, pure, Except.pure] at h
    obtain ⟨r, hr, h⟩ := h
    injection h with h; subst h
    exact ⟨by simp only [Val.eval]; exact eval_construct (sqOK_fam hx ha.2.1) hr,
      ha.1, ha.2.1, wf_construct (squash_idem κ) hr⟩

theorem Val.pow_sound {a v : Val} {e : Int} (ha : a.Good s)
    (h : Val.pow a e = .ok v) : 0 < e ∧ v.eval x = a.eval x ^ e.toNat ∧ v.Good s := by
  cases a with
  | num c => simp [Val.pow] at h
  | raw q => simp [Val.pow] at h
  | mdl κ p =>
    simp only [Val.pow, bind_ok_iff, pure, Except.pure] at h
    obtain ⟨d, hd, r, hr, h⟩ := h
    injection h with h; subst h
    have hs := sqOK_fam hx ha.2.1
    have hi := squash_idem κ
    have := eval_ipow hs hr
    exact ⟨this.1, by simp only [Val.eval]; rw [this.2, eval_construct hs hd],
      ha.1, ha.2.1, wf_ipow hi (wf_construct hi hd) hr⟩

theorem Val.div_sound {a v : Val} {c : Rat} (ha : a.Good s)
    (h : Val.div a c = .ok v) : v.eval x = a.eval x / c ∧ v.Good s := by
  cases a with
  | num c2 =>
    simp only [Val.div] at h
    split at h
    · cases h
    · injection h with h; subst h; simp [Val.eval, Val.Good]
  | raw q => simp [Val.div] at h
  | mdl κ p =>
    simp only [Val.div, bind_ok_iff, pure, Except.pure] at h
    obtain ⟨d, hd, r, hr, h⟩ := h
    injection h with h; subst h
    have hs := sqOK_fam hx ha.2.1
    have hi := squash_idem κ
    have wd := wf_construct hi hd
    exact ⟨by simp only [Val.eval]; rw [eval_idivC x wd hr, eval_construct hs hd],
      ha.1, ha.2.1, wf_idivC hi wd hr⟩

theorem Val.cast_sound {κ : Kind} (hκ : κ ≠ .dict ∧ κ.isSpin = s) {a v : Val}
    (h : Val.cast κ a = .ok v) : v.eval x = a.eval x ∧ v.Good s := by
  have hs := sqOK_fam hx hκ.2
  have hi := squash_idem κ
  cases a with
  | num c => simp [Val.cast] at h
  | raw q =>
    simp only [Val.cast, bind_ok_iff, pure, Except.pure] at h
    obtain ⟨r, hr, h⟩ := h
    injection h with h; subst h
    exact ⟨by simp only [Val.eval]; exact eval_construct hs hr, hκ.1, hκ.2, wf_construct hi hr⟩
  | mdl κ2 q =>
    simp only [Val.cast, bind_ok_iff, pure, Except.pure] at h
    obtain ⟨r, hr, h⟩ := h
    injection h with h; subst h
    exact ⟨by simp only [Val.eval]; exact eval_construct hs hr, hκ.1, hκ.2, wf_construct hi hr⟩

/-- **Soundness of `run`.**  For every expression tree over one family, if evaluation succeeds the
resulting value denotes `den t` at every assignment of that family, and is stored canonically. -/
theorem run_sound (t : Expr) : ∀ {v : Val}, t.family s = true → run t = .ok v →
    v.eval x = den x t ∧ v.Good s := by
  induction t with
  | num c => intro v _ h; simp [run] at h; subst h; simp [Val.eval, den, Val.Good]
  | raw p => intro v _ h; simp [run] at h; subst h; simp [Val.eval, den, Val.Good]
  | mdl κ p =>
    intro v hf h
    simp only [run, bind_ok_iff, pure, Except.pure] at h
    obtain ⟨r, hr, h⟩ := h
    injection h with h; subst h
    simp [Expr.family] at hf
    exact ⟨by simp only [Val.eval, den]; exact eval_construct (sqOK_fam hx hf.2) hr,
      hf.1, hf.2, wf_construct (squash_idem κ) hr⟩
  | cast κ a ih =>
    intro v hf h
    simp only [run, bind_ok_iff] at h
    obtain ⟨va, hva, h⟩ := h
    simp [Expr.family] at hf
    have h1 := ih hf.2 hva
    have h2 := Val.cast_sound hx ⟨hf.1.1, hf.1.2⟩ h
    exact ⟨by rw [h2.1, h1.1]; rfl, h2.2⟩
  | add a b iha ihb =>
    intro v hf h
    simp only [run, bind_ok_iff] at h
    obtain ⟨va, hva, vb, hvb, h⟩ := h
    simp [Expr.family] at hf
    have h1 := iha hf.1 hva
    have h2 := ihb hf.2 hvb
    have h3 := Val.add_sound hx h1.2 h2.2 h
    exact ⟨by rw [h3.1, h1.1, h2.1]; rfl, h3.2⟩
  | sub a b iha ihb =>
    intro v hf h
    simp only [run, bind_ok_iff] at h
    obtain ⟨va, hva, vb, hvb, h⟩ := h
    simp [Expr.family] at hf
    have h1 := iha hf.1 hva
    have h2 := ihb hf.2 hvb
    have h3 := Val.sub_sound hx h1.2 h2.2 h
    exact ⟨by rw [h3.1, h1.1, h2.1]; rfl, h3.2⟩
  | mul a b iha ihb =>
    intro v hf h
    simp only [run, bind_ok_iff] at h
    obtain ⟨va, hva, vb, hvb, h⟩ := h
    simp [Expr.family] at hf
    have h1 := iha hf.1 hva
    have h2 := ihb hf.2 hvb
    have h3 := Val.mul_sound hx h1.2 h2.2 h
    exact ⟨by rw [h3.1, h1.1, h2.1]; rfl, h3.2⟩
  | pow a e ih =>
    intro v hf h
    simp only [run, bind_ok_iff] at h
    obtain ⟨va, hva, h⟩ := h
    simp [Expr.family] at hf
    have h1 := ih hf hva
    have h3 := Val.pow_sound hx h1.2 h
    exact ⟨by rw [h3.2.1, h1.1]; rfl, h3.2.2⟩
  | neg a ih =>
    intro v hf h
    simp only [run, bind_ok_iff] at h
    obtain ⟨va, hva, h⟩ := h
    simp [Expr.family] at hf
    have h1 := ih hf hva
    have h3 := Val.neg_sound hx h1.2 h
    exact ⟨by rw [h3.1, h1.1]; rfl, h3.2⟩
  | pos a ih =>
    intro v hf h
    simp only [run, bind_ok_iff] at h
    obtain ⟨va, hva, h⟩ := h
    simp [Expr.family] at hf
    have h1 := ih hf hva
    have h3 := Val.pos_sound hx h1.2 h
    exact ⟨by rw [h3.1, h1.1]; rfl, h3.2⟩
  | div a c ih =>
    intro v hf h
    simp only [run, bind_ok_iff] at h
    obtain ⟨va, hva, h⟩ := h
    simp [Expr.family] at hf
    have h1 := ih hf hva
    have h3 := Val.div_sound hx h1.2 h
    exact ⟨by rw [h3.1, h1.1]; rfl, h3.2⟩

end
end Qv
