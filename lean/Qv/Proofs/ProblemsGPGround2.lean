import Qv.Proofs.ProblemsGPGround
/-!
# GraphPartitioning ground states: the cost of moving one vertex across the cut, and the degree bound
(`A > B·degree/4` without any assumption on repeated edges)
-/
namespace Qv.Prob
open Qv

/-! ### vertex indices -/

theorem gp_indexIn_of_mem {order : List Var} {u : Var} (h : u ∈ order) :
    ∃ j, indexIn order u = .ok j ∧ order[j]? = some u := by
  induction order with
  | nil => cases h
  | cons a r ih =>
    by_cases hau : a = u
    · exact ⟨0, by simp [indexIn, hau], by simp [hau]⟩
    · rcases List.mem_cons.mp h with h1 | h1
      · exact absurd h1.symm hau
      · obtain ⟨j, hj, hg⟩ := ih h1
        exact ⟨j + 1, by simp [indexIn, hau, hj, bind, Except.bind, pure, Except.pure], by simpa using hg⟩

theorem gp_idxD_get {order : List Var} {u : Var} (h : u ∈ order) : order[idxD order u]? = some u := by
  obtain ⟨j, hj, hg⟩ := gp_indexIn_of_mem h
  simpa [idxD, hj] using hg

theorem gp_idxD_lt {order : List Var} {u : Var} (h : u ∈ order) : idxD order u < order.length := by
  obtain ⟨j, hj, _⟩ := gp_indexIn_of_mem h
  simpa [idxD, hj] using indexIn_lt hj

theorem gp_idxD_inj {order : List Var} {u v : Var} (hu : u ∈ order) (hv : v ∈ order)
    (h : idxD order u = idxD order v) : u = v := by
  have h1 := gp_idxD_get hu
  rw [h, gp_idxD_get hv] at h1
  exact (Option.some.inj h1).symm

/-! ### (FLIP), the cut part -/

/-- edge `e` is incident to index `i` and its other endpoint is on the `+1` side -/
def gpSame (order : List Var) (z : Var → Rat) (i : Nat) (e : (Var × Var) × Rat) : Bool :=
  (idxD order e.1.1 == i && decide (z (idxD order e.1.2) = 1)) ||
    (idxD order e.1.2 == i && decide (z (idxD order e.1.1) = 1))

theorem gp_cut_flip_le {order : List Var} {B : Rat} (hB : 0 ≤ B) {z : Var → Rat} (hz : IsSpin z) {i : Nat}
    (hzi : z i = 1) (es : List ((Var × Var) × Rat))
    (hne : ∀ e ∈ es, idxD order e.1.1 ≠ idxD order e.1.2) (hw : ∀ e ∈ es, 0 ≤ e.2 ∧ e.2 ≤ 1) :
    cutSum order B z es - cutSum order B (gpFlip z i) es ≤ B * ((es.filter (gpSame order z i)).length : Rat) := by
  induction es with
  | nil => simp [cutSum]
  | cons e r ih =>
    have ih' := ih (fun f hf => hne f (List.mem_cons_of_mem _ hf)) (fun f hf => hw f (List.mem_cons_of_mem _ hf))
    have hab := hne e List.mem_cons_self
    obtain ⟨w0, w1⟩ := hw e List.mem_cons_self
    obtain ⟨⟨u, v⟩, w⟩ := e
    simp only at hab w0 w1
    have hwB : w * B ≤ B := by nlinarith
    have hwB0 : 0 ≤ w * B := mul_nonneg w0 hB
    simp only [cutSum, List.filter_cons]
    by_cases ha : idxD order u = i
    · have hb : ¬ idxD order v = i := fun hb => hab (ha.trans hb.symm)
      have f1 : gpFlip z i (idxD order u) = -1 := by simp [gpFlip, ha, hzi]
      have f2 : gpFlip z i (idxD order v) = z (idxD order v) := by simp [gpFlip, hb]
      rw [f1, f2, ha, hzi]
      rcases hz (idxD order v) with h1 | h1
      · have hs : gpSame order z i ((u, v), w) = true := by simp [gpSame, ha, h1]
        rw [hs, h1]; simp only [if_true, List.length_cons]; push_cast; linarith
      · have hs : gpSame order z i ((u, v), w) = false := by simp [gpSame, hb, h1]; norm_num
        rw [hs, h1]; simp only [Bool.false_eq_true, if_false]; linarith
    · by_cases hb : idxD order v = i
      · have f1 : gpFlip z i (idxD order v) = -1 := by simp [gpFlip, hb, hzi]
        have f2 : gpFlip z i (idxD order u) = z (idxD order u) := by simp [gpFlip, ha]
        rw [f1, f2, hb, hzi]
        rcases hz (idxD order u) with h1 | h1
        · have hs : gpSame order z i ((u, v), w) = true := by simp [gpSame, hb, h1]
          rw [hs, h1]; simp only [if_true, List.length_cons]; push_cast; linarith
        · have hs : gpSame order z i ((u, v), w) = false := by simp [gpSame, ha, h1]; norm_num
          rw [hs, h1]; simp only [Bool.false_eq_true, if_false]; linarith
      · have f1 : gpFlip z i (idxD order v) = z (idxD order v) := by simp [gpFlip, hb]
        have f2 : gpFlip z i (idxD order u) = z (idxD order u) := by simp [gpFlip, ha]
        have hs : gpSame order z i ((u, v), w) = false := by simp [gpSame, ha, hb]
        rw [f1, f2, hs]; simp only [Bool.false_eq_true, if_false]; linarith

/-- the non-loop edges of a well-formed instance have two different endpoint indices -/
theorem gp_edges_idx_ne {p : GP} (hwf : p.WF) :
    ∀ e ∈ p.edges, idxD p.order e.1.1 ≠ idxD p.order e.1.2 := by
  intro e he
  simp only [GP.edges, List.mem_filter, bne_iff_ne, ne_eq] at he
  obtain ⟨hin, hne⟩ := he
  obtain ⟨h1, h2⟩ := hwf.2 e hin
  exact fun h => hne (gp_idxD_inj h1 h2 h)

/-- **(FLIP)** moving a `+1` vertex across the cut costs at most `B ·` (number of its edges to `+1` vertices) -/
theorem gp_cutCost_flip_le {p : GP} (hwf : p.WF) (hu : p.UnitWeights) {B : Rat} (hB : 0 ≤ B) {z : Var → Rat}
    (hz : IsSpin z) {i : Nat} (hzi : z i = 1) :
    p.cutCost B (gpFlip z i) - p.cutCost B z ≤ B * ((p.edges.filter (gpSame p.order z i)).length : Rat) := by
  have := gp_cut_flip_le hB hz hzi p.edges (gp_edges_idx_ne hwf) hu
  simp only [GP.cutCost]; linarith

/-! ### the degree bound -/

theorem gp_filter_length_mono {α : Type} (l : List α) (f g : α → Bool) (h : ∀ a ∈ l, f a = true → g a = true) :
    (l.filter f).length ≤ (l.filter g).length := by
  induction l with
  | nil => simp
  | cons a r ih =>
    have ih' := ih (fun b hb => h b (List.mem_cons_of_mem _ hb))
    have ha := h a List.mem_cons_self
    simp only [List.filter_cons]
    cases hf : f a
    · simp only [Bool.false_eq_true, if_false]
      split
      · simp only [List.length_cons]; omega
      · exact ih'
    · simp only [ha hf, if_true, List.length_cons]; omega

/-- the items having `q` as an endpoint are at most as many as the occurrences of `q` among all endpoints -/
theorem gp_incident_le_count (l : List ((Var × Var) × Rat)) (q : Var) :
    (l.filter (fun e => e.1.1 == q || e.1.2 == q)).length ≤
      ((l.flatMap (fun e => [e.1.1, e.1.2])).filter (fun y => y == q)).length := by
  induction l with
  | nil => simp
  | cons e r ih =>
    simp only [List.filter_cons, List.flatMap_cons, List.cons_append, List.nil_append]
    by_cases h1 : e.1.1 = q <;> by_cases h2 : e.1.2 = q <;> simp [h1, h2] <;> omega

theorem gp_le_foldl_max (r : List Nat) (a : Nat) : a ≤ r.foldl max a ∧ ∀ l ∈ r, l ≤ r.foldl max a := by
  induction r generalizing a with
  | nil => simp
  | cons b r ih =>
    obtain ⟨h1, h2⟩ := ih (max a b)
    simp only [List.foldl_cons]
    refine ⟨le_trans (Nat.le_max_left a b) h1, fun l hl => ?_⟩
    rcases List.mem_cons.mp hl with rfl | hl
    · exact le_trans (Nat.le_max_right a l) h1
    · exact h2 l hl

theorem gp_mem_insertU_iff (a i : Var) (l : Key) : i ∈ insertU a l ↔ i = a ∨ i ∈ l := by
  induction l with
  | nil => simp [insertU]
  | cons b bs ih =>
    unfold insertU
    split
    · simp
    · split
      · rename_i h; subst h; simp
      · simp only [List.mem_cons, ih]
        constructor
        · rintro (h | h | h)
          · exact Or.inr (Or.inl h)
          · exact Or.inl h
          · exact Or.inr (Or.inr h)
        · rintro (h | h | h)
          · exact Or.inr (Or.inl h)
          · exact Or.inl h
          · exact Or.inr (Or.inr h)

theorem gp_mem_squashB_iff (i : Var) (k : Key) : i ∈ squashB k ↔ i ∈ k := by
  induction k with
  | nil => simp [squashB]
  | cons a k ih =>
    show i ∈ insertU a (squashB k) ↔ _
    rw [gp_mem_insertU_iff, ih]; simp

/-- every vertex label has at most `degree` endpoint occurrences -/
theorem gp_degOf_le_degree (p : GP) (q : Var) : p.degOf q ≤ p.degree := by
  by_cases hq : q ∈ p.input.flatMap (fun e => [e.1.1, e.1.2])
  · have hv : q ∈ p.vertexSet := (gp_mem_squashB_iff q _).mpr hq
    exact (gp_le_foldl_max (p.vertexSet.map p.degOf) 0).2 _ (List.mem_map_of_mem hv)
  · have : p.degOf q = 0 := by
      simp only [GP.degOf, List.length_eq_zero_iff, List.filter_eq_nil_iff, beq_iff_eq]
      exact fun a ha h => hq (h ▸ ha)
    omega

/-- the number of edges from `i` to `+1` vertices is at most the maximal degree -/
theorem gp_same_le_degree {p : GP} (hwf : p.WF) (z : Var → Rat) {i : Nat} (hi : i < p.numVars) :
    (p.edges.filter (gpSame p.order z i)).length ≤ p.degree := by
  have hi' : i < p.order.length := hi
  refine le_trans ?_ (gp_degOf_le_degree p (p.order[i]))
  refine le_trans (gp_filter_length_mono p.edges _ (fun e => e.1.1 == p.order[i] || e.1.2 == p.order[i]) ?_) ?_
  · intro e he hs
    simp only [GP.edges, List.mem_filter] at he
    obtain ⟨h1, h2⟩ := hwf.2 e he.1
    have g1 := gp_idxD_get h1
    have g2 := gp_idxD_get h2
    simp only [gpSame, Bool.or_eq_true, Bool.and_eq_true, beq_iff_eq] at hs ⊢
    rcases hs with ⟨ha, _⟩ | ⟨hb, _⟩
    · left; rw [ha, List.getElem?_eq_getElem hi'] at g1; exact (Option.some.inj g1).symm
    · right; rw [hb, List.getElem?_eq_getElem hi'] at g2; exact (Option.some.inj g2).symm
  · refine le_trans ?_ (gp_incident_le_count p.input (p.order[i]))
    simp only [GP.edges, List.filter_filter]
    exact gp_filter_length_mono _ _ _ (fun a _ h => by simp only [Bool.and_eq_true] at h; exact h.1)

/-- the flip bound for the threshold `B·degree/4` -/
theorem gp_flipOK_deg {p : GP} (hwf : p.WF) (hu : p.UnitWeights) {B : Rat} (hB : 0 ≤ B) :
    p.FlipOK B (B * (p.degree : Rat) / 4) := by
  intro z hz i hi hzi hs
  have h1 := gp_cutCost_flip_le hwf hu hB hz hzi
  have h2 : ((p.edges.filter (gpSame p.order z i)).length : Rat) ≤ (p.degree : Rat) := by
    exact_mod_cast gp_same_le_degree hwf z hi
  have hd : (0 : Rat) ≤ (p.degree : Rat) := Nat.cast_nonneg _
  have h3 := mul_le_mul_of_nonneg_left h2 hB
  have h4 : 0 ≤ B * (p.degree : Rat) * (sumTo z p.numVars - 2) :=
    mul_nonneg (mul_nonneg hB hd) (by linarith)
  nlinarith

/-- **(G) for the degree threshold** (no assumption on repeated edges): with `A > B·degree/4`, unit weights and an
even number of vertices, every ground state of the QUSO energy is balanced, its energy is `B ·` (cut weight), and
no balanced state has a lighter cut. -/
theorem gp_ground_states_deg_partial {p : GP} (hwf : p.WF) (hu : p.UnitWeights) {A B : Rat} (hB : 0 ≤ B)
    (hA : B * (p.degree : Rat) / 4 < A) {h : Nat} (hN : p.numVars = 2 * h) {z : Var → Rat} (hz : IsSpin z)
    (hmin : ∀ z'' : Var → Rat, IsSpin z'' → p.energy A B z ≤ p.energy A B z'') :
    p.Balanced z ∧ p.energy A B z = p.cutCost B z ∧
      ∀ y : Var → Rat, IsSpin y → p.Balanced y → p.cutCost B z ≤ p.cutCost B y :=
  gp_ground_of_flipOK (gp_flipOK_deg hwf hu hB) hA hN hz hmin

/-- **(DEF) for the degree threshold**: with `A ≥ B·degree/4` every optimal balanced state is a ground state. -/
theorem gp_default_deg_partial {p : GP} (hwf : p.WF) (hu : p.UnitWeights) {A B : Rat} (hB : 0 ≤ B)
    (hA : B * (p.degree : Rat) / 4 ≤ A) {h : Nat} (hN : p.numVars = 2 * h) {y : Var → Rat}
    (hyb : p.Balanced y)
    (hopt : ∀ y' : Var → Rat, IsSpin y' → p.Balanced y' → p.cutCost B y ≤ p.cutCost B y') :
    (∀ z : Var → Rat, IsSpin z → p.energy A B y ≤ p.energy A B z) ∧ p.energy A B y = p.cutCost B y :=
  gp_default_of_flipOK (gp_flipOK_deg hwf hu hB) hA hN hyb hopt

end Qv.Prob
