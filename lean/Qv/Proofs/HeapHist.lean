import Qv.Model.HeapHist
import Qv.Proofs.HeapArith
/-!
# Qv.Proofs.HeapHist — every history keeps the heap closed and the environment valid

So the hypothesis `Closed h` of the aliasing theorems holds in every state a history of API calls can reach from the
empty heap.
-/
namespace Qv.Hp
open Qv

/-- the state invariant -/
def HState.OK (s : HState) : Prop := Closed s.heap ∧ ∀ r ∈ s.env, r < s.heap.length

theorem HState.OK.init : ({} : HState).OK := ⟨Closed.nil, by intro r hr; simp at hr⟩

theorem pushRes_ok {s s' : HState} {w : List Nat} {res : Option (Heap × Nat)} (hs : s.OK)
    (hf : ∀ h' r, res = some (h', r) → FreshResult 0 s.heap h' r) (he : pushRes s res = some (s', w)) : s'.OK := by
  cases res with
  | none => simp [pushRes] at he
  | some p =>
    obtain ⟨h', r⟩ := p
    simp only [pushRes, Option.some.injEq, Prod.mk.injEq] at he
    obtain ⟨rfl, _⟩ := he
    have f := hf h' r rfl
    refine ⟨hs.1.fresh f.1, ?_⟩
    intro x hx
    simp only [List.mem_append, List.mem_singleton] at hx
    rcases hx with hx | rfl
    · have := hs.2 x hx
      have := f.len
      simp only at *
      omega
    · exact f.2.2

theorem FreshResult.zero {n : Nat} {h h' : Heap} {r : Nat} (f : FreshResult n h h' r) : FreshResult 0 h h' r :=
  ⟨f.1.mono (Nat.zero_le _), f.2⟩

theorem inPlace_ok {s s' : HState} {w w' T : List Nat} {res : Option Heap} (hs : s.OK)
    (hg : ∀ h', res = some h' → Good 0 T s.heap h') (he : inPlace s w res = some (s', w')) : s'.OK := by
  cases res with
  | none => simp [inPlace] at he
  | some h' =>
    simp only [inPlace, Option.some.injEq, Prod.mk.injEq] at he
    obtain ⟨rfl, _⟩ := he
    have g := hg h' rfl
    exact ⟨g.closed hs.1, fun x hx => Nat.lt_of_lt_of_le (hs.2 x hx) g.len⟩

theorem follow_lt {h : Heap} (hc : Closed h) : ∀ (p : List Nat) (r q : Nat), r < h.length → follow h r p = some q →
    q < h.length
  | [], r, q, hr, he => by
    simp only [follow, Option.some.injEq] at he
    subst he; exact hr
  | k :: p, r, q, _, he => by
    simp only [follow] at he
    split at he
    · rename_i c hcell
      split at he
      · rename_i x hx
        have hmem : x ∈ c.refs := List.mem_of_getElem? hx
        exact follow_lt hc p x q (hc r c hcell x hmem) he
      · cases he
    · cases he

theorem applyUpd_closed {h h' : Heap} {o : Nat} {u : Upd} (hc : Closed h) (he : applyUpd h o u = some h') :
    Closed h' ∧ h'.length = h.length := by
  cases hcell : h[o]? with
  | none => simp [applyUpd, hcell] at he
  | some cell =>
    cases cell with
    | obj d m rm v c =>
      obtain ⟨_, hl, hcl, _⟩ := applyUpd_obj hcell he
      exact ⟨hcl hc, hl⟩
    | plain t =>
      obtain ⟨_, hl, hcl⟩ := applyUpd_plain hcell he
      exact ⟨hcl hc, hl⟩
    | _ => simp [applyUpd, hcell] at he

theorem stepH_ok (F : Ctor) {s s' : HState} {op : Op} {w : List Nat} (hs : s.OK) (he : stepH F s op = some (s', w)) :
    s'.OK := by
  cases op with
  | new κ =>
    simp only [stepH] at he
    split at he
    · refine pushRes_ok hs ?_ he
      intro h' r hr
      simp only [alloc, Option.some.injEq] at hr
      rw [Prod.ext_iff] at hr
      obtain ⟨rfl, rfl⟩ := hr
      have ha : FreshExt 0 s.heap (s.heap ++ [Cell.cdict []]) := FreshExt.alloc (by simp [Cell.refs])
      exact FreshResult.after ha (mkObj_fresh (n := 0) _ _ _ _ _ (Nat.zero_le _) (by
        intro r hr; simp only [Option.toList, List.mem_singleton] at hr; subst hr; simp))
    · refine pushRes_ok hs ?_ he
      intro h' r hr
      simp only [Option.some.injEq] at hr
      rw [Prod.ext_iff] at hr
      obtain ⟨rfl, rfl⟩ := hr
      exact mkObj_fresh (n := 0) _ _ _ _ _ (Nat.zero_le _) (by simp)
  | dict =>
    simp only [stepH] at he
    refine pushRes_ok hs ?_ he
    intro h' r hr
    simp only [alloc, Option.some.injEq, Prod.mk.injEq] at hr
    obtain ⟨rfl, rfl⟩ := hr
    exact ⟨FreshExt.alloc (by simp [Cell.refs]), Nat.le_refl _, by simp⟩
  | setitem i u =>
    simp only [stepH] at he
    split at he
    · cases he
    · rename_i o _
      cases hu : applyUpd s.heap o u with
      | none => simp [hu] at he
      | some h1 =>
        simp only [hu, Option.some.injEq, Prod.mk.injEq] at he
        obtain ⟨rfl, _⟩ := he
        obtain ⟨hc1, hl1⟩ := applyUpd_closed hs.1 hu
        exact ⟨hc1, fun r hr => by simp only [hl1]; exact hs.2 r hr⟩
  | copy i =>
    simp only [stepH] at he
    split at he
    · cases he
    · exact pushRes_ok hs (fun h' r hr => copyM_fresh F (Nat.zero_le _) hr) he
  | ctor κ i =>
    simp only [stepH] at he
    split at he
    · cases he
    · exact pushRes_ok hs (fun h' r hr => copyCtor_fresh F (Nat.zero_le _) hr) he
  | info i =>
    simp only [stepH] at he
    split at he
    · cases he
    · exact pushRes_ok hs (fun h' r hr => getInfoH_fresh F (Nat.zero_le _) hr) he
  | fromInfo i =>
    simp only [stepH] at he
    split at he
    · cases he
    · exact pushRes_ok hs (fun h' r hr => createFromInfoH_fresh F (Nat.zero_le _) hr) he
  | roundTrip i =>
    simp only [stepH] at he
    split at he
    · cases he
    · exact pushRes_ok hs (fun h' r hr => roundTrip_fresh F (Nat.zero_le _) hr) he
  | get g i =>
    simp only [stepH] at he
    split at he
    · cases he
    · refine pushRes_ok hs ?_ he
      intro h' r hr
      cases g with
      | mapping => exact getMapping_fresh (Nat.zero_le _) hr
      | rmapping => exact getRMapping_fresh (Nat.zero_le _) hr
      | variables => exact getVariables_fresh (Nat.zero_le _) hr
      | constraints => exact getConstraints_fresh F (Nat.zero_le _) hr
  | addc recv rel arg pen =>
    simp only [stepH] at he
    split at he
    · rename_i r a _ _
      cases ha : addConstraint F s.heap r rel a pen with
      | none => simp [ha] at he
      | some h1 =>
        simp only [ha, Option.some.injEq, Prod.mk.injEq] at he
        obtain ⟨rfl, _⟩ := he
        obtain ⟨hf, hc1⟩ := addConstraint_frame F hs.1 ha
        exact ⟨hc1, fun x hx => Nat.lt_of_lt_of_le (hs.2 x hx) hf.1⟩
    · cases he
  | update recv arg u =>
    simp only [stepH] at he
    split at he
    · rename_i r a _ _
      cases ha : updateH s.heap r a u with
      | none => simp [ha] at he
      | some h1 =>
        simp only [ha, Option.some.injEq, Prod.mk.injEq] at he
        obtain ⟨rfl, _⟩ := he
        obtain ⟨hf, hc1⟩ := updateH_frame hs.1 ha
        exact ⟨hc1, fun x hx => Nat.lt_of_lt_of_le (hs.2 x hx) hf.1⟩
    · cases he
  | conv i κ pl =>
    simp only [stepH] at he
    split at he
    · cases he
    · exact pushRes_ok hs (fun h' r hr => convH_fresh (Nat.zero_le _) hr) he
  | solve i nres =>
    simp only [stepH] at he
    split at he
    · cases he
    · rename_i o _
      cases ha : solveH s.heap o nres with
      | none => simp [ha] at he
      | some p =>
        obtain ⟨h1, rs⟩ := p
        simp only [ha, Option.some.injEq, Prod.mk.injEq] at he
        obtain ⟨rfl, _⟩ := he
        obtain ⟨hf, hc1⟩ := solveH_frame hs.1 ha
        exact ⟨hc1, fun x hx => Nat.lt_of_lt_of_le (hs.2 x hx) hf.1⟩
  | anneal i init κ pl nres =>
    simp only [stepH] at he
    split at he
    · cases he
    · rename_i o _
      split at he
      · cases he
      · rename_i ini _
        cases ha : annealH s.heap o ini κ pl nres with
        | none => simp [ha] at he
        | some p =>
          obtain ⟨h1, r⟩ := p
          simp only [ha, Option.some.injEq, Prod.mk.injEq] at he
          obtain ⟨rfl, _⟩ := he
          have f := annealH_fresh (n := 0) (Nat.zero_le _) ha
          exact ⟨hs.1.fresh f.1, fun x hx => Nat.lt_of_lt_of_le (hs.2 x hx) f.len⟩
  | client i =>
    simp only [stepH] at he
    split at he
    · cases he
    · simp only [Option.some.injEq, Prod.mk.injEq] at he
      obtain ⟨rfl, _⟩ := he
      exact hs
  | sub i path =>
    simp only [stepH] at he
    split at he
    · cases he
    · rename_i o ho
      split at he
      · cases he
      · rename_i q hq
        simp only [Option.some.injEq, Prod.mk.injEq] at he
        obtain ⟨rfl, _⟩ := he
        refine ⟨hs.1, ?_⟩
        intro x hx
        simp only [List.mem_append, List.mem_singleton] at hx
        rcases hx with hx | rfl
        · exact hs.2 x hx
        · exact follow_lt hs.1 path o _ (hs.2 o (List.mem_of_getElem? ho)) hq
  | set =>
    simp only [stepH] at he
    refine pushRes_ok hs ?_ he
    intro h' r hr
    simp only [alloc, Option.some.injEq, Prod.mk.injEq] at hr
    obtain ⟨rfl, rfl⟩ := hr
    exact ⟨FreshExt.alloc (by simp [Cell.refs]), Nat.le_refl _, by simp⟩
  | iupd recv other u =>
    simp only [stepH] at he
    split at he
    · exact inPlace_ok hs (fun h' hr => iupdH_good hr) he
    · cases he
  | imulDict recv other u =>
    simp only [stepH] at he
    split at he
    · exact inPlace_ok hs (fun h' hr => imulDictH_good (Nat.zero_le _) hr) he
    · cases he
  | ipow recv us =>
    simp only [stepH] at he
    split at he
    · cases he
    · exact inPlace_ok hs (fun h' hr => ipowH_good F (Nat.zero_le _) hr) he
  | clear recv =>
    simp only [stepH] at he
    split at he
    · cases he
    · exact inPlace_ok hs (fun h' hr => clearH_good (Nat.zero_le _) hr) he
  | refresh recv =>
    simp only [stepH] at he
    split at he
    · cases he
    · exact inPlace_ok hs (fun h' hr => refreshH_good F (Nat.zero_le _) hr) he
  | binop a other u =>
    simp only [stepH] at he
    split at he
    · exact pushRes_ok hs (fun h' r hr => (binopH_fresh F hs.1 hr).zero) he
    · cases he
  | rsub a other u1 u2 =>
    simp only [stepH] at he
    split at he
    · exact pushRes_ok hs (fun h' r hr => (rsubH_fresh F hs.1 hr).zero) he
    · cases he
  | mulDict a b u =>
    simp only [stepH] at he
    split at he
    · exact pushRes_ok hs (fun h' r hr => (mulDictH_fresh F hs.1 hr).zero) he
    · cases he
  | pow a us =>
    simp only [stepH] at he
    split at he
    · cases he
    · exact pushRes_ok hs (fun h' r hr => (powH_fresh F hs.1 hr).zero) he
  | rebuild a pl =>
    simp only [stepH] at he
    split at he
    · cases he
    · exact pushRes_ok hs (fun h' r hr => rebuildH_fresh F (Nat.zero_le _) hr) he
  | newLike a extras pl =>
    simp only [stepH] at he
    split at he
    · exact pushRes_ok hs (fun h' r hr => newLikeH_fresh (Nat.zero_le _) hr) he
    · cases he
  | readOnly args res =>
    simp only [stepH] at he
    split at he
    · cases he
    · rename_i l _
      cases hr : readOnlyH s.heap l (if res then 1 else 0) with
      | none => simp [hr] at he
      | some p =>
        obtain ⟨h1, rs⟩ := p
        simp only [hr, Option.some.injEq, Prod.mk.injEq] at he
        obtain ⟨rfl, _⟩ := he
        have f := readOnlyH_fresh (n := 0) hr
        refine ⟨hs.1.fresh f.1, ?_⟩
        intro x hx
        simp only [List.mem_append] at hx
        rcases hx with hx | hx
        · exact Nat.lt_of_lt_of_le (hs.2 x hx) f.1.len
        · exact (f.2 x hx).2
  | sat first others u =>
    simp only [stepH] at he
    split at he
    · exact pushRes_ok hs (fun h' r hr => (satH_fresh F hs.1 hr).zero) he
    · cases he

/-- run a history, dropping the footprints; `none` if some call is outside the modelled domain -/
def runH (F : Ctor) : HState → List Op → Option HState
  | s, [] => some s
  | s, op :: t =>
    match stepH F s op with
    | none => none
    | some (s', _) => runH F s' t

theorem runH_ok (F : Ctor) : ∀ (ops : List Op) (s s' : HState), s.OK → runH F s ops = some s' → s'.OK
  | [], s, s', hs, he => by
    simp only [runH, Option.some.injEq] at he
    subst he; exact hs
  | op :: t, s, s', hs, he => by
    simp only [runH] at he
    cases hst : stepH F s op with
    | none => simp [hst] at he
    | some p =>
      obtain ⟨s1, w⟩ := p
      simp only [hst] at he
      exact runH_ok F t s1 s' (stepH_ok F hs hst) he

end Qv.Hp
