import Qv.Proofs.AnnealValue
/-!
# Bookkeeping invariant of the model objects the annealers read (`Qv.Anneal.Obj`)

Every object built from an empty one by `self[k] += v` (this is how `qubo_to_quso`, `pubo_to_puso`, `cls(d)`
build theirs) stores its terms canonically, reports every label of its terms in `variables`, and — for the
labelled types, with the repaired `BO.__setitem__` — has `mapping` a duplicate-free enumeration of exactly
the reported variables (the `Obj`-level form of C14's I0–I3).
-/
namespace Qv.Anneal
open Qv Qv.Kernel

theorem mem_addNew {l : List Var} {i j : Var} : j ∈ addNew l i ↔ j = i ∨ j ∈ l := by
  unfold addNew
  split
  · rename_i h
    have : i ∈ l := by simpa using h
    constructor
    · exact Or.inr
    · rintro (rfl | h') <;> assumption
  · simp [or_comm]

theorem nodup_addNew {l : List Var} (h : l.Nodup) (i : Var) : (addNew l i).Nodup := by
  unfold addNew
  split
  · exact h
  · rename_i hc
    have : i ∉ l := by simpa using hc
    exact List.nodup_append.mpr ⟨h, List.nodup_singleton i, by
      intro a ha b hb
      simp only [List.mem_singleton] at hb
      subst hb; intro e; subst e; exact this ha⟩

theorem mem_foldl_addNew : ∀ (k : Key) (l : List Var) (j : Var), j ∈ k.foldl addNew l ↔ j ∈ k ∨ j ∈ l
  | [], l, j => by simp
  | a :: k, l, j => by
    simp only [List.foldl_cons, mem_foldl_addNew k, mem_addNew, List.mem_cons]
    tauto

theorem nodup_foldl_addNew : ∀ (k : Key) (l : List Var), l.Nodup → (k.foldl addNew l).Nodup
  | [], _, h => h
  | a :: k, l, h => nodup_foldl_addNew k _ (nodup_addNew h a)

theorem mem_foldl_cond (c : Var → Bool) : ∀ (key : Key) (m : List Var) (j : Var),
    j ∈ key.foldl (fun m i => if c i = true then addNew m i else m) m ↔ j ∈ m ∨ (j ∈ key ∧ c j = true)
  | [], m, j => by simp
  | a :: key, m, j => by
    simp only [List.foldl_cons, mem_foldl_cond c key, List.mem_cons]
    by_cases ha : c a = true
    · simp only [ha, if_true, mem_addNew]
      constructor
      · rintro ((rfl | h) | h)
        · exact Or.inr ⟨Or.inl rfl, ha⟩
        · exact Or.inl h
        · exact Or.inr ⟨Or.inr h.1, h.2⟩
      · rintro (h | ⟨rfl | h, hc⟩)
        · exact Or.inl (Or.inr h)
        · exact Or.inl (Or.inl rfl)
        · exact Or.inr ⟨h, hc⟩
    · simp only [ha, if_false]
      constructor
      · rintro (h | h)
        · exact Or.inl h
        · exact Or.inr ⟨Or.inr h.1, h.2⟩
      · rintro (h | ⟨rfl | h, hc⟩)
        · exact Or.inl h
        · exact absurd hc ha
        · exact Or.inr ⟨h, hc⟩

theorem nodup_foldl_cond (c : Var → Bool) : ∀ (key : Key) (m : List Var), m.Nodup →
    (key.foldl (fun m i => if c i = true then addNew m i else m) m).Nodup
  | [], _, h => h
  | a :: key, m, h => by
    simp only [List.foldl_cons]
    apply nodup_foldl_cond c key
    split
    · exact nodup_addNew h a
    · exact h

theorem mem_insertU {a i : Var} : ∀ {l : Key}, i ∈ insertU a l → i = a ∨ i ∈ l
  | [], h => by simp [insertU] at h; exact Or.inl h
  | b :: bs, h => by
    unfold insertU at h
    split at h
    · simpa using h
    · split at h
      · exact Or.inr h
      · rcases List.mem_cons.mp h with rfl | h
        · exact Or.inr List.mem_cons_self
        · rcases mem_insertU h with e | h
          · exact Or.inl e
          · exact Or.inr (List.mem_cons_of_mem _ h)

theorem mem_toggleU {a i : Var} : ∀ {l : Key}, i ∈ toggleU a l → i = a ∨ i ∈ l
  | [], h => by simp [toggleU] at h; exact Or.inl h
  | b :: bs, h => by
    unfold toggleU at h
    split at h
    · simpa using h
    · split at h
      · exact Or.inr (List.mem_cons_of_mem _ h)
      · rcases List.mem_cons.mp h with rfl | h
        · exact Or.inr List.mem_cons_self
        · rcases mem_toggleU h with e | h
          · exact Or.inl e
          · exact Or.inr (List.mem_cons_of_mem _ h)

theorem mem_squashB {i : Var} : ∀ {k : Key}, i ∈ squashB k → i ∈ k
  | [], h => by simp [squashB] at h
  | a :: k, h => by
    have h' : i ∈ insertU a (squashB k) := h
    rcases mem_insertU h' with rfl | h'
    · exact List.mem_cons_self
    · exact List.mem_cons_of_mem _ (mem_squashB h')

theorem mem_squashS {i : Var} : ∀ {k : Key}, i ∈ squashS k → i ∈ k
  | [], h => by simp [squashS] at h
  | a :: k, h => by
    have h' : i ∈ toggleU a (squashS k) := h
    rcases mem_toggleU h' with rfl | h'
    · exact List.mem_cons_self
    · exact List.mem_cons_of_mem _ (mem_squashS h')

theorem squash_sub {κ : Kind} {key k : Key} (h : squash κ key = .ok k) : ∀ i ∈ k, i ∈ key := by
  intro i hi
  rcases squash_ok_cases h with ⟨_, rfl⟩ | ⟨_, _, rfl⟩ | ⟨_, _, rfl⟩
  · exact hi
  · exact mem_squashS hi
  · exact mem_squashB hi

/-- the `Obj`-level bookkeeping invariant -/
structure ObjInv (o : Obj) : Prop where
  wf : WF (squash o.kind) o.terms
  tv : ∀ kv ∈ o.terms, ∀ i ∈ kv.1, i ∈ o.vars
  vnd : o.vars.Nodup
  mnd : o.mapping.Nodup
  mv : isLabelled o.kind = true → ∀ i, i ∈ o.mapping ↔ i ∈ o.vars

theorem objInv_empty (κ : Kind) : ObjInv { kind := κ } :=
  ⟨wf_nil _, (by intro kv hkv; cases hkv), List.nodup_nil, List.nodup_nil, (by intro _ i; simp)⟩

theorem iadd_inv {o o' : Obj} {key : Key} {v : Rat} (hI : ObjInv o) (h : o.iadd key v = .ok o') :
    ObjInv o' ∧ o'.kind = o.kind ∧ addTerm (squash o.kind) o.terms key v = .ok o'.terms := by
  unfold Obj.iadd Obj.getItem Obj.setItem at h
  simp only [bind_ok_iff, pure, Except.pure] at h
  obtain ⟨x, ⟨k, hk, hx⟩, k2, hk2, h⟩ := h
  rw [hk] at hk2; injection hk2 with hk2; subst hk2
  injection hx with hx; subst hx
  injection h with h; subst h
  have hadd : addTerm (squash o.kind) o.terms key v = .ok (set o.terms k (get o.terms k + v)) := by
    simp [addTerm, hk, bind, Except.bind, pure, Except.pure]
  refine ⟨⟨wf_addTerm (squash_idem _) hI.wf hadd, ?_, ?_, ?_, ?_⟩, rfl, hadd⟩
  · -- labels of the stored terms are reported variables
    intro kv hkv i hi
    simp only at hkv ⊢
    unfold set at hkv
    split at hkv
    · rename_i hz
      simp only [hz, ne_eq, not_true_eq_false, if_false]
      exact hI.tv kv (mem_erase_sub _ _ _ hkv) i hi
    · rename_i hz
      simp only [ne_eq, hz, not_false_eq_true, if_true]
      rw [mem_foldl_addNew]
      rcases mem_put _ _ _ _ hkv with e | hm
      · rw [e] at hi; exact Or.inl hi
      · exact Or.inr (hI.tv kv hm i hi)
  · simp only
    split
    · exact nodup_foldl_addNew _ _ hI.vnd
    · exact hI.vnd
  · simp only
    split
    · exact nodup_foldl_cond _ _ _ hI.mnd
    · exact hI.mnd
  · intro hl i
    have hmv := hI.mv hl
    simp only [hl, if_true]
    rw [mem_foldl_cond]
    simp only [List.contains_iff_mem] at *
    by_cases hz : get o.terms k + v = 0
    · simp only [hz, ne_eq, not_true_eq_false, if_false]
      constructor
      · rintro (h | ⟨_, h⟩)
        · exact (hmv i).mp h
        · exact h
      · intro h; exact Or.inl ((hmv i).mpr h)
    · simp only [ne_eq, hz, not_false_eq_true, if_true, mem_foldl_addNew]
      constructor
      · rintro (h | ⟨_, h⟩)
        · exact Or.inr ((hmv i).mp h)
        · exact h
      · rintro (h | h)
        · exact Or.inr ⟨squash_sub hk i h, Or.inl h⟩
        · exact Or.inl ((hmv i).mpr h)

/-- for a labelled object satisfying the invariant, `mapping` enumerates the variables:
`len(mapping) = num_binary_variables` -/
theorem ObjInv.map_len {o : Obj} (h : ObjInv o) (hl : isLabelled o.kind = true) :
    o.mapping.length = o.vars.length :=
  ((List.perm_ext_iff_of_nodup h.mnd h.vnd).mpr (h.mv hl)).length_eq

theorem ObjInv.canonical {o : Obj} (h : ObjInv o) (hκ : o.kind ≠ .dict) :
    (keys o.terms).Nodup ∧ ∀ kv ∈ o.terms, SSorted kv.1 ∧ (o.kind.isDeg2 = true → kv.1.length ≤ 2) := by
  refine ⟨h.wf.nodup, ?_⟩
  intro kv hkv
  have hfix := h.wf.fixed kv.1 (by simp only [keys]; exact List.mem_map_of_mem hkv)
  rcases squash_canon hfix with hd | hc
  · exact absurd hd hκ
  · exact hc

end Qv.Anneal
