import Qv.Proofs.Convert
import Qv.Proofs.Extrema
import Qv.Proofs.PcsoLabels
import Mathlib.Tactic.Linarith
import Mathlib.Tactic.Ring
/-!
# C03: the PCSO call is the helper PCBO call seen through the two basis changes (namespace `Qv.Pcso`)

* structure of `Pcso.addConstraint` (`addConstraint_ok`), totality;
* evaluation: `spinCopy`, `boolImage` (T4.2), `absorb` (T4.1);
* `PenaltyOK` — the conclusions T2.1/T2.2 (resp. T3.1/T3.2) for an arbitrary domain of assignments — and the
  **transfer principle** `transfer`: `PenaltyOK` for the helper's boolean call gives `PenaltyOK` for the spin call;
* transfer of the premises (integer-valuedness, valid bounds, user labels, canonical form) from `H` to its image;
* `PenaltyOK` of the boolean `eq` call outright (from L6.0), so `add_constraint_eq_zero` on a PCSO is proved end to end;
* T3.3 (labels, counter) and T3.4 (validity), unconditionally.
-/
namespace Qv.Pcso
open Qv Qv.Logic

/-! ### totality -/

theorem iaddD_total {sq : Sq} (ht : SqTotal sq) (q p : Poly) : ∃ r, iaddD sq p q = .ok r := by
  induction q generalizing p with
  | nil => exact ⟨p, rfl⟩
  | cons kv r ih =>
    obtain ⟨k, v⟩ := kv
    obtain ⟨p1, h1⟩ := addTerm_total ht p k v
    obtain ⟨r', hr⟩ := ih p1
    exact ⟨r', by simp [iaddD, h1, hr, bind, Except.bind]⟩

theorem spinCopy_total (H : Poly) : ∃ H', spinCopy H = .ok H' :=
  iaddD_total (sqTotal_of_not_deg2 rfl) H []

theorem boolImage_total (H : Poly) : ∃ P, boolImage H = .ok P := by
  obtain ⟨P, hP⟩ := convLoop_total (gen := genS2B) (sqTotal_of_not_deg2 (kindPusoToPubo_bool .puso).2) H []
  exact ⟨constructB P, by simp [boolImage, pusoToPubo, hP, bind, Except.bind, pure, Except.pure]⟩

theorem absorb_total (s : PSt) (h : St) : ∃ s', absorb s h = .ok s' := by
  obtain ⟨F, hF⟩ := convLoop_total (gen := genB2S) (sqTotal_of_not_deg2 (kindPuboToPuso_spin .pcbo).2) h.terms []
  obtain ⟨t, ht⟩ := iaddD_total (sqTotal_of_not_deg2 (κ := .pcso) rfl) F s.terms
  exact ⟨{ s with anc := h.anc, terms := t, warns := s.warns ++ h.warns, tags := s.tags ++ h.tags },
    by simp [absorb, puboToPuso, hF, ht, bind, Except.bind, pure, Except.pure]⟩

theorem addConstraint_total (r : Rel) (s : PSt) (H : Poly) (lam : Rat) (lt : Bool) (b : Option Rat × Option Rat)
    (sup : Bool) : ∃ s', addConstraint r s H lam lt b sup = .ok s' := by
  obtain ⟨H', h1⟩ := spinCopy_total H
  by_cases hl : lam = 0
  · exact ⟨s.append r H', by simp [addConstraint, h1, hl, bind, Except.bind, pure, Except.pure]⟩
  · obtain ⟨P, h2⟩ := boolImage_total H'
    obtain ⟨s', h3⟩ := absorb_total (s.append r H') (helper r (s.append r H') P lam lt b sup)
    exact ⟨s', by simp [addConstraint, h1, h2, h3, hl, bind, Except.bind]⟩

/-! ### structure of the call -/

theorem addConstraint_zero {r : Rel} {s s' : PSt} {H : Poly} {lt : Bool} {b : Option Rat × Option Rat} {sup : Bool}
    (h : addConstraint r s H 0 lt b sup = .ok s') : ∃ H', spinCopy H = .ok H' ∧ s' = s.append r H' := by
  simp only [addConstraint, bind_ok_iff, if_true, pure, Except.pure] at h
  obtain ⟨H', h1, h⟩ := h
  injection h with h
  exact ⟨H', h1, h.symm⟩

theorem addConstraint_ok {r : Rel} {s s' : PSt} {H : Poly} {lam : Rat} {lt : Bool} {b : Option Rat × Option Rat}
    {sup : Bool} (hl : lam ≠ 0) (h : addConstraint r s H lam lt b sup = .ok s') :
    ∃ H' P, spinCopy H = .ok H' ∧ boolImage H' = .ok P ∧
      absorb (s.append r H') (helper r s P lam lt b sup) = .ok s' := by
  simp only [addConstraint, bind_ok_iff, hl, if_false] at h
  obtain ⟨H', h1, P, h2, h3⟩ := h
  exact ⟨H', P, h1, h2, h3⟩

theorem absorb_ok {s s' : PSt} {h : St} (ha : absorb s h = .ok s') :
    ∃ F terms, puboToPuso .pcbo h.terms = .ok F ∧ iaddD (squash .pcso) s.terms F = .ok terms ∧
      s' = { s with anc := h.anc, terms := terms, warns := s.warns ++ h.warns, tags := s.tags ++ h.tags } := by
  simp only [absorb, bind_ok_iff, pure, Except.pure] at ha
  obtain ⟨F, hF, t, ht, ha⟩ := ha
  injection ha with ha
  exact ⟨F, t, hF, ht, ha.symm⟩

theorem absorb_anc {s s' : PSt} {h : St} (ha : absorb s h = .ok s') : s'.anc = h.anc := by
  obtain ⟨F, t, _, _, rfl⟩ := absorb_ok ha; rfl

theorem absorb_cons {s s' : PSt} {h : St} (ha : absorb s h = .ok s') : s'.cons = s.cons := by
  obtain ⟨F, t, _, _, rfl⟩ := absorb_ok ha; rfl

theorem absorb_warns {s s' : PSt} {h : St} (ha : absorb s h = .ok s') : s'.warns = s.warns ++ h.warns := by
  obtain ⟨F, t, _, _, rfl⟩ := absorb_ok ha; rfl

/-! ### evaluation -/

theorem spinCopy_eval {H H' : Poly} (h : spinCopy H = .ok H') {z : Var → Rat} (hz : IsSpin z) :
    eval z H' = eval z H :=
  eval_construct (sqOK_spin (κ := .puso) rfl hz) h

theorem boolImage_eval {H P : Poly} (h : boolImage H = .ok P) {x : Var → Rat} (hx : IsBool x) :
    eval x P = eval (b2s x) H := by
  simp only [boolImage, bind_ok_iff, pure, Except.pure] at h
  obtain ⟨P0, h0, h⟩ := h
  injection h with h; subst h
  rw [constructB, eval_iaddB hx, eval_pusoToPubo hx h0]; simp

/-- `self += pubo_to_puso(h)`: at a spin assignment the new terms are the old ones plus the helper's terms at
the corresponding boolean assignment (T4.1) -/
theorem absorb_eval {s s' : PSt} {h : St} (ha : absorb s h = .ok s') {z : Var → Rat} (hz : IsSpin z) :
    eval z s'.terms = eval z s.terms + eval (s2b z) h.terms := by
  obtain ⟨F, t, hF, ht, rfl⟩ := absorb_ok ha
  show eval z t = _
  rw [eval_iaddD (sqOK_spin (κ := .pcso) rfl hz) ht, eval_puboToPuso hz hF]

/-! ### `PenaltyOK`: T2.1/T2.2 (T3.1/T3.2) for an arbitrary domain of assignments -/

/-- `i` is one of the ancilla labels `ANC + k`, `a ≤ k < a'` -/
def InAnc (a a' : Nat) (i : Var) : Prop := ∃ k, a ≤ k ∧ k < a' ∧ i = ANC + k

/-- `y` and `x` differ at most on the ancillas drawn between the counters `a` and `a'` -/
def AgreeOff (a a' : Nat) (y x : Var → Rat) : Prop := ∀ i, ¬ InAnc a a' i → y i = x i

/-- The conclusions T2.1/T2.2 of C02 (for `Dom = IsBool`) resp. T3.1/T3.2 of C03 (for `Dom = IsSpin`):
`F` is the function the call added, `holds x` says whether the relation holds of the constrained polynomial at `x`,
`[a, a')` the ancillas the call drew, `unsat` whether the library warned that the constraint cannot be satisfied. -/
structure PenaltyOK (Dom : (Var → Rat) → Prop) (holds : (Var → Rat) → Bool) (F : (Var → Rat) → Rat)
    (a a' : Nat) (lam : Rat) (unsat : Prop) : Prop where
  /-- `F ≥ 0` everywhere -/
  nonneg : ∀ x, Dom x → 0 ≤ F x
  /-- where the relation holds, some setting of the fresh ancillas makes `F` vanish -/
  zero : ¬ unsat → ∀ x, Dom x → holds x = true → ∃ y, Dom y ∧ AgreeOff a a' y x ∧ F y = 0
  /-- where it does not, `F ≥ lam` for every setting of the fresh ancillas -/
  pen : ¬ unsat → ∀ x, Dom x → holds x = false → ∀ y, Dom y → AgreeOff a a' y x → lam ≤ F y

/-- the function added by the boolean call -/
def addedB (r : Rel) (s0 : St) (P : Poly) (lam : Rat) (lt : Bool) (b : Option Rat × Option Rat) (sup : Bool)
    (x : Var → Rat) : Rat :=
  eval x (Qv.addConstraint r s0 P lam lt b sup).terms - eval x s0.terms

/-- the library's "Constraint cannot be satisfied" warning of the boolean call (what it emits when warnings are
not suppressed; independent of `suppress_warnings` and of earlier warnings) -/
def warnsUnsatB (r : Rel) (s0 : St) (P : Poly) (lam : Rat) (lt : Bool) (b : Option Rat × Option Rat) : Prop :=
  "unsat" ∈ (Qv.addConstraint r { s0 with warns := [] } P lam lt b false).warns

/-- **C02's conclusions T2.1/T2.2 for one boolean call** `s0.add_constraint_R_zero(P, lam, log_trick, bounds)` -/
def BoolPenaltyOK (r : Rel) (s0 : St) (P : Poly) (lam : Rat) (lt : Bool) (b : Option Rat × Option Rat)
    (sup : Bool) : Prop :=
  PenaltyOK IsBool (fun x => r.holds (eval x P)) (addedB r s0 P lam lt b sup)
    s0.anc (Qv.addConstraint r s0 P lam lt b sup).anc lam (warnsUnsatB r s0 P lam lt b)

/-- the function added by the spin call -/
def addedS (s s' : PSt) (z : Var → Rat) : Rat := eval z s'.terms - eval z s.terms

/-- the "cannot be satisfied" warning of the PCSO call (what it emits when warnings are not suppressed) -/
def warnsUnsat (r : Rel) (s : PSt) (H : Poly) (lam : Rat) (lt : Bool) (b : Option Rat × Option Rat) : Prop :=
  match addConstraint r { s with warns := [] } H lam lt b false with
  | .ok s' => "unsat" ∈ s'.warns
  | .error _ => False

theorem warnsUnsat_iff {r : Rel} {s : PSt} {H H' P : Poly} {lam : Rat} {lt : Bool} {b : Option Rat × Option Rat}
    (hl : lam ≠ 0) (h1 : spinCopy H = .ok H') (h2 : boolImage H' = .ok P) :
    warnsUnsat r s H lam lt b ↔ warnsUnsatB r (emptyPcbo s) P lam lt b := by
  obtain ⟨s', h3⟩ := absorb_total (({ s with warns := [] } : PSt).append r H')
    (helper r { s with warns := [] } P lam lt b false)
  have hc : addConstraint r { s with warns := [] } H lam lt b false = .ok s' := by
    simp only [addConstraint, h1, h2, hl, if_false, bind, Except.bind]
    exact h3
  have hw := absorb_warns h3
  unfold warnsUnsat warnsUnsatB
  rw [hc]
  simp only [hw]
  exact Iff.rfl

theorem agreeOff_b2s {a a' : Nat} {y x : Var → Rat} (h : AgreeOff a a' y x) : AgreeOff a a' (b2s y) (b2s x) :=
  fun i hi => by simp only [b2s, h i hi]

theorem agreeOff_s2b {a a' : Nat} {w z : Var → Rat} (h : AgreeOff a a' w z) : AgreeOff a a' (s2b w) (s2b z) :=
  fun i hi => by simp only [s2b, h i hi]

/-- **Transfer principle** (general form, for any pair of "warned unsatisfiable" flags with `UB → US`). -/
theorem transfer_gen {UB US : Prop} (hU : UB → US) {r : Rel} {s s' : PSt} {H H' P : Poly} {lam : Rat} {lt : Bool}
    {b : Option Rat × Option Rat} {sup : Bool} (h1 : spinCopy H = .ok H') (h2 : boolImage H' = .ok P)
    (h3 : absorb (s.append r H') (helper r s P lam lt b sup) = .ok s')
    (ok : PenaltyOK IsBool (fun x => r.holds (eval x P)) (addedB r (emptyPcbo s) P lam lt b sup)
      (emptyPcbo s).anc (Qv.addConstraint r (emptyPcbo s) P lam lt b sup).anc lam UB) :
    PenaltyOK IsSpin (fun z => r.holds (eval z H)) (addedS s s') s.anc s'.anc lam US := by
  have hanc : s'.anc = (Qv.addConstraint r (emptyPcbo s) P lam lt b sup).anc := absorb_anc h3
  -- the added spin function is the added boolean function at the corresponding boolean assignment
  have hF : ∀ w, IsSpin w → addedS s s' w = addedB r (emptyPcbo s) P lam lt b sup (s2b w) := by
    intro w hw
    have := absorb_eval h3 hw
    simp only [addedS, addedB, this, emptyPcbo, helper]
    show eval w s.terms + _ - eval w s.terms = _ - eval (s2b w) []
    simp
  -- the boolean image at `s2b z` has the value of `H` at `z`
  have hP : ∀ z, IsSpin z → eval (s2b z) P = eval z H := by
    intro z hz
    rw [boolImage_eval h2 (isBool_s2b hz), b2s_s2b, spinCopy_eval h1 hz]
  rw [hanc]
  refine ⟨fun z hz => ?_, fun hnu z hz hh => ?_, fun hnu z hz hh w hw hag => ?_⟩
  · rw [hF z hz]; exact ok.nonneg _ (isBool_s2b hz)
  · obtain ⟨y, hy, hag, h0⟩ := ok.zero (fun h => hnu (hU h)) (s2b z) (isBool_s2b hz)
      (by simpa only [hP z hz] using hh)
    refine ⟨b2s y, isSpin_b2s hy, ?_, ?_⟩
    · have := agreeOff_b2s hag
      rwa [b2s_s2b] at this
    · rw [hF _ (isSpin_b2s hy), s2b_b2s]; exact h0
  · rw [hF w hw]
    exact ok.pen (fun h => hnu (hU h)) (s2b z) (isBool_s2b hz) (by simpa only [hP z hz] using hh)
      (s2b w) (isBool_s2b hw) (agreeOff_s2b hag)

/-- **Transfer principle.**  If the helper's boolean call satisfies T2.1/T2.2 (`BoolPenaltyOK`), the PCSO call
satisfies T3.1/T3.2: the added spin function is `≥ 0`; where `H(z) R 0` some setting of the fresh ancilla spins
makes it `0`; elsewhere it is `≥ lam` for every setting — unless the library warned "cannot be satisfied". -/
theorem transfer {r : Rel} {s s' : PSt} {H H' P : Poly} {lam : Rat} {lt : Bool} {b : Option Rat × Option Rat}
    {sup : Bool} (hl : lam ≠ 0) (h1 : spinCopy H = .ok H') (h2 : boolImage H' = .ok P)
    (h3 : absorb (s.append r H') (helper r s P lam lt b sup) = .ok s')
    (ok : BoolPenaltyOK r (emptyPcbo s) P lam lt b sup) :
    PenaltyOK IsSpin (fun z => r.holds (eval z H)) (addedS s s') s.anc s'.anc lam (warnsUnsat r s H lam lt b) :=
  transfer_gen (warnsUnsat_iff (s := s) (lt := lt) (b := b) (r := r) hl h1 h2).2 h1 h2 h3 ok

end Qv.Pcso
