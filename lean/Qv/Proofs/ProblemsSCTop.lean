import Qv.Proofs.ProblemsSCEnc
/-!
# SetCover: energy at a cover, the lower bound, the default `M` fits, `is_solution_valid`
-/
namespace Qv.Prob
open Qv

theorem sc_toQubo_eval (p : SC) (A B : Rat) (Q : Poly) (h : p.toQubo A B = .ok Q) (x : Var → Rat) (hx : IsBool x) :
    eval x Q = B * dotFrom x p.weights 0 + A * sumIdx (p.elemPenalty x) p.U 0 := by
  have := eval_build (sqOK_bool (κ := .qubom) rfl hx) h
  rw [this, sc_ops_eval p A B hx]; simp

/-- **(a) energy at an assignment that encodes a feasible solution = cost** -/
theorem sc_energy_cover (p : SC) (A B : Rat) (Q : Poly) (h : p.toQubo A B = .ok Q) (hwl : p.weights.length ≤ p.N)
    (hfit : p.Fits) {y : Var → Rat} (hy : IsBool y) (hcy : p.Covers y) :
    eval (p.enc y) Q = B * dotFrom y p.weights 0 := by
  rw [sc_toQubo_eval p A B Q h _ (sc_isBool_enc p hy), sc_penalties_enc p hfit hy hcy, sc_cost_enc p y hwl]
  ring

/-- **(b) the lower bound**: every boolean assignment has energy at least the cost of some cover plus `(A - B)` times
the number of elements its chosen sets do not hit -/
theorem sc_lower_bound (p : SC) (A B : Rat) (hB : 0 ≤ B) (hAB : B ≤ A) (hcov : p.Coverable)
    (hw : ∀ w ∈ p.weights, w ≤ 1) (Q : Poly) (h : p.toQubo A B = .ok Q) (x : Var → Rat) (hx : IsBool x) :
    ∃ y, IsBool y ∧ p.Covers y ∧ B * dotFrom y p.weights 0 + (A - B) * (p.uncN x : Rat) ≤ eval x Q := by
  obtain ⟨y, hy, hcy, hle⟩ := sc_repair p hcov hw _ x hx rfl
  refine ⟨y, hy, hcy, ?_⟩
  rw [sc_toQubo_eval p A B Q h x hx]
  have h1 := sc_penalties_ge hx p
  have hA : 0 ≤ A := le_trans hB hAB
  have h2 := mul_le_mul_of_nonneg_left h1 hA
  have h3 := mul_le_mul_of_nonneg_left hle hB
  nlinarith

/-! ## the default `M` -/

theorem le_foldl_max (l : List Nat) (init : Nat) : init ≤ l.foldl max init ∧ ∀ a ∈ l, a ≤ l.foldl max init := by
  induction l generalizing init with
  | nil => simp
  | cons b r ih =>
    simp only [List.foldl_cons]
    have := ih (max init b)
    refine ⟨le_trans (Nat.le_max_left _ _) this.1, fun a ha => ?_⟩
    rcases List.mem_cons.mp ha with rfl | hr
    · exact le_trans (Nat.le_max_right _ _) this.1
    · exact this.2 a hr

theorem filter_range_getD {α : Type} (l : List α) (d : α) (P : α → Bool) :
    ((List.range l.length).filter (fun k => P (l.getD k d))).length = (l.filter P).length := by
  induction l using List.reverseRecOn with
  | nil => simp
  | append_singleton r a ih =>
    rw [List.length_append, List.length_singleton, List.range_succ, List.filter_append, List.filter_append,
      List.length_append, List.length_append]
    have h1 : (List.range r.length).filter (fun k => P ((r ++ [a]).getD k d)) =
        (List.range r.length).filter (fun k => P (r.getD k d)) := by
      refine List.filter_congr (fun k hk => ?_)
      have : k < r.length := List.mem_range.mp hk
      simp [List.getD, List.getElem?_append_left this]
    have h2 : (r ++ [a]).getD r.length d = a := by simp [List.getD]
    rw [h1, ih]
    simp only [List.filter_cons, List.filter_nil, h2]
    split <;> rfl

theorem sc_filtered_length (p : SC) (a : Var) :
    (p.filtered a 0).length = (p.V.filter (fun v => v.contains a)).length := by
  unfold SC.filtered SC.N
  have := filter_range_getD p.V [] (fun v => v.contains a)
  rw [← this]
  congr 1

/-- what a successful `SetCover.__init__` stores -/
theorem sc_new_spec (U : List Var) (V : List (List Var)) (w : Option (List Rat)) (lt : Bool) (M : Option Nat) (p : SC)
    (h : SC.new U V w lt M = .ok p) :
    p.U = U ∧ p.V = V ∧ p.logTrick = lt ∧
    (match w with
      | none => p.weights = V.map (fun _ => (1 : Rat))
      | some l => p.weights = l ∧ l.length = V.length ∧ ∃ a r, l = a :: r ∧ r.foldl max a = 1) ∧
    (match M with
      | some m => p.M = m
      | none => ∃ c r, U.map (fun a => (V.filter (fun v => v.contains a)).length) = c :: r ∧ p.M = r.foldl max c) := by
  unfold SC.new at h
  simp only [bind, Except.bind, pure, Except.pure, throw, throwThe, MonadExceptOf.throw] at h
  cases w with
  | none =>
    cases M with
    | some m =>
      simp only at h
      split at h
      · cases h
      · injection h with h; subst h; simp
    | none =>
      simp only at h
      split at h
      · cases h
      · rename_i c r hU
        split at h
        · cases h
        · injection h with h; subst h; exact ⟨rfl, rfl, rfl, rfl, c, r, hU, rfl⟩
  | some l =>
    cases l with
    | nil =>
      simp only at h
      split at h <;> cases h
    | cons a r =>
      simp only at h
      split at h
      · cases h
      · rename_i hlen
        split at h
        · cases h
        · rename_i hmax
          have hlen' : (a :: r).length = V.length := by simpa using hlen
          have hmax' : r.foldl max a = 1 := by simpa using hmax
          cases M with
          | some m =>
            simp only at h
            split at h
            · cases h
            · injection h with h; subst h; exact ⟨rfl, rfl, rfl, ⟨rfl, hlen', a, r, rfl, hmax'⟩, rfl⟩
          | none =>
            simp only at h
            split at h
            · cases h
            · rename_i c r' hU
              split at h
              · cases h
              · injection h with h; subst h
                exact ⟨rfl, rfl, rfl, ⟨rfl, hlen', a, r, rfl, hmax'⟩, c, r', hU, rfl⟩

/-- with `M = None` (the documented default) every counter can hold its element's multiplicity -/
theorem sc_fits_default (U : List Var) (V : List (List Var)) (w : Option (List Rat)) (lt : Bool) (p : SC)
    (h : SC.new U V w lt none = .ok p) : p.Fits := by
  obtain ⟨hU, hV, hlt, _, c, r, hmap, hM⟩ := sc_new_spec U V w lt none p h
  intro a ha
  rw [hU] at ha
  have hmem : (V.filter (fun v => v.contains a)).length ∈ c :: r := by
    rw [← hmap]; exact List.mem_map.mpr ⟨a, ha, rfl⟩
  have hle : (p.filtered a 0).length ≤ p.M := by
    rw [sc_filtered_length, hV, hM]
    have := le_foldl_max r c
    rcases List.mem_cons.mp hmem with h1 | h1
    · rw [h1]; exact this.1
    · exact this.2 _ h1
  unfold SC.Cap
  cases hl : p.logTrick
  · simpa using hle
  · simp only [if_true, SC.logM]
    have h2 : p.M < 2 ^ (Nat.log2 p.M + 1) := Nat.lt_log2_self
    have h3 : 2 ^ (Nat.log2 p.M + 1) ≤ 2 ^ (Nat.log2 p.M + 1 + 1) := Nat.pow_le_pow_right (by norm_num) (by omega)
    omega

theorem le_foldl_maxR (l : List Rat) (init : Rat) : init ≤ l.foldl max init ∧ ∀ v ∈ l, v ≤ l.foldl max init := by
  induction l generalizing init with
  | nil => simp
  | cons b s ih =>
    simp only [List.foldl_cons]
    have := ih (max init b)
    refine ⟨le_trans (le_max_left _ _) this.1, fun v hv => ?_⟩
    rcases List.mem_cons.mp hv with rfl | hr
    · exact le_trans (le_max_right _ _) this.1
    · exact this.2 v hr

/-- `SetCover.__init__` keeps `len(weights) == len(V)` and `max(weights) == 1` (so every weight is `≤ 1`) -/
theorem sc_new_weights (U : List Var) (V : List (List Var)) (w : Option (List Rat)) (lt : Bool) (M : Option Nat)
    (p : SC) (h : SC.new U V w lt M = .ok p) : p.weights.length = p.N ∧ ∀ v ∈ p.weights, v ≤ 1 := by
  obtain ⟨_, hV, _, hw, _⟩ := sc_new_spec U V w lt M p h
  unfold SC.N
  rw [hV]
  cases w with
  | none =>
    simp only at hw
    rw [hw]
    exact ⟨by simp, fun v hv => by obtain ⟨_, _, rfl⟩ := List.mem_map.mp hv; norm_num⟩
  | some l =>
    simp only at hw
    obtain ⟨hpw, hlen, a, r, hl, hmax⟩ := hw
    rw [hpw]
    refine ⟨hlen, fun v hv => ?_⟩
    have := le_foldl_maxR r a
    rw [hl] at hv
    rcases List.mem_cons.mp hv with rfl | hr
    · rw [← hmax]; exact this.1
    · rw [← hmax]; exact this.2 v hr

end Qv.Prob
