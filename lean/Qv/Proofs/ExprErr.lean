import Qv.Proofs.Expr
/-!
# Which exceptions `run` can raise, and where they come from (T5.5)

* the only source of `KeyError` is `squash` of a degree-2 type;
* the only source of `ValueError` is `**` with a non-positive exponent;
* the only source of `ZeroDivisionError` is `/ 0`;
* everything else is a `TypeError` of the operator dispatch.
-/
namespace Qv.ExprErr
open Qv

theorem bind_err_iff {α β : Type} {a : Except Err α} {f : α → Except Err β} {e : Err} :
    (a >>= f) = .error e ↔ a = .error e ∨ ∃ a', a = .ok a' ∧ f a' = .error e := by
  cases a with
  | error e' => simp [bind, Except.bind]
  | ok a' => simp [bind, Except.bind]

/-- every error of the key-squashing function satisfies `P` -/
def SqE (sq : Sq) (P : Err → Prop) : Prop := ∀ k e, sq k = .error e → P e

/-- "`e` is a `KeyError` and the flag `b` holds" -/
def KeyBy (b : Bool) (e : Err) : Prop := e = .key ∧ b = true

theorem squash_err (κ : Kind) : SqE (squash κ) (KeyBy κ.isDeg2) := by
  intro k e h
  unfold squash at h
  cases κ <;> simp [Kind.isSpin, Kind.isDeg2] at h <;>
    (split at h
     · injection h with h; exact ⟨h.symm, rfl⟩
     · cases h)

section dict
variable {sq : Sq} {P : Err → Prop} (hs : SqE sq P)
include hs

theorem addTerm_err {p : Poly} {k : Key} {v : Rat} {e : Err} (h : addTerm sq p k v = .error e) :
    P e := by
  simp only [addTerm, bind_err_iff, pure, Except.pure] at h
  rcases h with h | ⟨_, _, h⟩
  · exact hs k e h
  · cases h

theorem mulItem_err {p : Poly} {k : Key} {c : Rat} {e : Err} (h : mulItem sq p k c = .error e) :
    P e := by
  simp only [mulItem, bind_err_iff, pure, Except.pure] at h
  rcases h with h | ⟨_, _, h⟩
  · exact hs k e h
  · cases h

theorem iaddD_err {q p : Poly} {e : Err} (h : iaddD sq p q = .error e) : P e := by
  induction q generalizing p with
  | nil => cases h
  | cons kv r ih =>
    obtain ⟨k, v⟩ := kv
    simp only [iaddD, bind_err_iff] at h
    rcases h with h | ⟨p1, _, h⟩
    · exact addTerm_err hs h
    · exact ih h

theorem isubD_err {q p : Poly} {e : Err} (h : isubD sq p q = .error e) : P e := by
  induction q generalizing p with
  | nil => cases h
  | cons kv r ih =>
    obtain ⟨k, v⟩ := kv
    simp only [isubD, bind_err_iff] at h
    rcases h with h | ⟨p1, _, h⟩
    · exact addTerm_err hs h
    · exact ih h

theorem iaddC_err {p : Poly} {c : Rat} {e : Err} (h : iaddC sq p c = .error e) : P e :=
  addTerm_err hs h

theorem construct_err {d : Poly} {e : Err} (h : construct sq d = .error e) : P e :=
  iaddD_err hs h

theorem mulRow_err {q acc : Poly} {k : Key} {v : Rat} {e : Err}
    (h : mulRow sq acc k v q = .error e) : P e := by
  induction q generalizing acc with
  | nil => cases h
  | cons kv r ih =>
    obtain ⟨ko, vo⟩ := kv
    simp only [mulRow, bind_err_iff] at h
    rcases h with h | ⟨a1, _, h⟩
    · exact addTerm_err hs h
    · exact ih h

theorem mulRows_err {p q acc : Poly} {e : Err} (h : mulRows sq acc p q = .error e) : P e := by
  induction p generalizing acc with
  | nil => cases h
  | cons kv r ih =>
    obtain ⟨k, v⟩ := kv
    simp only [mulRows, bind_err_iff] at h
    rcases h with h | ⟨a1, _, h⟩
    · exact mulRow_err hs h
    · exact ih h

theorem imulD_err {p q : Poly} {e : Err} (h : imulD sq p q = .error e) : P e :=
  mulRows_err hs h

theorem scaleKeys_err {ks : List Key} {p : Poly} {c : Rat} {e : Err}
    (h : scaleKeys sq p ks c = .error e) : P e := by
  induction ks generalizing p with
  | nil => cases h
  | cons k r ih =>
    simp only [scaleKeys, bind_err_iff] at h
    rcases h with h | ⟨p1, _, h⟩
    · exact mulItem_err hs h
    · exact ih h

theorem imulC_err {p : Poly} {c : Rat} {e : Err} (h : imulC sq p c = .error e) : P e :=
  scaleKeys_err hs h

theorem powLoop_err {n : Nat} {p old : Poly} {e : Err} (h : powLoop sq p old n = .error e) :
    P e := by
  induction n generalizing p with
  | zero => cases h
  | succ n ih =>
    simp only [powLoop, bind_err_iff] at h
    rcases h with h | ⟨p1, _, h⟩
    · exact imulD_err hs h
    · exact ih h

/-- `**=` : `ValueError` exactly from the exponent guard, otherwise only errors of `sq` -/
theorem ipow_err {p : Poly} {n : Int} {e : Err} (h : ipow sq p n = .error e) :
    (e = .value ∧ n ≤ 0) ∨ P e := by
  unfold ipow at h
  split at h
  · rename_i hn
    injection h with h
    exact Or.inl ⟨h.symm, hn⟩
  · simp only [bind_err_iff] at h
    rcases h with h | ⟨old, _, h⟩
    · exact Or.inr (construct_err hs h)
    · exact Or.inr (powLoop_err hs h)

/-- `/=` : `ZeroDivisionError` exactly from `c = 0` on a non-empty dict, otherwise only errors of `sq` -/
theorem idivC_err {p : Poly} {c : Rat} {e : Err} (h : idivC sq p c = .error e) :
    (e = .zerodiv ∧ c = 0 ∧ p ≠ []) ∨ P e := by
  unfold idivC at h
  split at h
  · rename_i hc
    split at h
    · cases h
    · rename_i hp
      injection h with h
      refine Or.inl ⟨h.symm, hc, ?_⟩
      intro hnil; subst hnil; simp at hp
  · exact Or.inr (imulC_err hs h)

end dict

/-! ### values -/

/-- the value is a model whose type satisfies `f` -/
def Val.has (f : Kind → Bool) : Val → Bool
  | .mdl κ _ => f κ
  | _ => false

/-- the shape every model-returning operator has: copy the left operand, apply the in-place form -/
theorem mdlop_err {κ : Kind} {p : Poly} {F : Poly → Except Err Poly} {e : Err} {Q : Prop}
    (hc : KeyBy κ.isDeg2 e → Q) (hF : ∀ d, F d = .error e → Q)
    (h : (construct (squash κ) p >>= fun d => F d >>= fun r => pure (Val.mdl κ r)) = .error e) :
    Q := by
  simp only [bind_err_iff, pure, Except.pure] at h
  rcases h with h | ⟨d, _, h | ⟨r, _, h⟩⟩
  · exact hc (construct_err (squash_err κ) h)
  · exact hF d h
  · cases h

theorem mdlop_kind {κ : Kind} {p : Poly} {F : Poly → Except Err Poly} {v : Val}
    (h : (construct (squash κ) p >>= fun d => F d >>= fun r => pure (Val.mdl κ r)) = .ok v) :
    ∃ r, v = .mdl κ r := by
  simp only [bind_ok_iff, pure, Except.pure] at h
  obtain ⟨d, _, r, _, h⟩ := h
  injection h with h
  exact ⟨r, h.symm⟩

theorem mulModel_err {κ : Kind} {p : Poly} {b : Val} {e : Err} (h : mulModel κ p b = .error e) :
    KeyBy κ.isDeg2 e := by
  cases b with
  | num c => exact mdlop_err id (fun _ h' => imulC_err (squash_err κ) h') h
  | raw q => exact mdlop_err id (fun _ h' => imulD_err (squash_err κ) h') h
  | mdl κ2 q => exact mdlop_err id (fun _ h' => imulD_err (squash_err κ) h') h

theorem mulModel_kind {κ : Kind} {p : Poly} {b v : Val} (h : mulModel κ p b = .ok v) :
    ∃ r, v = .mdl κ r := by
  cases b with
  | num c => exact mdlop_kind h
  | raw q => exact mdlop_kind h
  | mdl κ2 q => exact mdlop_kind h

/-- errors of a binary operator: `TypeError`, or `KeyError` from a degree-2 model operand -/
def BinErr (a b : Val) (e : Err) : Prop :=
  e = .type ∨ (e = .key ∧ (Val.has Kind.isDeg2 a = true ∨ Val.has Kind.isDeg2 b = true))

theorem Val.add_err {a b : Val} {e : Err} (h : Val.add a b = .error e) : BinErr a b e := by
  cases a with
  | num c =>
    cases b with
    | num c2 => cases h
    | raw q => injection h with h; exact Or.inl h.symm
    | mdl κ p =>
      refine mdlop_err (fun hk => Or.inr ⟨hk.1, Or.inr hk.2⟩) (fun _ h' => ?_) h
      have hk := iaddC_err (squash_err κ) h'
      exact Or.inr ⟨hk.1, Or.inr hk.2⟩
  | raw q =>
    cases b with
    | num c2 => injection h with h; exact Or.inl h.symm
    | raw q2 => injection h with h; exact Or.inl h.symm
    | mdl κ p =>
      refine mdlop_err (fun hk => Or.inr ⟨hk.1, Or.inr hk.2⟩) (fun _ h' => ?_) h
      have hk := iaddD_err (squash_err κ) h'
      exact Or.inr ⟨hk.1, Or.inr hk.2⟩
  | mdl κ p =>
    cases b with
    | num c =>
      refine mdlop_err (fun hk => Or.inr ⟨hk.1, Or.inl hk.2⟩) (fun _ h' => ?_) h
      have hk := iaddC_err (squash_err κ) h'
      exact Or.inr ⟨hk.1, Or.inl hk.2⟩
    | raw q =>
      refine mdlop_err (fun hk => Or.inr ⟨hk.1, Or.inl hk.2⟩) (fun _ h' => ?_) h
      have hk := iaddD_err (squash_err κ) h'
      exact Or.inr ⟨hk.1, Or.inl hk.2⟩
    | mdl κ2 q =>
      refine mdlop_err (fun hk => Or.inr ⟨hk.1, Or.inl hk.2⟩) (fun _ h' => ?_) h
      have hk := iaddD_err (squash_err κ) h'
      exact Or.inr ⟨hk.1, Or.inl hk.2⟩

theorem Val.add_has (f : Kind → Bool) {a b v : Val} (h : Val.add a b = .ok v)
    (hv : Val.has f v = true) : Val.has f a = true ∨ Val.has f b = true := by
  cases a with
  | num c =>
    cases b with
    | num c2 => injection h with h; subst h; cases hv
    | raw q => cases h
    | mdl κ p => obtain ⟨r, rfl⟩ := mdlop_kind h; exact Or.inr hv
  | raw q =>
    cases b with
    | num c2 => cases h
    | raw q2 => cases h
    | mdl κ p => obtain ⟨r, rfl⟩ := mdlop_kind h; exact Or.inr hv
  | mdl κ p =>
    cases b with
    | num c => obtain ⟨r, rfl⟩ := mdlop_kind h; exact Or.inl hv
    | raw q => obtain ⟨r, rfl⟩ := mdlop_kind h; exact Or.inl hv
    | mdl κ2 q => obtain ⟨r, rfl⟩ := mdlop_kind h; exact Or.inl hv

theorem Val.mul_err {a b : Val} {e : Err} (h : Val.mul a b = .error e) : BinErr a b e := by
  cases a with
  | num c =>
    cases b with
    | num c2 => cases h
    | raw q => injection h with h; exact Or.inl h.symm
    | mdl κ p =>
      have hk := mulModel_err (b := .num c) h
      exact Or.inr ⟨hk.1, Or.inr hk.2⟩
  | raw q =>
    cases b with
    | num c2 => injection h with h; exact Or.inl h.symm
    | raw q2 => injection h with h; exact Or.inl h.symm
    | mdl κ p =>
      have hk := mulModel_err (b := .raw q) h
      exact Or.inr ⟨hk.1, Or.inr hk.2⟩
  | mdl κ p =>
    have hk := mulModel_err (b := b) h
    exact Or.inr ⟨hk.1, Or.inl hk.2⟩

theorem Val.mul_has (f : Kind → Bool) {a b v : Val} (h : Val.mul a b = .ok v)
    (hv : Val.has f v = true) : Val.has f a = true ∨ Val.has f b = true := by
  cases a with
  | num c =>
    cases b with
    | num c2 => injection h with h; subst h; cases hv
    | raw q => cases h
    | mdl κ p => obtain ⟨r, rfl⟩ := mulModel_kind (b := .num c) h; exact Or.inr hv
  | raw q =>
    cases b with
    | num c2 => cases h
    | raw q2 => cases h
    | mdl κ p => obtain ⟨r, rfl⟩ := mulModel_kind (b := .raw q) h; exact Or.inr hv
  | mdl κ p => obtain ⟨r, rfl⟩ := mulModel_kind (b := b) h; exact Or.inl hv

/-- reflected subtraction `-1*self + other` -/
theorem rsub_err {κ : Kind} {p : Poly} {o : Val} {e : Err}
    (h : (mulModel κ p (.num (-1)) >>= fun m => Val.add m o) = .error e) (ho : Val.has Kind.isDeg2 o = false) :
    e = .type ∨ KeyBy κ.isDeg2 e := by
  simp only [bind_err_iff] at h
  rcases h with h | ⟨m, hm, h⟩
  · exact Or.inr (mulModel_err h)
  · obtain ⟨r, rfl⟩ := mulModel_kind hm
    rcases Val.add_err h with h' | ⟨h1, h2 | h2⟩
    · exact Or.inl h'
    · exact Or.inr ⟨h1, h2⟩
    · rw [ho] at h2; cases h2

theorem rsub_kind {κ : Kind} {p : Poly} {o v : Val}
    (h : (mulModel κ p (.num (-1)) >>= fun m => Val.add m o) = .ok v) (ho : ∀ f, Val.has f o = false)
    (f : Kind → Bool) (hv : Val.has f v = true) : f κ = true := by
  simp only [bind_ok_iff] at h
  obtain ⟨m, hm, h⟩ := h
  obtain ⟨r, rfl⟩ := mulModel_kind hm
  rcases Val.add_has f h hv with h' | h'
  · exact h'
  · rw [ho f] at h'; cases h'

theorem Val.sub_err {a b : Val} {e : Err} (h : Val.sub a b = .error e) : BinErr a b e := by
  cases a with
  | num c =>
    cases b with
    | num c2 => cases h
    | raw q => injection h with h; exact Or.inl h.symm
    | mdl κ p =>
      rcases rsub_err (o := .num c) h rfl with h' | hk
      · exact Or.inl h'
      · exact Or.inr ⟨hk.1, Or.inr hk.2⟩
  | raw q =>
    cases b with
    | num c2 => injection h with h; exact Or.inl h.symm
    | raw q2 => injection h with h; exact Or.inl h.symm
    | mdl κ p =>
      rcases rsub_err (o := .raw q) h rfl with h' | hk
      · exact Or.inl h'
      · exact Or.inr ⟨hk.1, Or.inr hk.2⟩
  | mdl κ p =>
    cases b with
    | num c =>
      refine mdlop_err (fun hk => Or.inr ⟨hk.1, Or.inl hk.2⟩) (fun _ h' => ?_) h
      have hk := iaddC_err (squash_err κ) h'
      exact Or.inr ⟨hk.1, Or.inl hk.2⟩
    | raw q =>
      refine mdlop_err (fun hk => Or.inr ⟨hk.1, Or.inl hk.2⟩) (fun _ h' => ?_) h
      have hk := isubD_err (squash_err κ) h'
      exact Or.inr ⟨hk.1, Or.inl hk.2⟩
    | mdl κ2 q =>
      refine mdlop_err (fun hk => Or.inr ⟨hk.1, Or.inl hk.2⟩) (fun _ h' => ?_) h
      have hk := isubD_err (squash_err κ) h'
      exact Or.inr ⟨hk.1, Or.inl hk.2⟩

theorem Val.sub_has (f : Kind → Bool) {a b v : Val} (h : Val.sub a b = .ok v)
    (hv : Val.has f v = true) : Val.has f a = true ∨ Val.has f b = true := by
  cases a with
  | num c =>
    cases b with
    | num c2 => injection h with h; subst h; cases hv
    | raw q => cases h
    | mdl κ p => exact Or.inr (rsub_kind (o := .num c) h (fun _ => rfl) f hv)
  | raw q =>
    cases b with
    | num c2 => cases h
    | raw q2 => cases h
    | mdl κ p => exact Or.inr (rsub_kind (o := .raw q) h (fun _ => rfl) f hv)
  | mdl κ p =>
    cases b with
    | num c => obtain ⟨r, rfl⟩ := mdlop_kind h; exact Or.inl hv
    | raw q => obtain ⟨r, rfl⟩ := mdlop_kind h; exact Or.inl hv
    | mdl κ2 q => obtain ⟨r, rfl⟩ := mdlop_kind h; exact Or.inl hv

/-- errors of a unary operator -/
def UnErr (a : Val) (e : Err) : Prop := e = .type ∨ (e = .key ∧ Val.has Kind.isDeg2 a = true)

theorem Val.neg_err {a : Val} {e : Err} (h : Val.neg a = .error e) : UnErr a e := by
  cases a with
  | num c => cases h
  | raw q => injection h with h; exact Or.inl h.symm
  | mdl κ p => exact Or.inr (mulModel_err (b := .num (-1)) h)

theorem Val.neg_has (f : Kind → Bool) {a v : Val} (h : Val.neg a = .ok v)
    (hv : Val.has f v = true) : Val.has f a = true := by
  cases a with
  | num c => injection h with h; subst h; cases hv
  | raw q => cases h
  | mdl κ p => obtain ⟨r, rfl⟩ := mulModel_kind (b := .num (-1)) h; exact hv

theorem pos_shape_err {κ : Kind} {p : Poly} {e : Err}
    (h : (construct (squash κ) p >>= fun r => pure (Val.mdl κ r)) = .error e) : KeyBy κ.isDeg2 e := by
  simp only [bind_err_iff, pure, Except.pure] at h
  rcases h with h | ⟨r, _, h⟩
  · exact construct_err (squash_err κ) h
  · cases h

theorem pos_shape_kind {κ : Kind} {p : Poly} {v : Val}
    (h : (construct (squash κ) p >>= fun r => pure (Val.mdl κ r)) = .ok v) : ∃ r, v = .mdl κ r := by
  simp only [bind_ok_iff, pure, Except.pure] at h
  obtain ⟨r, _, h⟩ := h
  injection h with h
  exact ⟨r, h.symm⟩

theorem Val.pos_err {a : Val} {e : Err} (h : Val.pos a = .error e) : UnErr a e := by
  cases a with
  | num c => cases h
  | raw q => injection h with h; exact Or.inl h.symm
  | mdl κ p => exact Or.inr (pos_shape_err h)

theorem Val.pos_has (f : Kind → Bool) {a v : Val} (h : Val.pos a = .ok v)
    (hv : Val.has f v = true) : Val.has f a = true := by
  cases a with
  | num c => injection h with h; subst h; cases hv
  | raw q => cases h
  | mdl κ p => obtain ⟨r, rfl⟩ := pos_shape_kind h; exact hv

theorem Val.pow_err {a : Val} {n : Int} {e : Err} (h : Val.pow a n = .error e) :
    UnErr a e ∨ (e = .value ∧ n ≤ 0) := by
  cases a with
  | num c => injection h with h; exact Or.inl (Or.inl h.symm)
  | raw q => injection h with h; exact Or.inl (Or.inl h.symm)
  | mdl κ p =>
    refine mdlop_err (fun hk => Or.inl (Or.inr hk)) (fun _ h' => ?_) h
    rcases ipow_err (squash_err κ) h' with hv | hk
    · exact Or.inr hv
    · exact Or.inl (Or.inr hk)

theorem Val.pow_has (f : Kind → Bool) {a v : Val} {n : Int} (h : Val.pow a n = .ok v)
    (hv : Val.has f v = true) : Val.has f a = true := by
  cases a with
  | num c => cases h
  | raw q => cases h
  | mdl κ p => obtain ⟨r, rfl⟩ := mdlop_kind h; exact hv

theorem Val.div_err {a : Val} {c : Rat} {e : Err} (h : Val.div a c = .error e) :
    UnErr a e ∨ (e = .zerodiv ∧ c = 0) := by
  cases a with
  | num c2 =>
    simp only [Val.div] at h
    split at h
    · rename_i hc; injection h with h; exact Or.inr ⟨h.symm, hc⟩
    · cases h
  | raw q => injection h with h; exact Or.inl (Or.inl h.symm)
  | mdl κ p =>
    refine mdlop_err (fun hk => Or.inl (Or.inr hk)) (fun _ h' => ?_) h
    rcases idivC_err (squash_err κ) h' with hv | hk
    · exact Or.inr ⟨hv.1, hv.2.1⟩
    · exact Or.inl (Or.inr hk)

theorem Val.div_has (f : Kind → Bool) {a v : Val} {c : Rat} (h : Val.div a c = .ok v)
    (hv : Val.has f v = true) : Val.has f a = true := by
  cases a with
  | num c2 =>
    simp only [Val.div] at h
    split at h
    · cases h
    · injection h with h; subst h; cases hv
  | raw q => cases h
  | mdl κ p => obtain ⟨r, rfl⟩ := mdlop_kind h; exact hv

theorem Val.cast_err {κ : Kind} {a : Val} {e : Err} (h : Val.cast κ a = .error e) :
    e = .type ∨ KeyBy κ.isDeg2 e := by
  cases a with
  | num c => injection h with h; exact Or.inl h.symm
  | raw q => exact Or.inr (pos_shape_err h)
  | mdl κ2 q => exact Or.inr (pos_shape_err h)

theorem Val.cast_kind {κ : Kind} {a v : Val} (h : Val.cast κ a = .ok v) : ∃ r, v = .mdl κ r := by
  cases a with
  | num c => cases h
  | raw q => exact pos_shape_kind h
  | mdl κ2 q => exact pos_shape_kind h

/-! ### trees -/

/-- some model node (`κ(dict)` leaf or copy-constructor `κ(·)`) of the tree has a type satisfying `f` -/
def Expr.has (f : Kind → Bool) : Expr → Bool
  | .num _ => false
  | .raw _ => false
  | .mdl κ _ => f κ
  | .cast κ a => f κ || Expr.has f a
  | .add a b => Expr.has f a || Expr.has f b
  | .sub a b => Expr.has f a || Expr.has f b
  | .mul a b => Expr.has f a || Expr.has f b
  | .pow a _ => Expr.has f a
  | .neg a => Expr.has f a
  | .pos a => Expr.has f a
  | .div a _ => Expr.has f a

/-- the tree contains `a ** e` with `e ≤ 0` -/
def Expr.badPow : Expr → Bool
  | .num _ => false
  | .raw _ => false
  | .mdl _ _ => false
  | .cast _ a => Expr.badPow a
  | .add a b => Expr.badPow a || Expr.badPow b
  | .sub a b => Expr.badPow a || Expr.badPow b
  | .mul a b => Expr.badPow a || Expr.badPow b
  | .pow a e => decide (e ≤ 0) || Expr.badPow a
  | .neg a => Expr.badPow a
  | .pos a => Expr.badPow a
  | .div a _ => Expr.badPow a

/-- the tree contains `a / 0` -/
def Expr.zeroDiv : Expr → Bool
  | .num _ => false
  | .raw _ => false
  | .mdl _ _ => false
  | .cast _ a => Expr.zeroDiv a
  | .add a b => Expr.zeroDiv a || Expr.zeroDiv b
  | .sub a b => Expr.zeroDiv a || Expr.zeroDiv b
  | .mul a b => Expr.zeroDiv a || Expr.zeroDiv b
  | .pow a _ => Expr.zeroDiv a
  | .neg a => Expr.zeroDiv a
  | .pos a => Expr.zeroDiv a
  | .div a c => decide (c = 0) || Expr.zeroDiv a

/-- the type of a model produced by a tree is the type of one of the tree's model nodes -/
theorem run_has (f : Kind → Bool) (t : Expr) : ∀ {v : Val}, run t = .ok v →
    Val.has f v = true → Expr.has f t = true := by
  induction t with
  | num c => intro v h hv; injection h with h; subst h; cases hv
  | raw p => intro v h hv; injection h with h; subst h; cases hv
  | mdl κ p =>
    intro v h hv
    obtain ⟨r, rfl⟩ := pos_shape_kind h
    exact hv
  | cast κ a ih =>
    intro v h hv
    simp only [run, bind_ok_iff] at h
    obtain ⟨va, _, h⟩ := h
    obtain ⟨r, rfl⟩ := Val.cast_kind h
    simp only [Expr.has, Bool.or_eq_true]
    exact Or.inl hv
  | add a b iha ihb =>
    intro v h hv
    simp only [run, bind_ok_iff] at h
    obtain ⟨va, hva, vb, hvb, h⟩ := h
    simp only [Expr.has, Bool.or_eq_true]
    rcases Val.add_has f h hv with h' | h'
    · exact Or.inl (iha hva h')
    · exact Or.inr (ihb hvb h')
  | sub a b iha ihb =>
    intro v h hv
    simp only [run, bind_ok_iff] at h
    obtain ⟨va, hva, vb, hvb, h⟩ := h
    simp only [Expr.has, Bool.or_eq_true]
    rcases Val.sub_has f h hv with h' | h'
    · exact Or.inl (iha hva h')
    · exact Or.inr (ihb hvb h')
  | mul a b iha ihb =>
    intro v h hv
    simp only [run, bind_ok_iff] at h
    obtain ⟨va, hva, vb, hvb, h⟩ := h
    simp only [Expr.has, Bool.or_eq_true]
    rcases Val.mul_has f h hv with h' | h'
    · exact Or.inl (iha hva h')
    · exact Or.inr (ihb hvb h')
  | pow a n ih =>
    intro v h hv
    simp only [run, bind_ok_iff] at h
    obtain ⟨va, hva, h⟩ := h
    exact ih hva (Val.pow_has f h hv)
  | neg a ih =>
    intro v h hv
    simp only [run, bind_ok_iff] at h
    obtain ⟨va, hva, h⟩ := h
    exact ih hva (Val.neg_has f h hv)
  | pos a ih =>
    intro v h hv
    simp only [run, bind_ok_iff] at h
    obtain ⟨va, hva, h⟩ := h
    exact ih hva (Val.pos_has f h hv)
  | div a c ih =>
    intro v h hv
    simp only [run, bind_ok_iff] at h
    obtain ⟨va, hva, h⟩ := h
    exact ih hva (Val.div_has f h hv)

/-- the four ways a tree can fail -/
def ErrCases (t : Expr) (e : Err) : Prop :=
  e = .type ∨ (e = .key ∧ Expr.has Kind.isDeg2 t = true) ∨ (e = .value ∧ Expr.badPow t = true) ∨
    (e = .zerodiv ∧ Expr.zeroDiv t = true)

theorem ErrCases.mono {t t' : Expr} {e : Err} (h : ErrCases t e)
    (h1 : Expr.has Kind.isDeg2 t = true → Expr.has Kind.isDeg2 t' = true)
    (h2 : Expr.badPow t = true → Expr.badPow t' = true)
    (h3 : Expr.zeroDiv t = true → Expr.zeroDiv t' = true) : ErrCases t' e := by
  rcases h with h | ⟨h, h'⟩ | ⟨h, h'⟩ | ⟨h, h'⟩
  · exact Or.inl h
  · exact Or.inr (Or.inl ⟨h, h1 h'⟩)
  · exact Or.inr (Or.inr (Or.inl ⟨h, h2 h'⟩))
  · exact Or.inr (Or.inr (Or.inr ⟨h, h3 h'⟩))

theorem or_l {a b : Bool} (h : a = true) : (a || b) = true := by simp [h]
theorem or_r {a b : Bool} (h : b = true) : (a || b) = true := by simp [h]

theorem binErr_cases {op : Expr → Expr → Expr} {a b : Expr} {va vb : Val} {e : Err}
    (hop : ∀ f, Expr.has f (op a b) = (Expr.has f a || Expr.has f b))
    (hva : run a = .ok va) (hvb : run b = .ok vb) (h : BinErr va vb e) : ErrCases (op a b) e := by
  rcases h with h | ⟨h, h' | h'⟩
  · exact Or.inl h
  · exact Or.inr (Or.inl ⟨h, by rw [hop]; exact or_l (run_has _ a hva h')⟩)
  · exact Or.inr (Or.inl ⟨h, by rw [hop]; exact or_r (run_has _ b hvb h')⟩)

/-- **every failure of `run` is one of the four cases, each traced to a node of the tree** -/
theorem run_err (t : Expr) : ∀ {e : Err}, run t = .error e → ErrCases t e := by
  induction t with
  | num c => intro e h; cases h
  | raw p => intro e h; cases h
  | mdl κ p =>
    intro e h
    have hk := pos_shape_err h
    exact Or.inr (Or.inl ⟨hk.1, hk.2⟩)
  | cast κ a ih =>
    intro e h
    simp only [run, bind_err_iff] at h
    rcases h with h | ⟨va, _, h⟩
    · exact (ih h).mono (fun h' => or_r h') id id
    · rcases Val.cast_err h with h' | hk
      · exact Or.inl h'
      · exact Or.inr (Or.inl ⟨hk.1, or_l hk.2⟩)
  | add a b iha ihb =>
    intro e h
    simp only [run, bind_err_iff] at h
    rcases h with h | ⟨va, hva, h | ⟨vb, hvb, h⟩⟩
    · exact (iha h).mono (fun h' => or_l h') (fun h' => or_l h') (fun h' => or_l h')
    · exact (ihb h).mono (fun h' => or_r h') (fun h' => or_r h') (fun h' => or_r h')
    · exact binErr_cases (op := .add) (fun _ => rfl) hva hvb (Val.add_err h)
  | sub a b iha ihb =>
    intro e h
    simp only [run, bind_err_iff] at h
    rcases h with h | ⟨va, hva, h | ⟨vb, hvb, h⟩⟩
    · exact (iha h).mono (fun h' => or_l h') (fun h' => or_l h') (fun h' => or_l h')
    · exact (ihb h).mono (fun h' => or_r h') (fun h' => or_r h') (fun h' => or_r h')
    · exact binErr_cases (op := .sub) (fun _ => rfl) hva hvb (Val.sub_err h)
  | mul a b iha ihb =>
    intro e h
    simp only [run, bind_err_iff] at h
    rcases h with h | ⟨va, hva, h | ⟨vb, hvb, h⟩⟩
    · exact (iha h).mono (fun h' => or_l h') (fun h' => or_l h') (fun h' => or_l h')
    · exact (ihb h).mono (fun h' => or_r h') (fun h' => or_r h') (fun h' => or_r h')
    · exact binErr_cases (op := .mul) (fun _ => rfl) hva hvb (Val.mul_err h)
  | pow a n ih =>
    intro e h
    simp only [run, bind_err_iff] at h
    rcases h with h | ⟨va, hva, h⟩
    · exact (ih h).mono id (fun h' => or_r h') id
    · rcases Val.pow_err h with (h' | ⟨h1, h2⟩) | ⟨h1, h2⟩
      · exact Or.inl h'
      · exact Or.inr (Or.inl ⟨h1, run_has _ a hva h2⟩)
      · exact Or.inr (Or.inr (Or.inl ⟨h1, or_l (by simpa using h2)⟩))
  | neg a ih =>
    intro e h
    simp only [run, bind_err_iff] at h
    rcases h with h | ⟨va, hva, h⟩
    · exact (ih h).mono id id id
    · rcases Val.neg_err h with h' | ⟨h1, h2⟩
      · exact Or.inl h'
      · exact Or.inr (Or.inl ⟨h1, run_has _ a hva h2⟩)
  | pos a ih =>
    intro e h
    simp only [run, bind_err_iff] at h
    rcases h with h | ⟨va, hva, h⟩
    · exact (ih h).mono id id id
    · rcases Val.pos_err h with h' | ⟨h1, h2⟩
      · exact Or.inl h'
      · exact Or.inr (Or.inl ⟨h1, run_has _ a hva h2⟩)
  | div a c ih =>
    intro e h
    simp only [run, bind_err_iff] at h
    rcases h with h | ⟨va, hva, h⟩
    · exact (ih h).mono id id (fun h' => or_r h')
    · rcases Val.div_err h with (h' | ⟨h1, h2⟩) | ⟨h1, h2⟩
      · exact Or.inl h'
      · exact Or.inr (Or.inl ⟨h1, run_has _ a hva h2⟩)
      · exact Or.inr (Or.inr (Or.inr ⟨h1, or_l (by simpa using h2)⟩))

/-! ### observers used by the non-vacuity examples (decidable without `DecidableEq Val`) -/

/-- type and stored terms of a model value -/
def terms? : Except Err Val → Option (Kind × Poly)
  | .ok (.mdl κ p) => some (κ, p)
  | _ => none

/-- the exception, if any -/
def errOf : Except Err Val → Option Err
  | .error e => some e
  | .ok _ => none

end Qv.ExprErr
