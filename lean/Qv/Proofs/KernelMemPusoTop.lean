import Qv.Proofs.KernelMemPuso
import Qv.Proofs.KernelMemQusoTop
/-!
# Qv.Proofs.KernelMemPusoTop — `c_anneal_puso` end to end on `WF` arguments
-/
namespace Qv.KMem
open Qv.Kernel (Src OfInt ofInt)

theorem length_le_sum_of_pos : ∀ {l : List Int}, (∀ x ∈ l, 1 ≤ x) → (l.length : Int) ≤ l.sum
  | [], _ => by simp
  | a :: r, h => by
    have h1 := h a (by simp)
    have h2 := length_le_sum_of_pos (l := r) (fun x hx => h x (by simp [hx]))
    simp only [List.sum_cons, List.length_cons]
    omega

section
variable {α ρ : Type} [Add α] [Mul α] [OfInt α]

theorem cAnnealPuso_ok (guard : Bool) (src : Src ρ α) (lenState : Int) (nc terms : List Int) (cs Ts : List α)
    (numAnneals : Int) (inOrder : Bool) (init : List Int) (rng : ρ) (hsrc : IndexOK src lenState.toNat)
    (wf : WFPuso lenState nc terms cs Ts numAnneals init) (hg : guard = true ∨ 1 ≤ cs.length) :
    Ok (cAnnealPuso guard src lenState nc terms cs Ts numAnneals inOrder init rng)
      (GoodOut numAnneals.toNat lenState.toNat) := by
  obtain ⟨hN1, hnclen, hncpos, hncsum, htermslt, hinit, hna, htot, hterms, hTs⟩ := wf
  obtain ⟨na, rfl⟩ : ∃ na : Nat, numAnneals = (na : Int) := ⟨numAnneals.toNat, by omega⟩
  obtain ⟨N, rfl⟩ : ∃ N : Nat, lenState = (N : Int) := ⟨lenState.toNat, by omega⟩
  simp only [INT_MAX] at htot hterms hTs
  simp only [Int.toNat_natCast] at hsrc ⊢
  have htot' : na * N ≤ 2147483647 := by
    have : ((na * N : Nat) : Int) = (na : Int) * (N : Int) := by simp
    omega
  have hna' : 1 ≤ na := by omega
  have hN1' : 1 ≤ N := by omega
  have hNle : N ≤ 2147483647 := Nat.le_trans (le_mul_right' hna') htot'
  have hnale : na ≤ 2147483647 := Nat.le_trans (le_mul_left' hN1') htot'
  have hncnn : ∀ x ∈ nc, 0 ≤ x := fun x hx => by have := hncpos x hx; omega
  have hT : (cs.length : Int) ≤ (terms.length : Int) := by
    have := length_le_sum_of_pos hncpos
    omega
  unfold cAnnealPuso
  refine Ok.bind (toInt_ok (by omega)) fun lenState e => ?_
  subst e
  refine Ok.bind (toInt_ok (by omega)) fun lenTs e => ?_
  subst e
  refine Ok.bind (malloc_nat_ok Ts.length 8 Any (by omega)) fun TsB0 hTsB0 => ?_
  refine Ok.bind (chkLong_ok (by omega)) fun numTerms e => ?_
  subst e
  refine Ok.bind (malloc_nat_ok cs.length 4 Any (by omega)) fun ncB0 hncB0 => ?_
  refine Ok.bind (chkLong_ok (by omega)) fun lenTerms e => ?_
  subst e
  refine Ok.bind (malloc_nat_ok terms.length 4 Any (by omega)) fun termsB0 htermsB0 => ?_
  refine Ok.bind (malloc_nat_ok cs.length 8 Any (by omega)) fun csB0 hcsB0 => ?_
  simp only [Int.toNat_natCast]
  refine Ok.bind (marshal_ok (p := fun _ v => 0 ≤ v ∧ v < (N : Int)) htermsB0 (by omega) fun i v _ hv => ?_)
    fun termsB htermsB => ?_
  · have hm := htermslt v (mem_of_getElem? hv)
    refine (toInt_ok (by omega)).mono fun w hw => by rw [hw]; exact hm
  have hnc_le : ∀ x ∈ nc, x ≤ 2147483647 := fun x hx => by
    have := le_sum_of_mem hncnn x hx
    omega
  refine Ok.bind (marshal_ok (p := fun i v => nc[i]? = some v) hncB0 (by omega) fun i v _ hv => ?_) fun ncB hncB => ?_
  · have hm := mem_of_getElem? hv
    refine (toInt_ok ⟨by have := hncnn v hm; omega, hnc_le v hm⟩).mono fun w hw => by rw [hw]; exact hv
  refine Ok.bind (marshal_ok (p := Any) hcsB0 (by omega) fun i v _ _ => Ok.pure trivial) fun csB hcsB => ?_
  refine Ok.bind (marshal_ok (p := Any) hTsB0 (by omega) fun i v _ _ => Ok.pure trivial) fun TsB hTsB => ?_
  refine Ok.bind (malloc_nat_ok na 8 Any (by omega)) fun values0 hvalues0 => ?_
  refine Ok.bind (imul_flat (Nat.le_refl _) htot') fun total e => ?_
  subst e
  refine Ok.bind (malloc_nat_ok (na * N) 4 Spins (by omega)) fun states0 hstates0 => ?_
  have hinitlen : init.length ≤ 2147483647 := by
    rcases hinit with rfl | ⟨hl, _⟩
    · simp
    · omega
  refine Ok.bind (toInt_ok (by omega)) fun provided e => ?_
  subst e
  have ctx : PCtx { nc := ncB, terms := termsB, cs := csB } N cs.length nc terms.length :=
    { ncB := hncB, terms := htermsB, cs := hcsB, nc_len := hnclen, nc_nonneg := hncnn, nc_sum := hncsum,
      lenTerms_lt := by omega, N_le := by omega }
  have rest : ∀ (states : Buf Int) (k0 : Nat) (prov : Bool), states.Upto (na * N) k0 Spins →
      (prov = true → k0 = na * N) →
      Ok (do
        let sv ← annealPuso guard src (na : Int) states values0 (N : Int) cs.length
          { nc := ncB, terms := termsB, cs := csB } Ts.length TsB inOrder prov rng
        let out ← buildPy (na : Int) N sv.1 sv.2
        let ncB ← ncB.free
        let termsB ← termsB.free
        let csB ← csB.free
        let TsB ← TsB.free
        let states ← sv.1.free
        let values ← sv.2.free
        noLeak [ncB.live, termsB.live, csB.live, TsB.live, states.live, values.live]
        pure out) (GoodOut na N) := by
    intro states k0 prov hst hprov
    have hA := annealPuso_ok (src := src) ctx guard hg (by omega) hsrc inOrder prov hTsB (na : Int)
      (by simpa using htot') (states := states) (k0 := k0) (by simpa using hst) (by simpa using hprov)
      (values := values0) (by simpa using hvalues0) rng
    simp only [Int.toNat_natCast] at hA
    refine Ok.bind hA fun sv hsv => ?_
    refine Ok.bind (buildPy_ok htot' hsv.1 hsv.2) fun out hout => ?_
    refine Ok.bind (free_ok hncB.live) fun b1 h1 => ?_
    refine Ok.bind (free_ok htermsB.live) fun b2 h2 => ?_
    refine Ok.bind (free_ok hcsB.live) fun b3 h3 => ?_
    refine Ok.bind (free_ok hTsB.live) fun b5 h5 => ?_
    refine Ok.bind (free_ok hsv.1.live) fun b6 h6 => ?_
    refine Ok.bind (free_ok hsv.2.live) fun b7 h7 => ?_
    refine Ok.bind (noLeak_ok (by
      intro b hb
      simp at hb
      rcases hb with rfl | rfl | rfl | rfl | rfl | rfl
      · exact h1.1
      · exact h2.1
      · exact h3.1
      · exact h5.1
      · exact h6.1
      · exact h7.1)) fun _ _ => ?_
    exact Ok.pure hout
  split
  · rename_i hp
    have hne : init ≠ [] := fun e => hp (by simp [e])
    obtain ⟨hl, hsp⟩ := hinit.resolve_left hne
    refine Ok.bind (encodeInit_ok true (by omega) hsp htot' hstates0) fun states hst => ?_
    have hd : decide ((init.length : Int) ≠ 0) = true := by simpa using hp
    rw [hd]
    exact rest states (na * N) true hst (fun _ => rfl)
  · rename_i hp
    have hd : decide ((init.length : Int) ≠ 0) = false := by simpa using hp
    rw [hd]
    exact rest states0 0 false hstates0 (fun h => by simp at h)

end

end Qv.KMem
